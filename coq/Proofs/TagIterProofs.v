(* Proofs for C06: the C tag iterator (Model/TagIter.v) computes exactly Spec.TagSpec.spec_iterate,
   plus the intrinsic facts about the spec (chain / elements / reported). *)
From Coq Require Import List ZArith Lia Bool.
From LW Require Import Base.Bytes Model.TagIter Spec.TagSpec.
Import ListNotations.
Local Open Scope Z_scope.

(* ---------- destructing a suffix of the buffer ---------- *)
Lemma skipn_dest2 (buf : list byte) off a b rest : 0 <= off ->
  skipn (Z.to_nat off) buf = a :: b :: rest ->
  a = znth buf off /\ b = znth buf (off + 1) /\ zlen rest = zlen buf - off - 2 /\
  (forall k, 0 <= k -> skipn (Z.to_nat k) rest = skipn (Z.to_nat (off + 2 + k)) buf).
Proof.
  intros Hoff E.
  assert (Ha : a = znth buf off).
  { pose proof (znth_skipn buf off 0 Hoff (Z.le_refl 0)) as H. rewrite E in H.
    rewrite Z.add_0_r in H. rewrite <- H. reflexivity. }
  assert (Hb : b = znth buf (off + 1)).
  { pose proof (znth_skipn buf off 1 Hoff ltac:(lia)) as H. rewrite E in H.
    rewrite <- H. reflexivity. }
  assert (Hl : zlen rest = zlen buf - off - 2).
  { pose proof (skipn_length (Z.to_nat off) buf) as H. rewrite E in H. cbn [length] in H.
    unfold zlen. lia. }
  repeat split; try assumption.
  intros k Hk.
  replace (Z.to_nat (off + 2 + k)) with (S (S (Z.to_nat k)) + Z.to_nat off)%nat by lia.
  rewrite <- skipn_skipn'. rewrite E. reflexivity.
Qed.

Lemma skipn_short0 (buf : list byte) off : 0 <= off <= zlen buf ->
  skipn (Z.to_nat off) buf = [] -> zlen buf - off = 0.
Proof.
  intros H E. pose proof (zlen_skipn buf off H) as L. rewrite E in L. rewrite (@zlen_nil byte) in L. lia.
Qed.
Lemma skipn_short1 (buf : list byte) off a : 0 <= off <= zlen buf ->
  skipn (Z.to_nat off) buf = [a] -> zlen buf - off = 1.
Proof.
  intros H E. pose proof (zlen_skipn buf off H) as L. rewrite E in L.
  rewrite zlen_cons, (@zlen_nil byte) in L. lia.
Qed.

(* ---------- the chain: genuine, contiguous, short ---------- *)
Lemma chain_props buf : wfbytes buf -> forall cf off, 0 <= off <= zlen buf ->
  Forall (genuine buf) (chain cf (skipn (Z.to_nat off) buf) off) /\
  contiguous off (chain cf (skipn (Z.to_nat off) buf) off) /\
  2 * zlen (chain cf (skipn (Z.to_nat off) buf) off) <= zlen buf - off.
Proof.
  intros Hwf. induction cf as [|cf IH]; intros off Hoff.
  - cbn [chain contiguous]. rewrite (@zlen_nil elem). repeat split; [constructor | lia].
  - cbn [chain].
    destruct (skipn (Z.to_nat off) buf) as [|a [|b rest]] eqn:E;
      try (cbn [contiguous]; rewrite (@zlen_nil elem); repeat split; [constructor | lia]).
    destruct (zlen rest <? b) eqn:Hb;
      try (cbn [contiguous]; rewrite (@zlen_nil elem); repeat split; [constructor | lia]).
    apply Z.ltb_ge in Hb.
    destruct (skipn_dest2 buf off a b rest (proj1 Hoff) E) as (Ha & Hbb & Hl & Hsk).
    pose proof (zlen_nonneg rest) as Hr.
    assert (Hb0 : 0 <= b) by (rewrite Hbb; apply wfbytes_znth; [assumption | lia]).
    rewrite (Hsk b Hb0).
    destruct (IH (off + 2 + b) ltac:(lia)) as (G & C & L).
    split; [|split].
    + constructor; [|exact G].
      unfold genuine. cbn [e_off e_len e_num]. repeat split; try assumption; lia.
    + cbn [contiguous e_off e_len]. split; [reflexivity | exact C].
    + rewrite zlen_cons. lia.
Qed.

Lemma chain_stop buf : wfbytes buf -> forall cf off, 0 <= off <= zlen buf ->
  (Z.to_nat (zlen buf - off) < cf)%nat ->
  zlen buf - fold_left (fun _ e => e_off e + 2 + e_len e) (chain cf (skipn (Z.to_nat off) buf) off) off < 2 \/
  zlen buf - fold_left (fun _ e => e_off e + 2 + e_len e) (chain cf (skipn (Z.to_nat off) buf) off) off - 2
    < znth buf (fold_left (fun _ e => e_off e + 2 + e_len e) (chain cf (skipn (Z.to_nat off) buf) off) off + 1).
Proof.
  intros Hwf. induction cf as [|cf IH]; intros off Hoff Hf; [lia|].
  cbn [chain].
  destruct (skipn (Z.to_nat off) buf) as [|a [|b rest]] eqn:E.
  - cbn [fold_left]. left. pose proof (skipn_short0 buf off Hoff E). lia.
  - cbn [fold_left]. left. pose proof (skipn_short1 buf off a Hoff E). lia.
  - destruct (skipn_dest2 buf off a b rest (proj1 Hoff) E) as (Ha & Hbb & Hl & Hsk).
    pose proof (zlen_nonneg rest) as Hr.
    destruct (zlen rest <? b) eqn:Hb.
    + apply Z.ltb_lt in Hb. cbn [fold_left]. right. lia.
    + apply Z.ltb_ge in Hb.
      assert (Hb0 : 0 <= b) by (rewrite Hbb; apply wfbytes_znth; [assumption | lia]).
      rewrite (Hsk b Hb0). cbn [fold_left e_off e_len].
      apply IH; lia.
Qed.

Lemma elements_skipn buf : elements buf = chain (length buf + 1) (skipn (Z.to_nat 0) buf) 0.
Proof. reflexivity. Qed.

Lemma elements_props buf : wfbytes buf ->
  Forall (genuine buf) (elements buf) /\ contiguous 0 (elements buf) /\
  2 * zlen (elements buf) <= zlen buf.
Proof.
  intros Hwf. rewrite elements_skipn.
  pose proof (zlen_nonneg buf).
  destruct (chain_props buf Hwf (length buf + 1) 0 ltac:(lia)) as (G & C & L).
  repeat split; try assumption. lia.
Qed.

(* iteration reports the whole chain (finding F44: an empty element no longer ends it) *)
Lemma reported_all : forall buf, reported buf = elements buf.
Proof. reflexivity. Qed.

Lemma reported_incl buf e : In e (reported buf) -> In e (elements buf).
Proof. rewrite reported_all. auto. Qed.

(* ---------- the C06 lemmas about the spec ---------- *)
Lemma reported_genuine : forall buf e, wfbytes buf -> In e (reported buf) -> genuine buf e.
Proof.
  intros buf e Hwf Hin. destruct (elements_props buf Hwf) as (G & _ & _).
  rewrite Forall_forall in G. apply G. apply reported_incl. exact Hin.
Qed.

Lemma reported_contiguous : forall buf, wfbytes buf -> contiguous 0 (reported buf).
Proof.
  intros buf Hwf. destruct (elements_props buf Hwf) as (_ & C & _).
  rewrite reported_all. exact C.
Qed.

Lemma elements_maximal : forall buf, wfbytes buf ->
  contiguous 0 (elements buf) /\ Forall (genuine buf) (elements buf) /\
  let stop := fold_left (fun _ e => e_off e + 2 + e_len e) (elements buf) 0 in
  (zlen buf - stop < 2 \/ zlen buf - stop - 2 < znth buf (stop + 1)).
Proof.
  intros buf Hwf. destruct (elements_props buf Hwf) as (G & C & _).
  split; [exact C|]. split; [exact G|].
  cbv zeta. rewrite elements_skipn.
  pose proof (zlen_nonneg buf).
  apply chain_stop; [assumption | lia | unfold zlen; lia].
Qed.

Lemma reported_bound : forall buf, wfbytes buf -> 2 * zlen (reported buf) <= zlen buf.
Proof.
  intros buf Hwf. destruct (elements_props buf Hwf) as (_ & _ & L).
  rewrite reported_all. exact L.
Qed.

(* ---------- the C loop against the spec ---------- *)
Lemma walk_exact rd buf : wfbytes buf -> agrees rd buf ->
  forall fuel it cf off l,
  it_hdr it = off -> l = znth buf (off + 1) ->
  0 <= off -> off + 2 <= zlen buf ->
  it_next it = off + 2 + l -> off + 2 + l <= zlen buf -> it_end it = zlen buf - 1 ->
  (Z.to_nat (zlen buf - off) < fuel)%nat -> (Z.to_nat (zlen buf - (off + 2 + l)) < cf)%nat ->
  walk rd fuel it =
  Done ({| e_off := off; e_num := znth buf off; e_len := l |} ::
        chain cf (skipn (Z.to_nat (off + 2 + l)) buf) (off + 2 + l)).
Proof.
  intros Hwf Hag. induction fuel as [|fuel IH]; intros it cf off l Hh Hl Hoff Hoff2 Hn Hfit He Hf Hcf; [lia|].
  assert (Hl0 : 0 <= l) by (rewrite Hl; apply wfbytes_znth; [assumption | lia]).
  cbn [walk]. unfold cur_elem. rewrite Hh.
  rewrite (Hag off) by lia. cbn [bind]. rewrite (Hag (off + 1)) by lia. cbn [bind].
  rewrite <- Hl.
  unfold tag_next. rewrite He, Hn.
  destruct cf as [|cf]; [lia|]. cbn [chain].
  destruct (skipn (Z.to_nat (off + 2 + l)) buf) as [|a [|b rest]] eqn:E.
  - pose proof (skipn_short0 buf (off + 2 + l) ltac:(lia) E) as S0.
    destruct (zlen buf - 1 <=? off + 2 + l) eqn:C1; [|apply Z.leb_gt in C1; lia].
    cbn [bind]. reflexivity.
  - pose proof (skipn_short1 buf (off + 2 + l) a ltac:(lia) E) as S1.
    destruct (zlen buf - 1 <=? off + 2 + l) eqn:C1; [|apply Z.leb_gt in C1; lia].
    cbn [bind]. reflexivity.
  - destruct (skipn_dest2 buf (off + 2 + l) a b rest ltac:(lia) E) as (Ha & Hb & Hr & Hsk).
    pose proof (zlen_nonneg rest) as Hr0.
    destruct (zlen buf - 1 <=? off + 2 + l) eqn:C1; [apply Z.leb_le in C1; lia|].
    cbn [bind]. rewrite (Hag (off + 2 + l + 1)) by lia. cbn [bind]. rewrite <- Hb.
    assert (Hb0 : 0 <= b) by (rewrite Hb; apply wfbytes_znth; [assumption | lia]).
    destruct (zlen buf - 1 - (off + 2 + l) <=? b) eqn:C3.
    + apply Z.leb_le in C3. cbn [bind].
      destruct (zlen rest <? b) eqn:C4; [|apply Z.ltb_ge in C4; lia].
      reflexivity.
    + apply Z.leb_gt in C3.
      destruct (zlen rest <? b) eqn:C4; [apply Z.ltb_lt in C4; lia|].
      rewrite (Hag (off + 2 + l)) by lia. cbn [bind].
      rewrite (Hsk b Hb0).
      rewrite (IH _ cf (off + 2 + l) b); cbn [it_hdr it_next it_end]; try lia; try assumption.
      cbn [bind]. rewrite <- Ha. reflexivity.
Qed.

Lemma elements_unfold buf : elements buf =
  match buf with
  | n :: l :: rest =>
      if zlen rest <? l then []
      else {| e_off := 0; e_num := n; e_len := l |} :: chain (length buf) (skipn (Z.to_nat l) rest) (2 + l)
  | _ => []
  end.
Proof.
  unfold elements. rewrite Nat.add_1_r. destruct buf as [|a [|b rest]]; reflexivity.
Qed.

Lemma iterate_exact : forall buf rd, wfbytes buf -> agrees rd buf ->
  iterate rd (zlen buf) = Done (spec_iterate buf).
Proof.
  intros buf rd Hwf Hag. unfold iterate, tag_init, spec_iterate, reported.
  rewrite elements_unfold.
  destruct buf as [|a [|b rest]] eqn:EB.
  - reflexivity.
  - reflexivity.
  - rewrite <- EB in *.
    assert (Hlen : zlen buf = 2 + zlen rest) by (rewrite EB, !zlen_cons; lia).
    pose proof (zlen_nonneg rest) as Hr0.
    destruct (zlen buf <? 2) eqn:C0; [apply Z.ltb_lt in C0; lia|].
    rewrite (Hag 1) by lia. cbn [bind].
    assert (Hb : znth buf 1 = b) by (rewrite EB; reflexivity).
    assert (Ha : znth buf 0 = a) by (rewrite EB; reflexivity).
    rewrite Hb.
    assert (Hb0 : 0 <= b) by (rewrite <- Hb; apply wfbytes_znth; [assumption | lia]).
    destruct (zlen buf - 2 <? b) eqn:C1.
    + apply Z.ltb_lt in C1. destruct (zlen rest <? b) eqn:C2; [|apply Z.ltb_ge in C2; lia].
      reflexivity.
    + apply Z.ltb_ge in C1. destruct (zlen rest <? b) eqn:C2; [apply Z.ltb_lt in C2; lia|].
      cbn [bind].
      rewrite (walk_exact rd buf Hwf Hag _ _ (length buf) 0 b);
        cbn [it_hdr it_next it_end]; try lia; try (symmetry; assumption).
      * cbn [bind]. rewrite Ha.
        replace (skipn (Z.to_nat (0 + 2 + b)) buf) with (skipn (Z.to_nat b) rest).
        { reflexivity. }
        rewrite EB. replace (Z.to_nat (0 + 2 + b)) with (S (S (Z.to_nat b))) by lia. reflexivity.
      * unfold zlen in *. lia.
Qed.

Lemma first_refused : forall buf rd, wfbytes buf -> agrees rd buf ->
  (zlen buf < 2 \/ zlen buf - 2 < znth buf 1) -> iterate rd (zlen buf) = Done (Err (- EINVAL)).
Proof.
  intros buf rd Hwf Hag H. unfold iterate, tag_init.
  destruct (zlen buf <? 2) eqn:C0; [reflexivity|]. apply Z.ltb_ge in C0.
  rewrite (Hag 1) by lia. cbn [bind].
  destruct (zlen buf - 2 <? znth buf 1) eqn:C1; [reflexivity|]. apply Z.ltb_ge in C1. lia.
Qed.

(* ---------- completeness (finding F44): every element of the chain is reported ---------- *)
Lemma iterate_complete_all : forall buf rd, wfbytes buf -> agrees rd buf -> elements buf <> [] ->
  iterate rd (zlen buf) = Done (Ok (elements buf)).
Proof.
  intros buf rd Hwf Hag Hne. rewrite (iterate_exact buf rd Hwf Hag).
  unfold spec_iterate, reported. destruct (elements buf); [contradiction | reflexivity].
Qed.
