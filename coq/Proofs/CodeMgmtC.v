(* part of Proofs/CodeMgmt.v, split so that the parsers' proofs build in parallel *)
From Coq Require Import ZArith String Ascii List Bool Lia.
From LW Require Import Base.Bytes Base.CExpr Gen.Sites Proofs.SitesLemmas Proofs.CodeIter Proofs.CodeSecurity.
Import ListNotations.
Local Open Scope string_scope.
Local Open Scope Z_scope.
From LW Require Import Proofs.CodeMgmtDefs.

Theorem parse_assoc_resp_ok :
  parser_ok body_libwifi_parse_assoc_resp 1 6 "bss->tags.length" "bss->tags.parameters" (rule_bss 6) (bss_names 0).
Proof. unfold parser_ok, rule_bss, bss_names. parser_tac body_libwifi_parse_assoc_resp 1. Qed.

Theorem parse_reassoc_resp_ok :
  parser_ok body_libwifi_parse_reassoc_resp 3 6 "bss->tags.length" "bss->tags.parameters" (rule_bss 6) (bss_names 0).
Proof. unfold parser_ok, rule_bss, bss_names. parser_tac body_libwifi_parse_reassoc_resp 3. Qed.

