(* C11 - error detection: the frame check catches every single-bit error and every burst error of at
   most 32 bits, in frames of every length, anywhere in the frame (FCS trailer included).
   Route, entirely on the bit-serial division register of Spec/CRCSpec.v (no polynomial algebra):
   - reg_step is linear over xor, so running (frame xor error) from the preset register is
     (running the frame from the preset) xor (running the error from the zero register);
   - every valid frame leaves the same register content K (the residue);
   - an error pattern zeros ++ (1 :: w) ++ zeros with |w| < 32 leaves a nonzero register: leading zeros
     keep the zero register, the window of L <= 32 bits leaves what L zero-steps leave when started
     from the window written into the top of the register, and a zero-step never turns a nonzero
     register into zero (G has constant term 1);
   - so the corrupted frame does not leave K, hence is not valid, hence (verify_iff) is answered 0. *)
From Coq Require Import List ZArith Lia Bool.
From LW Require Import Base.Bytes Gen.Arith Model.CRC Spec.CRCSpec Proofs.CRCProofs.
Import ListNotations.
Local Open Scope Z_scope.

Definition zero_reg : reg := repeat false 32.
Definition run (bits : list bool) (r : reg) : reg := fold_left reg_step bits r.

Lemma run_cons b bits r : run (b :: bits) r = run bits (reg_step r b).
Proof. reflexivity. Qed.
Lemma run_app a b r : run (a ++ b) r = run b (run a r).
Proof. apply fold_left_app. Qed.
Lemma run_length bits r : length r = 32%nat -> length (run bits r) = 32%nat.
Proof. apply fold_step_length. Qed.

(* ---------- xor on bit lists ---------- *)
Lemma xor_reg_length : forall a b, length a = length b -> length (xor_reg a b) = length a.
Proof.
  induction a as [|x a IH]; intros [|y b] H; cbn [length] in H; try discriminate; [reflexivity|].
  cbn [xor_reg length]. rewrite IH by lia. reflexivity.
Qed.
Lemma xor_reg_shuffle : forall a b c d,
  xor_reg (xor_reg a b) (xor_reg c d) = xor_reg (xor_reg a c) (xor_reg b d).
Proof.
  induction a as [|x a IH]; intros [|y b] [|z c] [|w d]; cbn [xor_reg]; try reflexivity.
  f_equal; [destruct x, y, z, w; reflexivity | apply IH].
Qed.
Lemma xor_reg_zero_r : forall a, xor_reg a (repeat false (length a)) = a.
Proof.
  induction a as [|x a IH]; [reflexivity|].
  cbn [length repeat xor_reg]. rewrite IH, xorb_false_r. reflexivity.
Qed.
Lemma xor_reg_zero_l : forall a, xor_reg (repeat false (length a)) a = a.
Proof.
  induction a as [|x a IH]; [reflexivity|].
  cbn [length repeat xor_reg]. rewrite IH, xorb_false_l. reflexivity.
Qed.
Lemma xor_reg_self : forall a, xor_reg a a = repeat false (length a).
Proof.
  induction a as [|x a IH]; [reflexivity|].
  cbn [length repeat xor_reg]. rewrite IH, xorb_nilpotent. reflexivity.
Qed.
Lemma xor_reg_cancel : forall a b, length a = length b -> xor_reg a b = a -> b = repeat false (length a).
Proof.
  induction a as [|x a IH]; intros [|y b] HL H; cbn [length] in HL; try discriminate; [reflexivity|].
  cbn [xor_reg] in H. injection H as Hx Ha.
  cbn [length repeat]. f_equal.
  - destruct x, y; cbn in Hx; congruence.
  - apply IH; [lia | exact Ha].
Qed.
Lemma xor_reg_app : forall a c b d, length a = length c ->
  xor_reg (a ++ b) (c ++ d) = xor_reg a c ++ xor_reg b d.
Proof.
  induction a as [|x a IH]; intros [|z c] b d H; cbn [length] in H; try discriminate; [reflexivity|].
  cbn [app xor_reg]. rewrite IH by lia. reflexivity.
Qed.
Lemma xor_reg_nth : forall a b i, length a = length b ->
  nth i (xor_reg a b) false = xorb (nth i a false) (nth i b false).
Proof.
  induction a as [|x a IH]; intros [|y b] i H; cbn [length] in H; try discriminate.
  - destruct i; reflexivity.
  - destruct i; cbn [xor_reg nth]; [reflexivity | apply IH; lia].
Qed.
Lemma xor_reg_firstn : forall n a b, firstn n (xor_reg a b) = xor_reg (firstn n a) (firstn n b).
Proof.
  induction n as [|n IH]; intros [|x a] [|y b]; cbn [firstn xor_reg]; try reflexivity.
  rewrite IH. reflexivity.
Qed.
Lemma rev_repeat {A} (x : A) : forall n, rev (repeat x n) = repeat x n.
Proof.
  induction n as [|n IH]; [reflexivity|].
  cbn [repeat rev]. rewrite IH. symmetry. apply repeat_cons.
Qed.

(* ---------- the register step is linear over xor ---------- *)
Definition sel (fb : bool) : reg := if fb then g_low else zero_reg.

Lemma shift_up_length r : length r = 32%nat -> length (shift_up r) = 32%nat.
Proof. intros H. unfold shift_up. cbn [length]. rewrite firstn_length. lia. Qed.
Lemma reg_step_sel r bit : length r = 32%nat ->
  reg_step r bit = xor_reg (shift_up r) (sel (xorb bit (top r))).
Proof.
  intros H. unfold reg_step, sel.
  destruct (xorb bit (top r)); [reflexivity|].
  unfold zero_reg. rewrite <- (shift_up_length r H). symmetry. apply xor_reg_zero_r.
Qed.
Lemma top_xor r s : length r = length s -> top (xor_reg r s) = xorb (top r) (top s).
Proof. intros H. unfold top. apply xor_reg_nth, H. Qed.
Lemma shift_up_xor r s : shift_up (xor_reg r s) = xor_reg (shift_up r) (shift_up s).
Proof. unfold shift_up. rewrite xor_reg_firstn. reflexivity. Qed.
Lemma sel_xor a b : sel (xorb a b) = xor_reg (sel a) (sel b).
Proof. destruct a, b; vm_compute; reflexivity. Qed.

Lemma reg_step_lin r s a b : length r = 32%nat -> length s = 32%nat ->
  reg_step (xor_reg r s) (xorb a b) = xor_reg (reg_step r a) (reg_step s b).
Proof.
  intros Hr Hs.
  assert (Hrs : length (xor_reg r s) = 32%nat) by (rewrite xor_reg_length; lia).
  rewrite !reg_step_sel by assumption.
  rewrite top_xor, shift_up_xor by lia.
  replace (xorb (xorb a b) (xorb (top r) (top s))) with (xorb (xorb a (top r)) (xorb b (top s)))
    by (destruct a, b, (top r), (top s); reflexivity).
  rewrite sel_xor. apply xor_reg_shuffle.
Qed.

Lemma run_lin : forall m e r s, length m = length e -> length r = 32%nat -> length s = 32%nat ->
  run (xor_reg m e) (xor_reg r s) = xor_reg (run m r) (run e s).
Proof.
  induction m as [|a m IH]; intros [|b e] r s H Hr Hs; cbn [length] in H; try discriminate; [reflexivity|].
  cbn [xor_reg]. rewrite !run_cons, reg_step_lin by assumption.
  apply IH; [lia | apply reg_step_length, Hr | apply reg_step_length, Hs].
Qed.

(* ---------- feeding a register its own content, highest coefficient first, empties it ---------- *)
Lemma run_self : forall A Z, length (A ++ Z) = 32%nat ->
  run A (rev (A ++ Z)) = rev (Z ++ repeat false (length A)).
Proof.
  induction A as [|x A IH]; intros Z H.
  - cbn [app length repeat run fold_left]. rewrite app_nil_r. reflexivity.
  - cbn [app] in H |- *. cbn [length] in H.
    rewrite run_cons, reg_step_rev by lia. rewrite xorb_nilpotent.
    rewrite <- app_assoc, IH by (rewrite app_assoc, app_length; cbn [length]; lia).
    rewrite <- app_assoc. reflexivity.
Qed.
Lemma run_own r : length r = 32%nat -> run (rev r) r = zero_reg.
Proof.
  intros H.
  pose proof (run_self (rev r) [] ) as E. rewrite app_nil_r, rev_involutive, rev_length, H in E.
  rewrite E by reflexivity. reflexivity.
Qed.

(* ---------- zero steps: zero stays zero, nonzero stays nonzero ---------- *)
Lemma run_zeros_zero : forall i, run (repeat false i) zero_reg = zero_reg.
Proof. induction i as [|i IH]; [reflexivity|]. cbn [repeat]. rewrite run_cons. exact IH. Qed.

Lemma g_low_last : rev g_low = removelast (rev g_low) ++ [true].
Proof. vm_compute. reflexivity. Qed.

Lemma zero_step_nonzero r : length r = 32%nat -> reg_step r false = zero_reg -> r = zero_reg.
Proof.
  intros H E. destruct (rev_cons_inv r H) as (x & L & -> & HL).
  rewrite reg_step_rev, xorb_false_r in E by exact HL.
  apply (f_equal (@rev bool)) in E. rewrite rev_involutive in E.
  change (rev zero_reg) with (repeat false 31 ++ [false]) in E.
  destruct x.
  - exfalso. rewrite g_low_last, xor_reg_app in E by (rewrite HL; reflexivity).
    cbn [xor_reg xorb] in E. apply app_inj_tail in E. destruct E as [_ E]. discriminate.
  - apply app_inj_tail in E. destruct E as [E _]. rewrite E. reflexivity.
Qed.
Lemma run_zeros_nonzero : forall j r, length r = 32%nat ->
  run (repeat false j) r = zero_reg -> r = zero_reg.
Proof.
  induction j as [|j IH]; intros r H E; [exact E|].
  cbn [repeat] in E. rewrite run_cons in E.
  apply zero_step_nonzero; [exact H|]. apply IH; [apply reg_step_length, H | exact E].
Qed.

(* ---------- a window of at most 32 bits, from the zero register ---------- *)
Lemma window_embed b : (length b <= 32)%nat ->
  run b zero_reg = run (repeat false (length b)) (rev (b ++ repeat false (32 - length b))).
Proof.
  intros H.
  set (emb := rev (b ++ repeat false (32 - length b))).
  assert (Hemb : length emb = 32%nat).
  { unfold emb. rewrite rev_length, app_length, repeat_length. lia. }
  rewrite <- (xor_reg_self b).
  replace emb with (xor_reg emb zero_reg) at 1
    by (unfold zero_reg; rewrite <- Hemb; apply xor_reg_zero_r).
  rewrite run_lin by (auto; reflexivity).
  unfold emb at 1. rewrite run_self by (rewrite app_length, repeat_length; lia).
  rewrite <- repeat_app, rev_repeat.
  replace (32 - length b + length b)%nat with (length (run b zero_reg))
    by (rewrite run_length by reflexivity; lia).
  symmetry. apply xor_reg_zero_l.
Qed.

Lemma window_nonzero w : (length w < 32)%nat -> run (true :: w) zero_reg <> zero_reg.
Proof.
  intros H E. rewrite window_embed in E by (cbn [length]; lia).
  apply run_zeros_nonzero in E.
  2:{ rewrite rev_length, app_length, repeat_length. cbn [length]. cbn [length] in H. lia. }
  apply (f_equal (@rev bool)) in E. rewrite rev_involutive in E.
  cbn in E. discriminate.
Qed.

Lemma burst_nonzero e : burst32 e -> run e zero_reg <> zero_reg.
Proof.
  intros (i & w & j & -> & Hw) E.
  rewrite !run_app, run_zeros_zero in E.
  apply run_zeros_nonzero in E; [|apply run_length; reflexivity].
  exact (window_nonzero w Hw E).
Qed.

(* ---------- the FCS octets are the FCS bit stream ---------- *)
Lemma testbit_bits : forall l i, Z.testbit (bits_to_Z l) (Z.of_nat i) = nth i l false.
Proof.
  induction l as [|x l IH]; intros i.
  - cbn [bits_to_Z]. rewrite Z.testbit_0_l. destruct i; reflexivity.
  - rewrite bits_cons. destruct i as [|i].
    + apply Z.testbit_0_r.
    + rewrite Nat2Z.inj_succ, Z.testbit_succ_r by lia. apply IH.
Qed.
Lemma octet_bits_bits c : length c = 8%nat -> octet_bits (bits_to_Z c) = c.
Proof.
  intros H. unfold octet_bits.
  rewrite (map_ext _ (fun i => nth i c false)) by (intros i; apply testbit_bits).
  do 8 (destruct c as [|? c]; [discriminate H|]).
  destruct c; [reflexivity | discriminate H].
Qed.
Lemma message_bits_app a b : message_bits (a ++ b) = message_bits a ++ message_bits b.
Proof. apply flat_map_app. Qed.
Lemma message_bits_chunks l : length l = 32%nat -> message_bits (map bits_to_Z (chunks8 4 l)) = l.
Proof.
  intros H.
  do 32 (destruct l as [|? l]; [discriminate H|]).
  destruct l; [|discriminate H].
  cbn [chunks8 firstn skipn map message_bits flat_map].
  rewrite !octet_bits_bits by reflexivity. reflexivity.
Qed.
Lemma message_bits_fcs body : message_bits (fcs_octets body) = fcs_bits body.
Proof. apply message_bits_chunks, fcs_bits_length. Qed.

(* ---------- every valid frame leaves the same register content ---------- *)
Definition residue : reg := run (repeat true 32) zero_reg.

Lemma run_complement r : length r = 32%nat -> run (rev (map negb r)) r = residue.
Proof.
  intros H.
  assert (HL : length (rev r) = 32%nat) by (rewrite rev_length; exact H).
  rewrite <- map_rev, <- xor_ones, HL.
  replace r with (xor_reg r zero_reg) at 2
    by (unfold zero_reg; rewrite <- H; apply xor_reg_zero_r).
  rewrite run_lin by (auto; reflexivity).
  rewrite run_own by exact H. reflexivity.
Qed.

Lemma valid_residue f : valid_frame f -> remainder f = residue.
Proof.
  intros [Hlen Hv].
  assert (Hf : exists body, f = body ++ fcs_octets body).
  { exists (firstn (length f - 4) f). rewrite <- Hv. unfold lastn. symmetry. apply firstn_skipn. }
  destruct Hf as [body ->].
  unfold remainder. rewrite message_bits_app, message_bits_fcs.
  fold (run (message_bits body ++ fcs_bits body) reg_ones). rewrite run_app.
  unfold run at 2. fold (remainder body).
  apply run_complement, remainder_length.
Qed.

(* ---------- corruption on octets is xor on the bit stream ---------- *)
Lemma xor_bytes_cons x f y e : xor_bytes (x :: f) (y :: e) = Z.lxor x y :: xor_bytes f e.
Proof. reflexivity. Qed.
Lemma xor_bytes_length f e : length e = length f -> length (xor_bytes f e) = length f.
Proof. intros H. unfold xor_bytes. rewrite map_length, combine_length. lia. Qed.
Lemma octet_bits_xor a b : octet_bits (Z.lxor a b) = xor_reg (octet_bits a) (octet_bits b).
Proof. unfold octet_bits. cbn [seq map xor_reg]. rewrite !Z.lxor_spec. reflexivity. Qed.
Lemma octet_bits_length b : length (octet_bits b) = 8%nat.
Proof. reflexivity. Qed.
Lemma message_bits_xor : forall f e, length e = length f ->
  message_bits (xor_bytes f e) = xor_reg (message_bits f) (message_bits e).
Proof.
  induction f as [|x f IH]; intros [|y e] H; cbn [length] in H; try discriminate; [reflexivity|].
  rewrite xor_bytes_cons, !message_bits_cons, octet_bits_xor, IH by lia.
  symmetry. apply xor_reg_app. reflexivity.
Qed.
Lemma message_bits_length : forall f, length (message_bits f) = (8 * length f)%nat.
Proof.
  induction f as [|x f IH]; [reflexivity|].
  rewrite message_bits_cons, app_length, IH, octet_bits_length. cbn [length]. lia.
Qed.
Lemma lxor_byte a b : 0 <= a < 256 -> 0 <= b < 256 -> 0 <= Z.lxor a b < 256.
Proof.
  intros Ha Hb.
  assert (H0 : 0 <= Z.lxor a b) by (apply Z.lxor_nonneg; lia).
  split; [exact H0|].
  assert (Hs : Z.shiftr (Z.lxor a b) 8 = 0)
    by (rewrite Z.shiftr_lxor, !shiftr8_small by assumption; reflexivity).
  rewrite Z.shiftr_div_pow2 in Hs by lia. change (2 ^ 8) with 256 in Hs.
  pose proof (Z.div_mod (Z.lxor a b) 256) as D. pose proof (Z.mod_pos_bound (Z.lxor a b) 256) as M. lia.
Qed.
Lemma xor_bytes_wf : forall f e, wfbytes f -> wfbytes e -> wfbytes (xor_bytes f e).
Proof.
  induction f as [|x f IH]; intros [|y e] Hf He; try (constructor; fail).
  inversion Hf as [|? ? Hx Hf']; inversion He as [|? ? Hy He']; subst.
  rewrite xor_bytes_cons. constructor; [apply lxor_byte; assumption | apply IH; assumption].
Qed.

(* ---------- the theorems ---------- *)
Lemma corrupted_remainder f e : length e = length f ->
  remainder (xor_bytes f e) = xor_reg (remainder f) (run (message_bits e) zero_reg).
Proof.
  intros H. unfold remainder. rewrite message_bits_xor by exact H.
  change reg_ones with (xor_reg reg_ones zero_reg) at 1.
  apply run_lin; [|reflexivity|reflexivity].
  rewrite !message_bits_length. lia.
Qed.

Lemma burst_not_valid f e : length e = length f -> valid_frame f -> burst32 (message_bits e) ->
  ~ valid_frame (xor_bytes f e).
Proof.
  intros Hlen Hv Hb Hv'.
  apply valid_residue in Hv. apply valid_residue in Hv'.
  rewrite corrupted_remainder, Hv in Hv' by exact Hlen.
  apply xor_reg_cancel in Hv'.
  - exact (burst_nonzero _ Hb Hv').
  - rewrite run_length; reflexivity.
Qed.

Lemma burst_detected : forall f e rd,
  wfbytes f -> wfbytes e -> length e = length f -> valid_frame f -> burst32 (message_bits e) ->
  agrees rd (xor_bytes f e) ->
  frame_verify rd (zlen f) = Done 0.
Proof.
  intros f e rd Hwf Hwe Hlen Hv Hb Hag.
  pose proof (xor_bytes_length f e Hlen) as HL.
  assert (HZ : zlen (xor_bytes f e) = zlen f) by (unfold zlen; rewrite HL; reflexivity).
  assert (H4 : 4 <= zlen (xor_bytes f e)) by (rewrite HZ; exact (proj1 Hv)).
  destruct (verify_iff (xor_bytes f e) rd (xor_bytes_wf f e Hwf Hwe) Hag H4) as (r & Hr & Hcase & Hiff).
  rewrite HZ in Hr. rewrite Hr. f_equal.
  destruct Hcase as [H1|H0]; [|exact H0].
  exfalso. apply (burst_not_valid f e Hlen Hv Hb).
  split; [exact H4 | apply Hiff, H1].
Qed.

(* ---------- one flipped bit ---------- *)
Lemma message_bits_zeros : forall n, message_bits (repeat 0 n) = repeat false (8 * n).
Proof.
  induction n as [|n IH]; [reflexivity|].
  cbn [repeat]. rewrite message_bits_cons, IH.
  replace (8 * S n)%nat with (8 + 8 * n)%nat by lia. rewrite repeat_app. reflexivity.
Qed.
Lemma octet_bits_pow2 b : (b < 8)%nat ->
  octet_bits (2 ^ Z.of_nat b) = repeat false b ++ true :: repeat false (7 - b).
Proof.
  intros H. do 8 (destruct b as [|b]; [vm_compute; reflexivity|]). lia.
Qed.
Lemma single_bit_burst n k b : (b < 8)%nat -> burst32 (message_bits (single_bit_error n k b)).
Proof.
  intros Hb. unfold single_bit_error.
  exists (8 * k + b)%nat, [], (7 - b + 8 * (n - k - 1))%nat. split; [|cbn [length]; lia].
  rewrite message_bits_app, message_bits_cons, !message_bits_zeros, octet_bits_pow2 by exact Hb.
  rewrite !repeat_app, <- !app_assoc. reflexivity.
Qed.
Lemma single_bit_wf n k b : (b < 8)%nat -> wfbytes (single_bit_error n k b).
Proof.
  intros Hb. unfold single_bit_error.
  assert (Hz : forall m, wfbytes (repeat 0 m))
    by (intros m; apply Forall_forall; intros x Hx; apply repeat_spec in Hx; lia).
  apply wfbytes_app; [apply Hz|]. constructor; [|apply Hz].
  split; [lia|]. change 256 with (2 ^ 8). apply Z.pow_lt_mono_r; lia.
Qed.
Lemma single_bit_length n k b : (k < n)%nat -> length (single_bit_error n k b) = n.
Proof.
  intros H. unfold single_bit_error. rewrite app_length. cbn [length]. rewrite !repeat_length. lia.
Qed.
Lemma xor_bytes_zeros : forall f, xor_bytes f (repeat 0 (length f)) = f.
Proof.
  induction f as [|x f IH]; [reflexivity|].
  cbn [length repeat]. rewrite xor_bytes_cons, IH, Z.lxor_0_r. reflexivity.
Qed.
Lemma xor_bytes_app : forall a c b d, length a = length c ->
  xor_bytes (a ++ b) (c ++ d) = xor_bytes a c ++ xor_bytes b d.
Proof.
  induction a as [|x a IH]; intros [|z c] b d H; cbn [length] in H; try discriminate; [reflexivity|].
  cbn [app]. rewrite !xor_bytes_cons, IH by lia. reflexivity.
Qed.
Lemma xor_bytes_one a x c y :
  xor_bytes (a ++ x :: c) (repeat 0 (length a) ++ y :: repeat 0 (length c)) = a ++ Z.lxor x y :: c.
Proof.
  rewrite xor_bytes_app by (rewrite repeat_length; reflexivity).
  rewrite xor_bytes_cons, !xor_bytes_zeros. reflexivity.
Qed.
Lemma flip_bit_xor f k b : (k < length f)%nat ->
  flip_bit f k b = xor_bytes f (single_bit_error (length f) k b).
Proof.
  intros H. unfold flip_bit, single_bit_error.
  set (a := firstn k f). set (c := skipn (S k) f). set (x := nth k f 0).
  assert (Hf : f = a ++ x :: c).
  { unfold a, c, x. transitivity (firstn k f ++ skipn k f); [symmetry; apply firstn_skipn|]. f_equal. apply skipn_cons_nth, H. }
  assert (Hk : length a = k) by (unfold a; rewrite firstn_length; lia).
  assert (Hc : length c = (length f - k - 1)%nat) by (unfold c; rewrite skipn_length; lia).
  clearbody a c x.
  rewrite <- Hc, <- Hk, Hf. symmetry. apply xor_bytes_one.
Qed.

Lemma single_bit_detected : forall f k b rd,
  wfbytes f -> valid_frame f -> (k < length f)%nat -> (b < 8)%nat ->
  agrees rd (flip_bit f k b) ->
  frame_verify rd (zlen f) = Done 0.
Proof.
  intros f k b rd Hwf Hv Hk Hb Hag.
  rewrite flip_bit_xor in Hag by exact Hk.
  apply (burst_detected f (single_bit_error (length f) k b) rd); auto.
  - apply single_bit_wf, Hb.
  - apply single_bit_length, Hk.
  - apply single_bit_burst, Hb.
Qed.

(* ---------- the hypotheses are satisfiable; the model agrees on a concrete frame ---------- *)
Definition ex_frame : list byte := [1; 2; 3] ++ fcs_octets [1; 2; 3].
Definition ex_error : list byte := [0; 0; 128; 255; 255; 255; 127].   (* 32 bits across body and FCS *)

Example ex_hypotheses :
  wfbytes ex_frame /\ wfbytes ex_error /\ length ex_error = length ex_frame /\
  valid_frame ex_frame /\ burst32 (message_bits ex_error) /\
  agrees (rd_strict (xor_bytes ex_frame ex_error)) (xor_bytes ex_frame ex_error).
Proof.
  split; [apply wfbytesb_spec; vm_compute; reflexivity|].
  split; [apply wfbytesb_spec; vm_compute; reflexivity|].
  split; [vm_compute; reflexivity|].
  split; [split; [vm_compute; discriminate | vm_compute; reflexivity]|].
  split; [|apply agrees_strict].
  exists 23%nat, (repeat true 31), 1%nat. split; [vm_compute; reflexivity | cbn; lia].
Qed.
Example ex_intact_accepted : frame_verify (rd_strict ex_frame) (zlen ex_frame) = Done 1.
Proof. vm_compute. reflexivity. Qed.
Example ex_corrupted_rejected :
  frame_verify (rd_strict (xor_bytes ex_frame ex_error)) (zlen ex_frame) = Done 0.
Proof.
  destruct ex_hypotheses as (H1 & H2 & H3 & H4 & H5 & H6).
  exact (burst_detected _ _ _ H1 H2 H3 H4 H5 H6).
Qed.
Example ex_corrupted_rejected_computed :
  frame_verify (rd_strict (xor_bytes ex_frame ex_error)) (zlen ex_frame) = Done 0.
Proof. vm_compute. reflexivity. Qed.
