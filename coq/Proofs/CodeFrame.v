(* libwifi_get_wifi_frame AS TRANSLATED from core/frame/frame.c (Gen/Sites.v: body_libwifi_get_wifi_frame), without radiotap
   (radiotap = 0): with only the frame readable, the run never gets stuck, refuses (-EINVAL) exactly the inputs the model refuses,
   and otherwise slices the frame as the model says. *)
From Coq Require Import ZArith String List Bool Lia.
From LW Require Import Base.Bytes Base.CExpr Gen.Sites Spec.CodeSpec Proofs.SitesLemmas Proofs.CodeIter.
From LW Require Import Gen.Consts Gen.Layout Gen.Tables Model.Radiotap Model.Frame Spec.FrameSpec Proofs.FrameProofs.
Import ListNotations.
Local Open Scope string_scope.
Local Open Scope Z_scope.

(* ---------------------------------------------------------------- the body, cut after the switch on the frame type *)
Definition frame_head : list cstmt :=
  Eval cbv beta iota delta [firstn body_libwifi_get_wifi_frame] in firstn 9 body_libwifi_get_wifi_frame.
Definition frame_tail : list cstmt :=
  Eval cbv beta iota delta [skipn body_libwifi_get_wifi_frame] in skipn 9 body_libwifi_get_wifi_frame.
Lemma body_split : body_libwifi_get_wifi_frame = (frame_head ++ frame_tail)%list.
Proof. reflexivity. Qed.

(* the environment at the switch: fi-> zeroed, the locals initialised *)
Definition rhoS (rho : env) (a len : Z) : env :=
  upd (zeroed (upd (upd (upd (upd (upd (upd rho "frame" a) "frame_len" len) "radiotap" 0) "header_len" 0)
                        "frame_data_len" len) "frame_data" a) "fi->") "frame_control" a.

(* evaluation under environments built with upd / zeroed / clobber *)
Ltac cu :=
  cbv beta iota zeta delta [ceval evals binop b2z c_bits c_signed upd zeroed clobber rhoS String.eqb Ascii.eqb Bool.eqb
                            negb String.append u8 s8 u16 s16 u32 s32 u64 s64];
  repeat match goal with
         | |- context [String.prefix ?x ?y] =>
             let b := eval vm_compute in (String.prefix x y) in change (String.prefix x y) with b
         end;
  cbv beta iota.
Ltac cnow := cu; wrap_ids; reflexivity.


(* ---------------------------------------------------------------- after the switch: lengths, frame control, body *)
Definition tail_ret (hl len q : Z) : Z := if len =? hl then 0 else if q =? 0 then -12 else 0.
Definition tail_trace (pfc a hl len q : Z) : list event :=
  ("memcpy", [wrap u64 pfc; a; 2]) ::
  (if len =? hl then [] else
   ("malloc", [len - hl]) :: (if q =? 0 then [] else [("memcpy", [q; a + hl; len - hl])])).

Ltac tnow Hdl Hhl Hfc Hfd Hpfc Hq := cu; rewrite ?Hdl, ?Hhl, ?Hfc, ?Hfd, ?Hpfc, ?Hq; wrap_ids; reflexivity.

Lemma tail_run m rho tr a hl len q pfc fl :
  rho "frame_data_len" = len -> rho "header_len" = hl -> rho "frame_control" = a -> rho "frame_data" = a ->
  rho "&fi->frame_control" = pfc -> rho "ret:malloc" = q -> rho "fi->flags" = fl ->
  0 < a -> 0 <= hl <= len -> a + len < 2 ^ 62 -> 0 <= q < 2 ^ 62 ->
  exists rho1,
    exec 31 m rho tr frame_tail = Returned (Some (tail_ret hl len q)) rho1 (tr ++ tail_trace pfc a hl len q)%list /\
    rho1 "fi->len" = len /\ rho1 "fi->header_len" = hl /\ rho1 "fi->flags" = fl.
Proof.
  intros Hdl Hhl Hfc Hfd Hpfc Hqq Hfl Ha Hle Hend Hq.
  change (2 ^ 62) with 4611686018427387904 in *.
  unfold frame_tail, tail_ret, tail_trace.
  erewrite exec_set by tnow Hdl Hhl Hfc Hfd Hpfc Hqq.
  erewrite exec_set by tnow Hdl Hhl Hfc Hfd Hpfc Hqq.
  erewrite exec_call by tnow Hdl Hhl Hfc Hfd Hpfc Hqq.
  rewrite exec_clobber.
  erewrite exec_set by tnow Hdl Hhl Hfc Hfd Hpfc Hqq.
  erewrite exec_if_b2z by tnow Hdl Hhl Hfc Hfd Hpfc Hqq.
  destruct (Z.eqb_spec len hl) as [Heq | Hne].
  - destruct (Z.gtb_spec (len - hl) 0) as [Hgt | _]; [lia | ].
    eexists. split; [ erewrite exec_ret by tnow Hdl Hhl Hfc Hfd Hpfc Hqq; reflexivity | ].
    cu. auto.
  - destruct (Z.gtb_spec (len - hl) 0) as [_ | Hngt]; [ | lia].
    erewrite exec_call by tnow Hdl Hhl Hfc Hfd Hpfc Hqq.
    erewrite exec_set by tnow Hdl Hhl Hfc Hfd Hpfc Hqq.
    erewrite exec_if_b2z by tnow Hdl Hhl Hfc Hfd Hpfc Hqq.
    destruct (Z.eqb_spec q 0) as [Hq0 | Hqn].
    + eexists. split.
      * erewrite exec_ret by tnow Hdl Hhl Hfc Hfd Hpfc Hqq. cbv beta iota.
        apply Returned_eq; [reflexivity | reflexivity | ]. rewrite <- app_assoc. reflexivity.
      * cu. auto.
    + erewrite exec_call by tnow Hdl Hhl Hfc Hfd Hpfc Hqq.
      rewrite exec_nil.
      eexists. split.
      * erewrite exec_ret by tnow Hdl Hhl Hfc Hfd Hpfc Hqq.
        apply Returned_eq; [reflexivity | reflexivity | ]. rewrite <- !app_assoc. reflexivity.
      * cu. auto.
Qed.

(* ---------------------------------------------------------------- the bit-fields of the frame control, as loaded by the C code *)
Lemma shr2_land3 b : 0 <= b < 256 -> Z.land (Z.shiftr b 2) 3 = s_type b.
Proof. intros H. unfold s_type. rewrite Z.shiftr_div_pow2 by lia. change 3 with (Z.ones 2). rewrite Z.land_ones by lia. reflexivity. Qed.
Lemma shr4_land15 b : 0 <= b < 256 -> Z.land (Z.shiftr b 4) 15 = s_subtype b.
Proof.
  intros H. unfold s_subtype. rewrite Z.shiftr_div_pow2 by lia. change 15 with (Z.ones 4). rewrite Z.land_ones by lia.
  change (2 ^ 4) with 16. apply Z.mod_small. Z.div_mod_to_equations; lia.
Qed.
Lemma shr7_land1 b : 0 <= b < 256 -> Z.land (Z.shiftr b 7) 1 = b2z (s_ordered b).
Proof.
  intros H. unfold s_ordered. rewrite Z.shiftr_div_pow2 by lia. change 1 with (Z.ones 1) at 1. rewrite Z.land_ones by lia.
  change (2 ^ 7) with 128. change (2 ^ 1) with 2.
  destruct (Z.leb_spec 128 b); unfold b2z; Z.div_mod_to_equations; lia.
Qed.

Section Fields.
  Variables (rho : env) (a : Z) (buf : list byte).
  Hypothesis Hwf : wfbytes buf.
  Hypothesis Ha : 0 < a.
  Hypothesis Hend : a + zlen buf < 4611686018427387904.
  Hypothesis Hfc : rho "frame_control" = a.

  Ltac field_start Hfc :=
    cu; rewrite Hfc; wrap_ids; cbv beta iota.

  Lemma ev_type : 1 <= zlen buf ->
    ceval rho (mem_at a buf)
      (CCast (mkty true 32) (CCast (mkty false 32) (CBin OAnd u32 (CBin OShr u32 (CCast u32 (CLoad (mkty false 8)
         (CBin OAdd s64 (CVar (mkty false 64) "frame_control") (CLit s64 0)))) (CLit s32 2)) (CLit u32 3)))) =
    Some (s_type (znth buf 0)).
  Proof.
    intros Hl. pose proof (wfbytes_znth buf 0 Hwf ltac:(lia)) as Hb.
    field_start Hfc. rewrite (load_u8 a buf 0) by (assumption || lia). wrap_ids.
    change ((2 <? 0) || (32 <=? 2)) with false. cbv beta iota. wrap_ids.
    rewrite shr2_land3 by lia.
    assert (Ht : 0 <= s_type (znth buf 0) < 4) by (unfold s_type; Z.div_mod_to_equations; lia).
    wrap_ids. reflexivity.
  Qed.

  Lemma ev_subtype : 1 <= zlen buf ->
    ceval rho (mem_at a buf)
      (CCast (mkty true 32) (CCast (mkty false 32) (CBin OAnd u32 (CBin OShr u32 (CCast u32 (CLoad (mkty false 8)
         (CBin OAdd s64 (CVar (mkty false 64) "frame_control") (CLit s64 0)))) (CLit s32 4)) (CLit u32 15)))) =
    Some (s_subtype (znth buf 0)).
  Proof.
    intros Hl. pose proof (wfbytes_znth buf 0 Hwf ltac:(lia)) as Hb.
    field_start Hfc. rewrite (load_u8 a buf 0) by (assumption || lia). wrap_ids.
    change ((4 <? 0) || (32 <=? 4)) with false. cbv beta iota. wrap_ids.
    rewrite shr4_land15 by lia.
    assert (Ht : 0 <= s_subtype (znth buf 0) < 16) by (unfold s_subtype; Z.div_mod_to_equations; lia).
    wrap_ids. reflexivity.
  Qed.

  Lemma ev_order : 2 <= zlen buf ->
    ceval rho (mem_at a buf)
      (CCast (mkty false 32) (CBin OAnd u32 (CBin OShr u32 (CCast u32 (CLoad (mkty false 8)
         (CBin OAdd s64 (CVar (mkty false 64) "frame_control") (CLit s64 1)))) (CLit s32 7)) (CLit u32 1))) =
    Some (b2z (s_ordered (znth buf 1))).
  Proof.
    intros Hl. pose proof (wfbytes_znth buf 1 Hwf ltac:(lia)) as Hb.
    field_start Hfc. rewrite (load_u8 a buf 1) by (assumption || lia). wrap_ids.
    change ((7 <? 0) || (32 <=? 7)) with false. cbv beta iota. wrap_ids.
    rewrite shr7_land1 by lia. destruct (s_ordered (znth buf 1)); reflexivity.
  Qed.
End Fields.

(* ---------------------------------------------------------------- switch selection *)
Lemma pick_case_hit v labels body r d : existsb (Z.eqb v) labels = true -> pick_case v ((labels, body) :: r) d = body.
Proof. intros H. cbn [pick_case]. rewrite H. reflexivity. Qed.
Lemma pick_case_miss v labels body r d : existsb (Z.eqb v) labels = false -> pick_case v ((labels, body) :: r) d = pick_case v r d.
Proof. intros H. cbn [pick_case]. rewrite H. reflexivity. Qed.

(* the case labels of the inner switch (the QoS data subtypes, as the C source lists them) are Spec/FrameSpec.v's s_qos,
   and Gen/Tables.v's qos_subtypes *)
Lemma qos_labels st : 0 <= st < 16 -> existsb (Z.eqb st) [8; 12; 9; 11; 10; 15; 14] = s_qos st.
Proof.
  intros H.
  assert (C : st = 0 \/ st = 1 \/ st = 2 \/ st = 3 \/ st = 4 \/ st = 5 \/ st = 6 \/ st = 7 \/ st = 8 \/ st = 9 \/ st = 10 \/
              st = 11 \/ st = 12 \/ st = 13 \/ st = 14 \/ st = 15) by lia.
  repeat (destruct C as [-> | C]; [reflexivity | ]). subst st. reflexivity.
Qed.

(* ---------------------------------------------------------------- what the run is expected to do *)
(* the flags the classification sets (radiotap absent): IS_QOS for QoS data, IS_ORDERED for management with the order bit *)
Definition s_flags (b0 b1 : Z) : Z :=
  if (s_type b0 =? T_DATA) && s_qos (s_subtype b0) then FL_QOS
  else if (s_type b0 =? T_MGMT) && s_ordered b1 then FL_ORDERED else 0.

(* the copies of the header into the local union fh, by kind (addresses of locals are unknowns of the environment) *)
Definition hdr_copies (rho : env) (a b0 b1 : Z) : list event :=
  if s_type b0 =? T_DATA then
    if s_qos (s_subtype b0)
    then [("memset", [wrap u64 (rho "&fh.data_qos"); 0; 26]); ("memcpy", [wrap u64 (rho "&fh.data_qos"); a; 26])]
    else [("memset", [wrap u64 (rho "&fh.data"); 0; 24]); ("memcpy", [wrap u64 (rho "&fh.data"); a; 24])]
  else if s_type b0 =? T_MGMT then
    if s_ordered b1 then [("memcpy", [wrap u64 (rho "&fh.mgmt_ordered"); a; 28])]
    else [("memcpy", [wrap u64 (rho "&fh.mgmt_unordered"); a; 24])]
  else [("memcpy", [wrap u64 (rho "&fh.ctrl"); a; 4])].

(* every memcpy of a trace reads inside [lo, hi) *)
Fixpoint copies_inside (lo hi : Z) (tr : list event) : Prop :=
  match tr with
  | [] => True
  | (f, args) :: r =>
      (if String.eqb f "memcpy" then match args with [_; s; n] => lo <= s /\ 0 <= n /\ s + n <= hi | _ => False end else True) /\
      copies_inside lo hi r
  end.

Lemma copies_inside_app lo hi t1 t2 : copies_inside lo hi t1 -> copies_inside lo hi t2 -> copies_inside lo hi (t1 ++ t2).
Proof. induction t1 as [ | [f args] r IH]; intros H1 H2; [exact H2 | ]. destruct H1 as [H1 H1']. split; [exact H1 | apply IH; assumption]. Qed.

Definition frame_run (buf : list byte) (a : Z) (rho : env) : xresult :=
  exec 40 (mem_at a buf) (upd (upd (upd rho "frame" a) "frame_len" (zlen buf)) "radiotap" 0) [] body_libwifi_get_wifi_frame.

Definition frame_memset (rho : env) : event := ("memset", [wrap u64 (rho "fi"); 0; 72]).

(* ---------------------------------------------------------------- up to the switch on the frame type *)
Definition frame_switch : cstmt :=
  Eval cbv beta iota delta [nth body_libwifi_get_wifi_frame] in nth 8 body_libwifi_get_wifi_frame (SOther "").

Lemma head_run buf a rho :
  0 < a -> a + zlen buf < 2 ^ 62 ->
  frame_run buf a rho =
    if zlen buf <? 2
    then Returned (Some (-22)) (zeroed (upd (upd (upd (upd (upd (upd rho "frame" a) "frame_len" (zlen buf)) "radiotap" 0) "header_len" 0)
                                             "frame_data_len" (zlen buf)) "frame_data" a) "fi->") [frame_memset rho]
    else exec 32 (mem_at a buf) (rhoS rho a (zlen buf)) [frame_memset rho] (frame_switch :: frame_tail).
Proof.
  intros Ha Hend.
  change (2 ^ 62) with 4611686018427387904 in *.
  pose proof (zlen_nonneg buf) as Hlen.
  unfold frame_run, frame_memset. rewrite body_split. unfold frame_head. cbn [app].
  erewrite exec_set by cnow.
  erewrite exec_set by cnow.
  erewrite exec_set by cnow.
  erewrite exec_call by cnow.
  rewrite exec_zero.
  erewrite exec_if_skip by cnow.
  erewrite exec_if_b2z by cnow.
  destruct (Z.ltb_spec (zlen buf) 2) as [Hshort | Hlong].
  { erewrite exec_ret by cnow. reflexivity. }
  erewrite exec_set by cnow.
  reflexivity.
Qed.

Lemma tail_trace_inside pfc a hl len q : 0 <= hl <= len -> 2 <= len -> copies_inside a (a + len) (tail_trace pfc a hl len q).
Proof.
  intros H H2. unfold tail_trace. destruct (len =? hl); [ | destruct (q =? 0)];
    cbn [copies_inside String.eqb Ascii.eqb Bool.eqb]; repeat split; lia.
Qed.

(* one statement whose expressions evaluate under the hypotheses in scope; a finished block hands its outcome on *)
Ltac step :=
  first [ erewrite exec_set by cnow | erewrite exec_call by cnow | erewrite exec_ret by cnow
        | rewrite exec_zero | rewrite exec_clobber | rewrite exec_nil | rewrite exec_break ];
  cbv beta iota.
(* expressions over fi->flags only: closed once fi-> has been zeroed *)
Ltac closed_now := lazy; reflexivity.

Ltac finish_tail a buf rho hl fl :=
  match goal with
  | |- context [exec 31 ?m ?r ?t frame_tail] =>
      let rho1 := fresh "rho1" in let Hrun := fresh "Hrun" in
      let Hf1 := fresh "Hf1" in let Hf2 := fresh "Hf2" in let Hf3 := fresh "Hf3" in
      destruct (tail_run m r t a hl (zlen buf) (rho "ret:malloc") (rho "&fi->frame_control") fl)
        as (rho1 & Hrun & Hf1 & Hf2 & Hf3);
      [ cu; reflexivity | cu; reflexivity | cu; reflexivity | cu; reflexivity | cu; reflexivity | cu; reflexivity
      | cu; reflexivity | lia | lia | (change (2 ^ 62) with 4611686018427387904; lia)
      | (change (2 ^ 62) with 4611686018427387904; lia) | ];
      rewrite Hrun; exists rho1;
      split; [ cbn [app]; reflexivity | ];
      split; [ exact Hf1 | ]; split; [ exact Hf2 | ]; split; [ exact Hf3 | ];
      unfold frame_memset;
      apply (copies_inside_app a (a + zlen buf) [_]);
      [ cbn [copies_inside String.eqb Ascii.eqb Bool.eqb]; auto | ];
      apply copies_inside_app;
      [ cbn [copies_inside String.eqb Ascii.eqb Bool.eqb]; repeat split; lia
      | apply tail_trace_inside; lia ]
  end.

Theorem code_get_wifi_frame_plain buf a rho :
  wfbytes buf -> 0 < a -> a + zlen buf < 2 ^ 62 -> 0 <= rho "ret:malloc" < 2 ^ 62 ->
  let q := rho "ret:malloc" in
  let b0 := znth buf 0 in
  let b1 := znth buf 1 in
  if zlen buf <? 2 then observe (frame_run buf a rho) = Some (Some (-22), [frame_memset rho])
  else match s_hdr_len (s_type b0) (s_subtype b0) (s_ordered b1) with
       | None => observe (frame_run buf a rho) = Some (Some (-22), [frame_memset rho])
       | Some hl =>
           if zlen buf <? hl then observe (frame_run buf a rho) = Some (Some (-22), [frame_memset rho])
           else
             let tr := frame_memset rho :: (hdr_copies rho a b0 b1 ++ tail_trace (rho "&fi->frame_control") a hl (zlen buf) q)%list in
             exists rho1,
               frame_run buf a rho = Returned (Some (tail_ret hl (zlen buf) q)) rho1 tr /\
               rho1 "fi->len" = zlen buf /\ rho1 "fi->header_len" = hl /\ rho1 "fi->flags" = s_flags b0 b1 /\
               copies_inside a (a + zlen buf) tr
       end.
Proof.
  intros Hwf Ha Hend Hq q b0 b1. subst q b0 b1.
  rewrite (head_run buf a rho Ha Hend).
  change (2 ^ 62) with 4611686018427387904 in *.
  pose proof (zlen_nonneg buf) as Hlen.
  destruct (Z.ltb_spec (zlen buf) 2) as [Hshort | Hlong]; [reflexivity | ].
  assert (Hb0 : 0 <= znth buf 0 < 256) by (apply wfbytes_znth; [exact Hwf | lia]).
  assert (Hb1 : 0 <= znth buf 1 < 256) by (apply wfbytes_znth; [exact Hwf | lia]).
  assert (Hst : 0 <= s_subtype (znth buf 0) < 16) by (unfold s_subtype; Z.div_mod_to_equations; lia).
  assert (Ht : s_type (znth buf 0) = 0 \/ s_type (znth buf 0) = 1 \/ s_type (znth buf 0) = 2 \/ s_type (znth buf 0) = 3)
    by (unfold s_type; Z.div_mod_to_equations; lia).
  assert (HfcS : rhoS rho a (zlen buf) "frame_control" = a) by (cu; reflexivity).
  unfold frame_switch.
  erewrite exec_switch by (apply ev_type; [exact Hwf | exact Ha | exact Hend | exact HfcS | lia]).
  unfold s_flags, hdr_copies, s_hdr_len, T_MGMT, T_CTRL, T_DATA, FL_QOS, FL_ORDERED.
  destruct Ht as [Ht | [Ht | [Ht | Ht]]]; rewrite Ht.
  - (* management *)
    change (0 =? 0) with true. change (0 =? 2) with false. cbv beta iota. cbn [andb].
    rewrite pick_case_miss by reflexivity. rewrite pick_case_hit by reflexivity.
    erewrite exec_if_gen by (apply ev_order; [exact Hwf | exact Ha | exact Hend | exact HfcS | lia]).
    destruct (s_ordered (znth buf 1)) eqn:Hord.
    + erewrite exec_set by closed_now. step.
      erewrite exec_if_b2z by cnow.
      destruct (Z.ltb_spec (zlen buf) 28) as [Hsh | Hfit].
      * step. reflexivity.
      * repeat step. finish_tail a buf rho 28 4.
    + step. erewrite exec_if_b2z by cnow.
      destruct (Z.ltb_spec (zlen buf) 24) as [Hsh | Hfit].
      * step. reflexivity.
      * repeat step. finish_tail a buf rho 24 0.
  - (* control *)
    change (1 =? 0) with false. change (1 =? 1) with true. change (1 =? 2) with false. cbv beta iota. cbn [andb].
    do 2 (rewrite pick_case_miss by reflexivity). rewrite pick_case_hit by reflexivity.
    step. erewrite exec_if_b2z by cnow.
    destruct (Z.ltb_spec (zlen buf) 4) as [Hsh | Hfit].
    + step. reflexivity.
    + repeat step. finish_tail a buf rho 4 0.
  - (* data *)
    change (2 =? 0) with false. change (2 =? 1) with false. change (2 =? 2) with true. cbv beta iota. cbn [andb].
    rewrite pick_case_hit by reflexivity.
    erewrite exec_switch by (apply ev_subtype; [exact Hwf | exact Ha | exact Hend | exact HfcS | lia]).
    destruct (s_qos (s_subtype (znth buf 0))) eqn:Hqos.
    + rewrite pick_case_hit by (rewrite qos_labels by lia; exact Hqos).
      erewrite exec_set by closed_now. step.
      rewrite exec_if_true with (v := 2) by (first [discriminate | closed_now]).
      repeat step.
      erewrite exec_if_b2z by cnow.
      destruct (Z.ltb_spec (zlen buf) 26) as [Hsh | Hfit].
      * step. reflexivity.
      * rewrite exec_if_true with (v := 2) by (first [discriminate | closed_now]).
        repeat step. finish_tail a buf rho 26 2.
    + rewrite pick_case_miss by (rewrite qos_labels by lia; exact Hqos). cbn [pick_case].
      step.
      rewrite exec_if_false by closed_now.
      repeat step.
      erewrite exec_if_b2z by cnow.
      destruct (Z.ltb_spec (zlen buf) 24) as [Hsh | Hfit].
      * step. reflexivity.
      * rewrite exec_if_false by closed_now.
        repeat step. finish_tail a buf rho 24 0.
  - (* type 3: refused *)
    change (3 =? 0) with false. change (3 =? 1) with false. change (3 =? 2) with false. cbv beta iota.
    do 3 (rewrite pick_case_miss by reflexivity). cbn [pick_case].
    step. reflexivity.
Qed.

(* ---------------------------------------------------------------- consequences of (1) *)
(* what the classification refuses: too short for a frame control, the reserved type 3, or shorter than the header of its kind *)
Definition frame_refused (buf : list byte) : Prop :=
  zlen buf < 2 \/
  match s_hdr_len (s_type (znth buf 0)) (s_subtype (znth buf 0)) (s_ordered (znth buf 1)) with
  | None => True
  | Some hl => zlen buf < hl
  end.

(* the run is never stuck, and returns -22 (-EINVAL) exactly on the refused inputs, having called nothing but the initial memset;
   the other return values are 0 and -12 (-ENOMEM: the allocator answered 0 for a non-empty body) *)
Corollary code_get_wifi_frame_plain_ret buf a rho :
  wfbytes buf -> 0 < a -> a + zlen buf < 2 ^ 62 -> 0 <= rho "ret:malloc" < 2 ^ 62 ->
  exists v tr,
    observe (frame_run buf a rho) = Some (Some v, tr) /\
    (v = -22 <-> frame_refused buf) /\ (v = -22 -> tr = [frame_memset rho]) /\ (v = -22 \/ v = -12 \/ v = 0) /\
    copies_inside a (a + zlen buf) tr.
Proof.
  intros Hwf Ha Hend Hq.
  pose proof (code_get_wifi_frame_plain buf a rho Hwf Ha Hend Hq) as H. cbv zeta in H.
  unfold frame_refused.
  assert (Hms : copies_inside a (a + zlen buf) [frame_memset rho]) by (cbn; auto).
  destruct (Z.ltb_spec (zlen buf) 2) as [Hshort | Hlong].
  { exists (-22), [frame_memset rho]. repeat split; auto. }
  destruct (s_hdr_len (s_type (znth buf 0)) (s_subtype (znth buf 0)) (s_ordered (znth buf 1))) as [hl | ].
  2:{ exists (-22), [frame_memset rho]. repeat split; auto. }
  destruct (Z.ltb_spec (zlen buf) hl) as [Hsh | Hfit].
  { exists (-22), [frame_memset rho]. repeat split; auto. }
  destruct H as (rho1 & Hrun & _ & _ & _ & Hins).
  eexists _, _. rewrite Hrun. split; [reflexivity | ].
  unfold tail_ret. destruct (zlen buf =? hl); [ | destruct (rho "ret:malloc" =? 0)];
    (split; [ split; [ discriminate | lia ] | split; [ discriminate | split; [ auto | exact Hins ] ] ]).
Qed.

(* ---------------------------------------------------------------- (2) against the hand-written model *)
(* the allocation and the copy of the body, given the body length *)
Definition body_events (q a hl bl : Z) : list event :=
  if bl =? 0 then [] else ("malloc", [bl]) :: (if q =? 0 then [] else [("memcpy", [q; a + hl; bl])]).

Lemma tail_trace_body pfc a hl len q :
  tail_trace pfc a hl len q = ("memcpy", [wrap u64 pfc; a; 2]) :: body_events q a hl (len - hl).
Proof.
  unfold tail_trace, body_events.
  destruct (Z.eqb_spec len hl); destruct (Z.eqb_spec (len - hl) 0); try lia; reflexivity.
Qed.

(* the model does not model the allocator: where it answers Ok f, the C code returns 0, except -12 when the body is not empty and
   malloc answered 0 *)
Theorem code_get_wifi_frame_refines_model buf a rho :
  wfbytes buf -> 0 < a -> a + zlen buf < 2 ^ 62 -> 0 <= rho "ret:malloc" < 2 ^ 62 ->
  let q := rho "ret:malloc" in
  match get_wifi_frame (rd_strict buf) (zlen buf) false with
  | Done (Err c) => c = -22 /\ observe (frame_run buf a rho) = Some (Some c, [frame_memset rho])
  | Done (Ok f) =>
      let bl := zlen (f_body f) in
      let tr := (frame_memset rho :: hdr_copies rho a (znth buf 0) (znth buf 1) ++
                 ("memcpy", [wrap u64 (rho "&fi->frame_control"); a; 2]) :: body_events q a (f_header_len f) bl)%list in
      exists rho1,
        frame_run buf a rho = Returned (Some (if (0 <? bl) && (q =? 0) then -12 else 0)) rho1 tr /\
        rho1 "fi->len" = f_len f /\ rho1 "fi->header_len" = f_header_len f /\ rho1 "fi->flags" = f_flags f /\
        bl = f_len f - f_header_len f /\ f_len f = zlen buf /\
        f_header f = zfirstn (f_header_len f) buf /\ f_body f = zskipn (f_header_len f) buf /\
        copies_inside a (a + zlen buf) tr
  | _ => False
  end.
Proof.
  intros Hwf Ha Hend Hq q.
  rewrite (classify_plain buf (rd_strict buf) Hwf (agrees_strict buf)).
  pose proof (code_get_wifi_frame_plain buf a rho Hwf Ha Hend Hq) as H. cbv zeta in H.
  pose proof (zlen_nonneg buf) as Hlen.
  unfold spec_classify.
  destruct buf as [ | fc0 [ | fc1 tl]] eqn:Hbuf.
  - split; [reflexivity | exact H].
  - split; [reflexivity | exact H].
  - rewrite <- Hbuf in *.
    assert (Hl2 : 2 <= zlen buf) by (rewrite Hbuf, !zlen_cons; pose proof (zlen_nonneg tl); lia).
    assert (E0 : znth buf 0 = fc0) by (rewrite Hbuf; reflexivity).
    assert (E1 : znth buf 1 = fc1) by (rewrite Hbuf; reflexivity).
    rewrite E0, E1 in H.
    destruct (Z.ltb_spec (zlen buf) 2) as [Hshort | _]; [lia | ].
    destruct (s_hdr_len (s_type fc0) (s_subtype fc0) (s_ordered fc1)) as [hl | ] eqn:Hh.
    2:{ split; [reflexivity | exact H]. }
    pose proof (s_hdr_len_pos _ _ _ _ Hh) as Hpos.
    destruct (Z.ltb_spec (zlen buf) hl) as [Hsh | Hfit].
    { split; [reflexivity | exact H]. }
    destruct H as (rho1 & Hrun & Hf1 & Hf2 & Hf3 & Hins).
    cbn [f_body f_len f_header_len f_flags f_header].
    assert (Hbl : zlen (zskipn hl buf) = zlen buf - hl) by (unfold zskipn; apply zlen_skipn; lia).
    rewrite tail_trace_body in Hrun, Hins. rewrite <- Hbl in Hrun, Hins.
    exists rho1. rewrite E0, E1.
    split.
    { rewrite Hrun. apply Returned_eq; [ | reflexivity | reflexivity ].
      unfold tail_ret. fold q. rewrite Hbl.
      destruct (Z.eqb_spec (zlen buf) hl); destruct (Z.ltb_spec 0 (zlen buf - hl)); try lia; cbn [andb]; [reflexivity | ].
      destruct (q =? 0); reflexivity. }
    split; [exact Hf1 | ]. split; [exact Hf2 | ].
    split; [rewrite Hf3; unfold s_flags; reflexivity | ].
    split; [exact Hbl | ]. split; [reflexivity | ]. split; [reflexivity | ]. split; [reflexivity | ].
    exact Hins.
Qed.

(* the subtype set of the C switch, of the specification and of Gen/Tables.v (qos_subtypes) are one set *)
Lemma qos_labels_tables st : 0 <= st < 16 -> existsb (Z.eqb st) [8; 12; 9; 11; 10; 15; 14] = is_qos_subtype st.
Proof. intros H. rewrite qos_labels by exact H. symmetry. apply qos_ok. exact H. Qed.

(* a concrete run, to see the statement is not vacuous: a 30-octet QoS data frame (octet 0 = 0x88) at address 1000, the caller's
   fi->flags holding 0xffff beforehand, malloc answering 4096: returns 0, flags come out as IS_QOS alone, the body copy is
   memcpy(4096, 1000 + 26, 4) *)
Example frame_run_qos_example :
  let buf := 136 :: 0 :: repeat 0 28 in
  let rho := env_of [("fi->flags", 65535); ("ret:malloc", 4096); ("fi", 500); ("&fh.data_qos", 600); ("&fi->frame_control", 504)] in
  match frame_run buf 1000 rho with
  | Returned v rho1 tr =>
      v = Some 0 /\ rho1 "fi->flags" = 2 /\ rho1 "fi->len" = 30 /\ rho1 "fi->header_len" = 26 /\
      tr = [("memset", [500; 0; 72]); ("memset", [600; 0; 26]); ("memcpy", [600; 1000; 26]); ("memcpy", [504; 1000; 2]);
            ("malloc", [4]); ("memcpy", [4096; 1026; 4])]
  | _ => False
  end.
Proof. vm_compute. repeat split; reflexivity. Qed.

Print Assumptions code_get_wifi_frame_plain.
Print Assumptions code_get_wifi_frame_plain_ret.
Print Assumptions code_get_wifi_frame_refines_model.
