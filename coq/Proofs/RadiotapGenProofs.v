(* Proofs for C10: the radiotap generator model (Model/RadiotapGen.v) emits exactly the rendered layout
   (Spec/RadiotapGenSpec.v); that layout is a valid header; the decoder returns the supplied values;
   wrapping a frame in it does not change its classification. *)
From Coq Require Import List ZArith Lia Bool ZifyBool.
From LW Require Import Base.Bytes Base.Sweep Gen.Consts Gen.Rtap Gen.Layout Model.Radiotap Model.RadiotapGen
  Model.Frame Spec.RadiotapSpec Spec.RadiotapGenSpec Spec.FrameSpec Proofs.RadiotapProofs Proofs.FrameProofs.
Import ListNotations.
Local Open Scope Z_scope.

Ltac dm_lia := Z.div_mod_to_equations; lia.

(* ---------------------------------------------------------------- lists *)
Lemma zlen_repeat {A} (x : A) n : zlen (repeat x n) = Z.of_nat n.
Proof. unfold zlen. rewrite repeat_length. reflexivity. Qed.
Lemma zlen_le_enc n v : zlen (le_enc n v) = Z.of_nat n.
Proof. unfold zlen. rewrite le_enc_length. reflexivity. Qed.

Lemma zskipn_app_zlen {A} (a b : list A) : zskipn (zlen a) (a ++ b) = b.
Proof.
  unfold zskipn, zlen. rewrite Nat2Z.id, skipn_app, skipn_all, Nat.sub_diag. reflexivity.
Qed.
Lemma zfirstn_app_zlen {A} (a b : list A) : zfirstn (zlen a) (a ++ b) = a.
Proof.
  unfold zfirstn, zlen. rewrite Nat2Z.id, firstn_app, firstn_all, Nat.sub_diag. cbn [firstn].
  apply app_nil_r.
Qed.
Lemma slice_at {A} (buf pre m post : list A) o n :
  buf = pre ++ m ++ post -> zlen pre = o -> zlen m = n -> slice o n buf = m.
Proof.
  intros -> <- <-. unfold slice. rewrite zskipn_app_zlen. apply zfirstn_app_zlen.
Qed.
Lemma znth_at (buf pre post : list byte) x o : buf = pre ++ x :: post -> zlen pre = o -> znth buf o = x.
Proof.
  intros -> <-. unfold znth, zlen. rewrite Nat2Z.id, app_nth2 by lia. rewrite Nat.sub_diag. reflexivity.
Qed.

Lemma le_at n (buf pre a c post : list byte) v o :
  buf = pre ++ (a ++ le_enc n v ++ c) ++ post -> zlen pre + zlen a = o -> 0 <= v < 256 ^ Z.of_nat n ->
  le_dec (slice o (Z.of_nat n) buf) = v.
Proof.
  intros Hb Ho Hv.
  rewrite (slice_at buf (pre ++ a) (le_enc n v) (c ++ post) o (Z.of_nat n)).
  - apply le_dec_enc. exact Hv.
  - rewrite Hb. rewrite <- !app_assoc. reflexivity.
  - rewrite zlen_app. exact Ho.
  - apply zlen_le_enc.
Qed.
Lemma le16_at (buf pre a c post : list byte) v o :
  buf = pre ++ (a ++ le_enc 2 v ++ c) ++ post -> zlen pre + zlen a = o -> 0 <= v < 65536 -> le16 buf o = v.
Proof. intros. apply (le_at 2 buf pre a c post v o); assumption. Qed.
Lemma le32_at (buf pre a c post : list byte) v o :
  buf = pre ++ (a ++ le_enc 4 v ++ c) ++ post -> zlen pre + zlen a = o -> 0 <= v < 4294967296 -> le32 buf o = v.
Proof. intros. apply (le_at 4 buf pre a c post v o); assumption. Qed.
Lemma le64_at (buf pre a c post : list byte) v o :
  buf = pre ++ (a ++ le_enc 8 v ++ c) ++ post -> zlen pre + zlen a = o -> 0 <= v < 2 ^ 64 -> le64 buf o = v.
Proof. intros. apply (le_at 8 buf pre a c post v o); assumption. Qed.
Lemma byte_at (buf pre a c post : list byte) v o :
  buf = pre ++ (a ++ le_enc 1 v ++ c) ++ post -> zlen pre + zlen a = o -> 0 <= v < 256 -> znth buf o = v.
Proof.
  intros Hb Ho Hv. rewrite (znth_at buf (pre ++ a) (c ++ post) (v mod 256) o).
  - apply Z.mod_small. exact Hv.
  - rewrite Hb. rewrite <- !app_assoc. reflexivity.
  - rewrite zlen_app. exact Ho.
Qed.

(* ---------------------------------------------------------------- the table, restricted to carried fields *)
Definition cf (p i : Z) : Prop := forall b, i <= b < 23 -> Z.testbit p b = true -> In b carried_bits.
Lemma cf_next p i : cf p i -> cf p (i + 1).
Proof. intros H b Hb. apply H. lia. Qed.
Lemma carried_cf p : carried p -> cf p 0.
Proof. intros [_ H] b Hb. apply H. exact Hb. Qed.

(* largest offset reachable before bit i when only carried fields are selected *)
Definition bnd (i : Z) : Z :=
  nth (Z.to_nat i) [8;8;9;10;15;15;16;16;16;16;16;17;17;17;17;20;23;24;25;25;28;28;28;47] 47.
Definition is_carried (i : Z) : bool := existsb (Z.eqb i) carried_bits.

Lemma table_sweep :
  forallb (fun i =>
    ((fst (table_entry i) =? 1) || (fst (table_entry i) =? 2) || (fst (table_entry i) =? 4) || (fst (table_entry i) =? 8)) &&
    (0 <=? snd (table_entry i)) && (bnd i <=? bnd (i + 1)) && (bnd (i + 1) <=? 47) && (8 <=? bnd i) &&
    (negb (is_carried i) || (bnd i + (fst (table_entry i) - 1) + snd (table_entry i) <=? bnd (i + 1))))
    (zrange 0 23) = true.
Proof. vm_compute. reflexivity. Qed.

Lemma table_facts i : 0 <= i < 23 ->
  (fst (table_entry i) = 1 \/ fst (table_entry i) = 2 \/ fst (table_entry i) = 4 \/ fst (table_entry i) = 8) /\
  0 <= snd (table_entry i) /\ bnd i <= bnd (i + 1) /\ bnd (i + 1) <= 47 /\ 8 <= bnd i /\
  (In i carried_bits -> bnd i + (fst (table_entry i) - 1) + snd (table_entry i) <= bnd (i + 1)).
Proof.
  intros H. pose proof (forallb_zrange _ 0 23 table_sweep i ltac:(lia)) as B. cbv beta in B.
  repeat (apply andb_prop in B; destruct B as [B ?]).
  repeat split; try lia.
  intros Hin. assert (E : is_carried i = true).
  { unfold is_carried. apply existsb_exists. exists i. split; [exact Hin|apply Z.eqb_refl]. }
  rewrite E in *. cbn [negb orb] in *. lia.
Qed.

Lemma field_bytes_eq info i : In i carried_bits ->
  field_bytes info i = s_field_bytes info i /\ zlen (s_field_bytes info i) = snd (table_entry i).
Proof.
  intros H. unfold carried_bits in H. cbn [In] in H.
  repeat (destruct H as [<-|H]; [split; reflexivity|]). contradiction.
Qed.

Lemma s_field_bytes_wf info bit : wfbytes (s_field_bytes info bit).
Proof.
  unfold s_field_bytes.
  repeat (destruct (bit =? _); [repeat apply wfbytes_app; apply le_enc_wf|]). constructor.
Qed.

Lemma align_up_pad al d : (al = 1 \/ al = 2 \/ al = 4 \/ al = 8) -> 0 <= d ->
  align_up (8 + d) al = 8 + d + (al - d mod al) mod al /\ 0 <= (al - d mod al) mod al < al.
Proof.
  intros H Hd. unfold align_up.
  destruct H as [->|[->|[->| ->]]]; destruct (_ =? 0) eqn:E; dm_lia.
Qed.
Lemma align_up_le cur al : 0 < al -> align_up cur al <= cur + (al - 1).
Proof.
  intros H. unfold align_up. pose proof (Z.mod_pos_bound cur al H). destruct (cur mod al =? 0) eqn:E; lia.
Qed.

(* ---------------------------------------------------------------- stepping the offset computation *)
Lemma bits_from_23 : bits_from 23 = [].
Proof. reflexivity. Qed.

Lemma s_offsets_set i p cur : 0 <= i < 23 -> Z.testbit p i = true ->
  s_offsets (bits_from i) p cur =
  ((i, align_up cur (fst (table_entry i))) ::
     fst (s_offsets (bits_from (i + 1)) p (align_up cur (fst (table_entry i)) + snd (table_entry i))),
   snd (s_offsets (bits_from (i + 1)) p (align_up cur (fst (table_entry i)) + snd (table_entry i)))).
Proof.
  intros Hi Hb. rewrite (bits_from_step i Hi). destruct (table_entry i) as [al sz]. cbn [s_offsets fst snd].
  rewrite Hb. destruct (s_offsets (bits_from (i + 1)) p (align_up cur al + sz)) as [l e]. reflexivity.
Qed.
Lemma s_offsets_clear i p cur : 0 <= i < 23 -> Z.testbit p i = false ->
  s_offsets (bits_from i) p cur = s_offsets (bits_from (i + 1)) p cur.
Proof.
  intros Hi Hb. rewrite (bits_from_step i Hi). destruct (table_entry i) as [al sz]. cbn [s_offsets].
  rewrite Hb. reflexivity.
Qed.

Lemma offs_bound : forall k i p cur, Z.of_nat k = 23 - i -> 0 <= i -> cf p i -> cur <= bnd i ->
  snd (s_offsets (bits_from i) p cur) <= 47.
Proof.
  induction k as [|k IH]; intros i p cur Hk Hi Hcf Hcur.
  - assert (i = 23) by lia. subst i. rewrite bits_from_23. cbn [s_offsets snd]. change (bnd 23) with 47 in Hcur. lia.
  - assert (Hi' : 0 <= i < 23) by lia.
    destruct (table_facts i Hi') as (Hal & Hsz & Hb1 & Hb2 & Hb3 & Hcar).
    destruct (Z.testbit p i) eqn:Hb.
    + rewrite (s_offsets_set i p cur Hi' Hb). cbn [snd].
      apply IH; [lia|lia|apply cf_next; exact Hcf|].
      specialize (Hcar (Hcf i ltac:(lia) Hb)).
      pose proof (align_up_le cur (fst (table_entry i)) ltac:(lia)). lia.
    + rewrite (s_offsets_clear i p cur Hi' Hb).
      apply IH; [lia|lia|apply cf_next; exact Hcf|lia].
Qed.

Lemma offs_key_set p : forall bits cur q, In q (fst (s_offsets bits p cur)) -> Z.testbit p (fst q) = true.
Proof.
  induction bits as [|[bit [al sz]] r IH]; intros cur q H; cbn [s_offsets] in H; [contradiction|].
  destruct (Z.testbit p bit) eqn:Hb.
  - specialize (IH (align_up cur al + sz) q).
    destruct (s_offsets r p (align_up cur al + sz)) as [l e]. cbn [fst] in *.
    destruct H as [<-|H]; [exact Hb|apply IH; exact H].
  - apply (IH cur q H).
Qed.

Lemma offs_has : forall k i p cur bit, Z.of_nat k = 23 - i -> 0 <= i -> i <= bit < 23 ->
  Z.testbit p bit = true -> exists o, In (bit, o) (fst (s_offsets (bits_from i) p cur)).
Proof.
  induction k as [|k IH]; intros i p cur bit Hk Hi Hbit Hb; [lia|].
  assert (Hi' : 0 <= i < 23) by lia.
  destruct (Z.testbit p i) eqn:Hbi.
  - rewrite (s_offsets_set i p cur Hi' Hbi). cbn [fst].
    destruct (Z.eq_dec bit i) as [->|Hne].
    + eexists. left. reflexivity.
    + destruct (IH (i + 1) p (align_up cur (fst (table_entry i)) + snd (table_entry i)) bit) as [o Ho];
        try lia; try assumption.
      exists o. right. exact Ho.
  - rewrite (s_offsets_clear i p cur Hi' Hbi).
    destruct (Z.eq_dec bit i) as [->|Hne]; [congruence|].
    apply IH; try lia; assumption.
Qed.

(* ---------------------------------------------------------------- the layout *)
Lemma layout_props info : forall k i p acc, Z.of_nat k = 23 - i -> 0 <= i -> cf p i -> wfbytes acc ->
  zlen (s_layout (fst (s_offsets (bits_from i) p (zlen acc))) info acc) = snd (s_offsets (bits_from i) p (zlen acc)) /\
  wfbytes (s_layout (fst (s_offsets (bits_from i) p (zlen acc))) info acc) /\
  (exists more, s_layout (fst (s_offsets (bits_from i) p (zlen acc))) info acc = acc ++ more) /\
  forall bit o, In (bit, o) (fst (s_offsets (bits_from i) p (zlen acc))) ->
    exists pre post, s_layout (fst (s_offsets (bits_from i) p (zlen acc))) info acc = pre ++ s_field_bytes info bit ++ post /\
                     zlen pre = o.
Proof.
  induction k as [|k IH]; intros i p acc Hk Hi Hcf Hwf.
  - assert (i = 23) by lia. subst i. rewrite bits_from_23. cbn [s_offsets fst snd s_layout].
    split; [reflexivity|]. split; [exact Hwf|]. split; [exists []; symmetry; apply app_nil_r|].
    intros bit o [].
  - assert (Hi' : 0 <= i < 23) by lia.
    destruct (table_facts i Hi') as (Hal & Hsz & _).
    destruct (Z.testbit p i) eqn:Hb.
    + rewrite (s_offsets_set i p (zlen acc) Hi' Hb). cbn [fst snd s_layout].
      destruct (field_bytes_eq info i (Hcf i ltac:(lia) Hb)) as [_ Hfl].
      pose proof (align_up_ge (zlen acc) (fst (table_entry i)) ltac:(lia)) as Hge.
      set (o := align_up (zlen acc) (fst (table_entry i))) in *.
      set (acc' := acc ++ repeat 0 (Z.to_nat (o - zlen acc)) ++ s_field_bytes info i).
      assert (Hl' : zlen acc' = o + snd (table_entry i)).
      { unfold acc'. rewrite !zlen_app, zlen_repeat, Hfl. lia. }
      rewrite <- Hl'.
      assert (Hwf' : wfbytes acc').
      { unfold acc'. apply wfbytes_app; [exact Hwf|]. apply wfbytes_app; [|apply s_field_bytes_wf].
        apply Forall_forall. intros x Hx. apply repeat_spec in Hx. subst x. lia. }
      destruct (IH (i + 1) p acc' ltac:(lia) ltac:(lia) (cf_next p i Hcf) Hwf') as (H1 & H2 & [more H3] & H4).
      split; [exact H1|]. split; [exact H2|]. split.
      * exists ((repeat 0 (Z.to_nat (o - zlen acc)) ++ s_field_bytes info i) ++ more).
        rewrite H3. unfold acc'. rewrite <- !app_assoc. reflexivity.
      * intros bit o' [E|Hin].
        -- injection E as <- <-.
           exists (acc ++ repeat 0 (Z.to_nat (o - zlen acc))), more. split.
           ++ rewrite H3. unfold acc'. rewrite <- !app_assoc. reflexivity.
           ++ rewrite zlen_app, zlen_repeat. lia.
        -- apply H4. exact Hin.
    + rewrite (s_offsets_clear i p (zlen acc) Hi' Hb).
      apply IH; [lia|lia|apply cf_next; exact Hcf|exact Hwf].
Qed.

Lemma layout_props' info k i p acc cur : zlen acc = cur -> Z.of_nat k = 23 - i -> 0 <= i -> cf p i -> wfbytes acc ->
  zlen (s_layout (fst (s_offsets (bits_from i) p cur)) info acc) = snd (s_offsets (bits_from i) p cur) /\
  wfbytes (s_layout (fst (s_offsets (bits_from i) p cur)) info acc) /\
  (exists more, s_layout (fst (s_offsets (bits_from i) p cur)) info acc = acc ++ more) /\
  forall bit o, In (bit, o) (fst (s_offsets (bits_from i) p cur)) ->
    exists pre post, s_layout (fst (s_offsets (bits_from i) p cur)) info acc = pre ++ s_field_bytes info bit ++ post /\
                     zlen pre = o.
Proof. intros <-. apply layout_props. Qed.

Lemma hdr_len l p : zlen ([0; 0] ++ le_enc 2 l ++ le_enc 4 p) = 8.
Proof. reflexivity. Qed.
Lemma hdr_wf l p : wfbytes ([0; 0] ++ le_enc 2 l ++ le_enc 4 p).
Proof.
  apply wfbytes_app; [repeat constructor; lia|]. apply wfbytes_app; apply le_enc_wf.
Qed.

Lemma render_decomp p info : carried p ->
  wfbytes (s_render p info) /\ zlen (s_render p info) = snd (s_field_offsets p) /\
  snd (s_field_offsets p) <= 47 /\ 8 <= snd (s_field_offsets p) /\
  (exists more, s_render p info = ([0; 0] ++ le_enc 2 (snd (s_field_offsets p)) ++ le_enc 4 p) ++ more) /\
  forall bit o, In (bit, o) (fst (s_field_offsets p)) ->
    exists pre post, s_render p info = pre ++ s_field_bytes info bit ++ post /\ zlen pre = o.
Proof.
  intros Hc. pose proof (carried_cf p Hc) as Hcf.
  unfold s_render. cbv zeta. rewrite <- (s_field_offsets_eq p).
  set (len := snd (s_offsets (bits_from 0) p 8)).
  destruct (layout_props' info 23 0 p ([0; 0] ++ le_enc 2 len ++ le_enc 4 p) 8 (hdr_len len p) ltac:(lia) ltac:(lia) Hcf
              (hdr_wf len p)) as (H1 & H2 & H3 & H4).
  split; [exact H2|]. split; [exact H1|]. split.
  { apply (offs_bound 23 0 p 8); try lia; try exact Hcf. change (bnd 0) with 8. lia. }
  split.
  { apply (s_offsets_ge p (bits_from 0)). intros x Hx. apply (bits_from_pos 0 x Hx). }
  split; [exact H3|exact H4].
Qed.

(* ---------------------------------------------------------------- the generator *)
Lemma emit_ok data bs : zlen data + zlen bs <= 120 -> emit data bs = Done (data ++ bs).
Proof.
  intros H. unfold emit. change staging_len with 120.
  destruct (120 <? zlen data + zlen bs) eqn:E; [lia|reflexivity].
Qed.

Lemma gen_step info k i sh data pad :
  Z.odd sh = true -> 0 < fst (table_entry i) ->
  pad = (fst (table_entry i) - zlen data mod fst (table_entry i)) mod fst (table_entry i) -> 0 <= pad < 256 ->
  zlen data + pad + zlen (field_bytes info i) <= 120 ->
  gen_fields (S k) i sh info data =
  gen_fields k (i + 1) (Z.shiftr sh 1) info ((data ++ repeat 0 (Z.to_nat pad)) ++ field_bytes info i).
Proof.
  intros Hodd Hal Hpad Hp Hlim. cbn [gen_fields]. rewrite Hodd. cbv zeta.
  replace (0 <? fst (table_entry i)) with true by lia. rewrite <- Hpad.
  rewrite (Z.mod_small pad 256) by lia.
  assert (E : (if 0 <? pad then emit data (repeat 0 (Z.to_nat pad)) else Done data) =
              Done (data ++ repeat 0 (Z.to_nat pad))).
  { destruct (0 <? pad) eqn:E0.
    - apply emit_ok. rewrite zlen_repeat. pose proof (zlen_nonneg (field_bytes info i)). lia.
    - replace pad with 0 by lia. cbn [Z.to_nat repeat]. rewrite app_nil_r. reflexivity. }
  rewrite E. cbn [bind]. rewrite emit_ok; [reflexivity|].
  rewrite zlen_app, zlen_repeat. lia.
Qed.

Lemma gen_fields_ok info hdr : zlen hdr = 8 ->
  forall k i p data, Z.of_nat k = 23 - i -> 0 <= i -> cf p i -> 8 + zlen data <= bnd i ->
  exists data', gen_fields k i (Z.shiftr p i) info data = Done data' /\
    s_layout (fst (s_offsets (bits_from i) p (8 + zlen data))) info (hdr ++ data) = hdr ++ data'.
Proof.
  intros Hh. induction k as [|k IH]; intros i p data Hk Hi Hcf Hcur.
  - assert (i = 23) by lia. subst i. rewrite bits_from_23. cbn [s_offsets fst s_layout gen_fields].
    exists data. split; reflexivity.
  - assert (Hi' : 0 <= i < 23) by lia.
    destruct (table_facts i Hi') as (Hal & Hsz & Hb1 & Hb2 & Hb3 & Hcar).
    pose proof (zlen_nonneg data) as Hd0.
    destruct (Z.testbit p i) eqn:Hb.
    + pose proof (Hcf i ltac:(lia) Hb) as Hin. specialize (Hcar Hin).
      destruct (field_bytes_eq info i Hin) as [Hfe Hfl].
      destruct (align_up_pad (fst (table_entry i)) (zlen data) Hal Hd0) as [Hau Hpr].
      set (pad := (fst (table_entry i) - zlen data mod fst (table_entry i)) mod fst (table_entry i)) in *.
      rewrite (gen_step info k i (Z.shiftr p i) data pad); try lia; try reflexivity.
      2:{ rewrite <- Z.testbit_odd. exact Hb. }
      2:{ rewrite Hfe, Hfl. lia. }
      rewrite Z.shiftr_shiftr by lia.
      rewrite (s_offsets_set i p (8 + zlen data) Hi' Hb). cbn [fst s_layout].
      rewrite Hau.
      set (d2 := (data ++ repeat 0 (Z.to_nat pad)) ++ field_bytes info i).
      assert (Hl2 : zlen d2 = zlen data + pad + snd (table_entry i)).
      { unfold d2. rewrite !zlen_app, zlen_repeat, Hfe, Hfl. lia. }
      destruct (IH (i + 1) p d2 ltac:(lia) ltac:(lia) (cf_next p i Hcf) ltac:(lia)) as (data' & Hg & Hl).
      exists data'. split; [exact Hg|]. rewrite <- Hl.
      replace (8 + zlen data + pad + snd (table_entry i)) with (8 + zlen d2) by lia.
      f_equal. rewrite zlen_app, Hh.
      replace (8 + zlen data + pad - (8 + zlen data)) with pad by lia.
      unfold d2. rewrite Hfe. rewrite <- !app_assoc. reflexivity.
    + cbn [gen_fields]. rewrite <- Z.testbit_odd, Hb. rewrite Z.shiftr_shiftr by lia.
      rewrite (s_offsets_clear i p (8 + zlen data) Hi' Hb).
      apply IH; [lia|lia|apply cf_next; exact Hcf|lia].
Qed.

Lemma gen_layout : forall present info, carried present -> info_in_range info ->
  create_radiotap present info = Done (s_render present info).
Proof.
  intros p info Hc _.
  destruct (render_decomp p info Hc) as (_ & Hlen & _ & _ & _ & _).
  revert Hlen. unfold s_render. cbv zeta. rewrite <- (s_field_offsets_eq p).
  set (len := snd (s_offsets (bits_from 0) p 8)). intros Hlen.
  destruct (gen_fields_ok info ([0; 0] ++ le_enc 2 len ++ le_enc 4 p) (hdr_len len p) 23 0 p []
              ltac:(lia) ltac:(lia) (carried_cf p Hc) ltac:(change (bnd 0) with 8; change (zlen (@nil byte)) with 0; lia))
    as (data' & Hg & Hl).
  rewrite Z.shiftr_0_r in Hg. change (8 + zlen (@nil byte)) with 8 in Hl. rewrite app_nil_r in Hl.
  unfold create_radiotap. change (Z.to_nat rtap_n_bits) with 23%nat. rewrite Hg. cbn [bind].
  change sizeof_ieee80211_radiotap_header with 8.
  rewrite Hl in Hlen |- *. rewrite zlen_app, hdr_len in Hlen. rewrite Hlen.
  rewrite <- !app_assoc. reflexivity.
Qed.

(* ---------------------------------------------------------------- the rendered header is valid *)
Lemma carried_range p : carried p -> 0 <= p < 8388608.
Proof. intros [H _]. change (2 ^ 23) with 8388608 in H. exact H. Qed.

Lemma render_valid : forall present info, carried present -> info_in_range info ->
  let b := s_render present info in
  znth b 0 = 0 /\ le16 b 2 = zlen b /\ le32 b 4 = present /\ zlen b = snd (s_field_offsets present) /\ zlen b <= 128 /\
  forall bit o, In (bit, o) (fst (s_field_offsets present)) ->
    slice o (zlen (s_field_bytes info bit)) b = s_field_bytes info bit.
Proof.
  intros p info Hc _ b.
  destruct (render_decomp p info Hc) as (_ & Hlen & H47 & H8 & [more Hm] & Hf).
  pose proof (carried_range p Hc) as Hp. fold b in Hlen, Hm, Hf.
  split. { rewrite Hm. reflexivity. }
  split. { rewrite Hlen. apply (le16_at b [0; 0] [] (le_enc 4 p) more); [exact Hm|reflexivity|lia]. }
  split. { apply (le32_at b ([0; 0] ++ le_enc 2 (snd (s_field_offsets p))) [] [] more); [|reflexivity|lia].
           rewrite Hm. rewrite <- !app_assoc. reflexivity. }
  split; [exact Hlen|]. split; [lia|].
  intros bit o Hin. destruct (Hf bit o Hin) as (pre & post & Hb & Hl).
  apply (slice_at b pre (s_field_bytes info bit) post); [exact Hb|exact Hl|reflexivity].
Qed.

(* ---------------------------------------------------------------- decoding the rendered header *)
Lemma s_off_clear p bit : Z.testbit p bit = false -> s_off p bit = None.
Proof.
  intros H. unfold s_off. rewrite <- (s_field_offsets_eq p). rewrite find_key_none; [reflexivity|].
  intros q Hq E. apply offs_key_set in Hq. congruence.
Qed.

Lemma s_off_set p bit : 0 <= bit < 23 -> Z.testbit p bit = true ->
  exists o, s_off p bit = Some o /\ In (bit, o) (fst (s_field_offsets p)).
Proof.
  intros Hbit H. unfold s_off. rewrite <- (s_field_offsets_eq p).
  destruct (offs_has 23 0 p 8 bit ltac:(lia) ltac:(lia) ltac:(lia) H) as [o Ho].
  destruct (find (fun q => fst q =? bit) (fst (s_offsets (bits_from 0) p 8))) as [q|] eqn:F.
  - apply find_some in F. destruct F as [Hin E]. destruct q as [b o']. cbn [fst snd] in *.
    assert (b = bit) by lia. subst b. exists o'. split; [reflexivity|exact Hin].
  - pose proof (find_none _ _ F (bit, o) Ho) as E. cbn [fst] in E. lia.
Qed.

Section Roundtrip.
  Variable p : Z.
  Variable info : rt_info.
  Variable tail : list byte.
  Hypothesis Hc : carried p.
  Hypothesis Hr : info_in_range info.
  Hypothesis Hwt : wfbytes tail.

  Let buf := s_render p info ++ tail.

  Lemma buf_hdr : exists more, buf = ([0; 0] ++ le_enc 2 (snd (s_field_offsets p)) ++ le_enc 4 p) ++ more.
  Proof.
    destruct (render_decomp p info Hc) as (_ & _ & _ & _ & [more Hm] & _).
    exists (more ++ tail). unfold buf. rewrite Hm. rewrite <- !app_assoc. reflexivity.
  Qed.
  Lemma buf_len : zlen buf = snd (s_field_offsets p) + zlen tail.
  Proof.
    destruct (render_decomp p info Hc) as (_ & Hlen & _). unfold buf. rewrite zlen_app, Hlen. reflexivity.
  Qed.
  Lemma buf_wf : wfbytes buf.
  Proof.
    destruct (render_decomp p info Hc) as (Hw & _). apply wfbytes_app; [exact Hw|exact Hwt].
  Qed.
  Lemma buf_present : s_present buf = p.
  Proof.
    destruct buf_hdr as [more Hm]. pose proof (carried_range p Hc).
    apply (le32_at buf ([0; 0] ++ le_enc 2 (snd (s_field_offsets p))) [] [] more); [|reflexivity|lia].
    rewrite Hm. rewrite <- !app_assoc. reflexivity.
  Qed.
  Lemma buf_it_len : s_it_len buf = snd (s_field_offsets p).
  Proof.
    destruct buf_hdr as [more Hm]. destruct (render_decomp p info Hc) as (_ & _ & H47 & H8 & _).
    apply (le16_at buf [0; 0] [] (le_enc 4 p) more); [|reflexivity|lia].
    rewrite Hm. rewrite <- !app_assoc. reflexivity.
  Qed.
  Lemma buf_wf1 : s_wf1 buf.
  Proof.
    destruct (render_decomp p info Hc) as (_ & _ & H47 & H8 & _).
    pose proof (zlen_nonneg tail). pose proof (carried_range p Hc).
    unfold s_wf1. rewrite buf_present, buf_it_len, buf_len. change (2 ^ 23) with 8388608.
    repeat split; try lia.
    destruct buf_hdr as [more Hm]. rewrite Hm. reflexivity.
  Qed.

  Lemma buf_field bit : 0 <= bit < 23 -> Z.testbit p bit = true ->
    exists o pre post, s_off p bit = Some o /\ buf = pre ++ s_field_bytes info bit ++ post /\ zlen pre = o.
  Proof.
    intros Hbit Hb. destruct (s_off_set p bit Hbit Hb) as (o & Ho & Hin).
    destruct (render_decomp p info Hc) as (_ & _ & _ & _ & _ & Hf).
    destruct (Hf bit o Hin) as (pre & post & Hb' & Hl).
    exists o, pre, (post ++ tail). split; [exact Ho|]. split; [|exact Hl].
    unfold buf. rewrite Hb'. rewrite <- !app_assoc. reflexivity.
  Qed.

  Lemma fld_clear bit f : Z.testbit p bit = false -> fld buf p bit f = 0.
  Proof. intros H. unfold fld. rewrite (s_off_clear p bit H). reflexivity. Qed.

  (* one field: bit, accessor, the (a, c) context of its encoding inside the field bytes *)
  Ltac field_start bit :=
    destruct (Z.testbit p bit) eqn:T; [|apply fld_clear; exact T];
    destruct (buf_field bit ltac:(lia) T) as (o & pre & post & Ho & Hb & Hl);
    unfold fld; rewrite Ho; cbv beta;
    destruct Hr as (R1 & R2 & R3 & R4 & R5 & R6 & R7 & R8 & R9 & R10 & R11 & R12 & R13 & R14 & R15 & R16 & R17).

  Lemma F_flags : fld buf p 1 (fun o => znth buf o) = if Z.testbit p 1 then i_flags info else 0.
  Proof.
    field_start 1.
    apply (byte_at buf pre [] [] post); [rewrite Hb; reflexivity|rewrite Hl; change (zlen (@nil byte)) with 0; lia|lia].
  Qed.
  Lemma F_rate : fld buf p 2 (fun o => znth buf o) = if Z.testbit p 2 then i_rate_raw info else 0.
  Proof.
    field_start 2.
    apply (byte_at buf pre [] [] post); [rewrite Hb; reflexivity|rewrite Hl; change (zlen (@nil byte)) with 0; lia|lia].
  Qed.
  Lemma F_freq : fld buf p 3 (fun o => le16 buf o) = if Z.testbit p 3 then i_chan_freq info else 0.
  Proof.
    field_start 3.
    apply (le16_at buf pre [] (le_enc 2 (i_chan_flags info)) post);
      [rewrite Hb; reflexivity|rewrite Hl; change (zlen (@nil byte)) with 0; lia|lia].
  Qed.
  Lemma F_cflags : fld buf p 3 (fun o => le16 buf (o + 2)) = if Z.testbit p 3 then i_chan_flags info else 0.
  Proof.
    field_start 3.
    apply (le16_at buf pre (le_enc 2 (i_chan_freq info)) [] post);
      [rewrite Hb; reflexivity|rewrite Hl; change (zlen (le_enc 2 (i_chan_freq info))) with 2; lia|lia].
  Qed.
  Lemma F_signal : fld buf p 5 (fun o => znth buf o) = if Z.testbit p 5 then i_signal info else 0.
  Proof.
    field_start 5.
    apply (byte_at buf pre [] [] post); [rewrite Hb; reflexivity|rewrite Hl; change (zlen (@nil byte)) with 0; lia|lia].
  Qed.
  Lemma F_txpower : fld buf p 10 (fun o => znth buf o) = if Z.testbit p 10 then i_tx_power info else 0.
  Proof.
    field_start 10.
    apply (byte_at buf pre [] [] post); [rewrite Hb; reflexivity|rewrite Hl; change (zlen (@nil byte)) with 0; lia|lia].
  Qed.
  Lemma F_rx : fld buf p 14 (fun o => le16 buf o) = if Z.testbit p 14 then i_rx_flags info else 0.
  Proof.
    field_start 14.
    apply (le16_at buf pre [] [] post); [rewrite Hb; reflexivity|rewrite Hl; change (zlen (@nil byte)) with 0; lia|lia].
  Qed.
  Lemma F_tx : fld buf p 15 (fun o => le16 buf o) = if Z.testbit p 15 then i_tx_flags info else 0.
  Proof.
    field_start 15.
    apply (le16_at buf pre [] [] post); [rewrite Hb; reflexivity|rewrite Hl; change (zlen (@nil byte)) with 0; lia|lia].
  Qed.
  Lemma F_rts : fld buf p 16 (fun o => znth buf o) = if Z.testbit p 16 then i_rts_retries info else 0.
  Proof.
    field_start 16.
    apply (byte_at buf pre [] [] post); [rewrite Hb; reflexivity|rewrite Hl; change (zlen (@nil byte)) with 0; lia|lia].
  Qed.
  Lemma F_dretries : fld buf p 17 (fun o => znth buf o) = if Z.testbit p 17 then i_data_retries info else 0.
  Proof.
    field_start 17.
    apply (byte_at buf pre [] [] post); [rewrite Hb; reflexivity|rewrite Hl; change (zlen (@nil byte)) with 0; lia|lia].
  Qed.
  Lemma F_mcs_known : fld buf p 19 (fun o => znth buf o) = if Z.testbit p 19 then i_mcs_known info else 0.
  Proof.
    field_start 19.
    apply (byte_at buf pre [] (le_enc 1 (i_mcs_flags info) ++ le_enc 1 (i_mcs_mcs info)) post);
      [rewrite Hb; reflexivity|rewrite Hl; change (zlen (@nil byte)) with 0; lia|lia].
  Qed.
  Lemma F_mcs_flags : fld buf p 19 (fun o => znth buf (o + 1)) = if Z.testbit p 19 then i_mcs_flags info else 0.
  Proof.
    field_start 19.
    apply (byte_at buf pre (le_enc 1 (i_mcs_known info)) (le_enc 1 (i_mcs_mcs info)) post);
      [rewrite Hb; reflexivity|rewrite Hl; change (zlen (le_enc 1 (i_mcs_known info))) with 1; lia|lia].
  Qed.
  Lemma F_mcs_mcs : fld buf p 19 (fun o => znth buf (o + 2)) = if Z.testbit p 19 then i_mcs_mcs info else 0.
  Proof.
    field_start 19.
    apply (byte_at buf pre (le_enc 1 (i_mcs_known info) ++ le_enc 1 (i_mcs_flags info)) [] post);
      [rewrite Hb; reflexivity
      |rewrite Hl; change (zlen (le_enc 1 (i_mcs_known info) ++ le_enc 1 (i_mcs_flags info))) with 2; lia|lia].
  Qed.
  Lemma F_ts : fld buf p 22 (fun o => le64 buf o) = if Z.testbit p 22 then i_ts info else 0.
  Proof.
    field_start 22.
    apply (le64_at buf pre [] (le_enc 2 (i_ts_accuracy info) ++ le_enc 1 (i_ts_unit info) ++ le_enc 1 (i_ts_flags info)) post);
      [rewrite Hb; reflexivity|rewrite Hl; change (zlen (@nil byte)) with 0; lia|lia].
  Qed.
  Lemma F_ts_acc : fld buf p 22 (fun o => le16 buf (o + 8)) = if Z.testbit p 22 then i_ts_accuracy info else 0.
  Proof.
    field_start 22.
    apply (le16_at buf pre (le_enc 8 (i_ts info)) (le_enc 1 (i_ts_unit info) ++ le_enc 1 (i_ts_flags info)) post);
      [rewrite Hb; reflexivity|rewrite Hl; change (zlen (le_enc 8 (i_ts info))) with 8; lia|lia].
  Qed.
  Lemma F_ts_unit : fld buf p 22 (fun o => znth buf (o + 10)) = if Z.testbit p 22 then i_ts_unit info else 0.
  Proof.
    field_start 22.
    apply (byte_at buf pre (le_enc 8 (i_ts info) ++ le_enc 2 (i_ts_accuracy info)) (le_enc 1 (i_ts_flags info)) post);
      [rewrite Hb; reflexivity
      |rewrite Hl; change (zlen (le_enc 8 (i_ts info) ++ le_enc 2 (i_ts_accuracy info))) with 10; lia|lia].
  Qed.
  Lemma F_ts_flags : fld buf p 22 (fun o => znth buf (o + 11)) = if Z.testbit p 22 then i_ts_flags info else 0.
  Proof.
    field_start 22.
    apply (byte_at buf pre (le_enc 8 (i_ts info) ++ le_enc 2 (i_ts_accuracy info) ++ le_enc 1 (i_ts_unit info)) [] post);
      [rewrite Hb; reflexivity
      |rewrite Hl;
       change (zlen (le_enc 8 (i_ts info) ++ le_enc 2 (i_ts_accuracy info) ++ le_enc 1 (i_ts_unit info))) with 11; lia|lia].
  Qed.

  Lemma info_roundtrip : s_info buf = s_restrict p info.
  Proof.
    unfold s_info, s_restrict. cbv zeta. rewrite buf_present, buf_it_len.
    apply info_eq; try reflexivity.
    - apply F_cflags.
    - apply F_freq.
    - rewrite F_freq. reflexivity.
    - rewrite F_freq. reflexivity.
    - apply F_rate.
    - apply F_signal.
    - apply F_flags.
    - apply F_rx.
    - apply F_tx.
    - apply F_mcs_known.
    - apply F_mcs_flags.
    - apply F_mcs_mcs.
    - apply F_txpower.
    - apply F_ts.
    - apply F_ts_acc.
    - apply F_ts_unit.
    - apply F_ts_flags.
    - apply F_rts.
    - apply F_dretries.
  Qed.
End Roundtrip.

Lemma gen_roundtrip : forall present info tail rd, carried present -> info_in_range info -> wfbytes tail ->
  agrees rd (s_render present info ++ tail) ->
  parse_radiotap_info rd (zlen (s_render present info ++ tail)) = Done (Ok (s_restrict present info)).
Proof.
  intros p info tail rd Hc Hr Hwt Hag.
  rewrite (rt_single_word (s_render p info ++ tail) rd (buf_wf p info tail Hc Hwt) Hag (buf_wf1 p info tail Hc)).
  rewrite (info_roundtrip p info tail Hc Hr). reflexivity.
Qed.

(* ---------------------------------------------------------------- classification is unchanged by the wrapper *)
Definition announces_fcs (present : Z) (info : rt_info) : bool :=
  Z.testbit present 1 && negb (Z.land (i_flags info) RT_F_FCS =? 0).

Lemma spec_k_flags frame fl0 rt :
  match spec_k frame 0 None with
  | Ok f => spec_k frame fl0 rt =
            Ok {| f_rtap := rt; f_flags := Z.lor (f_flags f) fl0; f_fc := f_fc f; f_len := f_len f;
                  f_header := f_header f; f_header_len := f_header_len f; f_body := f_body f |}
  | Err c => spec_k frame fl0 rt = Err c
  end.
Proof.
  unfold spec_k. destruct frame as [|fc0 [|fc1 tl]]; try reflexivity.
  unfold spec_k2. destruct (s_hdr_len (s_type fc0) (s_subtype fc0) (s_ordered fc1)) as [hl|]; [|reflexivity].
  destruct (zlen (fc0 :: fc1 :: tl) <? hl); [reflexivity|].
  cbn [f_flags f_fc f_len f_header f_header_len f_body].
  rewrite Z.lor_0_l. rewrite (Z.lor_comm fl0). reflexivity.
Qed.

Lemma restrict_length p info : i_length (s_restrict p info) = snd (s_field_offsets p).
Proof. unfold s_restrict. cbn [i_length]. reflexivity. Qed.
Lemma restrict_flags p info : i_flags (s_restrict p info) = if Z.testbit p 1 then i_flags info else 0.
Proof. unfold s_restrict. cbn [i_flags]. reflexivity. Qed.

Lemma zlen_0_nil {A} (l : list A) : zlen l = 0 -> l = [].
Proof. destruct l; [reflexivity|]. rewrite zlen_cons. pose proof (zlen_nonneg l). lia. Qed.

Lemma classify_invariant : forall present info frame fcs, carried present -> info_in_range info ->
  wfbytes frame -> wfbytes fcs -> zlen fcs = (if announces_fcs present info then 4 else 0) ->
  let wrapped := spec_classify (s_render present info ++ frame ++ fcs) (Some (Ok (s_restrict present info))) in
  match spec_classify frame None with
  | Ok f => wrapped = Ok {| f_rtap := Some (s_restrict present info);
                            f_flags := Z.lor (f_flags f) (if announces_fcs present info then Z.lor FL_FCS FL_RADIOTAP else FL_RADIOTAP);
                            f_fc := f_fc f; f_len := f_len f; f_header := f_header f; f_header_len := f_header_len f;
                            f_body := f_body f |}
  | Err c => wrapped = Err c
  end.
Proof.
  intros p info frame fcs Hc Hr Hwf Hwc Hfcs wrapped. subst wrapped.
  destruct (render_decomp p info Hc) as (_ & Hlen & _).
  rewrite (spec_classify_eq (s_render p info ++ frame ++ fcs)). unfold spec_pre.
  rewrite restrict_length, restrict_flags, <- Hlen, zskipn_app_zlen.
  change (spec_classify frame None) with (spec_k frame 0 None).
  unfold announces_fcs in *.
  destruct (Z.testbit p 1).
  - destruct (Z.land (i_flags info) RT_F_FCS =? 0) eqn:E; cbn [andb negb] in *.
    + apply zlen_0_nil in Hfcs. subst fcs. rewrite app_nil_r. apply spec_k_flags.
    + rewrite zlen_app, Hfcs. pose proof (zlen_nonneg frame).
      destruct (zlen frame + 4 <? 4) eqn:E4; [lia|].
      replace (zlen frame + 4 - 4) with (zlen frame) by lia. rewrite zfirstn_app_zlen. apply spec_k_flags.
  - cbn [andb] in *. change (Z.land 0 RT_F_FCS =? 0) with true. cbv iota.
    apply zlen_0_nil in Hfcs. subst fcs. rewrite app_nil_r. apply spec_k_flags.
Qed.
