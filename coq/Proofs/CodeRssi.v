(* libwifi_parse_radiotap_rssi AS TRANSLATED (Gen/Sites.v): what it reads relative to the frame pointer it is given (it takes no length: finding F34).
   Kept apart from Proofs/CodeNames.v so that the name look-up theorems (C19, C12) do not depend on this routine. *)
From Coq Require Import ZArith String Ascii List Bool Lia DecimalString.
From LW Require Import Base.Bytes Base.Sweep Base.CExpr Gen.Consts Gen.Tables Gen.Sites Spec.CodeSpec Proofs.SitesLemmas Proofs.CodeIter Proofs.CodeSecurity Proofs.CodeMgmtDefs.
From LW Require Import Model.TagName Model.Radiotap Model.Frame Model.Eapol.
Import ListNotations.
Local Open Scope string_scope.
Local Open Scope Z_scope.
From LW Require Import Proofs.CodeNames.
(* ================================================================ D. libwifi_parse_radiotap_rssi
   The translated body is executable (the iterator calls are SCall + SClobber "it" + the unknown result "ret:<callee>"), so the first
   pass is run here.  What the routine reads, relative to the frame pointer it is given (it takes NO length argument):
   - the 16-bit it_len at frame + 2, unconditionally, and hands it to ieee80211_radiotap_iterator_init as max_length - the iterator's own
     bound is therefore the length the frame CLAIMS, not the length of the buffer: a buffer shorter than 4 octets is read out of bounds
     (code_parse_radiotap_rssi_short: the run is stuck at that load);
   - one octet at it.this_arg, wherever the iterator left it (an unknown of the environment here), when this_arg_index = 5
     (IEEE80211_RADIOTAP_DBM_ANTSIGNAL): nothing in this routine relates that pointer to the frame
     (code_parse_radiotap_rssi_first: inside the buffer the octet is returned as int8_t, outside the run is stuck at "set:rssi#0").
   The interpreter gives every call of ieee80211_radiotap_iterator_next the same unknown result, so only the first pass is stated. *)
Ltac ev := ceval_env; repeat (progress (wrap_ids; cbv beta iota)); reflexivity.

Lemma wrap_s8_rng x : - 128 <= wrap (mkty true 8) x < 128.
Proof.
  unfold wrap, modulus, tmax; cbn [c_signed c_bits]. change (2 ^ 8) with 256. change (2 ^ (8 - 1) - 1) with 127.
  pose proof (Z.mod_pos_bound x 256 ltac:(lia)). destruct (Z.leb_spec (x mod 256) 127); lia.
Qed.
Lemma wrap_s8_twice x : wrap (mkty true 8) (wrap (mkty true 8) x) = wrap (mkty true 8) x.
Proof. apply wrap_signed_id; [ reflexivity | reflexivity | apply wrap_s8_rng ]. Qed.

Theorem code_parse_radiotap_rssi_short rho a buf f tr :
  0 <= a < 2 ^ 62 -> zlen buf < 4 ->
  exec (S (S (S f))) (mem_at a buf) (upd rho "frame" a) tr body_libwifi_parse_radiotap_rssi = Stuck "call:ieee80211_radiotap_iterator_init#0".
Proof.
  intros Ha Hl. change (2 ^ 62) with 4611686018427387904 in Ha. unfold body_libwifi_parse_radiotap_rssi.
  erewrite exec_set by ev. erewrite exec_set by ev.
  cbn [exec].
  match goal with |- match ?e with _ => _ end = _ => assert (E : e = None) end.
  { ceval_env. wrap_ids. cbv beta iota. change (Z.to_nat (16 / 8)) with 2%nat. cbn [load_le].
    assert (E3 : mem_at a buf (a + 2 + 1) = None).
    { unfold mem_at. destruct (Z.ltb_spec (a + 2 + 1) (a + zlen buf)); [ lia | ]. rewrite andb_false_r. reflexivity. }
    rewrite E3. destruct (mem_at a buf (a + 2)); reflexivity. }
  rewrite E. reflexivity.
Qed.

Lemma exec_set_stuck f m rho tr k x e r : ceval rho m e = None -> exec (S f) m rho tr (SSet k x e :: r) = Stuck k.
Proof. intros H. cbn [exec]. rewrite H. reflexivity. Qed.

Lemma load_u8_abs a buf p : a <= p < a + zlen buf -> load_le (mem_at a buf) p (Z.to_nat (8 / 8)) = Some (znth buf (p - a)).
Proof. intros H. replace p with (a + (p - a)) at 1 by lia. apply load_u8_off. lia. Qed.
Lemma load_u8_none a buf p : p < a \/ a + zlen buf <= p -> load_le (mem_at a buf) p (Z.to_nat (8 / 8)) = None.
Proof.
  intros H. change (Z.to_nat (8 / 8)) with 1%nat. cbn [load_le]. unfold mem_at.
  destruct (Z.leb_spec a p); destruct (Z.ltb_spec p (a + zlen buf)); cbn [andb]; first [ lia | reflexivity ].
Qed.

Definition rssi_init_call (rho : env) (a L : Z) : event :=
  ("ieee80211_radiotap_iterator_init", [wrap u64 (rho "&it"); a; L; 0]).


Theorem code_parse_radiotap_rssi_first rho a buf :
  0 <= a < 2 ^ 62 -> wfbytes buf -> 4 <= zlen buf ->
  let L := znth buf 2 + 256 * znth buf 3 in
  let r0 := wrap s32 (rho "ret:ieee80211_radiotap_iterator_init") in
  let idx := wrap s32 (rho "havoc:it.this_arg_index'") in
  let p := wrap u64 (rho "havoc:it.this_arg'") in
  let res := exec 12 (mem_at a buf) (upd rho "frame" a) [] body_libwifi_parse_radiotap_rssi in
  if negb (r0 =? 0) then exists rho', res = Returned (Some 0) rho' [rssi_init_call rho a L]
  else if idx =? 5 then
    (a <= p < a + zlen buf -> exists rho', res = Returned (Some (wrap s8 (znth buf (p - a)))) rho' [rssi_init_call rho a L]) /\
    (p < a \/ a + zlen buf <= p -> res = Stuck "set:rssi#0")
  else True.
Proof.
  intros Ha Hwf Hl L r0 idx p res. change (2 ^ 62) with 4611686018427387904 in Ha.
  pose proof (wfbytes_znth buf 2 Hwf ltac:(lia)) as H2. pose proof (wfbytes_znth buf 3 Hwf ltac:(lia)) as H3.
  subst L. unfold res, rssi_init_call, body_libwifi_parse_radiotap_rssi, r0, idx, p, s32, u64, s8. clear res r0 idx p.
  erewrite exec_set by ev. erewrite exec_set by ev.
  erewrite exec_call by (ceval_env; wrap_ids; cbv beta iota; rewrite (load_u16_off a buf 2) by lia; change (2 + 1) with 3; wrap_ids; reflexivity).
  rewrite exec_clobber. erewrite exec_set by ev. cbn [app Datatypes.length].
  erewrite exec_loop_b2z by (ceval_env; rewrite !wrap_s32_twice; reflexivity).
  destruct (Z.eqb_spec (wrap (mkty true 32) (rho "ret:ieee80211_radiotap_iterator_init")) 0) as [E0 | N0]; cbn [negb].
  2:{ eexists. erewrite exec_ret by (ceval_env; reflexivity). reflexivity. }
  destruct (Z.eqb_spec (wrap (mkty true 32) (rho "havoc:it.this_arg_index'")) 5) as [E5 | N5]; [ | exact I ].
  erewrite exec_if_gen by (ceval_env; wrap_ids; reflexivity).
  rewrite E5. change (5 =? 5) with true. cbv beta iota.
  split; intros Hp.
  - pose proof (wfbytes_znth buf (wrap (mkty false 64) (rho "havoc:it.this_arg'") - a) Hwf ltac:(lia)) as Hb.
    erewrite exec_set by (ceval_env; rewrite (load_u8_abs a buf _ Hp); wrap_ids; reflexivity).
    rewrite exec_break. cbv beta iota.
    eexists. erewrite exec_ret by (ceval_env; rewrite !wrap_s8_twice; reflexivity). reflexivity.
  - rewrite exec_set_stuck by (ceval_env; rewrite (load_u8_none a buf _ Hp); reflexivity). reflexivity.
Qed.

(* the sites: the field index compared with, what is loaded, what is returned *)
Theorem sites_parse_radiotap_rssi rho m :
  ceval rho m (site sites_libwifi_parse_radiotap_rssi "if#0") = Some (b2z (wrap s32 (rho "it.this_arg_index") =? 5)) /\
  ceval rho m (site sites_libwifi_parse_radiotap_rssi "loop#0") = Some (b2z (wrap s32 (rho "ret") =? 0)) /\
  ceval rho m (site sites_libwifi_parse_radiotap_rssi "ret#0") = Some (wrap s8 (rho "rssi")) /\
  ceval rho m (site sites_libwifi_parse_radiotap_rssi "set:rssi#0") =
    match load_le m (wrap u64 (rho "it.this_arg")) 1 with Some b => Some (wrap s8 (wrap s8 (wrap u8 b))) | None => None end.
Proof.
  repeat split; site_unfold sites_libwifi_parse_radiotap_rssi; wrap_ids; try reflexivity.
  cbn [c_bits]. change (Z.to_nat (8 / 8)) with 1%nat. destruct (load_le m _ 1); reflexivity.
Qed.

Print Assumptions code_parse_radiotap_rssi_short.
Print Assumptions code_parse_radiotap_rssi_first.
Print Assumptions sites_parse_radiotap_rssi.
