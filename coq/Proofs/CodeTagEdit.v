(* libwifi_check_tag and libwifi_remove_tag AS TRANSLATED from core/frame/tag.c (Gen/Sites.v: body_libwifi_check_tag /
   body_libwifi_remove_tag, the calls to the tag iterator placed inline), run on a tagged-parameter list [buf] stored at
   address [p] with NOTHING else readable (mem_at p buf):
   - the run is never stuck (no load outside the list, no signed overflow) and ends within an explicit fuel bound;
   - check_tag makes no call and returns exactly what the hand-written model Model/Tags.v check_tag returns;
   - remove_tag returns what the model's remove_tag returns, its trace is the memmove / free / realloc the model's
     result describes, and the list header (tags->length, tags->parameters) ends as the model says.
   The walk over the list is one induction on the fuel of the model's [walk], with the iterator's fields in the
   environment related to the model's tag_it ([st]). *)
From Coq Require Import ZArith String List Bool Lia.
From LW Require Import Base.Bytes Base.CExpr Gen.Sites Proofs.SitesLemmas Proofs.CodeIter Proofs.CodeSecurity.
From LW Require Import Model.TagIter Spec.TagSpec Model.Tags Proofs.TagIterProofs.
Import ListNotations.
Local Open Scope string_scope.
Local Open Scope list_scope.
Local Open Scope Z_scope.

(* ---------------------------------------------------------------- 1. rules of the runner for break, inlined calls, do-while *)
Lemma wp_break N m rho tr r (Q : xresult -> Prop) : Q (Broke rho tr) -> wp (S N) m rho tr (SBreak :: r) Q.
Proof. intros HQ. exists 1%nat. split; [lia | ]. cbn [exec]. split; [discriminate | exact HQ]. Qed.

(* what remains to be shown of the outcome of an inlined body whose value lands in x, followed by r *)
Definition ikont (N : nat) (m : memory) (x : string) (r : list cstmt) (Q : xresult -> Prop) : xresult -> Prop :=
  fun o => match o with
           | Returned (Some v) rho' tr' => wp N m (upd rho' x v) tr' r Q
           | Returned None rho' tr' => wp N m rho' tr' r Q
           | Fell rho' tr' => wp N m rho' tr' r Q
           | NoFuel => False
           | o => Q o
           end.

Lemma wp_inline N m rho tr x body r Q :
  wp N m rho tr body (ikont N m x r Q) -> wp (S N) m rho tr (SInline x body :: r) Q.
Proof.
  intros (f1 & Hf1 & Hn1 & H1).
  destruct (exec f1 m rho tr body) as [rho1 tr1 | [v1 | ] rho1 tr1 | rho1 tr1 | why | ] eqn:E; cbn [ikont] in H1.
  - destruct H1 as (f2 & Hf2 & Hn2 & H2).
    exists (S (Nat.max f1 f2)). split; [lia | ]. cbn [exec].
    rewrite (exec_fuel_le f1 (Nat.max f1 f2) _ _ _ _ _ (Nat.le_max_l _ _) E) by discriminate.
    rewrite (exec_fuel_le f2 (Nat.max f1 f2) _ _ _ _ _ (Nat.le_max_r _ _) eq_refl Hn2). split; assumption.
  - destruct H1 as (f2 & Hf2 & Hn2 & H2).
    exists (S (Nat.max f1 f2)). split; [lia | ]. cbn [exec].
    rewrite (exec_fuel_le f1 (Nat.max f1 f2) _ _ _ _ _ (Nat.le_max_l _ _) E) by discriminate.
    rewrite (exec_fuel_le f2 (Nat.max f1 f2) _ _ _ _ _ (Nat.le_max_r _ _) eq_refl Hn2). split; assumption.
  - destruct H1 as (f2 & Hf2 & Hn2 & H2).
    exists (S (Nat.max f1 f2)). split; [lia | ]. cbn [exec].
    rewrite (exec_fuel_le f1 (Nat.max f1 f2) _ _ _ _ _ (Nat.le_max_l _ _) E) by discriminate.
    rewrite (exec_fuel_le f2 (Nat.max f1 f2) _ _ _ _ _ (Nat.le_max_r _ _) eq_refl Hn2). split; assumption.
  - exists (S f1). split; [lia | ]. cbn [exec]. rewrite E. split; [discriminate | exact H1].
  - exists (S f1). split; [lia | ]. cbn [exec]. rewrite E. split; [discriminate | exact H1].
  - contradiction.
Qed.

(* what remains to be shown of the outcome of one pass through a loop body *)
Definition lkont (N : nat) (m : memory) (k : string) (c : cexpr) (body step r : list cstmt) (Q : xresult -> Prop)
  : xresult -> Prop :=
  fun o => match o with
           | Fell rho2 tr2 => wp N m rho2 tr2 step (kont N m (SLoop k true c body step :: r) Q)
           | Broke rho2 tr2 => wp N m rho2 tr2 r Q
           | NoFuel => False
           | o => Q o
           end.

(* do { body } while (c): the first pass does not test the condition *)
Lemma wp_loop_do N m rho tr k c body step r Q :
  wp N m rho tr body (lkont N m k c body step r Q) -> wp (S N) m rho tr (SLoop k false c body step :: r) Q.
Proof.
  intros (f1 & Hf1 & Hn1 & H1).
  destruct (exec f1 m rho tr body) as [rho2 tr2 | v2 rho2 tr2 | rho2 tr2 | why | ] eqn:E1; cbn [lkont] in H1.
  - destruct H1 as (f2 & Hf2 & Hn2 & H2).
    destruct (exec f2 m rho2 tr2 step) as [rho3 tr3 | v3 rho3 tr3 | rho3 tr3 | why | ] eqn:E2; cbn [kont] in H2.
    + destruct H2 as (f3 & Hf3 & Hn3 & H3).
      set (f := Nat.max f1 (Nat.max f2 f3)).
      exists (S f). split; [lia | ].
      rewrite (exec_loop_do f m rho tr k c body step r).
      rewrite (exec_fuel_le f1 f _ _ _ _ _ ltac:(lia) E1) by discriminate.
      rewrite (exec_fuel_le f2 f _ _ _ _ _ ltac:(lia) E2) by discriminate.
      rewrite (exec_fuel_le f3 f _ _ _ _ _ ltac:(lia) eq_refl Hn3). split; assumption.
    + set (f := Nat.max f1 f2). exists (S f). split; [lia | ].
      rewrite (exec_loop_do f m rho tr k c body step r).
      rewrite (exec_fuel_le f1 f _ _ _ _ _ ltac:(lia) E1) by discriminate.
      rewrite (exec_fuel_le f2 f _ _ _ _ _ ltac:(lia) E2) by discriminate. split; [discriminate | exact H2].
    + set (f := Nat.max f1 f2). exists (S f). split; [lia | ].
      rewrite (exec_loop_do f m rho tr k c body step r).
      rewrite (exec_fuel_le f1 f _ _ _ _ _ ltac:(lia) E1) by discriminate.
      rewrite (exec_fuel_le f2 f _ _ _ _ _ ltac:(lia) E2) by discriminate. split; [discriminate | exact H2].
    + set (f := Nat.max f1 f2). exists (S f). split; [lia | ].
      rewrite (exec_loop_do f m rho tr k c body step r).
      rewrite (exec_fuel_le f1 f _ _ _ _ _ ltac:(lia) E1) by discriminate.
      rewrite (exec_fuel_le f2 f _ _ _ _ _ ltac:(lia) E2) by discriminate. split; [discriminate | exact H2].
    + contradiction.
  - exists (S f1). split; [lia | ]. rewrite (exec_loop_do f1 m rho tr k c body step r), E1.
    split; [discriminate | exact H1].
  - destruct H1 as (f2 & Hf2 & Hn2 & H2).
    set (f := Nat.max f1 f2). exists (S f). split; [lia | ].
    rewrite (exec_loop_do f m rho tr k c body step r).
    rewrite (exec_fuel_le f1 f _ _ _ _ _ ltac:(lia) E1) by discriminate.
    rewrite (exec_fuel_le f2 f _ _ _ _ _ ltac:(lia) eq_refl Hn2). split; assumption.
  - exists (S f1). split; [lia | ]. rewrite (exec_loop_do f1 m rho tr k c body step r), E1.
    split; [discriminate | exact H1].
  - contradiction.
Qed.

(* either form of the loop: the condition, when it is tested, holds *)
Lemma wp_loop_pass N m rho tr k (pre : bool) c body step r Q :
  (pre = true -> exists v, ceval rho m c = Some v /\ v <> 0) ->
  wp N m rho tr body (lkont N m k c body step r Q) -> wp (S N) m rho tr (SLoop k pre c body step :: r) Q.
Proof.
  intros Hc H. destruct pre.
  - destruct (Hc eq_refl) as (v & Hv & Hnz). apply wp_loop_enter with (v := v); [exact Hv | exact Hnz | exact H].
  - apply wp_loop_do. exact H.
Qed.

(* ---------------------------------------------------------------- 2. the pieces of the two bodies *)
Definition init_block : list cstmt := [
  (SIf "libwifi_tag_iterator_init#0:if#0" (CBin OLt (mkty true 32) (CVar (mkty false 64) "tags->length") (CLit u64 2)) [(SRet "libwifi_tag_iterator_init#0:ret#0" (Some (CUn UNeg (mkty true 32) (CLit (mkty true 32) 22))))] []);
  (SIf "libwifi_tag_iterator_init#0:if#1" (CBin OGt (mkty true 32) (CCast (mkty false 64) (CLoad (mkty false 8) (CBin OAdd s64 (CVar (mkty false 64) "tags->parameters") (CLit s64 1)))) (CBin OSub (mkty false 64) (CVar (mkty false 64) "tags->length") (CLit u64 2))) [(SRet "libwifi_tag_iterator_init#0:ret#1" (Some (CUn UNeg (mkty true 32) (CLit (mkty true 32) 22))))] []);
  (SSet "libwifi_tag_iterator_init#0:set:it.tag_header#0" "it.tag_header" (CCast (mkty false 64) (CVar (mkty false 64) "tags->parameters")));
  (SSet "libwifi_tag_iterator_init#0:set:it.tag_data#0" "it.tag_data" (CCast (mkty false 64) (CBin OAdd s64 (CVar (mkty false 64) "tags->parameters") (CCast s64 (CLit u64 2)))));
  (SSet "libwifi_tag_iterator_init#0:set:it._next_tag_header#0" "it._next_tag_header" (CCast (mkty false 64) (CBin OAdd s64 (CVar (mkty false 64) "it.tag_data") (CCast s64 (CCast (mkty true 32) (CLoad (mkty false 8) (CBin OAdd s64 (CVar (mkty false 64) "it.tag_header") (CLit s64 1))))))));
  (SSet "libwifi_tag_iterator_init#0:set:it._frame_end#0" "it._frame_end" (CCast (mkty false 64) (CBin OSub s64 (CBin OAdd s64 (CVar (mkty false 64) "tags->parameters") (CCast s64 (CVar (mkty false 64) "tags->length"))) (CCast s64 (CLit (mkty true 32) 1)))));
  (SRet "libwifi_tag_iterator_init#0:ret#2" (Some (CLit (mkty true 32) 0)))].

Definition next_block : list cstmt := [
  (SSet "libwifi_tag_iterator_next#0:decl:next_th#0" "libwifi_tag_iterator_next#0$next_th" (CCast (mkty false 64) (CVar (mkty false 64) "it._next_tag_header")));
  (SIf "libwifi_tag_iterator_next#0:if#0" (CBin OGe (mkty true 32) (CVar (mkty false 64) "libwifi_tag_iterator_next#0$next_th") (CVar (mkty false 64) "it._frame_end")) [(SRet "libwifi_tag_iterator_next#0:ret#0" (Some (CUn UNeg (mkty true 32) (CLit (mkty true 32) 1))))] []);
  (SSet "libwifi_tag_iterator_next#0:set:it.tag_header#0" "it.tag_header" (CCast (mkty false 64) (CVar (mkty false 64) "it._next_tag_header")));
  (SSet "libwifi_tag_iterator_next#0:decl:bytes_left#0" "libwifi_tag_iterator_next#0$bytes_left" (CCast (mkty false 64) (CCast (mkty false 64) (CBin OSub s64 (CVar (mkty false 64) "it._frame_end") (CVar (mkty false 64) "it.tag_header")))));
  (SIf "libwifi_tag_iterator_next#0:if#1" (CBin OGe (mkty true 32) (CCast (mkty false 64) (CLoad (mkty false 8) (CBin OAdd s64 (CVar (mkty false 64) "it.tag_header") (CLit s64 1)))) (CVar (mkty false 64) "libwifi_tag_iterator_next#0$bytes_left")) [(SRet "libwifi_tag_iterator_next#0:ret#1" (Some (CUn UNeg (mkty true 32) (CLit (mkty true 32) 1))))] []);
  (SSet "libwifi_tag_iterator_next#0:set:it.tag_data#0" "it.tag_data" (CCast (mkty false 64) (CBin OAdd s64 (CVar (mkty false 64) "it.tag_header") (CCast s64 (CLit u64 2)))));
  (SSet "libwifi_tag_iterator_next#0:set:it._next_tag_header#0" "it._next_tag_header" (CCast (mkty false 64) (CBin OAdd s64 (CVar (mkty false 64) "it.tag_data") (CCast s64 (CCast (mkty true 32) (CLoad (mkty false 8) (CBin OAdd s64 (CVar (mkty false 64) "it.tag_header") (CLit s64 1))))))));
  (SRet "libwifi_tag_iterator_next#0:ret#2" (Some (CCast (mkty true 32) (CLoad (mkty false 8) (CBin OAdd s64 (CVar (mkty false 64) "it.tag_header") (CLit s64 0))))))].

(* it.tag_header->tag_num == tag_number *)
Definition match_cond : cexpr :=
  CBin OEq (mkty true 32) (CCast (mkty true 32) (CLoad (mkty false 8) (CBin OAdd s64 (CVar (mkty false 64) "it.tag_header") (CLit s64 0)))) (CVar (mkty true 32) "tag_number").
(* libwifi_tag_iterator_next(&it) != -1 *)
Definition loop_cond : cexpr :=
  CBin ONe (mkty true 32) (CVar (mkty true 32) "ret$libwifi_tag_iterator_next#0") (CUn UNeg (mkty true 32) (CLit (mkty true 32) 1)).

Definition check_then : list cstmt :=
  [(SSet "upd:tag_count#0" "tag_count" (CCast (mkty true 32) (CBin OAdd (mkty true 32) (CCast (mkty true 32) (CVar (mkty true 32) "tag_count")) (CLit (mkty true 32) 1))))].
Definition check_loop_body : list cstmt :=
  [SIf "if#2" match_cond check_then []; SInline "ret$libwifi_tag_iterator_next#0" next_block].
Definition check_tail : list cstmt := [(SRet "ret#2" (Some (CVar (mkty true 32) "tag_count")))].
Definition check_after_init : list cstmt :=
  [(SIf "if#1" (CBin ONe (mkty true 32) (CVar (mkty true 32) "ret$libwifi_tag_iterator_init#0") (CLit (mkty true 32) 0)) [(SRet "ret#1" (Some (CUn UNeg (mkty true 32) (CLit (mkty true 32) 22))))] []);
   SLoop "loop#0" false loop_cond check_loop_body []] ++ check_tail.

Lemma check_body_shape : body_libwifi_check_tag =
  [(SSet "decl:tag_count#0" "tag_count" (CCast (mkty true 32) (CLit (mkty true 32) 0)));
   (SIf "if#0" (CBin OEq (mkty true 32) (CVar (mkty false 64) "tags->length") (CCast (mkty false 64) (CLit (mkty true 32) 0))) [(SRet "ret#0" (Some (CLit (mkty true 32) 0)))] []);
   SInline "ret$libwifi_tag_iterator_init#0" init_block] ++ check_after_init.
Proof. reflexivity. Qed.

Definition remove_shrink : list cstmt :=
  [(SIf "if#3" (CBin OEq (mkty true 32) (CVar (mkty false 64) "new_len") (CCast (mkty false 64) (CLit (mkty true 32) 0))) [(SCall "call:free#0" "free" [(CVar (mkty false 64) "tags->parameters")]); (SSet "set:tags->parameters#0" "tags->parameters" (CCast (mkty false 64) (CLit u64 0)))] [(SCall "call:realloc#0" "realloc" [(CVar (mkty false 64) "tags->parameters"); (CVar (mkty false 64) "new_len")]); (SSet "decl:buf#0" "buf" (CCast (mkty false 64) (CCall (mkty false 64) "realloc" [(CVar (mkty false 64) "tags->parameters"); (CVar (mkty false 64) "new_len")]))); (SIf "if#4" (CBin ONe (mkty true 32) (CVar (mkty false 64) "buf") (CLit u64 0)) [(SSet "set:tags->parameters#1" "tags->parameters" (CCast (mkty false 64) (CVar (mkty false 64) "buf")))] [])]);
   (SSet "set:tags->length#0" "tags->length" (CCast (mkty false 64) (CVar (mkty false 64) "new_len")));
   SBreak].
Definition remove_then : list cstmt :=
  [(SSet "decl:tag_start#0" "tag_start" (CCast (mkty false 64) (CVar (mkty false 64) "it.tag_header")));
   (SSet "decl:tag_total_len#0" "tag_total_len" (CCast (mkty false 64) (CBin OAdd (mkty false 64) (CCast (mkty false 64) (CLoad (mkty false 8) (CBin OAdd s64 (CVar (mkty false 64) "it.tag_header") (CLit s64 1)))) (CLit u64 2))));
   (SSet "decl:copy_len#0" "copy_len" (CCast (mkty false 64) (CBin OSub (mkty false 64) (CBin OSub (mkty false 64) (CVar (mkty false 64) "tags->length") (CCast (mkty false 64) (CBin OSub s64 (CVar (mkty false 64) "tag_start") (CVar (mkty false 64) "tags->parameters")))) (CVar (mkty false 64) "tag_total_len"))));
   (SCall "call:memmove#0" "memmove" [(CVar (mkty false 64) "tag_start"); (CBin OAdd s64 (CVar (mkty false 64) "tag_start") (CCast s64 (CVar (mkty false 64) "tag_total_len"))); (CVar (mkty false 64) "copy_len")]);
   (SSet "decl:new_len#0" "new_len" (CCast (mkty false 64) (CBin OSub (mkty false 64) (CVar (mkty false 64) "tags->length") (CVar (mkty false 64) "tag_total_len"))))] ++ remove_shrink.
Definition remove_loop_body : list cstmt :=
  [SIf "if#2" match_cond remove_then []; SInline "ret$libwifi_tag_iterator_next#0" next_block].
Definition remove_tail : list cstmt := [(SRet "ret#2" (Some (CLit (mkty true 32) 0)))].
Definition remove_after_init : list cstmt :=
  [(SIf "if#1" (CBin ONe (mkty true 32) (CVar (mkty true 32) "ret$libwifi_tag_iterator_init#0") (CLit (mkty true 32) 0)) [(SRet "ret#1" (Some (CUn UNeg (mkty true 32) (CLit (mkty true 32) 22))))] []);
   SLoop "loop#0" false loop_cond remove_loop_body []] ++ remove_tail.

Lemma remove_body_shape : body_libwifi_remove_tag =
  [(SIf "if#0" (CBin OEq (mkty true 32) (CVar (mkty false 64) "tags->length") (CCast (mkty false 64) (CLit (mkty true 32) 0))) [(SRet "ret#0" (Some (CLit (mkty true 32) 0)))] []);
   SInline "ret$libwifi_tag_iterator_init#0" init_block] ++ remove_after_init.
Proof. reflexivity. Qed.

(* ---------------------------------------------------------------- 3. evaluating the sites on the list's memory *)
Lemma load_u8_0 start b i : 0 <= i < zlen b ->
  load_le (mem_at start b) (start + i + 0) (Z.to_nat (8 / 8)) = Some (znth b i).
Proof. intros H. replace (start + i + 0) with (start + i) by lia. apply load_u8_off. exact H. Qed.
Lemma load_u8_k start b i k : 0 <= i + k < zlen b ->
  load_le (mem_at start b) (start + i + k) (Z.to_nat (8 / 8)) = Some (znth b (i + k)).
Proof. intros H. replace (start + i + k) with (start + (i + k)) by lia. apply load_u8_off. exact H. Qed.

Ltac load_rw :=
  repeat match goal with
         | |- context [load_le (mem_at ?s ?b) (?s + ?i + 0) (Z.to_nat (8 / 8))] => rewrite (load_u8_0 s b i) by lia
         | |- context [load_le (mem_at ?s ?b) (?s + ?i + ?k) (Z.to_nat (8 / 8))] => rewrite (load_u8_k s b i k) by lia
         | |- context [load_le (mem_at ?s ?b) (?s + ?k) (Z.to_nat (8 / 8))] => rewrite (load_u8_off s b k) by lia
         end.
(* the value of one expression: unfold the evaluator, read the environment from the hypotheses, discharge conversions,
   comparisons and loads by range *)
Ltac cv :=
  ceval_unfold; env_rw;
  repeat (progress (wrap_ids; decide_bools; cbv beta iota; load_rw));
  try reflexivity.

(* what removing the element at offset o with a body of L octets from a list of len octets at p asks of the C library *)
Definition remove_trace (p o L len : Z) : list event :=
  ("memmove", [p + o; p + o + 2 + L; len - o - 2 - L]) ::
  (if len - 2 - L =? 0 then [("free", [p])] else [("realloc", [p; len - 2 - L])]).
(* tags->parameters afterwards: NULL when nothing is left, the allocator's answer ans unless it is NULL (a failed shrink
   leaves the old block, which is still valid) *)
Definition new_params (p ans newlen : Z) : Z := if newlen =? 0 then 0 else if ans =? 0 then p else ans.

(* what the two routines see of a list: nothing when its recorded length is 0 (they return before looking), else what
   iteration reports - Err when the first element does not fit, the chain of elements otherwise *)
Definition walk_of (buf : list byte) : outcome (list elem) := if zlen buf =? 0 then Ok [] else spec_iterate buf.

Lemma wrap_u64_range x : 0 <= wrap (mkty false 64) x < 18446744073709551616.
Proof. unfold wrap, modulus. cbn [c_signed c_bits]. change (2 ^ 64) with 18446744073709551616. apply Z.mod_pos_bound. lia. Qed.

Lemma wp_if_false N m rho tr k c a b r Q :
  ceval rho m c = Some 0 -> wp N m rho tr b (kont N m r Q) -> wp (S N) m rho tr (SIf k c a b :: r) Q.
Proof. intros Hc H. apply wp_if with (v := 0); [exact Hc | exact H]. Qed.

Section Walk.
  Variables (buf : list byte) (p n a : Z).
  Hypothesis Hwf : wfbytes buf.
  Hypothesis Hp : 0 < p.
  Hypothesis Hend : p + zlen buf < 4611686018427387904.
  Hypothesis Hn : -2147483648 <= n < 2147483648.
  Local Notation m := (mem_at p buf).

  (* the caller's view: the list header, the number looked for, the counter, the allocator's next answer *)
  Definition st0 (rho : env) (cnt : Z) : Prop :=
    rho "tags->parameters" = p /\ rho "tags->length" = zlen buf /\ rho "tag_number" = n /\
    rho "tag_count" = cnt /\ rho "ret:realloc" = a.
  (* ... and the local iterator object holds the model's iterator, as addresses *)
  Definition st (rho : env) (it : tag_it) (cnt : Z) : Prop :=
    rho "it.tag_header" = p + it_hdr it /\ rho "it._next_tag_header" = p + it_next it /\
    rho "it._frame_end" = p + it_end it /\ st0 rho cnt.
  (* the iterators the walk goes through: on an element header inside the list, the next header computed from it *)
  Definition it_inv (it : tag_it) : Prop :=
    0 <= it_hdr it /\ it_hdr it + 2 <= zlen buf /\ it_next it = it_hdr it + 2 + znth buf (it_hdr it + 1) /\
    it_next it <= zlen buf /\ it_end it = zlen buf - 1.

  Lemma init_block_wp rho cnt tr : st0 rho cnt ->
    match tag_init (rd_strict buf) (zlen buf) with
    | Done (Err c) =>
        c = -22 /\
        forall N (Q : xresult -> Prop), (12 <= N)%nat -> Q (Returned (Some (-22)) rho tr) -> wp N m rho tr init_block Q
    | Done (Ok it) =>
        it_inv it /\
        forall N (Q : xresult -> Prop), (12 <= N)%nat -> (forall rho', st rho' it cnt -> Q (Returned (Some 0) rho' tr)) ->
                    wp N m rho tr init_block Q
    | _ => False
    end.
  Proof.
    intros (Ep & El & Enum & Ecnt & Ea).
    pose proof (zlen_nonneg buf) as Hlen.
    unfold tag_init.
    destruct (Z.ltb_spec (zlen buf) 2) as [Hlt | Hge].
    - split; [reflexivity | ]. intros N Q HN HQ. apply wp_mono with (N := 12%nat); [exact HN | ].
      unfold init_block. eapply wp_if_ret; [cv | discriminate | cv | exact HQ].
    - rewrite (rd_strict_in buf 1) by lia. cbn [bind].
      pose proof (wfbytes_znth buf 1 Hwf ltac:(lia)) as Hb.
      destruct (Z.ltb_spec (zlen buf - 2) (znth buf 1)) as [Hbig | Hfit].
      + split; [reflexivity | ]. intros N Q HN HQ. apply wp_mono with (N := 12%nat); [exact HN | ].
        unfold init_block. apply wp_if_skip; [cv | ].
        eapply wp_if_ret; [cv | discriminate | cv | exact HQ].
      + split.
        * unfold it_inv. cbn [it_hdr it_next it_end]. repeat split; lia.
        * intros N Q HN HQ. apply wp_mono with (N := 12%nat); [exact HN | ].
          unfold init_block. apply wp_if_skip; [cv | ]. apply wp_if_skip; [cv | ].
          eapply wp_set; [cv | ]. eapply wp_set; [cv | ]. eapply wp_set; [cv | ]. eapply wp_set; [cv | ].
          eapply wp_ret; [cv | ].
          apply HQ. unfold st, st0.
          cbv beta iota zeta delta [upd String.eqb Ascii.eqb Bool.eqb it_hdr it_data it_next it_end].
          repeat split; try assumption; lia.
  Qed.

  Definition ret_of (r : option Z) : Z := match r with None => -1 | Some v => v end.

  (* libwifi_tag_iterator_next(&it), inline: the model's step, the value returned is the new element's number or -1 *)
  Lemma next_block_wp it : it_inv it ->
    exists it' r,
      tag_next (rd_strict buf) it = Done (it', r) /\
      (forall v, r = Some v -> it_inv it' /\ v = znth buf (it_hdr it')) /\
      forall rho cnt tr, st rho it cnt ->
      forall N (Q : xresult -> Prop), (12 <= N)%nat ->
        (forall rho', st rho' it' cnt -> Q (Returned (Some (ret_of r)) rho' tr)) ->
        wp N m rho tr next_block Q.
  Proof.
    intros (Hh0 & Hh2 & Hnx & Hnl & He).
    pose proof (zlen_nonneg buf) as Hlen.
    unfold tag_next. rewrite He in *.
    destruct (Z.leb_spec (zlen buf - 1) (it_next it)) as [Hdone | Hmore].
    - exists it, None. split; [reflexivity | ]. split; [discriminate | ].
      intros rho cnt tr (Eh & En & Ee & Ep & El & Enum & Ecnt & Ea) N Q HN HQ. rewrite He in Ee.
      apply wp_mono with (N := 12%nat); [exact HN | ]. unfold next_block.
      eapply wp_set; [cv | ].
      eapply wp_if_ret; [cv | discriminate | cv | ].
      apply HQ. unfold st, st0. rewrite He. upd_red. repeat split; assumption.
    - remember (it_next it) as h eqn:Eh'.
      assert (Hh : 0 <= h) by (pose proof (wfbytes_znth buf (it_hdr it + 1) Hwf ltac:(lia)) as Hbl; lia).
      pose proof (wfbytes_znth buf (h + 1) Hwf ltac:(lia)) as Hb1.
      pose proof (wfbytes_znth buf h Hwf ltac:(lia)) as Hb0.
      rewrite (rd_strict_in buf (h + 1)) by lia. cbn [bind].
      destruct (Z.leb_spec (zlen buf - 1 - h) (znth buf (h + 1))) as [Hshort | Hfit].
      + eexists _, None. split; [reflexivity | ]. split; [discriminate | ].
        intros rho cnt tr (Eh & En & Ee & Ep & El & Enum & Ecnt & Ea) N Q HN HQ. rewrite He, <- ?Eh' in *.
        apply wp_mono with (N := 12%nat); [exact HN | ]. unfold next_block.
        eapply wp_set; [cv | ]. apply wp_if_skip; [cv | ].
        eapply wp_set; [cv | ]. eapply wp_set; [cv | ].
        eapply wp_if_ret; [cv | discriminate | cv | ].
        apply HQ. unfold st, st0.
        cbv beta iota zeta delta [upd String.eqb Ascii.eqb Bool.eqb it_hdr it_data it_next it_end].
        repeat split; try assumption; lia.
      + rewrite (rd_strict_in buf h) by lia. cbn [bind].
        eexists _, (Some _). split; [reflexivity | ]. split.
        * intros v Hv. injection Hv as Hv. subst v. unfold it_inv. cbn [it_hdr it_next it_end].
          repeat split; lia.
        * intros rho cnt tr (Eh & En & Ee & Ep & El & Enum & Ecnt & Ea) N Q HN HQ. rewrite He, <- ?Eh' in *.
          apply wp_mono with (N := 12%nat); [exact HN | ]. unfold next_block.
          eapply wp_set; [cv | ]. apply wp_if_skip; [cv | ].
          eapply wp_set; [cv | ]. eapply wp_set; [cv | ].
          apply wp_if_skip; [cv | ].
          eapply wp_set; [cv | ]. eapply wp_set; [cv | ].
          eapply wp_ret; [cv | ].
          apply HQ. unfold st, st0.
          cbv beta iota zeta delta [upd String.eqb Ascii.eqb Bool.eqb it_hdr it_data it_next it_end].
          repeat split; try assumption; lia.
  Qed.

  Lemma cur_elem_in it : it_inv it ->
    cur_elem (rd_strict buf) it =
      Done {| e_off := it_hdr it; e_num := znth buf (it_hdr it); e_len := znth buf (it_hdr it + 1) |}.
  Proof.
    intros (Hh0 & Hh2 & _). unfold cur_elem.
    rewrite (rd_strict_in buf (it_hdr it)) by lia. cbn [bind].
    rewrite (rd_strict_in buf (it_hdr it + 1)) by lia. reflexivity.
  Qed.

  Lemma loop_cond_true rho : 0 <= rho "ret$libwifi_tag_iterator_next#0" < 256 -> ceval rho m loop_cond = Some 1.
  Proof. intros H. unfold loop_cond. cv. Qed.
  Lemma loop_cond_false rho : rho "ret$libwifi_tag_iterator_next#0" = -1 -> ceval rho m loop_cond = Some 0.
  Proof. intros H. unfold loop_cond. cv. Qed.

  Definition count_of (l : list elem) : Z := zlen (filter (fun e => e_num e =? n) l).
  Lemma count_of_cons e l : count_of (e :: l) = (if e_num e =? n then 1 else 0) + count_of l.
  Proof. unfold count_of. cbn [filter]. destruct (e_num e =? n); rewrite ?zlen_cons; lia. Qed.
  Lemma count_of_range l : 0 <= count_of l <= zlen l.
  Proof.
    induction l as [ | e l IH]; [unfold count_of; cbn; lia | ].
    rewrite count_of_cons, zlen_cons. destruct (e_num e =? n); lia.
  Qed.

  (* the walk never ends on an empty list of elements *)
  Lemma walk_nonempty fuel it l : walk (rd_strict buf) fuel it = Done l -> 1 <= zlen l.
  Proof.
    destruct fuel as [ | f]; [discriminate | ]. cbn [walk].
    destruct (cur_elem (rd_strict buf) it) as [e | | ]; cbn [bind]; try discriminate.
    destruct (tag_next (rd_strict buf) it) as [[it' [v | ]] | | ]; cbn [bind]; try discriminate.
    - destruct (walk (rd_strict buf) f it') as [rest | | ]; cbn [bind]; try discriminate.
      intros H. injection H as <-. rewrite zlen_cons. pose proof (zlen_nonneg rest) as Hr0. lia.
    - intros H. injection H as <-. rewrite zlen_cons. pose proof (@zlen_nonneg elem []) as Hr0. lia.
  Qed.

  (* ---------------------------------------------------------------- 4. the loop of libwifi_check_tag *)
  Lemma check_loop_wp : forall fuel it l, it_inv it -> walk (rd_strict buf) fuel it = Done l ->
    forall (pre : bool) N rho cnt r (Q : xresult -> Prop),
    (16 <= N)%nat -> st rho it cnt ->
    (pre = true -> 0 <= rho "ret$libwifi_tag_iterator_next#0" < 256) ->
    0 <= cnt -> cnt + zlen l < 2147483648 ->
    (forall rho', st0 rho' (cnt + count_of l) -> wp N m rho' [] r Q) ->
    wp (S N + length l) m rho [] (SLoop "loop#0" pre loop_cond check_loop_body [] :: r) Q.
  Proof.
    induction fuel as [ | f IH]; intros it l Hinv Hw pre N rho cnt r Q HN Hst Hpre Hc0 Hc Hk; [discriminate | ].
    pose proof (walk_nonempty _ _ _ Hw) as Hl1.
    cbn [walk] in Hw. rewrite (cur_elem_in it Hinv) in Hw. cbn [bind] in Hw.
    destruct (next_block_wp it Hinv) as (it' & r' & Hnext & Hinv' & Hrun).
    rewrite Hnext in Hw. cbn [bind] in Hw.
    set (cnt' := cnt + (if znth buf (it_hdr it) =? n then 1 else 0)).
    assert (Hbody : forall N' (Q' : xresult -> Prop), (16 <= N')%nat ->
              (forall rho', st rho' it' cnt' -> rho' "ret$libwifi_tag_iterator_next#0" = ret_of r' -> Q' (Fell rho' [])) ->
              wp N' m rho [] check_loop_body Q').
    { intros N' Q' HN' HQ'. apply wp_mono with (N := 16%nat); [exact HN' | ]. unfold check_loop_body.
      pose proof Hinv as (Hh0 & Hh2 & _).
      pose proof (wfbytes_znth buf (it_hdr it) Hwf ltac:(lia)) as Hb0.
      pose proof Hst as (Eh & En & Ee & Ep & El & Enum & Ecnt & Ea).
      assert (Hin : forall rho1, st rho1 it cnt' -> wp 14 m rho1 [] [SInline "ret$libwifi_tag_iterator_next#0" next_block] Q').
      { intros rho1 Hst1. apply wp_inline. apply (Hrun rho1 cnt' [] Hst1); [lia | ].
        intros rho' Hst'. cbn [ikont]. apply wp_nil. apply HQ'.
        - unfold st, st0 in *. upd_red. exact Hst'.
        - upd_red. reflexivity. }
      subst cnt'. destruct (Z.eqb_spec (znth buf (it_hdr it)) n) as [Heq | Hne].
      - eapply wp_if_true with (v := 1); [unfold match_cond; cv | discriminate | ].
        unfold check_then. eapply wp_set; [cv | ]. apply wp_nil. cbn [kont].
        apply wp_mono with (N := 14%nat); [lia | ]. apply Hin.
        unfold st, st0. upd_red. repeat split; assumption.
      - apply wp_if_skip; [unfold match_cond; cv | ].
        apply wp_mono with (N := 14%nat); [lia | ]. apply Hin.
        unfold st, st0. repeat split; try assumption. lia. }
    assert (Hpass : forall rest, l = {| e_off := it_hdr it; e_num := znth buf (it_hdr it); e_len := znth buf (it_hdr it + 1) |} :: rest ->
              (forall rho', st rho' it' cnt' -> rho' "ret$libwifi_tag_iterator_next#0" = ret_of r' ->
                            wp (S N + length rest) m rho' [] (SLoop "loop#0" true loop_cond check_loop_body [] :: r) Q) ->
              wp (S N + length l) m rho [] (SLoop "loop#0" pre loop_cond check_loop_body [] :: r) Q).
    { intros rest -> Hnextpass.
      apply wp_mono with (N := S (S N + length rest)); [cbn [length]; lia | ].
      apply wp_loop_pass.
      - intros Hp1. exists 1. split; [apply loop_cond_true; auto | discriminate].
      - apply Hbody; [lia | ]. intros rho' Hst' Hret. cbn [lkont]. apply wp_nil. cbn [kont].
        apply Hnextpass; assumption. }
    destruct r' as [v | ].
    - destruct (walk (rd_strict buf) f it') as [rest | | ] eqn:Hw'; cbn [bind] in Hw; try discriminate.
      injection Hw as Hl. symmetry in Hl. apply (Hpass rest Hl).
      intros rho' Hst' Hret. destruct (Hinv' v eq_refl) as (Hi' & Hv).
      assert (Hcnt' : cnt <= cnt' <= cnt + 1) by (subst cnt'; destruct (znth buf (it_hdr it) =? n); lia).
      rewrite Hl, zlen_cons in Hc.
      apply (IH it' rest Hi' Hw' true N rho' cnt' r Q HN Hst').
      + intros _. rewrite Hret. cbn [ret_of]. rewrite Hv.
        destruct Hi' as (Hh0' & Hh2' & _). apply wfbytes_znth; [exact Hwf | lia].
      + lia.
      + rewrite Hl, count_of_cons in Hk. cbn [e_num] in Hk. 
        pose proof (count_of_range rest) as Hcr. subst cnt'.
        destruct (znth buf (it_hdr it) =? n); lia.
      + intros rho2 Hst2. apply Hk. rewrite Hl, count_of_cons. cbn [e_num]. subst cnt'.
        replace (cnt + ((if znth buf (it_hdr it) =? n then 1 else 0) + count_of rest))
          with (cnt + (if znth buf (it_hdr it) =? n then 1 else 0) + count_of rest) by lia.
        exact Hst2.
    - injection Hw as Hl. symmetry in Hl. apply (Hpass [] Hl).
      intros rho' Hst' Hret. cbn [length]. rewrite Nat.add_0_r.
      apply wp_loop_exit; [apply loop_cond_false; exact Hret | ].
      apply Hk. rewrite Hl, count_of_cons. cbn [e_num]. change (count_of []) with 0.
      rewrite Z.add_0_r. destruct Hst' as (_ & _ & _ & Hst0). exact Hst0.
  Qed.

  (* ---------------------------------------------------------------- 5. the loop of libwifi_remove_tag *)
  Lemma walk_head fuel it l : it_inv it -> walk (rd_strict buf) (S fuel) it = Done l ->
    forall it' r', tag_next (rd_strict buf) it = Done (it', r') ->
    exists rest,
      l = {| e_off := it_hdr it; e_num := znth buf (it_hdr it); e_len := znth buf (it_hdr it + 1) |} :: rest /\
      match r' with Some _ => walk (rd_strict buf) fuel it' = Done rest | None => rest = [] end.
  Proof.
    intros Hinv Hw it' r' Hnext. cbn [walk] in Hw. rewrite (cur_elem_in it Hinv) in Hw. cbn [bind] in Hw.
    rewrite Hnext in Hw. cbn [bind] in Hw. destruct r' as [v | ].
    - destruct (walk (rd_strict buf) fuel it') as [rest | | ]; cbn [bind] in Hw; try discriminate.
      injection Hw as <-. exists rest. split; reflexivity.
    - injection Hw as <-. exists []. split; reflexivity.
  Qed.

  Lemma remove_loop_wp : forall fuel it l, it_inv it -> walk (rd_strict buf) fuel it = Done l ->
    forall (pre : bool) N rho cnt r (Q : xresult -> Prop),
    (24 <= N)%nat -> st rho it cnt ->
    (pre = true -> 0 <= rho "ret$libwifi_tag_iterator_next#0" < 256) ->
    match find_num n l with
    | None => forall rho', st0 rho' cnt -> wp N m rho' [] r Q
    | Some e =>
        forall rho' tr', tr' = remove_trace p (e_off e) (e_len e) (zlen buf) ->
          rho' "tags->length" = zlen buf - 2 - e_len e ->
          rho' "tags->parameters" = new_params p (wrap (mkty false 64) a) (zlen buf - 2 - e_len e) ->
          wp N m rho' tr' r Q
    end ->
    wp (S N + length l) m rho [] (SLoop "loop#0" pre loop_cond remove_loop_body [] :: r) Q.
  Proof.
    induction fuel as [ | f IH]; intros it l Hinv Hw pre N rho cnt r Q HN Hst Hpre Hk; [discriminate | ].
    destruct (next_block_wp it Hinv) as (it' & r' & Hnext & Hinv' & Hrun).
    destruct (walk_head f it l Hinv Hw it' r' Hnext) as (rest & Hl & Hrest).
    pose proof Hinv as (Hh0 & Hh2 & Hnx & Hnl & He).
    pose proof (zlen_nonneg buf) as Hlen.
    pose proof (wfbytes_znth buf (it_hdr it) Hwf ltac:(lia)) as Hb0.
    pose proof (wfbytes_znth buf (it_hdr it + 1) Hwf ltac:(lia)) as Hb1.
    pose proof (wrap_u64_range a) as Ha.
    pose proof Hst as (Eh & En & Ee & Ep & El & Enum & Ecnt & Ea).
    rewrite Hl in Hk |- *. cbn [find_num e_num] in Hk.
    apply wp_mono with (N := S (S N + length rest)); [cbn [length]; lia | ].
    apply wp_loop_pass.
    { intros Hp1. exists 1. split; [apply loop_cond_true; auto | discriminate]. }
    apply wp_mono with (N := 24%nat); [lia | ]. unfold remove_loop_body.
    destruct (Z.eqb_spec (znth buf (it_hdr it)) n) as [Heq | Hne].
    - (* the element to remove *)
      cbn [e_off e_len] in Hk.
      set (h := it_hdr it) in *. set (L := znth buf (h + 1)) in *.
      eapply wp_if_true with (v := 1); [unfold match_cond; cv | discriminate | ].
      unfold remove_then, remove_shrink. cbn [app].
      eapply wp_set; [cv | ]. eapply wp_set; [cv | ]. eapply wp_set; [cv | ].
      eapply wp_call; [cv | ]. eapply wp_set; [cv | ].
      destruct (Z.eqb_spec (zlen buf - 2 - L) 0) as [Hz | Hnz].
      + eapply wp_if_true with (v := 1); [cv | discriminate | ].
        eapply wp_call; [cv | ]. eapply wp_set; [cv | ]. apply wp_nil. cbn [kont].
        eapply wp_set; [cv | ]. apply wp_break. cbn [kont lkont].
        apply wp_mono with (N := N); [lia | ]. apply Hk.
        * unfold remove_trace. rewrite (eqb_true _ _ Hz). cbn [app]. list_eq.
        * upd_red. lia.
        * upd_red. unfold new_params. rewrite (eqb_true _ _ Hz). reflexivity.
      + eapply wp_if_false; [cv | ].
        eapply wp_call; [cv | ]. eapply wp_set; [cv | ].
        destruct (Z.eqb_spec (wrap (mkty false 64) a) 0) as [Hnull | Hans].
        * apply wp_if_skip; [cv | ]. apply wp_nil. cbn [kont].
          eapply wp_set; [cv | ]. apply wp_break. cbn [kont lkont].
          apply wp_mono with (N := N); [lia | ]. apply Hk.
          -- unfold remove_trace. rewrite (eqb_false _ _ Hnz). cbn [app]. list_eq.
          -- upd_red. lia.
          -- upd_red. unfold new_params. rewrite (eqb_false _ _ Hnz), (eqb_true _ _ Hnull). exact Ep.
        * eapply wp_if_true with (v := 1); [cv | discriminate | ].
          eapply wp_set; [cv | ]. apply wp_nil. cbn [kont]. apply wp_nil. cbn [kont].
          eapply wp_set; [cv | ]. apply wp_break. cbn [kont lkont].
          apply wp_mono with (N := N); [lia | ]. apply Hk.
          -- unfold remove_trace. rewrite (eqb_false _ _ Hnz). cbn [app]. list_eq.
          -- upd_red. lia.
          -- upd_red. unfold new_params. rewrite (eqb_false _ _ Hnz), (eqb_false _ _ Hans). reflexivity.
    - (* another element: step *)
      apply wp_if_skip; [unfold match_cond; cv | ].
      apply wp_inline. apply (Hrun rho cnt [] Hst); [lia | ].
      intros rho' Hst'. cbn [ikont]. apply wp_nil. cbn [lkont]. apply wp_nil. cbn [kont].
      apply wp_mono with (N := (S N + length rest)%nat); [lia | ].
      assert (Hst2 : st (upd rho' "ret$libwifi_tag_iterator_next#0" (ret_of r')) it' cnt)
        by (unfold st, st0 in *; upd_red; exact Hst').
      destruct r' as [v | ].
      + destruct (Hinv' v eq_refl) as (Hi' & Hv).
        apply (IH it' rest Hi' Hrest true N _ cnt r Q HN Hst2).
        * intros _. upd_red. cbn [ret_of]. rewrite Hv.
          destruct Hi' as (Hh0' & Hh2' & _). apply wfbytes_znth; [exact Hwf | lia].
        * exact Hk.
      + subst rest. cbn [length]. rewrite Nat.add_0_r.
        apply wp_loop_exit; [apply loop_cond_false; upd_red; reflexivity | ].
        cbn [find_num] in Hk. apply Hk. destruct Hst2 as (_ & _ & _ & Hst0). exact Hst0.
  Qed.

  (* ---------------------------------------------------------------- 6. the whole bodies *)
  Lemma iterate_cases :
    match tag_init (rd_strict buf) (zlen buf) with
    | Done (Err c) => spec_iterate buf = Err c
    | Done (Ok it) =>
        exists l, walk (rd_strict buf) (Z.to_nat (zlen buf) + 1) it = Done l /\ spec_iterate buf = Ok l
    | _ => False
    end.
  Proof.
    pose proof (iterate_exact buf (rd_strict buf) Hwf (agrees_strict buf)) as H. unfold iterate in H.
    destruct (tag_init (rd_strict buf) (zlen buf)) as [[it | c] | | ]; cbn [bind] in H; try discriminate.
    - destruct (walk (rd_strict buf) (Z.to_nat (zlen buf) + 1) it) as [l | | ]; cbn [bind] in H; try discriminate.
      exists l. split; [reflexivity | ]. injection H as <-. reflexivity.
    - injection H as <-. reflexivity.
  Qed.

  Lemma spec_ok_bound l : spec_iterate buf = Ok l -> 2 * zlen l <= zlen buf.
  Proof.
    unfold spec_iterate. destruct (elements buf) eqn:E; [discriminate | ]. intros H. injection H as <-.
    apply reported_bound. exact Hwf.
  Qed.

  Definition check_value : Z := match walk_of buf with Err _ => -22 | Ok l => count_of l end.

  Lemma check_run rho :
    zlen buf < 2147483648 ->
    rho "tags->parameters" = p -> rho "tags->length" = zlen buf -> rho "tag_number" = n -> rho "ret:realloc" = a ->
    wp (44 + Z.to_nat (zlen buf)) m rho [] body_libwifi_check_tag (fun o => observe o = Some (Some check_value, [])).
  Proof.
    intros H31 Ep El Enum Ea. pose proof (zlen_nonneg buf) as Hlen.
    rewrite check_body_shape. cbn [app]. unfold check_value, walk_of.
    eapply wp_set; [cv | ].
    destruct (Z.eqb_spec (zlen buf) 0) as [Hz | Hnz].
    - eapply wp_if_ret; [cv | discriminate | cv | reflexivity].
    - apply wp_if_skip; [cv | ]. apply wp_inline.
      assert (Hst0 : st0 (upd rho "tag_count" 0) 0) by (unfold st0; upd_red; repeat split; assumption).
      pose proof (init_block_wp _ 0 [] Hst0) as Hinit. pose proof iterate_cases as Hit.
      destruct (tag_init (rd_strict buf) (zlen buf)) as [[it | c] | | ]; try contradiction.
      + destruct Hinit as (Hinv & Hrun). destruct Hit as (l & Hw & Hspec). rewrite Hspec.
        pose proof (spec_ok_bound l Hspec) as Hbound.
        apply Hrun; [lia | ]. intros rho1 Hst1. cbn [ikont]. unfold check_after_init. cbn [app].
        apply wp_if_skip; [cv | ].
        apply wp_mono with (N := (S 20 + length l)%nat); [unfold zlen in Hbound |- *; lia | ].
        apply (check_loop_wp _ it l Hinv Hw false 20 _ 0 check_tail).
        * lia.
        * unfold st, st0 in *. upd_red. exact Hst1.
        * discriminate.
        * lia.
        * lia.
        * intros rho2 (Ep2 & El2 & Enum2 & Ecnt2 & Ea2). pose proof (count_of_range l) as Hcr.
          unfold check_tail. eapply wp_ret; [cv | ]. cbn [observe]. rewrite Z.add_0_l. reflexivity.
      + destruct Hinit as (Hc & Hrun). rewrite Hit.
        apply Hrun; [lia | ]. cbn [ikont]. unfold check_after_init. cbn [app].
        eapply wp_if_ret; [cv | discriminate | cv | reflexivity].
  Qed.

  Definition unchanged (rho' : env) : Prop := rho' "tags->length" = zlen buf /\ rho' "tags->parameters" = p.
  Definition remove_post (o : xresult) : Prop :=
    match walk_of buf with
    | Err _ => exists rho', o = Returned (Some (-22)) rho' [] /\ unchanged rho'
    | Ok l =>
        match find_num n l with
        | None => exists rho', o = Returned (Some 0) rho' [] /\ unchanged rho'
        | Some e =>
            exists rho', o = Returned (Some 0) rho' (remove_trace p (e_off e) (e_len e) (zlen buf)) /\
                         rho' "tags->length" = zlen buf - 2 - e_len e /\
                         rho' "tags->parameters" = new_params p (wrap (mkty false 64) a) (zlen buf - 2 - e_len e)
        end
    end.

  Lemma remove_run rho :
    rho "tags->parameters" = p -> rho "tags->length" = zlen buf -> rho "tag_number" = n -> rho "ret:realloc" = a ->
    wp (44 + Z.to_nat (zlen buf)) m rho [] body_libwifi_remove_tag remove_post.
  Proof.
    intros Ep El Enum Ea. pose proof (zlen_nonneg buf) as Hlen.
    rewrite remove_body_shape. cbn [app]. unfold remove_post, walk_of, unchanged.
    destruct (Z.eqb_spec (zlen buf) 0) as [Hz | Hnz].
    - cbn [find_num]. eapply wp_if_ret; [cv | discriminate | cv | ].
      eexists. split; [reflexivity | ]. split; assumption.
    - apply wp_if_skip; [cv | ]. apply wp_inline.
      assert (Hst0 : st0 rho (rho "tag_count")) by (unfold st0; repeat split; assumption).
      pose proof (init_block_wp _ _ [] Hst0) as Hinit. pose proof iterate_cases as Hit.
      destruct (tag_init (rd_strict buf) (zlen buf)) as [[it | c] | | ]; try contradiction.
      + destruct Hinit as (Hinv & Hrun). destruct Hit as (l & Hw & Hspec). rewrite Hspec.
        pose proof (spec_ok_bound l Hspec) as Hbound.
        apply Hrun; [lia | ]. intros rho1 Hst1. cbn [ikont]. unfold remove_after_init. cbn [app].
        apply wp_if_skip; [cv | ].
        apply wp_mono with (N := (S 24 + length l)%nat); [unfold zlen in Hbound |- *; lia | ].
        apply (remove_loop_wp _ it l Hinv Hw false 24 _ (rho "tag_count") remove_tail).
        * lia.
        * unfold st, st0 in *. upd_red. exact Hst1.
        * discriminate.
        * destruct (find_num n l) as [e | ].
          -- intros rho2 tr2 -> El2 Ep2. unfold remove_tail. eapply wp_ret; [cv | ].
             eexists. split; [reflexivity | ]. split; assumption.
          -- intros rho2 (Ep2 & El2 & _). unfold remove_tail. eapply wp_ret; [cv | ].
             eexists. split; [reflexivity | ]. split; assumption.
      + destruct Hinit as (Hc & Hrun). rewrite Hit.
        apply Hrun; [lia | ]. cbn [ikont]. unfold remove_after_init. cbn [app].
        eapply wp_if_ret; [cv | discriminate | cv | ].
        eexists. split; [reflexivity | ]. upd_red. split; assumption.
  Qed.
End Walk.

(* ---------------------------------------------------------------- 7. the model's answers, on the byte list *)
Lemma check_tag_value buf n : wfbytes buf ->
  check_tag {| t_len := zlen buf; t_bytes := buf |} n = Done (check_value buf n).
Proof.
  intros Hwf. unfold check_tag, check_value, walk_of, iter_of. cbn [t_len t_bytes].
  destruct (zlen buf =? 0); [reflexivity | ].
  rewrite (iterate_exact buf (rd_strict buf) Hwf (agrees_strict buf)). cbn [bind].
  destruct (spec_iterate buf); reflexivity.
Qed.

Lemma remove_tag_value buf n : wfbytes buf ->
  let s := {| t_len := zlen buf; t_bytes := buf |} in
  remove_tag s n =
    Done (match walk_of buf with
          | Err _ => (s, -22)
          | Ok l => match find_num n l with
                    | None => (s, 0)
                    | Some e => ({| t_len := zlen buf - (e_len e + 2);
                                    t_bytes := zfirstn (e_off e) buf ++
                                               slice (e_off e + (e_len e + 2)) (zlen buf - e_off e - (e_len e + 2)) buf |}, 0)
                    end
          end).
Proof.
  intros Hwf s. unfold remove_tag, walk_of, iter_of, s. cbn [t_len t_bytes].
  destruct (zlen buf =? 0); [reflexivity | ].
  rewrite (iterate_exact buf (rd_strict buf) Hwf (agrees_strict buf)). cbn [bind].
  destruct (spec_iterate buf) as [l | c]; [ | reflexivity].
  destruct (find_num n l); reflexivity.
Qed.

(* the element found is the first of the list that carries the number *)
Lemma find_num_first n : forall l e, find_num n l = Some e ->
  e_num e = n /\ exists l1 l2, l = l1 ++ e :: l2 /\ Forall (fun x => e_num x <> n) l1.
Proof.
  induction l as [ | x l IH]; intros e H; [discriminate | ].
  cbn [find_num] in H. destruct (Z.eqb_spec (e_num x) n) as [Heq | Hne].
  - injection H as <-. split; [exact Heq | ]. exists [], l. split; [reflexivity | constructor].
  - destruct (IH e H) as (Hn & l1 & l2 & -> & Hall). split; [exact Hn | ].
    exists (x :: l1), l2. split; [reflexivity | constructor; assumption].
Qed.

Lemma walk_of_genuine buf l e : wfbytes buf -> walk_of buf = Ok l -> In e l -> genuine buf e.
Proof.
  intros Hwf. unfold walk_of. destruct (zlen buf =? 0).
  - intros H. injection H as <-. contradiction.
  - unfold spec_iterate. destruct (elements buf) eqn:E; [discriminate | ]. intros H. injection H as <-.
    apply reported_genuine. exact Hwf.
Qed.

Lemma znth_nonneg buf i : wfbytes buf -> 0 <= znth buf i.
Proof.
  intros Hwf. unfold znth. destruct (nth_in_or_default (Z.to_nat i) buf 0) as [Hin | ->]; [ | lia].
  apply (wfbytes_In buf _ Hwf Hin).
Qed.

Lemma walk_of_bound buf l : wfbytes buf -> walk_of buf = Ok l -> 2 * zlen l <= zlen buf.
Proof.
  intros Hwf. unfold walk_of. destruct (zlen buf =? 0).
  - intros H. injection H as <-. pose proof (zlen_nonneg buf) as Hlen. cbn. lia.
  - apply spec_ok_bound. exact Hwf.
Qed.

(* ---------------------------------------------------------------- 8. the theorems *)
Definition check_fuel (len : Z) : nat := 44 + Z.to_nat len.
Definition remove_fuel (len : Z) : nat := 44 + Z.to_nat len.

(* libwifi_check_tag as translated: with check_fuel (zlen buf) units of fuel (or more) the run ends, is not stuck, makes no call and
   returns the model's value v: 0 on the empty list, -22 when the first element does not fit, else the number of elements of
   the chain carrying the number n - at most zlen buf / 2 < 2^30, so that tag_count (an int) cannot overflow. *)
Theorem code_check_tag_refines_model buf p n rho F :
  wfbytes buf -> zlen buf < 2 ^ 31 -> 0 < p -> p + zlen buf < 2 ^ 62 -> - 2 ^ 31 <= n < 2 ^ 31 ->
  rho "tags->parameters" = p -> rho "tags->length" = zlen buf -> rho "tag_number" = n ->
  (check_fuel (zlen buf) <= F)%nat ->
  exists v,
    check_tag {| t_len := zlen buf; t_bytes := buf |} n = Done v /\
    v = match walk_of buf with Err _ => -22 | Ok l => zlen (filter (fun e => e_num e =? n) l) end /\
    -22 <= v /\ 2 * v <= zlen buf /\
    observe (exec F (mem_at p buf) rho [] body_libwifi_check_tag) = Some (Some v, []).
Proof.
  intros Hwf H31 Hp Hend Hn Ep El Enum HF.
  change (2 ^ 31) with 2147483648 in *. change (2 ^ 62) with 4611686018427387904 in *.
  exists (check_value buf n). split; [apply check_tag_value; exact Hwf | ].
  split; [reflexivity | ].
  assert (Hrange : -22 <= check_value buf n /\ 2 * check_value buf n <= zlen buf).
  { unfold check_value. pose proof (zlen_nonneg buf) as Hlen. destruct (walk_of buf) as [l | c] eqn:E; [ | lia].
    pose proof (count_of_range n l) as Hcr. pose proof (walk_of_bound buf l Hwf E) as Hwb. lia. }
  split; [apply Hrange | ]. split; [apply Hrange | ].
  apply (wp_exec (check_fuel (zlen buf)) F _ _ _ _ (fun o => observe o = Some (Some (check_value buf n), [])) HF).
  apply (check_run buf p n (rho "ret:realloc") Hwf Hp Hend Hn rho H31 Ep El Enum eq_refl).
Qed.

(* libwifi_remove_tag as translated: never stuck; nothing happens (value 0, no call, header untouched) on the empty list and
   when no element carries the number; -22 when the iterator refuses the list; otherwise, with e the FIRST element carrying
   the number (offset o, body length L, both read from the list, the element inside it): one memmove of the bytes after the
   element onto it - exactly the bytes the model moves, the source ending at the end of the list -, then free (nothing left)
   or realloc to the new length; tags->length becomes the model's t_len, tags->parameters NULL / the allocator's answer /
   unchanged when the shrink failed; the value is 0 in all three cases. *)
Theorem code_remove_tag_refines_model buf p n rho F :
  wfbytes buf -> 0 < p -> p + zlen buf < 2 ^ 62 -> - 2 ^ 31 <= n < 2 ^ 31 ->
  rho "tags->parameters" = p -> rho "tags->length" = zlen buf -> rho "tag_number" = n ->
  (remove_fuel (zlen buf) <= F)%nat ->
  let s := {| t_len := zlen buf; t_bytes := buf |} in
  let run := exec F (mem_at p buf) rho [] body_libwifi_remove_tag in
  let ans := wrap u64 (rho "ret:realloc") in
  match walk_of buf with
  | Err _ =>
      remove_tag s n = Done (s, -22) /\
      exists rho', run = Returned (Some (-22)) rho' [] /\ rho' "tags->length" = zlen buf /\ rho' "tags->parameters" = p
  | Ok l =>
      match find_num n l with
      | None =>
          remove_tag s n = Done (s, 0) /\
          exists rho', run = Returned (Some 0) rho' [] /\ rho' "tags->length" = zlen buf /\ rho' "tags->parameters" = p
      | Some e =>
          let o := e_off e in let L := e_len e in
          (e_num e = n /\ exists l1 l2, l = l1 ++ e :: l2 /\ Forall (fun x => e_num x <> n) l1) /\
          (0 <= o /\ o + 2 + L <= zlen buf /\ n = znth buf o /\ L = znth buf (o + 1) /\ 0 <= L < 256) /\
          (exists s', remove_tag s n = Done (s', 0) /\ t_len s' = zlen buf - 2 - L /\
                      t_bytes s' = zfirstn o buf ++ slice (o + 2 + L) (zlen buf - o - 2 - L) buf) /\
          exists rho', run = Returned (Some 0) rho' (remove_trace p o L (zlen buf)) /\
                       rho' "tags->length" = zlen buf - 2 - L /\
                       rho' "tags->parameters" = new_params p ans (zlen buf - 2 - L)
      end
  end.
Proof.
  intros Hwf Hp Hend Hn Ep El Enum HF s run ans.
  change (2 ^ 31) with 2147483648 in *. change (2 ^ 62) with 4611686018427387904 in *.
  pose proof (remove_tag_value buf n Hwf) as Hmodel. cbv zeta in Hmodel. fold s in Hmodel.
  pose proof (wp_exec (remove_fuel (zlen buf)) F _ _ _ _ _ HF
                (remove_run buf p n (rho "ret:realloc") Hwf Hp Hend Hn rho Ep El Enum eq_refl)) as Hrun.
  fold run in Hrun. unfold remove_post, unchanged in Hrun.
  destruct (walk_of buf) as [l | c] eqn:Ew.
  - destruct (find_num n l) as [e | ] eqn:Ef.
    + cbv zeta. destruct (find_num_first n l e Ef) as (Hnum & l1 & l2 & Hl & Hall).
      assert (Hg : genuine buf e).
      { apply (walk_of_genuine buf l e Hwf Ew). rewrite Hl. apply in_or_app. right. left. reflexivity. }
      destruct Hg as (Hg0 & Hg1 & Hg2 & Hg3).
      split; [split; [exact Hnum | exists l1, l2; split; assumption] | ].
      assert (HL0 : 0 <= e_len e) by (rewrite Hg3; apply znth_nonneg; exact Hwf).
      assert (HL1 : e_len e < 256) by (rewrite Hg3; apply wfbytes_znth; [exact Hwf | lia]).
      split; [repeat split; try assumption; congruence | ].
      split; [ | exact Hrun].
      eexists. split; [exact Hmodel | ]. cbn [t_len t_bytes]. split; [lia | ].
      f_equal. f_equal; lia.
    + split; [exact Hmodel | exact Hrun].
  - split; [exact Hmodel | exact Hrun].
Qed.

(* the memmove of a removal stays inside the list: destination and source start inside it, the source range ends exactly
   at its end; nothing else of the list is read by the callees (free and realloc get the block's address only) *)
Corollary code_remove_tag_memmove_inside buf p n rho F v rho' tr :
  wfbytes buf -> 0 < p -> p + zlen buf < 2 ^ 62 -> - 2 ^ 31 <= n < 2 ^ 31 ->
  rho "tags->parameters" = p -> rho "tags->length" = zlen buf -> rho "tag_number" = n ->
  (remove_fuel (zlen buf) <= F)%nat ->
  exec F (mem_at p buf) rho [] body_libwifi_remove_tag = Returned v rho' tr ->
  forall args, In ("memmove", args) tr ->
  exists d src k, args = [d; src; k] /\ p <= d /\ d <= src /\ 0 <= k /\ src + k = p + zlen buf.
Proof.
  intros Hwf Hp Hend Hn Ep El Enum HF Hrun args Hin.
  pose proof (code_remove_tag_refines_model buf p n rho F Hwf Hp Hend Hn Ep El Enum HF) as H. cbv zeta in H.
  rewrite Hrun in H.
  destruct (walk_of buf) as [l | c].
  - destruct (find_num n l) as [e | ].
    + destruct H as (_ & (Ho & Hfit & _ & _ & HL) & _ & rho2 & Heq & _). injection Heq as _ _ ->.
      unfold remove_trace in Hin. destruct Hin as [Hev | Hin].
      * injection Hev as <-. do 3 eexists. split; [reflexivity | ]. lia.
      * destruct (zlen buf - 2 - e_len e =? 0); destruct Hin as [Hev | []]; discriminate Hev.
    + destruct H as (_ & rho2 & Heq & _). injection Heq as _ _ ->. contradiction.
  - destruct H as (_ & rho2 & Heq & _). injection Heq as _ _ ->. contradiction.
Qed.

(* ---------------------------------------------------------------- 9. the bodies run on concrete lists (the statements are not vacuous) *)
Definition rho_ex (p len n ans : Z) : env :=
  upd (upd (upd (upd (fun _ => 0) "tags->parameters" p) "tags->length" len) "tag_number" n) "ret:realloc" ans.
Definition ex_list : list byte := [0; 1; 65; 3; 1; 6; 0; 0].       (* SSID "A", DS channel 6, empty SSID *)
Definition run_remove (buf : list byte) (n ans : Z) : option (option Z * Z * Z * list event) :=
  match exec (remove_fuel (zlen buf)) (mem_at 1000 buf) (rho_ex 1000 (zlen buf) n ans) [] body_libwifi_remove_tag with
  | Returned v rho' tr => Some (v, rho' "tags->length", rho' "tags->parameters", tr)
  | _ => None
  end.

Example check_ex_two :
  observe (exec (check_fuel 8) (mem_at 1000 ex_list) (rho_ex 1000 8 0 0) [] body_libwifi_check_tag) = Some (Some 2, []).
Proof. vm_compute. reflexivity. Qed.
Example check_ex_refused :
  observe (exec (check_fuel 3) (mem_at 1000 [0; 5; 1]) (rho_ex 1000 3 0 0) [] body_libwifi_check_tag) = Some (Some (-22), []).
Proof. vm_compute. reflexivity. Qed.
Example remove_ex_middle :
  run_remove ex_list 3 5000 = Some (Some 0, 5, 5000, [("memmove", [1003; 1006; 2]); ("realloc", [1000; 5])]).
Proof. vm_compute. reflexivity. Qed.
Example remove_ex_shrink_failed :
  run_remove ex_list 0 0 = Some (Some 0, 5, 1000, [("memmove", [1000; 1003; 5]); ("realloc", [1000; 5])]).
Proof. vm_compute. reflexivity. Qed.
Example remove_ex_last :
  run_remove [3; 1; 6] 3 5000 = Some (Some 0, 0, 0, [("memmove", [1000; 1003; 0]); ("free", [1000])]).
Proof. vm_compute. reflexivity. Qed.
Example remove_ex_absent : run_remove ex_list 7 5000 = Some (Some 0, 8, 1000, []).
Proof. vm_compute. reflexivity. Qed.

Print Assumptions code_check_tag_refines_model.
Print Assumptions code_remove_tag_refines_model.
Print Assumptions code_remove_tag_memmove_inside.
