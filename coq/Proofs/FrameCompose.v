(* composition of the frame classifier's relative theorem with the radiotap decoder's totality/length theorems *)
From LW Require Import Base.Bytes Model.Radiotap Model.Frame Spec.FrameSpec Proofs.RadiotapProofs Proofs.FrameProofs.
Require Import Lia.
Local Open Scope Z_scope.

Lemma classify_radiotap : forall buf rd, wfbytes buf -> agrees rd buf ->
  exists rtres, parse_radiotap_info rd (zlen buf) = Done rtres /\
                get_wifi_frame rd (zlen buf) true = Done (spec_classify buf (Some rtres)).
Proof.
  intros buf rd Hwf Hag.
  destruct (rt_total buf rd Hwf Hag) as [o Ho]. exists o. split; [exact Ho|].
  apply classify_radiotap_rel; try assumption.
  intros info ->. pose proof (rt_length buf rd info Hwf Hag Ho) as [_ [Hb _]]. lia.
Qed.
