(* C11 - proofs: the byte-at-a-time reflected CRC-32 of Model/CRC.v computes the IEEE 802.3 division
   register of Spec/CRCSpec.v.  Route: the 32-bit model register is bits_to_Z of the reversed spec
   register; everything is done on bit lists, the Z operations are related to list operations through
   the decomposition 2*a + b2z x. *)
From Coq Require Import List ZArith Lia Bool.
From LW Require Import Base.Bytes Gen.Arith Model.CRC Spec.CRCSpec.
Import ListNotations.
Local Open Scope Z_scope.

Lemma fold_left_cons {A B} (f : A -> B -> A) b l a :
  fold_left f (b :: l) a = fold_left f l (f a b).
Proof. reflexivity. Qed.
Lemma message_bits_cons b msg : message_bits (b :: msg) = octet_bits b ++ message_bits msg.
Proof. reflexivity. Qed.
Lemma crc_loop_S rd k off crc :
  crc_loop rd (S k) off crc = let* b := rd off in crc_loop rd k (off + 1) (crc_byte crc b).
Proof. reflexivity. Qed.
Lemma firstn_S_cons {A} n (x : A) l : firstn (S n) (x :: l) = x :: firstn n l.
Proof. reflexivity. Qed.

(* ---------- Z bit arithmetic on 2*a + b2z x ---------- *)
Lemma lxor_cons a b x y :
  Z.lxor (2 * a + Z.b2z x) (2 * b + Z.b2z y) = 2 * Z.lxor a b + Z.b2z (xorb x y).
Proof.
  apply Z.bits_inj'. intros n Hn. rewrite Z.lxor_spec.
  destruct (Z.eq_dec n 0) as [->|Hne].
  - rewrite !Z.testbit_0_r. reflexivity.
  - replace n with (Z.succ (n - 1)) by lia.
    rewrite !Z.testbit_succ_r by lia. rewrite Z.lxor_spec. reflexivity.
Qed.
Lemma odd_cons a x : Z.odd (2 * a + Z.b2z x) = x.
Proof. rewrite <- Z.bit0_odd. apply Z.testbit_0_r. Qed.
Lemma shiftr1_cons a x : Z.shiftr (2 * a + Z.b2z x) 1 = a.
Proof.
  rewrite Z.shiftr_div_pow2 by lia. change (2 ^ 1) with 2.
  symmetry. apply Z.div_unique with (r := Z.b2z x); [destruct x; cbn [Z.b2z]; lia | reflexivity].
Qed.
Lemma add_as_lxor b x : 2 * b + Z.b2z x = Z.lxor (Z.b2z x) (2 * b).
Proof.
  pose proof (lxor_cons 0 b x false) as H.
  rewrite Z.lxor_0_l, xorb_false_r in H.
  replace (2 * 0 + Z.b2z x) with (Z.b2z x) in H by lia.
  replace (2 * b + Z.b2z false) with (2 * b) in H by (cbn [Z.b2z]; lia).
  symmetry. exact H.
Qed.

(* ---------- bits_to_Z ---------- *)
Lemma bits_cons x l : bits_to_Z (x :: l) = 2 * bits_to_Z l + Z.b2z x.
Proof. cbn [bits_to_Z]. destruct x; cbn [Z.b2z]; lia. Qed.
Lemma bits_nonneg l : 0 <= bits_to_Z l.
Proof. induction l as [|x l IH]; [cbn; lia|]. rewrite bits_cons. destruct x; cbn [Z.b2z]; lia. Qed.
Lemma bits_bound l : bits_to_Z l < 2 ^ Z.of_nat (length l).
Proof.
  induction l as [|x l IH]; [cbn; lia|].
  rewrite bits_cons. cbn [length]. rewrite Nat2Z.inj_succ, Z.pow_succ_r by lia.
  destruct x; cbn [Z.b2z]; lia.
Qed.
Lemma bits_xor : forall a b, length a = length b ->
  Z.lxor (bits_to_Z a) (bits_to_Z b) = bits_to_Z (xor_reg a b).
Proof.
  induction a as [|x a IH]; intros [|y b] H; cbn [length] in H; try discriminate; [reflexivity|].
  cbn [xor_reg]. rewrite !bits_cons, lxor_cons, IH by lia. reflexivity.
Qed.
Lemma bits_app_false l : bits_to_Z (l ++ [false]) = bits_to_Z l.
Proof.
  induction l as [|x l IH]; [reflexivity|].
  cbn [app]. rewrite !bits_cons, IH. reflexivity.
Qed.
Lemma bits_xor_low x L bit :
  Z.lxor (bits_to_Z (x :: L)) (Z.b2z bit) = bits_to_Z (xorb x bit :: L).
Proof.
  rewrite !bits_cons. replace (Z.b2z bit) with (2 * 0 + Z.b2z bit) at 1 by lia.
  rewrite lxor_cons, Z.lxor_0_r. reflexivity.
Qed.
Lemma bits_split : forall k l,
  bits_to_Z l = bits_to_Z (firstn k l) + 2 ^ Z.of_nat k * bits_to_Z (skipn k l).
Proof.
  induction k as [|k IH]; intros l.
  - cbn [firstn skipn bits_to_Z]. change (2 ^ Z.of_nat 0) with 1. lia.
  - destruct l as [|x l].
    + cbn [firstn skipn bits_to_Z]. lia.
    + cbn [firstn skipn]. rewrite !bits_cons, (IH l) at 1.
      rewrite Nat2Z.inj_succ, Z.pow_succ_r by lia. lia.
Qed.
Lemma bits_firstn_bound k l : 0 <= bits_to_Z (firstn k l) < 2 ^ Z.of_nat k.
Proof.
  split; [apply bits_nonneg|].
  eapply Z.lt_le_trans; [apply bits_bound|].
  apply Z.pow_le_mono_r; [lia|]. rewrite firstn_length. lia.
Qed.
Lemma bits_mod256 l : bits_to_Z l mod 256 = bits_to_Z (firstn 8 l).
Proof.
  pose proof (bits_split 8 l) as E. pose proof (bits_firstn_bound 8 l) as B.
  change (2 ^ Z.of_nat 8) with 256 in *.
  symmetry. apply Z.mod_unique with (q := bits_to_Z (skipn 8 l)); [left; exact B | lia].
Qed.
Lemma bits_div256 l : bits_to_Z l / 256 = bits_to_Z (skipn 8 l).
Proof.
  pose proof (bits_split 8 l) as E. pose proof (bits_firstn_bound 8 l) as B.
  change (2 ^ Z.of_nat 8) with 256 in *.
  symmetry. apply Z.div_unique with (r := bits_to_Z (firstn 8 l)); [left; exact B | lia].
Qed.
Lemma le_enc_bits : forall n l, le_enc n (bits_to_Z l) = map bits_to_Z (chunks8 n l).
Proof.
  induction n as [|n IH]; intros l; [reflexivity|].
  cbn [le_enc chunks8 map]. rewrite bits_mod256, bits_div256, IH. reflexivity.
Qed.

(* ---------- the model step, one message bit at a time ---------- *)
Definition stepZ (c : Z) (bit : bool) : Z := crc_shift (Z.lxor c (Z.b2z bit)).
Fixpoint bitsn (n : nat) (b : Z) : list bool :=
  match n with O => [] | S k => Z.odd b :: bitsn k (Z.div2 b) end.

Lemma crc_shift_high y b : crc_shift (Z.lxor y (2 * b)) = Z.lxor (crc_shift y) b.
Proof.
  unfold crc_shift. rewrite Z.shiftr_lxor.
  replace (Z.shiftr (2 * b) 1) with b
    by (symmetry; replace (2 * b) with (2 * b + Z.b2z false) by (cbn [Z.b2z]; lia); apply shiftr1_cons).
  replace (Z.odd (Z.lxor y (2 * b))) with (Z.odd y).
  2:{ rewrite <- !Z.bit0_odd, Z.lxor_spec, Z.testbit_even_0, xorb_false_r. reflexivity. }
  rewrite !Z.lxor_assoc. f_equal. apply Z.lxor_comm.
Qed.
Lemma crc_shift_split c b x :
  crc_shift (Z.lxor c (2 * b + Z.b2z x)) = Z.lxor (stepZ c x) b.
Proof. rewrite add_as_lxor, <- Z.lxor_assoc, crc_shift_high. reflexivity. Qed.

Lemma crc_shifts_gen : forall n c b,
  crc_shifts n (Z.lxor c b) =
  Z.lxor (fold_left stepZ (bitsn n b) c) (Z.shiftr b (Z.of_nat n)).
Proof.
  induction n as [|n IH]; intros c b.
  - cbn [crc_shifts bitsn fold_left]. change (Z.of_nat 0) with 0. rewrite Z.shiftr_0_r. reflexivity.
  - cbn [crc_shifts bitsn fold_left].
    replace (crc_shift (Z.lxor c b)) with (Z.lxor (stepZ c (Z.odd b)) (Z.div2 b))
      by (rewrite <- crc_shift_split, <- Z.div2_odd; reflexivity).
    rewrite IH. f_equal.
    rewrite Z.div2_spec, Z.shiftr_shiftr by lia. f_equal. lia.
Qed.

Lemma bitsn_spec : forall n b, map (fun i => Z.testbit b (Z.of_nat i)) (seq 0 n) = bitsn n b.
Proof.
  induction n as [|n IH]; intros b; [reflexivity|].
  cbn [seq map bitsn]. f_equal; try apply Z.bit0_odd.
  rewrite <- seq_shift, map_map, <- IH. apply map_ext. intros i.
  rewrite Nat2Z.inj_succ, Z.div2_spec, Z.shiftr_spec by lia. f_equal; lia.
Qed.
Lemma octet_bits_bitsn b : octet_bits b = bitsn 8 b.
Proof. apply bitsn_spec. Qed.

Lemma shiftr8_small b : 0 <= b < 256 -> Z.shiftr b 8 = 0.
Proof. intros H. rewrite Z.shiftr_div_pow2 by lia. apply Z.div_small. change (2 ^ 8) with 256. lia. Qed.

Lemma crc_byte_bits c b : 0 <= b < 256 ->
  crc_byte c b = fold_left stepZ (octet_bits b) c.
Proof.
  intros H. unfold crc_byte. change (Z.to_nat crc_nbits) with 8%nat.
  rewrite crc_shifts_gen. change (Z.of_nat 8) with 8. rewrite (shiftr8_small b H), Z.lxor_0_r.
  rewrite octet_bits_bitsn. reflexivity.
Qed.

(* ---------- register correspondence ---------- *)
Definition refl (r : reg) : Z := bits_to_Z (rev r).

Lemma crc_poly_refl : crc_poly = bits_to_Z (rev g_low).
Proof. vm_compute. reflexivity. Qed.
Lemma crc_init_refl : crc_init = refl reg_ones.
Proof. vm_compute. reflexivity. Qed.
Lemma g_low_length : length (rev g_low) = 32%nat.
Proof. reflexivity. Qed.

Lemma crc_shift_list x L : length L = 31%nat ->
  crc_shift (bits_to_Z (x :: L)) =
  bits_to_Z (if x then xor_reg (L ++ [false]) (rev g_low) else L ++ [false]).
Proof.
  intros HL. unfold crc_shift. rewrite bits_cons, odd_cons, shiftr1_cons.
  destruct x.
  - rewrite <- (bits_app_false L), crc_poly_refl. apply bits_xor.
    rewrite app_length, HL, g_low_length. reflexivity.
  - rewrite Z.lxor_0_r, bits_app_false. reflexivity.
Qed.

Lemma reg_step_rev x L bit : length L = 31%nat ->
  reg_step (rev (x :: L)) bit =
  rev (if xorb x bit then xor_reg (L ++ [false]) (rev g_low) else L ++ [false]).
Proof.
  intros HL.
  do 31 (destruct L as [|? L]; [exfalso; cbn [length] in HL; lia|]).
  destruct L as [|? L]; [|exfalso; cbn [length] in HL; lia].
  destruct x, bit; reflexivity.
Qed.

Lemma rev_cons_inv (r : reg) : length r = 32%nat ->
  exists x L, r = rev (x :: L) /\ length L = 31%nat.
Proof.
  intros H. destruct (rev r) as [|x L] eqn:E.
  - apply (f_equal (@length bool)) in E. rewrite rev_length, H in E. discriminate.
  - exists x, L. split.
    + rewrite <- E, rev_involutive. reflexivity.
    + apply (f_equal (@length bool)) in E. rewrite rev_length, H in E. cbn [length] in E. lia.
Qed.

Lemma step_corr r bit : length r = 32%nat -> stepZ (refl r) bit = refl (reg_step r bit).
Proof.
  intros H. destruct (rev_cons_inv r H) as (x & L & -> & HL).
  unfold refl. rewrite reg_step_rev, !rev_involutive by exact HL.
  unfold stepZ. rewrite bits_xor_low. apply crc_shift_list. exact HL.
Qed.
Lemma reg_step_length r bit : length r = 32%nat -> length (reg_step r bit) = 32%nat.
Proof.
  intros H. destruct (rev_cons_inv r H) as (x & L & -> & HL).
  rewrite reg_step_rev, rev_length by exact HL.
  do 31 (destruct L as [|? L]; [exfalso; cbn [length] in HL; lia|]).
  destruct L as [|? L]; [|exfalso; cbn [length] in HL; lia].
  destruct (xorb x bit); reflexivity.
Qed.
Lemma fold_step_length : forall bits r, length r = 32%nat ->
  length (fold_left reg_step bits r) = 32%nat.
Proof.
  induction bits as [|b bits IH]; intros r H; [exact H|].
  cbn [fold_left]. apply IH, reg_step_length, H.
Qed.
Lemma fold_step_corr : forall bits r, length r = 32%nat ->
  fold_left stepZ bits (refl r) = refl (fold_left reg_step bits r).
Proof.
  induction bits as [|b bits IH]; intros r H; [reflexivity|].
  cbn [fold_left]. rewrite step_corr by exact H. apply IH, reg_step_length, H.
Qed.

Lemma fold_bytes_corr : forall msg r, wfbytes msg -> length r = 32%nat ->
  fold_left crc_byte msg (refl r) = refl (fold_left reg_step (message_bits msg) r).
Proof.
  induction msg as [|b msg IH]; intros r Hwf H; [reflexivity|].
  inversion Hwf as [|? ? Hb Hr]; subst.
  rewrite message_bits_cons, fold_left_cons, fold_left_app.
  rewrite crc_byte_bits, fold_step_corr by assumption.
  apply IH; [exact Hr | apply fold_step_length, H].
Qed.

Lemma xor_ones : forall L, xor_reg L (repeat true (length L)) = map negb L.
Proof.
  induction L as [|x L IH]; [reflexivity|].
  cbn [length repeat xor_reg map]. rewrite IH, xorb_true_r. reflexivity.
Qed.
Lemma refl_negb r : length r = 32%nat -> Z.lxor (refl r) crc_final = refl (map negb r).
Proof.
  intros H. unfold refl. rewrite <- map_rev.
  assert (HL : length (rev r) = 32%nat) by (rewrite rev_length; exact H).
  rewrite <- xor_ones, HL.
  change crc_final with (bits_to_Z (repeat true 32)).
  apply bits_xor. rewrite HL. reflexivity.
Qed.

Lemma remainder_length msg : length (remainder msg) = 32%nat.
Proof. apply fold_step_length. reflexivity. Qed.
Lemma fcs_bits_length msg : length (fcs_bits msg) = 32%nat.
Proof. unfold fcs_bits. rewrite rev_length, map_length. apply remainder_length. Qed.

Lemma crc32_list_spec msg : wfbytes msg -> crc32_list msg = crc32_spec msg.
Proof.
  intros Hwf. unfold crc32_list, crc32_spec, fcs_bits.
  rewrite crc_init_refl, fold_bytes_corr by (auto; reflexivity).
  fold (remainder msg). apply refl_negb, remainder_length.
Qed.

(* ---------- reading through the oracle ---------- *)
Lemma crc_loop_agrees rd f : agrees rd f ->
  forall n off crc, 0 <= off -> off + Z.of_nat n <= zlen f ->
  crc_loop rd n off crc = Done (fold_left crc_byte (firstn n (skipn (Z.to_nat off) f)) crc).
Proof.
  intros Hag. induction n as [|n IH]; intros off crc Hoff Hlen; [reflexivity|].
  rewrite crc_loop_S, Hag by lia. cbn [bind].
  rewrite IH by lia.
  rewrite (skipn_cons_znth f off), firstn_S_cons, fold_left_cons by lia. reflexivity.
Qed.

Lemma crc32_prefix f rd n : wfbytes f -> agrees rd f -> 0 <= n <= zlen f ->
  crc32 rd n = Done (crc32_spec (firstn (Z.to_nat n) f)).
Proof.
  intros Hwf Hag Hn. unfold crc32, crc32_at.
  rewrite (crc_loop_agrees rd f Hag) by lia. cbn [bind].
  change (Z.to_nat 0) with 0%nat. cbn [skipn].
  f_equal. apply (crc32_list_spec (firstn (Z.to_nat n) f)), wfbytes_firstn, Hwf.
Qed.

(* ---------- the six lemmas ---------- *)
Lemma crc_exact : forall msg rd, wfbytes msg -> agrees rd msg ->
  crc32 rd (zlen msg) = Done (crc32_spec msg).
Proof.
  intros msg rd Hwf Hag.
  rewrite (crc32_prefix msg rd (zlen msg) Hwf Hag) by (pose proof (zlen_nonneg msg); lia).
  unfold zlen. rewrite Nat2Z.id, firstn_all. reflexivity.
Qed.

Lemma crc_range : forall msg, 0 <= crc32_spec msg < 2 ^ 32.
Proof.
  intros msg. unfold crc32_spec. split; [apply bits_nonneg|].
  pose proof (bits_bound (fcs_bits msg)) as H. rewrite fcs_bits_length in H. exact H.
Qed.

Lemma reflect_g_poly : reflect_g = crc_poly.
Proof. vm_compute. reflexivity. Qed.
Lemma tbl_entry_shifts : forall n c, tbl_entry n c = crc_shifts n c.
Proof.
  induction n as [|n IH]; intros c; [reflexivity|].
  cbn [tbl_entry crc_shifts]. rewrite IH. f_equal. unfold crc_shift. rewrite reflect_g_poly.
  destruct (Z.odd c); [reflexivity | rewrite Z.lxor_0_r; reflexivity].
Qed.
Lemma nth_map_seq {A} (f : nat -> A) d n i : (i < n)%nat -> nth i (map f (seq 0 n)) d = f i.
Proof.
  intros H. rewrite (nth_indep _ d (f 0%nat)) by (rewrite map_length, seq_length; exact H).
  rewrite map_nth, seq_nth by exact H. reflexivity.
Qed.
Lemma crc_shifts8_split d :
  crc_shifts 8 d = Z.lxor (crc_shifts 8 (Z.land d 255)) (Z.shiftr d 8).
Proof.
  assert (Hlow : 0 <= Z.land d 255 < 256).
  { change 255 with (Z.ones 8). rewrite Z.land_ones by lia. change (2 ^ 8) with 256.
    apply Z.mod_pos_bound. lia. }
  rewrite <- (Z.lxor_0_l d) at 1. rewrite <- (Z.lxor_0_l (Z.land d 255)).
  rewrite !crc_shifts_gen. change (Z.of_nat 8) with 8.
  rewrite (shiftr8_small _ Hlow), Z.lxor_0_r. f_equal. f_equal.
  rewrite <- !bitsn_spec. apply map_ext_in. intros i Hi. apply in_seq in Hi.
  rewrite Z.land_spec. change 255 with (Z.ones 8). rewrite Z.ones_spec_low by lia.
  rewrite andb_true_r. reflexivity.
Qed.
Lemma tbl_byte_crc_byte c b : 0 <= b < 256 -> tbl_byte c b = crc_byte c b.
Proof.
  intros Hb. unfold tbl_byte, crc_byte. change (Z.to_nat crc_nbits) with 8%nat.
  rewrite (crc_shifts8_split (Z.lxor c b)).
  rewrite Z.shiftr_lxor, (shiftr8_small b Hb), Z.lxor_0_r. f_equal.
  assert (Hlow : 0 <= Z.land (Z.lxor c b) 255 < 256).
  { change 255 with (Z.ones 8). rewrite Z.land_ones by lia. change (2 ^ 8) with 256.
    apply Z.mod_pos_bound. lia. }
  unfold crc_table. rewrite nth_map_seq by lia.
  rewrite Z2Nat.id by lia. apply tbl_entry_shifts.
Qed.
Lemma fold_tbl : forall msg c, wfbytes msg -> fold_left tbl_byte msg c = fold_left crc_byte msg c.
Proof.
  induction msg as [|b msg IH]; intros c Hwf; [reflexivity|].
  inversion Hwf as [|? ? Hb Hr]; subst.
  rewrite !fold_left_cons, tbl_byte_crc_byte by exact Hb. apply IH, Hr.
Qed.
Lemma tbl_equiv : forall msg, wfbytes msg -> crc32_tbl msg = crc32_spec msg.
Proof.
  intros msg Hwf. rewrite <- crc32_list_spec by exact Hwf.
  unfold crc32_tbl, crc32_list. rewrite fold_tbl by exact Hwf. reflexivity.
Qed.

Lemma fcs_octets_enc msg : le_enc 4 (crc32_spec msg) = fcs_octets msg.
Proof. apply le_enc_bits. Qed.

Lemma fcs_bytes : forall msg rd, wfbytes msg -> agrees rd msg ->
  exists v, calculate_fcs rd (zlen msg) = Done v /\ le_enc 4 v = fcs_octets msg.
Proof.
  intros msg rd Hwf Hag. exists (crc32_spec msg). split.
  - apply crc_exact; assumption.
  - apply fcs_octets_enc.
Qed.

Lemma le_enc_dec : forall l, wfbytes l -> le_enc (length l) (le_dec l) = l.
Proof.
  induction l as [|b l IH]; intros Hwf; [reflexivity|].
  inversion Hwf as [|? ? Hb Hr]; subst.
  cbn [length le_enc le_dec]. f_equal.
  - symmetry. apply Z.mod_unique with (q := le_dec l); [left; exact Hb | lia].
  - replace ((b + 256 * le_dec l) / 256) with (le_dec l); [apply IH, Hr|].
    apply Z.div_unique with (r := b); [left; exact Hb | lia].
Qed.

Lemma short_no : forall (rd : Z -> res byte) len, len < 4 -> frame_verify rd len = Done 0.
Proof.
  intros rd len H. unfold frame_verify.
  destruct (len <? 4) eqn:E; [reflexivity | lia].
Qed.

Lemma verify_iff : forall f rd, wfbytes f -> agrees rd f -> 4 <= zlen f ->
  exists r, frame_verify rd (zlen f) = Done r /\ (r = 1 \/ r = 0) /\
            (r = 1 <-> lastn 4 f = fcs_octets (firstn (length f - 4) f)).
Proof.
  intros f rd Hwf Hag Hlen.
  assert (Hn : Z.to_nat (zlen f - 4) = (length f - 4)%nat) by (unfold zlen; lia).
  assert (Hl4 : (4 <= length f)%nat) by (unfold zlen in Hlen; lia).
  set (pre := firstn (length f - 4) f).
  set (c := crc32_spec pre).
  set (o := le_dec (lastn 4 f)).
  assert (Hlast_len : length (lastn 4 f) = 4%nat) by (unfold lastn; rewrite skipn_length; lia).
  assert (Hlast_wf : wfbytes (lastn 4 f)) by (apply wfbytes_skipn, Hwf).
  assert (Hfv : frame_verify rd (zlen f) = Done (if c =? o then 1 else 0)).
  { unfold frame_verify. destruct (zlen f <? 4) eqn:E; [lia|].
    unfold rd_le. rewrite (rd_bytes_agrees rd f Hag) by (change (Z.of_nat 4) with 4; lia).
    cbn [bind]. rewrite (crc32_prefix f rd (zlen f - 4) Hwf Hag) by lia. cbn [bind].
    rewrite Hn. fold pre. fold c.
    replace (firstn 4 (skipn (length f - 4) f)) with (lastn 4 f); [reflexivity|].
    unfold lastn. symmetry. apply firstn_all2. rewrite skipn_length. lia. }
  exists (if c =? o then 1 else 0). split; [exact Hfv|]. split.
  - destruct (c =? o); auto.
  - rewrite <- (fcs_octets_enc pre). fold c.
    destruct (c =? o) eqn:E.
    + split; [intros _|reflexivity]. apply Z.eqb_eq in E. rewrite E. unfold o.
      rewrite <- Hlast_len at 2. symmetry. apply le_enc_dec, Hlast_wf.
    + split; [discriminate|]. intros HE. exfalso. apply Z.eqb_neq in E. apply E.
      unfold o. rewrite HE. symmetry. apply le_dec_enc.
      change (256 ^ Z.of_nat 4) with (2 ^ 32). apply crc_range.
Qed.
