(* part of the generator theorems (see Proofs/CodeGen.v), split so that the proofs build in parallel *)
From Coq Require Import ZArith String Ascii List Bool Lia.
From LW Require Import Base.CExpr Gen.Consts Gen.Layout Gen.Sites Proofs.SitesLemmas.
Import ListNotations.
Local Open Scope string_scope.
Local Open Scope Z_scope.
From LW Require Import Proofs.CodeGenDefs.

Section WithMemory.
Variable m : memory.

(* ================================================================ 4. the routines that add their tags through the setters
   now = what libwifi_get_epoch answers, s / c = what the SSID / channel setter answers, ch = the channel argument.
   The setters receive the object pointer itself; the translation marks nothing as written by them, so the frame statement
   lists "obj->tags" among the members it says nothing about (section 5 shows the setters write nothing else). *)

Theorem code_create_beacon rho now s c ch :
  0 <= now < 2 ^ 64 -> - 2 ^ 31 <= s < 2 ^ 31 -> - 2 ^ 31 <= c < 2 ^ 31 -> 0 <= ch < 256 ->
  let rho0 := upd (upd (upd (upd rho "ret:libwifi_get_epoch" now) "ret:libwifi_set_beacon_ssid" s)
                     "ret:libwifi_set_beacon_channel" c) "channel" ch in
  exists rho',
    exec 40 m rho0 [] body_libwifi_create_beacon =
      Returned (Some (if s =? 0 then c else s)) rho'
        (mgmt_events rho "beacon" sizeof_libwifi_beacon "receiver" "transmitter" "address3" ++
         [("libwifi_get_epoch", []); ("libwifi_set_beacon_ssid", [wrap u64 (rho "beacon"); wrap u64 (rho "ssid")])] ++
         (if s =? 0 then [("libwifi_set_beacon_channel", [wrap u64 (rho "beacon"); ch])] else [])) /\
    rho' "beacon->frame_header.frame_control.type" = c_TYPE_MANAGEMENT /\
    rho' "beacon->frame_header.frame_control.subtype" = c_SUBTYPE_BEACON /\
    rho' "beacon->fixed_parameters.timestamp" = now /\
    rho' "beacon->fixed_parameters.beacon_interval" = c_LIBWIFI_DEFAULT_BEACON_INTERVAL /\
    rho' "beacon->fixed_parameters.capabilities_information" = c_LIBWIFI_DEFAULT_AP_CAPABS /\
    reads_zero rho' "beacon->frame_header." mgmt_rest /\
    untouched "beacon->"
      ["beacon->frame_header.frame_control.type"; "beacon->frame_header.frame_control.subtype";
       "beacon->fixed_parameters.timestamp"; "beacon->fixed_parameters.beacon_interval";
       "beacon->fixed_parameters.capabilities_information"]
      ["beacon->frame_header.addr1"; "beacon->frame_header.addr2"; "beacon->frame_header.addr3"; "beacon->tags"] rho'.
Proof.
  intros Hnow Hs Hc Hch rho0; nums. unfold rho0, body_libwifi_create_beacon; clear rho0.
  gen_prefix. destruct (Z.eqb_spec s 0) as [E | N]; [subst s | ]; gen_finish.
Qed.

Theorem code_create_beacon_before_add rho now :
  0 <= now < 2 ^ 64 ->
  let rho0 := upd rho "ret:libwifi_get_epoch" now in
  exists rho1,
    exec 40 m rho0 [] (firstn 14 body_libwifi_create_beacon) =
      Fell rho1 (mgmt_events rho "beacon" sizeof_libwifi_beacon "receiver" "transmitter" "address3" ++ [("libwifi_get_epoch", [])]) /\
    (forall s, rho1 ("beacon->tags" ++ s) = 0) /\
    calls "libwifi_set_beacon_ssid" (skipn 14 body_libwifi_create_beacon).
Proof.
  intros Hnow rho0; nums. unfold rho0, body_libwifi_create_beacon; clear rho0. cbn [firstn skipn]. gen_before.
Qed.

Theorem code_create_probe_resp rho now s c ch :
  0 <= now < 2 ^ 64 -> - 2 ^ 31 <= s < 2 ^ 31 -> - 2 ^ 31 <= c < 2 ^ 31 -> 0 <= ch < 256 ->
  let rho0 := upd (upd (upd (upd rho "ret:libwifi_get_epoch" now) "ret:libwifi_set_probe_resp_ssid" s)
                     "ret:libwifi_set_probe_resp_channel" c) "channel" ch in
  exists rho',
    exec 40 m rho0 [] body_libwifi_create_probe_resp =
      Returned (Some (if s =? 0 then c else s)) rho'
        (mgmt_events rho "probe_resp" sizeof_libwifi_probe_resp "receiver" "transmitter" "address3" ++
         [("libwifi_get_epoch", []); ("libwifi_set_probe_resp_ssid", [wrap u64 (rho "probe_resp"); wrap u64 (rho "ssid")])] ++
         (if s =? 0 then [("libwifi_set_probe_resp_channel", [wrap u64 (rho "probe_resp"); ch])] else [])) /\
    rho' "probe_resp->frame_header.frame_control.type" = c_TYPE_MANAGEMENT /\
    rho' "probe_resp->frame_header.frame_control.subtype" = c_SUBTYPE_PROBE_RESP /\
    rho' "probe_resp->fixed_parameters.timestamp" = now /\
    rho' "probe_resp->fixed_parameters.probe_resp_interval" = c_LIBWIFI_DEFAULT_BEACON_INTERVAL /\
    rho' "probe_resp->fixed_parameters.capabilities_information" = c_LIBWIFI_DEFAULT_AP_CAPABS /\
    reads_zero rho' "probe_resp->frame_header." mgmt_rest /\
    untouched "probe_resp->"
      ["probe_resp->frame_header.frame_control.type"; "probe_resp->frame_header.frame_control.subtype";
       "probe_resp->fixed_parameters.timestamp"; "probe_resp->fixed_parameters.probe_resp_interval";
       "probe_resp->fixed_parameters.capabilities_information"]
      ["probe_resp->frame_header.addr1"; "probe_resp->frame_header.addr2"; "probe_resp->frame_header.addr3"; "probe_resp->tags"] rho'.
Proof.
  intros Hnow Hs Hc Hch rho0; nums. unfold rho0, body_libwifi_create_probe_resp; clear rho0.
  gen_prefix. destruct (Z.eqb_spec s 0) as [E | N]; [subst s | ]; gen_finish.
Qed.

Theorem code_create_probe_resp_before_add rho now :
  0 <= now < 2 ^ 64 ->
  let rho0 := upd rho "ret:libwifi_get_epoch" now in
  exists rho1,
    exec 40 m rho0 [] (firstn 14 body_libwifi_create_probe_resp) =
      Fell rho1 (mgmt_events rho "probe_resp" sizeof_libwifi_probe_resp "receiver" "transmitter" "address3" ++
                 [("libwifi_get_epoch", [])]) /\
    (forall s, rho1 ("probe_resp->tags" ++ s) = 0) /\
    calls "libwifi_set_probe_resp_ssid" (skipn 14 body_libwifi_create_probe_resp).
Proof.
  intros Hnow rho0; nums. unfold rho0, body_libwifi_create_probe_resp; clear rho0. cbn [firstn skipn]. gen_before.
Qed.

(* association response: status SUCCESS, association id left 0, the channel through its setter, then the supported rates:
   tag 1 with the sizeof(supported_rates) - 1 = 8 octets of the local array (its initialiser is not an integer expression:
   the translation shows the array's address only; the length is that of LIBWIFI_DEFAULT_SUPP_RATES).
   The answer of the rates add is returned whatever it is. *)
Theorem code_create_assoc_resp rho s r ch :
  - 2 ^ 31 <= s < 2 ^ 31 -> - 2 ^ 31 <= r < 2 ^ 31 -> 0 <= ch < 256 ->
  let rho0 := upd (upd (upd rho "ret:libwifi_set_assoc_resp_channel" s) "ret:libwifi_quick_add_tag" r) "channel" ch in
  exists rho',
    exec 40 m rho0 [] body_libwifi_create_assoc_resp =
      Returned (Some (if s =? 0 then r else s)) rho'
        (mgmt_events rho "assoc_resp" sizeof_libwifi_assoc_resp "receiver" "transmitter" "address3" ++
         [("libwifi_set_assoc_resp_channel", [wrap u64 (rho "assoc_resp"); ch])] ++
         (if s =? 0 then [ev_add_tag rho "&assoc_resp->tags" c_TAG_SUPP_RATES "&supported_rates"
                            (Z.of_nat (List.length c_LIBWIFI_DEFAULT_SUPP_RATES))] else [])) /\
    rho' "assoc_resp->frame_header.frame_control.type" = c_TYPE_MANAGEMENT /\
    rho' "assoc_resp->frame_header.frame_control.subtype" = c_SUBTYPE_ASSOC_RESP /\
    rho' "assoc_resp->fixed_parameters.capabilities_information" = c_LIBWIFI_DEFAULT_AP_CAPABS /\
    rho' "assoc_resp->fixed_parameters.status_code" = c_STATUS_SUCCESS /\
    rho' "assoc_resp->fixed_parameters.association_id" = 0 /\
    reads_zero rho' "assoc_resp->frame_header." mgmt_rest /\
    untouched "assoc_resp->"
      ["assoc_resp->frame_header.frame_control.type"; "assoc_resp->frame_header.frame_control.subtype";
       "assoc_resp->fixed_parameters.capabilities_information"; "assoc_resp->fixed_parameters.status_code"]
      ["assoc_resp->frame_header.addr1"; "assoc_resp->frame_header.addr2"; "assoc_resp->frame_header.addr3"; "assoc_resp->tags"] rho'.
Proof.
  intros Hs Hr Hch rho0; nums. unfold rho0, body_libwifi_create_assoc_resp; clear rho0.
  gen_prefix. destruct (Z.eqb_spec s 0) as [E | N]; [subst s | ]; gen_finish.
Qed.

Theorem code_create_assoc_resp_before_add rho :
  exists rho1,
    exec 40 m rho [] (firstn 12 body_libwifi_create_assoc_resp) =
      Fell rho1 (mgmt_events rho "assoc_resp" sizeof_libwifi_assoc_resp "receiver" "transmitter" "address3") /\
    (forall s, rho1 ("assoc_resp->tags" ++ s) = 0) /\
    calls "libwifi_set_assoc_resp_channel" (skipn 12 body_libwifi_create_assoc_resp).
Proof.
  unfold body_libwifi_create_assoc_resp. cbn [firstn skipn]. gen_before.
Qed.

(* reassociation response.  DEVIATION from the association response: no supported-rates element is added, the channel
   setter's answer is the routine's *)
Theorem code_create_reassoc_resp rho s ch :
  - 2 ^ 31 <= s < 2 ^ 31 -> 0 <= ch < 256 ->
  let rho0 := upd (upd rho "ret:libwifi_set_reassoc_resp_channel" s) "channel" ch in
  exists rho',
    exec 40 m rho0 [] body_libwifi_create_reassoc_resp =
      Returned (Some s) rho'
        (mgmt_events rho "reassoc_resp" sizeof_libwifi_reassoc_resp "receiver" "transmitter" "address3" ++
         [("libwifi_set_reassoc_resp_channel", [wrap u64 (rho "reassoc_resp"); ch])]) /\
    rho' "reassoc_resp->frame_header.frame_control.type" = c_TYPE_MANAGEMENT /\
    rho' "reassoc_resp->frame_header.frame_control.subtype" = c_SUBTYPE_REASSOC_RESP /\
    rho' "reassoc_resp->fixed_parameters.capabilities_information" = c_LIBWIFI_DEFAULT_AP_CAPABS /\
    rho' "reassoc_resp->fixed_parameters.status_code" = c_STATUS_SUCCESS /\
    rho' "reassoc_resp->fixed_parameters.association_id" = 0 /\
    reads_zero rho' "reassoc_resp->frame_header." mgmt_rest /\
    untouched "reassoc_resp->"
      ["reassoc_resp->frame_header.frame_control.type"; "reassoc_resp->frame_header.frame_control.subtype";
       "reassoc_resp->fixed_parameters.capabilities_information"; "reassoc_resp->fixed_parameters.status_code"]
      ["reassoc_resp->frame_header.addr1"; "reassoc_resp->frame_header.addr2"; "reassoc_resp->frame_header.addr3";
       "reassoc_resp->tags"] rho'.
Proof.
  intros Hs Hch rho0; nums. unfold rho0, body_libwifi_create_reassoc_resp; clear rho0. gen_finish.
Qed.

Theorem code_create_reassoc_resp_before_add rho :
  exists rho1,
    exec 40 m rho [] (firstn 12 body_libwifi_create_reassoc_resp) =
      Fell rho1 (mgmt_events rho "reassoc_resp" sizeof_libwifi_reassoc_resp "receiver" "transmitter" "address3") /\
    (forall s, rho1 ("reassoc_resp->tags" ++ s) = 0) /\
    calls "libwifi_set_reassoc_resp_channel" (skipn 12 body_libwifi_create_reassoc_resp).
Proof.
  unfold body_libwifi_create_reassoc_resp. cbn [firstn skipn]. gen_before.
Qed.

End WithMemory.

Print Assumptions code_create_beacon.
Print Assumptions code_create_beacon_before_add.
Print Assumptions code_create_probe_resp.
Print Assumptions code_create_probe_resp_before_add.
Print Assumptions code_create_assoc_resp.
Print Assumptions code_create_assoc_resp_before_add.
Print Assumptions code_create_reassoc_resp.
Print Assumptions code_create_reassoc_resp_before_add.
