(* Proofs for C01 (memory safety / totality on arbitrary bytes) and C13 (results are a function of the
   input bytes alone).  Corollaries of the refinement theorems; the only new ingredient is that the
   radiotap decoder is monotone in its read oracle: a run that completes with the faulting oracle
   rd_strict buf completes with the same result under every oracle that agrees with buf. *)
From Coq Require Import List ZArith Lia Bool ZifyBool.
From LW Require Import Base.Bytes Gen.Consts Gen.Rtap Gen.Layout
  Model.TagIter Spec.TagSpec Model.Radiotap Spec.RadiotapSpec Model.Frame Spec.FrameSpec Model.CRC Spec.CRCSpec
  Model.Eapol Spec.EapolSpec Model.Security Spec.SecuritySpec Model.Mgmt Spec.MgmtSpec
  Proofs.TagIterProofs Proofs.RadiotapProofs Proofs.FrameProofs Proofs.FrameCompose Proofs.CRCProofs
  Proofs.EapolProofs Proofs.MgmtProofs.
Import ListNotations.
Local Open Scope Z_scope.

Definition negative_or_ok {A} (o : outcome A) : Prop := match o with Ok _ => True | Err c => c < 0 end.

(* ---------------------------------------------------------------- monotonicity in the oracle *)
Definition le_res {A} (x y : res A) : Prop := forall r, x = Done r -> y = Done r.

Lemma le_res_refl {A} (x : res A) : le_res x x.
Proof. intros r H; exact H. Qed.
Lemma le_res_bind {A B} (m1 m2 : res A) (k1 k2 : A -> res B) :
  le_res m1 m2 -> (forall a, le_res (k1 a) (k2 a)) -> le_res (bind m1 k1) (bind m2 k2).
Proof.
  intros Hm Hk r H. destruct m1 as [a| |]; cbn [bind] in H; try discriminate.
  rewrite (Hm a eq_refl). cbn [bind]. apply Hk. exact H.
Qed.
Lemma le_res_fault {A} k z (y : res A) : le_res (Fault k z) y.
Proof. intros r H; discriminate. Qed.
Lemma le_res_oof {A} (y : res A) : le_res OutOfFuel y.
Proof. intros r H; discriminate. Qed.

Ltac mono_step :=
  match goal with
  | |- le_res ?x ?x => apply le_res_refl
  | |- le_res (Fault _ _) _ => apply le_res_fault
  | |- le_res OutOfFuel _ => apply le_res_oof
  | |- le_res (if ?b then _ else _) (if ?b then _ else _) => destruct b
  | |- le_res (match ?x with pair _ _ => _ end) (match ?x with pair _ _ => _ end) => destruct x
  | |- le_res (match ?x with Ok _ => _ | Err _ => _ end) (match ?x with Ok _ => _ | Err _ => _ end) => destruct x
  | |- le_res (match ?x with Some _ => _ | None => _ end) (match ?x with Some _ => _ | None => _ end) => destruct x
  | |- le_res (bind _ _) (bind _ _) => apply le_res_bind; [|intro]
  end.

Section Mono.
  Variables rd1 rd2 : Z -> res byte.
  Hypothesis Hle : forall i, le_res (rd1 i) (rd2 i).

  Lemma rd_bytes_mono : forall n off, le_res (rd_bytes rd1 n off) (rd_bytes rd2 n off).
  Proof.
    induction n as [|n IH]; intros off; [apply le_res_refl|].
    cbn [rd_bytes]. apply le_res_bind; [apply Hle|intro b].
    apply le_res_bind; [apply IH|intro r]. apply le_res_refl.
  Qed.
  Lemma rd_le_mono n off : le_res (rd_le rd1 n off) (rd_le rd2 n off).
  Proof. unfold rd_le. apply le_res_bind; [apply rd_bytes_mono|intro; apply le_res_refl]. Qed.

  Ltac mono := repeat first [ apply Hle | apply rd_le_mono | apply rd_bytes_mono | mono_step ].

  Lemma ext_chain_mono : forall fuel arg max, le_res (ext_chain rd1 fuel arg max) (ext_chain rd2 fuel arg max).
  Proof.
    induction fuel as [|f IH]; intros arg max; [apply le_res_refl|].
    cbn [ext_chain]. mono. apply IH.
  Qed.

  Lemma rt_init_mono ml : le_res (rt_init rd1 ml) (rt_init rd2 ml).
  Proof. unfold rt_init. cbv zeta. mono. apply ext_chain_mono. Qed.

  Lemma rt_pass_mono it : le_res (rt_pass rd1 it) (rt_pass rd2 it).
  Proof. unfold rt_pass. cbv zeta. mono. Qed.

  Lemma rt_next_mono : forall fuel it, le_res (rt_next rd1 fuel it) (rt_next rd2 fuel it).
  Proof.
    induction fuel as [|f IH]; intros it; [apply le_res_refl|].
    rewrite !rt_next_S. pose proof (rt_pass_mono it) as P.
    destruct (rt_pass rd1 it) as [x| |]; [|apply le_res_fault|apply le_res_oof].
    rewrite (P x eq_refl). destruct x as [it'|r]; [apply IH|apply le_res_refl].
  Qed.

  Lemma rt_field_mono info sk idx a : le_res (rt_field rd1 info sk idx a) (rt_field rd2 info sk idx a).
  Proof. unfold rt_field. cbv beta zeta. mono. Qed.

  Lemma rt_loop_mono : forall fuel it info sk, le_res (rt_loop rd1 fuel it info sk) (rt_loop rd2 fuel it info sk).
  Proof.
    induction fuel as [|f IH]; intros it info sk; [apply le_res_refl|].
    cbn [rt_loop]. apply le_res_bind; [apply rt_next_mono|intros [it' st]].
    destruct st as [idx a|c]; [|apply le_res_refl].
    apply le_res_bind; [apply rt_field_mono|intros [info' sk']]. apply IH.
  Qed.

  Lemma parse_radiotap_info_mono len : le_res (parse_radiotap_info rd1 len) (parse_radiotap_info rd2 len).
  Proof.
    unfold parse_radiotap_info. cbv zeta.
    destruct (len <? sizeof_ieee80211_radiotap_header); [apply le_res_refl|].
    apply le_res_bind; [apply rd_le_mono|intro itlen].
    destruct (_ || _); [apply le_res_refl|].
    apply le_res_bind; [apply rt_init_mono|intros [it|c]]; [|apply le_res_refl].
    apply le_res_bind; [apply rt_loop_mono|intro; apply le_res_refl].
  Qed.
End Mono.

Lemma strict_le buf rd : agrees rd buf -> forall i, le_res (rd_strict buf i) (rd i).
Proof.
  intros Hag i r. unfold rd_strict.
  destruct ((0 <=? i) && (i <? zlen buf)) eqn:E; [|discriminate].
  intros H. rewrite Hag by lia. exact H.
Qed.

(* the radiotap decoder's result is determined by the buffer *)
Lemma rt_canonical buf rd : wfbytes buf -> agrees rd buf ->
  exists o, parse_radiotap_info (rd_strict buf) (zlen buf) = Done o /\ parse_radiotap_info rd (zlen buf) = Done o.
Proof.
  intros Hwf Hag. destruct (rt_total buf (rd_strict buf) Hwf (agrees_strict buf)) as [o Ho].
  exists o. split; [exact Ho|].
  apply (parse_radiotap_info_mono (rd_strict buf) rd (strict_le buf rd Hag)). exact Ho.
Qed.

Lemma rt_deterministic buf rd1 rd2 : wfbytes buf -> agrees rd1 buf -> agrees rd2 buf ->
  parse_radiotap_info rd1 (zlen buf) = parse_radiotap_info rd2 (zlen buf).
Proof.
  intros Hwf H1 H2.
  destruct (rt_canonical buf rd1 Hwf H1) as (o1 & A1 & B1).
  destruct (rt_canonical buf rd2 Hwf H2) as (o2 & A2 & B2).
  rewrite B1, B2. rewrite A1 in A2. exact A2.
Qed.

(* ---------------------------------------------------------------- error codes are negative *)
Lemma ext_chain_err rd : forall fuel arg max c, ext_chain rd fuel arg max = Done (Err c) -> c = - Radiotap.EINVAL.
Proof.
  induction fuel as [|f IH]; intros arg max c H; [discriminate|].
  cbn [ext_chain] in H. destruct (rd_le rd 4 arg) as [w| |]; cbn [bind] in H; try discriminate.
  destruct (Z.land w bit31 =? 0); [discriminate|].
  destruct (max <? arg + 4 + 4); [injection H as <-; reflexivity|].
  eapply IH; eassumption.
Qed.

Lemma rt_init_err rd ml c : rt_init rd ml = Done (Err c) -> c = - Radiotap.EINVAL.
Proof.
  unfold rt_init. cbv zeta. intros H.
  destruct (ml <? sizeof_ieee80211_radiotap_header); [injection H as <-; reflexivity|].
  destruct (rd 0) as [ver| |]; cbn [bind] in H; try discriminate.
  destruct (negb (ver =? 0)); [injection H as <-; reflexivity|].
  destruct (rd_le rd 2 2) as [itlen| |]; cbn [bind] in H; try discriminate.
  destruct (ml <? itlen); [injection H as <-; reflexivity|].
  destruct (rd_le rd 4 4) as [present| |]; cbn [bind] in H; try discriminate.
  destruct (Z.land present bit31 =? 0); [discriminate|].
  destruct (itlen <? _); [injection H as <-; reflexivity|].
  destruct (ext_chain rd _ _ _) as [[a|c']| |] eqn:E; cbn [bind] in H; try discriminate.
  injection H as <-. eapply ext_chain_err; eassumption.
Qed.

Lemma rt_err rd len c : parse_radiotap_info rd len = Done (Err c) -> c = - Radiotap.EINVAL.
Proof.
  unfold parse_radiotap_info. cbv zeta. intros H.
  destruct (len <? sizeof_ieee80211_radiotap_header); [injection H as <-; reflexivity|].
  destruct (rd_le rd 2 2) as [itlen| |]; cbn [bind] in H; try discriminate.
  destruct (_ || _); [injection H as <-; reflexivity|].
  destruct (rt_init rd len) as [[it|c']| |] eqn:E; cbn [bind] in H; try discriminate.
  - destruct (rt_loop rd _ it _ false) as [info| |]; cbn [bind] in H; discriminate.
  - injection H as <-. eapply rt_init_err; eassumption.
Qed.

Lemma rt_negative rd len o : parse_radiotap_info rd len = Done o -> negative_or_ok o.
Proof.
  intros H. destruct o as [i|c]; [exact I|]. apply rt_err in H. subst c. reflexivity.
Qed.

Lemma spec_iterate_negative buf : negative_or_ok (spec_iterate buf).
Proof. unfold spec_iterate. destruct (elements buf); [reflexivity|exact I]. Qed.

Lemma spec_classify_negative buf rtres :
  (forall o, rtres = Some o -> negative_or_ok o) -> negative_or_ok (spec_classify buf rtres).
Proof.
  intros Hr. rewrite spec_classify_eq.
  destruct (spec_pre buf rtres) as [[[rest fl0] rt]|c] eqn:Hpre.
  - unfold spec_k. destruct rest as [|fc0 [|fc1 tl]]; try reflexivity.
    unfold spec_k2. destruct (s_hdr_len _ _ _) as [hl|]; [|reflexivity].
    destruct (_ <? hl); [reflexivity|exact I].
  - unfold spec_pre in Hpre. destruct rtres as [[info|c']|]; try discriminate.
    + destruct (Z.land _ _ =? 0); [discriminate|].
      destruct (_ <? 4); [|discriminate]. injection Hpre as <-. reflexivity.
    + injection Hpre as <-. exact (Hr (Err c') eq_refl).
Qed.

(* ---------------------------------------------------------------- C01 *)
Lemma iteration_safe : forall buf, wfbytes buf ->
  exists o, iterate (rd_strict buf) (zlen buf) = Done o /\ negative_or_ok o.
Proof.
  intros buf Hwf. exists (spec_iterate buf). split.
  - apply iterate_exact; [exact Hwf|apply agrees_strict].
  - apply spec_iterate_negative.
Qed.

Lemma radiotap_safe : forall buf, wfbytes buf ->
  exists o, parse_radiotap_info (rd_strict buf) (zlen buf) = Done o /\ negative_or_ok o.
Proof.
  intros buf Hwf. destruct (rt_total buf (rd_strict buf) Hwf (agrees_strict buf)) as [o Ho].
  exists o. split; [exact Ho|]. eapply rt_negative; eassumption.
Qed.

Lemma classify_spec buf rd rt : wfbytes buf -> agrees rd buf ->
  exists rtres, get_wifi_frame rd (zlen buf) rt = Done (spec_classify buf rtres) /\
    (forall o, rtres = Some o -> parse_radiotap_info rd (zlen buf) = Done o).
Proof.
  intros Hwf Hag. destruct rt.
  - destruct (classify_radiotap buf rd Hwf Hag) as (rtres & Hp & Hg).
    exists (Some rtres). split; [exact Hg|]. intros o [= <-]. exact Hp.
  - exists None. split; [apply classify_plain; assumption|]. intros o; discriminate.
Qed.

Lemma classify_safe : forall buf rt, wfbytes buf ->
  exists o, get_wifi_frame (rd_strict buf) (zlen buf) rt = Done o /\ negative_or_ok o.
Proof.
  intros buf rt Hwf.
  destruct (classify_spec buf (rd_strict buf) rt Hwf (agrees_strict buf)) as (rtres & Hg & Hp).
  exists (spec_classify buf rtres). split; [exact Hg|].
  apply spec_classify_negative. intros o Ho. eapply rt_negative. apply Hp. exact Ho.
Qed.

Lemma fcs_safe : forall buf, wfbytes buf ->
  (exists v, crc32 (rd_strict buf) (zlen buf) = Done v) /\
  (exists r, frame_verify (rd_strict buf) (zlen buf) = Done r /\ (r = 0 \/ r = 1)).
Proof.
  intros buf Hwf. split.
  - exists (crc32_spec buf). apply crc_exact; [exact Hwf|apply agrees_strict].
  - destruct (Z_lt_le_dec (zlen buf) 4) as [Hs|Hl].
    + exists 0. split; [apply short_no; exact Hs|left; reflexivity].
    + destruct (verify_iff buf (rd_strict buf) Hwf (agrees_strict buf) Hl) as (r & Hr & Hv & _).
      exists r. split; [exact Hr|]. destruct Hv; [right|left]; assumption.
Qed.

(* every parser on a classified frame *)
Lemma s_parse_bss_negative f st fixed cap all : negative_or_ok (s_parse_bss f st fixed cap all).
Proof.
  unfold s_parse_bss. destruct (negb (s_is f st)); [reflexivity|].
  destruct (_ <? _); [reflexivity|]. cbv zeta.
  destruct (spec_iterate _); [|reflexivity].
  destruct (s_security _ _ _); [exact I|reflexivity].
Qed.
Lemma s_parse_sta_negative f st fixed : negative_or_ok (s_parse_sta f st fixed).
Proof.
  unfold s_parse_sta. destruct (negb (s_is f st)); [reflexivity|].
  destruct (_ && _); [reflexivity|]. cbv zeta.
  destruct (spec_iterate _); [exact I|reflexivity].
Qed.
Lemma s_parse_reason_negative f st : negative_or_ok (s_parse_reason f st).
Proof.
  unfold s_parse_reason. destruct (negb (s_is f st)); [reflexivity|].
  destruct (_ <? _); [reflexivity|exact I].
Qed.
Lemma parse_data_negative f : negative_or_ok (parse_data f).
Proof. unfold parse_data. destruct (negb _); [reflexivity|exact I]. Qed.
Lemma s_wpa_data_negative f : negative_or_ok (s_wpa_data f).
Proof. unfold s_wpa_data. destruct (negb _); [reflexivity|exact I]. Qed.

Lemma frame_ok_parsers f : frame_ok f ->
  (exists o, parse_beacon f = Done o /\ negative_or_ok o) /\ (exists o, parse_probe_resp f = Done o /\ negative_or_ok o) /\
  (exists o, parse_assoc_resp f = Done o /\ negative_or_ok o) /\ (exists o, parse_reassoc_resp f = Done o /\ negative_or_ok o) /\
  (exists o, parse_probe_req f = Done o /\ negative_or_ok o) /\ (exists o, parse_assoc_req f = Done o /\ negative_or_ok o) /\
  (exists o, parse_reassoc_req f = Done o /\ negative_or_ok o) /\
  (exists o, parse_deauth f = Done o /\ negative_or_ok o) /\ (exists o, parse_disassoc f = Done o /\ negative_or_ok o) /\
  negative_or_ok (parse_data f) /\
  (exists o, check_wpa_handshake f = Done o /\ negative_or_ok o) /\ (exists m, check_wpa_message f = Done m) /\
  (exists n, get_wpa_key_data_length f = Done n) /\ (exists o, get_wpa_data f = Done o /\ negative_or_ok o).
Proof.
  intros Hok.
  destruct (bss_parsers_exact f Hok) as (B1 & B2 & B3 & B4).
  destruct (sta_parsers_exact f Hok) as (S1 & S2 & S3).
  destruct (reason_parsers_exact f Hok) as (R1 & R2).
  repeat match goal with |- _ /\ _ => split end.
  - eexists; split; [exact B1|apply s_parse_bss_negative].
  - eexists; split; [exact B2|apply s_parse_bss_negative].
  - eexists; split; [exact B3|apply s_parse_bss_negative].
  - eexists; split; [exact B4|apply s_parse_bss_negative].
  - eexists; split; [exact S1|apply s_parse_sta_negative].
  - eexists; split; [exact S2|apply s_parse_sta_negative].
  - eexists; split; [exact S3|apply s_parse_sta_negative].
  - eexists; split; [exact R1|apply s_parse_reason_negative].
  - eexists; split; [exact R2|apply s_parse_reason_negative].
  - apply parse_data_negative.
  - eexists; split; [apply recognise_exact; exact Hok|]. destruct (s_is_handshake f); [exact I|reflexivity].
  - eexists; apply message_exact; exact Hok.
  - eexists; apply key_data_length_exact; exact Hok.
  - eexists; split; [apply extract_exact; exact Hok|apply s_wpa_data_negative].
Qed.

Lemma classified_frame_ok buf rt f : wfbytes buf ->
  get_wifi_frame (rd_strict buf) (zlen buf) rt = Done (Ok f) -> frame_ok f.
Proof.
  intros Hwf Hg.
  destruct (classify_spec buf (rd_strict buf) rt Hwf (agrees_strict buf)) as (rtres & Hs & Hp).
  rewrite Hs in Hg. injection Hg as Hg.
  apply (classified_ok buf rtres f Hwf Hg).
  intros info ->.
  pose proof (rt_length buf (rd_strict buf) info Hwf (agrees_strict buf) (Hp _ eq_refl)) as (_ & Hb & _). lia.
Qed.

Lemma pipeline_safe : forall buf rt f, wfbytes buf ->
  get_wifi_frame (rd_strict buf) (zlen buf) rt = Done (Ok f) ->
  (exists o, parse_beacon f = Done o /\ negative_or_ok o) /\ (exists o, parse_probe_resp f = Done o /\ negative_or_ok o) /\
  (exists o, parse_assoc_resp f = Done o /\ negative_or_ok o) /\ (exists o, parse_reassoc_resp f = Done o /\ negative_or_ok o) /\
  (exists o, parse_probe_req f = Done o /\ negative_or_ok o) /\ (exists o, parse_assoc_req f = Done o /\ negative_or_ok o) /\
  (exists o, parse_reassoc_req f = Done o /\ negative_or_ok o) /\
  (exists o, parse_deauth f = Done o /\ negative_or_ok o) /\ (exists o, parse_disassoc f = Done o /\ negative_or_ok o) /\
  negative_or_ok (parse_data f) /\
  (exists o, check_wpa_handshake f = Done o /\ negative_or_ok o) /\ (exists m, check_wpa_message f = Done m) /\
  (exists n, get_wpa_key_data_length f = Done n) /\ (exists o, get_wpa_data f = Done o /\ negative_or_ok o).
Proof.
  intros buf rt f Hwf Hg. apply frame_ok_parsers. eapply classified_frame_ok; eassumption.
Qed.

(* ---------------------------------------------------------------- C01: the element decoders called directly *)
(* libwifi_get_rsn_info / libwifi_get_wpa_info / libwifi_bss_handle_msft_tag are public: a caller may hand them any
   byte range.  Since finding F45 each of them checks the length of the range before its first read, so these hold for
   EVERY length (0..5 / 0..9 / 0..3 included); rd is arbitrary (it may fault) outside buf. *)
Lemma slice_whole {A} (l : list A) : slice 0 (zlen l) l = l.
Proof. unfold slice, zfirstn, zskipn, zlen. cbn [Z.to_nat skipn]. rewrite Nat2Z.id. apply firstn_all. Qed.

Lemma rsn_decoder_whole : forall buf rd, wfbytes buf -> agrees rd buf ->
  get_rsn_info rd 0 (zlen buf) =
    Done (match s_rsn_decode buf with Some i => Ok i | None => Err (- Security.EINVAL) end).
Proof.
  intros buf rd Hwf Hag.
  pose proof (rsn_decode_exact buf rd 0 (zlen buf) Hwf Hag ltac:(lia) (zlen_nonneg buf) ltac:(lia)) as H.
  rewrite slice_whole in H. exact H.
Qed.

(* called directly, the range is what follows the vendor header *)
Lemma wpa_decoder_whole : forall buf rd, wfbytes buf -> agrees rd buf ->
  get_wpa_info rd 0 (zlen buf) =
    Done (match s_wpa_decode_h 0 buf with Some i => Ok i | None => Err (- Security.EINVAL) end).
Proof.
  intros buf rd Hwf Hag.
  pose proof (wpa_decode_exact_h 0 buf rd 0 (zlen buf) Hwf Hag ltac:(lia) ltac:(lia) (zlen_nonneg buf) ltac:(lia)) as H.
  rewrite slice_whole in H. exact H.
Qed.

Lemma decoders_direct_safe : forall buf rd, wfbytes buf -> agrees rd buf ->
  (exists o, get_rsn_info rd 0 (zlen buf) = Done o /\ negative_or_ok o) /\
  (exists o, get_wpa_info rd 0 (zlen buf) = Done o /\ negative_or_ok o) /\
  (forall b, exists o, handle_msft rd b 0 (zlen buf) = Done o /\ negative_or_ok o).
Proof.
  intros buf rd Hwf Hag. pose proof (zlen_nonneg buf) as Hn. split; [|split].
  - eexists. split; [apply rsn_decoder_whole; assumption|].
    destruct (s_rsn_decode buf); [exact I|reflexivity].
  - eexists. split; [apply wpa_decoder_whole; assumption|].
    destruct (s_wpa_decode_h 0 buf); [exact I|reflexivity].
  - intros b. unfold handle_msft.
    change sizeof_libwifi_tag_vendor_header with 4. change suite_len with 4.
    destruct (zlen buf <? 4) eqn:C4; [eexists; split; reflexivity|].
    rewrite Hag by lia. cbn [bind].
    destruct (znth buf (0 + 3) =? c_MICROSOFT_OUI_TYPE_WPA).
    + destruct (zlen buf <? 4 + 2 + 4) eqn:C10; [eexists; split; reflexivity|].
      pose proof (wpa_decode_exact buf rd 0 (zlen buf) Hwf Hag ltac:(lia) Hn ltac:(lia)) as H.
      change (0 + 4) with 4 in *. change (0 + zlen buf) with (zlen buf) in *. rewrite H. cbn [bind].
      destruct (s_wpa_decode _); eexists; (split; [reflexivity|]); [exact I|reflexivity].
    + destruct (_ =? c_MICROSOFT_OUI_TYPE_WPS); eexists; (split; [reflexivity|exact I]).
Qed.

(* ---------------------------------------------------------------- C13 *)
Lemma iteration_env_indep : forall buf env1 env2, wfbytes buf ->
  iterate (rd_env buf env1) (zlen buf) = iterate (rd_env buf env2) (zlen buf).
Proof.
  intros buf env1 env2 Hwf.
  rewrite !(iterate_exact buf _ Hwf (agrees_env buf _)). reflexivity.
Qed.

Lemma radiotap_env_indep : forall buf env1 env2, wfbytes buf ->
  parse_radiotap_info (rd_env buf env1) (zlen buf) = parse_radiotap_info (rd_env buf env2) (zlen buf).
Proof.
  intros buf env1 env2 Hwf. apply rt_deterministic; [exact Hwf|apply agrees_env|apply agrees_env].
Qed.

Lemma classify_deterministic buf rd1 rd2 rt : wfbytes buf -> agrees rd1 buf -> agrees rd2 buf ->
  get_wifi_frame rd1 (zlen buf) rt = get_wifi_frame rd2 (zlen buf) rt.
Proof.
  intros Hwf H1 H2. destruct rt.
  - destruct (rt_total buf rd1 Hwf H1) as [o Ho].
    assert (Ho2 : parse_radiotap_info rd2 (zlen buf) = Done o).
    { rewrite <- Ho. symmetry. apply rt_deterministic; assumption. }
    assert (Hb : forall info, o = Ok info -> 0 <= i_length info <= zlen buf).
    { intros info ->. pose proof (rt_length buf rd1 info Hwf H1 Ho) as (_ & Hb & _). lia. }
    rewrite (classify_radiotap_rel buf rd1 o Hwf H1 Ho Hb), (classify_radiotap_rel buf rd2 o Hwf H2 Ho2 Hb).
    reflexivity.
  - rewrite (classify_plain buf rd1 Hwf H1), (classify_plain buf rd2 Hwf H2). reflexivity.
Qed.

Lemma classify_env_indep : forall buf rt env1 env2, wfbytes buf ->
  get_wifi_frame (rd_env buf env1) (zlen buf) rt = get_wifi_frame (rd_env buf env2) (zlen buf) rt.
Proof.
  intros buf rt env1 env2 Hwf. apply classify_deterministic; [exact Hwf|apply agrees_env|apply agrees_env].
Qed.

Lemma frame_verify_agrees buf rd : wfbytes buf -> agrees rd buf -> 4 <= zlen buf ->
  frame_verify rd (zlen buf) =
  Done (if crc32_spec (firstn (Z.to_nat (zlen buf - 4)) buf) =?
          le_dec (firstn 4 (skipn (Z.to_nat (zlen buf - 4)) buf)) then 1 else 0).
Proof.
  intros Hwf Hag Hl. unfold frame_verify. destruct (zlen buf <? 4) eqn:E; [lia|].
  unfold rd_le. rewrite (rd_bytes_agrees rd buf Hag) by (change (Z.of_nat 4) with 4; lia).
  cbn [bind]. rewrite (crc32_prefix buf rd (zlen buf - 4) Hwf Hag) by lia. cbn [bind]. reflexivity.
Qed.

Lemma fcs_env_indep : forall buf env1 env2, wfbytes buf ->
  crc32 (rd_env buf env1) (zlen buf) = crc32 (rd_env buf env2) (zlen buf) /\
  frame_verify (rd_env buf env1) (zlen buf) = frame_verify (rd_env buf env2) (zlen buf).
Proof.
  intros buf env1 env2 Hwf. split.
  - rewrite !(crc_exact buf _ Hwf (agrees_env buf _)). reflexivity.
  - destruct (Z_lt_le_dec (zlen buf) 4) as [Hs|Hl].
    + rewrite !short_no by exact Hs. reflexivity.
    + rewrite !(frame_verify_agrees buf _ Hwf (agrees_env buf _) Hl). reflexivity.
Qed.

(* the element decoders called directly on a byte range: nothing outside the range enters *)
Lemma decoders_env_indep : forall buf env1 env2, wfbytes buf ->
  get_rsn_info (rd_env buf env1) 0 (zlen buf) = get_rsn_info (rd_env buf env2) 0 (zlen buf) /\
  get_wpa_info (rd_env buf env1) 0 (zlen buf) = get_wpa_info (rd_env buf env2) 0 (zlen buf) /\
  (forall b, handle_msft (rd_env buf env1) b 0 (zlen buf) = handle_msft (rd_env buf env2) b 0 (zlen buf)).
Proof.
  intros buf env1 env2 Hwf. pose proof (zlen_nonneg buf) as Hn. split; [|split].
  - rewrite !(rsn_decoder_whole buf _ Hwf (agrees_env buf _)). reflexivity.
  - rewrite !(wpa_decoder_whole buf _ Hwf (agrees_env buf _)). reflexivity.
  - intros b. unfold handle_msft.
    change sizeof_libwifi_tag_vendor_header with 4. change suite_len with 4.
    destruct (zlen buf <? 4) eqn:C4; [reflexivity|].
    rewrite !(agrees_env buf _) by lia. cbn [bind].
    destruct (_ =? c_MICROSOFT_OUI_TYPE_WPA); [|reflexivity].
    destruct (zlen buf <? 4 + 2 + 4) eqn:C10; [reflexivity|].
    pose proof (fun env => wpa_decode_exact buf (rd_env buf env) 0 (zlen buf) Hwf (agrees_env buf env) ltac:(lia) Hn ltac:(lia)) as H.
    change (0 + 4) with 4 in *. change (0 + zlen buf) with (zlen buf) in *. rewrite !H. reflexivity.
Qed.
