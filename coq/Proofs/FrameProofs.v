(* Proofs for C02: the frame classifier model (Model/Frame.v) returns exactly Spec/FrameSpec.v. *)
From LW Require Import Base.Bytes Base.Sweep Gen.Consts Gen.Layout Gen.Tables Model.Radiotap Model.Frame
  Spec.FrameSpec.
From Coq Require Import Lia ZifyBool.
Local Open Scope Z_scope.

Ltac zl := unfold byte in *; lia.

(* ---------- layout: sizes, bit-fields, QoS set ---------- *)
Definition fc_check (fc0 fc1 : Z) : bool :=
  (fc_type [fc0; fc1] =? s_type fc0) && (fc_subtype [fc0; fc1] =? s_subtype fc0) &&
  Bool.eqb (fc_ordered [fc0; fc1] =? 0) (negb (s_ordered fc1)).

Lemma fc_sweep :
  forallb (fun fc0 => forallb (fun fc1 => fc_check fc0 fc1) (zrange 0 256)) (zrange 0 256) = true.
Proof. vm_compute. reflexivity. Qed.

Lemma fc_ok fc0 fc1 : 0 <= fc0 < 256 -> 0 <= fc1 < 256 ->
  fc_type [fc0; fc1] = s_type fc0 /\ fc_subtype [fc0; fc1] = s_subtype fc0 /\
  (fc_ordered [fc0; fc1] =? 0) = negb (s_ordered fc1).
Proof.
  intros H0 H1.
  pose proof (forallb_zrange _ 0 256 fc_sweep fc0 ltac:(lia)) as H. cbv beta in H.
  pose proof (forallb_zrange _ 0 256 H fc1 ltac:(lia)) as H'. cbv beta in H'.
  unfold fc_check in H'. apply andb_prop in H' as [H' Ho]. apply andb_prop in H' as [Ht Hs].
  apply Z.eqb_eq in Ht. apply Z.eqb_eq in Hs. apply eqb_prop in Ho. auto.
Qed.

Lemma qos_sweep : forallb (fun st => Bool.eqb (is_qos_subtype st) (s_qos st)) (zrange 0 16) = true.
Proof. vm_compute. reflexivity. Qed.

Lemma qos_ok st : 0 <= st < 16 -> is_qos_subtype st = s_qos st.
Proof.
  intros H. pose proof (forallb_zrange _ 0 16 qos_sweep st ltac:(lia)) as H'. cbv beta in H'.
  apply eqb_prop in H'. exact H'.
Qed.

Lemma layout_ok :
  sizeof_libwifi_mgmt_unordered_frame_header = 24 /\ sizeof_libwifi_mgmt_ordered_frame_header = 28 /\
  sizeof_libwifi_ctrl_frame_header = 4 /\ sizeof_libwifi_data_frame_header = 24 /\
  sizeof_libwifi_data_qos_frame_header = 26 /\ sizeof_libwifi_frame_ctrl = 2 /\
  (forall fc0 fc1, 0 <= fc0 < 256 -> 0 <= fc1 < 256 ->
     fc_type [fc0; fc1] = s_type fc0 /\ fc_subtype [fc0; fc1] = s_subtype fc0 /\
     (fc_ordered [fc0; fc1] =? 0) = negb (s_ordered fc1)) /\
  (forall st, 0 <= st < 16 -> is_qos_subtype st = s_qos st).
Proof.
  repeat (split; [reflexivity|]). split; [exact fc_ok | exact qos_ok].
Qed.

(* ---------- the model and the Spec after their respective prefix handling ---------- *)
Definition finish_k (rd : Z -> res byte) (data_len off : Z) (rt : option rt_info) (fc : list byte)
    (flags hl : Z) : res (outcome frame) :=
  if data_len <? hl then Done (Err (- EINVAL)) else
  let* hdr := rd_bytes rd (Z.to_nat hl) off in
  let* body := rd_bytes rd (Z.to_nat (data_len - hl)) (off + hl) in
  Done (Ok {| f_rtap := rt; f_flags := flags; f_fc := fc; f_len := data_len;
              f_header := hdr; f_header_len := hl; f_body := body |}).

Definition model_k (rd : Z -> res byte) (data_len off flags0 : Z) (rt : option rt_info)
    : res (outcome frame) :=
  if data_len <? sizeof_libwifi_frame_ctrl then Done (Err (- EINVAL)) else
  let* fc := rd_bytes rd (Z.to_nat sizeof_libwifi_frame_ctrl) off in
  let ty := fc_type fc in
  let finish := finish_k rd data_len off rt fc in
  if ty =? c_TYPE_DATA then
    if is_qos_subtype (fc_subtype fc)
    then finish (Z.lor flags0 c_LIBWIFI_FLAGS_IS_QOS) sizeof_libwifi_data_qos_frame_header
    else finish flags0 sizeof_libwifi_data_frame_header
  else if ty =? c_TYPE_MANAGEMENT then
    if fc_ordered fc =? 0
    then finish flags0 sizeof_libwifi_mgmt_unordered_frame_header
    else finish (Z.lor flags0 c_LIBWIFI_FLAGS_IS_ORDERED) sizeof_libwifi_mgmt_ordered_frame_header
  else if ty =? c_TYPE_CONTROL then finish flags0 sizeof_libwifi_ctrl_frame_header
  else Done (Err (- EINVAL)).

Definition spec_k2 (rest : list byte) (fc0 fc1 fl0 : Z) (rt : option rt_info) : outcome frame :=
  match s_hdr_len (s_type fc0) (s_subtype fc0) (s_ordered fc1) with
  | None => Err (- EINVAL)
  | Some hl =>
    if zlen rest <? hl then Err (- EINVAL) else
    let fl := Z.lor fl0
                (if (s_type fc0 =? T_DATA) && s_qos (s_subtype fc0) then FL_QOS
                 else if (s_type fc0 =? T_MGMT) && s_ordered fc1 then FL_ORDERED else 0) in
    Ok {| f_rtap := rt; f_flags := fl; f_fc := [fc0; fc1]; f_len := zlen rest;
          f_header := zfirstn hl rest; f_header_len := hl; f_body := zskipn hl rest |}
  end.

Definition spec_k (rest : list byte) (fl0 : Z) (rt : option rt_info) : outcome frame :=
  match rest with
  | fc0 :: fc1 :: _ => spec_k2 rest fc0 fc1 fl0 rt
  | _ => Err (- EINVAL)
  end.

Definition spec_pre (buf : list byte) (rtres : option (outcome rt_info))
    : outcome (list byte * Z * option rt_info) :=
  match rtres with
  | None => Ok (buf, 0, None)
  | Some (Err c) => Err c
  | Some (Ok info) =>
    let rest := zskipn (i_length info) buf in
    if Z.land (i_flags info) RT_F_FCS =? 0 then Ok (rest, FL_RADIOTAP, Some info)
    else if zlen rest <? 4 then Err (- EINVAL)
    else Ok (zfirstn (zlen rest - 4) rest, Z.lor FL_FCS FL_RADIOTAP, Some info)
  end.

Lemma spec_classify_eq buf rtres :
  spec_classify buf rtres =
  match spec_pre buf rtres with
  | Err c => Err c
  | Ok (rest, fl0, rt) => spec_k rest fl0 rt
  end.
Proof. reflexivity. Qed.

Lemma s_hdr_len_pos ty st ord hl : s_hdr_len ty st ord = Some hl -> 0 < hl.
Proof.
  unfold s_hdr_len. intros H.
  destruct (ty =? T_MGMT); [destruct ord; injection H; lia|].
  destruct (ty =? T_CTRL); [injection H; lia|].
  destruct (ty =? T_DATA); [destruct (s_qos st); injection H; lia|discriminate].
Qed.

(* ---------- the model against the Spec on an abstract payload [rest] ---------- *)
Section Core.
  Variable rd : Z -> res byte.
  Variable rest : list byte.
  Variable off : Z.
  Hypothesis Hhdr : forall hl, 0 <= hl <= zlen rest ->
    rd_bytes rd (Z.to_nat hl) off = Done (zfirstn hl rest).
  Hypothesis Hbody : forall hl, 0 <= hl <= zlen rest ->
    rd_bytes rd (Z.to_nat (zlen rest - hl)) (off + hl) = Done (zskipn hl rest).

  Lemma finish_ok rt fc flags hl : 0 <= hl ->
    finish_k rd (zlen rest) off rt fc flags hl =
    Done (if zlen rest <? hl then Err (- EINVAL) else
          Ok {| f_rtap := rt; f_flags := flags; f_fc := fc; f_len := zlen rest;
                f_header := zfirstn hl rest; f_header_len := hl; f_body := zskipn hl rest |}).
  Proof.
    intros Hhl. unfold finish_k. destruct (zlen rest <? hl) eqn:E; [reflexivity|].
    rewrite Hhdr by lia. cbn [bind]. rewrite Hbody by lia. reflexivity.
  Qed.

  Lemma core2 fc0 fc1 tl flags0 rt : rest = fc0 :: fc1 :: tl ->
    0 <= fc0 < 256 -> 0 <= fc1 < 256 ->
    model_k rd (zlen rest) off flags0 rt = Done (spec_k2 rest fc0 fc1 flags0 rt).
  Proof.
    intros Hrest H0 H1.
    assert (Hlen : 2 <= zlen rest).
    { rewrite Hrest, !zlen_cons. pose proof (zlen_nonneg tl). lia. }
    assert (Hfc : rd_bytes rd (Z.to_nat 2) off = Done [fc0; fc1]).
    { rewrite Hhdr by lia. rewrite Hrest. reflexivity. }
    unfold model_k, spec_k2. change sizeof_libwifi_frame_ctrl with 2.
    destruct (zlen rest <? 2) eqn:E; [lia|]. rewrite Hfc.
    cbv beta iota zeta delta [bind]. unfold byte in *.
    destruct (fc_ok fc0 fc1 H0 H1) as (Ht & Hs & Ho). rewrite Ht, Hs, Ho.
    assert (Hst : 0 <= s_subtype fc0 < 16).
    { unfold s_subtype. split; [apply Z.div_pos; lia | apply Z.div_lt_upper_bound; lia]. }
    rewrite (qos_ok _ Hst).
    assert (Hty : 0 <= s_type fc0 < 4) by (unfold s_type; apply Z.mod_pos_bound; lia).
    unfold s_hdr_len, T_MGMT, T_CTRL, T_DATA, c_TYPE_DATA, c_TYPE_MANAGEMENT, c_TYPE_CONTROL,
      FL_QOS, FL_ORDERED, c_LIBWIFI_FLAGS_IS_QOS, c_LIBWIFI_FLAGS_IS_ORDERED.
    change sizeof_libwifi_data_qos_frame_header with 26.
    change sizeof_libwifi_data_frame_header with 24.
    change sizeof_libwifi_mgmt_unordered_frame_header with 24.
    change sizeof_libwifi_mgmt_ordered_frame_header with 28.
    change sizeof_libwifi_ctrl_frame_header with 4.
    destruct (s_type fc0 =? 2) eqn:Ed.
    - replace (s_type fc0 =? 0) with false by lia. replace (s_type fc0 =? 1) with false by lia.
      destruct (s_qos (s_subtype fc0)); cbn [andb]; rewrite finish_ok by lia;
        rewrite ?Z.lor_0_r; reflexivity.
    - destruct (s_type fc0 =? 0) eqn:Em.
      + destruct (s_ordered fc1); cbn [andb negb]; rewrite finish_ok by lia;
          rewrite ?Z.lor_0_r; reflexivity.
      + destruct (s_type fc0 =? 1) eqn:Ec.
        * cbn [andb]. rewrite finish_ok by lia. rewrite ?Z.lor_0_r. reflexivity.
        * reflexivity.
  Qed.

  Lemma core flags0 rt : wfbytes rest ->
    model_k rd (zlen rest) off flags0 rt = Done (spec_k rest flags0 rt).
  Proof.
    intros Hwf. destruct rest as [|fc0 [|fc1 tl]] eqn:Hrest.
    - reflexivity.
    - reflexivity.
    - rewrite <- Hrest in *. unfold spec_k. rewrite Hrest at 2.
      apply (core2 fc0 fc1 tl); [exact Hrest| |].
      + apply (wfbytes_In rest); [exact Hwf|]. rewrite Hrest. left; reflexivity.
      + apply (wfbytes_In rest); [exact Hwf|]. rewrite Hrest. right; left; reflexivity.
  Qed.
End Core.

(* ---------- instantiation on a window [off, off + dl) of the input buffer ---------- *)
Lemma classify_window buf rd off dl flags0 rt : wfbytes buf -> agrees rd buf ->
  0 <= off -> 0 <= dl -> off + dl <= zlen buf ->
  model_k rd dl off flags0 rt =
  Done (spec_k (firstn (Z.to_nat dl) (skipn (Z.to_nat off) buf)) flags0 rt).
Proof.
  intros Hwf Hag Hoff Hdl Hle. unfold byte in *.
  remember (firstn (Z.to_nat dl) (skipn (Z.to_nat off) buf)) as rest eqn:Hr.
  assert (Hlen : zlen rest = dl).
  { rewrite Hr. apply zlen_firstn. rewrite zlen_skipn by lia. lia. }
  rewrite <- Hlen. apply core.
  - intros hl Hhl. rewrite (rd_bytes_agrees rd buf Hag) by zl. f_equal.
    unfold zfirstn. rewrite Hr, firstn_firstn. f_equal. zl.
  - intros hl Hhl. rewrite (rd_bytes_agrees rd buf Hag) by zl. f_equal.
    unfold zskipn, byte in *. rewrite Hlen, Hr, skipn_firstn_comm, skipn_skipn'. f_equal; [|f_equal]; zl.
  - rewrite Hr. apply wfbytes_firstn, wfbytes_skipn, Hwf.
Qed.

Lemma firstn_zlen {A} (l : list A) : firstn (Z.to_nat (zlen l)) l = l.
Proof. unfold zlen. rewrite Nat2Z.id. apply firstn_all. Qed.

Lemma classify_plain : forall buf rd, wfbytes buf -> agrees rd buf ->
  get_wifi_frame rd (zlen buf) false = Done (spec_classify buf None).
Proof.
  intros buf rd Hwf Hag.
  change (get_wifi_frame rd (zlen buf) false) with (model_k rd (zlen buf) 0 0 None).
  change (spec_classify buf None) with (spec_k buf 0 None).
  rewrite (classify_window buf rd 0 (zlen buf) 0 None Hwf Hag) by (pose proof (zlen_nonneg buf); lia).
  change (skipn (Z.to_nat 0) buf) with buf. rewrite firstn_zlen. reflexivity.
Qed.

Lemma classify_radiotap_rel : forall buf rd rtres, wfbytes buf -> agrees rd buf ->
  parse_radiotap_info rd (zlen buf) = Done rtres ->
  (forall info, rtres = Ok info -> 0 <= i_length info <= zlen buf) ->
  get_wifi_frame rd (zlen buf) true = Done (spec_classify buf (Some rtres)).
Proof.
  intros buf rd rtres Hwf Hag Hp Hb.
  unfold get_wifi_frame. rewrite Hp. cbn [bind].
  rewrite spec_classify_eq. unfold spec_pre.
  destruct rtres as [info|c]; [|reflexivity].
  specialize (Hb info eq_refl).
  change c_IEEE80211_RADIOTAP_F_FCS with 16. change RT_F_FCS with 16.
  assert (Hl : zlen (zskipn (i_length info) buf) = zlen buf - i_length info).
  { unfold zskipn. apply zlen_skipn. lia. }
  destruct (Z.land (i_flags info) 16 =? 0) eqn:Ef.
  - cbn [bind].
    change (model_k rd (zlen buf - i_length info) (i_length info) 8 (Some info) =
            Done (spec_k (zskipn (i_length info) buf) 8 (Some info))).
    rewrite (classify_window buf rd (i_length info) (zlen buf - i_length info) 8 (Some info) Hwf Hag)
      by lia.
    rewrite <- Hl. unfold zskipn. rewrite firstn_zlen. reflexivity.
  - rewrite Hl. destruct (zlen buf - i_length info <? 4) eqn:E4; [reflexivity|].
    cbn [bind].
    change (model_k rd (zlen buf - i_length info - 4) (i_length info) 9 (Some info) =
            Done (spec_k (zfirstn (zlen buf - i_length info - 4) (zskipn (i_length info) buf)) 9
                    (Some info))).
    rewrite (classify_window buf rd (i_length info) (zlen buf - i_length info - 4) 9 (Some info) Hwf Hag)
      by lia.
    reflexivity.
Qed.

(* ---------- acceptance ---------- *)
Lemma accept_iff : forall buf, wfbytes buf ->
  (exists f, spec_classify buf None = Ok f) <->
  (exists fc0 fc1 rest hl, buf = fc0 :: fc1 :: rest /\
      s_hdr_len (s_type fc0) (s_subtype fc0) (s_ordered fc1) = Some hl /\ hl <= zlen buf).
Proof.
  intros buf _.
  change (spec_classify buf None) with (spec_k buf 0 None).
  destruct buf as [|fc0 [|fc1 tl]].
  - split; [intros [f H]; discriminate | intros (a & b & r & hl & H & _); discriminate].
  - split; [intros [f H]; discriminate | intros (a & b & r & hl & H & _); discriminate].
  - unfold spec_k, spec_k2. remember (fc0 :: fc1 :: tl) as buf eqn:Hbuf.
    split.
    + intros [f H]. exists fc0, fc1, tl.
      destruct (s_hdr_len (s_type fc0) (s_subtype fc0) (s_ordered fc1)) as [hl|]; [|discriminate].
      exists hl. destruct (zlen buf <? hl) eqn:E; [discriminate|].
      split; [exact Hbuf|]. split; [reflexivity|lia].
    + intros (a & b & r & hl & H & Hh & Hle). rewrite Hbuf in H. injection H as <- <- <-.
      rewrite Hh. destruct (zlen buf <? hl) eqn:E; [lia|]. eexists; reflexivity.
Qed.

(* ---------- data extraction ---------- *)
Lemma spec_pre_wf buf rtres rest fl0 rt : wfbytes buf ->
  spec_pre buf rtres = Ok (rest, fl0, rt) -> wfbytes rest.
Proof.
  intros Hwf. unfold spec_pre. destruct rtres as [[info|c]|].
  - destruct (Z.land (i_flags info) RT_F_FCS =? 0).
    + intros H. injection H as <- _ _. apply wfbytes_skipn, Hwf.
    + destruct (zlen (zskipn (i_length info) buf) <? 4); [discriminate|].
      intros H. injection H as <- _ _. apply wfbytes_firstn, wfbytes_skipn, Hwf.
  - discriminate.
  - intros H. injection H as <- _ _. exact Hwf.
Qed.

Lemma data_exact : forall buf rtres f, wfbytes buf -> spec_classify buf rtres = Ok f ->
  parse_data f = spec_data f.
Proof.
  intros buf rtres f Hwf. rewrite spec_classify_eq.
  destruct (spec_pre buf rtres) as [[[rest fl0] rt]|c] eqn:Hpre; [|discriminate].
  pose proof (spec_pre_wf _ _ _ _ _ Hwf Hpre) as Hwr. clear Hpre.
  unfold spec_k. destruct rest as [|fc0 [|fc1 tl]] eqn:Hrest; try discriminate.
  rewrite <- Hrest in *.
  assert (H0 : 0 <= fc0 < 256).
  { apply (wfbytes_In rest); [exact Hwr|]. rewrite Hrest. left; reflexivity. }
  assert (H1 : 0 <= fc1 < 256).
  { apply (wfbytes_In rest); [exact Hwr|]. rewrite Hrest. right; left; reflexivity. }
  unfold spec_k2.
  destruct (s_hdr_len (s_type fc0) (s_subtype fc0) (s_ordered fc1)) as [hl|] eqn:Hh; [|discriminate].
  apply s_hdr_len_pos in Hh.
  destruct (zlen rest <? hl) eqn:E; [discriminate|].
  intros H. injection H as <-.
  unfold parse_data, spec_data. cbn [f_fc f_flags f_header f_body f_len f_header_len].
  destruct (fc_ok fc0 fc1 H0 H1) as (Ht & _ & _). rewrite Ht.
  change c_TYPE_DATA with 2. change T_DATA with 2.
  destruct (s_type fc0 =? 2); cbn [negb]; [|reflexivity].
  change off_libwifi_data_frame_header__addr1 with 4.
  change off_libwifi_data_qos_frame_header__addr1 with 4.
  change off_libwifi_data_frame_header__addr2 with 10.
  change off_libwifi_data_qos_frame_header__addr2 with 10.
  assert (Hl : zlen (zskipn hl rest) = zlen rest - hl) by (unfold zskipn; apply zlen_skipn; lia).
  rewrite Hl.
  destruct (Z.land _ c_LIBWIFI_FLAGS_IS_QOS =? 0); reflexivity.
Qed.
