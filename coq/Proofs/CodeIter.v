(* The tag iterator AS TRANSLATED from tag_iterator.c (Gen/Sites.v: body_libwifi_tag_iterator_init / _next) refines the
   hand-written model Model/TagIter.v on every buffer, when the only readable memory is the buffer itself:
   the translated code never reads outside it (execution would be Stuck) and computes exactly the model's iterator. *)
From Coq Require Import ZArith String List Bool Lia.
From LW Require Import Base.Bytes Base.CExpr Gen.Sites Proofs.SitesLemmas Model.TagIter.
From LW Require Export Spec.CodeSpec.
Import ListNotations.
Local Open Scope string_scope.
Local Open Scope Z_scope.


Lemma mem_at_in start buf i : 0 <= i < zlen buf -> mem_at start buf (start + i) = Some (znth buf i).
Proof.
  intros Hi. unfold mem_at.
  destruct (Z.leb_spec start (start + i)); [ | lia ].
  destruct (Z.ltb_spec (start + i) (start + zlen buf)); [ | lia ].
  cbn [andb]. replace (start + i - start) with i by lia. reflexivity.
Qed.

Lemma load_u8 start buf i : wfbytes buf -> 0 <= i < zlen buf ->
  load_le (mem_at start buf) (start + i) (Z.to_nat (8 / 8)) = Some (znth buf i).
Proof.
  intros Hwf Hi. change (Z.to_nat (8 / 8)) with 1%nat. cbn [load_le].
  rewrite mem_at_in by exact Hi. f_equal. lia.
Qed.

Lemma rd_strict_in buf i : 0 <= i < zlen buf -> rd_strict buf i = Done (znth buf i).
Proof. intros Hi. unfold rd_strict. destruct (Z.leb_spec 0 i); [ | lia ]. destruct (Z.ltb_spec i (zlen buf)); [ | lia ]. reflexivity. Qed.

Theorem code_tag_iterator_init_refines buf start rho :
  wfbytes buf -> 0 <= start -> start + zlen buf < 2 ^ 62 ->
  let rho0 := upd (upd rho "tags_start" start) "data_len" (zlen buf) in
  let run := exec 30 (mem_at start buf) rho0 [] body_libwifi_tag_iterator_init in
  match tag_init (rd_strict buf) (zlen buf) with
  | Done (Err c) => observe run = Some (Some c, [])
  | Done (Ok it) =>
      exists rho1, run = Returned (Some 0) rho1 [] /\
        rho1 "it->tag_header" = start + it_hdr it /\ rho1 "it->tag_data" = start + it_data it /\
        rho1 "it->_next_tag_header" = start + it_next it /\ rho1 "it->_frame_end" = start + it_end it
  | _ => False
  end.
Proof.
  intros Hwf Hs Hend rho0 run. subst run.
  change (2 ^ 62) with 4611686018427387904 in *.
  pose proof (zlen_nonneg buf) as Hlen.
  unfold tag_init, body_libwifi_tag_iterator_init, rho0.
  erewrite exec_if_b2z by ceval_now.
  destruct (Z.ltb_spec (zlen buf) 2) as [Hlt | Hge].
  - exec_steps. reflexivity.
  - rewrite (rd_strict_in buf 1) by lia. cbn [bind].
    pose proof (wfbytes_znth buf 1 Hwf ltac:(lia)) as Hb.
    assert (Hld : load_le (mem_at start buf) (start + 1) (Z.to_nat (8 / 8)) = Some (znth buf 1)) by (apply load_u8; [exact Hwf | lia]).
    erewrite exec_if_b2z.
    2:{ ceval_unfold. wrap_ids. rewrite Hld. wrap_ids. reflexivity. }
    replace (znth buf 1 >? zlen buf - 2) with (zlen buf - 2 <? znth buf 1) by (rewrite Z.gtb_ltb; reflexivity).
    destruct (Z.ltb_spec (zlen buf - 2) (znth buf 1)) as [Hbig | Hfit].
    + exec_steps. reflexivity.
    + eexists. split.
      * repeat first [ erewrite exec_set by (ceval_unfold; wrap_ids; rewrite ?Hld; wrap_ids; reflexivity)
                     | erewrite exec_ret by ceval_now ].
        reflexivity.
      * cbv beta iota zeta delta [upd String.eqb Ascii.eqb Bool.eqb it_hdr it_data it_next it_end].
        repeat split; lia.
Qed.


Theorem code_tag_iterator_next_refines buf start rho it :
  wfbytes buf -> 0 < start -> start + zlen buf < 2 ^ 62 ->
  0 <= it_next it < 2 ^ 62 -> -1 <= it_end it < zlen buf ->
  let run := exec 30 (mem_at start buf) (it_env rho start it) [] body_libwifi_tag_iterator_next in
  match tag_next (rd_strict buf) it with
  | Done (it', r) =>
      exists rho1, run = Returned (Some (match r with None => -1 | Some n => n end)) rho1 [] /\ it_fields rho1 start it'
  | _ => False
  end.
Proof.
  intros Hwf Hs Hend Hnext Hfe run. subst run.
  change (2 ^ 62) with 4611686018427387904 in *.
  pose proof (zlen_nonneg buf) as Hlen.
  unfold tag_next, body_libwifi_tag_iterator_next, it_env.
  erewrite exec_set by ceval_now.
  erewrite exec_if_b2z by ceval_now.
  replace (start + it_next it >=? start + it_end it) with (it_end it <=? it_next it)
    by (rewrite Z.geb_leb; destruct (Z.leb_spec (it_end it) (it_next it)); destruct (Z.leb_spec (start + it_end it) (start + it_next it)); lia).
  destruct (Z.leb_spec (it_end it) (it_next it)) as [Hdone | Hmore].
  - eexists. split.
    + exec_steps. reflexivity.
    + unfold it_fields. cbv beta iota zeta delta [upd String.eqb Ascii.eqb Bool.eqb]. repeat split; reflexivity.
  - set (h := it_next it) in *.
    rewrite (rd_strict_in buf (h + 1)) by lia. cbn [bind].
    pose proof (wfbytes_znth buf (h + 1) Hwf ltac:(lia)) as Hb1.
    pose proof (wfbytes_znth buf h Hwf ltac:(lia)) as Hb0.
    assert (Hld1 : load_le (mem_at start buf) (start + h + 1) (Z.to_nat (8 / 8)) = Some (znth buf (h + 1))).
    { replace (start + h + 1) with (start + (h + 1)) by lia. apply load_u8; [exact Hwf | lia]. }
    assert (Hld0 : load_le (mem_at start buf) (start + h + 0) (Z.to_nat (8 / 8)) = Some (znth buf h)).
    { replace (start + h + 0) with (start + h) by lia. apply load_u8; [exact Hwf | lia]. }
    erewrite exec_set by ceval_now.
    erewrite exec_set by ceval_now.
    erewrite exec_if_b2z.
    2:{ ceval_unfold. wrap_ids. rewrite Hld1. wrap_ids. reflexivity. }
    replace (znth buf (h + 1) >=? start + it_end it - (start + h)) with (it_end it - h <=? znth buf (h + 1))
      by (rewrite Z.geb_leb; f_equal; lia).
    destruct (Z.leb_spec (it_end it - h) (znth buf (h + 1))) as [Hshort | Hfit].
    + eexists. split.
      * exec_steps. reflexivity.
      * unfold it_fields. cbv beta iota zeta delta [upd String.eqb Ascii.eqb Bool.eqb it_hdr it_data it_next it_end]. repeat split; reflexivity.
    + rewrite (rd_strict_in buf h) by lia. cbn [bind].
      eexists. split.
      * repeat first [ erewrite exec_set by (ceval_unfold; wrap_ids; rewrite ?Hld1, ?Hld0; wrap_ids; reflexivity)
                     | erewrite exec_ret by (ceval_unfold; wrap_ids; rewrite ?Hld1, ?Hld0; wrap_ids; reflexivity) ].
        reflexivity.
      * unfold it_fields. cbv beta iota zeta delta [upd String.eqb Ascii.eqb Bool.eqb it_hdr it_data it_next it_end]. repeat split; lia.
Qed.

Print Assumptions code_tag_iterator_init_refines.
Print Assumptions code_tag_iterator_next_refines.
