(* Part C of the code-level theorems: guards, lengths and single expressions (C03, C11, C20).
   Theorems about the translated C code itself (Gen/Sites.v, generated from the libwifi sources): every statement below
   is about the terms the translator produced, evaluated with the C integer semantics of Base/CExpr.v, for ALL values in
   the stated ranges.

   A. the dump routines copy exactly [buf, buf + length) when the length fits the caller's buffer and copy nothing otherwise;
   B. the arithmetic of the tag list / action detail editing routines;
   C. guards and lengths, site by site. *)
From Coq Require Import ZArith String List Bool Lia.
From LW Require Import Base.CExpr Gen.Sites Spec.CodeSpec Proofs.SitesLemmas.
Import ListNotations.
Local Open Scope string_scope.
Local Open Scope Z_scope.

(* every statement holds for EVERY memory: none of these routines' translated statements loads from it *)
Section WithMemory.
Variable m : memory.

Ltac nums :=
  change (2 ^ 64) with 18446744073709551616 in *; change (2 ^ 63) with 9223372036854775808 in *;
  change (2 ^ 62) with 4611686018427387904 in *; change (2 ^ 40) with 1099511627776 in *;
  change (2 ^ 32) with 4294967296 in *; change (2 ^ 31) with 2147483648 in *; change (10 ^ 9) with 1000000000 in *.

(* ================================================================ C. guards and lengths, site by site *)

(* len = frame_len, frame = the address of the frame *)
Theorem code_frame_verify rho len frame :
  rho "frame_len" = len -> rho "frame" = frame ->
  (0 <= len < 2 ^ 64 -> ceval rho m (site sites_libwifi_frame_verify "if#0") = Some (b2z (len <? 4))) /\
  (4 <= len < 2 ^ 63 -> 0 <= frame -> frame + len < 2 ^ 63 ->
   ceval rho m (site sites_libwifi_frame_verify "call:libwifi_calculate_fcs#0:1") = Some (len - 4) /\
   ceval rho m (site sites_libwifi_frame_verify "call:memcpy#0:1") = Some (frame + len - 4) /\
   ceval rho m (site sites_libwifi_frame_verify "call:memcpy#0:2") = Some 4).
Proof.
  intros <- <-; nums. split; [intros Hlen | intros Hlen Hf Hend; split; [ | split]].
  - site_now sites_libwifi_frame_verify.
  - site_now sites_libwifi_frame_verify.
  - site_unfold sites_libwifi_frame_verify. wrap_ids. f_equal. lia.
  - site_now sites_libwifi_frame_verify.
Qed.

(* sec = spec.tv_sec, nsec = spec.tv_nsec *)
Theorem code_epoch rho sec nsec :
  rho "spec.tv_sec" = sec -> rho "spec.tv_nsec" = nsec ->
  0 <= sec < 2 ^ 40 -> 0 <= nsec < 10 ^ 9 ->
  ceval rho m (site sites_libwifi_get_epoch "ret#0") = Some (sec * 1000000 + nsec / 1000).
Proof.
  intros <- <- Hsec Hnsec; nums.
  pose proof (Z.div_pos (rho "spec.tv_nsec") 1000 ltac:(lia) ltac:(lia)) as Hd0.
  pose proof (Z.div_lt_upper_bound (rho "spec.tv_nsec") 1000 1000000 ltac:(lia) ltac:(lia)) as Hd1.
  site_unfold sites_libwifi_get_epoch. wrap_ids.
  change (1000 =? 0)%Z with false. cbv iota.
  rewrite Z.quot_div_nonneg by lia. wrap_ids. reflexivity.
Qed.

(* the CRC routine: one turn of the inner loop (mask, then the shifted and conditionally reduced register), the final
   complement, the header and the step of the outer loop (i = the index, n = message_len) *)
Theorem code_crc_step rho crc i n :
  0 <= crc < 2 ^ 32 -> 0 <= i < n -> n < 2 ^ 31 ->
  (exists mk,
     ceval (upd rho "crc" crc) m (site sites_libwifi_crc32 "set:mask#0") = Some mk /\
     ceval (upd (upd rho "crc" crc) "mask" mk) m (site sites_libwifi_crc32 "set:crc#2") =
       Some (Z.lxor (Z.shiftr crc 1) (if Z.odd crc then 3988292384 else 0))) /\
  ceval (upd rho "crc" crc) m (site sites_libwifi_crc32 "ret#0") = Some (Z.lxor crc 4294967295) /\
  ceval (upd (upd rho "i" i) "message_len" n) m (site sites_libwifi_crc32 "loop#0") = Some (b2z (i <? n)) /\
  ceval (upd (upd rho "i" i) "message_len" n) m (site sites_libwifi_crc32 "set:i#1") = Some (i + 1).
Proof.
  intros Hcrc Hi Hn; nums.
  pose proof (shiftr1_u32 crc Hcrc) as Hsh.
  split; [ | split; [ | split]].
  - exists (if Z.odd crc then 4294967295 else 0). split.
    + site_unfold sites_libwifi_crc32. wrap_ids. rewrite land_1_odd.
      destruct (Z.odd crc); reflexivity.
    + site_unfold sites_libwifi_crc32. wrap_ids. cbn [c_bits].
      change ((1 <? 0) || (32 <=? 1))%bool with false. cbv iota.
      destruct (Z.odd crc).
      * wrap_ids. change (Z.land 3988292384 4294967295) with 3988292384.
        pose proof (lxor_u32 (Z.shiftr crc 1) 3988292384 Hsh ltac:(lia)) as Hx. wrap_ids. reflexivity.
      * wrap_ids. change (Z.land 3988292384 0) with 0.
        pose proof (lxor_u32 (Z.shiftr crc 1) 0 Hsh ltac:(lia)) as Hx. wrap_ids. reflexivity.
  - site_unfold sites_libwifi_crc32. wrap_ids. rewrite lnot_u32 by lia. reflexivity.
  - site_now sites_libwifi_crc32.
  - site_now sites_libwifi_crc32.
Qed.

Local Notation length_site_ok := (CodeSpec.length_site_ok m).

Ltac length_proof S :=
  let H := fresh "H" in
  cbv beta delta [CodeSpec.length_site_ok]; intros ? H; nums; site_unfold S; wrap_ids; f_equal; lia.

Theorem code_length_routines :
  length_site_ok sites_libwifi_get_beacon_length "beacon->tags.length" (2 ^ 63) (24 + 12) /\
  length_site_ok sites_libwifi_get_probe_req_length "probe_req->tags.length" (2 ^ 63) 24 /\
  length_site_ok sites_libwifi_get_probe_resp_length "probe_resp->tags.length" (2 ^ 63) (24 + 12) /\
  length_site_ok sites_libwifi_get_assoc_req_length "assoc_req->tags.length" (2 ^ 63) (24 + 4) /\
  length_site_ok sites_libwifi_get_assoc_resp_length "assoc_resp->tags.length" (2 ^ 63) (24 + 6) /\
  length_site_ok sites_libwifi_get_reassoc_req_length "reassoc_req->tags.length" (2 ^ 63) (24 + 10) /\
  length_site_ok sites_libwifi_get_reassoc_resp_length "reassoc_resp->tags.length" (2 ^ 63) (24 + 6) /\
  length_site_ok sites_libwifi_get_auth_length "auth->tags.length" (2 ^ 63) (24 + 6) /\
  length_site_ok sites_libwifi_get_deauth_length "deauth->tags.length" (2 ^ 63) (24 + 2) /\
  length_site_ok sites_libwifi_get_disassoc_length "disassoc->tags.length" (2 ^ 63) (24 + 2) /\
  length_site_ok sites_libwifi_get_timing_advert_length "adv->tags.length" (2 ^ 63) (24 + 21) /\
  length_site_ok sites_libwifi_get_action_length "action->fixed_parameters.details.detail_length" 256 (24 + 1).
Proof.
  repeat apply conj.
  - length_proof sites_libwifi_get_beacon_length.
  - length_proof sites_libwifi_get_probe_req_length.
  - length_proof sites_libwifi_get_probe_resp_length.
  - length_proof sites_libwifi_get_assoc_req_length.
  - length_proof sites_libwifi_get_assoc_resp_length.
  - length_proof sites_libwifi_get_reassoc_req_length.
  - length_proof sites_libwifi_get_reassoc_resp_length.
  - length_proof sites_libwifi_get_auth_length.
  - length_proof sites_libwifi_get_deauth_length.
  - length_proof sites_libwifi_get_disassoc_length.
  - length_proof sites_libwifi_get_timing_advert_length.
  - length_proof sites_libwifi_get_action_length.
Qed.


End WithMemory.

Print Assumptions code_frame_verify.
Print Assumptions code_epoch.
Print Assumptions code_crc_step.
Print Assumptions code_length_routines.
