(* Proofs for C04 / C08: the element handlers and the nine management parsers of Model/Mgmt.v return
   exactly Spec/MgmtSpec.v on every classified frame. *)
From LW Require Import Base.Bytes Base.Sweep Gen.Consts Gen.Layout Gen.Tables
  Model.TagIter Spec.TagSpec Model.Radiotap Model.Frame Spec.FrameSpec Model.Security Model.Mgmt
  Spec.EapolSpec Spec.SecuritySpec Spec.MgmtSpec Proofs.TagIterProofs Proofs.FrameProofs.
From LW Require Export Proofs.SecurityProofs.
From Coq Require Import Lia ZifyBool.
Local Open Scope Z_scope.

Ltac zl := unfold byte in *; lia.

(* ---------- one step of each of the Spec's folds ---------- *)
Definition ssid_step (tags : list byte) (acc : list byte) (e : elem) : list byte :=
  if e_num e =? E_SSID then put0 (s_ssid_bytes tags e) zero33 else acc.
Definition hid_step (tags : list byte) (acc : Z) (e : elem) : Z :=
  if e_num e =? E_SSID
  then (if (e_len e =? 0) || forallb (fun b => b =? 0) (s_ssid_bytes tags e) then 1 else 0)
  else acc.
Definition chan_step (ht : bool) (tags : list byte) (acc : Z) (e : elem) : Z :=
  if ((e_num e =? E_DS) || (ht && (e_num e =? E_HT_OP))) && (1 <=? e_len e)
  then znth (body_of tags e) 0 else acc.
Definition sec_step (tags : list byte) (e : elem) (acc : sec_sum) : option sec_sum :=
  if is_rsn_elem e then
    match s_rsn_decode (body_of tags e) with
    | None => None
    | Some i => Some {| x_enc := Z.lor (clear_wep (x_enc acc)) (s_rsn_flags i); x_wps := x_wps acc;
                        x_rsn := i; x_wpa := x_wpa acc |}
    end
  else if is_wpa_elem tags e then
    match s_wpa_decode (body_of tags e) with
    | None => None
    | Some i => Some {| x_enc := Z.lor (Z.lor (clear_wep (x_enc acc)) F_WPA) (s_wpa_flags i);
                        x_wps := x_wps acc; x_rsn := x_rsn acc; x_wpa := i |}
    end
  else if is_wps_elem tags e then
    Some {| x_enc := x_enc acc; x_wps := 1; x_rsn := x_rsn acc; x_wpa := x_wpa acc |}
  else Some acc.

Lemma s_security_cons tags e r acc :
  s_security tags (e :: r) acc =
  match sec_step tags e acc with None => None | Some a => s_security tags r a end.
Proof.
  cbn [s_security]. unfold sec_step.
  destruct (is_rsn_elem e); [destruct (s_rsn_decode _); reflexivity|].
  destruct (is_wpa_elem tags e); [destruct (s_wpa_decode _); reflexivity|].
  destruct (is_wps_elem tags e); reflexivity.
Qed.

Lemma sec_step_other tags e acc : e_num e <> 48 -> e_num e <> 221 -> sec_step tags e acc = Some acc.
Proof.
  intros H1 H2. unfold sec_step, is_rsn_elem, is_wpa_elem, is_wps_elem, E_RSN, E_VENDOR.
  destruct (e_num e =? 48) eqn:A; [lia|]. destruct (e_num e =? 221) eqn:B; [lia|]. reflexivity.
Qed.
Lemma chan_step_other ht tags acc e : e_num e <> 3 -> e_num e <> 61 -> chan_step ht tags acc e = acc.
Proof.
  intros H1 H2. unfold chan_step, E_DS, E_HT_OP.
  destruct (e_num e =? 3) eqn:A; [lia|]. destruct (e_num e =? 61) eqn:B; [lia|].
  destruct ht; reflexivity.
Qed.
Lemma ssid_step_other tags acc e : e_num e <> 0 -> ssid_step tags acc e = acc.
Proof. intros H. unfold ssid_step, E_SSID. destruct (e_num e =? 0) eqn:A; [lia|]. reflexivity. Qed.
Lemma hid_step_other tags acc e : e_num e <> 0 -> hid_step tags acc e = acc.
Proof. intros H. unfold hid_step, E_SSID. destruct (e_num e =? 0) eqn:A; [lia|]. reflexivity. Qed.

Definition sec_of (b : bss) : sec_sum :=
  {| x_enc := b_enc b; x_wps := b_wps b; x_rsn := b_rsn b; x_wpa := b_wpa b |}.
Definition mk_bss (b : bss) (ss : list byte) (hid ch : Z) (x : sec_sum) : bss :=
  {| b_transmitter := b_transmitter b; b_receiver := b_receiver b; b_bssid := b_bssid b; b_ssid := ss;
     b_hidden := hid; b_channel := ch; b_wps := x_wps x; b_enc := x_enc x; b_wpa := x_wpa x;
     b_rsn := x_rsn x; b_tags := b_tags b |}.
Definition mk_sta (s : sta) (ss : list byte) (ch : Z) : sta :=
  {| s_channel := ch; s_randomized := s_randomized s; s_transmitter := s_transmitter s;
     s_receiver := s_receiver s; s_bssid := s_bssid s; s_ssid := ss; s_broadcast_ssid := s_broadcast_ssid s;
     s_tags := s_tags s |}.

Lemma mk_bss_id b : mk_bss b (b_ssid b) (b_hidden b) (b_channel b) (sec_of b) = b.
Proof. destruct b; reflexivity. Qed.
Lemma mk_sta_id s : mk_sta s (s_ssid s) (s_channel s) = s.
Proof. destruct s; reflexivity. Qed.
Lemma sec_of_mk b ss hid ch x : sec_of (mk_bss b ss hid ch x) = x.
Proof. destruct x; reflexivity. Qed.

Lemma genuine_len buf e : wfbytes buf -> genuine buf e -> 0 <= e_len e < 256.
Proof.
  intros Hwf (G0 & G1 & G2 & G3).
  destruct (Z_lt_dec (e_off e + 1) (zlen buf)) as [H|H].
  - rewrite G3. apply wfbytes_znth; [exact Hwf|lia].
  - rewrite G3. unfold znth. rewrite nth_overflow by (unfold zlen in *; lia). lia.
Qed.

Lemma zfirstn_slice {A} (l : list A) base len n : 0 <= base -> 0 <= n <= len ->
  zfirstn n (slice base len l) = slice base n l.
Proof.
  intros Hb Hn. change (zfirstn n (slice base len l)) with (slice 0 n (slice base len l)).
  rewrite slice_slice by lia. rewrite Z.add_0_r. reflexivity.
Qed.

(* ---------- the element handlers on a genuine element ---------- *)
Section Handlers.
  Variable tags : list byte.
  Hypothesis Hwf : wfbytes tags.
  Let rd := rd_strict tags.
  Let Hag : agrees rd tags := agrees_strict tags.

  Lemma handle_ssid_exact old e : genuine tags e ->
    handle_ssid rd old (e_off e + 2) (e_len e) =
    Done (put0 (s_ssid_bytes tags e) zero33,
          if (e_len e =? 0) || forallb (fun b => b =? 0) (s_ssid_bytes tags e) then 1 else 0).
  Proof.
    intros G. pose proof (genuine_len tags e Hwf G) as Hl. destruct G as (G0 & G1 & G2 & G3).
    unfold handle_ssid.
    assert (Hm : (if 32 <? e_len e then 32 else e_len e) = Z.min (e_len e) 32)
      by (destruct (32 <? e_len e) eqn:?; lia).
    rewrite Hm.
    rewrite (rd_slice tags rd Hag) by lia. cbn [bind].
    unfold s_ssid_bytes, body_of. rewrite zfirstn_slice by lia.
    replace (e_len e <=? 0) with (e_len e =? 0) by lia.
    reflexivity.
  Qed.

  Lemma rd_body0 e : genuine tags e -> 1 <= e_len e ->
    rd (e_off e + 2) = Done (znth (body_of tags e) 0).
  Proof.
    intros (G0 & G1 & G2 & G3) Hl. rewrite Hag by lia.
    unfold body_of. rewrite znth_slice by lia. rewrite Z.add_0_r. reflexivity.
  Qed.

  Lemma handle_rsn_exact b e : genuine tags e ->
    handle_rsn rd b (e_off e + 2) (e_len e) =
    Done (match s_rsn_decode (body_of tags e) with
          | None => Err (- EINVAL)
          | Some i => Ok (mk_bss b (b_ssid b) (b_hidden b) (b_channel b)
                            {| x_enc := Z.lor (clear_wep (b_enc b)) (s_rsn_flags i); x_wps := b_wps b;
                               x_rsn := i; x_wpa := b_wpa b |})
          end).
  Proof.
    intros G. pose proof (genuine_len tags e Hwf G) as Hl. destruct G as (G0 & G1 & G2 & G3).
    unfold handle_rsn. change suite_len with 4. unfold body_of.
    destruct (e_len e <? 2 + 4) eqn:C.
    - unfold s_rsn_decode. rewrite zlen_slice by lia.
      destruct (e_len e <? 6) eqn:C'; [reflexivity|lia].
    - rewrite (rsn_decode_exact tags rd (e_off e + 2) (e_len e) Hwf Hag) by lia. cbn [bind].
      destruct (s_rsn_decode _) as [i|]; [|reflexivity].
      rewrite enumerate_rsn_exact. reflexivity.
  Qed.

  Lemma handle_msft_exact b e : genuine tags e ->
    handle_msft rd b (e_off e + 2) (e_len e) =
    Done (if e_len e <? 4 then Err (- EINVAL) else
          if znth (body_of tags e) 3 =? 1 then
            match s_wpa_decode (body_of tags e) with
            | None => Err (- EINVAL)
            | Some i => Ok (mk_bss b (b_ssid b) (b_hidden b) (b_channel b)
                              {| x_enc := Z.lor (Z.lor (clear_wep (b_enc b)) F_WPA) (s_wpa_flags i);
                                 x_wps := b_wps b; x_rsn := b_rsn b; x_wpa := i |})
            end
          else if znth (body_of tags e) 3 =? 4 then
            Ok (mk_bss b (b_ssid b) (b_hidden b) (b_channel b)
                  {| x_enc := b_enc b; x_wps := 1; x_rsn := b_rsn b; x_wpa := b_wpa b |})
          else Ok b).
  Proof.
    intros G. pose proof (genuine_len tags e Hwf G) as Hl. destruct G as (G0 & G1 & G2 & G3).
    unfold handle_msft.
    change c_MICROSOFT_OUI_TYPE_WPA with 1. change c_MICROSOFT_OUI_TYPE_WPS with 4.
    change sizeof_libwifi_tag_vendor_header with 4. change suite_len with 4.
    destruct (e_len e <? 4) eqn:Hl4; [reflexivity|].
    rewrite Hag by lia. cbn [bind].
    unfold body_of. rewrite znth_slice by lia.
    destruct (znth tags (e_off e + 2 + 3) =? 1) eqn:T1.
    - destruct (e_len e <? 4 + 2 + 4) eqn:C.
      + unfold s_wpa_decode. rewrite zlen_slice by lia.
        destruct (e_len e <? 10) eqn:C'; [reflexivity|lia].
      + rewrite (wpa_decode_exact tags rd (e_off e + 2) (e_len e) Hwf Hag) by lia. cbn [bind].
        destruct (s_wpa_decode _) as [i|]; [|reflexivity].
        rewrite enumerate_wpa_exact. reflexivity.
    - destruct (znth tags (e_off e + 2 + 3) =? 4) eqn:T4; reflexivity.
  Qed.

  (* one pass of the BSS switch = one step of the four folds *)
  Lemma bss_elem_exact b e : genuine tags e ->
    bss_elem rd b e =
    Done (match sec_step tags e (sec_of b) with
          | None => Err (- EINVAL)
          | Some x => Ok (mk_bss b (ssid_step tags (b_ssid b) e) (hid_step tags (b_hidden b) e)
                            (chan_step true tags (b_channel b) e) x)
          end).
  Proof.
    intros G. pose proof (genuine_len tags e Hwf G) as Hl.
    unfold bss_elem.
    change c_TAG_SSID with 0. change c_TAG_DS_PARAMETER with 3. change c_TAG_HT_OPERATION with 61.
    change c_TAG_RSN with 48. change c_TAG_VENDOR_SPECIFIC with 221.
    change sizeof_libwifi_tag_vendor_header with 4.
    destruct (e_num e =? 0) eqn:E0.
    { rewrite handle_ssid_exact by exact G. cbn [bind].
      rewrite sec_step_other by lia. rewrite chan_step_other by lia.
      unfold ssid_step, hid_step, E_SSID. rewrite E0. destruct b; reflexivity. }
    destruct ((e_num e =? 3) || (e_num e =? 61)) eqn:E1.
    { rewrite sec_step_other by lia. rewrite ssid_step_other, hid_step_other by lia.
      unfold chan_step, E_DS, E_HT_OP. cbn [andb]. rewrite E1. cbn [andb].
      destruct (1 <=? e_len e) eqn:L1.
      - rewrite rd_body0 by (try exact G; lia). cbn [bind]. destruct b; reflexivity.
      - rewrite mk_bss_id. reflexivity. }
    destruct (e_num e =? 48) eqn:E2.
    { rewrite handle_rsn_exact by exact G. cbn [bind].
      rewrite ssid_step_other, hid_step_other by lia. rewrite chan_step_other by lia.
      unfold sec_step, is_rsn_elem, E_RSN. rewrite E2.
      destruct (s_rsn_decode _) as [i|]; reflexivity. }
    destruct (e_num e =? 221) eqn:E3.
    { rewrite ssid_step_other, hid_step_other by lia. rewrite chan_step_other by lia.
      unfold sec_step, is_rsn_elem, is_wpa_elem, is_wps_elem, E_RSN, E_VENDOR. rewrite E2, E3. cbn [andb].
      destruct G as (G0 & G1 & G2 & G3).
      destruct (4 <=? e_len e) eqn:L4; cbn [andb].
      - change 3%nat with (Z.to_nat 3). rewrite (rd_slice tags rd Hag) by lia. cbn [bind].
        change c_MICROSOFT_OUI with MSFT_OUI.
        unfold body_of at 1 4. rewrite !zfirstn_slice by lia.
        destruct (oui_eqb (slice (e_off e + 2) 3 tags) MSFT_OUI) eqn:O; cbn [andb].
        + rewrite handle_msft_exact by (repeat split; assumption).
          destruct (e_len e <? 4) eqn:L4'; [lia|]. cbn [bind].
          destruct (znth (body_of tags e) 3 =? 1) eqn:T1.
          * destruct (s_wpa_decode _) as [i|]; reflexivity.
          * destruct (znth (body_of tags e) 3 =? 4) eqn:T4; [reflexivity|].
            rewrite mk_bss_id. reflexivity.
        + rewrite mk_bss_id. reflexivity.
      - rewrite mk_bss_id. reflexivity. }
    rewrite sec_step_other by lia. rewrite ssid_step_other, hid_step_other by lia.
    rewrite chan_step_other by lia. rewrite mk_bss_id.
    destruct (e_num e =? c_TAG_ELEMENT_EXTENSION); [|reflexivity].
    change sizeof_libwifi_tag_extension_header with 1.
    destruct (1 <=? e_len e) eqn:L1; [|reflexivity].
    rewrite rd_body0 by (try exact G; lia). reflexivity.
  Qed.

  Lemma bss_elems_exact : forall els b, Forall (genuine tags) els ->
    bss_elems rd b els =
    Done (match s_security tags els (sec_of b) with
          | None => Err (- EINVAL)
          | Some x => Ok (mk_bss b (fold_left (ssid_step tags) els (b_ssid b))
                            (fold_left (hid_step tags) els (b_hidden b))
                            (fold_left (chan_step true tags) els (b_channel b)) x)
          end).
  Proof.
    induction els as [|e r IH]; intros b HF.
    - cbn [bss_elems s_security fold_left]. rewrite mk_bss_id. reflexivity.
    - inversion HF as [|? ? Ge Gr]; subst.
      cbn [bss_elems fold_left]. rewrite s_security_cons. rewrite bss_elem_exact by exact Ge. cbn [bind].
      destruct (sec_step tags e (sec_of b)) as [x|]; [|reflexivity].
      rewrite IH by exact Gr. rewrite sec_of_mk.
      destruct (s_security tags r x); reflexivity.
  Qed.

  Lemma sta_elem_exact s e : genuine tags e ->
    sta_elem rd s e = Done (mk_sta s (ssid_step tags (s_ssid s) e) (chan_step false tags (s_channel s) e)).
  Proof.
    intros G. pose proof (genuine_len tags e Hwf G) as Hl.
    unfold sta_elem. change c_TAG_SSID with 0. change c_TAG_DS_PARAMETER with 3.
    destruct (e_num e =? 0) eqn:E0.
    { rewrite handle_ssid_exact by exact G. cbn [bind].
      unfold ssid_step, chan_step, E_SSID, E_DS. rewrite E0.
      destruct (e_num e =? 3) eqn:E1; [lia|]. destruct s; reflexivity. }
    rewrite ssid_step_other by lia. unfold chan_step, E_DS. cbn [andb orb].
    destruct (e_num e =? 3) eqn:E1; cbn [andb orb].
    - destruct (1 <=? e_len e) eqn:L1.
      + rewrite rd_body0 by (try exact G; lia). cbn [bind]. destruct s; reflexivity.
      + rewrite mk_sta_id. reflexivity.
    - rewrite mk_sta_id. reflexivity.
  Qed.

  Lemma sta_elems_exact : forall els s, Forall (genuine tags) els ->
    sta_elems rd s els =
    Done (mk_sta s (fold_left (ssid_step tags) els (s_ssid s)) (fold_left (chan_step false tags) els (s_channel s))).
  Proof.
    induction els as [|e r IH]; intros s HF.
    - cbn [sta_elems fold_left]. rewrite mk_sta_id. reflexivity.
    - inversion HF as [|? ? Ge Gr]; subst.
      cbn [sta_elems fold_left]. rewrite sta_elem_exact by exact Ge. cbn [bind].
      rewrite IH by exact Gr. reflexivity.
  Qed.

  Lemma iterate_tags : iterate rd (zlen tags) = Done (spec_iterate tags).
  Proof. apply iterate_exact; [exact Hwf | exact Hag]. Qed.

  Lemma spec_iterate_genuine els : spec_iterate tags = Ok els -> Forall (genuine tags) els.
  Proof.
    unfold spec_iterate. intros H.
    assert (els = reported tags) by (destruct (elements tags); [discriminate | congruence]).
    subst els. apply Forall_forall. intros e He. apply reported_genuine; assumption.
  Qed.
End Handlers.

(* ---------- bit tests ---------- *)
Lemma land_pow2_testbit a k : 0 <= k -> (Z.land a (2 ^ k) =? 0) = negb (Z.testbit a k).
Proof.
  intros Hk.
  assert (H : Z.land a (2 ^ k) = if Z.testbit a k then 2 ^ k else 0).
  { apply Z.bits_inj'. intros n Hn. rewrite Z.land_spec, Z.pow2_bits_eqb by lia.
    destruct (k =? n) eqn:E.
    - apply Z.eqb_eq in E. subst n. rewrite andb_true_r.
      destruct (Z.testbit a k); [rewrite Z.pow2_bits_true by lia; reflexivity | rewrite Z.bits_0; reflexivity].
    - rewrite andb_false_r. destruct (Z.testbit a k); [|rewrite Z.bits_0; reflexivity].
      rewrite Z.pow2_bits_false by lia. reflexivity. }
  rewrite H. destruct (Z.testbit a k); [|reflexivity].
  pose proof (Z.pow_pos_nonneg 2 k ltac:(lia) Hk). cbn [negb]. lia.
Qed.

(* ---------- the parsers ---------- *)
Lemma is_mgmt_exact f st : frame_ok f -> is_mgmt_subtype f st = s_is f st.
Proof.
  intros (Hb & Hfc & Hl & Hh & Hlen). unfold is_mgmt_subtype, s_is.
  destruct (f_fc f) as [|fc0 [|fc1 [|x y]]] eqn:E;
    try (exfalso; rewrite ?zlen_cons, ?zlen_nil in Hl; pose proof (zlen_nonneg y); lia);
    try (exfalso; rewrite ?zlen_cons, ?zlen_nil in Hl; lia).
  inversion Hfc as [|? ? H0 Hr]; subst. inversion Hr as [|? ? H1 _]; subst.
  destruct (fc_ok fc0 fc1 H0 H1) as (Ht & Hs & _). unfold byte in *. rewrite Ht, Hs. reflexivity.
Qed.

Lemma parse_bss_kind_exact f st fixed cap_off all : frame_ok f -> 0 <= cap_off -> cap_off + 2 <= fixed ->
  parse_bss_kind f st fixed cap_off all = Done (s_parse_bss f st fixed cap_off all).
Proof.
  intros Hok Hc0 Hc1. pose proof Hok as (Hb & Hfc & Hl & Hh & Hlen).
  unfold parse_bss_kind, s_parse_bss. rewrite (is_mgmt_exact f st Hok).
  destruct (negb (s_is f st)); [reflexivity|].
  rewrite Hlen.
  destruct (f_header_len f + zlen (f_body f) <=? f_header_len f + fixed) eqn:C1.
  { destruct (zlen (f_body f) <? fixed + 2) eqn:C2; [reflexivity|lia]. }
  destruct (f_header_len f + zlen (f_body f) <? f_header_len f + fixed + 2) eqn:C3.
  { destruct (zlen (f_body f) <? fixed + 2) eqn:C2; [reflexivity|lia]. }
  destruct (zlen (f_body f) <? fixed + 2) eqn:C2; [lia|].
  rewrite (rd_le16 (f_body f) (rd_strict (f_body f)) (agrees_strict _)) by lia. cbn [bind].
  change c_CAPABILITIES_PRIVACY with 4. rewrite land_pow2_testbit by lia.
  set (tags := zskipn fixed (f_body f)).
  assert (Hwt : wfbytes tags) by (apply wfbytes_skipn; exact Hb).
  unfold run_bss. cbv zeta. rewrite (iterate_tags tags Hwt). cbn [bind].
  destruct (spec_iterate tags) as [els|c] eqn:EI; [|reflexivity].
  rewrite (bss_elems_exact tags Hwt) by (apply spec_iterate_genuine; assumption).
  unfold sec_of. cbn [b_enc b_wps b_rsn b_wpa b_ssid b_hidden b_channel].
  change c_WEP with F_WEP.
  replace (if negb (Z.testbit (le16 (f_body f) cap_off) 4) then 0 else F_WEP)
    with (if Z.testbit (le16 (f_body f) cap_off) 4 then F_WEP else 0)
    by (destruct (Z.testbit _ 4); reflexivity).
  destruct (s_security tags els _) as [x|]; [|reflexivity].
  reflexivity.
Qed.

Lemma bss_parsers_exact : forall f, frame_ok f ->
  parse_beacon f = Done (s_parse_beacon f) /\ parse_probe_resp f = Done (s_parse_probe_resp f) /\
  parse_assoc_resp f = Done (s_parse_assoc_resp f) /\ parse_reassoc_resp f = Done (s_parse_reassoc_resp f).
Proof.
  intros f Hok. repeat split.
  - apply (parse_bss_kind_exact f 8 12 10 true Hok); lia.
  - apply (parse_bss_kind_exact f 5 12 10 true Hok); lia.
  - apply (parse_bss_kind_exact f 1 6 0 true Hok); lia.
  - apply (parse_bss_kind_exact f 3 6 0 true Hok); lia.
Qed.

Lemma parse_sta_kind_exact f st fixed need : frame_ok f -> 0 <= fixed -> need = (0 <? fixed) ->
  parse_sta_kind f st fixed need = Done (s_parse_sta f st fixed).
Proof.
  intros Hok Hf0 Hneed. pose proof Hok as (Hb & Hfc & Hl & Hh & Hlen).
  unfold parse_sta_kind, s_parse_sta. rewrite (is_mgmt_exact f st Hok).
  destruct (negb (s_is f st)); [reflexivity|].
  rewrite Hlen. subst need.
  replace (f_header_len f + zlen (f_body f) <=? f_header_len f + fixed)
    with (zlen (f_body f) <=? fixed) by lia.
  destruct ((0 <? fixed) && (zlen (f_body f) <=? fixed)); [reflexivity|].
  set (tags := zskipn fixed (f_body f)).
  assert (Hwt : wfbytes tags) by (apply wfbytes_skipn; exact Hb).
  unfold run_sta. cbv zeta. rewrite (iterate_tags tags Hwt). cbn [bind].
  destruct (spec_iterate tags) as [els|c] eqn:EI; [|reflexivity].
  rewrite (sta_elems_exact tags Hwt) by (apply spec_iterate_genuine; assumption). cbn [bind].
  unfold mk_sta. cbn [s_channel s_randomized s_transmitter s_receiver s_bssid s_ssid s_broadcast_ssid s_tags].
  change 2 with (2 ^ 1) at 1. rewrite land_pow2_testbit by lia.
  change (hdr_addr f A2) with (s_addr f 2). change (hdr_addr f A3) with (s_addr f 3).
  change (hdr_addr f A1) with (s_addr f 1).
  destruct (Z.testbit (znth (s_addr f 2) 0) 1); reflexivity.
Qed.

Lemma sta_parsers_exact : forall f, frame_ok f ->
  parse_probe_req f = Done (s_parse_probe_req f) /\ parse_assoc_req f = Done (s_parse_assoc_req f) /\
  parse_reassoc_req f = Done (s_parse_reassoc_req f).
Proof.
  intros f Hok. repeat split.
  - apply (parse_sta_kind_exact f 4 0 false Hok); [lia|reflexivity].
  - apply (parse_sta_kind_exact f 0 4 true Hok); [lia|reflexivity].
  - apply (parse_sta_kind_exact f 2 10 true Hok); [lia|reflexivity].
Qed.

Lemma parse_reason_kind_exact f st : frame_ok f ->
  parse_reason_kind f st = Done (s_parse_reason f st).
Proof.
  intros Hok. pose proof Hok as (Hb & Hfc & Hl & Hh & Hlen).
  unfold parse_reason_kind, s_parse_reason. rewrite (is_mgmt_exact f st Hok).
  destruct (negb (s_is f st)); [reflexivity|].
  rewrite Hlen.
  replace (f_header_len f + zlen (f_body f) <? f_header_len f + 2) with (zlen (f_body f) <? 2) by lia.
  destruct (zlen (f_body f) <? 2) eqn:C; [reflexivity|].
  rewrite (rd_le16 (f_body f) (rd_strict (f_body f)) (agrees_strict _)) by lia. cbn [bind].
  destruct (f_fc f) as [|fc0 [|fc1 [|x y]]] eqn:E;
    try (exfalso; rewrite ?zlen_cons, ?zlen_nil in Hl; pose proof (zlen_nonneg y); lia);
    try (exfalso; rewrite ?zlen_cons, ?zlen_nil in Hl; lia).
  inversion Hfc as [|? ? H0 Hr]; subst. inversion Hr as [|? ? H1 _]; subst.
  destruct (fc_ok fc0 fc1 H0 H1) as (_ & _ & Ho). unfold byte in *. rewrite Ho.
  destruct (s_ordered fc1); reflexivity.
Qed.

Lemma reason_parsers_exact : forall f, frame_ok f ->
  parse_deauth f = Done (s_parse_reason f 12) /\ parse_disassoc f = Done (s_parse_reason f 10).
Proof.
  intros f Hok. split; apply parse_reason_kind_exact; exact Hok.
Qed.

Lemma other_subtype_refused : forall f st fixed cap all, s_is f st = false ->
  s_parse_bss f st fixed cap all = Err (- EINVAL) /\ s_parse_sta f st fixed = Err (- EINVAL) /\
  s_parse_reason f st = Err (- EINVAL).
Proof.
  intros f st fixed cap all H. unfold s_parse_bss, s_parse_sta, s_parse_reason. rewrite H.
  repeat split; reflexivity.
Qed.

Lemma flag_independent : forall f f', f_fc f = f_fc f' -> f_header f = f_header f' -> f_body f = f_body f' ->
  s_parse_beacon f = s_parse_beacon f' /\ s_parse_probe_resp f = s_parse_probe_resp f' /\
  s_parse_assoc_resp f = s_parse_assoc_resp f' /\ s_parse_reassoc_resp f = s_parse_reassoc_resp f' /\
  s_parse_probe_req f = s_parse_probe_req f' /\ s_parse_assoc_req f = s_parse_assoc_req f' /\
  s_parse_reassoc_req f = s_parse_reassoc_req f' /\ (forall st, s_parse_reason f st = s_parse_reason f' st).
Proof.
  intros f f' H1 H2 H3.
  unfold s_parse_beacon, s_parse_probe_resp, s_parse_assoc_resp, s_parse_reassoc_resp,
    s_parse_probe_req, s_parse_assoc_req, s_parse_reassoc_req, s_parse_bss, s_parse_sta, s_parse_reason,
    s_is, s_addr.
  rewrite H1, H2, H3. repeat split; reflexivity.
Qed.
