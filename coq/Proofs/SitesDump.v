(* Part A of the code-level theorems: the dump routines (C07).
   Theorems about the translated C code itself (Gen/Sites.v, generated from the libwifi sources): every statement below
   is about the terms the translator produced, evaluated with the C integer semantics of Base/CExpr.v, for ALL values in
   the stated ranges.

   A. the dump routines copy exactly [buf, buf + length) when the length fits the caller's buffer and copy nothing otherwise;
   B. the arithmetic of the tag list / action detail editing routines;
   C. guards and lengths, site by site. *)
From Coq Require Import ZArith String List Bool Lia.
From LW Require Import Base.CExpr Gen.Sites Spec.CodeSpec Proofs.SitesLemmas.
Import ListNotations.
Local Open Scope string_scope.
Local Open Scope Z_scope.

(* every statement holds for EVERY memory: none of these routines' translated statements loads from it *)
Section WithMemory.
Variable m : memory.

Ltac nums :=
  change (2 ^ 64) with 18446744073709551616 in *; change (2 ^ 63) with 9223372036854775808 in *;
  change (2 ^ 62) with 4611686018427387904 in *; change (2 ^ 40) with 1099511627776 in *;
  change (2 ^ 32) with 4294967296 in *; change (2 ^ 31) with 2147483648 in *; change (10 ^ 9) with 1000000000 in *.

(* ================================================================ A. dump routines *)

Local Notation dump_ok := (CodeSpec.dump_ok m).

Ltac writes_ok := cbn [writes_from]; repeat split; lia.

Ltac dump_proof len_body dump_body :=
  let Hbuf := fresh "Hbuf" in let Hbl := fresh "Hbl" in let Hend := fresh "Hend" in let Htl := fresh "Htl" in
  let Hgt := fresh "Hgt" in let Hle := fresh "Hle" in
  cbv beta delta [CodeSpec.dump_ok]; intros ? ? ? ? Hbuf Hbl Hend Htl; cbv zeta; nums;
  eexists; split;
  [ unfold len_body; exec_run; cbn [observe]; reflexivity | ];
  unfold dump_body;
  match goal with |- context [if ?L >? ?b then _ else _] => destruct (Z.gtb_spec L b) as [Hgt | Hle] end;
  [ exists []; split; [ exec_run; cbn [observe app]; reflexivity | intros; lia ]
  | eexists; split; [ exec_run; cbn [observe app]; reflexivity | intros _; writes_ok ] ].

Theorem code_dump_beacon :
  dump_ok body_libwifi_get_beacon_length body_libwifi_dump_beacon
          "libwifi_get_beacon_length" "beacon" "beacon->tags.length" (2 ^ 63) (2 ^ 64 - 22).
Proof. dump_proof body_libwifi_get_beacon_length body_libwifi_dump_beacon. Qed.

Theorem code_dump_probe_req :
  dump_ok body_libwifi_get_probe_req_length body_libwifi_dump_probe_req
          "libwifi_get_probe_req_length" "probe_req" "probe_req->tags.length" (2 ^ 63) (2 ^ 64 - 22).
Proof. dump_proof body_libwifi_get_probe_req_length body_libwifi_dump_probe_req. Qed.

Theorem code_dump_probe_resp :
  dump_ok body_libwifi_get_probe_resp_length body_libwifi_dump_probe_resp
          "libwifi_get_probe_resp_length" "probe_resp" "probe_resp->tags.length" (2 ^ 63) (2 ^ 64 - 22).
Proof. dump_proof body_libwifi_get_probe_resp_length body_libwifi_dump_probe_resp. Qed.

Theorem code_dump_assoc_req :
  dump_ok body_libwifi_get_assoc_req_length body_libwifi_dump_assoc_req
          "libwifi_get_assoc_req_length" "assoc_req" "assoc_req->tags.length" (2 ^ 63) (2 ^ 64 - 22).
Proof. dump_proof body_libwifi_get_assoc_req_length body_libwifi_dump_assoc_req. Qed.

Theorem code_dump_assoc_resp :
  dump_ok body_libwifi_get_assoc_resp_length body_libwifi_dump_assoc_resp
          "libwifi_get_assoc_resp_length" "assoc_resp" "assoc_resp->tags.length" (2 ^ 63) (2 ^ 64 - 22).
Proof. dump_proof body_libwifi_get_assoc_resp_length body_libwifi_dump_assoc_resp. Qed.

Theorem code_dump_reassoc_req :
  dump_ok body_libwifi_get_reassoc_req_length body_libwifi_dump_reassoc_req
          "libwifi_get_reassoc_req_length" "reassoc_req" "reassoc_req->tags.length" (2 ^ 63) (2 ^ 64 - 22).
Proof. dump_proof body_libwifi_get_reassoc_req_length body_libwifi_dump_reassoc_req. Qed.

Theorem code_dump_reassoc_resp :
  dump_ok body_libwifi_get_reassoc_resp_length body_libwifi_dump_reassoc_resp
          "libwifi_get_reassoc_resp_length" "reassoc_resp" "reassoc_resp->tags.length" (2 ^ 63) (2 ^ 64 - 22).
Proof. dump_proof body_libwifi_get_reassoc_resp_length body_libwifi_dump_reassoc_resp. Qed.

Theorem code_dump_auth :
  dump_ok body_libwifi_get_auth_length body_libwifi_dump_auth
          "libwifi_get_auth_length" "auth" "auth->tags.length" (2 ^ 63) (2 ^ 64 - 22).
Proof. dump_proof body_libwifi_get_auth_length body_libwifi_dump_auth. Qed.

Theorem code_dump_deauth :
  dump_ok body_libwifi_get_deauth_length body_libwifi_dump_deauth
          "libwifi_get_deauth_length" "deauth" "deauth->tags.length" (2 ^ 63) (2 ^ 64 - 22).
Proof. dump_proof body_libwifi_get_deauth_length body_libwifi_dump_deauth. Qed.

Theorem code_dump_disassoc :
  dump_ok body_libwifi_get_disassoc_length body_libwifi_dump_disassoc
          "libwifi_get_disassoc_length" "disassoc" "disassoc->tags.length" (2 ^ 63) (2 ^ 64 - 22).
Proof. dump_proof body_libwifi_get_disassoc_length body_libwifi_dump_disassoc. Qed.

(* the timing advertisement routine reports the short buffer as -1, not -EINVAL *)
Theorem code_dump_timing_advert :
  dump_ok body_libwifi_get_timing_advert_length body_libwifi_dump_timing_advert
          "libwifi_get_timing_advert_length" "adv" "adv->tags.length" (2 ^ 63) (2 ^ 64 - 1).
Proof. dump_proof body_libwifi_get_timing_advert_length body_libwifi_dump_timing_advert. Qed.

(* the payload of an action frame is the detail, whose length is one octet *)
Theorem code_dump_action :
  dump_ok body_libwifi_get_action_length body_libwifi_dump_action
          "libwifi_get_action_length" "action" "action->fixed_parameters.details.detail_length" 256 (2 ^ 64 - 22).
Proof. dump_proof body_libwifi_get_action_length body_libwifi_dump_action. Qed.

Theorem code_dump_tag rho buf bl tl :
  0 <= buf -> 0 <= bl -> buf + bl < 2 ^ 63 -> 0 <= tl < 256 ->
  let rho0 := upd (upd (upd rho "buf" buf) "buf_len" bl) "tag->header.tag_len" tl in
  exists tr,
    observe (exec 60 m rho0 [] body_libwifi_dump_tag) =
      (if 2 + tl >? bl then Some (Some (2 ^ 64 - 22), []) else Some (Some (2 + tl), tr)) /\
    (2 + tl <= bl -> writes_from buf tr (buf + 2 + tl)).
Proof.
  intros Hbuf Hbl Hend Htl rho0; nums. unfold body_libwifi_dump_tag, rho0.
  destruct (Z.gtb_spec (2 + tl) bl) as [Hgt | Hle].
  - exists []. split; [ exec_run; cbn [observe app]; reflexivity | intros; lia ].
  - eexists. split; [ exec_run; cbn [observe app]; reflexivity | intros _; writes_ok ].
Qed.

(* Remark: the bound on the payload length matters.  2^63 is generous; what the routines need is that header + fixed
   parameters + payload does not wrap around 2^64.  With beacon->tags.length = 2^64 - 36 the length routine answers 0,
   the guard passes for an empty buffer, and the copies start anyway (24 octets at buf, 12 at buf + 24, ...). *)
Example code_dump_length_wraps :
  let rho0 := upd (upd (upd (fun _ => 0) "buf" 4096) "buf_len" 0) "beacon->tags.length" (2 ^ 64 - 36) in
  observe (exec 10 m rho0 [] body_libwifi_get_beacon_length) = Some (Some 0, []) /\
  observe (exec 60 m (upd rho0 "ret:libwifi_get_beacon_length" 0) [] body_libwifi_dump_beacon) =
    Some (Some 0, [("libwifi_get_beacon_length", [0]); ("memcpy", [4096; 0; 24]); ("memcpy", [4120; 0; 12]);
                   ("memcpy", [4132; 0; 2 ^ 64 - 36])]).
Proof. split; vm_compute; reflexivity. Qed.


End WithMemory.

Print Assumptions code_dump_beacon.
Print Assumptions code_dump_probe_req.
Print Assumptions code_dump_probe_resp.
Print Assumptions code_dump_assoc_req.
Print Assumptions code_dump_assoc_resp.
Print Assumptions code_dump_reassoc_req.
Print Assumptions code_dump_reassoc_resp.
Print Assumptions code_dump_auth.
Print Assumptions code_dump_deauth.
Print Assumptions code_dump_disassoc.
Print Assumptions code_dump_timing_advert.
Print Assumptions code_dump_action.
Print Assumptions code_dump_tag.
Print Assumptions code_dump_length_wraps.
