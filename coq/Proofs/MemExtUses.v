(* Proofs/MemExt.v composed with finished code-level theorems: each of them was proved with ONLY the buffer readable ([mem_at a buf]);
   here the same conclusion, word for word, in ANY memory M that holds the buffer at that address ([mem_agrees M a buf]) - whatever
   else M holds before, after or far from the buffer.  No body is run again: each proof is the original theorem followed by
   [exec_any_surroundings] / [observe_any_surroundings]. *)
From Coq Require Import ZArith String List Bool Lia.
From LW Require Import Base.Bytes Base.CExpr Gen.Sites Spec.CodeSpec Proofs.SitesLemmas Proofs.MemExt.
From LW Require Import Model.TagIter Model.CRC Model.Frame Model.Eapol.
From LW Require Import Proofs.CodeIter Proofs.CodeCRC Proofs.CodeFrame Proofs.CodeEapol.
Import ListNotations.
Local Open Scope string_scope.
Local Open Scope Z_scope.

(* ---------------------------------------------------------------- 1. tag iterator, init (one branch through observe, one an exists) *)
Theorem code_tag_iterator_init_any_surroundings M buf start rho :
  mem_agrees M start buf ->
  wfbytes buf -> 0 <= start -> start + zlen buf < 2 ^ 62 ->
  let rho0 := upd (upd rho "tags_start" start) "data_len" (zlen buf) in
  let run := exec 30 M rho0 [] body_libwifi_tag_iterator_init in
  match tag_init (rd_strict buf) (zlen buf) with
  | Done (Err c) => observe run = Some (Some c, [])
  | Done (Ok it) =>
      exists rho1, run = Returned (Some 0) rho1 [] /\
        rho1 "it->tag_header" = start + it_hdr it /\ rho1 "it->tag_data" = start + it_data it /\
        rho1 "it->_next_tag_header" = start + it_next it /\ rho1 "it->_frame_end" = start + it_end it
  | _ => False
  end.
Proof.
  intros Hag Hwf Hs Hend rho0 run. subst rho0 run.
  pose proof (code_tag_iterator_init_refines buf start rho Hwf Hs Hend) as H. cbv zeta in H.
  destruct (tag_init (rd_strict buf) (zlen buf)) as [[it | c] | | ]; try exact H.
  - destruct H as (rho1 & Hrun & Hf). exists rho1. split; [ | exact Hf ].
    exact (exec_any_surroundings M start buf _ _ _ _ _ Hag Hrun I).
  - exact (observe_any_surroundings M start buf _ _ _ _ _ Hag H).
Qed.

(* ---------------------------------------------------------------- 2. tag iterator, next *)
Theorem code_tag_iterator_next_any_surroundings M buf start rho it :
  mem_agrees M start buf ->
  wfbytes buf -> 0 < start -> start + zlen buf < 2 ^ 62 ->
  0 <= it_next it < 2 ^ 62 -> -1 <= it_end it < zlen buf ->
  let run := exec 30 M (it_env rho start it) [] body_libwifi_tag_iterator_next in
  match tag_next (rd_strict buf) it with
  | Done (it', r) =>
      exists rho1, run = Returned (Some (match r with None => -1 | Some n => n end)) rho1 [] /\ it_fields rho1 start it'
  | _ => False
  end.
Proof.
  intros Hag Hwf Hs Hend Hnext Hfe run. subst run.
  pose proof (code_tag_iterator_next_refines buf start rho it Hwf Hs Hend Hnext Hfe) as H. cbv zeta in H.
  destruct (tag_next (rd_strict buf) it) as [[it' r] | | ]; try exact H.
  destruct H as (rho1 & Hrun & Hf). exists rho1. split; [ | exact Hf ].
  exact (exec_any_surroundings M start buf _ _ _ _ _ Hag Hrun I).
Qed.

(* ---------------------------------------------------------------- 3. crc32 (a loop; the fuel depends on the message) *)
Theorem code_crc32_any_surroundings M msg start rho :
  mem_agrees M start msg ->
  wfbytes msg -> 0 < start -> start + zlen msg < 2 ^ 62 -> zlen msg < 2 ^ 31 ->
  observe (exec (60 * length msg + 60) M (upd (upd rho "message" start) "message_len" (zlen msg)) []
                body_libwifi_crc32) = Some (Some (crc32_list msg), []).
Proof.
  intros Hag Hwf Hs Hend Hlen.
  exact (observe_any_surroundings M start msg _ _ _ _ _ Hag (code_crc32_refines msg start rho Hwf Hs Hend Hlen)).
Qed.

(* ---------------------------------------------------------------- 4. libwifi_get_wifi_frame (switch, inlined calls, allocator) *)
(* [frame_run] of Proofs/CodeFrame.v with the memory as a parameter *)
Definition frame_run_in (M : memory) (buf : list byte) (a : Z) (rho : env) : xresult :=
  exec 40 M (upd (upd (upd rho "frame" a) "frame_len" (zlen buf)) "radiotap" 0) [] body_libwifi_get_wifi_frame.

Lemma frame_run_in_mem_at buf a rho : frame_run_in (mem_at a buf) buf a rho = frame_run buf a rho.
Proof. unfold frame_run_in, frame_run. reflexivity. Qed.

(* as an equation to rewrite with: unfolding [frame_run] in a hypothesis leaves a conversion between the constant and [exec 40 ...] that the
   kernel decides by running the body; a rewrite does not *)
Lemma frame_run_in_unfold M buf a rho :
  frame_run_in M buf a rho =
  exec 40 M (upd (upd (upd rho "frame" a) "frame_len" (zlen buf)) "radiotap" 0) [] body_libwifi_get_wifi_frame.
Proof. unfold frame_run_in. reflexivity. Qed.

Theorem code_get_wifi_frame_plain_ret_any_surroundings M buf a rho :
  mem_agrees M a buf ->
  wfbytes buf -> 0 < a -> a + zlen buf < 2 ^ 62 -> 0 <= rho "ret:malloc" < 2 ^ 62 ->
  exists v tr,
    observe (frame_run_in M buf a rho) = Some (Some v, tr) /\
    (v = -22 <-> frame_refused buf) /\ (v = -22 -> tr = [frame_memset rho]) /\ (v = -22 \/ v = -12 \/ v = 0) /\
    copies_inside a (a + zlen buf) tr.
Proof.
  intros Hag Hwf Ha Hend Hq.
  destruct (code_get_wifi_frame_plain_ret buf a rho Hwf Ha Hend Hq) as (v & tr & Hobs & Hrest).
  exists v, tr. split; [ | exact Hrest ].
  rewrite <- (frame_run_in_mem_at buf a rho) in Hobs.
  rewrite frame_run_in_unfold in Hobs. rewrite frame_run_in_unfold.
  exact (observe_any_surroundings M a buf _ _ _ _ _ Hag Hobs).
Qed.

(* ---------------------------------------------------------------- 5. EAPOL: libwifi_check_wpa_handshake (multi-octet loads) *)
Theorem code_check_wpa_handshake_any_surroundings M b a hl ty rho :
  mem_agrees M a b ->
  wfbytes b -> 0 < a -> a + zlen b < 2 ^ 62 -> hl = 24 \/ hl = 26 -> 0 <= ty <= 3 ->
  let len := hl + zlen b in
  let mc := wrap s32 (rho "ret:memcmp") in
  observe (exec 30 M (frame_env rho ty len hl a) [] body_libwifi_check_wpa_handshake) =
    Some (Some (if hs_accepts b ty hl len mc then 1 else -22), hs_trace rho b a ty hl len mc).
Proof.
  intros Hag Hwf Ha Hend Hhl Hty len mc. subst len mc.
  pose proof (code_check_wpa_handshake b a hl ty rho Hwf Ha Hend Hhl Hty) as H. cbv zeta in H.
  eapply observe_any_surroundings; [ exact Hag | exact H ].
Qed.

(* ---------------------------------------------------------------- an instance: the buffer in the middle of a larger one *)
(* e.g. the tagged parameters inside a whole frame, itself inside a capture: the bytes before and after are readable and arbitrary *)
Lemma mem_agrees_middle a pre buf post : mem_agrees (mem_at (a - zlen pre) (pre ++ buf ++ post)) a buf.
Proof.
  intros i Hi. pose proof (zlen_nonneg pre) as Hp. pose proof (zlen_nonneg post) as Hq.
  replace (a + i) with (a - zlen pre + (zlen pre + i)) by lia.
  rewrite mem_at_in by (rewrite !zlen_app; lia).
  f_equal. unfold znth, zlen in *.
  rewrite app_nth2 by lia. rewrite app_nth1 by lia. f_equal. lia.
Qed.

Corollary code_crc32_inside_larger_buffer pre msg post start rho :
  wfbytes msg -> 0 < start -> start + zlen msg < 2 ^ 62 -> zlen msg < 2 ^ 31 ->
  observe (exec (60 * length msg + 60) (mem_at (start - zlen pre) (pre ++ msg ++ post))
                (upd (upd rho "message" start) "message_len" (zlen msg)) [] body_libwifi_crc32) = Some (Some (crc32_list msg), []).
Proof. intros. apply code_crc32_any_surroundings; try assumption. apply mem_agrees_middle. Qed.

Print Assumptions code_tag_iterator_init_any_surroundings.
Print Assumptions code_tag_iterator_next_any_surroundings.
Print Assumptions code_crc32_any_surroundings.
Print Assumptions code_get_wifi_frame_plain_ret_any_surroundings.
Print Assumptions code_check_wpa_handshake_any_surroundings.
Print Assumptions code_crc32_inside_larger_buffer.
