(* The frame generators AS TRANSLATED from src/libwifi/gen (Gen/Sites.v: the body_libwifi_create_... lists) store exactly their arguments
   and the protocol's constants.  For EVERY environment rho (nothing is assumed about the prior contents "obj->..." of the
   object: the zeroing makes them irrelevant), every argument in its C type's range and every callee answer:
   - the run is never stuck; its first event is memset(obj, 0, sizeof *obj), the size being Gen/Layout.v's;
   - the addresses are copied from the stated arguments into addr1, addr2, addr3 in that order;
   - in the final environment type / subtype are Gen/Consts.v's enumerators, every assigned fixed parameter is the argument or
     the documented default, and every other member of the object reads 0 ([untouched]: every lvalue text under "obj->" that is
     neither assigned nor under a member handed to memcpy / libwifi_quick_add_tag; [reads_zero] spells it out for the
     header's version, flags, duration and sequence control);
   - the tag-carrying routines call libwifi_quick_add_tag in the order and with the numbers / lengths of the body, a non-zero
     answer is returned at once with no later call; the object's tags read 0 when the first add is made.
   Sections: 1 environments, the frame statement by reflection, the apply-style runner; 2 the routines without tags (action,
   action no-ack, ATIM, authentication, deauthentication, disassociation, RTS, CTS); 3 the routines that add their tags
   themselves (association / probe / reassociation request); 4 those that go through the setters (beacon, probe response,
   association / reassociation response); 5 the six setters; 6 the timing advertisement; 7 the ATIM addresses on concrete values.
   DEVIATIONS stated where they occur: ATIM copies [transmitter] into addr1 and [receiver] into addr2; the reassociation
   response adds no supported-rates element; association id is left 0 in both responses.
   Conventions as in Proofs/SitesTags.v: arguments are put in the environment with [upd], pointers appear in the trace as
   [wrap u64 (rho "name")], a callee's answer is the environment's "ret:<callee>" (one name per callee: see section 3). *)
From Coq Require Import ZArith String Ascii List Bool Lia.
From LW Require Import Base.CExpr Gen.Consts Gen.Layout Gen.Sites Proofs.SitesLemmas.
Import ListNotations.
Local Open Scope string_scope.
Local Open Scope Z_scope.

(* ---------------------------------------------------------------- 1. environments built by upd / zeroed / clobber *)
Lemma upd_other R x v y : String.eqb y x = false -> upd R x v y = R y.
Proof. intros H. unfold upd. rewrite H. reflexivity. Qed.
Lemma clobber_other R n x y : String.prefix x y = false -> clobber R n x y = R y.
Proof. intros H. unfold clobber. rewrite H. reflexivity. Qed.
Lemma zeroed_in R x y : String.prefix x y = true -> zeroed R x y = 0.
Proof. intros H. unfold zeroed. rewrite H. reflexivity. Qed.
Lemma prefix_neq p y x : String.prefix p y = true -> String.prefix p x = false -> String.eqb y x = false.
Proof. intros Hy Hx. destruct (String.eqb_spec y x) as [E | N]; [subst; congruence | reflexivity]. Qed.

(* every lvalue text under [obj] that is not one of [assigned] and not under one of [clobbered] reads 0 *)
Definition untouched (obj : string) (assigned clobbered : list string) (rho' : env) : Prop :=
  forall y, String.prefix obj y = true ->
            existsb (String.eqb y) assigned = false ->
            existsb (fun c => String.prefix c y) clobbered = false -> rho' y = 0.

Definition reads_zero (rho' : env) (pre : string) (l : list string) : Prop := Forall (fun s => rho' (pre ++ s) = 0) l.

(* the members of the management header no generator assigns, and of the control header *)
Definition ctrl_rest : list string :=
  ["frame_control.version"; "frame_control.flags.to_ds"; "frame_control.flags.from_ds"; "frame_control.flags.more_frags";
   "frame_control.flags.retry"; "frame_control.flags.power_mgmt"; "frame_control.flags.more_data"; "frame_control.flags.protect";
   "frame_control.flags.ordered"].
Definition mgmt_rest : list string := ctrl_rest ++ ["duration"; "seq_control.fragment_number"; "seq_control.sequence_number"].

(* the events *)
Definition ev_memset (rho : env) (obj : string) (size : Z) : event := ("memset", [wrap u64 (rho obj); 0; size]).
Definition ev_memcpy (rho : env) (dst src : string) (n : Z) : event := ("memcpy", [wrap u64 (rho dst); wrap u64 (rho src); n]).
Definition ev_add_tag (rho : env) (tags : string) (num : Z) (data : string) (len : Z) : event :=
  ("libwifi_quick_add_tag", [wrap u64 (rho tags); num; wrap u64 (rho data); len]).
(* zeroing, then the three addresses in header order *)
Definition mgmt_events (rho : env) (obj : string) (size : Z) (a1 a2 a3 : string) : list event :=
  [ev_memset rho obj size;
   ev_memcpy rho ("&" ++ obj ++ "->frame_header.addr1") a1 6;
   ev_memcpy rho ("&" ++ obj ++ "->frame_header.addr2") a2 6;
   ev_memcpy rho ("&" ++ obj ++ "->frame_header.addr3") a3 6].

(* ---------------------------------------------------------------- the frame statement, by reflection on the layers
   of the final environment *)
Inductive eop := OU (x : string) (v : Z) | OC (n : nat) (x : string) | OZ (x : string).
Fixpoint build (ops : list eop) (rho : env) : env :=
  match ops with
  | [] => rho
  | OU x v :: r => upd (build r rho) x v
  | OC n x :: r => clobber (build r rho) n x
  | OZ x :: r => zeroed (build r rho) x
  end.
(* two prefixes of one string are comparable *)
Lemma prefix_comparable : forall p c y, String.prefix p y = true -> String.prefix c y = true ->
  String.prefix p c = true \/ String.prefix c p = true.
Proof.
  induction p as [ | a p IH]; intros c y Hp Hc; [left; destruct c; reflexivity | ].
  destruct c as [ | b c]; [right; reflexivity | ].
  destruct y as [ | d y]; [cbn in Hp; discriminate | ].
  cbn [String.prefix] in *.
  destruct (ascii_dec a d) as [E1 | N1]; [ | discriminate]. destruct (ascii_dec b d) as [E2 | N2]; [ | discriminate].
  subst a b. destruct (ascii_dec d d) as [E | N]; [ | contradiction]. apply IH with y; assumption.
Qed.

(* outermost layer first: an assignment is to a listed name or to a name outside the object, a clobber is of a listed member
   or of a name that neither contains the object's prefix nor is contained in it (a local), and the zeroing of the object is
   reached *)
Fixpoint frame_ok (obj : string) (assigned clobbered : list string) (ops : list eop) : bool :=
  match ops with
  | [] => false
  | OU x _ :: r => (existsb (String.eqb x) assigned || negb (String.prefix obj x)) && frame_ok obj assigned clobbered r
  | OC _ x :: r => (existsb (String.eqb x) clobbered || (negb (String.prefix x obj) && negb (String.prefix obj x)))
                   && frame_ok obj assigned clobbered r
  | OZ x :: _ => String.eqb x obj
  end.

Lemma existsb_false_at {A} (f : A -> bool) l x : existsb f l = false -> In x l -> f x = false.
Proof.
  intros H HIn. destruct (f x) eqn:E; [ | reflexivity].
  assert (existsb f l = true) by (apply existsb_exists; exists x; split; assumption). congruence.
Qed.

Lemma build_untouched obj a c ops rho : frame_ok obj a c ops = true -> untouched obj a c (build ops rho).
Proof.
  induction ops as [ | op ops IH]; intros H; [discriminate | ].
  intros y Hp Ha Hc. destruct op as [x v | n x | x]; cbn [frame_ok build] in *.
  - apply andb_prop in H. destruct H as [H1 H2]. rewrite upd_other; [apply IH; assumption | ].
    apply orb_prop in H1. destruct H1 as [H1 | H1].
    + apply existsb_exists in H1. destruct H1 as (x' & HIn & E). apply String.eqb_eq in E. subst x'.
      exact (existsb_false_at _ _ _ Ha HIn).
    + apply (prefix_neq obj); [exact Hp | ]. destruct (String.prefix obj x); [discriminate | reflexivity].
  - apply andb_prop in H. destruct H as [H1 H2]. rewrite clobber_other; [apply IH; assumption | ].
    apply orb_prop in H1. destruct H1 as [H1 | H1].
    + apply existsb_exists in H1. destruct H1 as (x' & HIn & E). apply String.eqb_eq in E. subst x'.
      exact (existsb_false_at _ _ _ Hc HIn).
    + apply andb_prop in H1. destruct H1 as [A B].
      destruct (String.prefix x y) eqn:E; [ | reflexivity].
      destruct (prefix_comparable x obj y E Hp) as [C | C]; rewrite C in *; discriminate.
  - apply String.eqb_eq in H. subst x. apply zeroed_in. exact Hp.
Qed.

Definition free_name (obj : string) (a c : list string) (y : string) : bool :=
  String.prefix obj y && negb (existsb (String.eqb y) a) && negb (existsb (fun p => String.prefix p y) c).
Lemma untouched_at obj a c rho' y : untouched obj a c rho' -> free_name obj a c y = true -> rho' y = 0.
Proof.
  intros H Hf. unfold free_name in Hf. apply andb_prop in Hf. destruct Hf as [Hf H3]. apply andb_prop in Hf. destruct Hf as [H1 H2].
  apply H; [exact H1 | | ].
  - destruct (existsb (String.eqb y) a); [discriminate | reflexivity].
  - destruct (existsb (fun p => String.prefix p y) c); [discriminate | reflexivity].
Qed.
Lemma untouched_reads_zero obj a c rho' pre l :
  untouched obj a c rho' -> forallb (fun s => free_name obj a c (pre ++ s)) l = true -> reads_zero rho' pre l.
Proof.
  intros H Hl. unfold reads_zero. apply Forall_forall. intros s HIn.
  apply (untouched_at obj a c); [exact H | ]. rewrite forallb_forall in Hl. exact (Hl s HIn).
Qed.

Ltac env_base R :=
  lazymatch R with
  | upd ?R' _ _ => env_base R' | clobber ?R' _ _ => env_base R' | zeroed ?R' _ => env_base R' | _ => R
  end.
Ltac env_ops R :=
  lazymatch R with
  | upd ?R' ?x ?v => let l := env_ops R' in constr:(OU x v :: l)
  | clobber ?R' ?n ?x => let l := env_ops R' in constr:(OC n x :: l)
  | zeroed ?R' ?x => let l := env_ops R' in constr:(OZ x :: l)
  | _ => constr:(@nil eop)
  end.
Ltac frame_solve :=
  lazymatch goal with
  | |- untouched ?o ?a ?c ?R =>
      let ops := env_ops R in let b := env_base R in
      change (untouched o a c (build ops b)); apply build_untouched; vm_compute; reflexivity
  end.

(* ---------------------------------------------------------------- running a body: goals of the shape [exec f m rho tr l = o]
   are reduced by APPLYING one lemma per statement (no rewriting: the proof terms stay small); the trace is kept a flat list
   and the index of a clobber a numeral *)
Lemma exec_set_eq f m rho tr k x e r v o :
  ceval rho m e = Some v -> exec f m (upd rho x v) tr r = o -> exec (S f) m rho tr (SSet k x e :: r) = o.
Proof. intros H <-. apply exec_set. exact H. Qed.
Lemma exec_call_eq f m rho tr k g args r vs tr' o :
  evals rho m args = Some vs -> (tr ++ [(g, vs)])%list = tr' -> exec f m rho tr' r = o -> exec (S f) m rho tr (SCall k g args :: r) = o.
Proof. intros H <- <-. apply exec_call. exact H. Qed.
Lemma exec_zero_eq f m rho tr x r o : exec f m (zeroed rho x) tr r = o -> exec (S f) m rho tr (SZero x :: r) = o.
Proof. intros <-. reflexivity. Qed.
Lemma exec_clobber_eq f m rho tr x r n o :
  List.length tr = n -> exec f m (clobber rho n x) tr r = o -> exec (S f) m rho tr (SClobber x :: r) = o.
Proof. intros <- <-. reflexivity. Qed.
Lemma exec_ret_eq f m rho tr k e r v o :
  ceval rho m e = Some v -> Returned (Some v) rho tr = o -> exec (S f) m rho tr (SRet k (Some e) :: r) = o.
Proof. intros H <-. apply exec_ret. exact H. Qed.
Lemma exec_nil_eq f m rho tr o : Fell rho tr = o -> exec (S f) m rho tr [] = o.
Proof. intros <-. reflexivity. Qed.
Lemma exec_break_eq f m rho tr r o : Broke rho tr = o -> exec (S f) m rho tr (SBreak :: r) = o.
Proof. intros <-. reflexivity. Qed.
Lemma exec_if_eq (bb : bool) f m rho tr k c a b r o1 o :
  ceval rho m c = Some (b2z bb) -> exec f m rho tr (if bb then a else b) = o1 ->
  match o1 with Fell rho' tr' => exec f m rho' tr' r | o' => o' end = o ->
  exec (S f) m rho tr (SIf k c a b :: r) = o.
Proof. intros H H1 H2. rewrite (exec_if_gen f m rho tr k c a b r bb H), H1, <- H2. destruct o1; reflexivity. Qed.
Lemma exec_switch_eq f m rho tr k e cases default r v o1 o :
  ceval rho m e = Some v -> exec f m rho tr (pick_case v cases default) = o1 ->
  match o1 with Fell rho' tr' => exec f m rho' tr' r | Broke rho' tr' => exec f m rho' tr' r | o' => o' end = o ->
  exec (S f) m rho tr (SSwitch k e cases default :: r) = o.
Proof. intros H H1 H2. rewrite (exec_switch f m rho tr k e cases default r v H), H1, <- H2. destruct o1; reflexivity. Qed.

Lemma wrap_u64_idem v : wrap (mkty false 64) (wrap (mkty false 64) v) = wrap (mkty false 64) v.
Proof.
  apply wrap_u64_id. unfold wrap, modulus; cbn [c_signed c_bits]. change (2 ^ 64) with 18446744073709551616.
  apply Z.mod_pos_bound. lia.
Qed.

(* evaluation: the evaluator and the environment layers are computed (String.prefix included), wrap / arith stay folded *)
Ltac gen_eval :=
  cbv beta iota zeta delta [ceval evals binop c_bits c_signed upd zeroed clobber String.eqb Ascii.eqb Bool.eqb String.append
                            String.prefix Ascii.ascii_dec Bool.bool_dec sumbool_rec sumbool_rect Ascii.ascii_rec Ascii.ascii_rect
                            bool_rec bool_rect u8 s8 u16 s16 u32 s32 u64 s64];
  wrap_ids; rewrite ?wrap_u64_idem.
Ltac gen_env :=
  cbv beta iota zeta delta [upd zeroed clobber String.eqb Ascii.eqb Bool.eqb String.append
                            String.prefix Ascii.ascii_dec Bool.bool_dec sumbool_rec sumbool_rect Ascii.ascii_rec Ascii.ascii_rect
                            bool_rec bool_rect].
Ltac gen_cond := gen_eval; decide_bools; reflexivity.
(* a conditional (a switch) whose condition (value) the context does not decide ends the run when the outcome is still open
   (an evar: [reflexivity] records the state reached) and is an error otherwise; once a branch is chosen a later failure is
   not hidden by the other alternatives ([first] commits) *)
Ltac grun :=
  lazymatch goal with
  | |- exec _ _ _ _ (SSet _ _ _ :: _) = _ => eapply exec_set_eq; [gen_eval; reflexivity | grun]
  | |- exec _ _ _ _ (SCall _ _ _ :: _) = _ => eapply exec_call_eq; [gen_eval; reflexivity | cbn [app]; reflexivity | grun]
  | |- exec _ _ _ _ (SZero _ :: _) = _ => apply exec_zero_eq; grun
  | |- exec _ _ _ _ (SClobber _ :: _) = _ => eapply exec_clobber_eq; [cbn [List.length]; reflexivity | grun]
  | |- exec _ _ _ _ (SRet _ (Some _) :: _) = _ => eapply exec_ret_eq; [gen_eval; reflexivity | reflexivity]
  | |- exec _ _ _ _ (SBreak :: _) = _ => apply exec_break_eq; reflexivity
  | |- exec _ _ _ _ [] = _ => apply exec_nil_eq; reflexivity
  | |- exec _ _ _ _ (SIf _ _ _ _ :: _) = _ =>
      first [ eapply (exec_if_eq true); [solve [gen_cond] | | ]
            | eapply (exec_if_eq false); [solve [gen_cond] | | ]
            | reflexivity ];
      [> (cbv beta iota; grun) .. ]
  | |- exec _ _ _ _ (SSwitch _ _ _ _ :: _) = _ =>
      first [ eapply exec_switch_eq;
              [ gen_eval; reflexivity
              | cbv beta iota delta [pick_case existsb]; decide_bools; cbn [orb]; cbv beta iota;
                lazymatch goal with |- exec _ _ _ _ (if _ then _ else _) = _ => fail | _ => idtac end
              | ]
            | reflexivity ];
      [> (cbv beta iota; grun) .. ]
  | |- Returned _ _ _ = _ => reflexivity
  | |- Fell _ _ = _ => reflexivity
  | |- Broke _ _ = _ => reflexivity
  end.
(* the part of the run the context decides, once for all the cases that follow *)
Ltac gen_prefix :=
  lazymatch goal with
  | |- context [exec ?F ?mm ?R ?T ?B] =>
      let H := fresh "Hpre" in eassert (H : exec F mm R T B = _) by grun; rewrite H; clear H
  end.
Ltac gen_observe :=
  lazymatch goal with
  | |- observe ?E = _ => let H := fresh "Hrun" in eassert (H : E = _) by grun; rewrite H; clear H; reflexivity
  end.

Ltac nums :=
  change (2 ^ 64) with 18446744073709551616 in *; change (2 ^ 63) with 9223372036854775808 in *;
  change (2 ^ 32) with 4294967296 in *; change (2 ^ 31) with 2147483648 in *.

Ltac gen_fields :=
  lazymatch goal with
  | |- context [untouched ?o ?a ?c ?R] =>
      let Hu := fresh "Hu" in
      assert (Hu : untouched o a c R) by frame_solve;
      repeat match goal with |- _ /\ _ => split end;
      first [ exact Hu
            | apply (untouched_reads_zero _ _ _ _ _ _ Hu); vm_compute; reflexivity
            | solve [gen_env; reflexivity] ]
  end.
Ltac gen_finish := eexists; split; [ grun | gen_fields ].
Ltac gen_before := eexists; split; [ grun | split; [ let s := fresh "s" in intros s; gen_env; reflexivity | reflexivity ] ].

(* the statement at the head of a list is a call of f *)
Definition calls (f : string) (l : list cstmt) : Prop := match l with SCall _ g _ :: _ => g = f | _ => False end.

