From Coq Require Import ZArith Lia.
From LW Require Import Base.Expr Gen.Arith Model.Epoch.
Local Open Scope Z_scope.
Ltac Zify.zify_post_hook ::= Z.div_mod_to_equations.

Ltac epoch_unfold :=
  unfold epoch, epoch_expr, reading_ok, reading_le in *; cbn [teval] in *;
  repeat match goal with
  | H : context [if ?c =? 0 then _ else _] |- _ => change (c =? 0) with false in H; cbv iota in H
  | |- context [if ?c =? 0 then _ else _] => change (c =? 0) with false; cbv iota
  end.

Lemma epoch_defined s n : reading_ok s n -> exists v, epoch s n = Some v /\ 0 <= v < 2 ^ 63.
Proof.
  intros H. epoch_unfold. eexists; split; [reflexivity|].
  destruct H as [Hs Hn]. rewrite ?Z.quot_div_nonneg by lia.
  change (2 ^ 40) with 1099511627776 in *. change (10 ^ 9) with 1000000000 in *.
  change (2 ^ 63) with 9223372036854775808. lia.
Qed.

Lemma epoch_monotone s1 n1 s2 n2 v1 v2 :
  reading_ok s1 n1 -> reading_ok s2 n2 -> reading_le s1 n1 s2 n2 ->
  epoch s1 n1 = Some v1 -> epoch s2 n2 = Some v2 -> v1 <= v2.
Proof.
  intros H1 H2 Hle E1 E2. epoch_unfold.
  injection E1 as <-. injection E2 as <-.
  destruct H1 as [Hs1 Hn1], H2 as [Hs2 Hn2].
  change (2 ^ 40) with 1099511627776 in *. change (10 ^ 9) with 1000000000 in *.
  rewrite ?Z.quot_div_nonneg by lia. lia.
Qed.

(* one consistent unit: the value is the reading in nanoseconds divided by one constant *)
Lemma epoch_unit : exists k, 0 < k /\ forall s n, reading_ok s n ->
  epoch s n = Some ((s * 10 ^ 9 + n) / k).
Proof.
  exists 1000. split; [lia|]. intros s n H. epoch_unfold. f_equal.
  destruct H as [Hs Hn]. change (10 ^ 9) with 1000000000 in *.
  rewrite ?Z.quot_div_nonneg by lia. lia.
Qed.

(* hypotheses are satisfiable, and the value is what one expects on a concrete reading *)
Example epoch_example : reading_ok 1700000000 999999999 /\ epoch 1700000000 999999999 = Some 1700000000999999.
Proof. split; [unfold reading_ok; lia | reflexivity]. Qed.
