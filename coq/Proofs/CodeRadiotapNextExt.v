(* The pass of ieee80211_radiotap_iterator_next AS TRANSLATED over bit 31 (IEEE80211_RADIOTAP_EXT, present: another present word
   follows), executed by execg, for ALL values in range and every header buffer the memory holds: align 1 / size 0, the bounds test,
   then the NEXT PRESENT WORD IS LOADED at _next_bitmap (little-endian, inside the buffer), _next_bitmap moves on by 4, the index is
   reset to 0 after a namespace word and incremented otherwise, _reset_on_ext is cleared, hit stays 0 and the loop makes its next
   pass: the model's  rt_next f {| r_idx := if r_reset then 0 else r_idx + 1; r_shift := w; r_nextbm + 4; r_reset := false |}. *)
From Coq Require Import ZArith String List Bool Lia.
From LW Require Import Base.Bytes Base.CExpr Base.CGoto Gen.Consts Gen.Sites Proofs.SitesLemmas
  Proofs.SitesRadiotapIter Proofs.CodeRadiotapNextPass Proofs.CodeRadiotapNextHit Model.Radiotap.
Import ListNotations.
Local Open Scope string_scope.
Local Open Scope Z_scope.

Lemma execg_call f m rho tr k g args r vs :
  evals rho m args = Some vs -> execg (S f) m rho tr (SCall k g args :: r) = execg f m rho (tr ++ [(g, vs)]) r.
Proof. intros H. cbn [execg]. rewrite H. reflexivity. Qed.

Section Ext.
Variable m : memory.

Lemma site_rtnext_ext_rest rho rs idx :
  rho "iterator->_reset_on_ext" = rs -> rho "iterator->_arg_index" = idx -> - 2 ^ 31 <= rs < 2 ^ 31 -> - 2 ^ 31 <= idx < 2 ^ 31 - 1 ->
  ceval rho m (site NEXT "if#11") = Some rs /\
  ceval rho m (site NEXT "set:iterator->_arg_index#0") = Some 0 /\
  ceval rho m (site NEXT "upd:iterator->_arg_index#0") = Some (idx + 1) /\
  ceval rho m (site NEXT "set:iterator->_reset_on_ext#2") = Some 0.
Proof.
  intros Hrs Hi R1 R2; nums.
  repeat split; try reflexivity; site_unfold NEXT; rewrite ?Hrs, ?Hi; wrap_ids; reflexivity.
Qed.

Theorem rtnext_code_ext_pass rho tr idx sh h buf a mx nb rs F :
  holds m h buf -> wfbytes buf ->
  rho "iterator->_arg_index" = idx -> rho "iterator->_bitmap_shifter" = sh -> rho "iterator->_arg" = h + a ->
  rho "iterator->_rtheader" = h -> rho "iterator->_max_length" = mx -> rho "iterator->_next_bitmap" = h + nb ->
  rho "iterator->_reset_on_ext" = rs ->
  0 <= idx < 2 ^ 31 - 2 -> idx mod 32 = c_IEEE80211_RADIOTAP_EXT -> 0 <= sh < 2 ^ 32 -> Z.odd sh = true ->
  0 <= h -> 0 <= a -> h + a + 32 < 2 ^ 62 -> 0 <= mx < 2 ^ 31 -> 0 <= nb -> nb + 4 <= zlen buf -> h + nb + 4 < 2 ^ 62 ->
  - 2 ^ 31 <= rs < 2 ^ 31 ->
  if mx <? a then
    exists rho', execg (60 + F) m rho tr body_ieee80211_radiotap_iterator_next = GReturned (Some (- EINVAL)) rho' tr
  else
    exists rho' tr', execg (60 + F) m rho tr body_ieee80211_radiotap_iterator_next =
                     execg (59 + F) m rho' tr' body_ieee80211_radiotap_iterator_next /\
      rho' "iterator->_arg" = h + a /\ rho' "iterator->_bitmap_shifter" = le32 buf nb /\
      rho' "iterator->_arg_index" = (if rs =? 0 then idx + 1 else 0) /\
      rho' "iterator->_next_bitmap" = h + nb + 4 /\ rho' "iterator->_reset_on_ext" = 0 /\
      rho' "iterator->_max_length" = mx /\ rho' "iterator->_rtheader" = h /\
      rho' "iterator->current_namespace" = rho "iterator->current_namespace".
Proof.
  intros Hm Hwf Hi Hs Ha Hh Hmx Hnb Hrs Ri Hbit Rs Hodd Rh Ra Rb Rm Rnb Rfit Rnb2 Rrs.
  change c_IEEE80211_RADIOTAP_EXT with 31 in Hbit.
  set (r0 := locals0 rho).
  destruct (site_rtnext_if0 m r0 idx sh Hi Hs ltac:(nums; lia) Rs) as (Hc0 & _).
  rewrite Hodd in Hc0. rewrite andb_false_r in Hc0. cbn [b2z] in Hc0.
  pose proof (site_rtnext_if1 m r0 sh Hs Rs) as Hc1. rewrite Hodd in Hc1. cbn [negb b2z] in Hc1.
  destruct (site_rtnext_switch m r0 idx Hi ltac:(nums; lia)) as (Hsw0 & _). rewrite Hbit in Hsw0.
  set (r2 := upd (upd r0 "align" 1) "size" 0).
  pose proof (site_rtnext_pad_mod m r2 h a 1 Hh Ha eq_refl Rh Ra ltac:(nums; lia) ltac:(cbn [In]; tauto)) as Hpad.
  rewrite Z.mod_1_r in Hpad.
  set (r3 := upd r2 "pad" 0).
  destruct (site_rtnext_if5_arg m r3 h a 1 0 Ha eq_refl eq_refl Rh Ra ltac:(nums; lia) ltac:(lia) ltac:(nums; lia)) as (Hc5 & _).
  destruct (site_rtnext_switch m r3 idx Hi ltac:(nums; lia)) as (_ & _ & Hc6). rewrite Hbit in Hc6.
  change (31 =? c_IEEE80211_RADIOTAP_VENDOR_NAMESPACE) with false in Hc6. cbn [b2z] in Hc6.
  destruct (site_rtnext_this_arg m r3 h a 0 idx Ha eq_refl Hi Rh Ra ltac:(nums; lia) ltac:(nums; lia) ltac:(nums; lia)) as (Ht1 & _).
  set (r5 := upd r3 "iterator->this_arg_index" idx).
  destruct (site_rtnext_this_arg m r5 h a 0 idx Ha eq_refl Hi Rh Ra ltac:(nums; lia) ltac:(nums; lia) ltac:(nums; lia)) as (_ & Ht2 & _).
  set (r6 := upd r5 "iterator->this_arg" (h + a)).
  destruct (site_rtnext_this_arg m r6 h a 0 idx Ha eq_refl Hi Rh Ra ltac:(nums; lia) ltac:(nums; lia) ltac:(nums; lia)) as (_ & _ & Ht3 & _).
  set (r7 := upd r6 "iterator->this_arg_size" 0).
  destruct (site_rtnext_this_arg m r7 h a 0 idx Ha eq_refl Hi Rh Ra ltac:(nums; lia) ltac:(nums; lia) ltac:(nums; lia)) as (_ & _ & _ & Ht4).
  rewrite Z.add_0_r in Ht4.
  set (r8 := upd r7 "iterator->_arg" (h + a)).
  destruct (site_rtnext_if9 m r8 h a mx Hh eq_refl Hmx Rh Ra ltac:(nums; lia) Rm) as (Hc9 & Hr9).
  assert (Hprefix : forall G, execg (S (S (S (S (S (S (S (S G)))))))) m rho tr rtnext_loop_body = execg (S G) m r0 tr rtnext_tail7).
  { intros G. rewrite rtnext_loop_body_head.
    do 5 (rewrite execg_set with (v := 0) by reflexivity). fold (locals0 rho). fold r0.
    rewrite execg_if_skip by exact Hc0. rewrite execg_if_skip by exact Hc1. reflexivity. }
  assert (Hmid : forall G, execg (S (S (S (S (S (S (S (S (S (S (S G))))))))))) m r0 tr rtnext_tail7 =
                           execg (S (S (S G))) m r8 tr
                             [SIf "if#9" (site NEXT "if#9") [SRet "ret#3" (Some (site NEXT "ret#3"))] []; rtnext_switch1;
                              SIf "if#12" (site NEXT "if#12") [SRet "ret#4" (Some (site NEXT "ret#4"))] []]).
  { intros G. rewrite rtnext_tail7_shape, rtnext_switch0_shape.
    rewrite (execg_switch_broke _ m r0 tr _ _ _ _ _ 31 r2 tr Hsw0).
    2:{ change (pick_case 31 _ _) with rtnext_case_special. unfold rtnext_case_special.
        rewrite execg_set with (v := 1) by reflexivity. rewrite execg_set with (v := 0) by reflexivity. apply execg_break. }
    rewrite execg_set with (v := 0) by exact Hpad. fold r3.
    rewrite execg_if_skip by exact Hc5. rewrite execg_if_skip by exact Hc6.
    rewrite execg_set with (v := idx) by exact Ht1. fold r5.
    rewrite execg_set with (v := h + a) by exact Ht2. fold r6.
    rewrite execg_set with (v := 0) by exact Ht3. fold r7.
    rewrite execg_set with (v := h + a) by exact Ht4. fold r8. reflexivity. }
  destruct (Z.ltb_spec mx a) as [Hover | Hin]; cbn [b2z] in Hc9.
  - exists r8. cbn [Nat.add]. apply rtnext_pass_returns. rewrite Hprefix, Hmid.
    apply execg_if_ret with (v := 1) (w := - EINVAL); [exact Hc9 | discriminate | exact Hr9].
  - destruct (site_rtnext_switch m r8 idx Hi ltac:(nums; lia)) as (_ & Hsw1 & _). rewrite Hbit in Hsw1.
    pose proof (le32_range buf nb Hwf Rnb Rfit) as R32.
    assert (Hld : evals r8 m [CLoad (mkty false 32) (CVar (mkty false 64) "iterator->_next_bitmap")] = Some [le32 buf nb]).
    { cbn [evals ceval]. change (r8 "iterator->_next_bitmap") with (rho "iterator->_next_bitmap"). rewrite Hnb. nums. wrap_ids. cbv beta iota.
      rewrite (ld32 m h buf) by (assumption || lia). cbv beta iota. wrap_ids. reflexivity. }
    destruct (site_rtnext_ext_case m r8 h buf nb rs idx Hm Hwf Hnb Hrs Hi Rh Rnb ltac:(nums; lia) Rfit Rrs ltac:(nums; lia))
      as (Hx1 & _).
    set (r9 := upd r8 "iterator->_bitmap_shifter" (le32 buf nb)).
    pose proof (site_rtnext_next_bitmap_step m r9 (h + nb) Hnb ltac:(nums; lia)) as Hx2.
    set (r10 := upd r9 "iterator->_next_bitmap" (h + nb + 4)).
    destruct (site_rtnext_ext_rest r10 rs idx Hrs Hi Rrs ltac:(nums; lia)) as (Hx3 & Hx4 & Hx5 & _).
    set (r11 := if rs =? 0 then upd r10 "iterator->_arg_index" (idx + 1) else upd r10 "iterator->_arg_index" 0).
    assert (Hrs11 : r11 "iterator->_reset_on_ext" = rs) by (unfold r11; destruct (rs =? 0); exact Hrs).
    assert (Hi11 : r11 "iterator->_arg_index" = if rs =? 0 then idx + 1 else 0) by (unfold r11; destruct (rs =? 0); reflexivity).
    assert (Ri11 : - 2 ^ 31 <= r11 "iterator->_arg_index" < 2 ^ 31 - 1) by (rewrite Hi11; destruct (rs =? 0); nums; lia).
    destruct (site_rtnext_ext_rest r11 rs (r11 "iterator->_arg_index") Hrs11 eq_refl Rrs Ri11) as (_ & _ & _ & Hx6).
    set (r12 := upd r11 "iterator->_reset_on_ext" 0).
    assert (Hh12 : r12 "hit" = 0) by (unfold r12, r11; destruct (rs =? 0); reflexivity).
    destruct (site_rtnext_if12 m r12 0 Hh12 ltac:(nums; lia)) as (Hc12 & _).
    exists r12, (tr ++ [("__uint32_identity", [le32 buf nb])])%list. split.
    + cbn [Nat.add]. apply rtnext_pass. rewrite Hprefix, Hmid.
      rewrite execg_if_skip by exact Hc9.
      rewrite rtnext_switch1_shape.
      rewrite (execg_switch_broke _ m r8 tr _ _ _ _ _ 31 r12 (tr ++ [("__uint32_identity", [le32 buf nb])])%list Hsw1).
      * rewrite execg_if_skip by exact Hc12. apply execg_nil.
      * change (pick_case 31 _ _) with rtnext_case2_ext. unfold rtnext_case2_ext.
        rewrite execg_call with (vs := [le32 buf nb]) by exact Hld.
        rewrite execg_set with (v := le32 buf nb) by exact Hx1. fold r9.
        rewrite execg_set with (v := h + nb + 4) by exact Hx2. fold r10.
        assert (Hstep11 : forall G' r trx, execg (S (S (S G'))) m r10 trx
                   (SIf "if#11" (site NEXT "if#11")
                      [SSet "set:iterator->_arg_index#0" "iterator->_arg_index" (site NEXT "set:iterator->_arg_index#0")]
                      [SSet "upd:iterator->_arg_index#0" "iterator->_arg_index" (site NEXT "upd:iterator->_arg_index#0")] :: r)
                   = execg (S (S G')) m r11 trx r).
        { intros G' r trx. unfold r11. destruct (Z.eqb_spec rs 0) as [E | E].
          - rewrite (execg_if_false_fell _ m r10 trx _ _ _ _ _ (upd r10 "iterator->_arg_index" (idx + 1)) trx).
            + reflexivity.
            + rewrite Hx3, E. reflexivity.
            + rewrite execg_set with (v := idx + 1) by exact Hx5. apply execg_nil.
          - rewrite (execg_if_true_fell _ m r10 trx _ _ _ _ _ rs (upd r10 "iterator->_arg_index" 0) trx Hx3 E).
            + reflexivity.
            + rewrite execg_set with (v := 0) by exact Hx4. apply execg_nil. }
        rewrite Hstep11.
        rewrite execg_set with (v := 0) by exact Hx6. fold r12. apply execg_break.
    + assert (K : forall y, y <> "iterator->_arg_index" -> r11 y = r10 y).
      { intros y Hy. unfold r11. destruct (rs =? 0); unfold upd at 1; destruct (String.eqb_spec y "iterator->_arg_index"); try contradiction; reflexivity. }
      repeat split; try reflexivity;
        unfold r12; unfold upd at 1; cbn [String.eqb Ascii.eqb Bool.eqb]; rewrite ?K by discriminate;
        first [reflexivity | exact Hi11 | exact Hmx | exact Hh | exact Ha].
Qed.
End Ext.

Print Assumptions rtnext_code_ext_pass.
