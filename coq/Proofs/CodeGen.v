(* The frame generators AS TRANSLATED from src/libwifi/gen (Gen/Sites.v: the body_libwifi_create_... lists) store exactly their arguments
   and the protocol's constants.  For EVERY environment rho (nothing is assumed about the prior contents "obj->..." of the
   object: the zeroing makes them irrelevant), every argument in its C type's range and every callee answer:
   - the run is never stuck; its first event is memset(obj, 0, sizeof *obj), the size being Gen/Layout.v's;
   - the addresses are copied from the stated arguments into addr1, addr2, addr3 in that order;
   - in the final environment type / subtype are Gen/Consts.v's enumerators, every assigned fixed parameter is the argument or
     the documented default, and every other member of the object reads 0 ([untouched]: every lvalue text under "obj->" that is
     neither assigned nor under a member handed to memcpy / libwifi_quick_add_tag; [reads_zero] spells it out for the
     header's version, flags, duration and sequence control);
   - the tag-carrying routines call libwifi_quick_add_tag in the order and with the numbers / lengths of the body, a non-zero
     answer is returned at once with no later call; the object's tags read 0 when the first add is made.
   Sections: 1 environments, the frame statement by reflection, the apply-style runner; 2 the routines without tags (action,
   action no-ack, ATIM, authentication, deauthentication, disassociation, RTS, CTS); 3 the routines that add their tags
   themselves (association / probe / reassociation request); 4 those that go through the setters (beacon, probe response,
   association / reassociation response); 5 the six setters; 6 the timing advertisement; 7 the ATIM addresses on concrete values.
   DEVIATIONS stated where they occur: ATIM copies [transmitter] into addr1 and [receiver] into addr2; the reassociation
   response adds no supported-rates element; association id is left 0 in both responses.
   Conventions as in Proofs/SitesTags.v: arguments are put in the environment with [upd], pointers appear in the trace as
   [wrap u64 (rho "name")], a callee's answer is the environment's "ret:<callee>" (one name per callee: see section 3). *)
From Coq Require Import ZArith String Ascii List Bool Lia.
From LW Require Import Base.CExpr Gen.Consts Gen.Layout Gen.Sites Proofs.SitesLemmas.
Import ListNotations.
Local Open Scope string_scope.
Local Open Scope Z_scope.

(* ---------------------------------------------------------------- 1. environments built by upd / zeroed / clobber *)
Lemma upd_other R x v y : String.eqb y x = false -> upd R x v y = R y.
Proof. intros H. unfold upd. rewrite H. reflexivity. Qed.
Lemma clobber_other R n x y : String.prefix x y = false -> clobber R n x y = R y.
Proof. intros H. unfold clobber. rewrite H. reflexivity. Qed.
Lemma zeroed_in R x y : String.prefix x y = true -> zeroed R x y = 0.
Proof. intros H. unfold zeroed. rewrite H. reflexivity. Qed.
Lemma prefix_neq p y x : String.prefix p y = true -> String.prefix p x = false -> String.eqb y x = false.
Proof. intros Hy Hx. destruct (String.eqb_spec y x) as [E | N]; [subst; congruence | reflexivity]. Qed.

(* every lvalue text under [obj] that is not one of [assigned] and not under one of [clobbered] reads 0 *)
Definition untouched (obj : string) (assigned clobbered : list string) (rho' : env) : Prop :=
  forall y, String.prefix obj y = true ->
            existsb (String.eqb y) assigned = false ->
            existsb (fun c => String.prefix c y) clobbered = false -> rho' y = 0.

Definition reads_zero (rho' : env) (pre : string) (l : list string) : Prop := Forall (fun s => rho' (pre ++ s) = 0) l.

(* the members of the management header no generator assigns, and of the control header *)
Definition ctrl_rest : list string :=
  ["frame_control.version"; "frame_control.flags.to_ds"; "frame_control.flags.from_ds"; "frame_control.flags.more_frags";
   "frame_control.flags.retry"; "frame_control.flags.power_mgmt"; "frame_control.flags.more_data"; "frame_control.flags.protect";
   "frame_control.flags.ordered"].
Definition mgmt_rest : list string := ctrl_rest ++ ["duration"; "seq_control.fragment_number"; "seq_control.sequence_number"].

(* the events *)
Definition ev_memset (rho : env) (obj : string) (size : Z) : event := ("memset", [wrap u64 (rho obj); 0; size]).
Definition ev_memcpy (rho : env) (dst src : string) (n : Z) : event := ("memcpy", [wrap u64 (rho dst); wrap u64 (rho src); n]).
Definition ev_add_tag (rho : env) (tags : string) (num : Z) (data : string) (len : Z) : event :=
  ("libwifi_quick_add_tag", [wrap u64 (rho tags); num; wrap u64 (rho data); len]).
(* zeroing, then the three addresses in header order *)
Definition mgmt_events (rho : env) (obj : string) (size : Z) (a1 a2 a3 : string) : list event :=
  [ev_memset rho obj size;
   ev_memcpy rho ("&" ++ obj ++ "->frame_header.addr1") a1 6;
   ev_memcpy rho ("&" ++ obj ++ "->frame_header.addr2") a2 6;
   ev_memcpy rho ("&" ++ obj ++ "->frame_header.addr3") a3 6].

(* ---------------------------------------------------------------- the frame statement, by reflection on the layers
   of the final environment *)
Inductive eop := OU (x : string) (v : Z) | OC (n : nat) (x : string) | OZ (x : string).
Fixpoint build (ops : list eop) (rho : env) : env :=
  match ops with
  | [] => rho
  | OU x v :: r => upd (build r rho) x v
  | OC n x :: r => clobber (build r rho) n x
  | OZ x :: r => zeroed (build r rho) x
  end.
(* two prefixes of one string are comparable *)
Lemma prefix_comparable : forall p c y, String.prefix p y = true -> String.prefix c y = true ->
  String.prefix p c = true \/ String.prefix c p = true.
Proof.
  induction p as [ | a p IH]; intros c y Hp Hc; [left; destruct c; reflexivity | ].
  destruct c as [ | b c]; [right; reflexivity | ].
  destruct y as [ | d y]; [cbn in Hp; discriminate | ].
  cbn [String.prefix] in *.
  destruct (ascii_dec a d) as [E1 | N1]; [ | discriminate]. destruct (ascii_dec b d) as [E2 | N2]; [ | discriminate].
  subst a b. destruct (ascii_dec d d) as [E | N]; [ | contradiction]. apply IH with y; assumption.
Qed.

(* outermost layer first: an assignment is to a listed name or to a name outside the object, a clobber is of a listed member
   or of a name that neither contains the object's prefix nor is contained in it (a local), and the zeroing of the object is
   reached *)
Fixpoint frame_ok (obj : string) (assigned clobbered : list string) (ops : list eop) : bool :=
  match ops with
  | [] => false
  | OU x _ :: r => (existsb (String.eqb x) assigned || negb (String.prefix obj x)) && frame_ok obj assigned clobbered r
  | OC _ x :: r => (existsb (String.eqb x) clobbered || (negb (String.prefix x obj) && negb (String.prefix obj x)))
                   && frame_ok obj assigned clobbered r
  | OZ x :: _ => String.eqb x obj
  end.

Lemma existsb_false_at {A} (f : A -> bool) l x : existsb f l = false -> In x l -> f x = false.
Proof.
  intros H HIn. destruct (f x) eqn:E; [ | reflexivity].
  assert (existsb f l = true) by (apply existsb_exists; exists x; split; assumption). congruence.
Qed.

Lemma build_untouched obj a c ops rho : frame_ok obj a c ops = true -> untouched obj a c (build ops rho).
Proof.
  induction ops as [ | op ops IH]; intros H; [discriminate | ].
  intros y Hp Ha Hc. destruct op as [x v | n x | x]; cbn [frame_ok build] in *.
  - apply andb_prop in H. destruct H as [H1 H2]. rewrite upd_other; [apply IH; assumption | ].
    apply orb_prop in H1. destruct H1 as [H1 | H1].
    + apply existsb_exists in H1. destruct H1 as (x' & HIn & E). apply String.eqb_eq in E. subst x'.
      exact (existsb_false_at _ _ _ Ha HIn).
    + apply (prefix_neq obj); [exact Hp | ]. destruct (String.prefix obj x); [discriminate | reflexivity].
  - apply andb_prop in H. destruct H as [H1 H2]. rewrite clobber_other; [apply IH; assumption | ].
    apply orb_prop in H1. destruct H1 as [H1 | H1].
    + apply existsb_exists in H1. destruct H1 as (x' & HIn & E). apply String.eqb_eq in E. subst x'.
      exact (existsb_false_at _ _ _ Hc HIn).
    + apply andb_prop in H1. destruct H1 as [A B].
      destruct (String.prefix x y) eqn:E; [ | reflexivity].
      destruct (prefix_comparable x obj y E Hp) as [C | C]; rewrite C in *; discriminate.
  - apply String.eqb_eq in H. subst x. apply zeroed_in. exact Hp.
Qed.

Definition free_name (obj : string) (a c : list string) (y : string) : bool :=
  String.prefix obj y && negb (existsb (String.eqb y) a) && negb (existsb (fun p => String.prefix p y) c).
Lemma untouched_at obj a c rho' y : untouched obj a c rho' -> free_name obj a c y = true -> rho' y = 0.
Proof.
  intros H Hf. unfold free_name in Hf. apply andb_prop in Hf. destruct Hf as [Hf H3]. apply andb_prop in Hf. destruct Hf as [H1 H2].
  apply H; [exact H1 | | ].
  - destruct (existsb (String.eqb y) a); [discriminate | reflexivity].
  - destruct (existsb (fun p => String.prefix p y) c); [discriminate | reflexivity].
Qed.
Lemma untouched_reads_zero obj a c rho' pre l :
  untouched obj a c rho' -> forallb (fun s => free_name obj a c (pre ++ s)) l = true -> reads_zero rho' pre l.
Proof.
  intros H Hl. unfold reads_zero. apply Forall_forall. intros s HIn.
  apply (untouched_at obj a c); [exact H | ]. rewrite forallb_forall in Hl. exact (Hl s HIn).
Qed.

Ltac env_base R :=
  lazymatch R with
  | upd ?R' _ _ => env_base R' | clobber ?R' _ _ => env_base R' | zeroed ?R' _ => env_base R' | _ => R
  end.
Ltac env_ops R :=
  lazymatch R with
  | upd ?R' ?x ?v => let l := env_ops R' in constr:(OU x v :: l)
  | clobber ?R' ?n ?x => let l := env_ops R' in constr:(OC n x :: l)
  | zeroed ?R' ?x => let l := env_ops R' in constr:(OZ x :: l)
  | _ => constr:(@nil eop)
  end.
Ltac frame_solve :=
  lazymatch goal with
  | |- untouched ?o ?a ?c ?R =>
      let ops := env_ops R in let b := env_base R in
      change (untouched o a c (build ops b)); apply build_untouched; vm_compute; reflexivity
  end.

(* ---------------------------------------------------------------- running a body: goals of the shape [exec f m rho tr l = o]
   are reduced by APPLYING one lemma per statement (no rewriting: the proof terms stay small); the trace is kept a flat list
   and the index of a clobber a numeral *)
Lemma exec_set_eq f m rho tr k x e r v o :
  ceval rho m e = Some v -> exec f m (upd rho x v) tr r = o -> exec (S f) m rho tr (SSet k x e :: r) = o.
Proof. intros H <-. apply exec_set. exact H. Qed.
Lemma exec_call_eq f m rho tr k g args r vs tr' o :
  evals rho m args = Some vs -> (tr ++ [(g, vs)])%list = tr' -> exec f m rho tr' r = o -> exec (S f) m rho tr (SCall k g args :: r) = o.
Proof. intros H <- <-. apply exec_call. exact H. Qed.
Lemma exec_zero_eq f m rho tr x r o : exec f m (zeroed rho x) tr r = o -> exec (S f) m rho tr (SZero x :: r) = o.
Proof. intros <-. reflexivity. Qed.
Lemma exec_clobber_eq f m rho tr x r n o :
  List.length tr = n -> exec f m (clobber rho n x) tr r = o -> exec (S f) m rho tr (SClobber x :: r) = o.
Proof. intros <- <-. reflexivity. Qed.
Lemma exec_ret_eq f m rho tr k e r v o :
  ceval rho m e = Some v -> Returned (Some v) rho tr = o -> exec (S f) m rho tr (SRet k (Some e) :: r) = o.
Proof. intros H <-. apply exec_ret. exact H. Qed.
Lemma exec_nil_eq f m rho tr o : Fell rho tr = o -> exec (S f) m rho tr [] = o.
Proof. intros <-. reflexivity. Qed.
Lemma exec_break_eq f m rho tr r o : Broke rho tr = o -> exec (S f) m rho tr (SBreak :: r) = o.
Proof. intros <-. reflexivity. Qed.
Lemma exec_if_eq (bb : bool) f m rho tr k c a b r o1 o :
  ceval rho m c = Some (b2z bb) -> exec f m rho tr (if bb then a else b) = o1 ->
  match o1 with Fell rho' tr' => exec f m rho' tr' r | o' => o' end = o ->
  exec (S f) m rho tr (SIf k c a b :: r) = o.
Proof. intros H H1 H2. rewrite (exec_if_gen f m rho tr k c a b r bb H), H1, <- H2. destruct o1; reflexivity. Qed.
Lemma exec_switch_eq f m rho tr k e cases default r v o1 o :
  ceval rho m e = Some v -> exec f m rho tr (pick_case v cases default) = o1 ->
  match o1 with Fell rho' tr' => exec f m rho' tr' r | Broke rho' tr' => exec f m rho' tr' r | o' => o' end = o ->
  exec (S f) m rho tr (SSwitch k e cases default :: r) = o.
Proof. intros H H1 H2. rewrite (exec_switch f m rho tr k e cases default r v H), H1, <- H2. destruct o1; reflexivity. Qed.

Lemma wrap_u64_idem v : wrap (mkty false 64) (wrap (mkty false 64) v) = wrap (mkty false 64) v.
Proof.
  apply wrap_u64_id. unfold wrap, modulus; cbn [c_signed c_bits]. change (2 ^ 64) with 18446744073709551616.
  apply Z.mod_pos_bound. lia.
Qed.

(* evaluation: the evaluator and the environment layers are computed (String.prefix included), wrap / arith stay folded *)
Ltac gen_eval :=
  cbv beta iota zeta delta [ceval evals binop c_bits c_signed upd zeroed clobber String.eqb Ascii.eqb Bool.eqb String.append
                            String.prefix Ascii.ascii_dec Bool.bool_dec sumbool_rec sumbool_rect Ascii.ascii_rec Ascii.ascii_rect
                            bool_rec bool_rect u8 s8 u16 s16 u32 s32 u64 s64];
  wrap_ids; rewrite ?wrap_u64_idem.
Ltac gen_env :=
  cbv beta iota zeta delta [upd zeroed clobber String.eqb Ascii.eqb Bool.eqb String.append
                            String.prefix Ascii.ascii_dec Bool.bool_dec sumbool_rec sumbool_rect Ascii.ascii_rec Ascii.ascii_rect
                            bool_rec bool_rect].
Ltac gen_cond := gen_eval; decide_bools; reflexivity.
(* a conditional (a switch) whose condition (value) the context does not decide ends the run when the outcome is still open
   (an evar: [reflexivity] records the state reached) and is an error otherwise; once a branch is chosen a later failure is
   not hidden by the other alternatives ([first] commits) *)
Ltac grun :=
  lazymatch goal with
  | |- exec _ _ _ _ (SSet _ _ _ :: _) = _ => eapply exec_set_eq; [gen_eval; reflexivity | grun]
  | |- exec _ _ _ _ (SCall _ _ _ :: _) = _ => eapply exec_call_eq; [gen_eval; reflexivity | cbn [app]; reflexivity | grun]
  | |- exec _ _ _ _ (SZero _ :: _) = _ => apply exec_zero_eq; grun
  | |- exec _ _ _ _ (SClobber _ :: _) = _ => eapply exec_clobber_eq; [cbn [List.length]; reflexivity | grun]
  | |- exec _ _ _ _ (SRet _ (Some _) :: _) = _ => eapply exec_ret_eq; [gen_eval; reflexivity | reflexivity]
  | |- exec _ _ _ _ (SBreak :: _) = _ => apply exec_break_eq; reflexivity
  | |- exec _ _ _ _ [] = _ => apply exec_nil_eq; reflexivity
  | |- exec _ _ _ _ (SIf _ _ _ _ :: _) = _ =>
      first [ eapply (exec_if_eq true); [solve [gen_cond] | | ]
            | eapply (exec_if_eq false); [solve [gen_cond] | | ]
            | reflexivity ];
      [> (cbv beta iota; grun) .. ]
  | |- exec _ _ _ _ (SSwitch _ _ _ _ :: _) = _ =>
      first [ eapply exec_switch_eq;
              [ gen_eval; reflexivity
              | cbv beta iota delta [pick_case existsb]; decide_bools; cbn [orb]; cbv beta iota;
                lazymatch goal with |- exec _ _ _ _ (if _ then _ else _) = _ => fail | _ => idtac end
              | ]
            | reflexivity ];
      [> (cbv beta iota; grun) .. ]
  | |- Returned _ _ _ = _ => reflexivity
  | |- Fell _ _ = _ => reflexivity
  | |- Broke _ _ = _ => reflexivity
  end.
(* the part of the run the context decides, once for all the cases that follow *)
Ltac gen_prefix :=
  lazymatch goal with
  | |- context [exec ?F ?mm ?R ?T ?B] =>
      let H := fresh "Hpre" in eassert (H : exec F mm R T B = _) by grun; rewrite H; clear H
  end.
Ltac gen_observe :=
  lazymatch goal with
  | |- observe ?E = _ => let H := fresh "Hrun" in eassert (H : E = _) by grun; rewrite H; clear H; reflexivity
  end.

Ltac nums :=
  change (2 ^ 64) with 18446744073709551616 in *; change (2 ^ 63) with 9223372036854775808 in *;
  change (2 ^ 32) with 4294967296 in *; change (2 ^ 31) with 2147483648 in *.

Ltac gen_fields :=
  lazymatch goal with
  | |- context [untouched ?o ?a ?c ?R] =>
      let Hu := fresh "Hu" in
      assert (Hu : untouched o a c R) by frame_solve;
      repeat match goal with |- _ /\ _ => split end;
      first [ exact Hu
            | apply (untouched_reads_zero _ _ _ _ _ _ Hu); vm_compute; reflexivity
            | solve [gen_env; reflexivity] ]
  end.
Ltac gen_finish := eexists; split; [ grun | gen_fields ].
Ltac gen_before := eexists; split; [ grun | split; [ let s := fresh "s" in intros s; gen_env; reflexivity | reflexivity ] ].

(* the statement at the head of a list is a call of f *)
Definition calls (f : string) (l : list cstmt) : Prop := match l with SCall _ g _ :: _ => g = f | _ => False end.

Section WithMemory.
Variable m : memory.

(* ================================================================ 2. the routines without tags *)

(* action / action no-ack: the category is stored; the detail block (length, pointer) is left zeroed *)
Theorem code_create_action rho cat :
  0 <= cat < 256 ->
  let rho0 := upd rho "category" cat in
  exists rho',
    exec 40 m rho0 [] body_libwifi_create_action =
      Returned (Some 0) rho' (mgmt_events rho "action" sizeof_libwifi_action "receiver" "transmitter" "address3") /\
    rho' "action->frame_header.frame_control.type" = c_TYPE_MANAGEMENT /\
    rho' "action->frame_header.frame_control.subtype" = c_SUBTYPE_ACTION /\
    rho' "action->fixed_parameters.category" = cat /\
    rho' "action->fixed_parameters.details.detail_length" = 0 /\
    rho' "action->fixed_parameters.details.detail" = 0 /\
    reads_zero rho' "action->frame_header." mgmt_rest /\
    untouched "action->"
      ["action->frame_header.frame_control.type"; "action->frame_header.frame_control.subtype"; "action->fixed_parameters.category"]
      ["action->frame_header.addr1"; "action->frame_header.addr2"; "action->frame_header.addr3"] rho'.
Proof.
  intros Hcat rho0. unfold rho0, body_libwifi_create_action; clear rho0. gen_finish.
Qed.

Theorem code_create_action_no_ack rho cat :
  0 <= cat < 256 ->
  let rho0 := upd rho "category" cat in
  exists rho',
    exec 40 m rho0 [] body_libwifi_create_action_no_ack =
      Returned (Some 0) rho' (mgmt_events rho "action" sizeof_libwifi_action "receiver" "transmitter" "address3") /\
    rho' "action->frame_header.frame_control.type" = c_TYPE_MANAGEMENT /\
    rho' "action->frame_header.frame_control.subtype" = c_SUBTYPE_ACTION_NOACK /\
    rho' "action->fixed_parameters.category" = cat /\
    rho' "action->fixed_parameters.details.detail_length" = 0 /\
    rho' "action->fixed_parameters.details.detail" = 0 /\
    reads_zero rho' "action->frame_header." mgmt_rest /\
    untouched "action->"
      ["action->frame_header.frame_control.type"; "action->frame_header.frame_control.subtype"; "action->fixed_parameters.category"]
      ["action->frame_header.addr1"; "action->frame_header.addr2"; "action->frame_header.addr3"] rho'.
Proof.
  intros Hcat rho0. unfold rho0, body_libwifi_create_action_no_ack; clear rho0. gen_finish.
Qed.

(* ATIM.  DEVIATION from every other management generator: addr1 receives the argument called [transmitter] and addr2 the
   argument called [receiver] (the parameters are declared in the order transmitter, receiver, address3 and copied in
   declaration order).  The theorem states what the code does. *)
Theorem code_create_atim rho :
  exists rho',
    exec 40 m rho [] body_libwifi_create_atim =
      Returned (Some 0) rho' (mgmt_events rho "atim" sizeof_libwifi_atim "transmitter" "receiver" "address3") /\
    rho' "atim->frame_header.frame_control.type" = c_TYPE_MANAGEMENT /\
    rho' "atim->frame_header.frame_control.subtype" = c_SUBTYPE_ATIM /\
    reads_zero rho' "atim->frame_header." mgmt_rest /\
    untouched "atim->"
      ["atim->frame_header.frame_control.type"; "atim->frame_header.frame_control.subtype"]
      ["atim->frame_header.addr1"; "atim->frame_header.addr2"; "atim->frame_header.addr3"] rho'.
Proof. unfold body_libwifi_create_atim. gen_finish. Qed.

Theorem code_create_auth rho alg seq st :
  0 <= alg < 65536 -> 0 <= seq < 65536 -> 0 <= st < 65536 ->
  let rho0 := upd (upd (upd rho "algorithm_number" alg) "transaction_sequence" seq) "status_code" st in
  exists rho',
    exec 40 m rho0 [] body_libwifi_create_auth =
      Returned (Some 0) rho' (mgmt_events rho "auth" sizeof_libwifi_auth "receiver" "transmitter" "address3") /\
    rho' "auth->frame_header.frame_control.type" = c_TYPE_MANAGEMENT /\
    rho' "auth->frame_header.frame_control.subtype" = c_SUBTYPE_AUTH /\
    rho' "auth->fixed_parameters.algorithm_number" = alg /\
    rho' "auth->fixed_parameters.transaction_sequence" = seq /\
    rho' "auth->fixed_parameters.status_code" = st /\
    rho' "auth->tags.length" = 0 /\ rho' "auth->tags.parameters" = 0 /\
    reads_zero rho' "auth->frame_header." mgmt_rest /\
    untouched "auth->"
      ["auth->frame_header.frame_control.type"; "auth->frame_header.frame_control.subtype";
       "auth->fixed_parameters.algorithm_number"; "auth->fixed_parameters.transaction_sequence"; "auth->fixed_parameters.status_code"]
      ["auth->frame_header.addr1"; "auth->frame_header.addr2"; "auth->frame_header.addr3"] rho'.
Proof.
  intros Halg Hseq Hst rho0. unfold rho0, body_libwifi_create_auth; clear rho0. gen_finish.
Qed.

(* deauthentication / disassociation: the reason code goes through memcpy(&obj->fixed_parameters.reason_code, &reason_code, 2),
   which the translation renders as the copy event followed by the load of the parameter into the member *)
Theorem code_create_deauth rho reason :
  0 <= reason < 65536 ->
  let rho0 := upd rho "reason_code" reason in
  exists rho',
    exec 40 m rho0 [] body_libwifi_create_deauth =
      Returned (Some 0) rho'
        (mgmt_events rho "deauth" sizeof_libwifi_deauth "receiver" "transmitter" "address3" ++
         [ev_memcpy rho "&deauth->fixed_parameters.reason_code" "&reason_code" 2]) /\
    rho' "deauth->frame_header.frame_control.type" = c_TYPE_MANAGEMENT /\
    rho' "deauth->frame_header.frame_control.subtype" = c_SUBTYPE_DEAUTH /\
    rho' "deauth->fixed_parameters.reason_code" = reason /\
    rho' "deauth->tags.length" = 0 /\ rho' "deauth->tags.parameters" = 0 /\
    reads_zero rho' "deauth->frame_header." mgmt_rest /\
    untouched "deauth->"
      ["deauth->frame_header.frame_control.type"; "deauth->frame_header.frame_control.subtype"; "deauth->fixed_parameters.reason_code"]
      ["deauth->frame_header.addr1"; "deauth->frame_header.addr2"; "deauth->frame_header.addr3"] rho'.
Proof.
  intros Hre rho0. unfold rho0, body_libwifi_create_deauth; clear rho0. gen_finish.
Qed.

Theorem code_create_disassoc rho reason :
  0 <= reason < 65536 ->
  let rho0 := upd rho "reason_code" reason in
  exists rho',
    exec 40 m rho0 [] body_libwifi_create_disassoc =
      Returned (Some 0) rho'
        (mgmt_events rho "disassoc" sizeof_libwifi_disassoc "receiver" "transmitter" "address3" ++
         [ev_memcpy rho "&disassoc->fixed_parameters.reason_code" "&reason_code" 2]) /\
    rho' "disassoc->frame_header.frame_control.type" = c_TYPE_MANAGEMENT /\
    rho' "disassoc->frame_header.frame_control.subtype" = c_SUBTYPE_DISASSOC /\
    rho' "disassoc->fixed_parameters.reason_code" = reason /\
    rho' "disassoc->tags.length" = 0 /\ rho' "disassoc->tags.parameters" = 0 /\
    reads_zero rho' "disassoc->frame_header." mgmt_rest /\
    untouched "disassoc->"
      ["disassoc->frame_header.frame_control.type"; "disassoc->frame_header.frame_control.subtype";
       "disassoc->fixed_parameters.reason_code"]
      ["disassoc->frame_header.addr1"; "disassoc->frame_header.addr2"; "disassoc->frame_header.addr3"] rho'.
Proof.
  intros Hre rho0. unfold rho0, body_libwifi_create_disassoc; clear rho0. gen_finish.
Qed.

(* control frames: a four-octet header (frame control, duration) and the addresses as members of the object itself.
   RTS copies the transmitter first, then the receiver (the struct has receiver_addr before transmitter_addr: each copy
   names its destination member, so the order of the two calls does not matter for the layout). *)
Theorem code_create_rts rho dur :
  0 <= dur < 65536 ->
  let rho0 := upd rho "duration" dur in
  exists rho',
    exec 40 m rho0 [] body_libwifi_create_rts =
      Returned (Some 0) rho'
        [ev_memset rho "rts" sizeof_libwifi_rts;
         ev_memcpy rho "&rts->transmitter_addr" "transmitter" 6;
         ev_memcpy rho "&rts->receiver_addr" "receiver" 6] /\
    rho' "rts->frame_header.frame_control.type" = c_TYPE_CONTROL /\
    rho' "rts->frame_header.frame_control.subtype" = c_SUBTYPE_RTS /\
    rho' "rts->frame_header.duration" = dur /\
    reads_zero rho' "rts->frame_header." ctrl_rest /\
    untouched "rts->"
      ["rts->frame_header.frame_control.type"; "rts->frame_header.frame_control.subtype"; "rts->frame_header.duration"]
      ["rts->transmitter_addr"; "rts->receiver_addr"] rho'.
Proof.
  intros Hd rho0. unfold rho0, body_libwifi_create_rts; clear rho0. gen_finish.
Qed.

Theorem code_create_cts rho dur :
  0 <= dur < 65536 ->
  let rho0 := upd rho "duration" dur in
  exists rho',
    exec 40 m rho0 [] body_libwifi_create_cts =
      Returned (Some 0) rho'
        [ev_memset rho "cts" sizeof_libwifi_cts; ev_memcpy rho "&cts->receiver_addr" "receiver" 6] /\
    rho' "cts->frame_header.frame_control.type" = c_TYPE_CONTROL /\
    rho' "cts->frame_header.frame_control.subtype" = c_SUBTYPE_CTS /\
    rho' "cts->frame_header.duration" = dur /\
    reads_zero rho' "cts->frame_header." ctrl_rest /\
    untouched "cts->"
      ["cts->frame_header.frame_control.type"; "cts->frame_header.frame_control.subtype"; "cts->frame_header.duration"]
      ["cts->receiver_addr"] rho'.
Proof.
  intros Hd rho0. unfold rho0, body_libwifi_create_cts; clear rho0. gen_finish.
Qed.

(* ================================================================ 3. the routines that add their tags themselves
   n = what strlen(ssid) answers, r = what libwifi_quick_add_tag answers.  The strlen event precedes the event of the call whose argument it is.
   One name per callee in the environment: within ONE run both adds get the same answer r; the [..._second_add] theorems run
   the rest of the body from the second add in an arbitrary environment and trace, which covers a second answer that differs
   from the first.  The [..._before_add] theorems give the state in which the first add is made: every lvalue under
   "obj->tags" reads 0 (length 0, no block). *)

Theorem code_create_assoc_req rho n r :
  0 <= n < 2 ^ 64 -> - 2 ^ 31 <= r < 2 ^ 31 ->
  let rho0 := upd (upd rho "ret:strlen" n) "ret:libwifi_quick_add_tag" r in
  exists rho',
    exec 40 m rho0 [] body_libwifi_create_assoc_req =
      Returned (Some r) rho'
        (mgmt_events rho "assoc_req" sizeof_libwifi_assoc_req "receiver" "transmitter" "address3" ++
         [("strlen", [wrap u64 (rho "ssid")]); ev_add_tag rho "&assoc_req->tags" c_TAG_SSID "ssid" n] ++
         (if r =? 0 then [ev_add_tag rho "&assoc_req->tags" c_TAG_DS_PARAMETER "&channel" 1] else [])) /\
    rho' "assoc_req->frame_header.frame_control.type" = c_TYPE_MANAGEMENT /\
    rho' "assoc_req->frame_header.frame_control.subtype" = c_SUBTYPE_ASSOC_REQ /\
    rho' "assoc_req->fixed_parameters.capabilities_information" = c_LIBWIFI_DEFAULT_AP_CAPABS /\
    rho' "assoc_req->fixed_parameters.listen_interval" = c_LIBWIFI_DEFAULT_LISTEN_INTERVAL /\
    reads_zero rho' "assoc_req->frame_header." mgmt_rest /\
    untouched "assoc_req->"
      ["assoc_req->frame_header.frame_control.type"; "assoc_req->frame_header.frame_control.subtype";
       "assoc_req->fixed_parameters.capabilities_information"; "assoc_req->fixed_parameters.listen_interval"]
      ["assoc_req->frame_header.addr1"; "assoc_req->frame_header.addr2"; "assoc_req->frame_header.addr3"; "assoc_req->tags"] rho'.
Proof.
  intros Hn Hr rho0; nums. unfold rho0, body_libwifi_create_assoc_req; clear rho0.
  gen_prefix. destruct (Z.eqb_spec r 0) as [E | N]; [subst r | ]; gen_finish.
Qed.

Theorem code_create_assoc_req_before_add rho :
  exists rho1,
    exec 40 m rho [] (firstn 13 body_libwifi_create_assoc_req) =
      Fell rho1 (mgmt_events rho "assoc_req" sizeof_libwifi_assoc_req "receiver" "transmitter" "address3" ++ [("strlen", [wrap u64 (rho "ssid")])])%list /\
    (forall s, rho1 ("assoc_req->tags" ++ s) = 0) /\
    calls "libwifi_quick_add_tag" (skipn 13 body_libwifi_create_assoc_req).
Proof.
  unfold body_libwifi_create_assoc_req. cbn [firstn skipn]. gen_before.
Qed.

Theorem code_create_assoc_req_second_add rho tr r2 :
  - 2 ^ 31 <= r2 < 2 ^ 31 ->
  let rho1 := upd rho "ret:libwifi_quick_add_tag" r2 in
  calls "libwifi_quick_add_tag" (skipn 17 body_libwifi_create_assoc_req) /\
  observe (exec 10 m rho1 tr (skipn 17 body_libwifi_create_assoc_req)) =
    Some (Some r2, (tr ++ [ev_add_tag rho "&assoc_req->tags" c_TAG_DS_PARAMETER "&channel" 1])%list).
Proof.
  intros Hr rho1; nums. unfold rho1, body_libwifi_create_assoc_req; clear rho1. cbn [firstn skipn].
  split; [reflexivity | ].
  destruct (Z.eqb_spec r2 0) as [E | N]; [subst r2 | ]; gen_observe.
Qed.

Theorem code_create_probe_req rho n r :
  0 <= n < 2 ^ 64 -> - 2 ^ 31 <= r < 2 ^ 31 ->
  let rho0 := upd (upd rho "ret:strlen" n) "ret:libwifi_quick_add_tag" r in
  exists rho',
    exec 40 m rho0 [] body_libwifi_create_probe_req =
      Returned (Some r) rho'
        (mgmt_events rho "probe_req" sizeof_libwifi_probe_req "receiver" "transmitter" "address3" ++
         [("strlen", [wrap u64 (rho "ssid")]); ev_add_tag rho "&probe_req->tags" c_TAG_SSID "ssid" n] ++
         (if r =? 0 then [ev_add_tag rho "&probe_req->tags" c_TAG_DS_PARAMETER "&channel" 1] else [])) /\
    rho' "probe_req->frame_header.frame_control.type" = c_TYPE_MANAGEMENT /\
    rho' "probe_req->frame_header.frame_control.subtype" = c_SUBTYPE_PROBE_REQ /\
    reads_zero rho' "probe_req->frame_header." mgmt_rest /\
    untouched "probe_req->"
      ["probe_req->frame_header.frame_control.type"; "probe_req->frame_header.frame_control.subtype"]
      ["probe_req->frame_header.addr1"; "probe_req->frame_header.addr2"; "probe_req->frame_header.addr3"; "probe_req->tags"] rho'.
Proof.
  intros Hn Hr rho0; nums. unfold rho0, body_libwifi_create_probe_req; clear rho0.
  gen_prefix. destruct (Z.eqb_spec r 0) as [E | N]; [subst r | ]; gen_finish.
Qed.

Theorem code_create_probe_req_before_add rho :
  exists rho1,
    exec 40 m rho [] (firstn 11 body_libwifi_create_probe_req) =
      Fell rho1 (mgmt_events rho "probe_req" sizeof_libwifi_probe_req "receiver" "transmitter" "address3" ++ [("strlen", [wrap u64 (rho "ssid")])])%list /\
    (forall s, rho1 ("probe_req->tags" ++ s) = 0) /\
    calls "libwifi_quick_add_tag" (skipn 11 body_libwifi_create_probe_req).
Proof.
  unfold body_libwifi_create_probe_req. cbn [firstn skipn]. gen_before.
Qed.

Theorem code_create_probe_req_second_add rho tr r2 :
  - 2 ^ 31 <= r2 < 2 ^ 31 ->
  let rho1 := upd rho "ret:libwifi_quick_add_tag" r2 in
  calls "libwifi_quick_add_tag" (skipn 15 body_libwifi_create_probe_req) /\
  observe (exec 10 m rho1 tr (skipn 15 body_libwifi_create_probe_req)) =
    Some (Some r2, (tr ++ [ev_add_tag rho "&probe_req->tags" c_TAG_DS_PARAMETER "&channel" 1])%list).
Proof.
  intros Hr rho1; nums. unfold rho1, body_libwifi_create_probe_req; clear rho1. cbn [firstn skipn].
  split; [reflexivity | ]. gen_observe.
Qed.

(* reassociation request: the current AP address is a fourth six-octet copy, into the fixed parameters *)
Theorem code_create_reassoc_req rho n r :
  0 <= n < 2 ^ 64 -> - 2 ^ 31 <= r < 2 ^ 31 ->
  let rho0 := upd (upd rho "ret:strlen" n) "ret:libwifi_quick_add_tag" r in
  exists rho',
    exec 40 m rho0 [] body_libwifi_create_reassoc_req =
      Returned (Some r) rho'
        (mgmt_events rho "reassoc_req" sizeof_libwifi_reassoc_req "receiver" "transmitter" "address3" ++
         [ev_memcpy rho "&reassoc_req->fixed_parameters.current_ap_address" "current_ap" 6;
          ("strlen", [wrap u64 (rho "ssid")]); ev_add_tag rho "&reassoc_req->tags" c_TAG_SSID "ssid" n] ++
         (if r =? 0 then [ev_add_tag rho "&reassoc_req->tags" c_TAG_DS_PARAMETER "&channel" 1] else [])) /\
    rho' "reassoc_req->frame_header.frame_control.type" = c_TYPE_MANAGEMENT /\
    rho' "reassoc_req->frame_header.frame_control.subtype" = c_SUBTYPE_REASSOC_REQ /\
    rho' "reassoc_req->fixed_parameters.capabilities_information" = c_LIBWIFI_DEFAULT_AP_CAPABS /\
    rho' "reassoc_req->fixed_parameters.listen_interval" = c_LIBWIFI_DEFAULT_LISTEN_INTERVAL /\
    reads_zero rho' "reassoc_req->frame_header." mgmt_rest /\
    untouched "reassoc_req->"
      ["reassoc_req->frame_header.frame_control.type"; "reassoc_req->frame_header.frame_control.subtype";
       "reassoc_req->fixed_parameters.capabilities_information"; "reassoc_req->fixed_parameters.listen_interval"]
      ["reassoc_req->frame_header.addr1"; "reassoc_req->frame_header.addr2"; "reassoc_req->frame_header.addr3";
       "reassoc_req->fixed_parameters.current_ap_address"; "reassoc_req->tags"] rho'.
Proof.
  intros Hn Hr rho0; nums. unfold rho0, body_libwifi_create_reassoc_req; clear rho0.
  gen_prefix. destruct (Z.eqb_spec r 0) as [E | N]; [subst r | ]; gen_finish.
Qed.

Theorem code_create_reassoc_req_before_add rho :
  exists rho1,
    exec 40 m rho [] (firstn 15 body_libwifi_create_reassoc_req) =
      Fell rho1 (mgmt_events rho "reassoc_req" sizeof_libwifi_reassoc_req "receiver" "transmitter" "address3" ++
                 [ev_memcpy rho "&reassoc_req->fixed_parameters.current_ap_address" "current_ap" 6; ("strlen", [wrap u64 (rho "ssid")])]) /\
    (forall s, rho1 ("reassoc_req->tags" ++ s) = 0) /\
    calls "libwifi_quick_add_tag" (skipn 15 body_libwifi_create_reassoc_req).
Proof.
  unfold body_libwifi_create_reassoc_req. cbn [firstn skipn]. gen_before.
Qed.

Theorem code_create_reassoc_req_second_add rho tr r2 :
  - 2 ^ 31 <= r2 < 2 ^ 31 ->
  let rho1 := upd rho "ret:libwifi_quick_add_tag" r2 in
  calls "libwifi_quick_add_tag" (skipn 19 body_libwifi_create_reassoc_req) /\
  observe (exec 10 m rho1 tr (skipn 19 body_libwifi_create_reassoc_req)) =
    Some (Some r2, (tr ++ [ev_add_tag rho "&reassoc_req->tags" c_TAG_DS_PARAMETER "&channel" 1])%list).
Proof.
  intros Hr rho1; nums. unfold rho1, body_libwifi_create_reassoc_req; clear rho1. cbn [firstn skipn].
  split; [reflexivity | ]. gen_observe.
Qed.

(* ================================================================ 4. the routines that add their tags through the setters
   now = what libwifi_get_epoch answers, s / c = what the SSID / channel setter answers, ch = the channel argument.
   The setters receive the object pointer itself; the translation marks nothing as written by them, so the frame statement
   lists "obj->tags" among the members it says nothing about (section 5 shows the setters write nothing else). *)

Theorem code_create_beacon rho now s c ch :
  0 <= now < 2 ^ 64 -> - 2 ^ 31 <= s < 2 ^ 31 -> - 2 ^ 31 <= c < 2 ^ 31 -> 0 <= ch < 256 ->
  let rho0 := upd (upd (upd (upd rho "ret:libwifi_get_epoch" now) "ret:libwifi_set_beacon_ssid" s)
                     "ret:libwifi_set_beacon_channel" c) "channel" ch in
  exists rho',
    exec 40 m rho0 [] body_libwifi_create_beacon =
      Returned (Some (if s =? 0 then c else s)) rho'
        (mgmt_events rho "beacon" sizeof_libwifi_beacon "receiver" "transmitter" "address3" ++
         [("libwifi_get_epoch", []); ("libwifi_set_beacon_ssid", [wrap u64 (rho "beacon"); wrap u64 (rho "ssid")])] ++
         (if s =? 0 then [("libwifi_set_beacon_channel", [wrap u64 (rho "beacon"); ch])] else [])) /\
    rho' "beacon->frame_header.frame_control.type" = c_TYPE_MANAGEMENT /\
    rho' "beacon->frame_header.frame_control.subtype" = c_SUBTYPE_BEACON /\
    rho' "beacon->fixed_parameters.timestamp" = now /\
    rho' "beacon->fixed_parameters.beacon_interval" = c_LIBWIFI_DEFAULT_BEACON_INTERVAL /\
    rho' "beacon->fixed_parameters.capabilities_information" = c_LIBWIFI_DEFAULT_AP_CAPABS /\
    reads_zero rho' "beacon->frame_header." mgmt_rest /\
    untouched "beacon->"
      ["beacon->frame_header.frame_control.type"; "beacon->frame_header.frame_control.subtype";
       "beacon->fixed_parameters.timestamp"; "beacon->fixed_parameters.beacon_interval";
       "beacon->fixed_parameters.capabilities_information"]
      ["beacon->frame_header.addr1"; "beacon->frame_header.addr2"; "beacon->frame_header.addr3"; "beacon->tags"] rho'.
Proof.
  intros Hnow Hs Hc Hch rho0; nums. unfold rho0, body_libwifi_create_beacon; clear rho0.
  gen_prefix. destruct (Z.eqb_spec s 0) as [E | N]; [subst s | ]; gen_finish.
Qed.

Theorem code_create_beacon_before_add rho now :
  0 <= now < 2 ^ 64 ->
  let rho0 := upd rho "ret:libwifi_get_epoch" now in
  exists rho1,
    exec 40 m rho0 [] (firstn 14 body_libwifi_create_beacon) =
      Fell rho1 (mgmt_events rho "beacon" sizeof_libwifi_beacon "receiver" "transmitter" "address3" ++ [("libwifi_get_epoch", [])]) /\
    (forall s, rho1 ("beacon->tags" ++ s) = 0) /\
    calls "libwifi_set_beacon_ssid" (skipn 14 body_libwifi_create_beacon).
Proof.
  intros Hnow rho0; nums. unfold rho0, body_libwifi_create_beacon; clear rho0. cbn [firstn skipn]. gen_before.
Qed.

Theorem code_create_probe_resp rho now s c ch :
  0 <= now < 2 ^ 64 -> - 2 ^ 31 <= s < 2 ^ 31 -> - 2 ^ 31 <= c < 2 ^ 31 -> 0 <= ch < 256 ->
  let rho0 := upd (upd (upd (upd rho "ret:libwifi_get_epoch" now) "ret:libwifi_set_probe_resp_ssid" s)
                     "ret:libwifi_set_probe_resp_channel" c) "channel" ch in
  exists rho',
    exec 40 m rho0 [] body_libwifi_create_probe_resp =
      Returned (Some (if s =? 0 then c else s)) rho'
        (mgmt_events rho "probe_resp" sizeof_libwifi_probe_resp "receiver" "transmitter" "address3" ++
         [("libwifi_get_epoch", []); ("libwifi_set_probe_resp_ssid", [wrap u64 (rho "probe_resp"); wrap u64 (rho "ssid")])] ++
         (if s =? 0 then [("libwifi_set_probe_resp_channel", [wrap u64 (rho "probe_resp"); ch])] else [])) /\
    rho' "probe_resp->frame_header.frame_control.type" = c_TYPE_MANAGEMENT /\
    rho' "probe_resp->frame_header.frame_control.subtype" = c_SUBTYPE_PROBE_RESP /\
    rho' "probe_resp->fixed_parameters.timestamp" = now /\
    rho' "probe_resp->fixed_parameters.probe_resp_interval" = c_LIBWIFI_DEFAULT_BEACON_INTERVAL /\
    rho' "probe_resp->fixed_parameters.capabilities_information" = c_LIBWIFI_DEFAULT_AP_CAPABS /\
    reads_zero rho' "probe_resp->frame_header." mgmt_rest /\
    untouched "probe_resp->"
      ["probe_resp->frame_header.frame_control.type"; "probe_resp->frame_header.frame_control.subtype";
       "probe_resp->fixed_parameters.timestamp"; "probe_resp->fixed_parameters.probe_resp_interval";
       "probe_resp->fixed_parameters.capabilities_information"]
      ["probe_resp->frame_header.addr1"; "probe_resp->frame_header.addr2"; "probe_resp->frame_header.addr3"; "probe_resp->tags"] rho'.
Proof.
  intros Hnow Hs Hc Hch rho0; nums. unfold rho0, body_libwifi_create_probe_resp; clear rho0.
  gen_prefix. destruct (Z.eqb_spec s 0) as [E | N]; [subst s | ]; gen_finish.
Qed.

Theorem code_create_probe_resp_before_add rho now :
  0 <= now < 2 ^ 64 ->
  let rho0 := upd rho "ret:libwifi_get_epoch" now in
  exists rho1,
    exec 40 m rho0 [] (firstn 14 body_libwifi_create_probe_resp) =
      Fell rho1 (mgmt_events rho "probe_resp" sizeof_libwifi_probe_resp "receiver" "transmitter" "address3" ++
                 [("libwifi_get_epoch", [])]) /\
    (forall s, rho1 ("probe_resp->tags" ++ s) = 0) /\
    calls "libwifi_set_probe_resp_ssid" (skipn 14 body_libwifi_create_probe_resp).
Proof.
  intros Hnow rho0; nums. unfold rho0, body_libwifi_create_probe_resp; clear rho0. cbn [firstn skipn]. gen_before.
Qed.

(* association response: status SUCCESS, association id left 0, the channel through its setter, then the supported rates:
   tag 1 with the sizeof(supported_rates) - 1 = 8 octets of the local array (its initialiser is not an integer expression:
   the translation shows the array's address only; the length is that of LIBWIFI_DEFAULT_SUPP_RATES).
   The answer of the rates add is returned whatever it is. *)
Theorem code_create_assoc_resp rho s r ch :
  - 2 ^ 31 <= s < 2 ^ 31 -> - 2 ^ 31 <= r < 2 ^ 31 -> 0 <= ch < 256 ->
  let rho0 := upd (upd (upd rho "ret:libwifi_set_assoc_resp_channel" s) "ret:libwifi_quick_add_tag" r) "channel" ch in
  exists rho',
    exec 40 m rho0 [] body_libwifi_create_assoc_resp =
      Returned (Some (if s =? 0 then r else s)) rho'
        (mgmt_events rho "assoc_resp" sizeof_libwifi_assoc_resp "receiver" "transmitter" "address3" ++
         [("libwifi_set_assoc_resp_channel", [wrap u64 (rho "assoc_resp"); ch])] ++
         (if s =? 0 then [ev_add_tag rho "&assoc_resp->tags" c_TAG_SUPP_RATES "&supported_rates"
                            (Z.of_nat (List.length c_LIBWIFI_DEFAULT_SUPP_RATES))] else [])) /\
    rho' "assoc_resp->frame_header.frame_control.type" = c_TYPE_MANAGEMENT /\
    rho' "assoc_resp->frame_header.frame_control.subtype" = c_SUBTYPE_ASSOC_RESP /\
    rho' "assoc_resp->fixed_parameters.capabilities_information" = c_LIBWIFI_DEFAULT_AP_CAPABS /\
    rho' "assoc_resp->fixed_parameters.status_code" = c_STATUS_SUCCESS /\
    rho' "assoc_resp->fixed_parameters.association_id" = 0 /\
    reads_zero rho' "assoc_resp->frame_header." mgmt_rest /\
    untouched "assoc_resp->"
      ["assoc_resp->frame_header.frame_control.type"; "assoc_resp->frame_header.frame_control.subtype";
       "assoc_resp->fixed_parameters.capabilities_information"; "assoc_resp->fixed_parameters.status_code"]
      ["assoc_resp->frame_header.addr1"; "assoc_resp->frame_header.addr2"; "assoc_resp->frame_header.addr3"; "assoc_resp->tags"] rho'.
Proof.
  intros Hs Hr Hch rho0; nums. unfold rho0, body_libwifi_create_assoc_resp; clear rho0.
  gen_prefix. destruct (Z.eqb_spec s 0) as [E | N]; [subst s | ]; gen_finish.
Qed.

Theorem code_create_assoc_resp_before_add rho :
  exists rho1,
    exec 40 m rho [] (firstn 12 body_libwifi_create_assoc_resp) =
      Fell rho1 (mgmt_events rho "assoc_resp" sizeof_libwifi_assoc_resp "receiver" "transmitter" "address3") /\
    (forall s, rho1 ("assoc_resp->tags" ++ s) = 0) /\
    calls "libwifi_set_assoc_resp_channel" (skipn 12 body_libwifi_create_assoc_resp).
Proof.
  unfold body_libwifi_create_assoc_resp. cbn [firstn skipn]. gen_before.
Qed.

(* reassociation response.  DEVIATION from the association response: no supported-rates element is added, the channel
   setter's answer is the routine's *)
Theorem code_create_reassoc_resp rho s ch :
  - 2 ^ 31 <= s < 2 ^ 31 -> 0 <= ch < 256 ->
  let rho0 := upd (upd rho "ret:libwifi_set_reassoc_resp_channel" s) "channel" ch in
  exists rho',
    exec 40 m rho0 [] body_libwifi_create_reassoc_resp =
      Returned (Some s) rho'
        (mgmt_events rho "reassoc_resp" sizeof_libwifi_reassoc_resp "receiver" "transmitter" "address3" ++
         [("libwifi_set_reassoc_resp_channel", [wrap u64 (rho "reassoc_resp"); ch])]) /\
    rho' "reassoc_resp->frame_header.frame_control.type" = c_TYPE_MANAGEMENT /\
    rho' "reassoc_resp->frame_header.frame_control.subtype" = c_SUBTYPE_REASSOC_RESP /\
    rho' "reassoc_resp->fixed_parameters.capabilities_information" = c_LIBWIFI_DEFAULT_AP_CAPABS /\
    rho' "reassoc_resp->fixed_parameters.status_code" = c_STATUS_SUCCESS /\
    rho' "reassoc_resp->fixed_parameters.association_id" = 0 /\
    reads_zero rho' "reassoc_resp->frame_header." mgmt_rest /\
    untouched "reassoc_resp->"
      ["reassoc_resp->frame_header.frame_control.type"; "reassoc_resp->frame_header.frame_control.subtype";
       "reassoc_resp->fixed_parameters.capabilities_information"; "reassoc_resp->fixed_parameters.status_code"]
      ["reassoc_resp->frame_header.addr1"; "reassoc_resp->frame_header.addr2"; "reassoc_resp->frame_header.addr3";
       "reassoc_resp->tags"] rho'.
Proof.
  intros Hs Hch rho0; nums. unfold rho0, body_libwifi_create_reassoc_resp; clear rho0. gen_finish.
Qed.

Theorem code_create_reassoc_resp_before_add rho :
  exists rho1,
    exec 40 m rho [] (firstn 12 body_libwifi_create_reassoc_resp) =
      Fell rho1 (mgmt_events rho "reassoc_resp" sizeof_libwifi_reassoc_resp "receiver" "transmitter" "address3") /\
    (forall s, rho1 ("reassoc_resp->tags" ++ s) = 0) /\
    calls "libwifi_set_reassoc_resp_channel" (skipn 12 body_libwifi_create_reassoc_resp).
Proof.
  unfold body_libwifi_create_reassoc_resp. cbn [firstn skipn]. gen_before.
Qed.

(* ================================================================ 5. the setters the generators of section 4 call
   L = obj->tags.length on entry, p / r / d = what libwifi_check_tag / libwifi_quick_add_tag / libwifi_remove_tag answer,
   n = what strlen(ssid) answers.  With an empty list (L = 0: the state the generators call the first setter in, by the
   [..._before_add] theorems) nothing is looked up and nothing removed: exactly one add, whose answer is returned.
   Otherwise the element is looked up first; a negative answer is returned at once; else the new element is added, a
   non-zero answer of the add is returned, and the OLD element is removed after the add when the look-up found one (the
   answer of the removal is then the routine's).  Only "obj->tags" is handed to the callees: the setters write nothing else. *)
Ltac setter_cases L p r :=
  destruct (Z.eqb_spec L 0) as [EL | NL]; [subst L | ];
  [ | destruct (Z_lt_le_dec p 0) as [Hp | Hp]; [ | destruct (Z.eqb_spec p 0) as [Ep | Np]; [subst p | ] ] ];
  (destruct (Z.eqb_spec r 0) as [Er | Nr]; [subst r | ]).
Ltac setter_solve L p r := setter_cases L p r; decide_bools; cbn [negb]; cbv beta iota; gen_observe.

Definition setter_env (rho : env) (len : string) (L p r d : Z) : env :=
  upd (upd (upd (upd rho len L) "ret:libwifi_check_tag" p) "ret:libwifi_quick_add_tag" r) "ret:libwifi_remove_tag" d.
(* the outcome of a setter: chk = the look-up event, adds = the events of the add, rem = the removal event *)
Definition setter_outcome (L p r d : Z) (chk : event) (adds : list event) (rem : event) : option (option Z * list event) :=
  let pe := if L =? 0 then 0 else p in
  let pre := if L =? 0 then [] else [chk] in
  if pe <? 0 then Some (Some pe, pre)
  else if negb (r =? 0) then Some (Some r, (pre ++ adds)%list)
  else if pe >? 0 then Some (Some d, (pre ++ adds ++ [rem])%list)
  else Some (Some 0, (pre ++ adds)%list).
Definition ev_tag_op (rho : env) (f tags : string) (num : Z) : event := (f, [wrap u64 (rho tags); num]).

Theorem code_set_beacon_ssid rho L p r d n :
  0 <= L < 2 ^ 64 -> - 2 ^ 31 <= p < 2 ^ 31 -> - 2 ^ 31 <= r < 2 ^ 31 -> - 2 ^ 31 <= d < 2 ^ 31 -> 0 <= n < 2 ^ 64 ->
  let rho0 := upd (setter_env rho "beacon->tags.length" L p r d) "ret:strlen" n in
  observe (exec 40 m rho0 [] body_libwifi_set_beacon_ssid) =
    setter_outcome L p r d (ev_tag_op rho "libwifi_check_tag" "&beacon->tags" c_TAG_SSID)
      [("strlen", [wrap u64 (rho "ssid")]); ev_add_tag rho "&beacon->tags" c_TAG_SSID "ssid" n]
      (ev_tag_op rho "libwifi_remove_tag" "&beacon->tags" c_TAG_SSID).
Proof.
  intros HL Hp0 Hr Hd Hn rho0; nums.
  unfold rho0, setter_env, setter_outcome, ev_tag_op, body_libwifi_set_beacon_ssid; clear rho0. setter_solve L p r.
Qed.

Theorem code_set_probe_resp_ssid rho L p r d n :
  0 <= L < 2 ^ 64 -> - 2 ^ 31 <= p < 2 ^ 31 -> - 2 ^ 31 <= r < 2 ^ 31 -> - 2 ^ 31 <= d < 2 ^ 31 -> 0 <= n < 2 ^ 64 ->
  let rho0 := upd (setter_env rho "probe_resp->tags.length" L p r d) "ret:strlen" n in
  observe (exec 40 m rho0 [] body_libwifi_set_probe_resp_ssid) =
    setter_outcome L p r d (ev_tag_op rho "libwifi_check_tag" "&probe_resp->tags" c_TAG_SSID)
      [("strlen", [wrap u64 (rho "ssid")]); ev_add_tag rho "&probe_resp->tags" c_TAG_SSID "ssid" n]
      (ev_tag_op rho "libwifi_remove_tag" "&probe_resp->tags" c_TAG_SSID).
Proof.
  intros HL Hp0 Hr Hd Hn rho0; nums.
  unfold rho0, setter_env, setter_outcome, ev_tag_op, body_libwifi_set_probe_resp_ssid; clear rho0. setter_solve L p r.
Qed.

(* the channel setters: one octet, from the address of the by-value parameter [channel] *)
Theorem code_set_beacon_channel rho L p r d :
  0 <= L < 2 ^ 64 -> - 2 ^ 31 <= p < 2 ^ 31 -> - 2 ^ 31 <= r < 2 ^ 31 -> - 2 ^ 31 <= d < 2 ^ 31 ->
  let rho0 := setter_env rho "beacon->tags.length" L p r d in
  observe (exec 40 m rho0 [] body_libwifi_set_beacon_channel) =
    setter_outcome L p r d (ev_tag_op rho "libwifi_check_tag" "&beacon->tags" c_TAG_DS_PARAMETER)
      [ev_add_tag rho "&beacon->tags" c_TAG_DS_PARAMETER "&channel" 1]
      (ev_tag_op rho "libwifi_remove_tag" "&beacon->tags" c_TAG_DS_PARAMETER).
Proof.
  intros HL Hp0 Hr Hd rho0; nums.
  unfold rho0, setter_env, setter_outcome, ev_tag_op, body_libwifi_set_beacon_channel; clear rho0. setter_solve L p r.
Qed.

Theorem code_set_probe_resp_channel rho L p r d :
  0 <= L < 2 ^ 64 -> - 2 ^ 31 <= p < 2 ^ 31 -> - 2 ^ 31 <= r < 2 ^ 31 -> - 2 ^ 31 <= d < 2 ^ 31 ->
  let rho0 := setter_env rho "probe_resp->tags.length" L p r d in
  observe (exec 40 m rho0 [] body_libwifi_set_probe_resp_channel) =
    setter_outcome L p r d (ev_tag_op rho "libwifi_check_tag" "&probe_resp->tags" c_TAG_DS_PARAMETER)
      [ev_add_tag rho "&probe_resp->tags" c_TAG_DS_PARAMETER "&channel" 1]
      (ev_tag_op rho "libwifi_remove_tag" "&probe_resp->tags" c_TAG_DS_PARAMETER).
Proof.
  intros HL Hp0 Hr Hd rho0; nums.
  unfold rho0, setter_env, setter_outcome, ev_tag_op, body_libwifi_set_probe_resp_channel; clear rho0. setter_solve L p r.
Qed.

Theorem code_set_assoc_resp_channel rho L p r d :
  0 <= L < 2 ^ 64 -> - 2 ^ 31 <= p < 2 ^ 31 -> - 2 ^ 31 <= r < 2 ^ 31 -> - 2 ^ 31 <= d < 2 ^ 31 ->
  let rho0 := setter_env rho "assoc_resp->tags.length" L p r d in
  observe (exec 40 m rho0 [] body_libwifi_set_assoc_resp_channel) =
    setter_outcome L p r d (ev_tag_op rho "libwifi_check_tag" "&assoc_resp->tags" c_TAG_DS_PARAMETER)
      [ev_add_tag rho "&assoc_resp->tags" c_TAG_DS_PARAMETER "&channel" 1]
      (ev_tag_op rho "libwifi_remove_tag" "&assoc_resp->tags" c_TAG_DS_PARAMETER).
Proof.
  intros HL Hp0 Hr Hd rho0; nums.
  unfold rho0, setter_env, setter_outcome, ev_tag_op, body_libwifi_set_assoc_resp_channel; clear rho0. setter_solve L p r.
Qed.

Theorem code_set_reassoc_resp_channel rho L p r d :
  0 <= L < 2 ^ 64 -> - 2 ^ 31 <= p < 2 ^ 31 -> - 2 ^ 31 <= r < 2 ^ 31 -> - 2 ^ 31 <= d < 2 ^ 31 ->
  let rho0 := setter_env rho "reassoc_resp->tags.length" L p r d in
  observe (exec 40 m rho0 [] body_libwifi_set_reassoc_resp_channel) =
    setter_outcome L p r d (ev_tag_op rho "libwifi_check_tag" "&reassoc_resp->tags" c_TAG_DS_PARAMETER)
      [ev_add_tag rho "&reassoc_resp->tags" c_TAG_DS_PARAMETER "&channel" 1]
      (ev_tag_op rho "libwifi_remove_tag" "&reassoc_resp->tags" c_TAG_DS_PARAMETER).
Proof.
  intros HL Hp0 Hr Hd rho0; nums.
  unfold rho0, setter_env, setter_outcome, ev_tag_op, body_libwifi_set_reassoc_resp_channel; clear rho0. setter_solve L p r.
Qed.

(* with an empty list: one add, nothing else *)
Corollary code_set_beacon_ssid_fresh rho p r d n :
  - 2 ^ 31 <= p < 2 ^ 31 -> - 2 ^ 31 <= r < 2 ^ 31 -> - 2 ^ 31 <= d < 2 ^ 31 -> 0 <= n < 2 ^ 64 ->
  observe (exec 40 m (upd (setter_env rho "beacon->tags.length" 0 p r d) "ret:strlen" n) [] body_libwifi_set_beacon_ssid) =
    Some (Some r, [("strlen", [wrap u64 (rho "ssid")]); ev_add_tag rho "&beacon->tags" c_TAG_SSID "ssid" n]).
Proof.
  intros Hp Hr Hd Hn. rewrite (code_set_beacon_ssid rho 0 p r d n) by (assumption || (change (2 ^ 64) with 18446744073709551616; lia)).
  unfold setter_outcome. change (0 =? 0) with true. cbv beta iota. change (0 <? 0) with false. change (0 >? 0) with false. cbv beta iota.
  destruct (Z.eqb_spec r 0) as [E | N]; [subst r | ]; reflexivity.
Qed.

(* ================================================================ 6. the timing advertisement
   destination / transmitter / address3, the time stamp, the defaults (the one-octet measurement pilot interval gets the
   beacon interval's 100), the country by a three-octet copy, the four power figures from the arguments.  All of this is
   done BEFORE the test of adv_fields: with adv_fields == NULL the routine returns -EINVAL leaving a filled object.
   Otherwise the element is assembled in the local array element_data (address e; e + 17 has to stay an address: the
   destinations are pointer sums): the capabilities octet, then by its value tc: 1 -> time value (10) and time error (5);
   2 -> the same and the update counter (1); any other value -> nothing more; and one add of element 69 with the
   length assembled (16 / 17 / 1).  Its answer is the routine's. *)
Definition ta_assigned : list string :=
  ["adv->frame_header.frame_control.type"; "adv->frame_header.frame_control.subtype";
   "adv->fixed_parameters.timestamp"; "adv->fixed_parameters.measurement_pilot_interval";
   "adv->fixed_parameters.beacon_interval"; "adv->fixed_parameters.capabilities_information";
   "adv->fixed_parameters.max_reg_power"; "adv->fixed_parameters.max_tx_power";
   "adv->fixed_parameters.tx_power_used"; "adv->fixed_parameters.noise_floor"].
Definition ta_clobbered : list string :=
  ["adv->frame_header.addr1"; "adv->frame_header.addr2"; "adv->frame_header.addr3"; "adv->fixed_parameters.country"; "adv->tags"].
Definition ta_fields (rho' : env) (now mrp mtp tpu nf : Z) : Prop :=
  rho' "adv->frame_header.frame_control.type" = c_TYPE_MANAGEMENT /\
  rho' "adv->frame_header.frame_control.subtype" = c_SUBTYPE_TIME_ADV /\
  rho' "adv->fixed_parameters.timestamp" = now /\
  rho' "adv->fixed_parameters.measurement_pilot_interval" = c_LIBWIFI_DEFAULT_BEACON_INTERVAL /\
  rho' "adv->fixed_parameters.beacon_interval" = c_LIBWIFI_DEFAULT_BEACON_INTERVAL /\
  rho' "adv->fixed_parameters.capabilities_information" = c_LIBWIFI_DEFAULT_AP_CAPABS /\
  rho' "adv->fixed_parameters.max_reg_power" = mrp /\
  rho' "adv->fixed_parameters.max_tx_power" = mtp /\
  rho' "adv->fixed_parameters.tx_power_used" = tpu /\
  rho' "adv->fixed_parameters.noise_floor" = nf /\
  reads_zero rho' "adv->frame_header." mgmt_rest /\
  untouched "adv->" ta_assigned ta_clobbered rho'.
Definition ta_events (rho : env) : list event :=
  (mgmt_events rho "adv" sizeof_libwifi_timing_advert "destination" "transmitter" "address3" ++
   [("libwifi_get_epoch", []); ev_memcpy rho "&adv->fixed_parameters.country" "country" 3])%list.
Definition ta_args (rho : env) (now mrp mtp tpu nf af : Z) : env :=
  upd (upd (upd (upd (upd (upd rho "ret:libwifi_get_epoch" now) "max_reg_power" mrp) "max_tx_power" mtp)
                "tx_power_used" tpu) "noise_floor" nf) "adv_fields" af.

Theorem code_create_timing_advert_null rho now mrp mtp tpu nf :
  0 <= now < 2 ^ 64 -> 0 <= mrp < 65536 -> 0 <= mtp < 256 -> 0 <= tpu < 256 -> 0 <= nf < 256 ->
  let rho0 := ta_args rho now mrp mtp tpu nf 0 in
  exists rho',
    exec 60 m rho0 [] body_libwifi_create_timing_advert = Returned (Some (-22)) rho' (ta_events rho) /\
    ta_fields rho' now mrp mtp tpu nf.
Proof.
  intros Hnow Hmrp Hmtp Htpu Hnf rho0; nums.
  unfold rho0, ta_args, body_libwifi_create_timing_advert, ta_fields, ta_events, ta_assigned, ta_clobbered; clear rho0.
  gen_finish.
Qed.

Theorem code_create_timing_advert rho now mrp mtp tpu nf af tc e r :
  0 <= now < 2 ^ 64 -> 0 <= mrp < 65536 -> 0 <= mtp < 256 -> 0 <= tpu < 256 -> 0 <= nf < 256 ->
  0 < af < 2 ^ 64 -> 0 <= tc < 256 -> 0 <= e -> e + 17 < 2 ^ 63 -> - 2 ^ 31 <= r < 2 ^ 31 ->
  let rho0 := upd (upd (upd (ta_args rho now mrp mtp tpu nf af) "adv_fields->timing_capabilities" tc) "&element_data" e)
                "ret:libwifi_quick_add_tag" r in
  let copy dst src n : event := ("memcpy", [dst; wrap u64 (rho src); n]) in
  let copies :=
    if tc =? 1 then [copy (e + 1) "&adv_fields->time_value" 10; copy (e + 11) "&adv_fields->time_error" 5]
    else if tc =? 2 then [copy (e + 1) "&adv_fields->time_value" 10; copy (e + 11) "&adv_fields->time_error" 5;
                          copy (e + 16) "&adv_fields->time_update" 1]
    else [] in
  let len := if tc =? 1 then 16 else if tc =? 2 then 17 else 1 in
  exists rho',
    exec 60 m rho0 [] body_libwifi_create_timing_advert =
      Returned (Some r) rho'
        (ta_events rho ++ [copy e "&adv_fields->timing_capabilities" 1] ++ copies ++
         [("libwifi_quick_add_tag", [wrap u64 (rho "&adv->tags"); c_TAG_TIME_ADVERTISEMENT; e; len])]) /\
    ta_fields rho' now mrp mtp tpu nf.
Proof.
  intros Hnow Hmrp Hmtp Htpu Hnf Haf Htc He Hee Hr rho0 copy copies len; nums.
  unfold copies, len, copy, rho0, ta_args, body_libwifi_create_timing_advert, ta_fields, ta_events, ta_assigned, ta_clobbered;
    clear copies len copy rho0.
  gen_prefix.
  destruct (Z.eqb_spec tc 1) as [E1 | N1]; [subst tc | destruct (Z.eqb_spec tc 2) as [E2 | N2]; [subst tc | ]];
    cbv beta iota; gen_finish.
Qed.

(* the object's tags are empty when that add is made (the run up to the add, whatever the capabilities octet) *)
Theorem code_create_timing_advert_before_add rho now mrp mtp tpu nf af tc e :
  0 <= now < 2 ^ 64 -> 0 <= mrp < 65536 -> 0 <= mtp < 256 -> 0 <= tpu < 256 -> 0 <= nf < 256 -> 0 < af < 2 ^ 64 ->
  0 <= tc < 256 -> 0 <= e -> e + 17 < 2 ^ 63 ->
  let rho0 := upd (upd (ta_args rho now mrp mtp tpu nf af) "adv_fields->timing_capabilities" tc) "&element_data" e in
  exists rho1 tr1,
    exec 60 m rho0 [] (firstn 29 body_libwifi_create_timing_advert) = Fell rho1 tr1 /\
    (forall s, rho1 ("adv->tags" ++ s) = 0) /\
    calls "libwifi_quick_add_tag" (skipn 29 body_libwifi_create_timing_advert).
Proof.
  intros Hnow Hmrp Hmtp Htpu Hnf Haf Htc He Hee rho0; nums.
  unfold rho0, ta_args, body_libwifi_create_timing_advert; clear rho0. cbn [firstn skipn].
  destruct (Z.eqb_spec tc 1) as [E1 | N1]; [subst tc | destruct (Z.eqb_spec tc 2) as [E2 | N2]; [subst tc | ]];
    (eexists; eexists; split; [grun | split; [intros s; gen_env; reflexivity | reflexivity]]).
Qed.


End WithMemory.

(* ================================================================ 7. the ATIM addresses on concrete values
   "addr1 is the receiver argument, addr2 the transmitter argument" (what every other management generator does) is FALSE
   for libwifi_create_atim: with receiver = 100, transmitter = 200 the copy into addr1 (at 4100) reads from 200. *)
Example code_create_atim_addr1_from_receiver_refuted :
  let rho := env_of [("atim", 4096); ("&atim->frame_header.addr1", 4100); ("&atim->frame_header.addr2", 4106);
                     ("&atim->frame_header.addr3", 4112); ("receiver", 100); ("transmitter", 200); ("address3", 300)] in
  observe (exec 40 (fun _ => None) rho [] body_libwifi_create_atim) =
    Some (Some 0, [("memset", [4096; 0; 24]); ("memcpy", [4100; 200; 6]); ("memcpy", [4106; 100; 6]); ("memcpy", [4112; 300; 6])]).
Proof. vm_compute. reflexivity. Qed.

Print Assumptions code_create_action.
Print Assumptions code_create_action_no_ack.
Print Assumptions code_create_atim.
Print Assumptions code_create_auth.
Print Assumptions code_create_deauth.
Print Assumptions code_create_disassoc.
Print Assumptions code_create_rts.
Print Assumptions code_create_cts.
Print Assumptions code_create_assoc_req.
Print Assumptions code_create_assoc_req_before_add.
Print Assumptions code_create_assoc_req_second_add.
Print Assumptions code_create_probe_req.
Print Assumptions code_create_probe_req_before_add.
Print Assumptions code_create_probe_req_second_add.
Print Assumptions code_create_reassoc_req.
Print Assumptions code_create_reassoc_req_before_add.
Print Assumptions code_create_reassoc_req_second_add.
Print Assumptions code_create_beacon.
Print Assumptions code_create_beacon_before_add.
Print Assumptions code_create_probe_resp.
Print Assumptions code_create_probe_resp_before_add.
Print Assumptions code_create_assoc_resp.
Print Assumptions code_create_assoc_resp_before_add.
Print Assumptions code_create_reassoc_resp.
Print Assumptions code_create_reassoc_resp_before_add.
Print Assumptions code_set_beacon_ssid.
Print Assumptions code_set_probe_resp_ssid.
Print Assumptions code_set_beacon_channel.
Print Assumptions code_set_probe_resp_channel.
Print Assumptions code_set_assoc_resp_channel.
Print Assumptions code_set_reassoc_resp_channel.
Print Assumptions code_set_beacon_ssid_fresh.
Print Assumptions code_create_timing_advert_null.
Print Assumptions code_create_timing_advert.
Print Assumptions code_create_timing_advert_before_add.
Print Assumptions code_create_atim_addr1_from_receiver_refuted.
