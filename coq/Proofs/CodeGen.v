(* the frame generators as translated: machinery in CodeGenDefs.v, the theorems in CodeGenA..D.v (built in parallel); here the ATIM example *)
From Coq Require Import ZArith String Ascii List Bool Lia.
From LW Require Import Base.CExpr Gen.Consts Gen.Layout Gen.Sites Proofs.SitesLemmas.
Import ListNotations.
Local Open Scope string_scope.
Local Open Scope Z_scope.
From LW Require Export Proofs.CodeGenDefs Proofs.CodeGenA Proofs.CodeGenB Proofs.CodeGenC Proofs.CodeGenD.

Section WithMemory.
Variable m : memory.


End WithMemory.

(* ================================================================ 7. the ATIM addresses on concrete values
   "addr1 is the receiver argument, addr2 the transmitter argument" (what every other management generator does) is FALSE
   for libwifi_create_atim: with receiver = 100, transmitter = 200 the copy into addr1 (at 4100) reads from 200. *)
Example code_create_atim_addr1_from_receiver_refuted :
  let rho := env_of [("atim", 4096); ("&atim->frame_header.addr1", 4100); ("&atim->frame_header.addr2", 4106);
                     ("&atim->frame_header.addr3", 4112); ("receiver", 100); ("transmitter", 200); ("address3", 300)] in
  observe (exec 40 (fun _ => None) rho [] body_libwifi_create_atim) =
    Some (Some 0, [("memset", [4096; 0; 24]); ("memcpy", [4100; 200; 6]); ("memcpy", [4106; 100; 6]); ("memcpy", [4112; 300; 6])]).
Proof. vm_compute. reflexivity. Qed.



