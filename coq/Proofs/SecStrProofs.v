(* C17 - proofs about the security description routines (Model/SecStr.v) against Spec/SecStrSpec.v.
   The generic part (any table, any summary value) never looks at the concrete tables; the concrete
   side conditions are one boolean check per routine, decided by computation. *)
From Coq Require Import List ZArith Lia ZifyBool Bool.
From LW Require Import Base.Bytes Base.Sweep Gen.Consts Gen.Tables Model.SecStr Spec.SecStrSpec.
Import ListNotations.
Local Open Scope Z_scope.
(* list byte and list Z are convertible but give lia syntactically different atoms *)
Ltac zlia := unfold byte in *; lia.

(* restated verbatim from Properties/Properties_C17.v (Proofs cannot import Properties) *)
Definition routines : list (list (Z * list byte) * list byte * list (Z * list byte)) :=
  [ (sec_table_security_type, sec_none_security_type, spec_generations);
    (sec_table_group_ciphers, sec_none_group_ciphers, spec_group);
    (sec_table_pairwise_ciphers, sec_none_pairwise_ciphers, spec_pairwise);
    (sec_table_auth_key_suites, sec_none_auth_key_suites, spec_akm) ].

(* ---------- list helpers ---------- *)
Lemma firstn_length_app {A} (l r : list A) : firstn (length l) (l ++ r) = l.
Proof. induction l as [|x l IH]; cbn; [destruct r; reflexivity | now rewrite IH]. Qed.
Lemma skipn_length_app {A} (l r : list A) k : skipn (length l + k) (l ++ r) = skipn k r.
Proof. induction l as [|x l IH]; cbn; [reflexivity | exact IH]. Qed.
Lemma skipn_repeat {A} (x : A) : forall k n, skipn k (repeat x n) = repeat x (n - k).
Proof.
  induction k as [|k IH]; intros n.
  - rewrite Nat.sub_0_r. reflexivity.
  - destruct n as [|n]; [reflexivity|]. cbn [repeat skipn]. rewrite IH. reflexivity.
Qed.
Lemma zfirstn_zlen_app {A} (l r : list A) : zfirstn (zlen l) (l ++ r) = l.
Proof. unfold zfirstn, zlen. rewrite Nat2Z.id. apply firstn_length_app. Qed.
Lemma zfirstn_zlen {A} (l : list A) : zfirstn (zlen l) l = l.
Proof. unfold zfirstn, zlen. rewrite Nat2Z.id. apply firstn_all. Qed.
Lemma zskipn_app_repeat {A} (l : list A) (x : A) k n : 0 <= k ->
  zskipn (zlen l + k) (l ++ repeat x n) = repeat x (n - Z.to_nat k).
Proof.
  intros Hk. unfold zskipn, zlen.
  replace (Z.to_nat (Z.of_nat (length l) + k)) with (length l + Z.to_nat k)%nat by zlia.
  rewrite skipn_length_app. apply skipn_repeat.
Qed.
Lemma zlen_repeat {A} (x : A) n : zlen (repeat x n) = Z.of_nat n.
Proof. unfold zlen. now rewrite repeat_length. Qed.

(* ---------- the buffer holding a string, zero padded to buf_len ---------- *)
Definition pad (s : list byte) : list byte := s ++ repeat 0 (Z.to_nat (buf_len - zlen s)).

Lemma zlen_pad s : zlen s <= buf_len -> zlen (pad s) = buf_len.
Proof. intros H. unfold pad. rewrite zlen_app, zlen_repeat. zlia. Qed.

Lemma snprintf_pad str s : zlen str + zlen s + 1 <= buf_len ->
  snprintf_at (pad str) (zlen str) buf_len s = Done (pad (str ++ s)).
Proof.
  intros H. pose proof (zlen_nonneg str) as Hs. pose proof (zlen_nonneg s) as Hn.
  unfold snprintf_at. rewrite Z.min_l by zlia.
  rewrite zlen_pad by zlia.
  destruct (zlen str <? 0) eqn:A; [zlia|].
  destruct (buf_len <? zlen str + zlen s + 1) eqn:B; [zlia|].
  cbn [orb]. f_equal.
  rewrite zfirstn_zlen.
  unfold pad at 1 2. rewrite zfirstn_zlen_app.
  replace (zlen str + zlen s + 1) with (zlen str + (zlen s + 1)) by zlia.
  rewrite zskipn_app_repeat by zlia.
  unfold pad. rewrite <- app_assoc. f_equal. f_equal.
  change ([0] ++ repeat 0 (Z.to_nat (buf_len - zlen str) - Z.to_nat (zlen s + 1)))
    with (repeat 0 (S (Z.to_nat (buf_len - zlen str) - Z.to_nat (zlen s + 1)))).
  f_equal. rewrite zlen_app. zlia.
Qed.

Lemma snprintf_pad_nil s : zlen s + 1 <= buf_len ->
  snprintf_at (pad []) 0 buf_len s = Done (pad s).
Proof.
  intros H. pose proof (snprintf_pad [] s) as P. rewrite zlen_nil in P. apply P. zlia.
Qed.

(* ---------- strings without NUL ---------- *)
Definition nz (l : list byte) : Prop := Forall (fun b => b <> 0) l.
Definition nzb (l : list byte) : bool := forallb (fun b => negb (b =? 0)) l.

Lemma nzb_nz l : nzb l = true -> nz l.
Proof.
  unfold nzb, nz. rewrite forallb_forall, Forall_forall. intros H x Hx. specialize (H x Hx). zlia.
Qed.
Lemma name_ok_nz n : name_ok n = true -> nz n.
Proof.
  unfold name_ok, nz. intros H. apply andb_prop in H as [_ H].
  rewrite forallb_forall in H. rewrite Forall_forall. intros x Hx. specialize (H x Hx). zlia.
Qed.
Lemma names_ok_nz l : forallb name_ok l = true -> Forall nz l.
Proof.
  rewrite forallb_forall, Forall_forall. intros H x Hx. apply name_ok_nz. apply H. exact Hx.
Qed.

Lemma cstr_repeat0 k : cstr (repeat 0 k) = [].
Proof. destruct k; reflexivity. Qed.
Lemma cstr_nz l k : nz l -> cstr (l ++ repeat 0 k) = l.
Proof.
  induction l as [|b r IH]; intros H.
  - apply cstr_repeat0.
  - inversion H as [|? ? Hb Hr]; subst. cbn [app cstr].
    destruct (b =? 0) eqn:E; [zlia|]. rewrite IH by exact Hr. reflexivity.
Qed.

(* ---------- intercalate ---------- *)
Lemma intercalate_cons2 sep a b r :
  intercalate sep (a :: b :: r) = a ++ sep ++ intercalate sep (b :: r).
Proof. reflexivity. Qed.

Lemma intercalate_snoc sep acc x :
  intercalate sep (acc ++ [x]) =
  match acc with [] => x | _ :: _ => intercalate sep acc ++ sep ++ x end.
Proof.
  induction acc as [|a r IH]; [reflexivity|].
  destruct r as [|b r].
  - reflexivity.
  - change ((a :: b :: r) ++ [x]) with (a :: b :: (r ++ [x])).
    rewrite !intercalate_cons2.
    change (b :: r ++ [x]) with ((b :: r) ++ [x]). rewrite IH.
    rewrite <- !app_assoc. reflexivity.
Qed.

Lemma intercalate_nz sep l : nz sep -> Forall nz l -> nz (intercalate sep l).
Proof.
  intros Hsep. induction l as [|a r IH]; intros H; [constructor|].
  inversion H as [|? ? Ha Hr]; subst. destruct r as [|b r]; [exact Ha|].
  rewrite intercalate_cons2. unfold nz in *. apply Forall_app; split; [exact Ha|].
  apply Forall_app; split; [exact Hsep|]. apply IH. exact Hr.
Qed.

(* worst-case length contributed by a list of names: each name and one separator *)
Fixpoint wt (l : list (list byte)) : Z :=
  match l with [] => 0 | x :: r => zlen x + zlen sec_separator + wt r end.

Lemma wt_nonneg l : 0 <= wt l.
Proof.
  induction l as [|x r IH]; cbn [wt]; [zlia|].
  pose proof (zlen_nonneg x). pose proof (zlen_nonneg sec_separator). zlia.
Qed.
Lemma zlen_intercalate_le l : zlen (intercalate sec_separator l) <= wt l.
Proof.
  induction l as [|a r IH]; [cbn; zlia|].
  pose proof (zlen_nonneg a). pose proof (zlen_nonneg sec_separator). pose proof (wt_nonneg r).
  destruct r as [|b r]; [cbn [intercalate wt]; zlia|].
  rewrite intercalate_cons2. rewrite !zlen_app.
  change (wt (a :: b :: r)) with (zlen a + zlen sec_separator + wt (b :: r)). zlia.
Qed.
Lemma wt_set_names tbl info : wt (set_names tbl info) <= wt (map snd tbl).
Proof.
  unfold set_names. induction tbl as [|[f n] r IH]; [cbn; zlia|].
  cbn [filter fst]. pose proof (zlen_nonneg n). pose proof (zlen_nonneg sec_separator).
  destruct (Z.land info f =? 0) eqn:E; cbn [negb map snd wt]; zlia.
Qed.

(* ---------- the append helper and the loop ---------- *)
(* the state after the names [acc] have been emitted *)
Definition repr (acc : list (list byte)) : sec_st :=
  {| s_mem := pad (intercalate sec_separator acc);
     s_off := zlen (intercalate sec_separator acc);
     s_append := match acc with [] => false | _ :: _ => true end |}.

Lemma snoc_not_nil {A} (acc : list A) x :
  match acc ++ [x] with [] => false | _ :: _ => true end = true.
Proof. destruct acc; reflexivity. Qed.

Lemma add_sec_item_repr acc x :
  zlen (intercalate sec_separator acc) + zlen sec_separator + zlen x + 1 <= buf_len ->
  add_sec_item (repr acc) x = Done (repr (acc ++ [x])).
Proof.
  intros H. pose proof (zlen_nonneg x) as Hx. pose proof (zlen_nonneg sec_separator) as Hsep.
  unfold add_sec_item. unfold repr. cbn [s_append s_mem s_off].
  rewrite snoc_not_nil. rewrite intercalate_snoc.
  destruct acc as [|a r].
  - cbn [bind]. change (intercalate sec_separator []) with (@nil byte) in *.
    rewrite zlen_nil in *.
    rewrite snprintf_pad_nil by zlia.
    cbn [bind]. rewrite Z.add_0_l. reflexivity.
  - set (str := intercalate sec_separator (a :: r)) in *.
    rewrite snprintf_pad by zlia. cbn [bind].
    rewrite <- zlen_app.
    rewrite snprintf_pad by (rewrite zlen_app; zlia). cbn [bind].
    rewrite <- zlen_app. rewrite <- !app_assoc. reflexivity.
Qed.

Lemma zlen_intercalate_snoc_le acc x :
  zlen (intercalate sec_separator (acc ++ [x])) <=
  zlen (intercalate sec_separator acc) + zlen sec_separator + zlen x.
Proof.
  rewrite intercalate_snoc. pose proof (zlen_nonneg sec_separator).
  destruct acc as [|a r].
  - change (intercalate sec_separator []) with (@nil byte). rewrite zlen_nil. zlia.
  - rewrite !zlen_app. zlia.
Qed.

Lemma add_items_repr info : forall tbl acc,
  zlen (intercalate sec_separator acc) + wt (map snd tbl) < buf_len ->
  add_items (repr acc) info tbl = Done (repr (acc ++ set_names tbl info)).
Proof.
  unfold set_names.
  induction tbl as [|[f n] r IH]; intros acc H.
  - cbn [add_items filter map]. rewrite app_nil_r. reflexivity.
  - cbn [map snd wt] in H. pose proof (wt_nonneg (map snd r)) as Hw.
    pose proof (zlen_nonneg n) as Hn. pose proof (zlen_nonneg sec_separator) as Hsep.
    cbn [add_items filter fst].
    destruct (Z.land info f =? 0) eqn:E; cbn [negb].
    + apply IH. zlia.
    + rewrite add_sec_item_repr by zlia. cbn [bind].
      pose proof (zlen_intercalate_snoc_le acc n) as Hle.
      rewrite IH by zlia. cbn [map snd]. rewrite <- app_assoc. reflexivity.
Qed.

(* ---------- describe, for any table that fits the buffer ---------- *)
Lemma describe_generic tbl none info :
  wt (map snd tbl) < buf_len -> zlen none + 1 <= buf_len ->
  nz none -> nz sec_separator -> Forall nz (map snd tbl) ->
  exists mem, describe tbl none info = Done mem /\ zlen mem = buf_len /\
              cstr mem = (if info =? 0 then none else intercalate sec_separator (set_names tbl info)) /\
              zlen (cstr mem) < buf_len.
Proof.
  intros Hwt Hnone Hnz Hsep Hnames.
  pose proof (zlen_nonneg none) as Hn0.
  assert (repeat 0 (Z.to_nat buf_len) = pad []) as Hmem0.
  { unfold pad. change (zlen (@nil byte)) with 0. rewrite Z.sub_0_r. reflexivity. }
  unfold describe. rewrite Hmem0.
  destruct (info =? 0) eqn:E.
  - exists (pad none). split.
    + apply snprintf_pad_nil. zlia.
    + split; [apply zlen_pad; zlia|].
      unfold pad. rewrite cstr_nz by exact Hnz. split; [reflexivity | zlia].
  - change {| s_mem := pad []; s_off := 0; s_append := false |} with (repr []).
    rewrite add_items_repr by (change (intercalate sec_separator []) with (@nil byte); rewrite zlen_nil; zlia).
    cbn [bind app]. unfold repr. cbn [s_mem].
    set (str := intercalate sec_separator (set_names tbl info)).
    assert (zlen str <= wt (map snd tbl)) as Hlen.
    { pose proof (zlen_intercalate_le (set_names tbl info)). pose proof (wt_set_names tbl info).
      subst str. zlia. }
    assert (nz str) as Hstr.
    { subst str. apply intercalate_nz; [exact Hsep|].
      unfold set_names. rewrite Forall_forall in *. intros x Hx. apply Hnames.
      apply in_map_iff in Hx as [p [Hp Hin]]. apply filter_In in Hin as [Hin _].
      apply in_map_iff. exists p. split; assumption. }
    exists (pad str). split; [reflexivity|].
    split; [apply zlen_pad; zlia|].
    unfold pad. rewrite cstr_nz by exact Hstr. split; [reflexivity | zlia].
Qed.

(* ---------- table facts as one boolean per routine ---------- *)
Definition bytes_eqb (a b : list byte) : bool :=
  if list_eq_dec Z.eq_dec a b then true else false.
Lemma bytes_eqb_eq a b : bytes_eqb a b = true -> a = b.
Proof. unfold bytes_eqb. destruct (list_eq_dec Z.eq_dec a b); [auto | discriminate]. Qed.

Definition routine_okb (r : list (Z * list byte) * list byte * list (Z * list byte)) : bool :=
  let '(tbl, none, spec) := r in
  same_table tbl spec && bytes_eqb none spec_none && bytes_eqb sec_separator spec_sep &&
  forallb single_bit (map fst tbl) && nodup_zb (map fst tbl) &&
  distinct_names (map snd tbl) && forallb name_ok (map snd tbl) &&
  (wt (map snd tbl) <? buf_len) && (zlen none + 1 <=? buf_len) && nzb none && nzb sec_separator.

Lemma routines_okb : forallb routine_okb routines = true.
Proof. vm_compute. reflexivity. Qed.

Lemma routine_ok tbl none spec : In (tbl, none, spec) routines ->
  routine_okb (tbl, none, spec) = true.
Proof. intros H. pose proof routines_okb as Hall. rewrite forallb_forall in Hall. apply Hall. exact H. Qed.

Ltac split_ok H :=
  unfold routine_okb in H;
  repeat match type of H with
         | (_ && _ = true) => let H' := fresh "Hok" in apply andb_prop in H as [H H']
         end.

(* ---------- the three lemmas ---------- *)
Lemma tables_ok : forall tbl none spec, In (tbl, none, spec) routines ->
  same_table tbl spec = true /\ none = spec_none /\ sec_separator = spec_sep /\
  forallb single_bit (map fst tbl) = true /\ NoDup (map fst tbl) /\
  distinct_names (map snd tbl) = true /\ forallb name_ok (map snd tbl) = true.
Proof.
  intros tbl none spec Hin. pose proof (routine_ok _ _ _ Hin) as H. split_ok H.
  repeat apply conj;
    first [assumption | apply bytes_eqb_eq; assumption | apply nodup_zb_NoDup; assumption].
Qed.

Lemma describe_exact : forall tbl none spec info,
  In (tbl, none, spec) routines -> 0 <= info ->
  exists mem, describe tbl none info = Done mem /\ zlen mem = buf_len /\
              cstr mem = spec_describe tbl info /\ zlen (cstr mem) < buf_len.
Proof.
  intros tbl none spec info Hin _. pose proof (routine_ok _ _ _ Hin) as H. split_ok H.
  unfold spec_describe.
  match goal with Hn : bytes_eqb none spec_none = true |- _ => apply bytes_eqb_eq in Hn; rewrite <- Hn end.
  match goal with Hs : bytes_eqb sec_separator spec_sep = true |- _ => apply bytes_eqb_eq in Hs; rewrite <- Hs end.
  apply describe_generic.
  - zlia.
  - zlia.
  - apply nzb_nz; assumption.
  - apply nzb_nz; assumption.
  - apply names_ok_nz; assumption.
Qed.

(* membership *)
Lemma mem_pair_In p l : mem_pair p l = true <-> In p l.
Proof.
  induction l as [|q r IH]; cbn [mem_pair In]; [split; [discriminate | contradiction]|].
  rewrite orb_true_iff, IH. split; intros [H|H]; auto.
  - left. apply andb_prop in H as [H1 H2].
    destruct (list_eq_dec Z.eq_dec (snd p) (snd q)) as [E|E]; [|discriminate].
    destruct p, q; cbn [fst snd] in *. f_equal; [zlia | auto].
  - left. subst q. rewrite Z.eqb_refl. cbn [andb].
    destruct (list_eq_dec Z.eq_dec (snd p) (snd p)) as [E|E]; [reflexivity | congruence].
Qed.
Lemma same_table_In a b p : same_table a b = true -> (In p a <-> In p b).
Proof.
  unfold same_table. intros H. apply andb_prop in H as [H _]. apply andb_prop in H as [Hab Hba].
  rewrite forallb_forall in Hab, Hba.
  split; intros Hp; apply mem_pair_In; auto.
Qed.

Lemma set_names_In tbl info name :
  In name (set_names tbl info) <-> exists f, In (f, name) tbl /\ Z.land info f <> 0.
Proof.
  unfold set_names. rewrite in_map_iff. split.
  - intros [[f n] [Hn Hin]]. cbn [snd] in Hn. subst n. apply filter_In in Hin as [Hin Hb].
    cbn [fst] in Hb. exists f. split; [exact Hin | zlia].
  - intros [f [Hin Hf]]. exists (f, name). split; [reflexivity|].
    apply filter_In. split; [exact Hin|]. cbn [fst]. zlia.
Qed.

Lemma distinct_names_NoDup l : distinct_names l = true -> NoDup l.
Proof.
  induction l as [|x r IH]; intros H; [constructor|].
  cbn [distinct_names] in H. apply andb_prop in H as [Hx Hr].
  constructor; [|apply IH; exact Hr].
  intros Hin. apply negb_true_iff in Hx.
  assert (existsb (fun y => if list_eq_dec Z.eq_dec x y then true else false) r = true) as Hc;
    [|congruence].
  apply existsb_exists. exists x. split; [exact Hin|].
  destruct (list_eq_dec Z.eq_dec x x); [reflexivity | congruence].
Qed.

Lemma NoDup_map_filter {A B} (g : A -> B) (f : A -> bool) l :
  NoDup (map g l) -> NoDup (map g (filter f l)).
Proof.
  induction l as [|a r IH]; intros H; [constructor|].
  cbn [map] in H. inversion H as [|? ? Hna Hr]; subst.
  cbn [filter]. destruct (f a); [|apply IH; exact Hr].
  cbn [map]. constructor; [|apply IH; exact Hr].
  intros Hin. apply Hna. apply in_map_iff in Hin as [y [Hy Hin]].
  apply filter_In in Hin as [Hin _]. apply in_map_iff. exists y. split; assumption.
Qed.

Lemma each_once : forall tbl none spec info name, In (tbl, none, spec) routines ->
  (In name (set_names tbl info) <-> exists f, In (f, name) spec /\ Z.land info f <> 0) /\
  NoDup (set_names tbl info).
Proof.
  intros tbl none spec info name Hin.
  destruct (tables_ok _ _ _ Hin) as [Hsame [_ [_ [_ [_ [Hdist _]]]]]].
  split.
  - rewrite set_names_In. split; intros [f [Hf Hl]]; exists f; (split; [|exact Hl]).
    + apply (same_table_In _ _ (f, name) Hsame). exact Hf.
    + apply (same_table_In _ _ (f, name) Hsame). exact Hf.
  - unfold set_names. apply NoDup_map_filter. apply distinct_names_NoDup. exact Hdist.
Qed.
