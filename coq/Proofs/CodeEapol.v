(* The EAPOL-Key routines AS TRANSLATED from parse/data/eapol.c (Gen/Sites.v: body_libwifi_check_wpa_handshake,
   body_libwifi_get_wpa_key_data_length, body_libwifi_check_wpa_message, body_libwifi_get_wpa_data), run on the classifier's
   frame object (frame->frame_control.type, frame->len, frame->header_len, frame->body as environment variables, the heap
   copy of the body as the ONLY readable memory): they never read outside the body (execution would be Stuck), no signed
   operation overflows, and they compute what the hand-written model Model/Eapol.v computes.

   Main statements:
     code_check_wpa_handshake                   (1)  returns 1 exactly on [hs_accepts], -22 otherwise; calls = [hs_trace]
     code_check_wpa_handshake_refines_model     (2)  agreement with Model.Eapol.check_wpa_handshake
     code_get_wpa_key_data_length (+ _accepted, _refines_model)   (3)
     code_get_wpa_data, code_get_wpa_data_safe (+ _refines_model) (3)
     code_check_wpa_message (+ _refines_model)
     get_wpa_key_data_length_short_body_refuted, get_wpa_data_short_body_refuted: 107 <= zlen b is needed

   Remark on traces: the translator records the C library's ntohs / __bswap_64 macros both as a call event (argument = the
   little-endian load) and as the expanded shift/mask expression; so the trace of the check is the memcmp event followed,
   when memcmp answered 0, by one "ntohs" event. *)
From Coq Require Import ZArith String List Bool Lia.
From LW Require Import Base.Bytes Base.Sweep Base.CExpr Gen.Consts Gen.Layout Gen.Tables Gen.Sites Proofs.SitesLemmas Proofs.CodeIter.
From LW Require Import Model.Radiotap Model.Frame Model.Eapol.
Import ListNotations.
Local Open Scope string_scope.
Local Open Scope Z_scope.

(* ---------------------------------------------------------------- loads from the memory that holds exactly the body *)
Lemma load_le_mem_at a b : forall n i, 0 <= i -> i + Z.of_nat n <= zlen b ->
  load_le (mem_at a b) (a + i) n = Some (le_dec (firstn n (skipn (Z.to_nat i) b))).
Proof.
  induction n as [ | n IH]; intros i Hi Hn; [reflexivity | ].
  cbn [load_le]. rewrite mem_at_in by lia.
  replace (a + i + 1) with (a + (i + 1)) by lia. rewrite IH by lia.
  rewrite (skipn_cons_znth b i) by lia. reflexivity.
Qed.

Lemma load16_at a b i j k k1 : k = i + j -> k1 = k + 1 -> 0 <= k -> k + 2 <= zlen b ->
  load_le (mem_at a b) (a + i + j) (Z.to_nat (16 / 8)) = Some (znth b k + 256 * znth b k1).
Proof.
  intros -> -> Hk Hl. change (Z.to_nat (16 / 8)) with 2%nat. cbn [load_le].
  replace (a + i + j) with (a + (i + j)) by lia.
  replace (a + (i + j) + 1) with (a + (i + j + 1)) by lia.
  rewrite !mem_at_in by lia. f_equal. lia.
Qed.

Lemma load8_at a b i j k : k = i + j -> 0 <= k -> k + 1 <= zlen b ->
  load_le (mem_at a b) (a + i + j) (Z.to_nat (8 / 8)) = Some (znth b k).
Proof.
  intros -> Hk Hl. change (Z.to_nat (8 / 8)) with 1%nat. cbn [load_le].
  replace (a + i + j) with (a + (i + j)) by lia.
  rewrite !mem_at_in by lia. f_equal. lia.
Qed.

Lemma load64_at a b i j k : k = i + j -> 0 <= k -> k + 8 <= zlen b ->
  load_le (mem_at a b) (a + i + j) (Z.to_nat (64 / 8)) = Some (le_dec (firstn 8 (skipn (Z.to_nat k) b))).
Proof.
  intros -> Hk Hl. change (Z.to_nat (64 / 8)) with 8%nat.
  replace (a + i + j) with (a + (i + j)) by lia. apply load_le_mem_at; lia.
Qed.

(* a load one byte past the end, or before the start, is refused *)
Lemma mem_at_out a b x : x < a \/ a + zlen b <= x -> mem_at a b x = None.
Proof.
  intros H. unfold mem_at.
  destruct (Z.leb_spec a x); destruct (Z.ltb_spec x (a + zlen b)); cbn [andb]; try reflexivity; lia.
Qed.

(* ---------------------------------------------------------------- checking a property of all octets by computation *)
Definition octets : list Z := map Z.of_nat (seq 0 256).
Lemma octets_in x : 0 <= x < 256 -> In x octets.
Proof.
  intros Hx. replace x with (Z.of_nat (Z.to_nat x)) by lia. apply in_map. apply in_seq. lia.
Qed.

(* ntohs as the C library's macro expands it: ((x >> 0) & 0xff) << 8 | ((x >> 8) & 0xff) << 0 *)
Definition bswap16_z (x : Z) : Z := Z.lor (Z.land (Z.shiftr x 0) 255 * 2 ^ 8) (Z.land (Z.shiftr x 8) 255 * 2 ^ 0).

Lemma bswap16_z_check :
  forallb (fun lo => forallb (fun hi => bswap16_z (lo + 256 * hi) =? 256 * lo + hi) octets) octets = true.
Proof. vm_compute. reflexivity. Qed.

Lemma bswap16_z_bytes lo hi : 0 <= lo < 256 -> 0 <= hi < 256 -> bswap16_z (lo + 256 * hi) = 256 * lo + hi.
Proof.
  intros Hlo Hhi. pose proof bswap16_z_check as H.
  rewrite forallb_forall in H. specialize (H lo (octets_in lo Hlo)). cbv beta in H.
  rewrite forallb_forall in H. specialize (H hi (octets_in hi Hhi)). cbv beta in H.
  apply Z.eqb_eq in H. exact H.
Qed.

Definition bswap16e (e : cexpr) : cexpr :=
  CCast (mkty false 16)
    (CBin OOr u64
       (CBin OShl u64 (CBin OAnd u64 (CBin OShr u64 (CCast u64 (CCast (mkty false 16) e)) (CLit s32 0)) (CLit u64 255)) (CLit s32 8))
       (CBin OShl u64 (CBin OAnd u64 (CBin OShr u64 (CCast u64 (CCast (mkty false 16) e)) (CLit s32 8)) (CLit u64 255)) (CLit s32 0))).

Lemma wrap_u64_nonneg v : 0 <= wrap (mkty false 64) v < 18446744073709551616.
Proof. unfold wrap, modulus; cbn [c_signed c_bits]. apply Z.mod_pos_bound. reflexivity. Qed.

Lemma land_255_range v : 0 <= v -> 0 <= Z.land v 255 < 256.
Proof.
  intros Hv. change 255 with (Z.ones 8). rewrite Z.land_ones by lia. apply Z.mod_pos_bound. reflexivity.
Qed.

Lemma ceval_bswap16 rho m e lo hi :
  ceval rho m e = Some (lo + 256 * hi) -> 0 <= lo < 256 -> 0 <= hi < 256 ->
  ceval rho m (bswap16e e) = Some (256 * lo + hi).
Proof.
  intros He Hlo Hhi. unfold bswap16e.
  cbn [ceval]. rewrite He.
  cbn [binop c_bits c_signed]. cbv delta [u64 s32]. cbn [c_bits c_signed].
  rewrite (wrap_u16_id (lo + 256 * hi)) by lia.
  rewrite (wrap_u64_id (lo + 256 * hi)) by lia.
  rewrite (wrap_s32_id 0), (wrap_s32_id 8), (wrap_u64_id 255) by lia.
  change ((0 <? 0) || (64 <=? 0)) with false. change ((8 <? 0) || (64 <=? 8)) with false.
  cbv beta iota.
  set (x := lo + 256 * hi) in *.
  assert (Hx : 0 <= x < 65536) by (subst x; lia).
  assert (H0 : 0 <= Z.shiftr x 0) by (apply Z.shiftr_nonneg; lia).
  assert (H8 : 0 <= Z.shiftr x 8) by (apply Z.shiftr_nonneg; lia).
  pose proof (land_255_range _ H0) as L0. pose proof (land_255_range _ H8) as L8.
  rewrite (wrap_u64_id (Z.land (Z.shiftr x 0) 255)) by lia.
  rewrite (wrap_u64_id (Z.land (Z.shiftr x 8) 255)) by lia.
  rewrite (ltb_false (Z.land (Z.shiftr x 0) 255) 0) by lia.
  rewrite (ltb_false (Z.land (Z.shiftr x 8) 255) 0) by lia.
  cbn [orb].
  change (2 ^ 8) with 256. change (2 ^ 0) with 1.
  rewrite (arith_u64 (Z.land (Z.shiftr x 0) 255 * 256)) by lia.
  rewrite (arith_u64 (Z.land (Z.shiftr x 8) 255 * 1)) by lia.
  change (Z.lor (Z.land (Z.shiftr x 0) 255 * 256) (Z.land (Z.shiftr x 8) 255 * 1)) with (bswap16_z x).
  subst x. rewrite bswap16_z_bytes by assumption.
  rewrite wrap_u64_id by lia. rewrite wrap_u16_id by lia. reflexivity.
Qed.

(* ---------------------------------------------------------------- evaluation of the translated expressions *)
Ltac fold_bswap16 :=
  repeat match goal with
         | |- context [CCast (mkty false 16)
                         (CBin OOr u64
                            (CBin OShl u64 (CBin OAnd u64 (CBin OShr u64 (CCast u64 (CCast (mkty false 16) ?e)) (CLit s32 0)) (CLit u64 255)) (CLit s32 8))
                            ?r)] => fold (bswap16e e)
         end.

Ltac cev_unf :=
  cbn [ceval evals binop b2z c_signed c_bits upd String.eqb Ascii.eqb Bool.eqb negb orb andb String.append app];
  cbv delta [u8 s8 u16 s16 u32 s32 u64 s64]; cbn [c_signed c_bits].

Ltac cev_loads :=
  match goal with
  | |- context [load_le (mem_at ?a ?b) (?a + ?i + ?j) (Z.to_nat (8 / 8))] =>
      let k := eval cbv in (i + j) in rewrite (load8_at a b i j k eq_refl) by lia
  | |- context [load_le (mem_at ?a ?b) (?a + ?i + ?j) (Z.to_nat (16 / 8))] =>
      let k := eval cbv in (i + j) in let k1 := eval cbv in (i + j + 1) in
      rewrite (load16_at a b i j k k1 eq_refl eq_refl) by lia
  | |- context [load_le (mem_at ?a ?b) (?a + ?i + ?j) (Z.to_nat (64 / 8))] =>
      let k := eval cbv in (i + j) in rewrite (load64_at a b i j k eq_refl) by lia
  | |- context [load_le (mem_at ?a ?b) (?a + ?j) (Z.to_nat (8 / 8))] =>
      replace (a + j) with (a + 0 + j) by lia; rewrite (load8_at a b 0 j j eq_refl) by lia
  | |- context [load_le (mem_at ?a ?b) (?a + ?j) (Z.to_nat (16 / 8))] =>
      replace (a + j) with (a + 0 + j) by lia; (let k1 := eval cbv in (j + 1) in rewrite (load16_at a b 0 j j k1 eq_refl eq_refl) by lia)
  end.

Ltac cev_core :=
  repeat first
    [ progress cev_unf
    | progress wrap_ids
    | cev_loads
    | erewrite ceval_bswap16; [ | cev_core; reflexivity | lia | lia ]
    | progress decide_bools ].
Ltac cev := cev_core; reflexivity.

Ltac xstep :=
  match goal with
  | |- context [exec (S _) _ _ _ (?s :: _)] =>
      lazymatch s with
      | SSet _ _ _ => erewrite exec_set by cev
      | SCall _ _ _ => erewrite exec_call by cev
      | SRet _ _ => erewrite exec_ret by cev
      | SClobber _ => rewrite exec_clobber
      | SZero _ => rewrite exec_zero
      | SIf _ _ _ _ => first [ erewrite exec_if_false by cev | erewrite exec_if_true; [ | cev | lia ] ]
      end
  | |- context [exec (S _) _ _ _ []] => rewrite exec_nil
  end.
Ltac xrun := repeat (xstep; decide_bools; cbv beta iota; cbn [app]).

(* ---------------------------------------------------------------- libwifi_check_wpa_handshake *)
(* the classifier's frame object as the translated code names its fields *)
Definition frame_env (rho : env) (ty len hl a : Z) : env :=
  upd (upd (upd (upd rho "frame->frame_control.type" ty) "frame->len" len) "frame->header_len" hl) "frame->body" a.

(* everything the routine tests before it asks memcmp *)
Definition hs_llc (b : list byte) (ty hl len : Z) : bool :=
  (ty =? 2) && (hl + 8 <=? len) && (znth b 0 =? 170) && (znth b 1 =? 170) && (znth b 2 =? 3).
(* the whole acceptance condition; mc is what memcmp(body + 3, XEROX_OUI, 3) answered *)
Definition hs_accepts (b : list byte) (ty hl len mc : Z) : bool :=
  hs_llc b ty hl len && (mc =? 0) && (znth b 6 =? 136) && (znth b 7 =? 142) && (hl + 107 <=? len).
(* the calls made: memcmp once the LLC octets matched, then the (macro-expanded) ntohs on octets 6,7 when memcmp said equal *)
Definition hs_trace (rho : env) (b : list byte) (a ty hl len mc : Z) : list event :=
  if hs_llc b ty hl len
  then ("memcmp", [a + 3; wrap u64 (rho "str:\x00\x00\x00"); 3])
       :: (if mc =? 0 then [("ntohs", [znth b 6 + 256 * znth b 7])] else [])
  else [].

(* the expected outcome is kept folded while the body runs: its comparisons are not the ones to decide at each step *)
Ltac hide_rhs := match goal with |- _ = ?r => let RHS := fresh "RHS" in set (RHS := r) end.
Ltac show_rhs := repeat match goal with H := _ |- _ => subst H end.
Ltac hs_done := xrun; show_rhs; cbv delta [s32 u64]; cbn [observe andb app]; decide_bools; cbn [andb]; reflexivity.

Theorem code_check_wpa_handshake b a hl ty rho :
  wfbytes b -> 0 < a -> a + zlen b < 2 ^ 62 -> hl = 24 \/ hl = 26 -> 0 <= ty <= 3 ->
  let len := hl + zlen b in
  let mc := wrap s32 (rho "ret:memcmp") in
  observe (exec 30 (mem_at a b) (frame_env rho ty len hl a) [] body_libwifi_check_wpa_handshake) =
    Some (Some (if hs_accepts b ty hl len mc then 1 else -22), hs_trace rho b a ty hl len mc).
Proof.
  intros Hwf Ha Hend Hhl Hty len mc. subst len mc.
  change (2 ^ 62) with 4611686018427387904 in *.
  pose proof (zlen_nonneg b) as Hlen.
  unfold body_libwifi_check_wpa_handshake, frame_env, hs_accepts, hs_trace, hs_llc. fold_bswap16. hide_rhs.
  destruct (Z.eq_dec ty 2) as [Ety | Ety]; [ xrun | hs_done ].
  destruct (Z_lt_le_dec (zlen b) 8) as [Hshort | H8]; [ hs_done | ].
  pose proof (wfbytes_znth b 0 Hwf ltac:(lia)) as B0. pose proof (wfbytes_znth b 1 Hwf ltac:(lia)) as B1.
  pose proof (wfbytes_znth b 2 Hwf ltac:(lia)) as B2. pose proof (wfbytes_znth b 6 Hwf ltac:(lia)) as B6.
  pose proof (wfbytes_znth b 7 Hwf ltac:(lia)) as B7.
  xrun.
  destruct (Z.eq_dec (znth b 0) 170) as [E0 | E0]; [ | hs_done ].
  destruct (Z.eq_dec (znth b 1) 170) as [E1 | E1]; [ | hs_done ].
  destruct (Z.eq_dec (znth b 2) 3) as [E2 | E2]; [ xrun | hs_done ].
  destruct (Z.eq_dec (wrap (mkty true 32) (rho "ret:memcmp")) 0) as [Emc | Emc]; [ xrun | hs_done ].
  destruct (Z.eq_dec (znth b 6) 136) as [E6 | E6]; [ | hs_done ].
  destruct (Z.eq_dec (znth b 7) 142) as [E7 | E7]; [ xrun | hs_done ].
  destruct (Z_lt_le_dec (zlen b) 107) as [Hshort | H107]; hs_done.
Qed.

(* the accepted bodies are at least llc (8) + EAPOL-Key descriptor (99) octets long *)
Lemma hs_accepts_len b ty hl mc : hs_accepts b ty hl (hl + zlen b) mc = true -> 107 <= zlen b.
Proof.
  unfold hs_accepts. intros H. apply andb_true_iff in H. destruct H as [_ H]. apply Z.leb_le in H. lia.
Qed.

(* ---------------------------------------------------------------- libwifi_get_wpa_key_data_length *)
Theorem code_get_wpa_key_data_length b a hl ty rho :
  wfbytes b -> 0 < a -> a + zlen b < 2 ^ 62 -> hl = 24 \/ hl = 26 ->
  let len := hl + zlen b in
  let h := wrap s32 (rho "ret:libwifi_check_wpa_handshake") in
  let run := exec 30 (mem_at a b) (frame_env rho ty len hl a) [] body_libwifi_get_wpa_key_data_length in
  let ev := ("libwifi_check_wpa_handshake", [wrap u64 (rho "frame")]) in
  (h < 0 -> observe run = Some (Some (-22), [ev])) /\
  (0 <= h -> 107 <= zlen b ->
   observe run = Some (Some (256 * znth b 105 + znth b 106), [ev; ("ntohs", [znth b 105 + 256 * znth b 106])])).
Proof.
  intros Hwf Ha Hend Hhl len h run ev. subst len h run ev.
  change (2 ^ 62) with 4611686018427387904 in *.
  pose proof (zlen_nonneg b) as Hlen.
  unfold body_libwifi_get_wpa_key_data_length, frame_env. fold_bswap16. cbv delta [s32 u64].
  split.
  - intros Hneg. xrun. reflexivity.
  - intros Hpos H107.
    pose proof (wfbytes_znth b 105 Hwf ltac:(lia)) as B105. pose proof (wfbytes_znth b 106 Hwf ltac:(lia)) as B106.
    xrun. reflexivity.
Qed.

(* ---------------------------------------------------------------- libwifi_get_wpa_data *)
(* __bswap_64 as the C library's macro expands it: eight octets extracted, shifted and or-ed in unsigned long *)
Definition bpiece (e : cexpr) (k s : Z) : cexpr :=
  CBin OShl u64 (CBin OAnd u64 (CBin OShr u64 (CCast u64 (CCast (mkty false 64) e)) (CLit s32 k)) (CLit u64 255)) (CLit s32 s).
Definition bswap64e (e : cexpr) : cexpr :=
  CCast (mkty false 64) (CCast (mkty false 64)
    (CBin OOr u64 (CBin OOr u64 (CBin OOr u64 (CBin OOr u64 (CBin OOr u64 (CBin OOr u64 (CBin OOr u64
       (bpiece e 0 56) (bpiece e 8 48)) (bpiece e 16 40)) (bpiece e 24 32)) (bpiece e 32 24)) (bpiece e 40 16)) (bpiece e 48 8)) (bpiece e 56 0))).

Definition bp (x k s : Z) : Z := (Z.land (Z.shiftr x k) 255 * 2 ^ s) mod 2 ^ 64.
Definition lor64 (x y : Z) : Z := wrap (mkty false 64) (Z.lor x y).
Definition bswap64_z (x : Z) : Z :=
  wrap (mkty false 64) (wrap (mkty false 64)
    (lor64 (lor64 (lor64 (lor64 (lor64 (lor64 (lor64 (bp x 0 56) (bp x 8 48)) (bp x 16 40)) (bp x 24 32)) (bp x 32 24)) (bp x 40 16)) (bp x 48 8)) (bp x 56 0))).

Lemma ceval_bpiece rho m e x k s :
  ceval rho m e = Some x -> 0 <= x < 18446744073709551616 -> 0 <= k < 64 -> 0 <= s < 64 ->
  ceval rho m (bpiece e k s) = Some (bp x k s).
Proof.
  intros He Hx Hk Hs. unfold bpiece, bp.
  cbn [ceval]. rewrite He.
  cbn [binop c_bits c_signed]. cbv delta [u64 s32]. cbn [c_bits c_signed].
  rewrite (wrap_u64_id x) by lia. rewrite (wrap_u64_id x) by lia.
  rewrite (wrap_s32_id k), (wrap_s32_id s), (wrap_u64_id 255) by lia.
  rewrite (ltb_false k 0), (leb_false 64 k), (ltb_false s 0), (leb_false 64 s) by lia.
  cbn [orb].
  assert (Hk0 : 0 <= Z.shiftr x k) by (apply Z.shiftr_nonneg; lia).
  pose proof (land_255_range _ Hk0) as L.
  rewrite (wrap_u64_id (Z.land (Z.shiftr x k) 255)) by lia.
  rewrite (ltb_false (Z.land (Z.shiftr x k) 255) 0) by lia.
  reflexivity.
Qed.

Lemma ceval_bswap64 rho m e x :
  ceval rho m e = Some x -> 0 <= x < 18446744073709551616 -> ceval rho m (bswap64e e) = Some (bswap64_z x).
Proof.
  intros He Hx. unfold bswap64e, bswap64_z, lor64.
  cbn [ceval].
  rewrite !(ceval_bpiece rho m e x) by (assumption || lia).
  reflexivity.
Qed.

Ltac fold_bswap64 :=
  repeat match goal with
         | |- context [CCast (mkty false 64) (CCast (mkty false 64) (CBin OOr u64 ?l ?r))] =>
             match r with
             | context [CCast u64 (CCast (mkty false 64) ?e)] =>
                 change (CCast (mkty false 64) (CCast (mkty false 64) (CBin OOr u64 l r))) with (bswap64e e)
             end
         end.

(* what a callee may have written does not concern the other lvalues *)
Lemma clobber_skip rho n x y : String.prefix x y = false -> clobber rho n x y = rho y.
Proof. intros H. unfold clobber. rewrite H. reflexivity. Qed.

(* nor does the zeroing of the caller's object by the memset at the head of libwifi_get_wpa_data *)
Lemma zeroed_skip rho x y : String.prefix x y = false -> zeroed rho x y = rho y.
Proof. intros H. unfold zeroed. rewrite H. reflexivity. Qed.

Ltac cev_core ::=
  repeat first
    [ progress cev_unf
    | progress wrap_ids
    | cev_loads
    | erewrite ceval_bswap16; [ | cev_core; reflexivity | lia | lia ]
    | erewrite ceval_bswap64; [ | cev_core; reflexivity | lia ]
    | rewrite clobber_skip by reflexivity
    | rewrite zeroed_skip by reflexivity
    | progress decide_bools ].

Ltac wd_done :=
  xrun; show_rhs; cbn [observe app]; decide_bools; cbv beta iota;
  apply f_equal; apply f_equal2; [ apply f_equal; lia | list_eq ].
Ltac wd_malloc :=
  match goal with
  | |- context [wrap (mkty false 64) (?rho "ret:malloc")] =>
      pose proof (wrap_u64_nonneg (rho "ret:malloc"));
      destruct (Z.eq_dec (wrap (mkty false 64) (rho "ret:malloc")) 0); wd_done
  end.

Theorem code_get_wpa_data b a hl ty rho :
  wfbytes b -> 0 < a -> a + zlen b < 2 ^ 62 -> hl = 24 \/ hl = 26 ->
  let len := hl + zlen b in
  let h := wrap s32 (rho "ret:libwifi_check_wpa_handshake") in
  let mp := wrap u64 (rho "ret:malloc") in
  let run := exec 60 (mem_at a b) (frame_env rho ty len hl a) [] body_libwifi_get_wpa_data in
  let ev0 := [("memset", [wrap u64 (rho "data"); 0; 107]); ("libwifi_check_wpa_handshake", [wrap u64 (rho "frame")])] in
  let declared := 256 * znth b 105 + znth b 106 in
  let kdl := Z.min (Z.min declared 1024) (zlen b - 107) in
  (h < 0 -> observe run = Some (Some (-22), ev0)) /\
  (0 <= h -> 107 <= zlen b ->
   let evs := (ev0 ++
     [("ntohs", [znth b 10 + 256 * znth b 11]);
      ("memcpy", [wrap u64 (rho "&data->key_info"); a + 13; 94]);
      ("ntohs", [znth b 13 + 256 * znth b 14]);
      ("ntohs", [znth b 15 + 256 * znth b 16]);
      ("__bswap_64", [le_dec (firstn 8 (skipn (Z.to_nat 17) b))]);
      ("ntohs", [znth b 105 + 256 * znth b 106])])%list in
   observe run =
     if kdl =? 0 then Some (Some 0, evs)
     else if mp =? 0 then Some (Some (-12), (evs ++ [("malloc", [kdl])])%list)
     else Some (Some 0, (evs ++ [("malloc", [kdl]); ("memcpy", [mp; a + 107; kdl])])%list)).
Proof.
  intros Hwf Ha Hend Hhl len h mp run ev0 declared kdl. subst len h mp run ev0 declared kdl.
  change (2 ^ 62) with 4611686018427387904 in *.
  pose proof (zlen_nonneg b) as Hlen.
  unfold body_libwifi_get_wpa_data, frame_env. fold_bswap16. fold_bswap64. cbv delta [s32 u64].
  split.
  - intros Hneg. xrun. reflexivity.
  - intros Hpos H107. cbv zeta. hide_rhs.
    pose proof (wfbytes_znth b 8 Hwf ltac:(lia)) as B8. pose proof (wfbytes_znth b 9 Hwf ltac:(lia)) as B9.
    pose proof (wfbytes_znth b 10 Hwf ltac:(lia)) as B10. pose proof (wfbytes_znth b 11 Hwf ltac:(lia)) as B11.
    pose proof (wfbytes_znth b 12 Hwf ltac:(lia)) as B12. pose proof (wfbytes_znth b 13 Hwf ltac:(lia)) as B13.
    pose proof (wfbytes_znth b 14 Hwf ltac:(lia)) as B14. pose proof (wfbytes_znth b 15 Hwf ltac:(lia)) as B15.
    pose proof (wfbytes_znth b 16 Hwf ltac:(lia)) as B16.
    pose proof (wfbytes_znth b 105 Hwf ltac:(lia)) as B105. pose proof (wfbytes_znth b 106 Hwf ltac:(lia)) as B106.
    assert (B64 : 0 <= le_dec (firstn 8 (skipn (Z.to_nat 17) b)) < 18446744073709551616).
    { pose proof (le_dec_bound (firstn 8 (skipn (Z.to_nat 17) b)) (wfbytes_firstn _ _ (wfbytes_skipn _ _ Hwf))) as Hb.
      replace (zlen (firstn 8 (skipn (Z.to_nat 17) b))) with 8 in Hb.
      - exact Hb.
      - symmetry. apply (zlen_firstn (skipn (Z.to_nat 17) b) 8). rewrite zlen_skipn by lia. lia. }
    xrun.
    destruct (Z_le_gt_dec (256 * znth b 105 + znth b 106) 0) as [D0 | D0]; [ wd_done | xrun ].
    destruct (Z_le_gt_dec (256 * znth b 105 + znth b 106) 1024) as [D1 | D1]; xrun.
    + destruct (Z_le_gt_dec (256 * znth b 105 + znth b 106) (zlen b - 107)) as [F | F]; xrun.
      * wd_malloc.
      * destruct (Z_le_gt_dec (zlen b) 107) as [A0 | A0]; [ wd_done | xrun; wd_malloc ].
    + destruct (Z_le_gt_dec 1024 (zlen b - 107)) as [F | F]; xrun.
      * wd_malloc.
      * destruct (Z_le_gt_dec (zlen b) 107) as [A0 | A0]; [ wd_done | xrun; wd_malloc ].
Qed.

(* ---------------------------------------------------------------- the statements of the brief, for the frames the check accepts *)
Corollary code_get_wpa_key_data_length_accepted b a hl ty rho mc :
  wfbytes b -> 0 < a -> a + zlen b < 2 ^ 62 -> hl = 24 \/ hl = 26 ->
  hs_accepts b ty hl (hl + zlen b) mc = true ->
  wrap s32 (rho "ret:libwifi_check_wpa_handshake") = 1 ->
  observe (exec 30 (mem_at a b) (frame_env rho ty (hl + zlen b) hl a) [] body_libwifi_get_wpa_key_data_length) =
    Some (Some (256 * znth b 105 + znth b 106),
          [("libwifi_check_wpa_handshake", [wrap u64 (rho "frame")]); ("ntohs", [znth b 105 + 256 * znth b 106])]).
Proof.
  intros Hwf Ha Hend Hhl Hacc Hh.
  apply (code_get_wpa_key_data_length b a hl ty rho Hwf Ha Hend Hhl); [ lia | exact (hs_accepts_len b ty hl mc Hacc) ].
Qed.

(* every memcpy reads inside the body; the key-data copy takes at most what is present and at most 1024 octets *)
Theorem code_get_wpa_data_safe b a hl ty rho mc :
  wfbytes b -> 0 < a -> a + zlen b < 2 ^ 62 -> hl = 24 \/ hl = 26 ->
  hs_accepts b ty hl (hl + zlen b) mc = true ->
  wrap s32 (rho "ret:libwifi_check_wpa_handshake") = 1 ->
  exists v tr,
    observe (exec 60 (mem_at a b) (frame_env rho ty (hl + zlen b) hl a) [] body_libwifi_get_wpa_data) = Some (Some v, tr) /\
    (v = 0 \/ v = -12) /\
    forall d s n, In ("memcpy", [d; s; n]) tr ->
      a <= s /\ 0 <= n /\ s + n <= a + zlen b /\
      (s = a + 13 /\ n = 94 \/
       s = a + 107 /\ n <= 1024 /\ n <= zlen b - 107 /\ n <= 256 * znth b 105 + znth b 106 /\ d = wrap u64 (rho "ret:malloc") /\ d <> 0).
Proof.
  intros Hwf Ha Hend Hhl Hacc Hh.
  pose proof (hs_accepts_len b ty hl mc Hacc) as H107.
  pose proof (wfbytes_znth b 105 Hwf ltac:(lia)) as B105. pose proof (wfbytes_znth b 106 Hwf ltac:(lia)) as B106.
  destruct (code_get_wpa_data b a hl ty rho Hwf Ha Hend Hhl) as [_ H].
  specialize (H ltac:(lia) H107). cbv zeta in H. rewrite H. clear H.
  change (2 ^ 62) with 4611686018427387904 in *.
  set (kdl := Z.min (Z.min (256 * znth b 105 + znth b 106) 1024) (zlen b - 107)).
  assert (Hk : 0 <= kdl <= 1024 /\ kdl <= zlen b - 107 /\ kdl <= 256 * znth b 105 + znth b 106) by (subst kdl; lia).
  clearbody kdl.
  destruct (Z.eqb_spec kdl 0) as [K0 | K0]; [ | destruct (Z.eqb_spec (wrap u64 (rho "ret:malloc")) 0) as [M0 | M0] ];
    eexists; eexists; (split; [ reflexivity | ]); (split; [ auto | ]);
    intros d s n Hin; cbn [In app] in Hin;
    repeat (destruct Hin as [Hin | Hin]; [ try discriminate Hin; inversion Hin; subst; clear Hin; lia | ]);
    contradiction.
Qed.

(* without the check (had the caller's view of it been wrong) the routines read past the body: the hypothesis
   107 <= zlen b of the theorems above is needed *)
Definition rho_yes : env := fun s => if String.eqb s "ret:libwifi_check_wpa_handshake" then 1 else 0.
Example get_wpa_key_data_length_short_body_refuted :
  exec 30 (mem_at 1 (repeat 0 106)) (frame_env rho_yes 2 (24 + 106) 24 1) [] body_libwifi_get_wpa_key_data_length
  = Stuck "call:ntohs#0".
Proof. vm_compute. reflexivity. Qed.
Example get_wpa_data_short_body_refuted :
  exec 60 (mem_at 1 (repeat 0 8)) (frame_env rho_yes 2 (24 + 8) 24 1) [] body_libwifi_get_wpa_data
  = Stuck "set:data->version#0".
Proof. vm_compute. reflexivity. Qed.

(* ---------------------------------------------------------------- libwifi_check_wpa_message *)
Definition msg_of (ki : Z) : Z :=
  if ki =? 138 then 1 else if ki =? 266 then 2 else if ki =? 5066 then 4 else if ki =? 778 then 8 else 16.

Theorem code_check_wpa_message b a hl ty rho :
  wfbytes b -> 0 < a -> a + zlen b < 2 ^ 62 -> hl = 24 \/ hl = 26 ->
  observe (exec 30 (mem_at a b) (frame_env rho ty (hl + zlen b) hl a) [] body_libwifi_check_wpa_message) =
    Some (Some (if zlen b <? 107 then 16 else msg_of (256 * znth b 13 + znth b 14)), []).
Proof.
  intros Hwf Ha Hend Hhl.
  change (2 ^ 62) with 4611686018427387904 in *.
  pose proof (zlen_nonneg b) as Hlen.
  unfold body_libwifi_check_wpa_message, frame_env, msg_of. fold_bswap16. cbv delta [s32 u64].
  xrun.
  destruct (Z_lt_le_dec (zlen b) 107) as [Hshort | H107]; [ xrun; reflexivity | ].
  pose proof (wfbytes_znth b 13 Hwf ltac:(lia)) as B13. pose proof (wfbytes_znth b 14 Hwf ltac:(lia)) as B14.
  xrun.
  erewrite exec_switch by cev.
  cbn [pick_case existsb].
  destruct (Z.eq_dec (256 * znth b 13 + znth b 14) 138) as [E1 | E1]; [ decide_bools; cbn [orb]; xrun; reflexivity | ].
  destruct (Z.eq_dec (256 * znth b 13 + znth b 14) 266) as [E2 | E2]; [ decide_bools; cbn [orb]; xrun; reflexivity | ].
  destruct (Z.eq_dec (256 * znth b 13 + znth b 14) 5066) as [E3 | E3]; [ decide_bools; cbn [orb]; xrun; reflexivity | ].
  destruct (Z.eq_dec (256 * znth b 13 + znth b 14) 778) as [E4 | E4]; decide_bools; cbn [orb]; xrun; reflexivity.
Qed.

(* ---------------------------------------------------------------- the hand-written model (Model/Eapol.v) computes the same condition *)
Lemma model_check_wpa_handshake f mc :
  let b := f_body f in
  wfbytes b ->
  f_len f = f_header_len f + zlen b ->
  (8 <= zlen b -> (mc = 0 <-> znth b 3 = 0 /\ znth b 4 = 0 /\ znth b 5 = 0)) ->
  check_wpa_handshake f =
    Done (if hs_accepts b (fc_type (f_fc f)) (f_header_len f) (f_len f) mc then Ok 1 else Err (-22)).
Proof.
  intros b Hwf Hlen Hmc. subst b.
  unfold check_wpa_handshake, hs_accepts, hs_llc, body_rd.
  cbv delta [c_TYPE_DATA Radiotap.EINVAL llc_len desc_len sizeof_libwifi_logical_link_ctrl sizeof_libwifi_wpa_auth_data
             host_sizeof_ptr off_libwifi_logical_link_ctrl__dsap off_libwifi_logical_link_ctrl__ssap
             off_libwifi_logical_link_ctrl__control off_libwifi_logical_link_ctrl__oui fsz_libwifi_logical_link_ctrl__oui
             off_libwifi_logical_link_ctrl__type c_XEROX_OUI c_LLC_TYPE_AUTH].
  set (b := f_body f) in *. set (hl := f_header_len f) in *. rewrite Hlen.
  change (- (22)) with (-22). change (8 + (107 - 8)) with 107.
  destruct (Z.eqb_spec (fc_type (f_fc f)) 2) as [Ety | Ety]; cbn [negb andb]; [ | reflexivity ].
  destruct (Z.ltb_spec (hl + zlen b) (hl + 8)) as [Hs | H8].
  { rewrite (leb_false (hl + 8) (hl + zlen b)) by lia. reflexivity. }
  rewrite (leb_true (hl + 8) (hl + zlen b)) by lia. cbn [andb].
  specialize (Hmc ltac:(lia)).
  pose proof (wfbytes_znth b 6 Hwf ltac:(lia)) as B6. pose proof (wfbytes_znth b 7 Hwf ltac:(lia)) as B7.
  rewrite (rd_strict_in b 0), (rd_strict_in b 1), (rd_strict_in b 2) by lia. cbn [bind].
  destruct (Z.eqb_spec (znth b 0) 170) as [E0 | E0]; cbn [negb andb]; [ | reflexivity ].
  destruct (Z.eqb_spec (znth b 1) 170) as [E1 | E1]; cbn [negb andb]; [ | reflexivity ].
  destruct (Z.eqb_spec (znth b 2) 3) as [E2 | E2]; cbn [negb andb]; [ | reflexivity ].
  change (Z.to_nat 3) with 3%nat. cbn [rd_bytes].
  rewrite (rd_strict_in b 3), (rd_strict_in b (3 + 1)), (rd_strict_in b (3 + 1 + 1)) by lia. cbn [bind].
  change (3 + 1 + 1) with 5. change (3 + 1) with 4.
  destruct (list_eq_dec Z.eq_dec [znth b 3; znth b 4; znth b 5] [0; 0; 0]) as [Eo | Eo]; cbn [negb].
  2:{ rewrite (eqb_false mc 0); [ reflexivity | ].
      intros Hz. apply Hmc in Hz. destruct Hz as (Z3 & Z4 & Z5). apply Eo. rewrite Z3, Z4, Z5. reflexivity. }
  rewrite (eqb_true mc 0) by (apply Hmc; inversion Eo; auto).
  cbn [andb].
  unfold rd_be. cbn [rd_bytes].
  rewrite (rd_strict_in b 6), (rd_strict_in b (6 + 1)) by lia. cbn [bind].
  change (6 + 1) with 7. unfold be_dec. cbn [rev app le_dec].
  destruct (Z.eqb_spec (znth b 6) 136) as [E6 | E6]; destruct (Z.eqb_spec (znth b 7) 142) as [E7 | E7]; cbn [andb];
    destruct (Z.eqb_spec (znth b 7 + 256 * (znth b 6 + 256 * 0)) 34958) as [Et | Et]; try lia; cbn [negb]; try reflexivity.
  destruct (Z.ltb_spec (hl + zlen b) (hl + 107)); destruct (Z.leb_spec (hl + 107) (hl + zlen b)); try lia; reflexivity.
Qed.

(* (2) the translated routine and the model agree on every classified frame, when memcmp answers as the C library does *)
Theorem code_check_wpa_handshake_refines_model f a rho :
  let b := f_body f in
  let hl := f_header_len f in
  let ty := fc_type (f_fc f) in
  let mc := wrap s32 (rho "ret:memcmp") in
  wfbytes b -> 0 < a -> a + zlen b < 2 ^ 62 -> hl = 24 \/ hl = 26 -> 0 <= ty <= 3 ->
  f_len f = hl + zlen b ->
  (8 <= zlen b -> (mc = 0 <-> znth b 3 = 0 /\ znth b 4 = 0 /\ znth b 5 = 0)) ->
  let run := exec 30 (mem_at a b) (frame_env rho ty (f_len f) hl a) [] body_libwifi_check_wpa_handshake in
  match check_wpa_handshake f with
  | Done (Ok v) => v = 1 /\ observe run = Some (Some 1, hs_trace rho b a ty hl (f_len f) mc)
  | Done (Err c) => c = -22 /\ observe run = Some (Some (-22), hs_trace rho b a ty hl (f_len f) mc)
  | _ => False
  end.
Proof.
  intros b hl ty mc Hwf Ha Hend Hhl Hty Hlen Hmc run.
  rewrite (model_check_wpa_handshake f mc Hwf Hlen Hmc).
  pose proof (code_check_wpa_handshake b a hl ty rho Hwf Ha Hend Hhl Hty) as H. cbv zeta in H.
  subst run. fold b hl ty. rewrite Hlen. rewrite H. fold mc.
  destruct (hs_accepts b ty hl (hl + zlen b) mc); split; reflexivity.
Qed.

(* the message classifier against its model *)
Lemma model_check_wpa_message f :
  let b := f_body f in
  f_len f = f_header_len f + zlen b ->
  check_wpa_message f = Done (if zlen b <? 107 then 16 else msg_of (256 * znth b 13 + znth b 14)).
Proof.
  intros b Hlen. unfold check_wpa_message, body_rd, msg_of. fold b. rewrite Hlen.
  cbv delta [llc_len desc_len ki_off sizeof_libwifi_logical_link_ctrl sizeof_libwifi_wpa_auth_data host_sizeof_ptr
             off_libwifi_wpa_auth_data__key_info off_libwifi_wpa_key_info__information c_HANDSHAKE_INVALID
             eapol_msg_table eapol_msg_default].
  change (8 + (107 - 8)) with 107. change (8 + 5 + 0) with 13.
  destruct (Z.ltb_spec (f_header_len f + zlen b) (f_header_len f + 107)) as [Hs | H107];
    destruct (Z.ltb_spec (zlen b) 107) as [Hs' | H107']; try lia; [ reflexivity | ].
  unfold rd_be. cbn [rd_bytes].
  rewrite (rd_strict_in b 13), (rd_strict_in b (13 + 1)) by lia. cbn [bind].
  change (13 + 1) with 14. unfold be_dec. cbn [rev app le_dec lookup_z].
  replace (znth b 14 + 256 * (znth b 13 + 256 * 0)) with (256 * znth b 13 + znth b 14) by lia.
  set (ki := 256 * znth b 13 + znth b 14).
  rewrite (Z.eqb_sym 138 ki), (Z.eqb_sym 266 ki), (Z.eqb_sym 5066 ki), (Z.eqb_sym 778 ki).
  destruct (ki =? 138); [ reflexivity | ]. destruct (ki =? 266); [ reflexivity | ].
  destruct (ki =? 5066); [ reflexivity | ]. destruct (ki =? 778); reflexivity.
Qed.

Theorem code_check_wpa_message_refines_model f a rho :
  let b := f_body f in
  let hl := f_header_len f in
  wfbytes b -> 0 < a -> a + zlen b < 2 ^ 62 -> hl = 24 \/ hl = 26 -> f_len f = hl + zlen b ->
  let run := exec 30 (mem_at a b) (frame_env rho (fc_type (f_fc f)) (f_len f) hl a) [] body_libwifi_check_wpa_message in
  match check_wpa_message f with
  | Done v => observe run = Some (Some v, [])
  | _ => False
  end.
Proof.
  intros b hl Hwf Ha Hend Hhl Hlen run.
  rewrite (model_check_wpa_message f Hlen). subst run. rewrite Hlen.
  apply code_check_wpa_message; assumption.
Qed.

(* the key-data length against its model: the call to the check answers what the routine of theorem (1) returns *)
Theorem code_get_wpa_key_data_length_refines_model f a rho mc :
  let b := f_body f in
  let hl := f_header_len f in
  let ty := fc_type (f_fc f) in
  wfbytes b -> 0 < a -> a + zlen b < 2 ^ 62 -> hl = 24 \/ hl = 26 -> f_len f = hl + zlen b ->
  (8 <= zlen b -> (mc = 0 <-> znth b 3 = 0 /\ znth b 4 = 0 /\ znth b 5 = 0)) ->
  wrap s32 (rho "ret:libwifi_check_wpa_handshake") = (if hs_accepts b ty hl (f_len f) mc then 1 else -22) ->
  let run := exec 30 (mem_at a b) (frame_env rho ty (f_len f) hl a) [] body_libwifi_get_wpa_key_data_length in
  match get_wpa_key_data_length f with
  | Done v => exists tr, observe run = Some (Some v, tr)
  | _ => False
  end.
Proof.
  intros b hl ty Hwf Ha Hend Hhl Hlen Hmc Hh run.
  unfold get_wpa_key_data_length.
  rewrite (model_check_wpa_handshake f mc Hwf Hlen Hmc). fold b hl ty. cbn [bind].
  destruct (code_get_wpa_key_data_length b a hl ty rho Hwf Ha Hend Hhl) as [Hn Hp]. cbv zeta in Hn, Hp.
  subst run. rewrite Hlen in *.
  destruct (hs_accepts b ty hl (hl + zlen b) mc) eqn:Hacc.
  - pose proof (hs_accepts_len b ty hl mc Hacc) as H107.
    unfold body_rd. fold b.
    cbv delta [llc_len ki_off sizeof_libwifi_logical_link_ctrl off_libwifi_wpa_auth_data__key_info
               off_libwifi_wpa_key_info__key_data_length].
    change (8 + 5 + 92) with 105.
    unfold rd_be. cbn [rd_bytes].
    rewrite (rd_strict_in b 105), (rd_strict_in b (105 + 1)) by lia. cbn [bind].
    change (105 + 1) with 106. unfold be_dec. cbn [rev app le_dec].
    eexists. rewrite Hp by lia.
    replace (znth b 106 + 256 * (znth b 105 + 256 * 0)) with (256 * znth b 105 + znth b 106) by lia. reflexivity.
  - eexists. rewrite Hn by lia. reflexivity.
Qed.

(* the extraction against its model: same key-data length, and the key-data copy takes exactly the model's key data *)
Lemma rd_bytes_strict b n off : 0 <= off -> off + Z.of_nat n <= zlen b ->
  rd_bytes (rd_strict b) n off = Done (firstn n (skipn (Z.to_nat off) b)).
Proof. intros. apply rd_bytes_agrees; [ apply agrees_strict | assumption | assumption ]. Qed.

Theorem code_get_wpa_data_refines_model f a rho mc :
  let b := f_body f in
  let hl := f_header_len f in
  let ty := fc_type (f_fc f) in
  wfbytes b -> 0 < a -> a + zlen b < 2 ^ 62 -> hl = 24 \/ hl = 26 -> f_len f = hl + zlen b ->
  (8 <= zlen b -> (mc = 0 <-> znth b 3 = 0 /\ znth b 4 = 0 /\ znth b 5 = 0)) ->
  hs_accepts b ty hl (f_len f) mc = true ->
  wrap s32 (rho "ret:libwifi_check_wpa_handshake") = 1 ->
  let run := exec 60 (mem_at a b) (frame_env rho ty (f_len f) hl a) [] body_libwifi_get_wpa_data in
  exists w v tr,
    get_wpa_data f = Done (Ok w) /\ observe run = Some (Some v, tr) /\ (v = 0 \/ v = -12) /\
    forall d s n, In ("memcpy", [d; s; n]) tr -> s = a + 107 ->
      n = w_key_data_length w /\ w_key_data w = firstn (Z.to_nat n) (skipn (Z.to_nat (s - a)) b).
Proof.
  intros b hl ty Hwf Ha Hend Hhl Hlen Hmc Hacc Hh run.
  rewrite Hlen in Hacc.
  pose proof (hs_accepts_len b ty hl mc Hacc) as H107.
  pose proof (wfbytes_znth b 105 Hwf ltac:(lia)) as B105. pose proof (wfbytes_znth b 106 Hwf ltac:(lia)) as B106.
  unfold get_wpa_data.
  rewrite (model_check_wpa_handshake f mc Hwf Hlen Hmc). fold b hl ty. rewrite Hlen, Hacc. cbn [bind].
  unfold body_rd. fold b.
  cbv delta [llc_len desc_len ki_off sizeof_libwifi_logical_link_ctrl sizeof_libwifi_wpa_auth_data host_sizeof_ptr
             off_libwifi_wpa_auth_data__version off_libwifi_wpa_auth_data__type off_libwifi_wpa_auth_data__length
             off_libwifi_wpa_auth_data__descriptor off_libwifi_wpa_auth_data__key_info
             off_libwifi_wpa_key_info__information off_libwifi_wpa_key_info__key_length off_libwifi_wpa_key_info__replay_counter
             off_libwifi_wpa_key_info__nonce fsz_libwifi_wpa_key_info__nonce off_libwifi_wpa_key_info__iv fsz_libwifi_wpa_key_info__iv
             off_libwifi_wpa_key_info__rsc fsz_libwifi_wpa_key_info__rsc off_libwifi_wpa_key_info__id fsz_libwifi_wpa_key_info__id
             off_libwifi_wpa_key_info__mic fsz_libwifi_wpa_key_info__mic off_libwifi_wpa_key_info__key_data_length
             eapol_keydata_cap].
  cbv zeta.
  unfold rd_be. rewrite !rd_strict_in by lia. repeat (rewrite rd_bytes_strict by lia). cbn [bind].
  assert (Hd : be_dec (firstn 2 (skipn (Z.to_nat (8 + 5 + 92)) b)) = 256 * znth b 105 + znth b 106).
  { change (8 + 5 + 92) with 105. rewrite (skipn_cons_znth b 105) by lia. rewrite (skipn_cons_znth b (105 + 1)) by lia.
    cbn [firstn]. unfold be_dec. cbn [rev app le_dec]. change (105 + 1) with 106. lia. }
  rewrite Hd. clear Hd.
  change (8 + (107 - 8)) with 107.
  destruct (code_get_wpa_data b a hl ty rho Hwf Ha Hend Hhl) as [_ H].
  specialize (H ltac:(lia) H107). cbv zeta in H.
  subst run. rewrite Hlen, H. clear H.
  set (d := 256 * znth b 105 + znth b 106) in *.
  assert (Hdr : 0 <= d < 65536) by (unfold d; lia). clearbody d.
  set (kdlm := if 0 <? d then _ else d).
  assert (Hk : kdlm = Z.min (Z.min d 1024) (zlen b - 107)).
  { subst kdlm. destruct (Z.ltb_spec 1024 d); cbv beta iota.
    all: repeat match goal with |- context [?x <? ?y] => destruct (Z.ltb_spec x y); cbv beta iota end; lia. }
  rewrite Hk. clear Hk kdlm.
  set (kdl := Z.min (Z.min d 1024) (zlen b - 107)).
  assert (Hkr : 0 <= kdl <= zlen b - 107) by (subst kdl; lia). clearbody kdl.
  rewrite rd_bytes_strict by lia. cbn [bind].
  destruct (Z.eqb_spec kdl 0) as [K0 | K0]; [ | destruct (Z.eqb_spec (wrap u64 (rho "ret:malloc")) 0) as [M0 | M0] ];
    eexists; eexists; eexists; (split; [ reflexivity | ]); (split; [ reflexivity | ]); (split; [ auto | ]);
    intros dd s n Hin Hs; cbn [In app] in Hin;
    repeat (destruct Hin as [Hin | Hin]; [ try discriminate Hin; inversion Hin; subst; clear Hin; try lia | ]);
    try contradiction.
  cbn [w_key_data_length w_key_data]. replace (a + 107 - a) with 107 by lia. split; reflexivity.
Qed.

Print Assumptions code_check_wpa_handshake.
Print Assumptions code_check_wpa_handshake_refines_model.
Print Assumptions code_get_wpa_key_data_length.
Print Assumptions code_get_wpa_key_data_length_accepted.
Print Assumptions code_get_wpa_key_data_length_refines_model.
Print Assumptions code_get_wpa_data.
Print Assumptions code_get_wpa_data_safe.
Print Assumptions code_get_wpa_data_refines_model.
Print Assumptions code_check_wpa_message.
Print Assumptions code_check_wpa_message_refines_model.
Print Assumptions get_wpa_key_data_length_short_body_refuted.
Print Assumptions get_wpa_data_short_body_refuted.
