(* libwifi_create_radiotap AS TRANSLATED from gen/misc/radiotap.c (Gen/Sites.v: body_libwifi_create_radiotap).
   See the summary at the end of the file for the statements. *)
From Coq Require Import ZArith String List Bool Lia.
From LW Require Import Base.Bytes Base.CExpr Gen.Rtap Gen.Sites Spec.CodeSpec Proofs.SitesLemmas.
From LW Require Import Model.Radiotap Model.RadiotapGen Spec.RadiotapSpec Spec.RadiotapGenSpec Proofs.RadiotapGenProofs.
Import ListNotations.
Local Open Scope string_scope.
Local Open Scope Z_scope.

(* ================================================================ 0. the body, cut into named pieces
   The only thing abstracted is the expression that reads the alignment of the current field ([ea]); the translator
   produces a load from the table's bytes for it (rt_align_load, rt_body_eq; section 7). *)
Definition rt_ant_loop : cstmt :=
  (SLoop "loop#1" true (CBin OLt (mkty true 32) (CVar (mkty true 32) "i") (CCast (mkty true 32) (CVar (mkty false 8) "info->antenna_count"))) [(SCall "call:memcpy#4" "memcpy" [(CBin OAdd s64 (CVar u64 "&rtap_data") (CCast s64 (CVar (mkty true 32) "offset"))); (CCast u64 (CBin OAdd s64 (CVar u64 "&info->antennas") (CLit s64 0))); (CLit u64 1)]); (SSet "upd:offset#5" "offset" (CCast (mkty true 32) (CBin OAdd (mkty false 64) (CCast (mkty false 64) (CVar (mkty true 32) "offset")) (CLit u64 1)))); (SCall "call:memcpy#5" "memcpy" [(CBin OAdd s64 (CVar u64 "&rtap_data") (CCast s64 (CVar (mkty true 32) "offset"))); (CCast u64 (CBin OAdd s64 (CVar u64 "&info->antennas") (CLit s64 1))); (CLit u64 1)]); (SSet "upd:offset#6" "offset" (CCast (mkty true 32) (CBin OAdd (mkty false 64) (CCast (mkty false 64) (CVar (mkty true 32) "offset")) (CLit u64 1))))] [(SSet "upd:i#0" "i" (CCast (mkty true 32) (CBin OAdd (mkty true 32) (CCast (mkty true 32) (CVar (mkty true 32) "i")) (CLit (mkty true 32) 1))))]).

Definition rt_cases : list (list Z * list cstmt) :=
  [([3], [(SCall "call:memcpy#0" "memcpy" [(CBin OAdd s64 (CVar u64 "&rtap_data") (CCast s64 (CVar (mkty true 32) "offset"))); (CVar u64 "&info->channel.freq"); (CLit u64 2)]); (SSet "upd:offset#1" "offset" (CCast (mkty true 32) (CBin OAdd (mkty false 64) (CCast (mkty false 64) (CVar (mkty true 32) "offset")) (CLit u64 2)))); (SCall "call:memcpy#1" "memcpy" [(CBin OAdd s64 (CVar u64 "&rtap_data") (CCast s64 (CVar (mkty true 32) "offset"))); (CVar u64 "&info->channel.flags"); (CLit u64 2)]); (SSet "upd:offset#2" "offset" (CCast (mkty true 32) (CBin OAdd (mkty false 64) (CCast (mkty false 64) (CVar (mkty true 32) "offset")) (CLit u64 2)))); SBreak]);
   ([2], [(SCall "call:memcpy#2" "memcpy" [(CBin OAdd s64 (CVar u64 "&rtap_data") (CCast s64 (CVar (mkty true 32) "offset"))); (CVar u64 "&info->rate_raw"); (CLit u64 1)]); (SSet "upd:offset#3" "offset" (CCast (mkty true 32) (CBin OAdd (mkty false 64) (CCast (mkty false 64) (CVar (mkty true 32) "offset")) (CLit u64 1)))); SBreak]);
   ([5], [(SCall "call:memcpy#3" "memcpy" [(CBin OAdd s64 (CVar u64 "&rtap_data") (CCast s64 (CVar (mkty true 32) "offset"))); (CVar u64 "&info->signal"); (CLit u64 1)]); (SSet "upd:offset#4" "offset" (CCast (mkty true 32) (CBin OAdd (mkty false 64) (CCast (mkty false 64) (CVar (mkty true 32) "offset")) (CLit u64 1)))); SBreak]);
   ([11], [(SSet "decl:i#0" "i" (CCast (mkty true 32) (CLit (mkty true 32) 0))); rt_ant_loop; SBreak]);
   ([6], [SBreak]);
   ([1], [(SCall "call:memcpy#6" "memcpy" [(CBin OAdd s64 (CVar u64 "&rtap_data") (CCast s64 (CVar (mkty true 32) "offset"))); (CVar u64 "&info->flags"); (CLit u64 1)]); (SSet "upd:offset#7" "offset" (CCast (mkty true 32) (CBin OAdd (mkty false 64) (CCast (mkty false 64) (CVar (mkty true 32) "offset")) (CLit u64 1)))); SBreak]);
   ([31], [(SCall "call:memcpy#7" "memcpy" [(CBin OAdd s64 (CVar u64 "&rtap_data") (CCast s64 (CVar (mkty true 32) "offset"))); (CVar u64 "&info->extended_flags"); (CLit u64 4)]); (SSet "upd:offset#8" "offset" (CCast (mkty true 32) (CBin OAdd (mkty false 64) (CCast (mkty false 64) (CVar (mkty true 32) "offset")) (CLit u64 4)))); SBreak]);
   ([14], [(SCall "call:memcpy#8" "memcpy" [(CBin OAdd s64 (CVar u64 "&rtap_data") (CCast s64 (CVar (mkty true 32) "offset"))); (CVar u64 "&info->rx_flags"); (CLit u64 2)]); (SSet "upd:offset#9" "offset" (CCast (mkty true 32) (CBin OAdd (mkty false 64) (CCast (mkty false 64) (CVar (mkty true 32) "offset")) (CLit u64 2)))); SBreak]);
   ([15], [(SCall "call:memcpy#9" "memcpy" [(CBin OAdd s64 (CVar u64 "&rtap_data") (CCast s64 (CVar (mkty true 32) "offset"))); (CVar u64 "&info->tx_flags"); (CLit u64 2)]); (SSet "upd:offset#10" "offset" (CCast (mkty true 32) (CBin OAdd (mkty false 64) (CCast (mkty false 64) (CVar (mkty true 32) "offset")) (CLit u64 2)))); SBreak]);
   ([19], [(SCall "call:memcpy#10" "memcpy" [(CBin OAdd s64 (CVar u64 "&rtap_data") (CCast s64 (CVar (mkty true 32) "offset"))); (CVar u64 "&info->mcs.known"); (CLit u64 1)]); (SSet "upd:offset#11" "offset" (CCast (mkty true 32) (CBin OAdd (mkty false 64) (CCast (mkty false 64) (CVar (mkty true 32) "offset")) (CLit u64 1)))); (SCall "call:memcpy#11" "memcpy" [(CBin OAdd s64 (CVar u64 "&rtap_data") (CCast s64 (CVar (mkty true 32) "offset"))); (CVar u64 "&info->mcs.flags"); (CLit u64 1)]); (SSet "upd:offset#12" "offset" (CCast (mkty true 32) (CBin OAdd (mkty false 64) (CCast (mkty false 64) (CVar (mkty true 32) "offset")) (CLit u64 1)))); (SCall "call:memcpy#12" "memcpy" [(CBin OAdd s64 (CVar u64 "&rtap_data") (CCast s64 (CVar (mkty true 32) "offset"))); (CVar u64 "&info->mcs.mcs"); (CLit u64 1)]); (SSet "upd:offset#13" "offset" (CCast (mkty true 32) (CBin OAdd (mkty false 64) (CCast (mkty false 64) (CVar (mkty true 32) "offset")) (CLit u64 1)))); SBreak]);
   ([10], [(SCall "call:memcpy#13" "memcpy" [(CBin OAdd s64 (CVar u64 "&rtap_data") (CCast s64 (CVar (mkty true 32) "offset"))); (CVar u64 "&info->tx_power"); (CLit u64 1)]); (SSet "upd:offset#14" "offset" (CCast (mkty true 32) (CBin OAdd (mkty false 64) (CCast (mkty false 64) (CVar (mkty true 32) "offset")) (CLit u64 1)))); SBreak]);
   ([22], [(SCall "call:memcpy#14" "memcpy" [(CBin OAdd s64 (CVar u64 "&rtap_data") (CCast s64 (CVar (mkty true 32) "offset"))); (CVar u64 "&info->timestamp.timestamp"); (CLit u64 8)]); (SSet "upd:offset#15" "offset" (CCast (mkty true 32) (CBin OAdd (mkty false 64) (CCast (mkty false 64) (CVar (mkty true 32) "offset")) (CLit u64 8)))); (SCall "call:memcpy#15" "memcpy" [(CBin OAdd s64 (CVar u64 "&rtap_data") (CCast s64 (CVar (mkty true 32) "offset"))); (CVar u64 "&info->timestamp.accuracy"); (CLit u64 2)]); (SSet "upd:offset#16" "offset" (CCast (mkty true 32) (CBin OAdd (mkty false 64) (CCast (mkty false 64) (CVar (mkty true 32) "offset")) (CLit u64 2)))); (SCall "call:memcpy#16" "memcpy" [(CBin OAdd s64 (CVar u64 "&rtap_data") (CCast s64 (CVar (mkty true 32) "offset"))); (CVar u64 "&info->timestamp.unit"); (CLit u64 1)]); (SSet "upd:offset#17" "offset" (CCast (mkty true 32) (CBin OAdd (mkty false 64) (CCast (mkty false 64) (CVar (mkty true 32) "offset")) (CLit u64 1)))); (SCall "call:memcpy#17" "memcpy" [(CBin OAdd s64 (CVar u64 "&rtap_data") (CCast s64 (CVar (mkty true 32) "offset"))); (CVar u64 "&info->timestamp.flags"); (CLit u64 1)]); (SSet "upd:offset#18" "offset" (CCast (mkty true 32) (CBin OAdd (mkty false 64) (CCast (mkty false 64) (CVar (mkty true 32) "offset")) (CLit u64 1)))); SBreak]);
   ([16], [(SCall "call:memcpy#18" "memcpy" [(CBin OAdd s64 (CVar u64 "&rtap_data") (CCast s64 (CVar (mkty true 32) "offset"))); (CVar u64 "&info->rts_retries"); (CLit u64 1)]); (SSet "upd:offset#19" "offset" (CCast (mkty true 32) (CBin OAdd (mkty false 64) (CCast (mkty false 64) (CVar (mkty true 32) "offset")) (CLit u64 1)))); SBreak]);
   ([17], [(SCall "call:memcpy#19" "memcpy" [(CBin OAdd s64 (CVar u64 "&rtap_data") (CCast s64 (CVar (mkty true 32) "offset"))); (CVar u64 "&info->data_retries"); (CLit u64 1)]); (SSet "upd:offset#20" "offset" (CCast (mkty true 32) (CBin OAdd (mkty false 64) (CCast (mkty false 64) (CVar (mkty true 32) "offset")) (CLit u64 1)))); SBreak])].

Definition rt_switch : cstmt := SSwitch "switch#0" (CVar (mkty true 32) "field") rt_cases [].

Definition rt_pad_expr : cexpr :=
  (CCast (mkty false 8) (CCast (mkty false 8) (CCond (mkty true 32) (CBin OGt (mkty true 32) (CCast (mkty true 32) (CVar (mkty false 8) "align")) (CLit (mkty true 32) 0)) (CBin ORem (mkty true 32) (CBin OSub (mkty true 32) (CCast (mkty true 32) (CVar (mkty false 8) "align")) (CBin ORem (mkty true 32) (CVar (mkty true 32) "offset") (CCast (mkty true 32) (CVar (mkty false 8) "align")))) (CCast (mkty true 32) (CVar (mkty false 8) "align"))) (CLit (mkty true 32) 0)))).

Definition rt_if1 : cstmt :=
  (SIf "if#1" (CBin OGt (mkty true 32) (CCast (mkty true 32) (CVar (mkty false 8) "padding")) (CLit (mkty true 32) 0)) [(SCall "call:memset#0" "memset" [(CBin OAdd s64 (CVar u64 "&rtap_data") (CCast s64 (CVar (mkty true 32) "offset"))); (CLit (mkty true 32) 0); (CCast (mkty false 64) (CVar (mkty false 8) "padding"))]); (SSet "upd:offset#0" "offset" (CCast (mkty true 32) (CBin OAdd (mkty true 32) (CCast (mkty true 32) (CVar (mkty true 32) "offset")) (CCast (mkty true 32) (CVar (mkty false 8) "padding")))))] []).

Definition rt_branch (ea : cexpr) : list cstmt :=
  [(SSet "decl:align#0" "align" (CCast (mkty false 8) ea)); (SSet "decl:padding#0" "padding" rt_pad_expr); rt_if1; rt_switch].

Definition rt_iter (ea : cexpr) : list cstmt :=
  [(SIf "if#0" (CBin OAnd (mkty false 32) (CVar (mkty false 32) "presence_bit") (CCast (mkty false 32) (CLit (mkty true 32) 1))) (rt_branch ea) []); (SSet "upd:presence_bit#0" "presence_bit" (CCast (mkty false 32) (CBin OShr (mkty false 32) (CCast (mkty false 32) (CVar (mkty false 32) "presence_bit")) (CLit (mkty true 32) 1))))].

Definition rt_loop (ea : cexpr) : cstmt :=
  (SLoop "loop#0" true (CBin OLt (mkty true 32) (CVar (mkty true 32) "field") (CVar (mkty true 32) "radiotap_ns.n_bits")) (rt_iter ea) [(SSet "upd:field#0" "field" (CCast (mkty true 32) (CBin OAdd (mkty true 32) (CCast (mkty true 32) (CVar (mkty true 32) "field")) (CLit (mkty true 32) 1))))]).

Definition rt_body (ea : cexpr) : list cstmt := [
  (SSet "set:rtap_hdr.it_version#0" "rtap_hdr.it_version" (CCast (mkty false 8) (CCast (mkty false 8) (CLit (mkty true 32) 0))));
  (SSet "set:rtap_hdr.it_pad#0" "rtap_hdr.it_pad" (CCast (mkty false 8) (CCast (mkty false 8) (CLit (mkty true 32) 0))));
  (SSet "set:rtap_hdr.it_present#0" "rtap_hdr.it_present" (CCast (mkty false 32) (CVar (mkty false 32) "info->present")));
  (SSet "set:rtap_hdr.it_len#0" "rtap_hdr.it_len" (CCast (mkty false 16) (CCast (mkty false 16) (CLit u64 8))));
  (SSet "decl:offset#0" "offset" (CCast (mkty true 32) (CLit (mkty true 32) 0)));
  (SSet "decl:presence_bit#0" "presence_bit" (CCast (mkty false 32) (CVar (mkty false 32) "rtap_hdr.it_present")));
  (SSet "decl:field#0" "field" (CCast (mkty true 32) (CLit (mkty true 32) 0)));
  rt_loop ea;
  (SSet "upd:rtap_hdr.it_len#0" "rtap_hdr.it_len" (CCast (mkty false 16) (CBin OAdd (mkty true 32) (CCast (mkty true 32) (CVar (mkty false 16) "rtap_hdr.it_len")) (CVar (mkty true 32) "offset"))));
  (SCall "call:memcpy#20" "memcpy" [(CVar (mkty false 64) "radiotap_header"); (CVar u64 "&rtap_hdr"); (CLit u64 8)]);
  (SCall "call:memcpy#21" "memcpy" [(CBin OAdd s64 (CVar (mkty false 64) "radiotap_header") (CCast s64 (CLit u64 8))); (CVar u64 "&rtap_data"); (CCast (mkty false 64) (CVar (mkty true 32) "offset"))]);
  (SRet "ret#0" (Some (CCast (mkty false 64) (CVar (mkty false 16) "rtap_hdr.it_len"))))
].

(* the alignment of the current field as the translator reads it: a LOAD of the one-byte table element
   radiotap_ns.align_size[field] (struct radiotap_align_size: low nibble = align, high nibble = size), then  (byte >> 0) & 15 *)
Definition rt_align_load : cexpr :=
  CCast (mkty false 8) (CBin OAnd u32 (CBin OShr u32 (CCast u32 (CLoad (mkty false 8)
    (CBin OAdd s64 (CBin OAdd s64 (CVar (mkty false 64) "radiotap_ns.align_size") (CCast s64 (CVar (mkty true 32) "field"))) (CLit s64 0))))
    (CLit s32 0)) (CLit u32 15)).

Lemma rt_body_eq : body_libwifi_create_radiotap = rt_body rt_align_load.
Proof. reflexivity. Qed.

(* an EARLIER translation named the table entry by its source text, "radiotap_ns.align_size[field].align": one lvalue for all
   23 turns.  Kept for section 9 (why that naming was wrong). *)
Definition rt_align_name : string := "radiotap_ns.align_size[field].align".
Definition rt_align_var : cexpr := CVar (mkty false 8) rt_align_name.

(* ================================================================ 1. running a statement list, fuel-robustly
   [runs N m rho tr l o]: with some fuel not above N the run of l has the outcome o, which is not NoFuel.  By
   exec_fuel_le the same outcome is obtained with any fuel >= N (runs_exec). *)
Definition runs (N : nat) (m : memory) (rho : env) (tr : list event) (l : list cstmt) (o : xresult) : Prop :=
  exists f, (f <= N)%nat /\ exec f m rho tr l = o /\ o <> NoFuel.

Lemma runs_exec N F m rho tr l o : (N <= F)%nat -> runs N m rho tr l o -> exec F m rho tr l = o.
Proof. intros Hle (f & Hf & He & Hn). apply (exec_fuel_le f F); [lia | exact He | exact Hn]. Qed.

Lemma runs_mono N N' m rho tr l o : (N <= N')%nat -> runs N m rho tr l o -> runs N' m rho tr l o.
Proof. intros Hle (f & Hf & H). exists f. split; [lia | exact H]. Qed.

Lemma runs_set N m rho tr k x e r v o :
  ceval rho m e = Some v -> runs N m (upd rho x v) tr r o -> runs (S N) m rho tr (SSet k x e :: r) o.
Proof.
  intros He (f & Hf & Hx & Hn). exists (S f). split; [lia | ].
  rewrite (exec_set f m rho tr k x e r v He). split; assumption.
Qed.

Lemma runs_call N m rho tr k g args r vs o :
  evals rho m args = Some vs -> runs N m rho (tr ++ [(g, vs)]) r o -> runs (S N) m rho tr (SCall k g args :: r) o.
Proof.
  intros He (f & Hf & Hx & Hn). exists (S f). split; [lia | ].
  rewrite (exec_call f m rho tr k g args r vs He). split; assumption.
Qed.

Lemma runs_nil N m rho tr : runs (S N) m rho tr [] (Fell rho tr).
Proof. exists 1%nat. split; [lia | ]. split; [reflexivity | discriminate]. Qed.

Lemma runs_break N m rho tr r : runs (S N) m rho tr (SBreak :: r) (Broke rho tr).
Proof. exists 1%nat. split; [lia | ]. split; [reflexivity | discriminate]. Qed.

Lemma runs_ret N m rho tr k e r v :
  ceval rho m e = Some v -> runs (S N) m rho tr (SRet k (Some e) :: r) (Returned (Some v) rho tr).
Proof.
  intros He. exists 1%nat. split; [lia | ]. rewrite (exec_ret 0 m rho tr k e r v He). split; [reflexivity | discriminate].
Qed.

Lemma runs_if N m rho tr k c a b r v rho1 tr1 o :
  ceval rho m c = Some v ->
  runs N m rho tr (if negb (v =? 0) then a else b) (Fell rho1 tr1) -> runs N m rho1 tr1 r o ->
  runs (S N) m rho tr (SIf k c a b :: r) o.
Proof.
  intros Hc (f1 & Hf1 & H1 & _) (f2 & Hf2 & H2 & Hn2).
  exists (S (Nat.max f1 f2)). split; [lia | ]. cbn [exec]. rewrite Hc.
  rewrite (exec_fuel_le f1 (Nat.max f1 f2) _ _ _ _ _ (Nat.le_max_l _ _) H1) by discriminate.
  cbv beta iota.
  rewrite (exec_fuel_le f2 (Nat.max f1 f2) _ _ _ _ _ (Nat.le_max_r _ _) H2 Hn2). split; [reflexivity | exact Hn2].
Qed.

(* the selected case (or the default) ends in break, or falls off its end *)
Lemma runs_switch N m rho tr k e cases d r v o1 rho1 tr1 o :
  ceval rho m e = Some v ->
  runs N m rho tr (pick_case v cases d) o1 -> (o1 = Fell rho1 tr1 \/ o1 = Broke rho1 tr1) ->
  runs N m rho1 tr1 r o ->
  runs (S N) m rho tr (SSwitch k e cases d :: r) o.
Proof.
  intros Hc (f1 & Hf1 & H1 & _) Ho (f2 & Hf2 & H2 & Hn2).
  exists (S (Nat.max f1 f2)). split; [lia | ]. cbn [exec]. rewrite Hc.
  destruct Ho as [Ho | Ho]; rewrite Ho in H1;
    rewrite (exec_fuel_le f1 (Nat.max f1 f2) _ _ _ _ _ (Nat.le_max_l _ _) H1) by discriminate; cbv beta iota;
    rewrite (exec_fuel_le f2 (Nat.max f1 f2) _ _ _ _ _ (Nat.le_max_r _ _) H2 Hn2); (split; [reflexivity | exact Hn2]).
Qed.

Lemma runs_loop_exit N m rho tr k c body step r o :
  ceval rho m c = Some 0 -> runs N m rho tr r o -> runs (S N) m rho tr (SLoop k true c body step :: r) o.
Proof.
  intros Hc (f & Hf & Hx & Hn). exists (S f). split; [lia | ].
  rewrite (exec_loop_exit f m rho tr k c body step r Hc). split; assumption.
Qed.

Lemma runs_loop_enter N m rho tr k c body step r v rho2 tr2 rho3 tr3 o :
  ceval rho m c = Some v -> v <> 0 ->
  runs N m rho tr body (Fell rho2 tr2) -> runs N m rho2 tr2 step (Fell rho3 tr3) ->
  runs N m rho3 tr3 (SLoop k true c body step :: r) o ->
  runs (S N) m rho tr (SLoop k true c body step :: r) o.
Proof.
  intros Hc Hv (f1 & Hf1 & H1 & _) (f2 & Hf2 & H2 & _) (f3 & Hf3 & H3 & Hn3).
  set (f := Nat.max f1 (Nat.max f2 f3)).
  exists (S f). split; [lia | ].
  rewrite (exec_loop_enter f m rho tr k c body step r v Hc Hv).
  rewrite (exec_fuel_le f1 f _ _ _ _ _ ltac:(lia) H1) by discriminate. cbv beta iota.
  rewrite (exec_fuel_le f2 f _ _ _ _ _ ltac:(lia) H2) by discriminate. cbv beta iota.
  rewrite (exec_fuel_le f3 f _ _ _ _ _ ltac:(lia) H3 Hn3). split; [reflexivity | exact Hn3].
Qed.

(* environments: what an assignment leaves alone *)
Lemma upd_other rho y v x : x <> y -> upd rho y v x = rho x.
Proof. intros H. unfold upd. destruct (String.eqb_spec x y); [contradiction | reflexivity]. Qed.

Ltac frame_side x Hx := intro; subst x; apply Hx; cbn [In]; auto 14.
Ltac frame_tac :=
  let x := fresh "x" in let Hx := fresh "Hx" in
  intros x Hx; repeat (rewrite upd_other by (frame_side x Hx)); try reflexivity.

(* ================================================================ 2. the trace: fills of the staging array
   the memcpy / memset(.., 0, ..) events of a trace, in order, fill [a, fin) without gap or overlap *)
Fixpoint fills_from (a : Z) (tr : list event) (fin : Z) : Prop :=
  match tr with
  | [] => a = fin
  | (f, [d; v; n]) :: r => (f = "memcpy" \/ (f = "memset" /\ v = 0)) /\ d = a /\ 0 <= n /\ fills_from (a + n) r fin
  | _ => False
  end.

Lemma fills_from_app a b c t1 t2 : fills_from a t1 b -> fills_from b t2 c -> fills_from a (t1 ++ t2) c.
Proof.
  revert a. induction t1 as [ | [f args] t1 IH]; intros a H1 H2.
  - cbn in H1. subst b. exact H2.
  - cbn [app]. destruct args as [ | d [ | v [ | n [ | ? ?]]]]; cbn [fills_from] in H1 |- *; try contradiction.
    destruct H1 as (Hf & Hd & Hn & H1). repeat split; try assumption. apply IH; assumption.
Qed.

Lemma fills_from_le a tr fin : fills_from a tr fin -> a <= fin.
Proof.
  revert a. induction tr as [ | [f args] tr IH]; intros a H.
  - cbn in H. lia.
  - destruct args as [ | d [ | v [ | n [ | ? ?]]]]; cbn [fills_from] in H; try contradiction.
    destruct H as (_ & _ & Hn & H). apply IH in H. lia.
Qed.

(* ================================================================ 3. what the code lays out, as arithmetic
   [pad_of a o]: the zero bytes put before a field of alignment a when the staging offset is o (the C expression
   align > 0 ? (align - offset % align) % align : 0);  [size_written cnt k]: the bytes the switch copies for field k
   (cnt = info->antenna_count; the fields the switch has no case for - 0, 4, 7, 8, 9, 12, 13, 18, 20, 21 - and the explicit
   empty case 6 copy nothing, but ARE padded for);  [lay algn cnt n k pb o]: the offset after the n turns of the loop that
   start with field = k, presence_bit = pb, offset = o. *)
Definition pad_of (a o : Z) : Z := if 0 <? a then (a - o mod a) mod a else 0.
Definition pad_to (a o : Z) : Z := o + pad_of a o.
Definition size_written (cnt k : Z) : Z :=
  match k with
  | 1 => 1 | 2 => 1 | 3 => 4 | 5 => 1 | 10 => 1 | 11 => 2 * cnt | 14 => 2 | 15 => 2 | 16 => 1 | 17 => 1 | 19 => 3 | 22 => 12
  | _ => 0
  end.
Definition field_step (a cnt k pb o : Z) : Z := if Z.odd pb then pad_to a o + size_written cnt k else o.
Fixpoint lay (algn : Z -> Z) (cnt : Z) (n : nat) (k pb o : Z) : Z :=
  match n with
  | O => o
  | S n' => lay algn cnt n' (k + 1) (Z.shiftr pb 1) (field_step (algn k) cnt k pb o)
  end.

Lemma pad_of_range a o : 0 <= a -> 0 <= pad_of a o /\ (pad_of a o < a \/ (a = 0 /\ pad_of a o = 0)).
Proof.
  intros Ha. unfold pad_of. destruct (Z.ltb_spec 0 a) as [H | H].
  - pose proof (Z.mod_pos_bound (a - o mod a) a H). lia.
  - lia.
Qed.

Lemma pad_of_aligned a o : 0 < a -> (o + pad_of a o) mod a = 0.
Proof.
  intros Ha. unfold pad_of. destruct (Z.ltb_spec 0 a) as [_ | H]; [ | lia].
  pose proof (Z.div_mod o a ltac:(lia)) as Hd. pose proof (Z.mod_pos_bound o a Ha) as Hm.
  destruct (Z.eq_dec (o mod a) 0) as [E | E].
  - rewrite E, Z.sub_0_r, Z.mod_same, Z.add_0_r by lia. exact E.
  - rewrite (Z.mod_small (a - o mod a) a) by lia.
    replace (o + (a - o mod a)) with ((o / a + 1) * a) by lia. apply Z.mod_mul. lia.
Qed.

Lemma size_written_range cnt k : 0 <= cnt <= 255 -> 0 <= size_written cnt k <= 510.
Proof.
  intros Hc. unfold size_written.
  repeat match goal with |- context [match ?x with _ => _ end] => destruct x; try lia end.
Qed.

Section WithMemory.
Variable m : memory.

Ltac nums :=
  change (2 ^ 64) with 18446744073709551616 in *; change (2 ^ 63) with 9223372036854775808 in *;
  change (2 ^ 62) with 4611686018427387904 in *; change (2 ^ 32) with 4294967296 in *;
  change (2 ^ 31) with 2147483648 in *; change (2 ^ 23) with 8388608 in *.

(* ================================================================ 4. the pieces of one turn *)

(* memcpy(&rtap_data[offset], src, n); offset += n; *)
Definition dst_expr : cexpr := CBin OAdd s64 (CVar u64 "&rtap_data") (CCast s64 (CVar (mkty true 32) "offset")).
Definition off_add (n : Z) : cexpr :=
  CCast (mkty true 32) (CBin OAdd (mkty false 64) (CCast (mkty false 64) (CVar (mkty true 32) "offset")) (CLit u64 n)).

Lemma runs_copy N rho tr kc ks src n r o base off sv :
  rho "&rtap_data" = base -> 0 <= base < 2 ^ 62 -> rho "offset" = off -> 0 <= off <= 40000 -> 0 <= n <= 8 ->
  ceval rho m src = Some sv ->
  runs N m (upd rho "offset" (off + n)) (tr ++ [("memcpy", [base + off; sv; n])]) r o ->
  runs (S (S N)) m rho tr (SCall kc "memcpy" [dst_expr; src; CLit u64 n] :: SSet ks "offset" (off_add n) :: r) o.
Proof.
  intros Hb Hb0 Ho Ho0 Hn Hs H. nums.
  eapply runs_call.
  { cbn [evals]. rewrite Hs. unfold dst_expr. ceval_unfold. rewrite Hb, Ho. wrap_ids. reflexivity. }
  eapply runs_set; [ | exact H].
  unfold off_add. ceval_unfold. rewrite Ho. wrap_ids. reflexivity.
Qed.

(* the antenna loop: n turns left, i = cnt - n *)
Lemma ant_loop_runs base cnt ants : 0 <= base < 2 ^ 62 -> 0 <= cnt <= 255 -> 0 <= ants < 2 ^ 62 ->
  forall n rho tr i off,
    rho "i" = i -> 0 <= i -> i + Z.of_nat n = cnt -> rho "offset" = off -> 0 <= off -> off + 2 * Z.of_nat n <= 40000 ->
    rho "info->antenna_count" = cnt -> rho "&rtap_data" = base -> rho "&info->antennas" = ants ->
    exists rho' evs,
      rho' "offset" = off + 2 * Z.of_nat n /\ fills_from (base + off) evs (base + off + 2 * Z.of_nat n) /\
      (forall x, ~ In x ["offset"; "i"] -> rho' x = rho x) /\
      forall r o N, (6 <= N)%nat -> runs N m rho' (tr ++ evs) r o -> runs (S (n + N)) m rho tr (rt_ant_loop :: r) o.
Proof.
  intros Hb0 Hc0 Ha0. nums.
  induction n as [ | n IH]; intros rho tr i off Hi Hi0 Hin Ho Ho0 Hfit Hc Hb Ha.
  - exists rho, []. split; [lia | ]. split; [cbn; lia | ]. split; [reflexivity | ].
    intros r o N HN H. rewrite app_nil_r in H. cbn [Nat.add]. unfold rt_ant_loop. apply runs_loop_exit; [ | exact H].
    ceval_unfold. rewrite Hi, Hc. wrap_ids. decide_bools. reflexivity.
  - set (rho2 := upd (upd rho "offset" (off + 1)) "offset" (off + 1 + 1)).
    set (e1 := ("memcpy", [base + off; ants; 1]) : event).
    set (e2 := ("memcpy", [base + (off + 1); ants + 1; 1]) : event).
    destruct (IH (upd rho2 "i" (i + 1)) ((tr ++ [e1]) ++ [e2])%list (i + 1) (off + 1 + 1)) as (rho' & evs & Ho' & Hf' & Hfr' & Hk');
      try reflexivity; try lia; try assumption.
    exists rho', (e1 :: e2 :: evs). split; [lia | ]. split.
    { cbn [fills_from e1 e2]. repeat split; try lia; try (left; reflexivity).
      replace (base + off + 1 + 1) with (base + (off + 1 + 1)) by lia.
      replace (base + off + 2 * Z.of_nat (S n)) with (base + (off + 1 + 1) + 2 * Z.of_nat n) by lia. exact Hf'. }
    split.
    { intros x Hx. rewrite Hfr' by exact Hx. unfold rho2. revert x Hx. frame_tac. }
    intros r o N HN H.
    change (S (S n + N)) with (S (S (n + N))). unfold rt_ant_loop.
    eapply runs_loop_enter with (v := 1) (rho2 := rho2) (tr2 := ((tr ++ [e1]) ++ [e2])%list).
    + ceval_unfold. rewrite Hi, Hc. wrap_ids. decide_bools. reflexivity.
    + discriminate.
    + apply runs_mono with (N := 5%nat); [lia | ].
      eapply (runs_copy _ rho tr _ _ _ 1 _ _ base off ants); try eassumption; try lia.
      { ceval_unfold. rewrite Ha. wrap_ids. f_equal. lia. }
      eapply (runs_copy _ _ _ _ _ _ 1 _ _ base (off + 1) (ants + 1)); try reflexivity; try lia; try assumption.
      { ceval_unfold. rewrite Ha. wrap_ids. reflexivity. }
      apply runs_nil.
    + apply runs_mono with (N := 2%nat); [lia | ].
      eapply runs_set; [ | apply runs_nil].
      ceval_unfold. change (rho2 "i") with (rho "i"). rewrite Hi. wrap_ids. reflexivity.
    + fold rt_ant_loop. apply Hk'; [exact HN | ].
      replace ((((tr ++ [e1]) ++ [e2]) ++ evs)%list) with ((tr ++ e1 :: e2 :: evs)%list); [exact H | ].
      rewrite <- !app_assoc. reflexivity.
Qed.

(* the body of the switch for field k: ends in break (or is the empty default), advances offset by size_written, and its
   copies fill the staging array from the old offset to the new one *)
Ltac upd_cbv := cbv beta iota delta [upd String.eqb Ascii.eqb Bool.eqb].
Ltac copy_steps Hb Hb0 :=
  repeat (eapply runs_copy;
          [ exact Hb | exact Hb0 | upd_cbv; reflexivity | lia | lia | ceval_unfold; reflexivity | ]).
Ltac fills_tac :=
  cbn [fills_from app]; repeat split; try lia; try (left; reflexivity).

Lemma case_runs rho tr k off cnt base ants :
  0 <= k < 23 -> rho "offset" = off -> 0 <= off <= 30000 -> rho "info->antenna_count" = cnt -> 0 <= cnt <= 255 ->
  rho "&rtap_data" = base -> 0 <= base < 2 ^ 62 -> rho "&info->antennas" = ants -> 0 <= ants < 2 ^ 62 ->
  exists rho' tr' evs o1,
    runs 270 m rho tr (pick_case k rt_cases []) o1 /\ (o1 = Fell rho' tr' \/ o1 = Broke rho' tr') /\
    tr' = (tr ++ evs)%list /\
    rho' "offset" = off + size_written cnt k /\ fills_from (base + off) evs (base + off + size_written cnt k) /\
    (forall x, ~ In x ["offset"; "i"] -> rho' x = rho x).
Proof.
  intros Hk Ho Ho0 Hc Hc0 Hb Hb0 Ha Ha0.
  assert (Hcases : k = 0 \/ k = 1 \/ k = 2 \/ k = 3 \/ k = 4 \/ k = 5 \/ k = 6 \/ k = 7 \/ k = 8 \/ k = 9 \/ k = 10 \/ k = 11 \/
                   k = 12 \/ k = 13 \/ k = 14 \/ k = 15 \/ k = 16 \/ k = 17 \/ k = 18 \/ k = 19 \/ k = 20 \/ k = 21 \/ k = 22) by lia.
  clear Hk.
  repeat (destruct Hcases as [-> | Hcases]); try subst k;
    cbv beta iota delta [pick_case rt_cases existsb Z.eqb Pos.eqb orb size_written].
  (* the field numbers without a case, and the empty case 6, are handled first; then the copies; 11 last *)
  all: try (exists rho, tr, [], (Fell rho tr);
            split; [apply runs_nil | ]; split; [left; reflexivity | ]; split; [symmetry; apply app_nil_r | ];
            split; [lia | ]; split; [cbn; lia | reflexivity]).
  all: try (exists rho, tr, [], (Broke rho tr);
            split; [apply runs_break | ]; split; [right; reflexivity | ]; split; [symmetry; apply app_nil_r | ];
            split; [lia | ]; split; [cbn; lia | reflexivity]).
  all: try (eexists; eexists; eexists; eexists;
            split; [apply runs_mono with (N := 20%nat); [lia | ]; nums; copy_steps Hb Hb0; apply runs_break | ];
            split; [right; reflexivity | ]; split; [rewrite <- ?app_assoc; reflexivity | ];
            split; [upd_cbv; lia | ]; split; [fills_tac | frame_tac]).
  (* 11: the antennas *)
  destruct (ant_loop_runs base cnt ants Hb0 Hc0 Ha0 (Z.to_nat cnt) (upd rho "i" 0) tr 0 off)
    as (rho' & evs & Ho' & Hf' & Hfr' & Hk'); try reflexivity; try assumption; try lia.
  rewrite Z2Nat.id in Ho', Hf' by lia.
  exists rho', (tr ++ evs)%list, evs, (Broke rho' (tr ++ evs)).
  split.
  { apply runs_mono with (N := S (S (Z.to_nat cnt + 6))); [lia | ].
    eapply runs_set; [ceval_unfold; wrap_ids; reflexivity | ].
    apply Hk'; [lia | ]. apply runs_break. }
  split; [right; reflexivity | ]. split; [reflexivity | ]. split; [exact Ho' | ]. split; [exact Hf' | ].
  intros x Hx. rewrite Hfr' by exact Hx. revert x Hx. frame_tac.
Qed.

(* uint8_t padding = align > 0 ? (align - offset % align) % align : 0; *)
Lemma ceval_pad rho a off :
  rho "align" = a -> 0 <= a < 256 -> rho "offset" = off -> 0 <= off <= 40000 ->
  ceval rho m rt_pad_expr = Some (pad_of a off).
Proof.
  intros Ha Ha0 Ho Ho0. unfold rt_pad_expr, pad_of. ceval_unfold. rewrite Ha, Ho. wrap_ids.
  destruct (Z.ltb_spec 0 a) as [Hpos | Hz].
  - rewrite (gtb_true a 0) by lia. change (1 =? 0) with false. cbv beta iota.
    rewrite (eqb_false a 0) by lia. cbv beta iota.
    rewrite Z.rem_mod_nonneg by lia.
    pose proof (Z.mod_pos_bound off a Hpos) as H1. wrap_ids. cbv beta iota. wrap_ids. cbv beta iota.
    rewrite Z.rem_mod_nonneg by lia.
    pose proof (Z.mod_pos_bound (a - off mod a) a Hpos) as H2. wrap_ids. cbv beta iota. wrap_ids. reflexivity.
  - rewrite (gtb_false a 0) by lia. change (0 =? 0) with true. cbv beta iota. wrap_ids. reflexivity.
Qed.

(* if (padding > 0) { memset(&rtap_data[offset], 0, padding); offset += padding; } *)
Lemma if1_runs rho tr p off base :
  rho "padding" = p -> 0 <= p < 256 -> rho "offset" = off -> 0 <= off <= 30000 -> rho "&rtap_data" = base -> 0 <= base < 2 ^ 62 ->
  exists rho' evs,
    rho' "offset" = off + p /\ fills_from (base + off) evs (base + off + p) /\
    (forall x, ~ In x ["offset"] -> rho' x = rho x) /\
    forall r o N, (3 <= N)%nat -> runs N m rho' (tr ++ evs) r o -> runs (S N) m rho tr (rt_if1 :: r) o.
Proof.
  intros Hp Hp0 Ho Ho0 Hb Hb0. nums.
  destruct (Z.eq_dec p 0) as [E | E].
  - exists rho, []. split; [lia | ]. split; [cbn; lia | ]. split; [reflexivity | ].
    intros r o N HN H. rewrite app_nil_r in H. unfold rt_if1.
    eapply runs_if with (v := 0) (rho1 := rho) (tr1 := tr); [ | | exact H].
    + ceval_unfold. rewrite Hp. wrap_ids. decide_bools. reflexivity.
    + change (negb (0 =? 0)) with false. cbv beta iota. apply runs_mono with (N := 1%nat); [lia | apply runs_nil].
  - exists (upd rho "offset" (off + p)), [("memset", [base + off; 0; p])].
    split; [reflexivity | ]. split; [cbn; repeat split; try lia; right; split; reflexivity | ]. split; [frame_tac | ].
    intros r o N HN H. unfold rt_if1.
    eapply runs_if with (v := 1); [ | | exact H].
    + ceval_unfold. rewrite Hp. wrap_ids. decide_bools. reflexivity.
    + change (negb (1 =? 0)) with true. cbv beta iota. apply runs_mono with (N := 3%nat); [lia | ].
      eapply runs_call; [ceval_unfold; rewrite Hb, Ho, Hp; wrap_ids; reflexivity | ].
      eapply runs_set; [ceval_unfold; rewrite Ho, Hp; wrap_ids; reflexivity | ].
      apply runs_nil.
Qed.

(* ================================================================ 5. one turn of the loop (goal 1)
   [a] is the value the alignment expression has in this turn.  With the bit set: offset goes from o to
   pad_to a o + size_written cnt k, and the memset / memcpy events of the turn fill the staging array from &rtap_data + o to
   &rtap_data + (new offset) without gap; with the bit clear nothing happens.  In both cases presence_bit is shifted and
   nothing but offset, presence_bit, align, padding, i is assigned. *)
Definition rt_turn_locals : list string := ["offset"; "presence_bit"; "align"; "padding"; "i"].

Theorem code_rtgen_field ea rho tr k o pb a cnt base ants :
  0 <= k < 23 -> rho "field" = k -> rho "offset" = o -> 0 <= o <= 20000 ->
  rho "presence_bit" = pb -> 0 <= pb < 2 ^ 32 ->
  ceval rho m ea = Some a -> 0 <= a < 256 ->
  rho "info->antenna_count" = cnt -> 0 <= cnt <= 255 -> rho "&rtap_data" = base -> 0 <= base < 2 ^ 62 ->
  rho "&info->antennas" = ants -> 0 <= ants < 2 ^ 62 ->
  exists rho' evs,
    runs 280 m rho tr (rt_iter ea) (Fell rho' (tr ++ evs)) /\
    rho' "offset" = (if Z.odd pb then pad_to a o + size_written cnt k else o) /\
    rho' "presence_bit" = Z.shiftr pb 1 /\
    (Z.odd pb = false -> evs = []) /\
    fills_from (base + o) evs (base + rho' "offset") /\
    (forall x, ~ In x rt_turn_locals -> rho' x = rho x).
Proof.
  intros Hk Hf Ho Ho0 Hpb Hpb0 Hea Ha0 Hc Hc0 Hb Hb0 Han Han0. nums.
  assert (Hcond : ceval rho m (CBin OAnd (mkty false 32) (CVar (mkty false 32) "presence_bit") (CCast (mkty false 32) (CLit (mkty true 32) 1)))
                  = Some (Z.b2z (Z.odd pb))).
  { ceval_unfold. rewrite Hpb. wrap_ids. rewrite land_1_odd. destruct (Z.odd pb); reflexivity. }
  assert (Hshift : forall rho1, rho1 "presence_bit" = pb ->
            ceval rho1 m (CCast (mkty false 32) (CBin OShr (mkty false 32) (CCast (mkty false 32) (CVar (mkty false 32) "presence_bit")) (CLit (mkty true 32) 1)))
            = Some (Z.shiftr pb 1)).
  { intros rho1 H1. ceval_unfold. rewrite H1. wrap_ids. change ((1 <? 0) || (32 <=? 1)) with false. cbv beta iota.
    pose proof (shiftr1_u32 pb ltac:(lia)). wrap_ids. reflexivity. }
  destruct (Z.odd pb) eqn:Hodd.
  - (* the field is selected *)
    set (rho1 := upd rho "align" a).
    set (p := pad_of a o).
    assert (Hp0 : 0 <= p < 256) by (unfold p; pose proof (pad_of_range a o ltac:(lia)); lia).
    set (rho2 := upd rho1 "padding" p).
    destruct (if1_runs rho2 tr p o base) as (rho3 & evs3 & Ho3 & Hf3 & Hfr3 & Hk3); try reflexivity; try assumption; try lia.
    pose proof (size_written_range cnt k Hc0) as Hsz.
    assert (Hin3 : forall x, x <> "offset" -> ~ In x ["offset"]) by (intros x Hx [E | []]; congruence).
    destruct (case_runs rho3 (tr ++ evs3) k (o + p) cnt base ants) as (rho4 & tr4 & evs4 & o1 & Hr4 & Ho1 & Htr4 & Ho4 & Hf4 & Hfr4);
      try assumption; try lia;
      try (rewrite Hfr3 by (apply Hin3; discriminate); assumption).
    exists (upd rho4 "presence_bit" (Z.shiftr pb 1)), (evs3 ++ evs4)%list.
    assert (Hoff : upd rho4 "presence_bit" (Z.shiftr pb 1) "offset" = pad_to a o + size_written cnt k).
    { upd_cbv. rewrite Ho4. unfold pad_to. fold p. lia. }
    split.
    { unfold rt_iter.
      eapply runs_if with (v := 1) (rho1 := rho4) (tr1 := tr4); [exact Hcond | | ].
      - change (negb (1 =? 0)) with true. cbv beta iota. unfold rt_branch.
        apply runs_mono with (N := S (S (S (S 270)))); [lia | ].
        eapply runs_set with (v := a); [cbn [ceval]; rewrite Hea; wrap_ids; reflexivity | ].
        eapply runs_set with (v := p); [apply (ceval_pad rho1 a o); try reflexivity; try assumption; lia | ].
        apply Hk3; [lia | ].
        unfold rt_switch. eapply runs_switch with (v := k); [ | apply runs_mono with (N := 270%nat); [lia | exact Hr4] | exact Ho1 | apply runs_nil ].
        ceval_unfold. rewrite Hfr3 by (apply Hin3; discriminate). change (rho2 "field") with (rho "field"). rewrite Hf. wrap_ids. reflexivity.
      - apply runs_mono with (N := 2%nat); [lia | ].
        eapply runs_set; [apply Hshift | ].
        + rewrite Hfr4 by (intros [E | [E | []]]; discriminate). rewrite Hfr3 by (apply Hin3; discriminate). exact Hpb.
        + rewrite Htr4, <- app_assoc. apply runs_nil. }
    split; [exact Hoff | ]. split; [reflexivity | ]. split; [discriminate | ].
    split.
    { rewrite Hoff. apply fills_from_app with (b := base + (o + p)); [replace (base + (o + p)) with (base + o + p) by lia; exact Hf3 | ].
      replace (base + (pad_to a o + size_written cnt k)) with (base + (o + p) + size_written cnt k) by (unfold pad_to; fold p; lia).
      exact Hf4. }
    intros x Hx. unfold rt_turn_locals in Hx.
    rewrite upd_other by (frame_side x Hx).
    rewrite Hfr4 by (intro Hi; apply Hx; cbn [In] in Hi |- *; intuition).
    rewrite Hfr3 by (intro Hi; apply Hx; cbn [In] in Hi |- *; intuition).
    unfold rho2, rho1. revert x Hx. frame_tac.
  - (* not selected *)
    exists (upd rho "presence_bit" (Z.shiftr pb 1)), [].
    split.
    { unfold rt_iter. rewrite app_nil_r.
      eapply runs_if with (v := 0) (rho1 := rho) (tr1 := tr); [exact Hcond | | ].
      - change (negb (0 =? 0)) with false. cbv beta iota. apply runs_nil.
      - apply runs_mono with (N := 2%nat); [lia | ].
        eapply runs_set; [apply Hshift; exact Hpb | apply runs_nil]. }
    split; [exact Ho | ]. split; [reflexivity | ]. split; [reflexivity | ].
    split; [cbn; upd_cbv; rewrite Ho; reflexivity | ].
    unfold rt_turn_locals. frame_tac.
Qed.

(* ================================================================ 6. the loop and the whole routine (goal 2)
   [align_reads ea rho0 algn]: in the turn for field k the alignment expression evaluates to algn k, whatever values the
   lvalues the routine itself assigns have by then. *)
Definition rt_loop_locals : list string := "field" :: rt_turn_locals.
Definition rt_assigned : list string :=
  ["rtap_hdr.it_version"; "rtap_hdr.it_pad"; "rtap_hdr.it_present"; "rtap_hdr.it_len"] ++ rt_loop_locals.

Definition align_reads (ea : cexpr) (rho0 : env) (algn : Z -> Z) : Prop :=
  forall k rho, 0 <= k < 23 -> rho "field" = k -> (forall x, ~ In x rt_assigned -> rho x = rho0 x) ->
  ceval rho m ea = Some (algn k).

Lemma lay_bound algn cnt : 0 <= cnt <= 255 -> (forall k, 0 <= k < 23 -> 0 <= algn k < 256) ->
  forall n k pb o, Z.of_nat n = 23 - k -> 0 <= k -> 0 <= o <= 800 * k -> 0 <= lay algn cnt n k pb o <= 18400.
Proof.
  intros Hc Hal. induction n as [ | n IH]; intros k pb o Hn Hk Ho.
  - cbn [lay]. lia.
  - cbn [lay]. apply IH; try lia.
    unfold field_step, pad_to. pose proof (size_written_range cnt k Hc). pose proof (Hal k ltac:(lia)).
    pose proof (pad_of_range (algn k) o ltac:(lia)). destruct (Z.odd pb); lia.
Qed.

Lemma loop_runs ea algn rho0 cnt base ants :
  (forall k, 0 <= k < 23 -> 0 <= algn k < 256) -> align_reads ea rho0 algn ->
  rho0 "radiotap_ns.n_bits" = 23 ->
  rho0 "info->antenna_count" = cnt -> 0 <= cnt <= 255 -> rho0 "&rtap_data" = base -> 0 <= base < 2 ^ 62 ->
  rho0 "&info->antennas" = ants -> 0 <= ants < 2 ^ 62 ->
  forall n k rho tr o pb,
    Z.of_nat n = 23 - k -> 0 <= k -> rho "field" = k -> rho "offset" = o -> 0 <= o <= 800 * k ->
    rho "presence_bit" = pb -> 0 <= pb < 2 ^ 32 ->
    (forall x, ~ In x rt_loop_locals -> rho x = rho0 x) ->
    exists rho' evs,
      rho' "offset" = lay algn cnt n k pb o /\ fills_from (base + o) evs (base + rho' "offset") /\
      (forall x, ~ In x rt_loop_locals -> rho' x = rho x) /\
      forall r out N, (281 <= N)%nat -> runs N m rho' (tr ++ evs) r out -> runs (S (n + N)) m rho tr (rt_loop ea :: r) out.
Proof.
  intros Hal Hea Hnb Hc Hc0 Hb Hb0 Han Han0. nums.
  assert (Hnot : forall y, In y ["radiotap_ns.n_bits"; "info->antenna_count"; "&rtap_data"; "&info->antennas"] -> ~ In y rt_loop_locals).
  { intros y Hy Hin. cbn [In] in Hy. cbv [rt_loop_locals rt_turn_locals In] in Hin.
    repeat (destruct Hy as [<- | Hy]; [repeat (destruct Hin as [Hin | Hin]; [discriminate | ]); contradiction | ]). contradiction. }
  induction n as [ | n IH]; intros k rho tr o pb Hn Hk Hf Ho Ho0 Hpb Hpb0 Hag.
  - assert (E23 : k = 23) by lia.
    exists rho, []. split; [exact Ho | ]. split; [cbn; rewrite Ho; reflexivity | ]. split; [reflexivity | ].
    intros r out N HN Hr. rewrite app_nil_r in Hr. cbn [Nat.add]. unfold rt_loop. apply runs_loop_exit; [ | exact Hr].
    ceval_unfold. rewrite Hf, (Hag "radiotap_ns.n_bits") by (apply Hnot; cbn; auto). rewrite Hnb, E23. wrap_ids. reflexivity.
  - assert (Hk' : 0 <= k < 23) by lia.
    destruct (code_rtgen_field ea rho tr k o pb (algn k) cnt base ants) as (rho2 & evs2 & Hr2 & Ho2 & Hpb2 & _ & Hf2 & Hfr2);
      try assumption; try lia; try (apply Hal; exact Hk');
      try (rewrite Hag by (apply Hnot; cbn; auto); assumption).
    { apply Hea; [exact Hk' | exact Hf | ].
      intros x Hx. apply Hag. intro Hin. apply Hx. unfold rt_assigned. apply in_or_app. right. exact Hin. }
    fold (field_step (algn k) cnt k pb o) in Ho2.
    assert (Ho2' : 0 <= rho2 "offset" <= 800 * (k + 1)).
    { rewrite Ho2. unfold field_step, pad_to. pose proof (size_written_range cnt k Hc0). pose proof (Hal k Hk').
      pose proof (pad_of_range (algn k) o ltac:(lia)). destruct (Z.odd pb); lia. }
    assert (Hf2' : rho2 "field" = k).
    { rewrite Hfr2; [exact Hf | ]. cbv [rt_turn_locals In]. intros Hin. repeat (destruct Hin as [Hin | Hin]; [discriminate | ]). contradiction. }
    destruct (IH (k + 1) (upd rho2 "field" (k + 1)) (tr ++ evs2)%list (rho2 "offset") (Z.shiftr pb 1))
      as (rho' & evs & Ho' & Hf' & Hfr' & Hk''); try reflexivity; try lia; try assumption.
    { pose proof (shiftr1_u32 pb ltac:(lia)). lia. }
    { intros x Hx. rewrite upd_other by (intro; subst x; apply Hx; cbn; auto).
      rewrite Hfr2 by (intro Hin; apply Hx; right; exact Hin). apply Hag. exact Hx. }
    exists rho', (evs2 ++ evs)%list.
    split; [rewrite Ho'; cbn [lay]; rewrite Ho2; reflexivity | ].
    split; [apply fills_from_app with (b := base + rho2 "offset"); assumption | ].
    split.
    { intros x Hx. rewrite Hfr' by exact Hx. rewrite upd_other by (intro; subst x; apply Hx; cbn; auto).
      apply Hfr2. intro Hin. apply Hx. right. exact Hin. }
    intros r out N HN Hr.
    change (S (S n + N)) with (S (S (n + N))). unfold rt_loop.
    eapply runs_loop_enter with (v := 1) (rho2 := rho2) (tr2 := (tr ++ evs2)%list).
    + ceval_unfold. rewrite Hf, (Hag "radiotap_ns.n_bits") by (apply Hnot; cbn; auto). rewrite Hnb. wrap_ids. decide_bools. reflexivity.
    + discriminate.
    + apply runs_mono with (N := 280%nat); [lia | exact Hr2].
    + apply runs_mono with (N := 2%nat); [lia | ].
      eapply runs_set; [ | apply runs_nil]. ceval_unfold. rewrite Hf2'. wrap_ids. reflexivity.
    + fold (rt_loop ea). apply Hk''; [exact HN | ]. rewrite <- app_assoc. exact Hr.
Qed.

Ltac in_assigned := cbv [In rt_assigned rt_loop_locals rt_turn_locals app]; auto 14.
Ltac notin_assigned :=
  let Hin := fresh "Hin" in
  cbv [In rt_assigned rt_loop_locals rt_turn_locals app]; intros Hin;
  repeat (destruct Hin as [Hin | Hin]; [discriminate | ]); contradiction.

(* the whole routine, for an alignment expression [ea] that reads algn k in the turn for field k.
   present: any 32-bit word (only bits 0..22 are looked at: 23 turns); cnt = info->antenna_count: any octet.
   The run is not stuck for any fuel >= 400 and returns it_len = 8 + L where L = lay algn cnt 23 0 present 0 is the final offset;
   the trace is the fills of the staging array [&rtap_data, &rtap_data + L) in order without gap, followed by
   memcpy(radiotap_header, &rtap_hdr, 8) and memcpy(radiotap_header + 8, &rtap_data, L). *)
Theorem code_rtgen_layout_gen ea algn rho present cnt base ants hdr :
  (forall k, 0 <= k < 23 -> 0 <= algn k < 256) -> align_reads ea rho algn ->
  rho "info->present" = present -> 0 <= present < 2 ^ 32 -> rho "radiotap_ns.n_bits" = 23 ->
  rho "info->antenna_count" = cnt -> 0 <= cnt <= 255 -> rho "&rtap_data" = base -> 0 <= base < 2 ^ 62 ->
  rho "&info->antennas" = ants -> 0 <= ants < 2 ^ 62 -> rho "radiotap_header" = hdr -> 0 <= hdr < 2 ^ 62 ->
  let L := lay algn cnt 23 0 present 0 in
  exists rho' evs,
    (forall F, (400 <= F)%nat ->
       exec F m rho [] (rt_body ea) =
         Returned (Some (8 + L)) rho'
           (evs ++ [("memcpy", [hdr; wrap u64 (rho "&rtap_hdr"); 8]); ("memcpy", [hdr + 8; base; L])])) /\
    fills_from base evs (base + L) /\ 0 <= L <= 18400 /\
    rho' "offset" = L /\ rho' "rtap_hdr.it_len" = 8 + L /\ rho' "rtap_hdr.it_present" = present /\
    rho' "rtap_hdr.it_version" = 0 /\ rho' "rtap_hdr.it_pad" = 0.
Proof.
  intros Hal Hea Hp Hp0 Hnb Hc Hc0 Hb Hb0 Han Han0 Hh Hh0 L.
  assert (HL : 0 <= L <= 18400) by (apply (lay_bound algn cnt Hc0 Hal 23 0); [reflexivity | lia | lia]).
  nums.
  set (rho7 := upd (upd (upd (upd (upd (upd (upd rho "rtap_hdr.it_version" 0) "rtap_hdr.it_pad" 0) "rtap_hdr.it_present" present)
                 "rtap_hdr.it_len" 8) "offset" 0) "presence_bit" present) "field" 0).
  assert (Hfr7 : forall x, ~ In x rt_assigned -> rho7 x = rho x).
  { intros x Hx. unfold rho7. repeat (rewrite upd_other by (intro; subst x; apply Hx; in_assigned)). reflexivity. }
  assert (Hea7 : align_reads ea rho7 algn).
  { intros k rho1 Hk Hf H1. apply Hea; [exact Hk | exact Hf | ]. intros x Hx. rewrite H1 by exact Hx. apply Hfr7. exact Hx. }
  destruct (loop_runs ea algn rho7 cnt base ants Hal Hea7 Hnb Hc Hc0 Hb Hb0 Han Han0 23%nat 0 rho7 [] 0 present)
    as (rho1 & evs & Ho1 & Hf1 & Hfr1 & Hk1); try reflexivity; try lia.
  fold L in Ho1. rewrite Ho1 in Hf1. replace (base + 0) with base in Hf1 by lia.
  assert (Hlen1 : rho1 "rtap_hdr.it_len" = 8) by (rewrite Hfr1 by notin_assigned; reflexivity).
  assert (Hh1 : rho1 "radiotap_header" = hdr) by (rewrite Hfr1 by notin_assigned; exact Hh).
  assert (Hb1 : rho1 "&rtap_data" = base) by (rewrite Hfr1 by notin_assigned; exact Hb).
  assert (Hrh1 : rho1 "&rtap_hdr" = rho "&rtap_hdr") by (rewrite Hfr1 by notin_assigned; reflexivity).
  set (e1 := ("memcpy", [hdr; wrap u64 (rho "&rtap_hdr"); 8]) : event).
  set (e2 := ("memcpy", [hdr + 8; base; L]) : event).
  exists (upd rho1 "rtap_hdr.it_len" (8 + L)), evs.
  split.
  { intros F HF. apply runs_exec with (N := 400%nat); [exact HF | ].
    assert (Hrun : runs (7 + S (23 + 281)) m rho [] (rt_body ea)
                     (Returned (Some (8 + L)) (upd rho1 "rtap_hdr.it_len" (8 + L)) ((([] ++ evs) ++ [e1]) ++ [e2]))).
    { unfold rt_body.
      do 7 (eapply runs_set; [ceval_unfold; rewrite ?Hp; wrap_ids; reflexivity | ]).
      apply Hk1; [lia | ].
      apply runs_mono with (N := 5%nat); [lia | ].
      eapply runs_set with (v := 8 + L); [ceval_unfold; rewrite Hlen1, Ho1; wrap_ids; reflexivity | ].
      eapply runs_call with (vs := [hdr; wrap u64 (rho "&rtap_hdr"); 8]);
        [ceval_unfold; rewrite Hh1, Hrh1; wrap_ids; reflexivity | ].
      eapply runs_call with (vs := [hdr + 8; base; L]); [ceval_unfold; rewrite Hh1, Hb1, Ho1; wrap_ids; reflexivity | ].
      apply runs_ret. ceval_unfold. wrap_ids. reflexivity. }
    cbn [app] in Hrun. rewrite <- app_assoc in Hrun. apply runs_mono with (N := (7 + S (23 + 281))%nat); [lia | exact Hrun]. }
  split; [exact Hf1 | ]. split; [exact HL | ].
  split; [rewrite upd_other by discriminate; exact Ho1 | ].
  split; [upd_cbv; reflexivity | ].
  split; [rewrite upd_other by discriminate; rewrite Hfr1 by notin_assigned; reflexivity | ].
  split; rewrite upd_other by discriminate; rewrite Hfr1 by notin_assigned; reflexivity.
Qed.

(* ================================================================ 7. the body exactly as translated
   The alignment is read from memory: the byte at radiotap_ns.align_size + field, low nibble.  [table_at m T algn sz]: the
   readable memory holds the 23 one-byte elements (align | size << 4) at address T. *)
Definition table_at (m' : memory) (T : Z) (algn sz : Z -> Z) : Prop :=
  forall k, 0 <= k < 23 -> m' (T + k) = Some (algn k + 16 * sz k).

Lemma land_15_nibble a s : 0 <= a < 16 -> 0 <= s -> Z.land (a + 16 * s) 15 = a.
Proof.
  intros Ha Hs. change 15 with (Z.ones 4). rewrite Z.land_ones by lia. change (2 ^ 4) with 16.
  replace (a + 16 * s) with (a + s * 16) by lia. rewrite Z.mod_add by lia. apply Z.mod_small. exact Ha.
Qed.

Lemma ceval_align_load rho T k a s :
  rho "radiotap_ns.align_size" = T -> 0 < T < 2 ^ 62 -> rho "field" = k -> 0 <= k < 23 ->
  m (T + k) = Some (a + 16 * s) -> 0 <= a < 16 -> 0 <= s < 16 ->
  ceval rho m rt_align_load = Some a.
Proof.
  intros HT HT0 Hf Hk Hm Ha Hs. nums.
  unfold rt_align_load. ceval_unfold. rewrite HT, Hf. wrap_ids. cbv beta iota. wrap_ids. cbv beta iota.
  replace (T + k + 0) with (T + k) by lia.
  change (Z.to_nat (8 / 8)) with 1%nat. cbn [load_le]. rewrite Hm. cbv beta iota.
  replace (a + 16 * s + 256 * 0) with (a + 16 * s) by lia.
  wrap_ids. change ((0 <? 0) || (32 <=? 0)) with false. cbv beta iota.
  rewrite Z.shiftr_0_r, land_15_nibble by lia. wrap_ids. reflexivity.
Qed.

Lemma align_load_reads rho T algn sz :
  rho "radiotap_ns.align_size" = T -> 0 < T < 2 ^ 62 -> table_at m T algn sz ->
  (forall k, 0 <= k < 23 -> 0 <= algn k < 16 /\ 0 <= sz k < 16) ->
  align_reads rt_align_load rho algn.
Proof.
  intros HT HT0 Htab Hr k rho1 Hk Hf H1.
  destruct (Hr k Hk) as [Ha Hs].
  apply (ceval_align_load rho1 T k (algn k) (sz k)); try assumption.
  - rewrite H1 by notin_assigned. exact HT.
  - apply Htab. exact Hk.
Qed.

(* goal 1 on the translated loop body [rt_iter rt_align_load] (the first component of the SLoop of body_libwifi_create_radiotap) *)
Corollary code_rtgen_field_translated rho tr k o pb cnt base ants T algn sz :
  0 <= k < 23 -> rho "field" = k -> rho "offset" = o -> 0 <= o <= 20000 ->
  rho "presence_bit" = pb -> 0 <= pb < 2 ^ 32 ->
  rho "radiotap_ns.align_size" = T -> 0 < T < 2 ^ 62 -> m (T + k) = Some (algn k + 16 * sz k) -> 0 <= algn k < 16 -> 0 <= sz k < 16 ->
  rho "info->antenna_count" = cnt -> 0 <= cnt <= 255 -> rho "&rtap_data" = base -> 0 <= base < 2 ^ 62 ->
  rho "&info->antennas" = ants -> 0 <= ants < 2 ^ 62 ->
  exists rho' evs,
    runs 280 m rho tr (rt_iter rt_align_load) (Fell rho' (tr ++ evs)) /\
    rho' "offset" = (if Z.odd pb then pad_to (algn k) o + size_written cnt k else o) /\
    rho' "presence_bit" = Z.shiftr pb 1 /\
    (Z.odd pb = false -> evs = []) /\
    fills_from (base + o) evs (base + rho' "offset") /\
    (forall x, ~ In x rt_turn_locals -> rho' x = rho x).
Proof.
  intros Hk Hf Ho Ho0 Hpb Hpb0 HT HT0 Hm Ha Hs Hc Hc0 Hb Hb0 Han Han0.
  apply (code_rtgen_field rt_align_load rho tr k o pb (algn k) cnt base ants); try assumption; [ | lia].
  apply (ceval_align_load rho T k (algn k) (sz k)); assumption.
Qed.

(* goal 2 on body_libwifi_create_radiotap itself *)
Theorem code_rtgen_layout rho present cnt base ants hdr T algn sz :
  rho "radiotap_ns.align_size" = T -> 0 < T < 2 ^ 62 -> table_at m T algn sz ->
  (forall k, 0 <= k < 23 -> 0 <= algn k < 16 /\ 0 <= sz k < 16) ->
  rho "info->present" = present -> 0 <= present < 2 ^ 32 -> rho "radiotap_ns.n_bits" = 23 ->
  rho "info->antenna_count" = cnt -> 0 <= cnt <= 255 -> rho "&rtap_data" = base -> 0 <= base < 2 ^ 62 ->
  rho "&info->antennas" = ants -> 0 <= ants < 2 ^ 62 -> rho "radiotap_header" = hdr -> 0 <= hdr < 2 ^ 62 ->
  let L := lay algn cnt 23 0 present 0 in
  exists rho' evs,
    (forall F, (400 <= F)%nat ->
       exec F m rho [] body_libwifi_create_radiotap =
         Returned (Some (8 + L)) rho'
           (evs ++ [("memcpy", [hdr; wrap u64 (rho "&rtap_hdr"); 8]); ("memcpy", [hdr + 8; base; L])])) /\
    fills_from base evs (base + L) /\ 0 <= L <= 18400 /\
    rho' "offset" = L /\ rho' "rtap_hdr.it_len" = 8 + L /\ rho' "rtap_hdr.it_present" = present /\
    rho' "rtap_hdr.it_version" = 0 /\ rho' "rtap_hdr.it_pad" = 0.
Proof.
  intros HT HT0 Htab Hr Hp Hp0 Hnb Hc Hc0 Hb Hb0 Han Han0 Hh Hh0 L. rewrite rt_body_eq.
  apply (code_rtgen_layout_gen rt_align_load algn rho present cnt base ants hdr); try assumption.
  - intros k Hk. destruct (Hr k Hk). lia.
  - apply (align_load_reads rho T algn sz); assumption.
Qed.

(* the earlier single-name translation (section 9): every turn reads the same value *)
Lemma align_var_reads rho : align_reads rt_align_var rho (fun _ => wrap u8 (rho rt_align_name)).
Proof.
  intros k rho1 _ _ H1. unfold rt_align_var. cbn [ceval]. rewrite H1; [reflexivity | ].
  unfold rt_align_name. notin_assigned.
Qed.

Lemma wrap_u8_range v : 0 <= wrap u8 v < 256.
Proof. unfold wrap, modulus, u8; cbn [c_signed c_bits]. change (2 ^ 8) with 256. apply Z.mod_pos_bound. lia. Qed.

Theorem code_rtgen_layout_single_name rho present cnt base ants hdr :
  rho "info->present" = present -> 0 <= present < 2 ^ 32 -> rho "radiotap_ns.n_bits" = 23 ->
  rho "info->antenna_count" = cnt -> 0 <= cnt <= 255 -> rho "&rtap_data" = base -> 0 <= base < 2 ^ 62 ->
  rho "&info->antennas" = ants -> 0 <= ants < 2 ^ 62 -> rho "radiotap_header" = hdr -> 0 <= hdr < 2 ^ 62 ->
  let a := wrap u8 (rho rt_align_name) in
  let L := lay (fun _ => a) cnt 23 0 present 0 in
  exists rho' evs,
    (forall F, (400 <= F)%nat ->
       exec F m rho [] (rt_body rt_align_var) =
         Returned (Some (8 + L)) rho'
           (evs ++ [("memcpy", [hdr; wrap u64 (rho "&rtap_hdr"); 8]); ("memcpy", [hdr + 8; base; L])])).
Proof.
  intros Hp Hp0 Hnb Hc Hc0 Hb Hb0 Han Han0 Hh Hh0 a L.
  destruct (code_rtgen_layout_gen rt_align_var (fun _ => a) rho present cnt base ants hdr) as (rho' & evs & Hex & _); try assumption.
  - intros k _. apply wrap_u8_range.
  - apply align_var_reads.
  - exists rho', evs. exact Hex.
Qed.

End WithMemory.

(* ================================================================ 8. the offsets are the model's (goal 3)
   [lay] with the library's table (Gen/Rtap.v, through Model.Radiotap.table_entry) is the data length of the hand-written
   model of the routine (Model/RadiotapGen.v: gen_fields, for ANY present word and antenna list, whenever the model does not
   fault on its 120-byte staging array), and for a selection of carried fields it is the specification's layout
   (Spec/RadiotapGenSpec.v through c10_layout / gen_layout): 8 + lay = snd (s_field_offsets present) = zlen (s_render ..). *)
Lemma zlen_concat_repeat2 (a b : byte) n : zlen (concat (repeat [a; b] n)) = 2 * Z.of_nat n.
Proof.
  induction n as [ | n IH]; [reflexivity | ].
  cbn [repeat concat]. rewrite zlen_app, IH. unfold zlen. cbn [length]. lia.
Qed.

Lemma field_bytes_len info k : 0 <= k < 23 -> zlen (field_bytes info k) = size_written (zlen (i_antennas info)) k.
Proof.
  intros Hk.
  assert (Hcases : k = 0 \/ k = 1 \/ k = 2 \/ k = 3 \/ k = 4 \/ k = 5 \/ k = 6 \/ k = 7 \/ k = 8 \/ k = 9 \/ k = 10 \/ k = 11 \/
                   k = 12 \/ k = 13 \/ k = 14 \/ k = 15 \/ k = 16 \/ k = 17 \/ k = 18 \/ k = 19 \/ k = 20 \/ k = 21 \/ k = 22) by lia.
  clear Hk. repeat (destruct Hcases as [-> | Hcases]); try subst k; try reflexivity.
  replace (field_bytes info 11)
    with (match i_antennas info with
          | [] => []
          | (n0, s0) :: _ => concat (repeat [n0 mod 256; s0 mod 256] (length (i_antennas info)))
          end) by reflexivity.
  unfold size_written. destruct (i_antennas info) as [ | [n0 s0] r]; [reflexivity | ].
  rewrite zlen_concat_repeat2. unfold zlen. lia.
Qed.

Lemma emit_len data bs d : emit data bs = Done d -> zlen d = zlen data + zlen bs.
Proof. unfold emit. destruct (_ <? _); [discriminate | ]. intros E. injection E as <-. apply zlen_app. Qed.

Lemma lay_gen_fields info algn p :
  (forall j, 0 <= j < 23 -> Z.testbit p j = true -> algn j = fst (table_entry j)) ->
  forall n k data data', Z.of_nat n = 23 - k -> 0 <= k ->
  gen_fields n k (Z.shiftr p k) info data = Done data' ->
  zlen data' = lay algn (zlen (i_antennas info)) n k (Z.shiftr p k) (zlen data).
Proof.
  intros Hag. induction n as [ | n IH]; intros k data data' Hn Hk Hg.
  - cbn [gen_fields lay] in Hg |- *. congruence.
  - assert (Hk' : 0 <= k < 23) by lia.
    cbn [gen_fields lay] in Hg |- *. unfold field_step. rewrite Z.shiftr_shiftr in Hg |- * by lia.
    destruct (Z.odd (Z.shiftr p k)) eqn:Hodd.
    + rewrite <- Z.testbit_odd in Hodd. rewrite (Hag k Hk' Hodd).
      destruct (table_facts k Hk') as (Hal & _).
      cbv zeta in Hg. set (al := fst (table_entry k)) in *.
      assert (Hpad : (if 0 <? al then (al - zlen data mod al) mod al else 0) mod 256 = pad_of al (zlen data)).
      { pose proof (pad_of_range al (zlen data) ltac:(lia)) as R. unfold pad_of in R |- *. apply Z.mod_small. lia. }
      rewrite Hpad in Hg.
      assert (H1 : exists d1, (if 0 <? pad_of al (zlen data) then emit data (repeat 0 (Z.to_nat (pad_of al (zlen data)))) else Done data) = Done d1
                              /\ zlen d1 = zlen data + pad_of al (zlen data)).
      { destruct (Z.ltb_spec 0 (pad_of al (zlen data))) as [Hp | Hp].
        - destruct (emit data (repeat 0 (Z.to_nat (pad_of al (zlen data))))) as [d1 | | ] eqn:E1; cbn [bind] in Hg; try discriminate.
          exists d1. split; [reflexivity | ]. apply emit_len in E1. rewrite E1, zlen_repeat. lia.
        - exists data. split; [reflexivity | ]. pose proof (pad_of_range al (zlen data) ltac:(lia)). lia. }
      destruct H1 as (d1 & E1 & L1). rewrite E1 in Hg. cbn [bind] in Hg.
      destruct (emit d1 (field_bytes info k)) as [d2 | | ] eqn:E2; cbn [bind] in Hg; try discriminate.
      apply emit_len in E2. rewrite (IH (k + 1) d2 data' ltac:(lia) ltac:(lia) Hg). f_equal.
      rewrite E2, L1, field_bytes_len by exact Hk'. unfold pad_to. lia.
    + apply IH; [lia | lia | exact Hg].
Qed.

(* the model's output has the length the code returns, whenever the model produces an output *)
Lemma lay_create_radiotap info algn p out :
  (forall j, 0 <= j < 23 -> Z.testbit p j = true -> algn j = fst (table_entry j)) ->
  create_radiotap p info = Done out -> zlen out = 8 + lay algn (zlen (i_antennas info)) 23 0 p 0.
Proof.
  intros Hag. unfold create_radiotap. change (Z.to_nat rtap_n_bits) with 23%nat.
  destruct (gen_fields 23 0 p info []) as [data | | ] eqn:Hg; cbn [bind]; try discriminate.
  intros E. apply (f_equal (fun r => match r with Done x => zlen x | _ => 0 end)) in E. cbv beta iota in E. rewrite <- E.
  rewrite <- (Z.shiftr_0_r p) in Hg at 1.
  pose proof (lay_gen_fields info algn p Hag 23 0 [] data ltac:(lia) ltac:(lia) Hg) as Hl.
  rewrite Z.shiftr_0_r in Hl. change (zlen (@nil byte)) with 0 in Hl. rewrite <- Hl.
  rewrite !zlen_app, !zlen_le_enc. change (zlen [0; 0]) with 2. lia.
Qed.

(* a description with cnt antennas, all values zero *)
Definition info_of_cnt (cnt : Z) : rt_info :=
  {| i_chan_flags := 0; i_chan_freq := 0; i_chan_center := 0; i_chan_band := 0; i_rate_raw := 0;
     i_antennas := repeat (0, 0) (Z.to_nat cnt); i_signal := 0; i_flags := 0; i_ext_flags := 0; i_rx_flags := 0; i_tx_flags := 0;
     i_mcs_known := 0; i_mcs_flags := 0; i_mcs_mcs := 0; i_tx_power := 0;
     i_ts := 0; i_ts_accuracy := 0; i_ts_unit := 0; i_ts_flags := 0;
     i_rts_retries := 0; i_data_retries := 0; i_length := 0 |}.

Lemma lay_spec algn cnt p : 0 <= cnt -> carried p ->
  (forall j, 0 <= j < 23 -> Z.testbit p j = true -> algn j = fst (table_entry j)) ->
  8 + lay algn cnt 23 0 p 0 = snd (s_field_offsets p).
Proof.
  intros Hc Hcar Hag.
  assert (Hr : info_in_range (info_of_cnt cnt)).
  { unfold info_in_range, info_of_cnt. cbn. change (2 ^ 64) with 18446744073709551616. lia. }
  pose proof (gen_layout p (info_of_cnt cnt) Hcar Hr) as Hg.
  pose proof (lay_create_radiotap _ algn p _ Hag Hg) as Hl.
  destruct (render_decomp p (info_of_cnt cnt) Hcar) as (_ & Hz & _).
  rewrite Hz in Hl. rewrite Hl. do 3 f_equal. unfold info_of_cnt. cbn [i_antennas]. rewrite zlen_repeat. lia.
Qed.

(* goal 3, for any alignment expression that reads the library's table: for every selection of carried fields the routine
   returns the length of the specified layout, stores it in it_len and copies header + that many data bytes *)
Theorem code_rtgen_c10_gen m ea algn rho present cnt base ants hdr :
  (forall k, 0 <= k < 23 -> algn k = fst (table_entry k)) -> align_reads m ea rho algn ->
  rho "info->present" = present -> carried present -> rho "radiotap_ns.n_bits" = 23 ->
  rho "info->antenna_count" = cnt -> 0 <= cnt <= 255 -> rho "&rtap_data" = base -> 0 <= base < 2 ^ 62 ->
  rho "&info->antennas" = ants -> 0 <= ants < 2 ^ 62 -> rho "radiotap_header" = hdr -> 0 <= hdr < 2 ^ 62 ->
  let len := snd (s_field_offsets present) in
  (forall info, info_in_range info -> create_radiotap present info = Done (s_render present info) /\ zlen (s_render present info) = len) /\
  exists rho' evs,
    (forall F, (400 <= F)%nat ->
       exec F m rho [] (rt_body ea) =
         Returned (Some len) rho'
           (evs ++ [("memcpy", [hdr; wrap u64 (rho "&rtap_hdr"); 8]); ("memcpy", [hdr + 8; base; len - 8])])) /\
    fills_from base evs (base + (len - 8)) /\
    rho' "rtap_hdr.it_len" = len /\ rho' "rtap_hdr.it_present" = present /\ rho' "rtap_hdr.it_version" = 0 /\ rho' "rtap_hdr.it_pad" = 0.
Proof.
  intros Hag Hea Hp Hcar Hnb Hc Hc0 Hb Hb0 Han Han0 Hh Hh0 len.
  split.
  { intros info Hr. split; [apply gen_layout; assumption | ]. destruct (render_decomp present info Hcar) as (_ & Hz & _). exact Hz. }
  assert (Hal : forall k, 0 <= k < 23 -> 0 <= algn k < 256).
  { intros k Hk. rewrite (Hag k Hk). destruct (table_facts k Hk) as (H & _). lia. }
  pose proof (carried_range present Hcar) as Hp0.
  destruct (code_rtgen_layout_gen m ea algn rho present cnt base ants hdr Hal Hea Hp ltac:(lia) Hnb Hc Hc0 Hb Hb0 Han Han0 Hh Hh0)
    as (rho' & evs & Hex & Hf & _ & _ & Hl & Hpr & Hv & Hpd).
  assert (E : 8 + lay algn cnt 23 0 present 0 = len).
  { apply lay_spec; [lia | exact Hcar | ]. intros j Hj _. apply Hag. exact Hj. }
  exists rho', evs. rewrite E in Hex, Hl.
  replace (lay algn cnt 23 0 present 0) with (len - 8) in Hex, Hf by lia.
  repeat split; assumption.
Qed.

(* goal 3 on body_libwifi_create_radiotap itself: the readable memory holds the table (low nibble of the byte at T + k = the
   alignment of Gen/Rtap.v's entry k, high nibble = any size below 16).  For EVERY selection of carried fields the routine
   returns the length of the specified layout, stores it in it_len and copies header + that many data bytes. *)
Theorem code_rtgen_c10 m rho present cnt base ants hdr T sz :
  rho "radiotap_ns.align_size" = T -> 0 < T < 2 ^ 62 ->
  table_at m T (fun k => fst (table_entry k)) sz -> (forall k, 0 <= k < 23 -> 0 <= sz k < 16) ->
  rho "info->present" = present -> carried present -> rho "radiotap_ns.n_bits" = 23 ->
  rho "info->antenna_count" = cnt -> 0 <= cnt <= 255 -> rho "&rtap_data" = base -> 0 <= base < 2 ^ 62 ->
  rho "&info->antennas" = ants -> 0 <= ants < 2 ^ 62 -> rho "radiotap_header" = hdr -> 0 <= hdr < 2 ^ 62 ->
  let len := snd (s_field_offsets present) in
  (forall info, info_in_range info -> create_radiotap present info = Done (s_render present info) /\ zlen (s_render present info) = len) /\
  exists rho' evs,
    (forall F, (400 <= F)%nat ->
       exec F m rho [] body_libwifi_create_radiotap =
         Returned (Some len) rho'
           (evs ++ [("memcpy", [hdr; wrap u64 (rho "&rtap_hdr"); 8]); ("memcpy", [hdr + 8; base; len - 8])])) /\
    fills_from base evs (base + (len - 8)) /\
    rho' "rtap_hdr.it_len" = len /\ rho' "rtap_hdr.it_present" = present /\ rho' "rtap_hdr.it_version" = 0 /\ rho' "rtap_hdr.it_pad" = 0.
Proof.
  intros HT HT0 Htab Hsz Hp Hcar Hnb Hc Hc0 Hb Hb0 Han Han0 Hh Hh0 len. rewrite rt_body_eq.
  apply (code_rtgen_c10_gen m rt_align_load (fun k => fst (table_entry k)) rho present cnt base ants hdr); try assumption.
  - reflexivity.
  - apply (align_load_reads m rho T (fun k => fst (table_entry k)) sz); try assumption.
    intros k Hk. split; [ | apply Hsz; exact Hk]. destruct (table_facts k Hk) as (H & _). lia.
Qed.

(* the same with the table bytes exactly as Gen/Rtap.v lists them: align | size << 4 *)
Lemma rtap_sizes_nibble k : 0 <= k < 23 -> 0 <= snd (table_entry k) < 16.
Proof.
  intros Hk.
  assert (H : forallb (fun i => (0 <=? snd (table_entry i)) && (snd (table_entry i) <? 16)) (Sweep.zrange 0 23) = true) by (vm_compute; reflexivity).
  pose proof (Sweep.forallb_zrange _ 0 23 H k ltac:(lia)) as B. cbv beta in B. apply andb_prop in B. lia.
Qed.

Corollary code_rtgen_c10_rtap m rho present cnt base ants hdr T :
  rho "radiotap_ns.align_size" = T -> 0 < T < 2 ^ 62 ->
  (forall k, 0 <= k < 23 -> m (T + k) = Some (fst (table_entry k) + 16 * snd (table_entry k))) ->
  rho "info->present" = present -> carried present -> rho "radiotap_ns.n_bits" = 23 ->
  rho "info->antenna_count" = cnt -> 0 <= cnt <= 255 -> rho "&rtap_data" = base -> 0 <= base < 2 ^ 62 ->
  rho "&info->antennas" = ants -> 0 <= ants < 2 ^ 62 -> rho "radiotap_header" = hdr -> 0 <= hdr < 2 ^ 62 ->
  let len := snd (s_field_offsets present) in
  exists rho' evs,
    (forall F, (400 <= F)%nat ->
       exec F m rho [] body_libwifi_create_radiotap =
         Returned (Some len) rho'
           (evs ++ [("memcpy", [hdr; wrap u64 (rho "&rtap_hdr"); 8]); ("memcpy", [hdr + 8; base; len - 8])])) /\
    fills_from base evs (base + (len - 8)) /\
    rho' "rtap_hdr.it_len" = len /\ rho' "rtap_hdr.it_present" = present /\ rho' "rtap_hdr.it_version" = 0 /\ rho' "rtap_hdr.it_pad" = 0.
Proof.
  intros HT HT0 Htab Hp Hcar Hnb Hc Hc0 Hb Hb0 Han Han0 Hh Hh0 len.
  apply (code_rtgen_c10 m rho present cnt base ants hdr T (fun k => snd (table_entry k))); try assumption.
  exact rtap_sizes_nibble.
Qed.

(* ---------------------------------------------------------------- the hypothesis of code_rtgen_c10_gen can be met
   An alignment expression that resolves the index: the table of Gen/Rtap.v selected by the value of field.  (The translator
   could equally emit one name per index, or a load from the table's bytes; any expression with [align_reads .. table] will do.) *)
Fixpoint align_of_table (k : Z) (l : list (Z * Z)) : cexpr :=
  match l with
  | [] => CLit u8 0
  | (a, _) :: r => CCond u8 (CBin OEq (mkty true 32) (CVar (mkty true 32) "field") (CLit (mkty true 32) k)) (CLit u8 a) (align_of_table (k + 1) r)
  end.
Definition rt_align_table : cexpr := align_of_table 0 rtap_align_size.

Lemma align_table_reads m rho : align_reads m rt_align_table rho (fun k => fst (table_entry k)).
Proof.
  intros k rho1 Hk Hf _.
  assert (Hcases : k = 0 \/ k = 1 \/ k = 2 \/ k = 3 \/ k = 4 \/ k = 5 \/ k = 6 \/ k = 7 \/ k = 8 \/ k = 9 \/ k = 10 \/ k = 11 \/
                   k = 12 \/ k = 13 \/ k = 14 \/ k = 15 \/ k = 16 \/ k = 17 \/ k = 18 \/ k = 19 \/ k = 20 \/ k = 21 \/ k = 22) by lia.
  clear Hk. unfold rt_align_table, rtap_align_size. cbn [align_of_table Z.add Pos.add Pos.succ].
  repeat (destruct Hcases as [E | Hcases]; [subst k; ceval_unfold; rewrite E; reflexivity | ]).
  subst k; ceval_unfold; rewrite Hcases; reflexivity.
Qed.

Corollary code_rtgen_c10_table m rho present cnt base ants hdr :
  rho "info->present" = present -> carried present -> rho "radiotap_ns.n_bits" = 23 ->
  rho "info->antenna_count" = cnt -> 0 <= cnt <= 255 -> rho "&rtap_data" = base -> 0 <= base < 2 ^ 62 ->
  rho "&info->antennas" = ants -> 0 <= ants < 2 ^ 62 -> rho "radiotap_header" = hdr -> 0 <= hdr < 2 ^ 62 ->
  let len := snd (s_field_offsets present) in
  exists rho' evs,
    (forall F, (400 <= F)%nat ->
       exec F m rho [] (rt_body rt_align_table) =
         Returned (Some len) rho'
           (evs ++ [("memcpy", [hdr; wrap u64 (rho "&rtap_hdr"); 8]); ("memcpy", [hdr + 8; base; len - 8])])) /\
    fills_from base evs (base + (len - 8)) /\
    rho' "rtap_hdr.it_len" = len /\ rho' "rtap_hdr.it_present" = present /\ rho' "rtap_hdr.it_version" = 0 /\ rho' "rtap_hdr.it_pad" = 0.
Proof.
  intros Hp Hcar Hnb Hc Hc0 Hb Hb0 Han Han0 Hh Hh0 len.
  apply (code_rtgen_c10_gen m rt_align_table (fun k => fst (table_entry k)) rho present cnt base ants hdr); try assumption.
  - reflexivity.
  - apply align_table_reads.
Qed.

(* ================================================================ 9. why the earlier single-name translation was wrong
   An earlier translation read the alignment through the single lvalue "radiotap_ns.align_size[field].align" (rt_align_var).
   present = 0x42a selects flags (1), channel (3), antenna signal (5), TX power (10): alignments 1, 2, 1, 1; the specified
   header is 16 bytes long (flags at 8, one pad byte, channel at 10, signal at 14, power at 15).  Whatever value that single
   name holds, [rt_body rt_align_var] returns something else (15 for a = 0 or 1, 17 for a = 2, ...).  This is a statement about
   that OLD term only; on body_libwifi_create_radiotap as translated now, code_rtgen_c10 gives 16 (code_rtgen_1066). *)
Lemma lay_1066_cnt a cnt : lay (fun _ => a) cnt 23 0 1066 0 = lay (fun _ => a) 0 23 0 1066 0.
Proof. reflexivity. Qed.

Lemma lay_1066_sweep :
  forallb (fun a => negb (8 + lay (fun _ => a) 0 23 0 1066 0 =? snd (s_field_offsets 1066))) (Sweep.zrange 0 256) = true.
Proof. vm_compute. reflexivity. Qed.

Lemma carried_1066 : carried 1066.
Proof.
  assert (H : carriedb 1066 = true) by (vm_compute; reflexivity).
  unfold carriedb in H. apply andb_prop in H. destruct H as [H1 H2]. apply andb_prop in H1. destruct H1 as [H0 H1].
  split; [lia | ].
  intros b Hb Ht. rewrite forallb_forall in H2.
  assert (Hin : In b [0;1;2;3;4;5;6;7;8;9;10;11;12;13;14;15;16;17;18;19;20;21;22]).
  { assert (Hcases : b = 0 \/ b = 1 \/ b = 2 \/ b = 3 \/ b = 4 \/ b = 5 \/ b = 6 \/ b = 7 \/ b = 8 \/ b = 9 \/ b = 10 \/ b = 11 \/
                     b = 12 \/ b = 13 \/ b = 14 \/ b = 15 \/ b = 16 \/ b = 17 \/ b = 18 \/ b = 19 \/ b = 20 \/ b = 21 \/ b = 22) by lia.
    cbn [In]. intuition. }
  specialize (H2 b Hin). rewrite Ht in H2. cbn [negb orb] in H2.
  apply existsb_exists in H2. destruct H2 as (x & Hx & E). apply Z.eqb_eq in E. subst x. exact Hx.
Qed.

Theorem code_rtgen_single_name_refuted m rho cnt base ants hdr :
  rho "info->present" = 1066 -> rho "radiotap_ns.n_bits" = 23 ->
  rho "info->antenna_count" = cnt -> 0 <= cnt <= 255 -> rho "&rtap_data" = base -> 0 <= base < 2 ^ 62 ->
  rho "&info->antennas" = ants -> 0 <= ants < 2 ^ 62 -> rho "radiotap_header" = hdr -> 0 <= hdr < 2 ^ 62 ->
  carried 1066 /\ snd (s_field_offsets 1066) = 16 /\
  exists v rho' tr,
    (forall F, (400 <= F)%nat -> exec F m rho [] (rt_body rt_align_var) = Returned (Some v) rho' tr) /\
    v <> snd (s_field_offsets 1066).
Proof.
  intros Hp Hnb Hc Hc0 Hb Hb0 Han Han0 Hh Hh0.
  split; [exact carried_1066 | ]. split; [vm_compute; reflexivity | ].
  destruct (code_rtgen_layout_single_name m rho 1066 cnt base ants hdr Hp ltac:(change (2 ^ 32) with 4294967296; lia) Hnb Hc Hc0 Hb Hb0 Han Han0 Hh Hh0)
    as (rho' & evs & Hex).
  eexists. exists rho'. eexists. split; [exact Hex | ].
  rewrite lay_1066_cnt.
  pose proof (Sweep.forallb_zrange _ 0 256 lay_1066_sweep (wrap u8 (rho rt_align_name))
                ltac:(pose proof (wrap_u8_range (rho rt_align_name)); lia)) as H.
  cbv beta in H. apply negb_true_iff in H. apply Z.eqb_neq in H. exact H.
Qed.

(* the same selection on the body as translated now: 16 *)
Corollary code_rtgen_1066 m rho cnt base ants hdr T :
  rho "radiotap_ns.align_size" = T -> 0 < T < 2 ^ 62 ->
  (forall k, 0 <= k < 23 -> m (T + k) = Some (fst (table_entry k) + 16 * snd (table_entry k))) ->
  rho "info->present" = 1066 -> rho "radiotap_ns.n_bits" = 23 ->
  rho "info->antenna_count" = cnt -> 0 <= cnt <= 255 -> rho "&rtap_data" = base -> 0 <= base < 2 ^ 62 ->
  rho "&info->antennas" = ants -> 0 <= ants < 2 ^ 62 -> rho "radiotap_header" = hdr -> 0 <= hdr < 2 ^ 62 ->
  exists rho' tr, forall F, (400 <= F)%nat -> exec F m rho [] body_libwifi_create_radiotap = Returned (Some 16) rho' tr.
Proof.
  intros HT HT0 Htab Hp Hnb Hc Hc0 Hb Hb0 Han Han0 Hh Hh0.
  destruct (code_rtgen_c10_rtap m rho 1066 cnt base ants hdr T HT HT0 Htab Hp carried_1066 Hnb Hc Hc0 Hb Hb0 Han Han0 Hh Hh0)
    as (rho' & evs & Hex & _).
  change (snd (s_field_offsets 1066)) with 16 in Hex. exists rho'. eexists. exact Hex.
Qed.

(* ================================================================ summary
   Object: body_libwifi_create_radiotap = rt_body rt_align_load (rt_body_eq, by reflexivity); rt_body ea is the translated
   body with the one expression that reads the alignment of the current field abstracted; rt_align_load is the load of the
   table byte at radiotap_ns.align_size + field, low nibble.

   code_rtgen_field (ea, all 23 field numbers)   one turn of the loop: offset o -> pad_to a o + size_written cnt k when the
                                                 bit is set, its memset/memcpy events fill [&rtap_data + o, &rtap_data + o')
                                                 without gap; nothing but the shift of presence_bit when the bit is clear
   code_rtgen_field_translated                   the same on the translated loop body, a = low nibble of the byte at T + k
   code_rtgen_layout_gen (ea, algn)              the whole routine for every 32-bit present word and every antenna count
                                                 0..255: not stuck, returns it_len = 8 + lay .., trace = contiguous fills of
                                                 the staging array, then the two copies to radiotap_header
   code_rtgen_layout                             the same on body_libwifi_create_radiotap, the memory holding a table (algn, sz)
   lay_gen_fields / lay_create_radiotap          lay with the library's table = data length of Model/RadiotapGen.v (any present)
   lay_spec                                      ... = snd (s_field_offsets present) - 8 for carried selections (via gen_layout)
   code_rtgen_c10_gen                            any alignment expression that reads the library's table: returns the length of
                                                 the specified layout s_render for every carried selection
   code_rtgen_c10 / code_rtgen_c10_rtap          THAT ON body_libwifi_create_radiotap, the memory holding Gen/Rtap.v's table
   code_rtgen_c10_table                          the same for a table written as a conditional expression on field
   code_rtgen_single_name_refuted, code_rtgen_1066   the earlier single-name translation returned a wrong length for
                                                 present = 0x42a in every environment; the present translation returns 16

   Hypotheses that had to be added: the addresses &rtap_data, &info->antennas, radiotap_header and the table pointer are below
   2^62 (the translated pointer sums are signed 64-bit additions: undefined beyond 2^63), radiotap_ns.n_bits = 23. *)
Print Assumptions rt_body_eq.
Print Assumptions code_rtgen_field.
Print Assumptions code_rtgen_field_translated.
Print Assumptions code_rtgen_layout_gen.
Print Assumptions code_rtgen_layout.
Print Assumptions code_rtgen_layout_single_name.
Print Assumptions lay_gen_fields.
Print Assumptions lay_create_radiotap.
Print Assumptions lay_spec.
Print Assumptions code_rtgen_c10_gen.
Print Assumptions code_rtgen_c10.
Print Assumptions code_rtgen_c10_rtap.
Print Assumptions code_rtgen_c10_table.
Print Assumptions code_rtgen_single_name_refuted.
Print Assumptions code_rtgen_1066.
