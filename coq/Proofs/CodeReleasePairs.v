(* Allocation / release pairs that need a strengthening of an existing code-level theorem (the final environment's owning members):
   the frame classifier (Proofs/CodeFrame.v) with libwifi_free_wifi_frame, the EAPOL-Key parser (Proofs/CodeEapol.v) with
   libwifi_free_wpa_data.  Continuation of Proofs/CodeRelease.v part B, in a file of its own so that the two replayed proofs build in
   parallel with Proofs/CodeSmall.v. *)
From Coq Require Import ZArith String List Bool Lia.
From LW Require Import Base.Bytes Base.CExpr Gen.Sites Spec.CodeSpec Proofs.SitesLemmas Proofs.CodeIter.
From LW Require Import Gen.Consts Gen.Layout Gen.Tables Model.Radiotap Model.Frame Spec.FrameSpec Proofs.FrameProofs.
From LW Require Import Proofs.CodeFrame Proofs.CodeRelease.
Import ListNotations.
Local Open Scope string_scope.
Local Open Scope Z_scope.

(* ---------------------------------------------------------------- libwifi_get_wifi_frame ; libwifi_free_wifi_frame
   Proofs/CodeFrame.v (code_get_wifi_frame_plain) states the trace, the lengths and the flags of the classified frame; the same run,
   with the two owning members in the final environment: fi->body holds the allocator's answer exactly when a body was allocated
   (NULL otherwise), fi->radiotap_info stays NULL (no radiotap header was asked for).  Proof: CodeFrame's, with the tail lemma
   strengthened. *)
Lemma tail_run_owner m rho tr a hl len q pfc fl :
  rho "frame_data_len" = len -> rho "header_len" = hl -> rho "frame_control" = a -> rho "frame_data" = a ->
  rho "&fi->frame_control" = pfc -> rho "ret:malloc" = q -> rho "fi->flags" = fl ->
  rho "fi->body" = 0 -> rho "fi->radiotap_info" = 0 ->
  0 < a -> 0 <= hl <= len -> a + len < 2 ^ 62 -> 0 <= q < 2 ^ 62 ->
  exists rho1,
    exec 31 m rho tr frame_tail = Returned (Some (tail_ret hl len q)) rho1 (tr ++ tail_trace pfc a hl len q)%list /\
    rho1 "fi->len" = len /\ rho1 "fi->header_len" = hl /\ rho1 "fi->flags" = fl /\
    rho1 "fi->body" = (if len =? hl then 0 else q) /\ rho1 "fi->radiotap_info" = 0.
Proof.
  intros Hdl Hhl Hfc Hfd Hpfc Hqq Hfl Hb0 Hr0 Ha Hle Hend Hq.
  change (2 ^ 62) with 4611686018427387904 in *.
  unfold frame_tail, tail_ret, tail_trace.
  erewrite exec_set by tnow Hdl Hhl Hfc Hfd Hpfc Hqq.
  erewrite exec_set by tnow Hdl Hhl Hfc Hfd Hpfc Hqq.
  erewrite exec_call by tnow Hdl Hhl Hfc Hfd Hpfc Hqq.
  rewrite exec_clobber.
  erewrite exec_set by tnow Hdl Hhl Hfc Hfd Hpfc Hqq.
  erewrite exec_if_b2z by tnow Hdl Hhl Hfc Hfd Hpfc Hqq.
  destruct (Z.eqb_spec len hl) as [Heq | Hne].
  - destruct (Z.gtb_spec (len - hl) 0) as [Hgt | _]; [lia | ].
    eexists. split; [ erewrite exec_ret by tnow Hdl Hhl Hfc Hfd Hpfc Hqq; reflexivity | ].
    cu. auto.
  - destruct (Z.gtb_spec (len - hl) 0) as [_ | Hngt]; [ | lia].
    erewrite exec_call by tnow Hdl Hhl Hfc Hfd Hpfc Hqq.
    erewrite exec_set by tnow Hdl Hhl Hfc Hfd Hpfc Hqq.
    erewrite exec_if_b2z by tnow Hdl Hhl Hfc Hfd Hpfc Hqq.
    destruct (Z.eqb_spec q 0) as [Hq0 | Hqn].
    + eexists. split.
      * erewrite exec_ret by tnow Hdl Hhl Hfc Hfd Hpfc Hqq. cbv beta iota.
        apply Returned_eq; [reflexivity | reflexivity | ]. rewrite <- app_assoc. reflexivity.
      * cu. auto.
    + erewrite exec_call by tnow Hdl Hhl Hfc Hfd Hpfc Hqq.
      rewrite exec_nil.
      eexists. split.
      * erewrite exec_ret by tnow Hdl Hhl Hfc Hfd Hpfc Hqq.
        apply Returned_eq; [reflexivity | reflexivity | ]. rewrite <- !app_assoc. reflexivity.
      * cu. auto.
Qed.

Ltac finish_tail_owner a buf rho hl fl :=
  match goal with
  | |- context [exec 31 ?m ?r ?t frame_tail] =>
      let rho1 := fresh "rho1" in let Hrun := fresh "Hrun" in
      let Hf1 := fresh "Hf1" in let Hf2 := fresh "Hf2" in let Hf3 := fresh "Hf3" in let Hf4 := fresh "Hf4" in let Hf5 := fresh "Hf5" in
      destruct (tail_run_owner m r t a hl (zlen buf) (rho "ret:malloc") (rho "&fi->frame_control") fl)
        as (rho1 & Hrun & Hf1 & Hf2 & Hf3 & Hf4 & Hf5);
      [ cu; reflexivity | cu; reflexivity | cu; reflexivity | cu; reflexivity | cu; reflexivity | cu; reflexivity
      | cu; reflexivity | cu; reflexivity | cu; reflexivity | lia | lia | (change (2 ^ 62) with 4611686018427387904; lia)
      | (change (2 ^ 62) with 4611686018427387904; lia) | ];
      rewrite Hrun; exists rho1;
      split; [ cbn [app]; reflexivity | ];
      split; [ exact Hf1 | ]; split; [ exact Hf2 | ]; split; [ exact Hf3 | ]; split; [ exact Hf4 | exact Hf5 ]
  end.

Theorem code_get_wifi_frame_owner buf a rho :
  wfbytes buf -> 0 < a -> a + zlen buf < 2 ^ 62 -> 0 <= rho "ret:malloc" < 2 ^ 62 ->
  let q := rho "ret:malloc" in
  let b0 := znth buf 0 in
  let b1 := znth buf 1 in
  2 <= zlen buf ->
  forall hl, s_hdr_len (s_type b0) (s_subtype b0) (s_ordered b1) = Some hl -> hl <= zlen buf ->
    let tr := frame_memset rho :: (CodeFrame.hdr_copies rho a b0 b1 ++ tail_trace (rho "&fi->frame_control") a hl (zlen buf) q)%list in
    exists rho1,
      frame_run buf a rho = Returned (Some (tail_ret hl (zlen buf) q)) rho1 tr /\
      rho1 "fi->len" = zlen buf /\ rho1 "fi->header_len" = hl /\ rho1 "fi->flags" = s_flags b0 b1 /\
      rho1 "fi->body" = (if zlen buf =? hl then 0 else q) /\ rho1 "fi->radiotap_info" = 0.
Proof.
  intros Hwf Ha Hend Hq q b0 b1 Hlong hl Hhdr Hfit. subst q b0 b1.
  rewrite (head_run buf a rho Ha Hend).
  change (2 ^ 62) with 4611686018427387904 in *.
  pose proof (zlen_nonneg buf) as Hlen.
  destruct (Z.ltb_spec (zlen buf) 2) as [Hshort | _]; [ lia | ].
  assert (Hb0 : 0 <= znth buf 0 < 256) by (apply wfbytes_znth; [exact Hwf | lia]).
  assert (Hb1 : 0 <= znth buf 1 < 256) by (apply wfbytes_znth; [exact Hwf | lia]).
  assert (Hst : 0 <= s_subtype (znth buf 0) < 16) by (unfold s_subtype; Z.div_mod_to_equations; lia).
  assert (Ht : s_type (znth buf 0) = 0 \/ s_type (znth buf 0) = 1 \/ s_type (znth buf 0) = 2 \/ s_type (znth buf 0) = 3)
    by (unfold s_type; Z.div_mod_to_equations; lia).
  assert (HfcS : rhoS rho a (zlen buf) "frame_control" = a) by (cu; reflexivity).
  unfold frame_switch.
  erewrite exec_switch by (apply ev_type; [exact Hwf | exact Ha | exact Hend | exact HfcS | lia]).
  revert Hhdr.
  unfold s_flags, CodeFrame.hdr_copies, s_hdr_len, T_MGMT, T_CTRL, T_DATA, FL_QOS, FL_ORDERED.
  destruct Ht as [Ht | [Ht | [Ht | Ht]]]; rewrite Ht.
  - (* management *)
    change (0 =? 0) with true. change (0 =? 2) with false. cbv beta iota. cbn [andb].
    rewrite pick_case_miss by reflexivity. rewrite pick_case_hit by reflexivity.
    erewrite exec_if_gen by (apply ev_order; [exact Hwf | exact Ha | exact Hend | exact HfcS | lia]).
    destruct (s_ordered (znth buf 1)) eqn:Hord; intros Hhdr; injection Hhdr as <-.
    + erewrite exec_set by closed_now. step.
      erewrite exec_if_b2z by cnow.
      destruct (Z.ltb_spec (zlen buf) 28) as [Hsh | Hfit']; [ lia | ].
      repeat step. finish_tail_owner a buf rho 28 4.
    + step. erewrite exec_if_b2z by cnow.
      destruct (Z.ltb_spec (zlen buf) 24) as [Hsh | Hfit']; [ lia | ].
      repeat step. finish_tail_owner a buf rho 24 0.
  - (* control *)
    change (1 =? 0) with false. change (1 =? 1) with true. change (1 =? 2) with false. cbv beta iota. cbn [andb].
    do 2 (rewrite pick_case_miss by reflexivity). rewrite pick_case_hit by reflexivity.
    intros Hhdr; injection Hhdr as <-.
    step. erewrite exec_if_b2z by cnow.
    destruct (Z.ltb_spec (zlen buf) 4) as [Hsh | Hfit']; [ lia | ].
    repeat step. finish_tail_owner a buf rho 4 0.
  - (* data *)
    change (2 =? 0) with false. change (2 =? 1) with false. change (2 =? 2) with true. cbv beta iota. cbn [andb].
    rewrite pick_case_hit by reflexivity.
    erewrite exec_switch by (apply ev_subtype; [exact Hwf | exact Ha | exact Hend | exact HfcS | lia]).
    destruct (s_qos (s_subtype (znth buf 0))) eqn:Hqos; intros Hhdr; injection Hhdr as <-.
    + rewrite pick_case_hit by (rewrite qos_labels by lia; exact Hqos).
      erewrite exec_set by closed_now. step.
      rewrite exec_if_true with (v := 2) by (first [discriminate | closed_now]).
      repeat step.
      erewrite exec_if_b2z by cnow.
      destruct (Z.ltb_spec (zlen buf) 26) as [Hsh | Hfit']; [ lia | ].
      rewrite exec_if_true with (v := 2) by (first [discriminate | closed_now]).
      repeat step. finish_tail_owner a buf rho 26 2.
    + rewrite pick_case_miss by (rewrite qos_labels by lia; exact Hqos). cbn [pick_case].
      step.
      rewrite exec_if_false by closed_now.
      repeat step.
      erewrite exec_if_b2z by cnow.
      destruct (Z.ltb_spec (zlen buf) 24) as [Hsh | Hfit']; [ lia | ].
      rewrite exec_if_false by closed_now.
      repeat step. finish_tail_owner a buf rho 24 0.
  - (* type 3: refused *)
    change (3 =? 0) with false. change (3 =? 1) with false. change (3 =? 2) with false. cbv beta iota.
    intros Hhdr. discriminate Hhdr.
Qed.

Lemma allocs_hdr_copies rho a b0 b1 : allocs (CodeFrame.hdr_copies rho a b0 b1) = [] /\ frees (CodeFrame.hdr_copies rho a b0 b1) = [].
Proof.
  unfold CodeFrame.hdr_copies.
  destruct (s_type b0 =? T_DATA); [ destruct (s_qos (s_subtype b0)) | destruct (s_type b0 =? T_MGMT); [ destruct (s_ordered b1) | ] ];
    split; reflexivity.
Qed.

(* one allocation at most (the body block, when the frame has a body), no release inside the classifier; libwifi_free_wifi_frame run on
   the object releases the radiotap block (NULL here: no radiotap header) and then exactly the block the allocator answered
   (NULL when there was no body, or when the allocator refused and -ENOMEM was returned) *)
Theorem lifecycle_wifi_frame buf a rho :
  wfbytes buf -> 0 < a -> a + zlen buf < 2 ^ 62 -> 0 <= rho "ret:malloc" < 2 ^ 62 ->
  let q := rho "ret:malloc" in
  2 <= zlen buf ->
  forall hl, s_hdr_len (s_type (znth buf 0)) (s_subtype (znth buf 0)) (s_ordered (znth buf 1)) = Some hl -> hl <= zlen buf ->
    exists rho1 tr,
      frame_run buf a rho = Returned (Some (tail_ret hl (zlen buf) q)) rho1 tr /\
      rho1 "fi->body" = (if zlen buf =? hl then 0 else q) /\ rho1 "fi->radiotap_info" = 0 /\
      allocs tr = (if zlen buf =? hl then [] else [("malloc", [zlen buf - hl])]) /\ frees tr = [] /\
      exec 3 (mem_at a buf) rho1 tr body_libwifi_free_wifi_frame =
        Fell rho1 (tr ++ [("free", [0]); ("free", [if zlen buf =? hl then 0 else q])]).
Proof.
  intros Hwf Ha Hend Hq q Hlong hl Hhdr Hfit. subst q.
  destruct (code_get_wifi_frame_owner buf a rho Hwf Ha Hend Hq Hlong hl Hhdr Hfit) as (rho1 & Hrun & _ & _ & _ & Hbody & Hrt).
  eexists rho1, _. split; [ exact Hrun | ]. split; [ exact Hbody | ]. split; [ exact Hrt | ].
  change (2 ^ 62) with 4611686018427387904 in *.
  pose proof (allocs_hdr_copies rho a (znth buf 0) (znth buf 1)) as [Ha1 Ha2].
  split; [ | split ].
  - change (frame_memset rho :: ?l) with ([frame_memset rho] ++ l)%list.
    rewrite !allocs_app, Ha1. unfold tail_trace.
    destruct (zlen buf =? hl); [ reflexivity | ]. destruct (rho "ret:malloc" =? 0); reflexivity.
  - change (frame_memset rho :: ?l) with ([frame_memset rho] ++ l)%list.
    rewrite !frees_app, Ha2. unfold tail_trace.
    destruct (zlen buf =? hl); [ reflexivity | ]. destruct (rho "ret:malloc" =? 0); reflexivity.
  - rewrite (code_free_wifi_frame _ rho1 _ 3%nat ltac:(lia)). cbn [map]. unfold free_ev, u64. rewrite Hbody, Hrt.
    rewrite (wrap_u64_id 0) by lia.
    destruct (zlen buf =? hl); [ rewrite (wrap_u64_id 0) by lia | rewrite (wrap_u64_id (rho "ret:malloc")) by lia ]; reflexivity.
Qed.

(* ================================================================ the EAPOL-Key data *)
From LW Require Import Base.Sweep Model.Eapol Proofs.CodeEapol.

(* ---------------------------------------------------------------- libwifi_get_wpa_data ; libwifi_free_wpa_data
   Proofs/CodeEapol.v code_get_wpa_data states the value and the trace through [observe]; the same run (same case analysis), with the
   two members libwifi_free_wpa_data looks at in the final environment: the recorded key data length is
   kdl = min(declared, 1024, octets present), and key_data holds the allocator's answer exactly when kdl > 0 (NULL otherwise). *)
Ltac wd_leaf :=
  xrun; eexists _, _, _; split; [ reflexivity | ];
  cbn [upd String.eqb Ascii.eqb Bool.eqb];
  split; [ try lia | ];
  try match goal with
      | |- _ = (if ?c =? 0 then _ else _) => destruct (Z.eqb_spec c 0); try (exfalso; lia)
      end;
  wrap_ids; first [ reflexivity | lia ].
Ltac wd_malloc_leaf :=
  match goal with
  | |- context [wrap (mkty false 64) (?rho "ret:malloc")] =>
      pose proof (wrap_u64_nonneg (rho "ret:malloc"));
      destruct (Z.eq_dec (wrap (mkty false 64) (rho "ret:malloc")) 0); wd_leaf
  end.

Theorem code_get_wpa_data_owner b a hl ty rho :
  wfbytes b -> 0 < a -> a + zlen b < 2 ^ 62 -> hl = 24 \/ hl = 26 ->
  0 <= wrap s32 (rho "ret:libwifi_check_wpa_handshake") -> 107 <= zlen b ->
  let mp := wrap u64 (rho "ret:malloc") in
  let declared := 256 * znth b 105 + znth b 106 in
  let kdl := Z.min (Z.min declared 1024) (zlen b - 107) in
  exists v rho' tr,
    exec 60 (mem_at a b) (frame_env rho ty (hl + zlen b) hl a) [] body_libwifi_get_wpa_data = Returned v rho' tr /\
    rho' "data->key_info.key_data_length" = kdl /\
    rho' "data->key_info.key_data" = (if kdl =? 0 then 0 else mp).
Proof.
  intros Hwf Ha Hend Hhl Hpos H107 mp declared kdl. subst mp declared kdl.
  change (2 ^ 62) with 4611686018427387904 in *.
  pose proof (zlen_nonneg b) as Hlen.
  unfold body_libwifi_get_wpa_data, frame_env. fold_bswap16. fold_bswap64. cbv delta [s32 u64] in *.
  pose proof (wfbytes_znth b 8 Hwf ltac:(lia)) as B8. pose proof (wfbytes_znth b 9 Hwf ltac:(lia)) as B9.
  pose proof (wfbytes_znth b 10 Hwf ltac:(lia)) as B10. pose proof (wfbytes_znth b 11 Hwf ltac:(lia)) as B11.
  pose proof (wfbytes_znth b 12 Hwf ltac:(lia)) as B12. pose proof (wfbytes_znth b 13 Hwf ltac:(lia)) as B13.
  pose proof (wfbytes_znth b 14 Hwf ltac:(lia)) as B14. pose proof (wfbytes_znth b 15 Hwf ltac:(lia)) as B15.
  pose proof (wfbytes_znth b 16 Hwf ltac:(lia)) as B16.
  pose proof (wfbytes_znth b 105 Hwf ltac:(lia)) as B105. pose proof (wfbytes_znth b 106 Hwf ltac:(lia)) as B106.
  assert (B64 : 0 <= le_dec (firstn 8 (skipn (Z.to_nat 17) b)) < 18446744073709551616).
  { pose proof (le_dec_bound (firstn 8 (skipn (Z.to_nat 17) b)) (wfbytes_firstn _ _ (wfbytes_skipn _ _ Hwf))) as Hb.
    replace (zlen (firstn 8 (skipn (Z.to_nat 17) b))) with 8 in Hb.
    - exact Hb.
    - symmetry. apply (zlen_firstn (skipn (Z.to_nat 17) b) 8). rewrite zlen_skipn by lia. lia. }
  xrun.
  destruct (Z_le_gt_dec (256 * znth b 105 + znth b 106) 0) as [D0 | D0]; [ wd_leaf | xrun ].
  destruct (Z_le_gt_dec (256 * znth b 105 + znth b 106) 1024) as [D1 | D1]; xrun.
  + destruct (Z_le_gt_dec (256 * znth b 105 + znth b 106) (zlen b - 107)) as [F | F]; xrun.
    * wd_malloc_leaf.
    * destruct (Z_le_gt_dec (zlen b) 107) as [A0 | A0]; [ wd_leaf | xrun; wd_malloc_leaf ].
  + destruct (Z_le_gt_dec 1024 (zlen b - 107)) as [F | F]; xrun.
    * wd_malloc_leaf.
    * destruct (Z_le_gt_dec (zlen b) 107) as [A0 | A0]; [ wd_leaf | xrun; wd_malloc_leaf ].
Qed.


(* the accepted frame (the handshake check answered >= 0, the body holds the 107 octets of LLC + EAPOL-Key): at most one allocation,
   of kdl octets and only when kdl > 0, no release inside the parser; libwifi_free_wpa_data run on the object releases exactly the
   block the allocator answered when kdl > 0 (free(NULL) if the allocator had refused: -ENOMEM was returned), and nothing when
   kdl = 0 - the guard of the release routine is the guard of the allocation *)
Theorem lifecycle_wpa_data b a hl ty rho :
  wfbytes b -> 0 < a -> a + zlen b < 2 ^ 62 -> hl = 24 \/ hl = 26 ->
  0 <= wrap s32 (rho "ret:libwifi_check_wpa_handshake") -> 107 <= zlen b ->
  let mp := wrap u64 (rho "ret:malloc") in
  let declared := 256 * znth b 105 + znth b 106 in
  let kdl := Z.min (Z.min declared 1024) (zlen b - 107) in
  exists v rho' tr,
    exec 60 (mem_at a b) (frame_env rho ty (hl + zlen b) hl a) [] body_libwifi_get_wpa_data = Returned (Some v) rho' tr /\
    v = (if negb (kdl =? 0) && (mp =? 0) then -12 else 0) /\
    allocs tr = (if kdl =? 0 then [] else [("malloc", [kdl])]) /\ frees tr = [] /\
    exec 3 (mem_at a b) rho' tr body_libwifi_free_wpa_data = Fell rho' (tr ++ (if kdl =? 0 then [] else [("free", [mp])])).
Proof.
  intros Hwf Ha Hend Hhl Hpos H107 mp declared kdl.
  destruct (code_get_wpa_data_owner b a hl ty rho Hwf Ha Hend Hhl Hpos H107) as (v & rho' & tr & Hrun & Hlen & Hkd).
  destruct (code_get_wpa_data b a hl ty rho Hwf Ha Hend Hhl) as [_ Hobs]. specialize (Hobs Hpos H107). cbv zeta in Hobs.
  fold declared in Hobs, Hlen, Hkd. fold kdl in Hobs, Hlen, Hkd. fold mp in Hobs, Hkd.
  rewrite Hrun in Hobs. cbn [observe] in Hobs.
  pose proof (wfbytes_znth b 105 Hwf ltac:(lia)) as B105. pose proof (wfbytes_znth b 106 Hwf ltac:(lia)) as B106.
  change (2 ^ 62) with 4611686018427387904 in *.
  assert (Hk : 0 <= kdl <= 1024) by (subst kdl declared; lia).
  assert (Hmp : 0 <= mp < 18446744073709551616) by apply wrap_u64_nonneg.
  assert (Hfree : exec 3 (mem_at a b) rho' tr body_libwifi_free_wpa_data =
                  Fell rho' (tr ++ (if kdl =? 0 then [] else [("free", [mp])]))).
  { rewrite (code_free_wpa_data _ rho' tr 3%nat ltac:(lia)). unfold wpa_owned, u16. rewrite Hlen.
    rewrite (wrap_u16_id kdl) by lia.
    destruct (Z.eqb_spec kdl 0) as [K0 | K0].
    - rewrite (ltb_false 0 kdl) by lia. reflexivity.
    - rewrite (ltb_true 0 kdl) by lia. cbn [map]. unfold free_ev, u64. rewrite Hkd.
      rewrite (wrap_u64_id mp) by lia. reflexivity. }
  clearbody kdl mp.
  destruct (Z.eqb_spec kdl 0) as [K0 | K0]; [ | destruct (Z.eqb_spec mp 0) as [M0 | M0] ];
    injection Hobs as -> ->; cbn [negb andb];
    (eexists _, rho', _; split; [ exact Hrun | ]; split; [ reflexivity | ]; split; [ reflexivity | ]; split; [ reflexivity | ]);
    exact Hfree.
Qed.

Print Assumptions code_get_wifi_frame_owner.
Print Assumptions lifecycle_wifi_frame.
Print Assumptions code_get_wpa_data_owner.
Print Assumptions lifecycle_wpa_data.
