(* part of the generator theorems (see Proofs/CodeGen.v), split so that the proofs build in parallel *)
From Coq Require Import ZArith String Ascii List Bool Lia.
From LW Require Import Base.CExpr Gen.Consts Gen.Layout Gen.Sites Proofs.SitesLemmas.
Import ListNotations.
Local Open Scope string_scope.
Local Open Scope Z_scope.
From LW Require Import Proofs.CodeGenDefs.

Section WithMemory.
Variable m : memory.

(* ================================================================ 2. the routines without tags *)

(* action / action no-ack: the category is stored; the detail block (length, pointer) is left zeroed *)
Theorem code_create_action rho cat :
  0 <= cat < 256 ->
  let rho0 := upd rho "category" cat in
  exists rho',
    exec 40 m rho0 [] body_libwifi_create_action =
      Returned (Some 0) rho' (mgmt_events rho "action" sizeof_libwifi_action "receiver" "transmitter" "address3") /\
    rho' "action->frame_header.frame_control.type" = c_TYPE_MANAGEMENT /\
    rho' "action->frame_header.frame_control.subtype" = c_SUBTYPE_ACTION /\
    rho' "action->fixed_parameters.category" = cat /\
    rho' "action->fixed_parameters.details.detail_length" = 0 /\
    rho' "action->fixed_parameters.details.detail" = 0 /\
    reads_zero rho' "action->frame_header." mgmt_rest /\
    untouched "action->"
      ["action->frame_header.frame_control.type"; "action->frame_header.frame_control.subtype"; "action->fixed_parameters.category"]
      ["action->frame_header.addr1"; "action->frame_header.addr2"; "action->frame_header.addr3"] rho'.
Proof.
  intros Hcat rho0. unfold rho0, body_libwifi_create_action; clear rho0. gen_finish.
Qed.

Theorem code_create_action_no_ack rho cat :
  0 <= cat < 256 ->
  let rho0 := upd rho "category" cat in
  exists rho',
    exec 40 m rho0 [] body_libwifi_create_action_no_ack =
      Returned (Some 0) rho' (mgmt_events rho "action" sizeof_libwifi_action "receiver" "transmitter" "address3") /\
    rho' "action->frame_header.frame_control.type" = c_TYPE_MANAGEMENT /\
    rho' "action->frame_header.frame_control.subtype" = c_SUBTYPE_ACTION_NOACK /\
    rho' "action->fixed_parameters.category" = cat /\
    rho' "action->fixed_parameters.details.detail_length" = 0 /\
    rho' "action->fixed_parameters.details.detail" = 0 /\
    reads_zero rho' "action->frame_header." mgmt_rest /\
    untouched "action->"
      ["action->frame_header.frame_control.type"; "action->frame_header.frame_control.subtype"; "action->fixed_parameters.category"]
      ["action->frame_header.addr1"; "action->frame_header.addr2"; "action->frame_header.addr3"] rho'.
Proof.
  intros Hcat rho0. unfold rho0, body_libwifi_create_action_no_ack; clear rho0. gen_finish.
Qed.

(* ATIM.  DEVIATION from every other management generator: addr1 receives the argument called [transmitter] and addr2 the
   argument called [receiver] (the parameters are declared in the order transmitter, receiver, address3 and copied in
   declaration order).  The theorem states what the code does. *)
Theorem code_create_atim rho :
  exists rho',
    exec 40 m rho [] body_libwifi_create_atim =
      Returned (Some 0) rho' (mgmt_events rho "atim" sizeof_libwifi_atim "transmitter" "receiver" "address3") /\
    rho' "atim->frame_header.frame_control.type" = c_TYPE_MANAGEMENT /\
    rho' "atim->frame_header.frame_control.subtype" = c_SUBTYPE_ATIM /\
    reads_zero rho' "atim->frame_header." mgmt_rest /\
    untouched "atim->"
      ["atim->frame_header.frame_control.type"; "atim->frame_header.frame_control.subtype"]
      ["atim->frame_header.addr1"; "atim->frame_header.addr2"; "atim->frame_header.addr3"] rho'.
Proof. unfold body_libwifi_create_atim. gen_finish. Qed.

Theorem code_create_auth rho alg seq st :
  0 <= alg < 65536 -> 0 <= seq < 65536 -> 0 <= st < 65536 ->
  let rho0 := upd (upd (upd rho "algorithm_number" alg) "transaction_sequence" seq) "status_code" st in
  exists rho',
    exec 40 m rho0 [] body_libwifi_create_auth =
      Returned (Some 0) rho' (mgmt_events rho "auth" sizeof_libwifi_auth "receiver" "transmitter" "address3") /\
    rho' "auth->frame_header.frame_control.type" = c_TYPE_MANAGEMENT /\
    rho' "auth->frame_header.frame_control.subtype" = c_SUBTYPE_AUTH /\
    rho' "auth->fixed_parameters.algorithm_number" = alg /\
    rho' "auth->fixed_parameters.transaction_sequence" = seq /\
    rho' "auth->fixed_parameters.status_code" = st /\
    rho' "auth->tags.length" = 0 /\ rho' "auth->tags.parameters" = 0 /\
    reads_zero rho' "auth->frame_header." mgmt_rest /\
    untouched "auth->"
      ["auth->frame_header.frame_control.type"; "auth->frame_header.frame_control.subtype";
       "auth->fixed_parameters.algorithm_number"; "auth->fixed_parameters.transaction_sequence"; "auth->fixed_parameters.status_code"]
      ["auth->frame_header.addr1"; "auth->frame_header.addr2"; "auth->frame_header.addr3"] rho'.
Proof.
  intros Halg Hseq Hst rho0. unfold rho0, body_libwifi_create_auth; clear rho0. gen_finish.
Qed.

(* deauthentication / disassociation: the reason code goes through memcpy(&obj->fixed_parameters.reason_code, &reason_code, 2),
   which the translation renders as the copy event followed by the load of the parameter into the member *)
Theorem code_create_deauth rho reason :
  0 <= reason < 65536 ->
  let rho0 := upd rho "reason_code" reason in
  exists rho',
    exec 40 m rho0 [] body_libwifi_create_deauth =
      Returned (Some 0) rho'
        (mgmt_events rho "deauth" sizeof_libwifi_deauth "receiver" "transmitter" "address3" ++
         [ev_memcpy rho "&deauth->fixed_parameters.reason_code" "&reason_code" 2]) /\
    rho' "deauth->frame_header.frame_control.type" = c_TYPE_MANAGEMENT /\
    rho' "deauth->frame_header.frame_control.subtype" = c_SUBTYPE_DEAUTH /\
    rho' "deauth->fixed_parameters.reason_code" = reason /\
    rho' "deauth->tags.length" = 0 /\ rho' "deauth->tags.parameters" = 0 /\
    reads_zero rho' "deauth->frame_header." mgmt_rest /\
    untouched "deauth->"
      ["deauth->frame_header.frame_control.type"; "deauth->frame_header.frame_control.subtype"; "deauth->fixed_parameters.reason_code"]
      ["deauth->frame_header.addr1"; "deauth->frame_header.addr2"; "deauth->frame_header.addr3"] rho'.
Proof.
  intros Hre rho0. unfold rho0, body_libwifi_create_deauth; clear rho0. gen_finish.
Qed.

Theorem code_create_disassoc rho reason :
  0 <= reason < 65536 ->
  let rho0 := upd rho "reason_code" reason in
  exists rho',
    exec 40 m rho0 [] body_libwifi_create_disassoc =
      Returned (Some 0) rho'
        (mgmt_events rho "disassoc" sizeof_libwifi_disassoc "receiver" "transmitter" "address3" ++
         [ev_memcpy rho "&disassoc->fixed_parameters.reason_code" "&reason_code" 2]) /\
    rho' "disassoc->frame_header.frame_control.type" = c_TYPE_MANAGEMENT /\
    rho' "disassoc->frame_header.frame_control.subtype" = c_SUBTYPE_DISASSOC /\
    rho' "disassoc->fixed_parameters.reason_code" = reason /\
    rho' "disassoc->tags.length" = 0 /\ rho' "disassoc->tags.parameters" = 0 /\
    reads_zero rho' "disassoc->frame_header." mgmt_rest /\
    untouched "disassoc->"
      ["disassoc->frame_header.frame_control.type"; "disassoc->frame_header.frame_control.subtype";
       "disassoc->fixed_parameters.reason_code"]
      ["disassoc->frame_header.addr1"; "disassoc->frame_header.addr2"; "disassoc->frame_header.addr3"] rho'.
Proof.
  intros Hre rho0. unfold rho0, body_libwifi_create_disassoc; clear rho0. gen_finish.
Qed.

(* control frames: a four-octet header (frame control, duration) and the addresses as members of the object itself.
   RTS copies the transmitter first, then the receiver (the struct has receiver_addr before transmitter_addr: each copy
   names its destination member, so the order of the two calls does not matter for the layout). *)
Theorem code_create_rts rho dur :
  0 <= dur < 65536 ->
  let rho0 := upd rho "duration" dur in
  exists rho',
    exec 40 m rho0 [] body_libwifi_create_rts =
      Returned (Some 0) rho'
        [ev_memset rho "rts" sizeof_libwifi_rts;
         ev_memcpy rho "&rts->transmitter_addr" "transmitter" 6;
         ev_memcpy rho "&rts->receiver_addr" "receiver" 6] /\
    rho' "rts->frame_header.frame_control.type" = c_TYPE_CONTROL /\
    rho' "rts->frame_header.frame_control.subtype" = c_SUBTYPE_RTS /\
    rho' "rts->frame_header.duration" = dur /\
    reads_zero rho' "rts->frame_header." ctrl_rest /\
    untouched "rts->"
      ["rts->frame_header.frame_control.type"; "rts->frame_header.frame_control.subtype"; "rts->frame_header.duration"]
      ["rts->transmitter_addr"; "rts->receiver_addr"] rho'.
Proof.
  intros Hd rho0. unfold rho0, body_libwifi_create_rts; clear rho0. gen_finish.
Qed.

Theorem code_create_cts rho dur :
  0 <= dur < 65536 ->
  let rho0 := upd rho "duration" dur in
  exists rho',
    exec 40 m rho0 [] body_libwifi_create_cts =
      Returned (Some 0) rho'
        [ev_memset rho "cts" sizeof_libwifi_cts; ev_memcpy rho "&cts->receiver_addr" "receiver" 6] /\
    rho' "cts->frame_header.frame_control.type" = c_TYPE_CONTROL /\
    rho' "cts->frame_header.frame_control.subtype" = c_SUBTYPE_CTS /\
    rho' "cts->frame_header.duration" = dur /\
    reads_zero rho' "cts->frame_header." ctrl_rest /\
    untouched "cts->"
      ["cts->frame_header.frame_control.type"; "cts->frame_header.frame_control.subtype"; "cts->frame_header.duration"]
      ["cts->receiver_addr"] rho'.
Proof.
  intros Hd rho0. unfold rho0, body_libwifi_create_cts; clear rho0. gen_finish.
Qed.

End WithMemory.

Print Assumptions code_create_action.
Print Assumptions code_create_action_no_ack.
Print Assumptions code_create_atim.
Print Assumptions code_create_auth.
Print Assumptions code_create_deauth.
Print Assumptions code_create_disassoc.
Print Assumptions code_create_rts.
Print Assumptions code_create_cts.
