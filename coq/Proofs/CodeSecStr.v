(* The four security description routines of parse/misc/security.c AS TRANSLATED (Gen/Sites.v:
   body_libwifi_get_security_type / _group_ciphers / _pairwise_ciphers / _auth_key_suites) and their append helper
   (body__libwifi_add_sec_item).

   1. code_<routine>_calls: for every summary value, the run is never stuck and its trace is memset(buf, 0, 256) followed by
      - exactly snprintf(.., 256, "None") when the summary is 0 (the test the body makes is [bss->encryption_info == 0], NOT
        "none of my flags is set"), and otherwise
      - exactly one _libwifi_add_sec_item(buf, &offset, &append, "NAME") per flag of the routine's table that is set in the
        summary, in table order, and nothing else.
      In particular (code_<routine>_foreign_only) a non-empty summary none of whose flags belongs to the routine produces
      memset and NOTHING else: the buffer holds the empty string, not "None".
      The table walked by the control flow is extracted from the body by a Coq function (parse_ifs), the body is proved to be
      the fixed head followed by [map mk_if] of the extracted entries (by reflexivity), and the run is established by induction
      over that list (exec_sec_ifs).
   2. code_<routine>_table_matches_gen: the extracted table, names as bytes, is the table of Gen/Tables.v.
   3. code_add_sec_item: the helper on a memory holding two readable 4-byte cells.

   A hypothesis had to be added for three of the four routines: see code_get_group_ciphers_refuted. *)
From Coq Require Import ZArith String Ascii List Bool Lia.
From LW Require Import Base.Bytes Base.CExpr Gen.Sites Gen.Tables Proofs.SitesLemmas Spec.SecStrSpec.
Import ListNotations.
Local Open Scope string_scope.
Local Open Scope list_scope.
Local Open Scope Z_scope.

Ltac nums :=
  change (2 ^ 64) with 18446744073709551616 in *; change (2 ^ 63) with 9223372036854775808 in *;
  change (2 ^ 32) with 4294967296 in *; change (2 ^ 31) with 2147483648 in *.

(* ---------------------------------------------------------------- 1. the shape of the bodies *)

(* one line [if (bss->encryption_info & (1ULL << sh)) _libwifi_add_sec_item(buf, &offset, &append, "name");]
   ki, kc: the keys the translator gave to the conditional and to the call *)
Record entry := mk_entry { e_ki : string; e_kc : string; e_sh : Z; e_name : string }.

Definition flag_cond (sh : Z) : cexpr :=
  CBin OAnd (mkty false 64) (CCast (mkty false 64) (CVar (mkty false 64) "bss->encryption_info"))
       (CBin OShl (mkty false 64) (CLit (mkty false 64) 1) (CLit (mkty true 32) sh)).

Definition item_args (name : string) : list cexpr :=
  [CVar (mkty false 64) "buf"; CVar u64 "&offset"; CVar u64 "&append"; CVar u64 ("str:" ++ name)%string].

Definition mk_if (e : entry) : cstmt :=
  SIf (e_ki e) (flag_cond (e_sh e))
      [SCall (e_kc e) "_libwifi_add_sec_item" (item_args (e_name e)); SClobber "offset"; SClobber "append"] [].

(* the statements before the flag tests; a0 = the first argument of the snprintf of "None"
   (buf for the security type, buf + offset for the other three) *)
Definition none_cond : cexpr :=
  CBin OEq (mkty true 32) (CVar (mkty false 64) "bss->encryption_info") (CCast (mkty false 64) (CLit (mkty true 32) 0)).

Definition sec_head (a0 : cexpr) : list cstmt :=
  [SCall "call:memset#0" "memset" [CVar (mkty false 64) "buf"; CLit (mkty true 32) 0; CCast (mkty false 64) (CLit (mkty true 32) 256)];
   SSet "decl:offset#0" "offset" (CCast (mkty true 32) (CLit (mkty true 32) 0));
   SSet "decl:append#0" "append" (CCast (mkty true 32) (CLit (mkty true 32) 0));
   SIf "if#0" none_cond
       [SCall "call:snprintf#0" "snprintf" [a0; CCast (mkty false 64) (CLit (mkty true 32) 256); CVar u64 "str:None"];
        SRet "ret#0" None] []].

Definition sec_body (a0 : cexpr) (es : list entry) : list cstmt := sec_head a0 ++ map mk_if es.

Definition a0_buf : cexpr := CVar (mkty false 64) "buf".
Definition a0_buf_off : cexpr := CBin OAdd s64 (CVar (mkty false 64) "buf") (CCast s64 (CVar (mkty true 32) "offset")).

(* reading the entries off a body (deliberately loose: what it returns is checked against the body by reflexivity below) *)
Definition parse_if (s : cstmt) : option entry :=
  match s with
  | SIf ki (CBin OAnd _ _ (CBin OShl _ _ (CLit _ sh))) (SCall kc _ [_; _; _; CVar _ nm] :: _) _ =>
      Some (mk_entry ki kc sh (String.substring 4 (String.length nm - 4) nm))
  | _ => None
  end.
Fixpoint parse_ifs (l : list cstmt) : list entry :=
  match l with
  | [] => []
  | s :: r => match parse_if s with Some e => e :: parse_ifs r | None => parse_ifs r end
  end.

(* the table the control flow walks: (flag value, text of the literal handed to the helper) *)
Definition tbl_of (es : list entry) : list (Z * string) := map (fun e => (2 ^ e_sh e, e_name e)) es.
Definition sh_ok (e : entry) : Prop := 0 <= e_sh e < 64.

Definition entries_security_type : list entry := Eval vm_compute in parse_ifs (skipn 4 body_libwifi_get_security_type).
Definition entries_group_ciphers : list entry := Eval vm_compute in parse_ifs (skipn 4 body_libwifi_get_group_ciphers).
Definition entries_pairwise_ciphers : list entry := Eval vm_compute in parse_ifs (skipn 4 body_libwifi_get_pairwise_ciphers).
Definition entries_auth_key_suites : list entry := Eval vm_compute in parse_ifs (skipn 4 body_libwifi_get_auth_key_suites).

Lemma body_security_type_shape : body_libwifi_get_security_type = sec_body a0_buf entries_security_type.
Proof. reflexivity. Qed.
Lemma body_group_ciphers_shape : body_libwifi_get_group_ciphers = sec_body a0_buf_off entries_group_ciphers.
Proof. reflexivity. Qed.
Lemma body_pairwise_ciphers_shape : body_libwifi_get_pairwise_ciphers = sec_body a0_buf_off entries_pairwise_ciphers.
Proof. reflexivity. Qed.
Lemma body_auth_key_suites_shape : body_libwifi_get_auth_key_suites = sec_body a0_buf_off entries_auth_key_suites.
Proof. reflexivity. Qed.

(* the tables, written out *)
Definition code_table_security_type : list (Z * string) := Eval vm_compute in tbl_of entries_security_type.
Definition code_table_group_ciphers : list (Z * string) := Eval vm_compute in tbl_of entries_group_ciphers.
Definition code_table_pairwise_ciphers : list (Z * string) := Eval vm_compute in tbl_of entries_pairwise_ciphers.
Definition code_table_auth_key_suites : list (Z * string) := Eval vm_compute in tbl_of entries_auth_key_suites.

Lemma code_table_security_type_eq : tbl_of entries_security_type = code_table_security_type.
Proof. vm_compute. reflexivity. Qed.
Lemma code_table_group_ciphers_eq : tbl_of entries_group_ciphers = code_table_group_ciphers.
Proof. vm_compute. reflexivity. Qed.
Lemma code_table_pairwise_ciphers_eq : tbl_of entries_pairwise_ciphers = code_table_pairwise_ciphers.
Proof. vm_compute. reflexivity. Qed.
Lemma code_table_auth_key_suites_eq : tbl_of entries_auth_key_suites = code_table_auth_key_suites.
Proof. vm_compute. reflexivity. Qed.

Ltac sh_ok_all := repeat (apply Forall_cons; [unfold sh_ok; cbn [e_sh]; lia | ]); apply Forall_nil.
Lemma sh_ok_security_type : Forall sh_ok entries_security_type.
Proof. unfold entries_security_type. sh_ok_all. Qed.
Lemma sh_ok_group_ciphers : Forall sh_ok entries_group_ciphers.
Proof. unfold entries_group_ciphers. sh_ok_all. Qed.
Lemma sh_ok_pairwise_ciphers : Forall sh_ok entries_pairwise_ciphers.
Proof. unfold entries_pairwise_ciphers. sh_ok_all. Qed.
Lemma sh_ok_auth_key_suites : Forall sh_ok entries_auth_key_suites.
Proof. unfold entries_auth_key_suites. sh_ok_all. Qed.

(* ---------------------------------------------------------------- 2. the expected trace *)
Definition item_event (rho : env) (name : string) : event :=
  ("_libwifi_add_sec_item",
   [wrap u64 (rho "buf"); wrap u64 (rho "&offset"); wrap u64 (rho "&append"); wrap u64 (rho ("str:" ++ name)%string)]).

Definition sec_trace (rho : env) (info : Z) (tbl : list (Z * string)) : list event :=
  map (fun '(flag, name) => item_event rho name)
      (filter (fun '(flag, _) => negb (Z.land info flag =? 0)) tbl).

Definition memset_event (rho : env) : event := ("memset", [wrap u64 (rho "buf"); 0; 256]).
Definition none_event (rho : env) : event := ("snprintf", [wrap u64 (rho "buf"); 256; wrap u64 (rho "str:None")]).

Definition expected_trace (rho : env) (info : Z) (tbl : list (Z * string)) : list event :=
  memset_event rho :: (if info =? 0 then [none_event rho] else sec_trace rho info tbl).

(* ---------------------------------------------------------------- 3. the run of the flag tests, by induction on their list *)

(* the callee is handed &offset and &append: after each call the two locals are unknown; everything else keeps its value *)
Definition keeps (rho0 rho : env) : Prop :=
  forall y, String.prefix "offset" y = false -> String.prefix "append" y = false -> rho y = rho0 y.

Lemma keeps_refl rho : keeps rho rho.
Proof. intros y _ _. reflexivity. Qed.

Lemma keeps_clobber rho0 rho n n' :
  keeps rho0 rho -> keeps rho0 (clobber (clobber rho n "offset") n' "append").
Proof. intros K y Ho Ha. unfold clobber. rewrite Ha, Ho. apply K; assumption. Qed.

Lemma keeps_decl rho : keeps rho (upd (upd rho "offset" 0) "append" 0).
Proof.
  intros y Ho Ha. unfold upd.
  destruct (String.eqb_spec y "append") as [-> | _]; [cbn in Ha; discriminate | ].
  destruct (String.eqb_spec y "offset") as [-> | _]; [cbn in Ho; discriminate | ].
  reflexivity.
Qed.

Lemma pow2_range sh : 0 <= sh < 64 -> 0 < 2 ^ sh < 2 ^ 64.
Proof. intros H. split; [apply Z.pow_pos_nonneg; lia | apply Z.pow_lt_mono_r; lia]. Qed.

Lemma land_u64 a b : 0 <= a < 2 ^ 64 -> 0 <= Z.land a b < 2 ^ 64.
Proof.
  intros Ha.
  assert (Hl : Z.land a b = Z.land a b mod 2 ^ 64).
  { rewrite <- Z.land_ones by lia. rewrite <- Z.land_assoc, (Z.land_comm b), Z.land_assoc, Z.land_ones by lia.
    rewrite (Z.mod_small a) by lia. reflexivity. }
  rewrite Hl. apply Z.mod_pos_bound. reflexivity.
Qed.

Lemma ceval_flag_cond rho m info sh :
  0 <= info < 2 ^ 64 -> rho "bss->encryption_info" = info -> 0 <= sh < 64 ->
  ceval rho m (flag_cond sh) = Some (Z.land info (2 ^ sh)).
Proof.
  intros Hi Hr Hs. pose proof (pow2_range sh Hs) as Hp. pose proof (land_u64 info (2 ^ sh) Hi) as Hl.
  unfold flag_cond. cbn [ceval binop c_bits c_signed]. rewrite Hr.
  nums.
  rewrite (wrap_u64_id info) by lia. rewrite (wrap_u64_id info) by lia.
  rewrite (wrap_u64_id 1) by lia. rewrite (wrap_s32_id sh) by lia.
  rewrite (ltb_false sh 0) by lia. rewrite (leb_false 64 sh) by lia.
  change (1 <? 0) with false. cbn [orb].
  rewrite Z.mul_1_l. rewrite arith_u64 by lia. rewrite wrap_u64_id by lia. reflexivity.
Qed.

Lemma exec_nil_le f m rho tr : (1 <= f)%nat -> exec f m rho tr [] = Fell rho tr.
Proof. destruct f; [lia | reflexivity]. Qed.

Lemma exec_item_block f m rho tr kc name :
  (4 <= f)%nat ->
  exec f m rho tr [SCall kc "_libwifi_add_sec_item" (item_args name); SClobber "offset"; SClobber "append"] =
    Fell (clobber (clobber rho (length (tr ++ [item_event rho name])) "offset") (length (tr ++ [item_event rho name])) "append")
         (tr ++ [item_event rho name]).
Proof.
  intros Hf. do 4 (destruct f as [ | f]; [lia | ]).
  rewrite exec_call with (vs := snd (item_event rho name)) by reflexivity.
  rewrite exec_clobber, exec_clobber, exec_nil. reflexivity.
Qed.

Lemma item_event_keeps rho0 rho name : keeps rho0 rho -> item_event rho name = item_event rho0 name.
Proof.
  intros K. unfold item_event.
  rewrite (K "buf"), (K "&offset"), (K "&append"), (K ("str:" ++ name)%string) by reflexivity. reflexivity.
Qed.

Lemma exec_sec_ifs m rho0 info :
  0 <= info < 2 ^ 64 -> rho0 "bss->encryption_info" = info ->
  forall es, Forall sh_ok es ->
  forall f rho tr rest, keeps rho0 rho -> (4 <= f)%nat ->
  exists rho', keeps rho0 rho' /\
    exec (length es + f) m rho tr (map mk_if es ++ rest) = exec f m rho' (tr ++ sec_trace rho0 info (tbl_of es)) rest.
Proof.
  intros Hi Hr es Hes. induction Hes as [ | e es He Hes IH]; intros f rho tr rest K Hf.
  - exists rho. split; [exact K | ]. unfold sec_trace. cbn [tbl_of map filter List.length plus app]. rewrite app_nil_r. reflexivity.
  - assert (Hc : ceval rho m (flag_cond (e_sh e)) = Some (Z.land info (2 ^ e_sh e))).
    { apply ceval_flag_cond; [exact Hi | | exact He]. rewrite (K "bss->encryption_info") by reflexivity. exact Hr. }
    change (length (e :: es) + f)%nat with (S (length es + f)).
    change ((map mk_if (e :: es) ++ rest)%list) with (mk_if e :: (map mk_if es ++ rest)%list).
    unfold sec_trace. cbn [tbl_of map filter]. fold (tbl_of es).
    unfold mk_if at 1.
    destruct (Z.eqb_spec (Z.land info (2 ^ e_sh e)) 0) as [E | E]; cbn [negb].
    + rewrite exec_if_false by (rewrite Hc, E; reflexivity).
      rewrite exec_nil_le by lia.
      apply IH; assumption.
    + rewrite exec_if_true with (v := Z.land info (2 ^ e_sh e)) by assumption.
      rewrite exec_item_block by lia.
      rewrite (item_event_keeps rho0 rho _ K).
      destruct (IH f (clobber (clobber rho (length (tr ++ [item_event rho0 (e_name e)])) "offset")
                             (length (tr ++ [item_event rho0 (e_name e)])) "append")
                   (tr ++ [item_event rho0 (e_name e)]) rest (keeps_clobber _ _ _ _ K) Hf) as [rho' [K' E']].
      exists rho'. split; [exact K' | ]. rewrite E'. unfold sec_trace. cbn [map]. rewrite <- app_assoc. reflexivity.
Qed.

(* ---------------------------------------------------------------- 4. the whole body, exact fuel then any larger fuel *)
Lemma exec_sec_body a0 es rho m info v0 :
  0 <= info < 2 ^ 64 -> rho "bss->encryption_info" = info -> Forall sh_ok es ->
  (info = 0 -> ceval (upd (upd rho "offset" 0) "append" 0) m a0 = Some v0) ->
  exists rho',
    exec (S (S (S (S (length es + 4))))) m rho [] (sec_body a0 es) =
      (if info =? 0
       then Returned None rho' [memset_event rho; ("snprintf", [v0; 256; wrap u64 (rho "str:None")])]
       else Fell rho' (memset_event rho :: sec_trace rho info (tbl_of es))).
Proof.
  intros Hi Hr Hes Ha0. unfold sec_body, sec_head. cbn [app].
  rewrite exec_call with (vs := snd (memset_event rho)) by reflexivity.
  rewrite exec_set with (v := 0) by reflexivity.
  rewrite exec_set with (v := 0) by reflexivity.
  set (rho1 := upd (upd rho "offset" 0) "append" 0) in *.
  assert (K1 : keeps rho rho1) by apply keeps_decl.
  assert (Hc : ceval rho1 m none_cond = Some (b2z (info =? 0))).
  { unfold none_cond. cbn [ceval binop c_bits c_signed]. rewrite (K1 "bss->encryption_info") by reflexivity. rewrite Hr.
    nums. rewrite (wrap_u64_id info) by lia. reflexivity. }
  rewrite exec_if_gen with (bb := (info =? 0)) by exact Hc.
  destruct (Z.eqb_spec info 0) as [E | E].
  - exists rho1.
    assert (Hs : ceval rho1 m (CVar u64 "str:None") = Some (wrap u64 (rho "str:None"))).
    { cbn [ceval]. rewrite (K1 "str:None") by reflexivity. reflexivity. }
    replace (length es + 4)%nat with (S (S (length es + 2)))%nat by lia.
    rewrite exec_call with (vs := [v0; 256; wrap u64 (rho "str:None")]).
    + reflexivity.
    + cbn [evals]. rewrite (Ha0 E), Hs. reflexivity.
  - rewrite exec_nil_le by lia.
    destruct (exec_sec_ifs m rho info Hi Hr es Hes 4%nat rho1 (([] : list event) ++ [memset_event rho]) [] K1 (le_n _))
      as [rho' [K' E']].
    exists rho'. rewrite <- (app_nil_r (map mk_if es)). cbn [app] in E' |- *.
    change [("memset", snd (memset_event rho))] with [memset_event rho]. rewrite E'. reflexivity.
Qed.

Lemma observe_sec_body a0 es rho m info v0 F :
  0 <= info < 2 ^ 64 -> rho "bss->encryption_info" = info -> Forall sh_ok es ->
  (info = 0 -> ceval (upd (upd rho "offset" 0) "append" 0) m a0 = Some v0) ->
  (length es + 8 <= F)%nat ->
  observe (exec F m rho [] (sec_body a0 es)) =
    Some (None, memset_event rho ::
                (if info =? 0 then [("snprintf", [v0; 256; wrap u64 (rho "str:None")])] else sec_trace rho info (tbl_of es))).
Proof.
  intros Hi Hr Hes Ha0 HF.
  destruct (exec_sec_body a0 es rho m info v0 Hi Hr Hes Ha0) as [rho' E].
  assert (Hle : (S (S (S (S (length es + 4)))) <= F)%nat) by lia.
  rewrite (exec_fuel_le _ F _ _ _ _ _ Hle E).
  - destruct (info =? 0); reflexivity.
  - destruct (info =? 0); discriminate.
Qed.

(* the first argument of the snprintf of "None" *)
Lemma ceval_a0_buf rho m : ceval (upd (upd rho "offset" 0) "append" 0) m a0_buf = Some (wrap u64 (rho "buf")).
Proof. reflexivity. Qed.

(* buf + offset is an addition in the SIGNED 64-bit type of the translation (pointer plus int): it is defined only for an
   address below 2^63 *)
Lemma ceval_a0_buf_off rho m :
  wrap u64 (rho "buf") < 2 ^ 63 ->
  ceval (upd (upd rho "offset" 0) "append" 0) m a0_buf_off = Some (wrap u64 (rho "buf")).
Proof.
  intros Hb. unfold a0_buf_off.
  assert (Hw : 0 <= wrap u64 (rho "buf")) by (unfold wrap, modulus; cbn [c_signed c_bits]; apply Z.mod_pos_bound; reflexivity).
  cbn [ceval binop upd String.eqb Ascii.eqb Bool.eqb c_bits c_signed].
  change (wrap s64 (wrap (mkty true 32) 0)) with 0. rewrite Z.add_0_r.
  nums. unfold u64, s64 in *. rewrite arith_s64 by lia. reflexivity.
Qed.

(* ---------------------------------------------------------------- 5. the four routines *)

(* libwifi_get_security_type: no hypothesis on the address *)
Theorem code_get_security_type_calls rho m info F :
  0 <= info < 2 ^ 64 -> rho "bss->encryption_info" = info -> (12 <= F)%nat ->
  observe (exec F m rho [] body_libwifi_get_security_type) =
    Some (None, expected_trace rho info code_table_security_type).
Proof.
  intros Hi Hr HF. rewrite body_security_type_shape, <- code_table_security_type_eq.
  apply observe_sec_body; [exact Hi | exact Hr | apply sh_ok_security_type | intros _; apply ceval_a0_buf | exact HF].
Qed.

Ltac calls_off shape tbl_eq shok :=
  intros Hi Hr Hb HF; rewrite shape, <- tbl_eq;
  apply observe_sec_body; [exact Hi | exact Hr | apply shok | intros E; apply ceval_a0_buf_off; exact (Hb E) | exact HF].

(* the other three hand buf + offset to snprintf in the "None" case: the address has to be below 2^63 there
   (minimal: only needed when info = 0; see code_get_group_ciphers_refuted) *)
Theorem code_get_group_ciphers_calls rho m info F :
  0 <= info < 2 ^ 64 -> rho "bss->encryption_info" = info ->
  (info = 0 -> wrap u64 (rho "buf") < 2 ^ 63) -> (21 <= F)%nat ->
  observe (exec F m rho [] body_libwifi_get_group_ciphers) =
    Some (None, expected_trace rho info code_table_group_ciphers).
Proof. calls_off body_group_ciphers_shape code_table_group_ciphers_eq sh_ok_group_ciphers. Qed.

Theorem code_get_pairwise_ciphers_calls rho m info F :
  0 <= info < 2 ^ 64 -> rho "bss->encryption_info" = info ->
  (info = 0 -> wrap u64 (rho "buf") < 2 ^ 63) -> (22 <= F)%nat ->
  observe (exec F m rho [] body_libwifi_get_pairwise_ciphers) =
    Some (None, expected_trace rho info code_table_pairwise_ciphers).
Proof. calls_off body_pairwise_ciphers_shape code_table_pairwise_ciphers_eq sh_ok_pairwise_ciphers. Qed.

Theorem code_get_auth_key_suites_calls rho m info F :
  0 <= info < 2 ^ 64 -> rho "bss->encryption_info" = info ->
  (info = 0 -> wrap u64 (rho "buf") < 2 ^ 63) -> (29 <= F)%nat ->
  observe (exec F m rho [] body_libwifi_get_auth_key_suites) =
    Some (None, expected_trace rho info code_table_auth_key_suites).
Proof. calls_off body_auth_key_suites_shape code_table_auth_key_suites_eq sh_ok_auth_key_suites. Qed.

(* without the hypothesis the statement is false AS TRANSLATED: summary 0, buffer at address 2^63 - the translated
   pointer addition buf + offset overflows its signed type and the run is stuck at the snprintf *)
Example code_get_group_ciphers_refuted :
  exec 100 (fun _ => None) (env_of [("buf", 2 ^ 63)]) [] body_libwifi_get_group_ciphers = Stuck "call:snprintf#0".
Proof. vm_compute. reflexivity. Qed.
Example code_get_pairwise_ciphers_refuted :
  exec 100 (fun _ => None) (env_of [("buf", 2 ^ 63)]) [] body_libwifi_get_pairwise_ciphers = Stuck "call:snprintf#0".
Proof. vm_compute. reflexivity. Qed.
Example code_get_auth_key_suites_refuted :
  exec 100 (fun _ => None) (env_of [("buf", 2 ^ 63)]) [] body_libwifi_get_auth_key_suites = Stuck "call:snprintf#0".
Proof. vm_compute. reflexivity. Qed.

(* ---------------------------------------------------------------- 6. a non-empty summary without the routine's own flags
   The emptiness test is [info == 0], not "none of my flags": when info <> 0 but no flag of the routine's table is set, the
   routine calls memset and nothing else - no "None", no item: the caller's buffer holds the empty string. *)
Lemma sec_trace_none rho info tbl :
  (forall flag name, In (flag, name) tbl -> Z.land info flag = 0) -> sec_trace rho info tbl = [].
Proof.
  intros H. unfold sec_trace. induction tbl as [ | [flag name] tbl IH]; [reflexivity | ].
  cbn [filter]. rewrite (H flag name) by (left; reflexivity). cbn [Z.eqb negb]. apply IH.
  intros fl nm Hin. apply (H fl nm). right. exact Hin.
Qed.

Lemma expected_trace_foreign rho info tbl :
  info <> 0 -> (forall flag name, In (flag, name) tbl -> Z.land info flag = 0) ->
  expected_trace rho info tbl = [memset_event rho].
Proof.
  intros Hn H. unfold expected_trace. destruct (Z.eqb_spec info 0) as [E | _]; [contradiction | ].
  rewrite sec_trace_none by exact H. reflexivity.
Qed.

Theorem code_get_security_type_foreign_only rho m info F :
  0 <= info < 2 ^ 64 -> rho "bss->encryption_info" = info -> (12 <= F)%nat ->
  info <> 0 -> (forall flag name, In (flag, name) code_table_security_type -> Z.land info flag = 0) ->
  observe (exec F m rho [] body_libwifi_get_security_type) = Some (None, [memset_event rho]).
Proof. intros Hi Hr HF Hn H. rewrite (code_get_security_type_calls rho m info F Hi Hr HF). rewrite expected_trace_foreign by assumption. reflexivity. Qed.

Theorem code_get_group_ciphers_foreign_only rho m info F :
  0 <= info < 2 ^ 64 -> rho "bss->encryption_info" = info -> (21 <= F)%nat ->
  info <> 0 -> (forall flag name, In (flag, name) code_table_group_ciphers -> Z.land info flag = 0) ->
  observe (exec F m rho [] body_libwifi_get_group_ciphers) = Some (None, [memset_event rho]).
Proof.
  intros Hi Hr HF Hn H. rewrite (code_get_group_ciphers_calls rho m info F Hi Hr (fun E => False_ind _ (Hn E)) HF).
  rewrite expected_trace_foreign by assumption. reflexivity.
Qed.

Theorem code_get_pairwise_ciphers_foreign_only rho m info F :
  0 <= info < 2 ^ 64 -> rho "bss->encryption_info" = info -> (22 <= F)%nat ->
  info <> 0 -> (forall flag name, In (flag, name) code_table_pairwise_ciphers -> Z.land info flag = 0) ->
  observe (exec F m rho [] body_libwifi_get_pairwise_ciphers) = Some (None, [memset_event rho]).
Proof.
  intros Hi Hr HF Hn H. rewrite (code_get_pairwise_ciphers_calls rho m info F Hi Hr (fun E => False_ind _ (Hn E)) HF).
  rewrite expected_trace_foreign by assumption. reflexivity.
Qed.

Theorem code_get_auth_key_suites_foreign_only rho m info F :
  0 <= info < 2 ^ 64 -> rho "bss->encryption_info" = info -> (29 <= F)%nat ->
  info <> 0 -> (forall flag name, In (flag, name) code_table_auth_key_suites -> Z.land info flag = 0) ->
  observe (exec F m rho [] body_libwifi_get_auth_key_suites) = Some (None, [memset_event rho]).
Proof.
  intros Hi Hr HF Hn H. rewrite (code_get_auth_key_suites_calls rho m info F Hi Hr (fun E => False_ind _ (Hn E)) HF).
  rewrite expected_trace_foreign by assumption. reflexivity.
Qed.

(* an instance: the summary of a WPA3 network whose cipher flags were not recorded (only bit 4 = WPA3 set): the group cipher
   routine leaves the zeroed buffer untouched *)
Example code_get_group_ciphers_wpa3_only :
  observe (exec 100 (fun _ => None) (env_of [("bss->encryption_info", 16); ("buf", 4096)]) [] body_libwifi_get_group_ciphers)
  = Some (None, [("memset", [4096; 0; 256])]).
Proof. vm_compute. reflexivity. Qed.

(* ---------------------------------------------------------------- 7. the tables are the generated ones *)
Definition table_bytes (t : list (Z * string)) : list (Z * list byte) := map (fun '(flag, name) => (flag, bytes_of_string name)) t.

Theorem code_get_security_type_table_matches_gen : table_bytes code_table_security_type = sec_table_security_type.
Proof. vm_compute. reflexivity. Qed.
Theorem code_get_group_ciphers_table_matches_gen : table_bytes code_table_group_ciphers = sec_table_group_ciphers.
Proof. vm_compute. reflexivity. Qed.
Theorem code_get_pairwise_ciphers_table_matches_gen : table_bytes code_table_pairwise_ciphers = sec_table_pairwise_ciphers.
Proof. vm_compute. reflexivity. Qed.
Theorem code_get_auth_key_suites_table_matches_gen : table_bytes code_table_auth_key_suites = sec_table_auth_key_suites.
Proof. vm_compute. reflexivity. Qed.

(* the literals of the "None" case and of the separator are the generated ones as well *)
Lemma code_none_matches_gen :
  bytes_of_string "None" = sec_none_security_type /\ bytes_of_string "None" = sec_none_group_ciphers /\
  bytes_of_string "None" = sec_none_pairwise_ciphers /\ bytes_of_string "None" = sec_none_auth_key_suites /\
  bytes_of_string ", " = sec_separator.
Proof. vm_compute. repeat split. Qed.

(* the names handed to the helper, as bytes, are the names of the set flags of the generated table (Spec.SecStrSpec.set_names) *)
Lemma set_names_table_bytes t info :
  set_names (table_bytes t) info =
    map (fun '(flag, name) => bytes_of_string name) (filter (fun '(flag, _) => negb (Z.land info flag =? 0)) t).
Proof.
  unfold set_names, table_bytes. induction t as [ | [flag name] t IH]; [reflexivity | ].
  cbn [map filter fst snd]. destruct (negb (Z.land info flag =? 0)); cbn [map snd]; rewrite IH; reflexivity.
Qed.

(* "exactly once": no flag and no name occurs twice in a table, so a set flag accounts for exactly one event of the trace *)
Lemma code_tables_distinct :
  NoDup (map fst code_table_security_type) /\ NoDup (map snd code_table_security_type) /\
  NoDup (map fst code_table_group_ciphers) /\ NoDup (map snd code_table_group_ciphers) /\
  NoDup (map fst code_table_pairwise_ciphers) /\ NoDup (map snd code_table_pairwise_ciphers) /\
  NoDup (map fst code_table_auth_key_suites) /\ NoDup (map snd code_table_auth_key_suites).
Proof.
  repeat split;
    match goal with
    | |- NoDup (map fst ?t) => rewrite <- (eq_refl : nodup Z.eq_dec (map fst t) = map fst t)
    | |- NoDup (map snd ?t) => rewrite <- (eq_refl : nodup string_dec (map snd t) = map snd t)
    end; apply NoDup_nodup.
Qed.

(* ---------------------------------------------------------------- 8. the append helper
   void _libwifi_add_sec_item(char *buf, int *offset, int *append, const char *item), AS TRANSLATED:
     *append and *offset are READ from memory ([CLoad s32 (CVar "append")], [CLoad s32 (CVar "offset")]: the memory holds two
     readable 4-byte cells at the addresses rho "append", rho "offset"), but they are WRITTEN as the lvalue texts "*offset",
     "*append" of the environment ([exec] has no store).  Consequences, all visible in the statement below:
     - what CAN be tied: which calls are made and in which order (separator first exactly when the loaded *append <> 0, then
       the item with "%s", each followed by its strlen), the size 256, the address buf + *offset of the FIRST write, the values
       assigned last to "*offset" and "*append" (1);
     - what CANNOT: the second snprintf is seen at buf + off again, not at buf + off + strlen(", "), because the assignment to
       "*offset" does not reach the later load; for the same reason both advances start from the initial off, and since the
       result of strlen is the one unknown rho "ret:strlen" whatever its argument, the final "*offset" is
       off + ret:strlen, not off + 2 + strlen(item).  (In the callers the effect of the helper on offset / append is an
       SClobber.)  The arithmetic of the offsets is therefore a matter of the model (Model/SecStr.v add_sec_item), not of this
       translation.
   Hypothesis: buf + off < 2^63 (pointer plus int is a signed 64-bit addition in the translation, as above). *)
Lemma wrap_s32_range v : - 2 ^ 31 <= wrap s32 v < 2 ^ 31.
Proof.
  unfold wrap, modulus, tmax; cbn [s32 c_signed c_bits].
  assert (H : 0 <= v mod 2 ^ 32 < 2 ^ 32) by (apply Z.mod_pos_bound; reflexivity).
  change (2 ^ (32 - 1)) with (2 ^ 31). nums.
  destruct (Z.leb_spec (v mod 4294967296) (2147483648 - 1)); lia.
Qed.

Lemma wrap_u64_range v : 0 <= wrap u64 v < 2 ^ 64.
Proof. unfold wrap, modulus; cbn [u64 c_signed c_bits]. apply Z.mod_pos_bound. reflexivity. Qed.

Definition load_s32 (x : string) : cexpr := CLoad (mkty true 32) (CVar (mkty false 64) x).

Lemma ceval_load_s32 rho m x v :
  load_le m (wrap u64 (rho x)) 4 = Some v -> ceval rho m (load_s32 x) = Some (wrap s32 v).
Proof.
  intros H. unfold load_s32. cbn [ceval]. change (Z.to_nat (c_bits (mkty true 32) / 8)) with 4%nat.
  unfold u64 in H. rewrite H. reflexivity.
Qed.

Definition item_addr : cexpr := CBin OAdd s64 (CVar (mkty false 64) "buf") (CCast s64 (load_s32 "offset")).

Lemma ceval_item_addr rho m ov :
  load_le m (wrap u64 (rho "offset")) 4 = Some ov ->
  wrap u64 (rho "buf") + wrap s32 ov < 2 ^ 63 ->
  ceval rho m item_addr = Some (wrap u64 (rho "buf") + wrap s32 ov).
Proof.
  intros Hl Hb. pose proof (wrap_s32_range ov) as Ho. pose proof (wrap_u64_range (rho "buf")) as HB.
  unfold item_addr. cbn [ceval]. fold (load_s32 "offset"). rewrite (ceval_load_s32 _ _ _ _ Hl). cbn [binop].
  nums. unfold u64, s32, s64 in *. rewrite (wrap_s64_id (wrap _ ov)) by lia. rewrite arith_s64 by lia. reflexivity.
Qed.

Definition advance (args : list cexpr) : cexpr :=
  CCast (mkty true 32) (CBin OAdd (mkty false 64) (CCast (mkty false 64) (load_s32 "offset")) (CCall (mkty false 64) "strlen" args)).

Definition advanced (rho : env) (ov : Z) : Z :=
  wrap s32 ((wrap u64 (wrap s32 ov) + wrap u64 (rho "ret:strlen")) mod 2 ^ 64).

Lemma ceval_advance rho m ov args :
  load_le m (wrap u64 (rho "offset")) 4 = Some ov -> ceval rho m (advance args) = Some (advanced rho ov).
Proof.
  intros Hl. unfold advance. cbn [ceval]. fold (load_s32 "offset"). rewrite (ceval_load_s32 _ _ _ _ Hl). reflexivity.
Qed.

Lemma body_add_sec_item_shape :
  body__libwifi_add_sec_item =
    [SIf "if#0" (load_s32 "append")
         [SCall "call:snprintf#0" "snprintf" [item_addr; CCast (mkty false 64) (CLit (mkty true 32) 256); CVar u64 "str:, "];
          SCall "call:strlen#0" "strlen" [CVar u64 "str:, "];
          SSet "upd:*offset#0" "*offset" (advance [CVar u64 "str:, "])] [];
     SCall "call:snprintf#1" "snprintf"
           [item_addr; CCast (mkty false 64) (CLit (mkty true 32) 256); CVar u64 "str:%s"; CVar (mkty false 64) "item"];
     SCall "call:strlen#1" "strlen" [CVar (mkty false 64) "item"];
     SSet "upd:*offset#1" "*offset" (advance [CVar (mkty false 64) "item"]);
     SSet "set:*append#0" "*append" (CCast (mkty true 32) (CLit (mkty true 32) 1))].
Proof. reflexivity. Qed.

Theorem code_add_sec_item rho m av ov F :
  load_le m (wrap u64 (rho "append")) 4 = Some av ->         (* the cell *append *)
  load_le m (wrap u64 (rho "offset")) 4 = Some ov ->         (* the cell *offset *)
  wrap u64 (rho "buf") + wrap s32 ov < 2 ^ 63 ->
  (6 <= F)%nat ->
  let B := wrap u64 (rho "buf") in
  let off := wrap s32 ov in
  let adv := advanced rho ov in
  exec F m rho [] body__libwifi_add_sec_item =
    Fell (upd (upd (if wrap s32 av =? 0 then rho else upd rho "*offset" adv) "*offset" adv) "*append" 1)
         ((if wrap s32 av =? 0 then []
           else [("snprintf", [B + off; 256; wrap u64 (rho "str:, ")]); ("strlen", [wrap u64 (rho "str:, ")])])
          ++ [("snprintf", [B + off; 256; wrap u64 (rho "str:%s"); wrap u64 (rho "item")]); ("strlen", [wrap u64 (rho "item")])]).
Proof.
  intros Ha Ho Hb HF B off adv. rewrite body_add_sec_item_shape.
  do 6 (destruct F as [ | F]; [lia | ]).
  pose proof (ceval_load_s32 rho m "append" av Ha) as Hca.
  pose proof (ceval_item_addr rho m ov Ho Hb) as Hci.
  destruct (Z.eqb_spec (wrap s32 av) 0) as [E | E].
  - rewrite exec_if_false by (rewrite Hca, E; reflexivity). rewrite exec_nil.
    rewrite exec_call with (vs := [B + off; 256; wrap u64 (rho "str:%s"); wrap u64 (rho "item")])
      by (cbn [evals]; rewrite Hci; reflexivity).
    rewrite exec_call with (vs := [wrap u64 (rho "item")]) by reflexivity.
    rewrite exec_set with (v := adv) by (apply ceval_advance; exact Ho).
    rewrite exec_set with (v := 1) by reflexivity.
    rewrite exec_nil. reflexivity.
  - rewrite exec_if_true with (v := wrap s32 av) by assumption.
    rewrite exec_call with (vs := [B + off; 256; wrap u64 (rho "str:, ")])
      by (cbn [evals]; rewrite Hci; reflexivity).
    rewrite exec_call with (vs := [wrap u64 (rho "str:, ")]) by reflexivity.
    rewrite exec_set with (v := adv) by (apply ceval_advance; exact Ho).
    rewrite exec_nil.
    set (rho2 := upd rho "*offset" adv).
    assert (Hci2 : ceval rho2 m item_addr = Some (B + off)) by (apply (ceval_item_addr rho2 m ov); assumption).
    rewrite exec_call with (vs := [B + off; 256; wrap u64 (rho "str:%s"); wrap u64 (rho "item")])
      by (cbn [evals]; rewrite Hci2; reflexivity).
    rewrite exec_call with (vs := [wrap u64 (rho "item")]) by reflexivity.
    rewrite exec_set with (v := adv) by (apply (ceval_advance rho2 m ov); exact Ho).
    rewrite exec_set with (v := 1) by reflexivity.
    rewrite exec_nil. reflexivity.
Qed.

(* in the expected ranges the value assigned to "*offset" is the plain sum *)
Lemma advanced_plain rho ov :
  0 <= wrap s32 ov -> 0 <= rho "ret:strlen" -> wrap s32 ov + rho "ret:strlen" < 2 ^ 31 ->
  advanced rho ov = wrap s32 ov + rho "ret:strlen".
Proof.
  intros H0 H1 H2. unfold advanced. nums. unfold u64, s32 in *.
  rewrite (wrap_u64_id (wrap _ ov)) by lia. rewrite (wrap_u64_id (rho "ret:strlen")) by lia.
  rewrite Z.mod_small by lia. rewrite wrap_s32_id by lia. reflexivity.
Qed.

(* a concrete run: *append = 1 at 0x2000, *offset = 4 at 0x1000, buf = 0x3000, strlen returns 2 *)
Example code_add_sec_item_example :
  let m := fun a => if (4096 <=? a) && (a <? 4100) then Some (if a =? 4096 then 4 else 0)
                    else if (8192 <=? a) && (a <? 8196) then Some (if a =? 8192 then 1 else 0) else None in
  let rho := env_of [("buf", 12288); ("offset", 4096); ("append", 8192); ("item", 20480); ("str:, ", 24576); ("str:%s", 28672);
                     ("ret:strlen", 2)] in
  observe (exec 6 m rho [] body__libwifi_add_sec_item) =
    Some (None, [("snprintf", [12292; 256; 24576]); ("strlen", [24576]);
                 ("snprintf", [12292; 256; 28672; 20480]); ("strlen", [20480])]).
Proof. vm_compute. reflexivity. Qed.

Print Assumptions code_get_security_type_calls.
Print Assumptions code_get_group_ciphers_calls.
Print Assumptions code_get_pairwise_ciphers_calls.
Print Assumptions code_get_auth_key_suites_calls.
Print Assumptions code_get_group_ciphers_refuted.
Print Assumptions code_get_pairwise_ciphers_refuted.
Print Assumptions code_get_auth_key_suites_refuted.
Print Assumptions code_get_security_type_foreign_only.
Print Assumptions code_get_group_ciphers_foreign_only.
Print Assumptions code_get_pairwise_ciphers_foreign_only.
Print Assumptions code_get_auth_key_suites_foreign_only.
Print Assumptions code_get_security_type_table_matches_gen.
Print Assumptions code_get_group_ciphers_table_matches_gen.
Print Assumptions code_get_pairwise_ciphers_table_matches_gen.
Print Assumptions code_get_auth_key_suites_table_matches_gen.
Print Assumptions code_none_matches_gen.
Print Assumptions code_tables_distinct.
Print Assumptions set_names_table_bytes.
Print Assumptions code_add_sec_item.
Print Assumptions advanced_plain.
