(* ieee80211_radiotap_iterator_init AS TRANSLATED (Gen/Sites.v: body_ieee80211_radiotap_iterator_init) - the whole routine, the
   extended-bitmap loop included - refines the hand-written model Model/Radiotap.v rt_init on EVERY header buffer, when the only
   readable memory is the buffer: it never reads outside it, never overflows, refuses exactly what the model refuses and otherwise
   leaves the model's iterator in the object's members.

   Executable since the translator scales pointer increments by the pointee's size (iterator->_next_bitmap++ is + 4 for the
   uint32_t pointer) and turns a while loop whose condition makes calls into an SLoop (the __uint32_identity call of le32toh is
   recorded before the first test and after every pass).

   As in Proofs/SitesRadiotapIter.v the member ADDRESSES of the header are names of the environment: that
   "&radiotap_header->it_len" = header + 2, "&radiotap_header->it_present" = header + 4 (Gen/Layout.v) and that the named lvalue
   "radiotap_header->it_version" is octet 0 are hypotheses. *)
From Coq Require Import ZArith String List Bool Lia.
From LW Require Import Base.Bytes Base.CExpr Gen.Consts Gen.Layout Gen.Sites.
From LW Require Import Proofs.SitesLemmas Proofs.CodeIter Proofs.CodeSecurity Proofs.RadiotapSafe Proofs.SitesRadiotapIter Model.Radiotap.
Import ListNotations.
Local Open Scope string_scope.
Local Open Scope Z_scope.

Ltac env_red := cbv beta iota delta [upd String.eqb Ascii.eqb Bool.eqb].
Ltac env_solve := env_red; first [reflexivity | assumption | lia].

(* what the object's members hold after a successful init: the model's iterator, addresses relative to the header *)
Definition rtinit_fields (rho : env) (h rns vns : Z) (it : rt_it) : Prop :=
  rho "iterator->_rtheader" = h /\ rho "iterator->_max_length" = r_max it /\ rho "iterator->_arg_index" = r_idx it /\
  rho "iterator->_bitmap_shifter" = r_shift it /\
  (exists a, r_arg it = Some a /\ rho "iterator->_arg" = h + a /\ rho "iterator->this_arg" = h + a) /\
  rho "iterator->_next_bitmap" = h + r_nextbm it /\ rho "iterator->_reset_on_ext" = b2z (r_reset it) /\
  r_ns it = true /\ rho "iterator->current_namespace" = rns /\ rho "iterator->is_radiotap_ns" = 1 /\ rho "iterator->_vns" = vns.

Definition same_but_arg (rho' rho : env) : Prop := forall y, y <> "iterator->_arg" -> rho' y = rho y.

Section Init.
Variable buf : list byte.
Variable h : Z.
Hypothesis Hwf : wfbytes buf.
Hypothesis Hh : 0 < h.
Hypothesis Hend : h + zlen buf < 2 ^ 62.
Hypothesis Hlen : zlen buf < 2 ^ 31.

Let m := mem_at h buf.
Let rd := rd_strict buf.

Lemma Hm : holds m h buf.
Proof. apply holds_mem_at. Qed.

Definition the_loop : cstmt := nth 2 (match nth 17 body_ieee80211_radiotap_iterator_init SBreak with SIf _ _ a _ => a | _ => [] end) SBreak.

Lemma the_loop_shape :
  the_loop = SLoop "loop#0" true (site INIT "loop#0")
    [SSet "upd:iterator->_arg#0" "iterator->_arg" (site INIT "upd:iterator->_arg#0");
     SIf "if#5" (site INIT "if#5") [SRet "ret#4" (Some (site INIT "ret#4"))] [];
     SCall "call:__uint32_identity#1" "__uint32_identity" [CLoad (mkty false 32) (CVar (mkty false 64) "iterator->_arg")]] [].
Proof. reflexivity. Qed.

Lemma evals_arg_load rho a :
  rho "iterator->_arg" = h + a -> 0 <= a -> a + 4 <= zlen buf ->
  evals rho m [CLoad (mkty false 32) (CVar (mkty false 64) "iterator->_arg")] = Some [le32 buf a].
Proof.
  intros Ha Ha0 Hl. nums.
  pose proof (le32_range buf a Hwf ltac:(lia) ltac:(lia)) as R.
  cbn [evals ceval]. rewrite Ha. wrap_ids. cbv beta iota.
  rewrite (ld32 m h buf) by (apply Hm || lia). cbv beta iota. wrap_ids. reflexivity.
Qed.

(* the loop over the extended present words: ext_chain *)
Lemma ext_loop (Q : xresult -> Prop) (rest : list cstmt) (K : nat) (mx : Z) (rho0 : env) :
  rho0 "iterator->_rtheader" = h -> rho0 "iterator->_max_length" = mx -> mx <= zlen buf ->
  forall (n : nat) (a : Z) (rho : env) (tr : list event),
  same_but_arg rho rho0 -> rho "iterator->_arg" = h + a ->
  8 <= a -> a + 4 <= mx -> mx - a <= Z.of_nat n ->
  (forall a' rho' tr', ext_chain rd n a mx = Done (Ok a') -> same_but_arg rho' rho0 -> rho' "iterator->_arg" = h + a' ->
                       8 <= a' -> a' + 4 <= mx -> wp K m rho' tr' rest Q) ->
  (forall c rho' tr', ext_chain rd n a mx = Done (Err c) -> Q (Returned (Some c) rho' tr')) ->
  wp (K + 8 * n + 1) m rho tr (the_loop :: rest) Q.
Proof.
  intros Hrt Hmx Hmxl. nums.
  induction n as [ | n IH]; intros a rho tr Hsame Ha Ha8 Hfit Hn Hok Herr; [lia | ].
  assert (Hrt' : rho "iterator->_rtheader" = h) by (rewrite Hsame by discriminate; exact Hrt).
  assert (Hmx' : rho "iterator->_max_length" = mx) by (rewrite Hsame by discriminate; exact Hmx).
  pose proof (le32_range buf a Hwf ltac:(lia) ltac:(lia)) as R.
  destruct (site_rtinit_loop m rho h buf a Hm Hwf Ha ltac:(lia) ltac:(lia) ltac:(nums; lia) ltac:(lia)) as (Hc & Hu0 & _).
  assert (Hrd : rd_le rd 4 a = Done (le32 buf a)) by (apply (rd_le32 buf rd (agrees_strict buf)); lia).
  rewrite the_loop_shape.
  destruct (Z.eqb_spec (Z.land (le32 buf a) bit31) 0) as [Hz | Hnz].
  - (* the word has no EXT bit: the loop ends *)
    apply (wp_mono (S K)); [lia | ].
    apply wp_loop_exit; [rewrite Hc, Hz; reflexivity | ].
    apply (Hok a rho tr); try assumption.
    cbn [ext_chain]. fold rd. rewrite Hrd. cbn [bind]. rewrite Hz. reflexivity.
  - apply (wp_mono (S (K + 8 * n + 6))); [lia | ].
    apply wp_loop_enter with (v := Z.land (le32 buf a) bit31); [exact Hc | exact Hnz | ].
    apply (wp_mono 6); [lia | ].
    apply wp_set with (v := h + (a + 4)); [exact Hu0 | ].
    set (rho1 := upd rho "iterator->_arg" (h + (a + 4))).
    assert (Hsame1 : same_but_arg rho1 rho0).
    { intros y Hy. unfold rho1, upd. destruct (String.eqb_spec y "iterator->_arg"); [contradiction | apply Hsame; exact Hy]. }
    assert (Ha1 : rho1 "iterator->_arg" = h + (a + 4)) by reflexivity.
    assert (Hrt1 : rho1 "iterator->_rtheader" = h) by (rewrite Hsame1 by discriminate; exact Hrt).
    assert (Hmx1 : rho1 "iterator->_max_length" = mx) by (rewrite Hsame1 by discriminate; exact Hmx).
    destruct (site_rtinit_bound m rho1 h (a + 4) mx Hrt1 Ha1 Hmx1 ltac:(lia) ltac:(lia) ltac:(nums; lia) ltac:(nums; lia))
      as (_ & _ & Hc5 & Hr4).
    assert (Hmodel : ext_chain rd (S n) a mx =
                     if mx <? a + 4 + 4 then Done (Err (- EINVAL)) else ext_chain rd n (a + 4) mx).
    { cbn [ext_chain]. fold rd. rewrite Hrd. cbn [bind].
      destruct (Z.eqb_spec (Z.land (le32 buf a) bit31) 0); [contradiction | reflexivity]. }
    destruct (Z.ltb_spec mx (a + 4 + 4)) as [Hover | Hin].
    + (* the next word would end beyond it_len: -EINVAL *)
      apply wp_if_ret with (v := 1) (w := - EINVAL); [exact Hc5 | discriminate | exact Hr4 | ].
      apply Herr. exact Hmodel.
    + apply wp_if_skip; [exact Hc5 | ].
      apply wp_call with (vs := [le32 buf (a + 4)]); [apply evals_arg_load; [exact Ha1 | lia | lia] | ].
      apply wp_nil.
      apply (wp_mono 1); [lia | ]. apply wp_nil. cbn [kont].
      apply (wp_mono (K + 8 * n + 1)); [lia | ].
      rewrite <- the_loop_shape.
      apply (IH (a + 4) rho1); try assumption; try lia.
      * intros a' rho' tr' He. apply Hok. rewrite Hmodel. exact He.
      * intros c rho' tr' He. apply Herr. rewrite Hmodel. exact He.
Qed.

(* ---------------------------------------------------------------- the whole routine *)
Theorem code_rtinit_refines_model rho vns rns :
  rho "max_length" = zlen buf -> rho "radiotap_header" = h ->
  (1 <= zlen buf -> rho "radiotap_header->it_version" = znth buf 0) ->
  rho "&radiotap_header->it_len" = h + off_ieee80211_radiotap_header__it_len ->
  rho "&radiotap_header->it_present" = h + off_ieee80211_radiotap_header__it_present ->
  rho "vns" = vns -> rho "&radiotap_ns" = rns -> 0 <= vns < 2 ^ 64 -> 0 <= rns < 2 ^ 64 ->
  wp (60 + 8 * Z.to_nat (zlen buf)) m rho [] body_ieee80211_radiotap_iterator_init
     (fun o => match rt_init rd (zlen buf) with
               | Done (Err c) => exists rho1 tr1, o = Returned (Some c) rho1 tr1
               | Done (Ok it) => exists rho1 tr1, o = Returned (Some 0) rho1 tr1 /\ rtinit_fields rho1 h rns vns it
               | _ => False
               end).
Proof.
  intros Hmx Hhd Hver Hal Hap Hvns Hrns Rv Rr. nums.
  pose proof (zlen_nonneg buf) as Hl0.
  unfold rt_init. change sizeof_ieee80211_radiotap_header with 8.
  unfold body_ieee80211_radiotap_iterator_init.
  set (K := (8 * Z.to_nat (zlen buf))%nat).
  destruct (site_rtinit_if0 m rho (zlen buf) Hmx ltac:(nums; lia)) as (Hc0 & Hr0).
  change sizeof_ieee80211_radiotap_header with 8 in Hc0.
  destruct (Z.ltb_spec (zlen buf) 8) as [Hshort | Hlong].
  { apply (wp_mono 2); [lia | ].
    apply wp_if_ret with (v := 1) (w := - EINVAL); [exact Hc0 | discriminate | exact Hr0 | ].
    eexists _, _. reflexivity. }
  apply wp_if_skip; [exact Hc0 | ].
  (* version *)
  specialize (Hver ltac:(lia)).
  pose proof (wfbytes_znth buf 0 Hwf ltac:(lia)) as Rver.
  destruct (site_rtinit_if1 m rho (znth buf 0) Hver Rver) as (Hc1 & Hr1).
  unfold rd at 1. rewrite (rd_strict_in buf 0) by lia. cbn [bind].
  destruct (Z.eqb_spec (znth buf 0) 0) as [Hv0 | Hvn]; cbn [negb].
  2:{ apply (wp_mono 2); [lia | ].
      apply wp_if_ret with (v := znth buf 0) (w := - EINVAL); [exact Hc1 | exact Hvn | exact Hr1 | ].
      eexists _, _. reflexivity. }
  apply wp_if_skip; [eapply eq_trans; [exact Hc1 | f_equal; exact Hv0] | ].
  (* it_len *)
  destruct (site_rtinit_it_len m rho h buf (zlen buf) Hm Hwf Hal Hmx ltac:(nums; lia) ltac:(lia) ltac:(nums; lia)) as (Hc2 & Hr2 & Hs2).
  pose proof (le16_range buf 2 Hwf ltac:(lia) ltac:(lia)) as R16.
  pose proof (le32_range buf 4 Hwf ltac:(lia) ltac:(lia)) as R32.
  assert (Hld16 : evals rho m [CLoad (mkty false 16) (CVar u64 "&radiotap_header->it_len")] = Some [le16 buf 2]).
  { cbn [evals ceval]. rewrite Hal. change off_ieee80211_radiotap_header__it_len with 2. unfold u64. wrap_ids. cbv beta iota.
    rewrite (ld16 m h buf) by (apply Hm || lia). cbv beta iota. wrap_ids. reflexivity. }
  apply wp_call with (vs := [le16 buf 2]); [exact Hld16 | ].
  unfold rd at 1. rewrite (rd_le16 buf (rd_strict buf) (agrees_strict buf)) by lia. cbn [bind].
  destruct (Z.ltb_spec (zlen buf) (le16 buf 2)) as [Hbig | Hfit].
  { apply (wp_mono 2); [lia | ].
    apply wp_if_ret with (v := 1) (w := - EINVAL); [exact Hc2 | discriminate | exact Hr2 | ].
    eexists _, _. reflexivity. }
  apply wp_if_skip; [exact Hc2 | ].
  unfold rd at 1. rewrite (rd_le32 buf (rd_strict buf) (agrees_strict buf)) by lia. cbn [bind].
  (* the assignments *)
  apply wp_set with (v := h); [ceval_unfold; rewrite Hhd; wrap_ids; reflexivity | ].
  apply wp_call with (vs := [le16 buf 2]); [exact Hld16 | ].
  apply wp_set with (v := le16 buf 2); [exact Hs2 | ].
  apply wp_set with (v := 0); [reflexivity | ].
  assert (Hld32 : evals rho m [CLoad (mkty false 32) (CVar u64 "&radiotap_header->it_present")] = Some [le32 buf 4]).
  { cbn [evals ceval]. rewrite Hap. change off_ieee80211_radiotap_header__it_present with 4. unfold u64. wrap_ids. cbv beta iota.
    rewrite (ld32 m h buf) by (apply Hm || lia). cbv beta iota. wrap_ids. reflexivity. }
  apply wp_call with (vs := [le32 buf 4]); [exact Hld32 | ].
  destruct (site_rtinit_present m rho h buf Hm Hwf Hap ltac:(nums; lia) ltac:(lia)) as (Hsh & Hnb).
  apply wp_set with (v := le32 buf 4); [exact Hsh | ].
  apply wp_set with (v := h + 8); [ceval_unfold; rewrite Hhd; wrap_ids; reflexivity | ].
  apply wp_set with (v := 0); [reflexivity | ].
  apply wp_set with (v := h + 4); [exact Hnb | ].
  apply wp_set with (v := h + 4 + 4); [ceval_unfold; wrap_ids; reflexivity | ].
  apply wp_set with (v := vns); [ceval_unfold; rewrite Hvns; wrap_ids; reflexivity | ].
  apply wp_set with (v := rns); [ceval_unfold; rewrite Hrns; wrap_ids; reflexivity | ].
  apply wp_set with (v := 1); [reflexivity | ].
  match goal with |- wp _ _ ?r _ _ _ => set (rho0 := r) end.
  assert (E_rt : rho0 "iterator->_rtheader" = h) by reflexivity.
  assert (E_mx : rho0 "iterator->_max_length" = le16 buf 2) by reflexivity.
  assert (E_sh : rho0 "iterator->_bitmap_shifter" = le32 buf 4) by reflexivity.
  assert (E_arg : rho0 "iterator->_arg" = h + 8) by reflexivity.
  pose proof (site_rtinit_if3 m rho0 (le32 buf 4) E_sh ltac:(nums; lia)) as Hc3.
  set (itlen := le16 buf 2) in *. set (present := le32 buf 4) in *.
  (* the final two statements, from any environment that differs from rho0 in _arg only *)
  assert (Hfinal : forall a rho' tr', same_but_arg rho' rho0 -> rho' "iterator->_arg" = h + a -> 0 <= a -> h + a < 2 ^ 62 ->
            wp 3 m rho' tr' [SSet "set:iterator->this_arg#0" "iterator->this_arg" (site INIT "set:iterator->this_arg#0");
                             SRet "ret#5" (Some (site INIT "ret#5"))]
              (fun o => exists rho1 tr1, o = Returned (Some 0) rho1 tr1 /\
                 rtinit_fields rho1 h rns vns {| r_max := itlen; r_idx := 0; r_shift := present; r_arg := Some a;
                     r_nextbm := 8; r_reset := false; r_ns := true; r_nnd := None |})).
  { intros a rho' tr' Hs Ha Ha0 Hab. nums.
    apply wp_set with (v := h + a); [site_unfold sites_ieee80211_radiotap_iterator_init; rewrite Ha; wrap_ids; reflexivity | ].
    apply wp_ret with (v := 0); [reflexivity | ].
    eexists _, _. split; [reflexivity | ].
    unfold rtinit_fields. cbn [r_max r_idx r_shift r_arg r_nextbm r_reset r_ns b2z].
    repeat split; try (env_red; rewrite Hs by discriminate; reflexivity).
    - exists a. split; [reflexivity | split; [env_red; exact Ha | reflexivity]].
    - env_red. rewrite Hs by discriminate. unfold rho0. env_red. cbn [r_nextbm]. lia. }
  destruct (Z.eqb_spec (Z.land present bit31) 0) as [Hnoext | Hext].
  - apply (wp_mono (S (S 3))); [lia | ].
    apply wp_if_skip; [eapply eq_trans; [exact Hc3 | f_equal; exact Hnoext] | ].
    apply (wp_mono 3); [lia | ].
    apply (Hfinal 8 rho0); [intros y _; reflexivity | exact E_arg | lia | nums; lia].
  - apply wp_if_true with (v := Z.land present bit31); [exact Hc3 | exact Hext | ].
    destruct (site_rtinit_bound m rho0 h 8 itlen E_rt E_arg E_mx ltac:(lia) ltac:(lia) ltac:(nums; lia) ltac:(nums; lia))
      as (Hc4 & Hr4 & _).
    change (8 + 4) with 12 in *.
    destruct (Z.ltb_spec itlen 12) as [Hsmall | Hroom].
    { apply (wp_mono 2); [lia | ].
      apply wp_if_ret with (v := 1) (w := - EINVAL); [exact Hc4 | discriminate | exact Hr4 | ].
      cbn [kont]. eexists _, _. reflexivity. }
    apply wp_if_skip; [exact Hc4 | ].
    apply wp_call with (vs := [le32 buf 8]); [apply evals_arg_load; [exact E_arg | lia | lia] | ].
    apply (wp_mono (6 + 8 * (Z.to_nat itlen + 1) + 1)); [subst K; lia | ].
    change (nth 2 _ SBreak) with the_loop.
    refine (ext_loop _ _ 6 itlen rho0 E_rt E_mx ltac:(lia) (Z.to_nat itlen + 1) 8 rho0 _ _ E_arg _ _ _ _ _);
      [intros y _; reflexivity | lia | lia | lia | | ].
    + intros a' rho' tr' He Hs Ha' Ha8 Hfit'. fold rd in He. rewrite He.
      destruct (site_rtinit_loop m rho' h buf a' Hm Hwf Ha' ltac:(lia) ltac:(lia) ltac:(nums; lia) ltac:(lia)) as (_ & _ & Hu1).
      apply wp_set with (v := h + (a' + 4)); [exact Hu1 | ].
      apply wp_nil. cbn [kont].
      apply (wp_mono 3); [lia | ].
      apply (Hfinal (a' + 4)); [ | reflexivity | lia | nums; lia].
      intros y Hy. unfold upd. destruct (String.eqb_spec y "iterator->_arg"); [contradiction | apply Hs; exact Hy].
    + intros c rho' tr' He. fold rd in He. rewrite He. cbn [kont]. eexists _, _. reflexivity.
Qed.

End Init.

Print Assumptions code_rtinit_refines_model.

(* ---------------------------------------------------------------- safety / purity corollary, in ANY memory that holds the header
   With any fuel from 60 + 8 * length on, and whatever lies around the buffer, the run of the translated routine ends by returning
   the model's answer: 0 exactly when rt_init accepts, its negative code otherwise.  (C01: returns for every byte string, reading
   only the buffer; C13: the answer does not depend on the surroundings.) *)
From LW Require Import Proofs.MemExt.

Theorem code_rtinit_returns_model_anywhere M buf h rho vns rns F :
  mem_agrees M h buf ->
  wfbytes buf -> 0 < h -> h + zlen buf < 2 ^ 62 -> zlen buf < 2 ^ 31 ->
  rho "max_length" = zlen buf -> rho "radiotap_header" = h ->
  (1 <= zlen buf -> rho "radiotap_header->it_version" = znth buf 0) ->
  rho "&radiotap_header->it_len" = h + off_ieee80211_radiotap_header__it_len ->
  rho "&radiotap_header->it_present" = h + off_ieee80211_radiotap_header__it_present ->
  rho "vns" = vns -> rho "&radiotap_ns" = rns -> 0 <= vns < 2 ^ 64 -> 0 <= rns < 2 ^ 64 ->
  (60 + 8 * Z.to_nat (zlen buf) <= F)%nat ->
  exists v rho1 tr1, exec F M rho [] body_ieee80211_radiotap_iterator_init = Returned (Some v) rho1 tr1 /\
    match rt_init (rd_strict buf) (zlen buf) with
    | Done (Err c) => v = c
    | Done (Ok _) => v = 0
    | _ => False
    end.
Proof.
  intros HM Hwf Hh Hend Hlen H1 H2 H3 H4 H5 H6 H7 H8 H9 HF.
  pose proof (wp_exec _ F _ _ _ _ _ HF
                (code_rtinit_refines_model buf h Hwf Hh Hend Hlen rho vns rns H1 H2 H3 H4 H5 H6 H7 H8 H9)) as HQ.
  cbv beta in HQ.
  destruct (rt_init (rd_strict buf) (zlen buf)) as [[it | c] | k at_ | ]; try contradiction.
  - destruct HQ as (rho1 & tr1 & HR & _). exists 0, rho1, tr1. split; [ | reflexivity].
    apply (exec_any_surroundings M h buf F rho [] _ _ HM HR). exact I.
  - destruct HQ as (rho1 & tr1 & HR). exists c, rho1, tr1. split; [ | reflexivity].
    apply (exec_any_surroundings M h buf F rho [] _ _ HM HR). exact I.
Qed.

Print Assumptions code_rtinit_returns_model_anywhere.
