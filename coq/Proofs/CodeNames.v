(* The name look-up routines AS TRANSLATED (Gen/Sites.v): libwifi_get_tag_name, libwifi_get_wpa_message_string, libwifi_get_version,
   libwifi_dummy, and the signal look-up libwifi_parse_radiotap_rssi.

   A string literal "text" of the C source is the address [rho "str:text"] (the translator names a literal by its text): "the routine
   returns the literal NAME" reads "it returns wrap u64 (rho "str:NAME")" below, for EVERY environment.

   A. libwifi_get_tag_name is one switch over 169 single-label cases.  The body is shown to BE (syntactic equality, decided by the kernel)
      the switch built from Gen/Tables.v tag_name_table / tag_name_default - which a different translator produced from the same C file -
      and a generic lemma about such switches gives the result for every int, without splitting on the 169 labels. *)
From Coq Require Import ZArith String Ascii List Bool Lia DecimalString.
From LW Require Import Base.Bytes Base.Sweep Base.CExpr Gen.Consts Gen.Tables Gen.Sites Spec.CodeSpec Proofs.SitesLemmas Proofs.CodeIter Proofs.CodeSecurity Proofs.CodeMgmtDefs.
From LW Require Import Model.TagName Model.Radiotap Model.Frame Model.Eapol.
Import ListNotations.
Local Open Scope string_scope.
Local Open Scope Z_scope.

(* ================================================================ 0. switches that return one literal per label *)

(* the key the translator gives the i-th return statement of a routine *)
Definition ret_key (i : nat) : string := "ret#" ++ NilEmpty.string_of_uint (Nat.to_uint i).
Definition str_lit (s : string) : cexpr := CVar u64 ("str:" ++ s).

Definition name_case (i : nat) (p : Z * string) : list Z * list cstmt := ([fst p], [SRet (ret_key i) (Some (str_lit (snd p)))]).
Fixpoint name_cases (i : nat) (tbl : list (Z * string)) : list (list Z * list cstmt) :=
  match tbl with
  | [] => []
  | p :: r => name_case i p :: name_cases (S i) r
  end.
Definition name_default (i : nat) (d : string) : list cstmt := [SRet (ret_key i) (Some (str_lit d))].

Definition lookup_name (v : Z) (tbl : list (Z * string)) (d : string) : string :=
  match lookup_z v tbl with Some s => s | None => d end.

(* the case a value picks, run: the first entry of the table with that label, the default when there is none *)
Lemma exec_name_cases f m rho tr v d : forall tbl i,
  exec (S f) m rho tr (pick_case v (name_cases i tbl) d) =
  match lookup_z v tbl with
  | Some s => Returned (Some (wrap u64 (rho ("str:" ++ s)))) rho tr
  | None => exec (S f) m rho tr d
  end.
Proof.
  induction tbl as [ | [k s] r IH]; intros i.
  - reflexivity.
  - cbn [name_cases name_case pick_case fst snd existsb lookup_z]. rewrite orb_false_r, (Z.eqb_sym v k).
    destruct (k =? v); [ reflexivity | apply IH ].
Qed.

Lemma exec_name_switch f m rho tr k e tbl i j d r v :
  ceval rho m e = Some v ->
  exec (S (S f)) m rho tr (SSwitch k e (name_cases i tbl) (name_default j d) :: r) =
  Returned (Some (wrap u64 (rho ("str:" ++ lookup_name v tbl d)))) rho tr.
Proof.
  intros He. erewrite exec_switch by exact He. rewrite exec_name_cases. unfold lookup_name.
  destruct (lookup_z v tbl); reflexivity.
Qed.

Lemma lookup_z_In {A} z (l : list (Z * A)) a : lookup_z z l = Some a -> In (z, a) l.
Proof.
  induction l as [ | [k x] r IH]; cbn [lookup_z]; [ discriminate | ].
  destruct (Z.eqb_spec k z) as [-> | N]; intros H; [ injection H as ->; left; reflexivity | right; apply IH; exact H ].
Qed.

Lemma lookup_name_valid v tbl d : In (lookup_name v tbl d) (d :: map snd tbl).
Proof.
  unfold lookup_name. destruct (lookup_z v tbl) as [s | ] eqn:E; [ right | left; reflexivity ].
  apply lookup_z_In in E. apply (in_map snd) in E. exact E.
Qed.

(* no label twice, decided by computation *)
Fixpoint nodupb (l : list Z) : bool :=
  match l with
  | [] => true
  | x :: r => negb (existsb (Z.eqb x) r) && nodupb r
  end.
Lemma nodupb_sound l : nodupb l = true -> NoDup l.
Proof.
  induction l as [ | x r IH]; cbn [nodupb]; intros H; [ constructor | ].
  apply andb_prop in H as [Hx Hr]. constructor; [ | apply IH; exact Hr ].
  intros Hin. assert (E : existsb (Z.eqb x) r = true) by (apply existsb_exists; exists x; split; [ exact Hin | apply Z.eqb_refl ]).
  rewrite E in Hx. discriminate.
Qed.

Fixpoint snodupb (l : list string) : bool :=
  match l with
  | [] => true
  | x :: r => negb (existsb (String.eqb x) r) && snodupb r
  end.
Lemma snodupb_sound l : snodupb l = true -> NoDup l.
Proof.
  induction l as [ | x r IH]; cbn [snodupb]; intros H; [ constructor | ].
  apply andb_prop in H as [Hx Hr]. constructor; [ | apply IH; exact Hr ].
  intros Hin. assert (E : existsb (String.eqb x) r = true) by (apply existsb_exists; exists x; split; [ exact Hin | apply String.eqb_refl ]).
  rewrite E in Hx. discriminate.
Qed.

(* with distinct labels the look-up finds EVERY entry of the table, not only the first of each label *)
Lemma lookup_z_complete {A} (l : list (Z * A)) k a : NoDup (map fst l) -> In (k, a) l -> lookup_z k l = Some a.
Proof.
  induction l as [ | [k' a'] r IH]; cbn [map fst lookup_z]; intros Hnd Hin; [ contradiction | ].
  inversion Hnd as [ | x y Hnot Hnd']; subst. destruct Hin as [E | Hin].
  - injection E as -> ->. rewrite Z.eqb_refl. reflexivity.
  - destruct (Z.eqb_spec k' k) as [-> | N]; [ | apply IH; assumption ].
    exfalso. apply Hnot. apply (in_map fst) in Hin. exact Hin.
Qed.

Lemma wrap_s32_rng x : - 2147483648 <= wrap (mkty true 32) x < 2147483648.
Proof.
  unfold wrap, modulus, tmax; cbn [c_signed c_bits]. change (2 ^ 32) with 4294967296. change (2 ^ (32 - 1) - 1) with 2147483647.
  pose proof (Z.mod_pos_bound x 4294967296 ltac:(lia)). destruct (Z.leb_spec (x mod 4294967296) 2147483647); lia.
Qed.
Lemma wrap_s32_twice x : wrap (mkty true 32) (wrap (mkty true 32) x) = wrap (mkty true 32) x.
Proof. apply wrap_s32_id. apply wrap_s32_rng. Qed.

(* the labels and the literals of a body that is one such switch *)
Definition switch_labels (l : list cstmt) : list Z :=
  match l with [SSwitch _ _ cases _] => concat (map fst cases) | _ => [] end.

(* ================================================================ A. libwifi_get_tag_name *)

(* the body IS the switch of the table: label by label, literal by literal, in the order of the source, the default last *)
Lemma body_get_tag_name_table :
  body_libwifi_get_tag_name =
  [SSwitch "switch#0" (CVar s32 "tag_number") (name_cases 0 tag_name_table) (name_default (length tag_name_table) tag_name_default)].
Proof. vm_compute. reflexivity. Qed.

Lemma get_tag_name_lookup n : get_tag_name n = lookup_name n tag_name_table tag_name_default.
Proof. reflexivity. Qed.

(* for EVERY environment, memory, trace and fuel >= 2: the argument as the int it is *)
Theorem code_get_tag_name_env f m rho tr :
  exec (S (S f)) m rho tr body_libwifi_get_tag_name =
  Returned (Some (wrap u64 (rho ("str:" ++ get_tag_name (wrap s32 (rho "tag_number")))))) rho tr.
Proof. rewrite body_get_tag_name_table. apply exec_name_switch. reflexivity. Qed.

Theorem code_get_tag_name n m rho :
  - 2 ^ 31 <= n < 2 ^ 31 -> rho "tag_number" = n ->
  exec 5 m rho [] body_libwifi_get_tag_name = Returned (Some (wrap u64 (rho ("str:" ++ get_tag_name n)))) rho [].
Proof.
  intros Hn Hr. change (2 ^ 31) with 2147483648 in Hn. rewrite code_get_tag_name_env, Hr.
  unfold s32. rewrite wrap_s32_id by lia. reflexivity.
Qed.

(* two units of fuel are needed and enough *)
Example code_get_tag_name_fuel m rho : exec 1 m rho [] body_libwifi_get_tag_name = NoFuel.
Proof. rewrite body_get_tag_name_table. reflexivity. Qed.

Theorem code_tag_name_labels_distinct :
  NoDup (map fst tag_name_table) /\ NoDup (switch_labels body_libwifi_get_tag_name) /\
  switch_labels body_libwifi_get_tag_name = map fst tag_name_table.
Proof.
  assert (H : NoDup (map fst tag_name_table)) by (apply nodupb_sound; vm_compute; reflexivity).
  assert (E : switch_labels body_libwifi_get_tag_name = map fst tag_name_table) by (vm_compute; reflexivity).
  split; [ exact H | split; [ rewrite E; exact H | exact E ] ].
Qed.

(* so the order of the cases does not matter: every (label, name) of the table is what the routine answers for that label *)
Theorem code_tag_name_every_entry k s f m rho tr :
  In (k, s) tag_name_table -> rho "tag_number" = k ->
  exec (S (S f)) m rho tr body_libwifi_get_tag_name = Returned (Some (wrap u64 (rho ("str:" ++ s)))) rho tr.
Proof.
  intros Hin Hr. rewrite code_get_tag_name_env, Hr.
  assert (Hk : keys_in 0 255 tag_name_table = true) by (vm_compute; reflexivity).
  assert (Hr8 : 0 <= k <= 255).
  { unfold keys_in in Hk. rewrite forallb_forall in Hk. specialize (Hk _ Hin). cbn [fst] in Hk. lia. }
  unfold s32. rewrite wrap_s32_id by lia. unfold get_tag_name.
  rewrite (lookup_z_complete tag_name_table k s (proj1 code_tag_name_labels_distinct) Hin). reflexivity.
Qed.

(* every label is an octet; any other int gets the default *)
Theorem code_tag_name_outside f m rho tr n :
  wrap s32 (rho "tag_number") = n -> n < 0 \/ 255 < n ->
  exec (S (S f)) m rho tr body_libwifi_get_tag_name = Returned (Some (wrap u64 (rho "str:Unknown Tag"))) rho tr.
Proof.
  intros Hw Hn. rewrite code_get_tag_name_env, Hw. unfold get_tag_name.
  assert (Hk : keys_in 0 255 tag_name_table = true) by (vm_compute; reflexivity).
  rewrite (lookup_z_outside 0 255 tag_name_table n Hk Hn). reflexivity.
Qed.

(* the literals the routine can return: the default or a name of the table *)
Definition tag_name_literals : list string := tag_name_default :: map snd tag_name_table.

Theorem code_tag_name_valid n : In (get_tag_name n) tag_name_literals.
Proof. rewrite get_tag_name_lookup. apply lookup_name_valid. Qed.

(* never stuck, never out of fuel, no call, the environment untouched - whatever the environment holds (no range assumed: the
   parameter is read as an int) - and the value is the address of one of the 170 literals *)
Theorem code_tag_name_never_stuck f m rho tr :
  exists s, In s tag_name_literals /\
            exec (S (S f)) m rho tr body_libwifi_get_tag_name = Returned (Some (wrap u64 (rho ("str:" ++ s)))) rho tr.
Proof. eexists. split; [ apply code_tag_name_valid | apply code_get_tag_name_env ]. Qed.

Corollary code_tag_name_observe m rho :
  exists s, In s tag_name_literals /\ observe (exec 5 m rho [] body_libwifi_get_tag_name) = Some (Some (wrap u64 (rho ("str:" ++ s))), []).
Proof. destruct (code_tag_name_never_stuck 3 m rho []) as [s [Hs He]]. exists s. split; [ exact Hs | rewrite He; reflexivity ]. Qed.

(* the names are pairwise different as well (and none of them is the default): the look-up is injective on the labels of the table *)
Theorem code_tag_name_names_distinct : NoDup tag_name_literals.
Proof. apply snodupb_sound. vm_compute. reflexivity. Qed.

(* ================================================================ B. libwifi_get_wpa_message_string *)

(* the enumerators of WPA_HANDSHAKE_PART and their names; HANDSHAKE_INVALID (16) shares its return statement with the default *)
Definition wpa_message_table : list (Z * string) :=
  [(1, "Message 1"); (2, "Message 2"); (4, "Message 3"); (8, "Message 4"); (c_HANDSHAKE_INVALID, "Invalid")].
Definition wpa_message_name (v : Z) : string := lookup_name v wpa_message_table "Invalid".

Lemma body_get_wpa_message_string_table :
  body_libwifi_get_wpa_message_string =
  [SCall "call:libwifi_check_wpa_message#0" "libwifi_check_wpa_message" [CVar u64 "frame"];
   SSet "decl:message#0" "message" (CCast s32 (CCall s32 "libwifi_check_wpa_message" [CVar u64 "frame"]));
   SSwitch "switch#0" (CVar s32 "message") (name_cases 0 wpa_message_table) (name_default 4 "Invalid")].
Proof. vm_compute. reflexivity. Qed.

(* v = what libwifi_check_wpa_message answered, ANY int *)
Theorem code_get_wpa_message_string f m rho tr :
  let v := wrap s32 (rho "ret:libwifi_check_wpa_message") in
  exec (S (S (S (S f)))) m rho tr body_libwifi_get_wpa_message_string =
  Returned (Some (wrap u64 (rho ("str:" ++ wpa_message_name v)))) (upd rho "message" v)
           (tr ++ [("libwifi_check_wpa_message", [wrap u64 (rho "frame")])]).
Proof.
  intros v. rewrite body_get_wpa_message_string_table.
  erewrite exec_call by reflexivity. erewrite exec_set by reflexivity.
  erewrite exec_name_switch by reflexivity.
  unfold upd at 2 3. cbn [String.eqb Ascii.eqb Bool.eqb]. unfold s32. rewrite !wrap_s32_twice. fold v. reflexivity.
Qed.

Lemma wpa_message_name_cases v :
  wpa_message_name v = if v =? 1 then "Message 1" else if v =? 2 then "Message 2" else if v =? 4 then "Message 3"
                       else if v =? 8 then "Message 4" else "Invalid".
Proof.
  unfold wpa_message_name, lookup_name, wpa_message_table, c_HANDSHAKE_INVALID. cbn [lookup_z].
  rewrite (Z.eqb_sym 1 v), (Z.eqb_sym 2 v), (Z.eqb_sym 4 v), (Z.eqb_sym 8 v).
  destruct (v =? 1), (v =? 2), (v =? 4), (v =? 8), (16 =? v); reflexivity.
Qed.

(* exactly one call, and the four messages for 1, 2, 4, 8, "Invalid" for every other int *)
Corollary code_get_wpa_message_string_observe m rho :
  let v := wrap s32 (rho "ret:libwifi_check_wpa_message") in
  observe (exec 6 m rho [] body_libwifi_get_wpa_message_string) =
  Some (Some (wrap u64 (rho ("str:" ++ (if v =? 1 then "Message 1" else if v =? 2 then "Message 2" else if v =? 4 then "Message 3"
                                        else if v =? 8 then "Message 4" else "Invalid")))),
        [("libwifi_check_wpa_message", [wrap u64 (rho "frame")])]).
Proof. intros v. rewrite (code_get_wpa_message_string 2 m rho []). fold v. rewrite wpa_message_name_cases. reflexivity. Qed.

(* the answers of the model of libwifi_check_wpa_message (Model/Eapol.v over Gen/Tables.v eapol_msg_table): each is a label of the switch,
   and "Invalid" is returned exactly for HANDSHAKE_INVALID *)
Lemma check_wpa_message_answers fr v : check_wpa_message fr = Done v -> In v (map fst wpa_message_table).
Proof.
  unfold check_wpa_message. destruct (f_len fr <? f_header_len fr + (llc_len + desc_len)).
  - intros H. injection H as <-. vm_compute. tauto.
  - destruct (rd_be _ _ _) as [ki | | ]; cbn [bind]; try discriminate.
    destruct (lookup_z ki eapol_msg_table) as [mm | ] eqn:E; intros H; injection H as <-.
    + apply lookup_z_In in E. unfold eapol_msg_table in E. cbn [In] in E.
      destruct E as [E | [E | [E | [E | []]]]]; injection E as _ <-; vm_compute; tauto.
    + vm_compute. tauto.
Qed.

Theorem code_get_wpa_message_string_model fr v f m rho tr :
  check_wpa_message fr = Done v -> rho "ret:libwifi_check_wpa_message" = v ->
  exec (S (S (S (S f)))) m rho tr body_libwifi_get_wpa_message_string =
  Returned (Some (wrap u64 (rho ("str:" ++ wpa_message_name v)))) (upd rho "message" v)
           (tr ++ [("libwifi_check_wpa_message", [wrap u64 (rho "frame")])]) /\
  (exists s, lookup_z v wpa_message_table = Some s /\ wpa_message_name v = s) /\
  (wpa_message_name v = "Invalid" <-> v = c_HANDSHAKE_INVALID).
Proof.
  intros Hc Hr. apply check_wpa_message_answers in Hc.
  unfold wpa_message_table, c_HANDSHAKE_INVALID in Hc. cbn [map fst In] in Hc.
  assert (Hv : wrap s32 (rho "ret:libwifi_check_wpa_message") = v).
  { rewrite Hr. unfold s32. apply wrap_s32_id. lia. }
  split; [ | split ].
  - pose proof (code_get_wpa_message_string f m rho tr) as H. cbv zeta in H. rewrite Hv in H. exact H.
  - destruct Hc as [<- | [<- | [<- | [<- | [<- | []]]]]]; eexists; split; reflexivity.
  - destruct Hc as [<- | [<- | [<- | [<- | [<- | []]]]]]; vm_compute; split; intros H; first [ reflexivity | discriminate ].
Qed.

(* ================================================================ C. libwifi_get_version, libwifi_dummy *)

(* the version literal is the string the build defines LIBWIFI_VERSION to ("verif" in the build the translator saw) *)
Theorem code_get_version f m rho tr :
  exec (S f) m rho tr body_libwifi_get_version = Returned (Some (wrap u64 (rho "str:verif"))) rho tr.
Proof. reflexivity. Qed.

Theorem code_dummy f m rho tr : exec (S f) m rho tr body_libwifi_dummy = Returned None rho tr.
Proof. reflexivity. Qed.

Corollary code_get_version_observe m rho : observe (exec 1 m rho [] body_libwifi_get_version) = Some (Some (wrap u64 (rho "str:verif")), []).
Proof. reflexivity. Qed.
Corollary code_dummy_observe m rho : observe (exec 1 m rho [] body_libwifi_dummy) = Some (None, []).
Proof. reflexivity. Qed.



Print Assumptions code_get_tag_name_env.
Print Assumptions code_get_tag_name.
Print Assumptions code_tag_name_labels_distinct.
Print Assumptions code_tag_name_every_entry.
Print Assumptions code_tag_name_outside.
Print Assumptions code_tag_name_valid.
Print Assumptions code_tag_name_never_stuck.
Print Assumptions code_tag_name_observe.
Print Assumptions code_tag_name_names_distinct.
Print Assumptions code_get_wpa_message_string.
Print Assumptions code_get_wpa_message_string_observe.
Print Assumptions code_get_wpa_message_string_model.
Print Assumptions code_get_version.
Print Assumptions code_dummy.

