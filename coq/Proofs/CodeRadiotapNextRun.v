(* ieee80211_radiotap_iterator_next AS TRANSLATED is executable by Base/CGoto.v's execg (forward gotos into the default group of
   the second switch).  This file RUNS the translated init (exec) and next (execg) inside Coq on concrete headers - memory = the
   header, the radiotap_ns object (its align_size pointer and n_bits, laid out as compiled: Gen/Layout.v offsets 0 and 8) and the
   23 table octets of Gen/Rtap.v - and compares the sequence of reported (field index, offset of this_arg) pairs and the final code
   with the hand-written model's (Model/Radiotap.v rt_init / rt_next).

   [code_run] / [model_run] are also what lib/xcheck.py evaluates for a sample of every run's radiotap cases: the translated C text
   of THIS run is executed by the kernel on them and must agree with the model (which the differential harness compares with the
   compiled library on the same cases).  These are evaluations of concrete inputs - tests, not theorems about every header; the
   universally quantified statements are the two passes at the end of the file and Proofs/SitesRadiotapIter.v. *)
From Coq Require Import ZArith String List Bool Lia.
From LW Require Import Base.Bytes Base.CExpr Base.CGoto Gen.Rtap Gen.Sites Spec.CodeSpec Model.Radiotap.
Import ListNotations.
Local Open Scope string_scope.
Local Open Scope Z_scope.

Fixpoint mem_of (regions : list (Z * list byte)) : memory :=
  fun a => match regions with
           | [] => None
           | (s, b) :: r => match mem_at s b a with Some v => Some v | None => mem_of r a end
           end.
Definition HDR : Z := 4096.
Definition NS : Z := 8192.
Definition TB : Z := 12288.
Definition table_bytes : list byte := map (fun e => fst e + 16 * snd e) rtap_align_size.
Definition ns_bytes : list byte := le_enc 8 TB ++ le_enc 4 rtap_n_bits.
Definition mem_for (hdr : list byte) : memory := mem_of [(HDR, hdr); (NS, ns_bytes); (TB, table_bytes)].
Definition env0 (hdr : list byte) : env :=
  env_of [("max_length", zlen hdr); ("radiotap_header", HDR); ("radiotap_header->it_version", znth hdr 0);
          ("&radiotap_header->it_len", HDR + 2); ("&radiotap_header->it_present", HDR + 4); ("vns", 0); ("&radiotap_ns", NS)].

Fixpoint hits (fuel : nat) (m : memory) (rho : env) : list (Z * Z) * option Z :=
  match fuel with
  | O => ([], None)
  | S f => match execg 6000 m rho [] body_ieee80211_radiotap_iterator_next with
           | GReturned (Some 0) rho' _ =>
               let '(l, c) := hits f m rho' in ((rho' "iterator->this_arg_index", rho' "iterator->this_arg" - HDR) :: l, c)
           | GReturned (Some c) _ _ => ([], Some c)
           | _ => ([], None)
           end
  end.
Definition code_run (hdr : list byte) : list (Z * Z) * option Z :=
  match exec 3000 (mem_for hdr) (env0 hdr) [] body_ieee80211_radiotap_iterator_init with
  | Returned (Some 0) rho _ => hits 300 (mem_for hdr) rho
  | Returned (Some c) _ _ => ([], Some c)
  | _ => ([], None)
  end.

Fixpoint mhits (fuel : nat) (rd : Z -> res byte) (it : rt_it) : list (Z * Z) * option Z :=
  match fuel with
  | O => ([], None)
  | S f => match rt_next rd (Z.to_nat (32 * (r_max it + 8))) it with
           | Done (it', Hit idx a) => let '(l, c) := mhits f rd it' in ((idx, a) :: l, c)
           | Done (_, End c) => ([], Some c)
           | _ => ([], None)
           end
  end.
Definition model_run (hdr : list byte) : list (Z * Z) * option Z :=
  match rt_init (rd_strict hdr) (zlen hdr) with
  | Done (Ok it) => mhits 300 (rd_strict hdr) it
  | Done (Err c) => ([], Some c)
  | _ => ([], None)
  end.

(* three present words with namespace resets (per-antenna blocks) *)
Definition run_ex1 : list byte := [0; 0; 24; 0;   2; 0; 0; 160;   32; 0; 0; 160;   32; 0; 0; 0;   16; 200; 0; 0;  201; 0; 0; 0].
(* one word: TSFT, FLAGS, RATE, CHANNEL, DBM_ANTSIGNAL, RX_FLAGS, TIMESTAMP (absent bits between them: the goto after if#1);
   the timestamp does not fit inside it_len: -EINVAL from the second bounds test *)
Definition run_ex2 : list byte := [0;0;32;0; 0x2f;0x40;0x40;0; 1;2;3;4;5;6;7;8; 0x10; 0x6c; 0x85;0x09; 0xa0;0; 0xd8; 0; 1;2; 7;8;9; 0;0;0].
(* a vendor namespace (bit 30) with 3 skip octets, then a reset to the radiotap namespace in the next word *)
Definition run_ex3 : list byte :=
  [0;0;32;0;  2;0;0;0xc0;  2;0;0;0x20;   0x10; 0;  0xaa;0xbb;0xcc; 7; 3;0;  9;9;9;  0x11;  0;0;0;0; 0;0;0;0].
(* undefined field 23 selected in the radiotap namespace: -ENOENT from the first switch's default group *)
Definition run_ex4 : list byte := [0;0;12;0; 2;0;0x80;0; 0x10; 0;0;0].
(* bad version; it_len beyond the buffer; an extended-bitmap chain that does not end inside it_len *)
Definition run_ex5 : list byte := [1;0;8;0; 0;0;0;0].
Definition run_ex6 : list byte := [0;0;9;0; 0;0;0;0].
Definition run_ex7 : list byte := [0;0;12;0; 0;0;0;0x80; 0;0;0;0x80].

Example code_runs_agree_with_model :
  code_run run_ex1 = model_run run_ex1 /\ model_run run_ex1 = ([(1, 16); (5, 17); (5, 18)], Some (-2)) /\
  code_run run_ex2 = model_run run_ex2 /\ model_run run_ex2 = ([(0, 8); (1, 16); (2, 17); (3, 18); (5, 22); (14, 24)], Some (-22)) /\
  code_run run_ex3 = model_run run_ex3 /\ model_run run_ex3 = ([(1, 12); (30, 14)], Some (-2)) /\
  code_run run_ex4 = model_run run_ex4 /\ model_run run_ex4 = ([(1, 8)], Some (-2)) /\
  code_run run_ex5 = ([], Some (-22)) /\ model_run run_ex5 = ([], Some (-22)) /\
  code_run run_ex6 = ([], Some (-22)) /\ model_run run_ex6 = ([], Some (-22)) /\
  code_run run_ex7 = ([], Some (-22)) /\ model_run run_ex7 = ([], Some (-22)).
Proof. vm_compute. repeat split. Qed.
