(* libwifi_frame_verify and libwifi_calculate_fcs AS TRANSLATED: the whole routine, with the received FCS loaded from the frame's
   last four octets.  Composed with Proofs/CodeCRC.v (the callee's result) this is the property's "yes exactly when the last four
   octets are the FCS of the octets before them", from the C text of this run. *)
From Coq Require Import ZArith String List Bool Lia.
From LW Require Import Base.Bytes Base.CExpr Gen.Sites Spec.CodeSpec Proofs.SitesLemmas Proofs.CodeIter Model.CRC Proofs.CodeCRC.
Import ListNotations.
Local Open Scope string_scope.
Local Open Scope Z_scope.

(* what the caller sees of libwifi_frame_verify(frame, frame_len), whatever libwifi_calculate_fcs answers (c) and whatever four
   octets end the frame (o, little-endian) *)
Theorem code_frame_verify_exec m rho frame len o :
  0 < frame -> 0 <= len -> frame + len < 2 ^ 62 -> 0 <= o < 2 ^ 32 ->
  (4 <= len -> load_le m (frame + (len - 4)) (Z.to_nat (32 / 8)) = Some o) ->
  let rho0 := upd (upd rho "frame" frame) "frame_len" len in
  let c := wrap u32 (rho "ret:libwifi_calculate_fcs") in
  observe (exec 30 m rho0 [] body_libwifi_frame_verify) =
    if len <? 4 then Some (Some 0, [])
    else Some (Some (b2z (c =? o)),
               [("memcpy", [wrap u64 (rho "&oCRC"); frame + (len - 4); 4]); ("libwifi_calculate_fcs", [frame; len - 4])]).
Proof.
  intros Hf Hlen Hend Ho Hld rho0 c. subst c.
  change (2 ^ 62) with 4611686018427387904 in *. change (2 ^ 32) with 4294967296 in *.
  unfold body_libwifi_frame_verify, rho0.
  erewrite exec_if_b2z by ceval_now.
  destruct (Z.ltb_spec len 4) as [Hshort | Hlong].
  - exec_steps. reflexivity.
  - specialize (Hld Hlong).
    erewrite exec_set by ceval_now.
    erewrite exec_call by ceval_now.
    erewrite exec_set.
    2:{ ceval_unfold. wrap_ids. rewrite Hld. wrap_ids. reflexivity. }
    erewrite exec_call by ceval_now.
    erewrite exec_set by (ceval_unfold; wrap_ids; reflexivity).
    set (c := wrap (mkty false 32) (rho "ret:libwifi_calculate_fcs")).
    assert (Hc : 0 <= c < 4294967296).
    { unfold c, wrap, modulus; cbn [c_signed c_bits]. apply Z.mod_pos_bound. reflexivity. }
    erewrite exec_if_b2z.
    2:{ ceval_unfold. fold c. wrap_ids. reflexivity. }
    destruct (Z.eqb_spec c o) as [Heq | Hne].
    + exec_steps. cbn [observe app]. change (wrap u32 (rho "ret:libwifi_calculate_fcs")) with c.
      rewrite Heq, Z.eqb_refl. reflexivity.
    + exec_steps. cbn [observe app]. change (wrap u32 (rho "ret:libwifi_calculate_fcs")) with c.
      destruct (Z.eqb_spec c o) as [Heq | _]; [contradiction | reflexivity].
Qed.

(* libwifi_calculate_fcs(frame, n) hands (frame, (int) n) to libwifi_crc32 and returns its answer unchanged (BYTESWAP32 is the identity on
   this host): with an n below 2^31 the conversion to int keeps the value *)
Theorem code_calculate_fcs_exec m rho frame n :
  0 <= frame < 2 ^ 62 -> 0 <= n < 2 ^ 31 ->
  let rho0 := upd (upd rho "frame" frame) "frame_len" n in
  observe (exec 10 m rho0 [] body_libwifi_calculate_fcs) =
    Some (Some (wrap u32 (rho "ret:libwifi_crc32")), [("libwifi_crc32", [frame; n])]).
Proof.
  intros Hf Hn rho0. change (2 ^ 62) with 4611686018427387904 in *. change (2 ^ 31) with 2147483648 in *.
  unfold body_libwifi_calculate_fcs, rho0. exec_steps. reflexivity.
Qed.

(* the three routines together: with the callee answers being what the callees' own theorems give (libwifi_crc32 on the body:
   Proofs/CodeCRC.v), verification of a frame lying at [frame, frame + len) answers 1 exactly when its last four octets,
   little-endian, are the model's CRC-32 of the octets before them *)
Corollary code_frame_verify_is_fcs_check buf frame rho :
  wfbytes buf -> 0 < frame -> frame + zlen buf < 2 ^ 62 -> 4 <= zlen buf < 2 ^ 31 ->
  rho "ret:libwifi_calculate_fcs" = crc32_list (zfirstn (zlen buf - 4) buf) ->
  0 <= crc32_list (zfirstn (zlen buf - 4) buf) < 2 ^ 32 ->
  let o := znth buf (zlen buf - 4) + 256 * (znth buf (zlen buf - 3) + 256 * (znth buf (zlen buf - 2) + 256 * znth buf (zlen buf - 1))) in
  exists tr,
  observe (exec 30 (mem_at frame buf) (upd (upd rho "frame" frame) "frame_len" (zlen buf)) [] body_libwifi_frame_verify) =
    Some (Some (b2z (crc32_list (zfirstn (zlen buf - 4) buf) =? o)), tr).
Proof.
  intros Hwf Hf Hend Hlen Hret Hrange o.
  change (2 ^ 32) with 4294967296 in *.
  pose proof (wfbytes_znth buf (zlen buf - 4) Hwf ltac:(lia)) as H0.
  pose proof (wfbytes_znth buf (zlen buf - 3) Hwf ltac:(lia)) as H1.
  pose proof (wfbytes_znth buf (zlen buf - 2) Hwf ltac:(lia)) as H2.
  pose proof (wfbytes_znth buf (zlen buf - 1) Hwf ltac:(lia)) as H3.
  assert (Hld : load_le (mem_at frame buf) (frame + (zlen buf - 4)) (Z.to_nat (32 / 8)) = Some o).
  { change (Z.to_nat (32 / 8)) with 4%nat. cbn [load_le].
    rewrite (mem_at_in frame buf (zlen buf - 4)) by lia.
    replace (frame + (zlen buf - 4) + 1) with (frame + (zlen buf - 3)) by lia.
    rewrite (mem_at_in frame buf (zlen buf - 3)) by lia.
    replace (frame + (zlen buf - 3) + 1) with (frame + (zlen buf - 2)) by lia.
    rewrite (mem_at_in frame buf (zlen buf - 2)) by lia.
    replace (frame + (zlen buf - 2) + 1) with (frame + (zlen buf - 1)) by lia.
    rewrite (mem_at_in frame buf (zlen buf - 1)) by lia.
    unfold o. f_equal. lia. }
  assert (Ho : 0 <= o < 2 ^ 32) by (change (2 ^ 32) with 4294967296; unfold o; lia).
  pose proof (code_frame_verify_exec (mem_at frame buf) rho frame (zlen buf) o Hf ltac:(lia) Hend Ho (fun _ => Hld)) as Hx.
  cbv zeta in Hx. rewrite Hx. clear Hx.
  destruct (Z.ltb_spec (zlen buf) 4); [lia | ].
  rewrite Hret. rewrite wrap_u32_id by exact Hrange.
  eexists. reflexivity.
Qed.

Print Assumptions code_frame_verify_exec.
Print Assumptions code_calculate_fcs_exec.
Print Assumptions code_frame_verify_is_fcs_check.
