(* part of the generator theorems (see Proofs/CodeGen.v), split so that the proofs build in parallel *)
From Coq Require Import ZArith String Ascii List Bool Lia.
From LW Require Import Base.CExpr Gen.Consts Gen.Layout Gen.Sites Proofs.SitesLemmas.
Import ListNotations.
Local Open Scope string_scope.
Local Open Scope Z_scope.
From LW Require Import Proofs.CodeGenDefs.

Section WithMemory.
Variable m : memory.

(* ================================================================ 5. the setters the generators of section 4 call
   L = obj->tags.length on entry, p / r / d = what libwifi_check_tag / libwifi_quick_add_tag / libwifi_remove_tag answer,
   n = what strlen(ssid) answers.  With an empty list (L = 0: the state the generators call the first setter in, by the
   [..._before_add] theorems) nothing is looked up and nothing removed: exactly one add, whose answer is returned.
   Otherwise the element is looked up first; a negative answer is returned at once; else the new element is added, a
   non-zero answer of the add is returned, and the OLD element is removed after the add when the look-up found one (the
   answer of the removal is then the routine's).  Only "obj->tags" is handed to the callees: the setters write nothing else. *)
Ltac setter_cases L p r :=
  destruct (Z.eqb_spec L 0) as [EL | NL]; [subst L | ];
  [ | destruct (Z_lt_le_dec p 0) as [Hp | Hp]; [ | destruct (Z.eqb_spec p 0) as [Ep | Np]; [subst p | ] ] ];
  (destruct (Z.eqb_spec r 0) as [Er | Nr]; [subst r | ]).
Ltac setter_solve L p r := setter_cases L p r; decide_bools; cbn [negb]; cbv beta iota; gen_observe.

Definition setter_env (rho : env) (len : string) (L p r d : Z) : env :=
  upd (upd (upd (upd rho len L) "ret:libwifi_check_tag" p) "ret:libwifi_quick_add_tag" r) "ret:libwifi_remove_tag" d.
(* the outcome of a setter: chk = the look-up event, adds = the events of the add, rem = the removal event *)
Definition setter_outcome (L p r d : Z) (chk : event) (adds : list event) (rem : event) : option (option Z * list event) :=
  let pe := if L =? 0 then 0 else p in
  let pre := if L =? 0 then [] else [chk] in
  if pe <? 0 then Some (Some pe, pre)
  else if negb (r =? 0) then Some (Some r, (pre ++ adds)%list)
  else if pe >? 0 then Some (Some d, (pre ++ adds ++ [rem])%list)
  else Some (Some 0, (pre ++ adds)%list).
Definition ev_tag_op (rho : env) (f tags : string) (num : Z) : event := (f, [wrap u64 (rho tags); num]).

Theorem code_set_beacon_ssid rho L p r d n :
  0 <= L < 2 ^ 64 -> - 2 ^ 31 <= p < 2 ^ 31 -> - 2 ^ 31 <= r < 2 ^ 31 -> - 2 ^ 31 <= d < 2 ^ 31 -> 0 <= n < 2 ^ 64 ->
  let rho0 := upd (setter_env rho "beacon->tags.length" L p r d) "ret:strlen" n in
  observe (exec 40 m rho0 [] body_libwifi_set_beacon_ssid) =
    setter_outcome L p r d (ev_tag_op rho "libwifi_check_tag" "&beacon->tags" c_TAG_SSID)
      [("strlen", [wrap u64 (rho "ssid")]); ev_add_tag rho "&beacon->tags" c_TAG_SSID "ssid" n]
      (ev_tag_op rho "libwifi_remove_tag" "&beacon->tags" c_TAG_SSID).
Proof.
  intros HL Hp0 Hr Hd Hn rho0; nums.
  unfold rho0, setter_env, setter_outcome, ev_tag_op, body_libwifi_set_beacon_ssid; clear rho0. setter_solve L p r.
Qed.

Theorem code_set_probe_resp_ssid rho L p r d n :
  0 <= L < 2 ^ 64 -> - 2 ^ 31 <= p < 2 ^ 31 -> - 2 ^ 31 <= r < 2 ^ 31 -> - 2 ^ 31 <= d < 2 ^ 31 -> 0 <= n < 2 ^ 64 ->
  let rho0 := upd (setter_env rho "probe_resp->tags.length" L p r d) "ret:strlen" n in
  observe (exec 40 m rho0 [] body_libwifi_set_probe_resp_ssid) =
    setter_outcome L p r d (ev_tag_op rho "libwifi_check_tag" "&probe_resp->tags" c_TAG_SSID)
      [("strlen", [wrap u64 (rho "ssid")]); ev_add_tag rho "&probe_resp->tags" c_TAG_SSID "ssid" n]
      (ev_tag_op rho "libwifi_remove_tag" "&probe_resp->tags" c_TAG_SSID).
Proof.
  intros HL Hp0 Hr Hd Hn rho0; nums.
  unfold rho0, setter_env, setter_outcome, ev_tag_op, body_libwifi_set_probe_resp_ssid; clear rho0. setter_solve L p r.
Qed.

(* the channel setters: one octet, from the address of the by-value parameter [channel] *)
Theorem code_set_beacon_channel rho L p r d :
  0 <= L < 2 ^ 64 -> - 2 ^ 31 <= p < 2 ^ 31 -> - 2 ^ 31 <= r < 2 ^ 31 -> - 2 ^ 31 <= d < 2 ^ 31 ->
  let rho0 := setter_env rho "beacon->tags.length" L p r d in
  observe (exec 40 m rho0 [] body_libwifi_set_beacon_channel) =
    setter_outcome L p r d (ev_tag_op rho "libwifi_check_tag" "&beacon->tags" c_TAG_DS_PARAMETER)
      [ev_add_tag rho "&beacon->tags" c_TAG_DS_PARAMETER "&channel" 1]
      (ev_tag_op rho "libwifi_remove_tag" "&beacon->tags" c_TAG_DS_PARAMETER).
Proof.
  intros HL Hp0 Hr Hd rho0; nums.
  unfold rho0, setter_env, setter_outcome, ev_tag_op, body_libwifi_set_beacon_channel; clear rho0. setter_solve L p r.
Qed.

Theorem code_set_probe_resp_channel rho L p r d :
  0 <= L < 2 ^ 64 -> - 2 ^ 31 <= p < 2 ^ 31 -> - 2 ^ 31 <= r < 2 ^ 31 -> - 2 ^ 31 <= d < 2 ^ 31 ->
  let rho0 := setter_env rho "probe_resp->tags.length" L p r d in
  observe (exec 40 m rho0 [] body_libwifi_set_probe_resp_channel) =
    setter_outcome L p r d (ev_tag_op rho "libwifi_check_tag" "&probe_resp->tags" c_TAG_DS_PARAMETER)
      [ev_add_tag rho "&probe_resp->tags" c_TAG_DS_PARAMETER "&channel" 1]
      (ev_tag_op rho "libwifi_remove_tag" "&probe_resp->tags" c_TAG_DS_PARAMETER).
Proof.
  intros HL Hp0 Hr Hd rho0; nums.
  unfold rho0, setter_env, setter_outcome, ev_tag_op, body_libwifi_set_probe_resp_channel; clear rho0. setter_solve L p r.
Qed.

Theorem code_set_assoc_resp_channel rho L p r d :
  0 <= L < 2 ^ 64 -> - 2 ^ 31 <= p < 2 ^ 31 -> - 2 ^ 31 <= r < 2 ^ 31 -> - 2 ^ 31 <= d < 2 ^ 31 ->
  let rho0 := setter_env rho "assoc_resp->tags.length" L p r d in
  observe (exec 40 m rho0 [] body_libwifi_set_assoc_resp_channel) =
    setter_outcome L p r d (ev_tag_op rho "libwifi_check_tag" "&assoc_resp->tags" c_TAG_DS_PARAMETER)
      [ev_add_tag rho "&assoc_resp->tags" c_TAG_DS_PARAMETER "&channel" 1]
      (ev_tag_op rho "libwifi_remove_tag" "&assoc_resp->tags" c_TAG_DS_PARAMETER).
Proof.
  intros HL Hp0 Hr Hd rho0; nums.
  unfold rho0, setter_env, setter_outcome, ev_tag_op, body_libwifi_set_assoc_resp_channel; clear rho0. setter_solve L p r.
Qed.

Theorem code_set_reassoc_resp_channel rho L p r d :
  0 <= L < 2 ^ 64 -> - 2 ^ 31 <= p < 2 ^ 31 -> - 2 ^ 31 <= r < 2 ^ 31 -> - 2 ^ 31 <= d < 2 ^ 31 ->
  let rho0 := setter_env rho "reassoc_resp->tags.length" L p r d in
  observe (exec 40 m rho0 [] body_libwifi_set_reassoc_resp_channel) =
    setter_outcome L p r d (ev_tag_op rho "libwifi_check_tag" "&reassoc_resp->tags" c_TAG_DS_PARAMETER)
      [ev_add_tag rho "&reassoc_resp->tags" c_TAG_DS_PARAMETER "&channel" 1]
      (ev_tag_op rho "libwifi_remove_tag" "&reassoc_resp->tags" c_TAG_DS_PARAMETER).
Proof.
  intros HL Hp0 Hr Hd rho0; nums.
  unfold rho0, setter_env, setter_outcome, ev_tag_op, body_libwifi_set_reassoc_resp_channel; clear rho0. setter_solve L p r.
Qed.

(* with an empty list: one add, nothing else *)
Corollary code_set_beacon_ssid_fresh rho p r d n :
  - 2 ^ 31 <= p < 2 ^ 31 -> - 2 ^ 31 <= r < 2 ^ 31 -> - 2 ^ 31 <= d < 2 ^ 31 -> 0 <= n < 2 ^ 64 ->
  observe (exec 40 m (upd (setter_env rho "beacon->tags.length" 0 p r d) "ret:strlen" n) [] body_libwifi_set_beacon_ssid) =
    Some (Some r, [("strlen", [wrap u64 (rho "ssid")]); ev_add_tag rho "&beacon->tags" c_TAG_SSID "ssid" n]).
Proof.
  intros Hp Hr Hd Hn. rewrite (code_set_beacon_ssid rho 0 p r d n) by (assumption || (change (2 ^ 64) with 18446744073709551616; lia)).
  unfold setter_outcome. change (0 =? 0) with true. cbv beta iota. change (0 <? 0) with false. change (0 >? 0) with false. cbv beta iota.
  destruct (Z.eqb_spec r 0) as [E | N]; [subst r | ]; reflexivity.
Qed.

(* ================================================================ 6. the timing advertisement
   destination / transmitter / address3, the time stamp, the defaults (the one-octet measurement pilot interval gets the
   beacon interval's 100), the country by a three-octet copy, the four power figures from the arguments.  All of this is
   done BEFORE the test of adv_fields: with adv_fields == NULL the routine returns -EINVAL leaving a filled object.
   Otherwise the element is assembled in the local array element_data (address e; e + 17 has to stay an address: the
   destinations are pointer sums): the capabilities octet, then by its value tc: 1 -> time value (10) and time error (5);
   2 -> the same and the update counter (1); any other value -> nothing more; and one add of element 69 with the
   length assembled (16 / 17 / 1).  Its answer is the routine's. *)
Definition ta_assigned : list string :=
  ["adv->frame_header.frame_control.type"; "adv->frame_header.frame_control.subtype";
   "adv->fixed_parameters.timestamp"; "adv->fixed_parameters.measurement_pilot_interval";
   "adv->fixed_parameters.beacon_interval"; "adv->fixed_parameters.capabilities_information";
   "adv->fixed_parameters.max_reg_power"; "adv->fixed_parameters.max_tx_power";
   "adv->fixed_parameters.tx_power_used"; "adv->fixed_parameters.noise_floor"].
Definition ta_clobbered : list string :=
  ["adv->frame_header.addr1"; "adv->frame_header.addr2"; "adv->frame_header.addr3"; "adv->fixed_parameters.country"; "adv->tags"].
Definition ta_fields (rho' : env) (now mrp mtp tpu nf : Z) : Prop :=
  rho' "adv->frame_header.frame_control.type" = c_TYPE_MANAGEMENT /\
  rho' "adv->frame_header.frame_control.subtype" = c_SUBTYPE_TIME_ADV /\
  rho' "adv->fixed_parameters.timestamp" = now /\
  rho' "adv->fixed_parameters.measurement_pilot_interval" = c_LIBWIFI_DEFAULT_BEACON_INTERVAL /\
  rho' "adv->fixed_parameters.beacon_interval" = c_LIBWIFI_DEFAULT_BEACON_INTERVAL /\
  rho' "adv->fixed_parameters.capabilities_information" = c_LIBWIFI_DEFAULT_AP_CAPABS /\
  rho' "adv->fixed_parameters.max_reg_power" = mrp /\
  rho' "adv->fixed_parameters.max_tx_power" = mtp /\
  rho' "adv->fixed_parameters.tx_power_used" = tpu /\
  rho' "adv->fixed_parameters.noise_floor" = nf /\
  reads_zero rho' "adv->frame_header." mgmt_rest /\
  untouched "adv->" ta_assigned ta_clobbered rho'.
Definition ta_events (rho : env) : list event :=
  (mgmt_events rho "adv" sizeof_libwifi_timing_advert "destination" "transmitter" "address3" ++
   [("libwifi_get_epoch", []); ev_memcpy rho "&adv->fixed_parameters.country" "country" 3])%list.
Definition ta_args (rho : env) (now mrp mtp tpu nf af : Z) : env :=
  upd (upd (upd (upd (upd (upd rho "ret:libwifi_get_epoch" now) "max_reg_power" mrp) "max_tx_power" mtp)
                "tx_power_used" tpu) "noise_floor" nf) "adv_fields" af.

Theorem code_create_timing_advert_null rho now mrp mtp tpu nf :
  0 <= now < 2 ^ 64 -> 0 <= mrp < 65536 -> 0 <= mtp < 256 -> 0 <= tpu < 256 -> 0 <= nf < 256 ->
  let rho0 := ta_args rho now mrp mtp tpu nf 0 in
  exists rho',
    exec 60 m rho0 [] body_libwifi_create_timing_advert = Returned (Some (-22)) rho' (ta_events rho) /\
    ta_fields rho' now mrp mtp tpu nf.
Proof.
  intros Hnow Hmrp Hmtp Htpu Hnf rho0; nums.
  unfold rho0, ta_args, body_libwifi_create_timing_advert, ta_fields, ta_events, ta_assigned, ta_clobbered; clear rho0.
  gen_finish.
Qed.

Theorem code_create_timing_advert rho now mrp mtp tpu nf af tc e r :
  0 <= now < 2 ^ 64 -> 0 <= mrp < 65536 -> 0 <= mtp < 256 -> 0 <= tpu < 256 -> 0 <= nf < 256 ->
  0 < af < 2 ^ 64 -> 0 <= tc < 256 -> 0 <= e -> e + 17 < 2 ^ 63 -> - 2 ^ 31 <= r < 2 ^ 31 ->
  let rho0 := upd (upd (upd (ta_args rho now mrp mtp tpu nf af) "adv_fields->timing_capabilities" tc) "&element_data" e)
                "ret:libwifi_quick_add_tag" r in
  let copy dst src n : event := ("memcpy", [dst; wrap u64 (rho src); n]) in
  let copies :=
    if tc =? 1 then [copy (e + 1) "&adv_fields->time_value" 10; copy (e + 11) "&adv_fields->time_error" 5]
    else if tc =? 2 then [copy (e + 1) "&adv_fields->time_value" 10; copy (e + 11) "&adv_fields->time_error" 5;
                          copy (e + 16) "&adv_fields->time_update" 1]
    else [] in
  let len := if tc =? 1 then 16 else if tc =? 2 then 17 else 1 in
  exists rho',
    exec 60 m rho0 [] body_libwifi_create_timing_advert =
      Returned (Some r) rho'
        (ta_events rho ++ [copy e "&adv_fields->timing_capabilities" 1] ++ copies ++
         [("libwifi_quick_add_tag", [wrap u64 (rho "&adv->tags"); c_TAG_TIME_ADVERTISEMENT; e; len])]) /\
    ta_fields rho' now mrp mtp tpu nf.
Proof.
  intros Hnow Hmrp Hmtp Htpu Hnf Haf Htc He Hee Hr rho0 copy copies len; nums.
  unfold copies, len, copy, rho0, ta_args, body_libwifi_create_timing_advert, ta_fields, ta_events, ta_assigned, ta_clobbered;
    clear copies len copy rho0.
  gen_prefix.
  destruct (Z.eqb_spec tc 1) as [E1 | N1]; [subst tc | destruct (Z.eqb_spec tc 2) as [E2 | N2]; [subst tc | ]];
    cbv beta iota; gen_finish.
Qed.

(* the object's tags are empty when that add is made (the run up to the add, whatever the capabilities octet) *)
Theorem code_create_timing_advert_before_add rho now mrp mtp tpu nf af tc e :
  0 <= now < 2 ^ 64 -> 0 <= mrp < 65536 -> 0 <= mtp < 256 -> 0 <= tpu < 256 -> 0 <= nf < 256 -> 0 < af < 2 ^ 64 ->
  0 <= tc < 256 -> 0 <= e -> e + 17 < 2 ^ 63 ->
  let rho0 := upd (upd (ta_args rho now mrp mtp tpu nf af) "adv_fields->timing_capabilities" tc) "&element_data" e in
  exists rho1 tr1,
    exec 60 m rho0 [] (firstn 29 body_libwifi_create_timing_advert) = Fell rho1 tr1 /\
    (forall s, rho1 ("adv->tags" ++ s) = 0) /\
    calls "libwifi_quick_add_tag" (skipn 29 body_libwifi_create_timing_advert).
Proof.
  intros Hnow Hmrp Hmtp Htpu Hnf Haf Htc He Hee rho0; nums.
  unfold rho0, ta_args, body_libwifi_create_timing_advert; clear rho0. cbn [firstn skipn].
  destruct (Z.eqb_spec tc 1) as [E1 | N1]; [subst tc | destruct (Z.eqb_spec tc 2) as [E2 | N2]; [subst tc | ]];
    (eexists; eexists; split; [grun | split; [intros s; gen_env; reflexivity | reflexivity]]).
Qed.


End WithMemory.



Print Assumptions code_set_beacon_ssid.
Print Assumptions code_set_probe_resp_ssid.
Print Assumptions code_set_beacon_channel.
Print Assumptions code_set_probe_resp_channel.
Print Assumptions code_set_assoc_resp_channel.
Print Assumptions code_set_reassoc_resp_channel.
Print Assumptions code_set_beacon_ssid_fresh.
Print Assumptions code_create_timing_advert_null.
Print Assumptions code_create_timing_advert.
Print Assumptions code_create_timing_advert_before_add.
