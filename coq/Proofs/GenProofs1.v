(* Proofs for C07 (serialisation stays inside the caller's buffer) and the shared list/put algebra
   used by the C03 proofs. *)
From Coq Require Import List ZArith Lia Bool ZifyBool.
From LW Require Import Base.Bytes Gen.Consts Gen.Layout Gen.Rtap Model.TagIter Spec.TagSpec Model.Tags
  Model.Frame Model.Radiotap Model.RadiotapGen Model.Gen Spec.GenSpec Proofs.TagsProofs.
Import ListNotations.
Local Open Scope Z_scope.

(* restated verbatim from Properties_C07.v *)
Definition tags_ok (t : tags) : Prop := t_len t = zlen (t_bytes t).

(* ---------- list algebra ---------- *)
Lemma zfirstn_zlen_app {A} (a b : list A) : zfirstn (zlen a) (a ++ b) = a.
Proof. unfold zfirstn. apply firstn_zlen_app. Qed.
Lemma zfirstn_all {A} (a : list A) n : zlen a <= n -> zfirstn n a = a.
Proof. unfold zfirstn, zlen. intros H. apply firstn_all2. lia. Qed.
Lemma zskipn_app_len {A} (a b : list A) n : 0 <= n -> zskipn (zlen a + n) (a ++ b) = zskipn n b.
Proof.
  intros Hn. unfold zskipn, zlen.
  replace (Z.to_nat (Z.of_nat (length a) + n)) with (length a + Z.to_nat n)%nat by lia.
  rewrite skipn_app. rewrite skipn_all2 by lia.
  replace (length a + Z.to_nat n - length a)%nat with (Z.to_nat n) by lia. reflexivity.
Qed.
Lemma zskipn_zskipn {A} (l : list A) a b : 0 <= a -> 0 <= b -> zskipn a (zskipn b l) = zskipn (b + a) l.
Proof.
  intros Ha Hb. unfold zskipn. rewrite skipn_skipn'. f_equal. lia.
Qed.
Lemma zlen_zskipn {A} (l : list A) k : 0 <= k <= zlen l -> zlen (zskipn k l) = zlen l - k.
Proof. unfold zskipn. apply zlen_skipn. Qed.
Lemma zlen_zfirstn {A} (l : list A) k : 0 <= k <= zlen l -> zlen (zfirstn k l) = k.
Proof. unfold zfirstn. apply zlen_firstn. Qed.
Lemma zskipn_0 {A} (l : list A) : zskipn 0 l = l.
Proof. reflexivity. Qed.

(* overwriting right after a known prefix *)
Lemma put_app_left pre bs rest off : zlen pre = off ->
  put off bs (pre ++ rest) = pre ++ bs ++ zskipn (zlen bs) rest.
Proof.
  intros H. subst off. unfold put. rewrite zfirstn_zlen_app.
  rewrite zskipn_app_len by apply zlen_nonneg. reflexivity.
Qed.
Lemma wr_app pre bs rest off : zlen pre = off -> zlen bs <= zlen rest ->
  wr (pre ++ rest) off bs = Done (pre ++ bs ++ zskipn (zlen bs) rest).
Proof.
  intros H Hl. unfold wr. pose proof (zlen_nonneg pre).
  rewrite zlen_app.
  destruct (off <? 0) eqn:A; [lia|].
  destruct (zlen pre + zlen rest <? off + zlen bs) eqn:B; [lia|].
  cbn [orb]. rewrite put_app_left by assumption. reflexivity.
Qed.

(* three consecutive writes from the start of the buffer *)
Lemma three_writes (h f t mem : list byte) : zlen h + zlen f + zlen t <= zlen mem ->
  (let* m1 := wr mem 0 h in
   let* m2 := wr m1 (zlen h) f in
   let* m3 := wr m2 (zlen h + zlen f) t in
   Done m3) = Done (h ++ f ++ t ++ zskipn (zlen h + zlen f + zlen t) mem).
Proof.
  intros H.
  pose proof (zlen_nonneg h). pose proof (zlen_nonneg f). pose proof (zlen_nonneg t).
  pose proof (wr_app [] h mem 0 eq_refl ltac:(lia)) as W0. cbn [app] in W0. rewrite W0. cbn [bind].
  rewrite (wr_app h f (zskipn (zlen h) mem) (zlen h)) by (try reflexivity; rewrite zlen_zskipn; lia).
  cbn [bind].
  replace (h ++ f ++ zskipn (zlen f) (zskipn (zlen h) mem))
    with ((h ++ f) ++ zskipn (zlen f) (zskipn (zlen h) mem)) by (rewrite <- app_assoc; reflexivity).
  rewrite (wr_app (h ++ f) t _ (zlen h + zlen f)).
  - cbn [bind]. rewrite <- app_assoc. rewrite !zskipn_zskipn by lia.
    replace (zlen h + (zlen f + zlen t)) with (zlen h + zlen f + zlen t) by lia. reflexivity.
  - apply zlen_app.
  - rewrite !zlen_zskipn; try lia. rewrite zlen_zskipn; lia.
Qed.

(* ---------- C07: dump routines ---------- *)
Lemma dump_object_ok : forall g mem, tags_ok (g_tags g) ->
  g_dump_mem g mem = Done (if zlen mem <? g_length g then (Err (- EINVAL), mem)
                           else (Ok (g_length g), g_hdr g ++ g_fixed g ++ t_bytes (g_tags g) ++ zskipn (g_length g) mem)).
Proof.
  intros g mem Ht. unfold tags_ok in Ht. unfold g_dump_mem.
  destruct (zlen mem <? g_length g) eqn:C; [reflexivity|].
  unfold g_length in *. rewrite Ht in *.
  rewrite (zfirstn_all (t_bytes (g_tags g))) by lia.
  pose proof (three_writes (g_hdr g) (g_fixed g) (t_bytes (g_tags g)) mem ltac:(lia)) as W.
  cbv zeta in W.
  destruct (wr mem 0 (g_hdr g)) as [m1| |]; cbn [bind] in *; try discriminate W.
  destruct (wr m1 (zlen (g_hdr g)) (g_fixed g)) as [m2| |]; cbn [bind] in *; try discriminate W.
  destruct (wr m2 _ _) as [m3| |]; cbn [bind] in *; try discriminate W.
  injection W as W. subst m3. reflexivity.
Qed.

Lemma dump_action_ok : forall a mem, a_detail_len a = zlen (a_detail a) ->
  a_dump_mem a mem = Done (if zlen mem <? a_length a then (Err (- EINVAL), mem)
                           else (Ok (a_length a), a_hdr a ++ [a_category a] ++ a_detail a ++ zskipn (a_length a) mem)).
Proof.
  intros a mem Ht. unfold a_dump_mem.
  destruct (zlen mem <? a_length a) eqn:C; [reflexivity|].
  unfold a_length in *. rewrite Ht in *.
  rewrite (zfirstn_all (a_detail a)) by lia.
  pose proof (three_writes (a_hdr a) [a_category a] (a_detail a) mem) as W.
  change (zlen [a_category a]) with 1 in W. specialize (W ltac:(lia)).
  cbv zeta in W.
  destruct (wr mem 0 (a_hdr a)) as [m1| |]; cbn [bind] in *; try discriminate W.
  destruct (wr m1 (zlen (a_hdr a)) [a_category a]) as [m2| |]; cbn [bind] in *; try discriminate W.
  destruct (wr m2 _ _) as [m3| |]; cbn [bind] in *; try discriminate W.
  injection W as W. subst m3. reflexivity.
Qed.

Lemma dump_tag_ok : forall num len body mem, 0 <= len -> len = zlen body ->
  dump_tag_mem num len body mem = Done (if zlen mem <? 2 + len then (Err (- EINVAL), mem)
                                        else (Ok (2 + len), [num; len] ++ body ++ zskipn (2 + len) mem)).
Proof.
  intros num len body mem H0 Hl. unfold dump_tag_mem. change sizeof_libwifi_tag_header with 2.
  destruct (zlen mem <? 2 + len) eqn:C; [reflexivity|].
  rewrite (zfirstn_all body) by lia.
  subst len. pose proof (zlen_nonneg body) as Hb.
  pose proof (wr_app [] [num; zlen body] mem 0 eq_refl) as W0. cbn [app] in W0.
  change (zlen [num; zlen body]) with 2 in W0. rewrite W0 by lia. cbn [bind].
  pose proof (wr_app [num; zlen body] body (zskipn 2 mem) 2 eq_refl) as W1.
  rewrite zlen_zskipn in W1 by lia. cbn [app] in W1. cbn [app]. rewrite W1 by lia. cbn [bind].
  rewrite zskipn_zskipn by lia. reflexivity.
Qed.

(* ---------- explicit lists ---------- *)
(* H : length l = n with n a numeral: replace l by n fresh elements *)
Ltac explode l H :=
  lazymatch type of H with
  | length l = O => destruct l; [clear H | discriminate H]
  | length l = S _ =>
      let x := fresh "x" in
      destruct l as [|x l]; [discriminate H | cbn [length] in H; apply Nat.succ_inj in H; explode l H]
  end.

Lemma split_len {A} (l : list A) n : Z.of_nat n <= zlen l -> exists a b, l = a ++ b /\ length a = n.
Proof.
  intros H. exists (firstn n l), (skipn n l). split; [symmetry; apply firstn_skipn|].
  rewrite firstn_length. unfold zlen in H. lia.
Qed.
Lemma zlen_length {A} (l : list A) n : zlen l = Z.of_nat n -> length l = n.
Proof. unfold zlen. lia. Qed.

Lemma wr_ok mem off bs : 0 <= off -> off + zlen bs <= zlen mem -> wr mem off bs = Done (put off bs mem).
Proof.
  intros H1 H2. unfold wr.
  destruct (off <? 0) eqn:A; [lia|]. destruct (zlen mem <? off + zlen bs) eqn:B; [lia|]. reflexivity.
Qed.

Lemma random_mac_ok : forall mem prefix rnd, 6 <= zlen mem -> 6 <= zlen rnd ->
  (forall p, prefix = Some p -> 3 <= zlen p) ->
  exists m, random_mac mem prefix rnd = Done m /\ zlen m = zlen mem /\ zskipn 6 m = zskipn 6 mem /\
            match prefix with
            | Some p => zfirstn 3 m = zfirstn 3 p /\ slice 3 3 m = zfirstn 3 rnd
            | None => zfirstn 6 m = zfirstn 6 rnd
            end.
Proof.
  intros mem prefix rnd Hm Hr Hp.
  destruct (split_len mem 6 Hm) as (m6 & R & Em & Lm). subst mem. explode m6 Lm.
  destruct (split_len rnd 6 Hr) as (r6 & R' & Er & Lr). subst rnd. explode r6 Lr.
  cbn [app] in *. pose proof (zlen_nonneg R) as HR.
  unfold random_mac.
  rewrite wr_ok; [| lia | change (zlen (zeros 6)) with 6; rewrite !zlen_cons; lia].
  cbn [bind].
  match goal with |- context [put 0 (zeros 6) ?l] =>
    replace (put 0 (zeros 6) l) with (0 :: 0 :: 0 :: 0 :: 0 :: 0 :: R) by reflexivity end.
  destruct prefix as [p|].
  - specialize (Hp p eq_refl).
    destruct (split_len p 3 Hp) as (p3 & P' & Ep & Lp). subst p. explode p3 Lp. cbn [app] in *.
    match goal with |- context [zfirstn 3 (?a :: ?b :: ?c :: P')] =>
      change (zfirstn 3 (a :: b :: c :: P')) with [a; b; c] end.
    rewrite wr_ok; [| lia | change (zlen [x11; x12; x13]) with 3; rewrite !zlen_cons; lia].
    cbn [bind].
    match goal with |- context [put 0 ?bs ?l] =>
      replace (put 0 bs l) with (x11 :: x12 :: x13 :: 0 :: 0 :: 0 :: R) by reflexivity end.
    match goal with |- context [wr _ 3 ?bs] => change bs with [x5; x6; x7] end.
    rewrite wr_ok; [| lia | change (zlen [x5; x6; x7]) with 3; rewrite !zlen_cons; lia].
    eexists. split; [reflexivity|].
    match goal with |- context [put 3 ?bs ?l] =>
      replace (put 3 bs l) with (x11 :: x12 :: x13 :: x5 :: x6 :: x7 :: R) by reflexivity end.
    split; [rewrite !zlen_cons; reflexivity|].
    split; [reflexivity|]. split; reflexivity.
  - match goal with |- context [wr _ 0 ?bs] => change bs with [x5; x6; x7; x8; x9; x10] end.
    rewrite wr_ok; [| lia | change (zlen [x5; x6; x7; x8; x9; x10]) with 6; rewrite !zlen_cons; lia].
    eexists. split; [reflexivity|].
    match goal with |- context [put 0 ?bs ?l] =>
      replace (put 0 bs l) with (x5 :: x6 :: x7 :: x8 :: x9 :: x10 :: R) by reflexivity end.
    split; [rewrite !zlen_cons; reflexivity|].
    split; reflexivity.
Qed.

(* ---------- C07: radiotap staging bound ---------- *)
Lemma zlen_le_enc n v : zlen (le_enc n v) = Z.of_nat n.
Proof. unfold zlen. rewrite le_enc_length. reflexivity. Qed.
Lemma zlen_repeat {A} (x : A) n : zlen (repeat x n) = Z.of_nat n.
Proof. unfold zlen. rewrite repeat_length. reflexivity. Qed.
Lemma zlen_concat_pairs (a b : byte) k : zlen (concat (repeat [a; b] k)) = 2 * Z.of_nat k.
Proof.
  induction k as [|k IH]; [reflexivity|].
  cbn [repeat concat]. rewrite zlen_app, IH. change (zlen [a; b]) with 2. lia.
Qed.

Definition msz (field : Z) : Z :=
  if field =? c_IEEE80211_RADIOTAP_CHANNEL then 4
  else if field =? c_IEEE80211_RADIOTAP_RATE then 1
  else if field =? c_IEEE80211_RADIOTAP_DBM_ANTSIGNAL then 1
  else if field =? c_IEEE80211_RADIOTAP_ANTENNA then 32
  else if field =? c_IEEE80211_RADIOTAP_FLAGS then 1
  else if field =? c_IEEE80211_RADIOTAP_RX_FLAGS then 2
  else if field =? c_IEEE80211_RADIOTAP_TX_FLAGS then 2
  else if field =? c_IEEE80211_RADIOTAP_MCS then 3
  else if field =? c_IEEE80211_RADIOTAP_DBM_TX_POWER then 1
  else if field =? c_IEEE80211_RADIOTAP_TIMESTAMP then 12
  else if field =? c_IEEE80211_RADIOTAP_RTS_RETRIES then 1
  else if field =? c_IEEE80211_RADIOTAP_DATA_RETRIES then 1
  else 0.
Definition padmax (field : Z) : Z :=
  let a := fst (table_entry field) in if 0 <? a then a - 1 else 0.
Fixpoint bound (n : nat) (field : Z) : Z :=
  match n with O => 0 | S k => padmax field + msz field + bound k (field + 1) end.

Lemma msz_nonneg f : 0 <= msz f.
Proof. unfold msz. repeat (destruct (f =? _); [lia|]). lia. Qed.
Lemma padmax_nonneg f : 0 <= padmax f.
Proof. unfold padmax. cbv zeta. destruct (0 <? fst (table_entry f)) eqn:A; lia. Qed.
Lemma bound_nonneg n : forall f, 0 <= bound n f.
Proof.
  induction n as [|n IH]; intros f; cbn [bound]; [lia|].
  pose proof (msz_nonneg f). pose proof (padmax_nonneg f). pose proof (IH (f + 1)). lia.
Qed.

Lemma antenna_bytes_len (ants : list (Z * Z)) : zlen ants <= 16 ->
  zlen (match ants with
        | [] => []
        | (n0, s0) :: _ => concat (repeat [n0 mod 256; s0 mod 256] (length ants))
        end) <= 32.
Proof.
  intros H. destruct ants as [|[n0 s0] r]; [rewrite zlen_nil; lia|].
  rewrite zlen_concat_pairs. unfold zlen in H. lia.
Qed.

Lemma field_bytes_len info f : zlen (i_antennas info) <= 16 -> zlen (field_bytes info f) <= msz f.
Proof.
  intros H. unfold field_bytes, msz.
  repeat (destruct (f =? _);
          [first [ apply antenna_bytes_len; exact H
                 | rewrite ?zlen_app, !zlen_le_enc; lia ] |]).
  rewrite zlen_nil. lia.
Qed.

Lemma emit_ok data bs : zlen data + zlen bs <= staging_len -> emit data bs = Done (data ++ bs).
Proof. intros H. unfold emit. destruct (staging_len <? zlen data + zlen bs) eqn:A; [lia | reflexivity]. Qed.

Lemma gen_fields_ok info : zlen (i_antennas info) <= 16 ->
  forall n field present data, zlen data + bound n field <= staging_len ->
  exists d, gen_fields n field present info data = Done d /\ zlen d <= zlen data + bound n field.
Proof.
  intros Ha. induction n as [|n IH]; intros field present data Hb.
  - exists data. split; [reflexivity|]. cbn [bound]. lia.
  - cbn [gen_fields bound] in *.
    pose proof (msz_nonneg field) as M0. pose proof (padmax_nonneg field) as P0.
    pose proof (bound_nonneg n (field + 1)) as B0.
    destruct (Z.odd present).
    + set (align := fst (table_entry field)).
      set (padding := (if 0 <? align then (align - zlen data mod align) mod align else 0) mod 256).
      assert (Hp : 0 <= padding <= padmax field).
      { unfold padding, padmax. fold align. cbv zeta.
        destruct (0 <? align) eqn:A.
        - pose proof (Z.mod_pos_bound (align - zlen data mod align) align ltac:(lia)) as Q.
          pose proof (Z.mod_pos_bound ((align - zlen data mod align) mod align) 256 ltac:(lia)) as Q1.
          pose proof (Z.mod_le ((align - zlen data mod align) mod align) 256 ltac:(lia) ltac:(lia)) as Q2.
          lia.
        - rewrite Z.mod_0_l by lia. lia. }
      clearbody padding.
      assert (E1 : exists d1, (if 0 <? padding then emit data (repeat 0 (Z.to_nat padding)) else Done data) = Done d1
                             /\ zlen d1 <= zlen data + padmax field).
      { destruct (0 <? padding) eqn:A.
        - rewrite emit_ok by (rewrite zlen_repeat; lia). eexists. split; [reflexivity|].
          rewrite zlen_app, zlen_repeat. lia.
        - exists data. split; [reflexivity | lia]. }
      destruct E1 as (d1 & E1 & L1). rewrite E1. cbn [bind].
      pose proof (field_bytes_len info field Ha) as FL.
      pose proof (zlen_nonneg (field_bytes info field)) as F0.
      rewrite emit_ok by lia. cbn [bind].
      destruct (IH (field + 1) (Z.shiftr present 1) (d1 ++ field_bytes info field)) as (d & G & L).
      { rewrite zlen_app. lia. }
      exists d. split; [exact G|]. rewrite zlen_app in L. lia.
    + destruct (IH (field + 1) (Z.shiftr present 1) data ltac:(lia)) as (d & G & L).
      exists d. split; [exact G | lia].
Qed.

Lemma radiotap_bound : forall present info, 0 <= present < 2 ^ 32 ->
  zlen (i_antennas info) <= c_LIBWIFI_MAX_RADIOTAP_ANTENNAS ->
  exists b, create_radiotap present info = Done b /\ zlen b <= c_LIBWIFI_MAX_RADIOTAP_LEN.
Proof.
  intros present info _ Ha. change c_LIBWIFI_MAX_RADIOTAP_ANTENNAS with 16 in Ha.
  unfold create_radiotap.
  assert (B : bound (Z.to_nat rtap_n_bits) 0 = 89) by (vm_compute; reflexivity).
  destruct (gen_fields_ok info Ha (Z.to_nat rtap_n_bits) 0 present []) as (d & G & L).
  { rewrite B. vm_compute. discriminate. }
  rewrite G. cbn [bind]. eexists. split; [reflexivity|].
  rewrite B in L. rewrite zlen_nil in L.
  rewrite !zlen_app, !zlen_le_enc. change (zlen [0; 0]) with 2.
  change c_LIBWIFI_MAX_RADIOTAP_LEN with 128. lia.
Qed.
