(* The radiotap iterator of libwifi (core/radiotap/radiotap.c) AS TRANSLATED, expression by expression.
   Objects: sites_ieee80211_radiotap_iterator_init / _next and body_ieee80211_radiotap_iterator_init / _next of Gen/Sites.v.
   The two bodies are not executable by [exec] (goto next_entry, pointer increments and the second switch are SOther nodes), so
   nothing is run here: every NAMED SITE (condition, assigned value, returned value) is evaluated with the C integer semantics of
   Base/CExpr.v, for ALL values in the stated ranges, and compared with the formula Model/Radiotap.v (rt_init, ext_chain,
   rt_next) uses at the corresponding step.  Pointers of the model are offsets from the header start: the lemmas are stated with
   iterator->_rtheader = h and iterator->_arg = h + a.  [holds m h buf]: the readable memory has the octets of buf at address h
   (so le16 buf i / le32 buf i / znth buf i are what the model's rd_le rd 2 i / rd_le rd 4 i / rd i give for a read oracle that
   agrees with buf: Proofs/RadiotapSafe.v rd_le16, rd_le32).

   See the end of the file for the summary (keys covered, statements of the bodies that are NOT sites).

   Findings (nothing in the named sites contradicts the model on the values the model can reach):
   - align is the LOW nibble ((octet >> 0) & 15), size the HIGH nibble ((octet >> 4) & 15) of the ONE octet at T + idx, where the
     table address T is itself LOADED from the namespace (8 octets at ns + 0) and n_bits is the int at ns + 8;
   - pad is a MASK with align - 1, the model takes a remainder: equal for 1, 2, 4, 8 (every entry of radiotap_ns:
     rtap_entry_nibbles), different otherwise (site_rtnext_pad_mask_is_not_mod_refuted: align 3, offset 3: 2 against 0);
   - C's % on a negative index is not the model's mod (site_rtnext_switch0_negative_index); never reached;
   - the second switch of next is a real SSwitch (labels [30], [29], [31], default: rtnext_switch1_shape); the four gotos, the
     increment of _next_bitmap and the label next_entry are SOther nodes in place: where a goto lands and the + 4 of _next_bitmap are
     not checked by any lemma; index + 1 has no value at 2^31 - 1 (signed overflow: site_rtnext_index_overflow_refuted);
   - init: the member addresses &radiotap_header->it_len / ->it_present are names (their offsets 2 and 4 are hypotheses), the
     version is a named lvalue (no load), _next_bitmap++ and the while statement itself are SOther. *)
From Coq Require Import ZArith String List Bool Lia.
From LW Require Import Base.Bytes Base.CExpr Base.Sweep Gen.Consts Gen.Rtap Gen.Layout Gen.Sites Spec.CodeSpec.
From LW Require Import Proofs.SitesLemmas Proofs.CodeIter Proofs.CodeSecurity Proofs.CodeRadiotapGen Model.Radiotap.
Import ListNotations.
Local Open Scope string_scope.
Local Open Scope Z_scope.

Ltac nums :=
  change (2 ^ 64) with 18446744073709551616 in *; change (2 ^ 63) with 9223372036854775808 in *;
  change (2 ^ 62) with 4611686018427387904 in *; change (2 ^ 32) with 4294967296 in *;
  change (2 ^ 31) with 2147483648 in *; change (2 ^ 30) with 1073741824 in *; change (2 ^ 16) with 65536 in *.

Notation NEXT := sites_ieee80211_radiotap_iterator_next.
Notation INIT := sites_ieee80211_radiotap_iterator_init.

(* ================================================================ 0. memory and loads *)
Definition holds (m : memory) (h : Z) (buf : list byte) : Prop :=
  forall i, 0 <= i < zlen buf -> m (h + i) = Some (znth buf i).

Lemma holds_mem_at h buf : holds (mem_at h buf) h buf.
Proof. intros i Hi. apply mem_at_in. exact Hi. Qed.

Lemma ld8 m h buf i : holds m h buf -> 0 <= i < zlen buf ->
  load_le m (h + i) (Z.to_nat (8 / 8)) = Some (znth buf i).
Proof.
  intros Hm Hi. change (Z.to_nat (8 / 8)) with 1%nat. cbn [load_le]. rewrite (Hm i Hi). f_equal. lia.
Qed.

Lemma ld16 m h buf i : holds m h buf -> 0 <= i -> i + 2 <= zlen buf ->
  load_le m (h + i) (Z.to_nat (16 / 8)) = Some (le16 buf i).
Proof.
  intros Hm Hi Hl. change (Z.to_nat (16 / 8)) with 2%nat. cbn [load_le]. rewrite (Hm i) by lia.
  replace (h + i + 1) with (h + (i + 1)) by lia. rewrite (Hm (i + 1)) by lia.
  rewrite le16_znth by lia. f_equal. lia.
Qed.

Lemma le32_znth buf p : 0 <= p -> p + 4 <= zlen buf ->
  le32 buf p = znth buf p + 256 * (znth buf (p + 1) + 256 * (znth buf (p + 2) + 256 * znth buf (p + 3))).
Proof.
  intros Hp Hl. unfold le32, slice, zfirstn, zskipn.
  rewrite (skipn_cons_znth buf p) by lia. rewrite (skipn_cons_znth buf (p + 1)) by lia.
  replace (p + 1 + 1) with (p + 2) by lia. rewrite (skipn_cons_znth buf (p + 2)) by lia.
  replace (p + 2 + 1) with (p + 3) by lia. rewrite (skipn_cons_znth buf (p + 3)) by lia.
  change (Z.to_nat 4) with 4%nat. cbn [firstn le_dec]. lia.
Qed.

Lemma ld32 m h buf i : holds m h buf -> 0 <= i -> i + 4 <= zlen buf ->
  load_le m (h + i) (Z.to_nat (32 / 8)) = Some (le32 buf i).
Proof.
  intros Hm Hi Hl. change (Z.to_nat (32 / 8)) with 4%nat. cbn [load_le]. rewrite (Hm i) by lia.
  replace (h + i + 1) with (h + (i + 1)) by lia. rewrite (Hm (i + 1)) by lia.
  replace (h + (i + 1) + 1) with (h + (i + 2)) by lia. rewrite (Hm (i + 2)) by lia.
  replace (h + (i + 2) + 1) with (h + (i + 3)) by lia. rewrite (Hm (i + 3)) by lia.
  rewrite le32_znth by lia. f_equal. lia.
Qed.

Lemma le32_range buf p : wfbytes buf -> 0 <= p -> p + 4 <= zlen buf -> 0 <= le32 buf p < 4294967296.
Proof.
  intros Hwf Hp Hl. rewrite le32_znth by assumption.
  pose proof (wfbytes_znth buf p Hwf ltac:(lia)). pose proof (wfbytes_znth buf (p + 1) Hwf ltac:(lia)).
  pose proof (wfbytes_znth buf (p + 2) Hwf ltac:(lia)). pose proof (wfbytes_znth buf (p + 3) Hwf ltac:(lia)). lia.
Qed.

(* ================================================================ 1. ieee80211_radiotap_iterator_next *)
Section Next.
Variable m : memory.

(* ---- sites whose value does not depend on anything: the five declarations, the constants the two switches assign, the
   returned codes (-ENOENT = -2 twice, -EINVAL = -22 twice, 0), the condition of while (1) *)
Definition rtnext_const_sites : list (string * Z) :=
  [("loop#0", 1); ("decl:hit#0", 0); ("decl:pad#0", 0); ("decl:align#0", 0); ("decl:size#0", 0); ("decl:subns#0", 0);
   ("ret#0", -2); ("set:align#0", 1); ("set:size#0", 0); ("set:align#1", 2); ("set:size#1", 6); ("ret#1", -2);
   ("set:align#2", 0); ("set:iterator->current_namespace#0", 0); ("ret#2", -22); ("ret#3", -22);
   ("set:iterator->_reset_on_ext#0", 1); ("set:iterator->is_radiotap_ns#0", 0); ("set:iterator->this_arg_index#1", 30);
   ("set:hit#0", 1); ("set:iterator->_reset_on_ext#1", 1); ("set:iterator->is_radiotap_ns#1", 1);
   ("set:iterator->_arg_index#0", 0); ("set:iterator->_reset_on_ext#2", 0); ("set:hit#1", 1); ("ret#4", 0)].

Lemma site_rtnext_constants rho :
  map (fun kv => ceval rho m (site NEXT (fst kv))) rtnext_const_sites = map (fun kv => Some (snd kv)) rtnext_const_sites.
Proof. reflexivity. Qed.

(* idx = iterator->_arg_index (int), sh = iterator->_bitmap_shifter (uint32_t) *)

(* if ((iterator->_arg_index % 32) == IEEE80211_RADIOTAP_EXT && !(iterator->_bitmap_shifter & 1)) return -ENOENT;
   model: (bit =? c_IEEE80211_RADIOTAP_EXT) && negb present  with bit = idx mod 32, present = Z.odd shifter *)
Lemma site_rtnext_if0 rho idx sh :
  rho "iterator->_arg_index" = idx -> rho "iterator->_bitmap_shifter" = sh -> 0 <= idx < 2 ^ 31 -> 0 <= sh < 2 ^ 32 ->
  ceval rho m (site NEXT "if#0") = Some (b2z ((idx mod 32 =? c_IEEE80211_RADIOTAP_EXT) && negb (Z.odd sh))) /\
  ceval rho m (site NEXT "ret#0") = Some (- ENOENT).
Proof.
  intros <- <- Hi Hs; nums. split; [ | reflexivity].
  pose proof (Z.mod_pos_bound (rho "iterator->_arg_index") 32 ltac:(lia)) as Hb.
  site_unfold NEXT. wrap_ids. change (32 =? 0) with false. cbv iota.
  rewrite Z.rem_mod_nonneg by lia. wrap_ids. rewrite land_1_odd.
  change c_IEEE80211_RADIOTAP_EXT with 31.
  destruct (rho "iterator->_arg_index" mod 32 =? 31); destruct (Z.odd (rho "iterator->_bitmap_shifter")); reflexivity.
Qed.

(* if (!(iterator->_bitmap_shifter & 1)) goto next_entry;   model: negb present *)
Lemma site_rtnext_if1 rho sh :
  rho "iterator->_bitmap_shifter" = sh -> 0 <= sh < 2 ^ 32 ->
  ceval rho m (site NEXT "if#1") = Some (b2z (negb (Z.odd sh))).
Proof.
  intros <- Hs; nums. site_unfold NEXT. wrap_ids. rewrite land_1_odd.
  destruct (Z.odd (rho "iterator->_bitmap_shifter")); reflexivity.
Qed.

(* switch (iterator->_arg_index % 32), both switches; the vendor test  if (iterator->_arg_index % 32 == VENDOR_NAMESPACE) *)
Lemma site_rtnext_switch rho idx :
  rho "iterator->_arg_index" = idx -> 0 <= idx < 2 ^ 31 ->
  ceval rho m (site NEXT "switch#0") = Some (idx mod 32) /\
  ceval rho m (site NEXT "switch#1") = Some (idx mod 32) /\
  ceval rho m (site NEXT "if#6") = Some (b2z (idx mod 32 =? c_IEEE80211_RADIOTAP_VENDOR_NAMESPACE)).
Proof.
  intros <- Hi; nums.
  pose proof (Z.mod_pos_bound (rho "iterator->_arg_index") 32 ltac:(lia)) as Hb.
  repeat split; site_unfold NEXT; wrap_ids; change (32 =? 0) with false; cbv iota;
    rewrite Z.rem_mod_nonneg by lia; wrap_ids; reflexivity.
Qed.

(* C's % is Z.rem, the model's is mod: they differ on a negative index (never produced: the index starts at 0 and is
   only incremented or reset to 0) *)
Lemma site_rtnext_switch0_negative_index :
  ceval (upd (fun _ => 0) "iterator->_arg_index" (-1)) m (site NEXT "switch#0") = Some (-1) /\ (-1) mod 32 = 31.
Proof. split; reflexivity. Qed.

(* ---- the shape of the first switch, read off the translated body *)
Definition rtnext_loop_body : list cstmt :=
  match body_ieee80211_radiotap_iterator_next with [SLoop _ _ _ b _] => b | _ => [] end.
Definition rtnext_switch0 : cstmt := nth 7 rtnext_loop_body SBreak.
Definition rtnext_case_special : list cstmt :=
  [SSet "set:align#0" "align" (site NEXT "set:align#0"); SSet "set:size#0" "size" (site NEXT "set:size#0"); SBreak].
Definition rtnext_case_vendor : list cstmt :=
  [SSet "set:align#1" "align" (site NEXT "set:align#1"); SSet "set:size#1" "size" (site NEXT "set:size#1"); SBreak].
(* default: if (!ns || idx >= ns->n_bits) { if (ns == &radiotap_ns) return -ENOENT; align = 0; } else { align = ..; size = ..; }
            if (!align) { _arg = _next_ns_data; current_namespace = NULL; goto next_entry; }  break; *)
Definition rtnext_case_default : list cstmt :=
  [SIf "if#2" (site NEXT "if#2")
     [SIf "if#3" (site NEXT "if#3") [SRet "ret#1" (Some (site NEXT "ret#1"))] [];
      SSet "set:align#2" "align" (site NEXT "set:align#2")]
     [SSet "set:align#3" "align" (site NEXT "set:align#3"); SSet "set:size#2" "size" (site NEXT "set:size#2")];
   SIf "if#4" (site NEXT "if#4")
     [SSet "set:iterator->_arg#0" "iterator->_arg" (site NEXT "set:iterator->_arg#0");
      SSet "set:iterator->current_namespace#0" "iterator->current_namespace" (site NEXT "set:iterator->current_namespace#0");
      SOther "goto next_entry"] [];
   SBreak].

Lemma rtnext_switch0_shape :
  rtnext_switch0 = SSwitch "switch#0" (site NEXT "switch#0")
                     [([29; 31], rtnext_case_special); ([30], rtnext_case_vendor)] rtnext_case_default.
Proof. reflexivity. Qed.

(* which labels share a case: 29 (RADIOTAP_NAMESPACE) and 31 (EXT) pick the first, 30 (VENDOR_NAMESPACE) the second, every other
   value the default *)
Lemma rtnext_switch0_pick v :
  pick_case v [([29; 31], rtnext_case_special); ([30], rtnext_case_vendor)] rtnext_case_default =
  if (v =? c_IEEE80211_RADIOTAP_RADIOTAP_NAMESPACE) || (v =? c_IEEE80211_RADIOTAP_EXT) then rtnext_case_special
  else if v =? c_IEEE80211_RADIOTAP_VENDOR_NAMESPACE then rtnext_case_vendor else rtnext_case_default.
Proof.
  change c_IEEE80211_RADIOTAP_RADIOTAP_NAMESPACE with 29. change c_IEEE80211_RADIOTAP_EXT with 31.
  change c_IEEE80211_RADIOTAP_VENDOR_NAMESPACE with 30.
  cbn [pick_case existsb]. rewrite !orb_false_r. reflexivity.
Qed.

(* what the two constant cases do (these ARE executable): align 1, size 0 and align 2, size 6 - the model's (1, 0) and (2, 6) *)
Lemma rtnext_case_special_runs f rho tr :
  exec (S (S (S f))) m rho tr rtnext_case_special = Broke (upd (upd rho "align" 1) "size" 0) tr.
Proof.
  unfold rtnext_case_special.
  rewrite (exec_set _ m rho tr _ _ _ _ 1) by reflexivity.
  rewrite (exec_set _ m _ tr _ _ _ _ 0) by reflexivity. apply exec_break.
Qed.
Lemma rtnext_case_vendor_runs f rho tr :
  exec (S (S (S f))) m rho tr rtnext_case_vendor = Broke (upd (upd rho "align" 2) "size" 6) tr.
Proof.
  unfold rtnext_case_vendor.
  rewrite (exec_set _ m rho tr _ _ _ _ 2) by reflexivity.
  rewrite (exec_set _ m _ tr _ _ _ _ 6) by reflexivity. apply exec_break.
Qed.

(* the statements of the loop body around the switch, in order (keys only) *)
Definition stmt_key (s : cstmt) : string :=
  match s with
  | SSet k _ _ => k | SCall k _ _ => k | SIf k _ _ _ => k | SLoop k _ _ _ _ => k | SRet k _ => k | SSwitch k _ _ _ => k
  | SBreak => "break" | SInline x _ => x | SZero x => x | SClobber x => x | SOther w => "OTHER: " ++ w
  end.
Lemma rtnext_loop_body_keys :
  map stmt_key rtnext_loop_body =
  ["decl:hit#0"; "decl:pad#0"; "decl:align#0"; "decl:size#0"; "decl:subns#0"; "if#0"; "if#1"; "switch#0"; "set:pad#0"; "if#5";
   "if#6"; "set:iterator->this_arg_index#0"; "set:iterator->this_arg#0"; "set:iterator->this_arg_size#0";
   "upd:iterator->_arg#1"; "if#9"; "switch#1"; "if#12"].
Proof. reflexivity. Qed.

(* if#1's branch is the goto: not a site *)
Lemma rtnext_if1_branch : nth 6 rtnext_loop_body SBreak = SIf "if#1" (site NEXT "if#1") [SOther "goto next_entry"] [].
Proof. reflexivity. Qed.

(* ---- the default case: namespace and table.  ns = iterator->current_namespace (an address), rns = &radiotap_ns.
   struct ieee80211_radiotap_namespace: align_size (a pointer) at offset 0, n_bits (int) at offset 8 - both are LOADS from ns. *)

(* if (!iterator->current_namespace || iterator->_arg_index >= iterator->current_namespace->n_bits): with no namespace the
   right operand is not evaluated (no load at all) *)
Lemma site_rtnext_if2_null rho :
  rho "iterator->current_namespace" = 0 -> ceval rho m (site NEXT "if#2") = Some 1.
Proof. intros Hns. site_unfold NEXT. rewrite Hns. reflexivity. Qed.

(* with a namespace whose n_bits field (the 4 octets at ns + 8, little-endian) holds n.
   model: negb in_table,  in_table = r_ns && (idx <? rtap_n_bits)  (the model has only &radiotap_ns, n = rtap_n_bits = 23) *)
Lemma site_rtnext_if2 rho ns idx n :
  rho "iterator->current_namespace" = ns -> rho "iterator->_arg_index" = idx ->
  0 < ns < 2 ^ 62 -> - 2 ^ 31 <= idx < 2 ^ 31 -> load_le m (ns + 8) 4 = Some n -> 0 <= n < 2 ^ 31 ->
  ceval rho m (site NEXT "if#2") = Some (b2z (negb (idx <? n))).
Proof.
  intros <- <- Hns Hi Hl Hn; nums. site_unfold NEXT. wrap_ids.
  rewrite (eqb_false (rho "iterator->current_namespace") 0) by lia. cbv iota.
  change (Z.to_nat (c_bits (mkty true 32) / 8)) with 4%nat. rewrite Hl. wrap_ids.
  rewrite Z.geb_leb, Z.leb_antisym. destruct (rho "iterator->_arg_index" <? n); reflexivity.
Qed.

(* if (iterator->current_namespace == &radiotap_ns) return -ENOENT;   model: ... && r_ns it  ->  End (- ENOENT) *)
Lemma site_rtnext_if3 rho ns rns :
  rho "iterator->current_namespace" = ns -> rho "&radiotap_ns" = rns -> 0 <= ns < 2 ^ 64 -> 0 <= rns < 2 ^ 64 ->
  ceval rho m (site NEXT "if#3") = Some (b2z (ns =? rns)) /\ ceval rho m (site NEXT "ret#1") = Some (- ENOENT).
Proof. intros <- <- Hns Hr; nums. split; [ | reflexivity]. site_unfold NEXT. wrap_ids. reflexivity. Qed.

(* align = ns->align_size[idx].align; size = ns->align_size[idx].size;   struct radiotap_align_size { uint8_t align:4, size:4; }
   As translated: the table address T is LOADED (8 octets at ns + 0), the element is the ONE octet at T + idx, and
   align = (octet >> 0) & 15 = the LOW nibble, size = (octet >> 4) & 15 = the HIGH nibble. *)
Lemma shiftr4_nibble a s : 0 <= a < 16 -> 0 <= s -> Z.shiftr (a + 16 * s) 4 = s.
Proof.
  intros Ha Hs. rewrite Z.shiftr_div_pow2 by lia. change (2 ^ 4) with 16.
  replace (a + 16 * s) with (a + s * 16) by lia. rewrite Z.div_add by lia. rewrite Z.div_small by lia. lia.
Qed.

Lemma site_rtnext_align_size_load rho ns idx T al sz :
  rho "iterator->current_namespace" = ns -> rho "iterator->_arg_index" = idx ->
  0 <= ns < 2 ^ 62 -> 0 <= idx < 2 ^ 31 -> load_le m ns 8 = Some T -> 0 <= T < 2 ^ 62 ->
  m (T + idx) = Some (al + 16 * sz) -> 0 <= al < 16 -> 0 <= sz < 16 ->
  ceval rho m (site NEXT "set:align#3") = Some al /\ ceval rho m (site NEXT "set:size#2") = Some sz.
Proof.
  intros <- <- Hns Hi HT HT0 Hm Ha Hs; nums.
  split; site_unfold NEXT; wrap_ids; cbv beta iota;
    replace (rho "iterator->current_namespace" + 0) with (rho "iterator->current_namespace") by lia;
    change (Z.to_nat (c_bits (mkty false 64) / 8)) with 8%nat; rewrite HT; cbv beta iota; wrap_ids; cbv beta iota; wrap_ids; cbv beta iota;
    replace (T + rho "iterator->_arg_index" + 0) with (T + rho "iterator->_arg_index") by lia;
    change (Z.to_nat (c_bits (mkty false 8) / 8)) with 1%nat; cbn [load_le]; rewrite Hm; cbv beta iota;
    replace (al + 16 * sz + 256 * 0) with (al + 16 * sz) by lia; wrap_ids; cbn [c_bits].
  - change ((0 <? 0) || (32 <=? 0)) with false. cbv beta iota.
    rewrite Z.shiftr_0_r, land_15_nibble by lia. wrap_ids. reflexivity.
  - change ((4 <? 0) || (32 <=? 4)) with false. cbv beta iota.
    rewrite shiftr4_nibble by lia. change 15 with (Z.ones 4). rewrite Z.land_ones by lia. change (2 ^ 4) with 16.
    rewrite Z.mod_small by lia. wrap_ids. reflexivity.
Qed.

(* the entries of the compiled table (Gen/Rtap.v through Model.Radiotap.table_entry) are nibbles, every alignment is 1, 2, 4 or 8 *)
Lemma rtap_entry_nibbles k : 0 <= k < 23 ->
  0 <= fst (table_entry k) < 16 /\ 0 <= snd (table_entry k) < 16 /\ In (fst (table_entry k)) [1; 2; 4; 8].
Proof.
  intros Hk.
  assert (H : forallb (fun i => (0 <=? fst (table_entry i)) && (fst (table_entry i) <? 16) && (0 <=? snd (table_entry i)) &&
                                (snd (table_entry i) <? 16) && existsb (Z.eqb (fst (table_entry i))) [1; 2; 4; 8])
                      (Sweep.zrange 0 23) = true) by (vm_compute; reflexivity).
  pose proof (Sweep.forallb_zrange _ 0 23 H k ltac:(lia)) as B. cbv beta in B.
  repeat (apply andb_prop in B; destruct B as [B ?]).
  repeat split; try lia.
  cbn [existsb] in H0. cbn [In].
  repeat (apply orb_prop in H0; destruct H0 as [H0 | H0]); try discriminate;
    apply Z.eqb_eq in H0; rewrite H0; tauto.
Qed.

(* for a memory that holds radiotap_ns (its align_size pointer loads as T, the 23 table octets align | size << 4 at T, as
   Proofs/CodeRadiotapGen.v states its table memory): the two sites are the model's  table_entry idx *)
Lemma site_rtnext_align_size_table rho ns idx T :
  rho "iterator->current_namespace" = ns -> rho "iterator->_arg_index" = idx ->
  0 <= ns < 2 ^ 62 -> 0 <= idx < rtap_n_bits -> load_le m ns 8 = Some T -> 0 <= T < 2 ^ 62 ->
  table_at m T (fun k => fst (table_entry k)) (fun k => snd (table_entry k)) ->
  ceval rho m (site NEXT "set:align#3") = Some (fst (table_entry idx)) /\
  ceval rho m (site NEXT "set:size#2") = Some (snd (table_entry idx)).
Proof.
  intros Hns Hidx Hns0 Hi HT HT0 Htab. change rtap_n_bits with 23 in Hi.
  destruct (rtap_entry_nibbles idx Hi) as (Ha & Hs & _).
  apply (site_rtnext_align_size_load rho ns idx T); try assumption; [nums; lia | ].
  apply (Htab idx Hi).
Qed.

(* if (!align) { iterator->_arg = iterator->_next_ns_data; iterator->current_namespace = NULL; goto next_entry; }
   model: align =? 0  ->  r_arg := r_nnd it, r_ns := false, shift_next *)
Lemma site_rtnext_if4 rho al nnd :
  rho "align" = al -> rho "iterator->_next_ns_data" = nnd -> - 2 ^ 31 <= al < 2 ^ 31 -> 0 <= nnd < 2 ^ 64 ->
  ceval rho m (site NEXT "if#4") = Some (b2z (al =? 0)) /\
  ceval rho m (site NEXT "set:iterator->_arg#0") = Some nnd /\
  ceval rho m (site NEXT "set:iterator->current_namespace#0") = Some 0.
Proof. intros <- <- Ha Hn; nums. repeat split; site_unfold NEXT; wrap_ids; reflexivity. Qed.

(* ---- padding.  hdr = iterator->_rtheader = h, iterator->_arg = h + a.
   pad = ((unsigned long) iterator->_arg - (unsigned long) iterator->_rtheader) & (align - 1) *)
Lemma land_s31_range a b : 0 <= a -> 0 <= b < 2147483648 -> 0 <= Z.land a b < 2147483648.
Proof.
  intros Ha Hb. assert (H0 : 0 <= Z.land a b) by (apply Z.land_nonneg; lia).
  split; [ exact H0 | ].
  destruct (Z.eq_dec (Z.land a b) 0) as [E | E]; [ lia | ].
  change 2147483648 with (2 ^ 31). apply Z.log2_lt_pow2; [ lia | ].
  pose proof (Z.log2_land a b Ha (proj1 Hb)) as Hl.
  assert (Lb : Z.log2 b < 31).
  { destruct (Z.eq_dec b 0) as [-> | Nb]; [ cbn; lia | ]. apply Z.log2_lt_pow2; [ lia | ]. change (2 ^ 31) with 2147483648. lia. }
  lia.
Qed.

Lemma site_rtnext_pad rho h a al :
  rho "iterator->_rtheader" = h -> rho "iterator->_arg" = h + a -> rho "align" = al ->
  0 <= h -> 0 <= a -> h + a < 2 ^ 64 -> 1 <= al < 2 ^ 31 ->
  ceval rho m (site NEXT "set:pad#0") = Some (Z.land a (al - 1)).
Proof.
  intros Hh Ha Hal Hh0 Ha0 Hb Hal0; nums.
  pose proof (land_s31_range a (al - 1) Ha0 ltac:(lia)) as Hl.
  site_unfold NEXT. rewrite Hh, Ha, Hal. wrap_ids.
  replace (h + a - h) with a by lia. wrap_ids. reflexivity.
Qed.

(* a mask with align - 1 is the remainder modulo align exactly for powers of two: the model's  pad := a0 mod align *)
Lemma land_pow2_mod a k : 0 <= k -> Z.land a (2 ^ k - 1) = a mod 2 ^ k.
Proof. intros Hk. replace (2 ^ k - 1) with (Z.ones k) by (rewrite Z.ones_equiv; lia). apply Z.land_ones. exact Hk. Qed.

Lemma site_rtnext_pad_mod rho h a al :
  rho "iterator->_rtheader" = h -> rho "iterator->_arg" = h + a -> rho "align" = al ->
  0 <= h -> 0 <= a -> h + a < 2 ^ 64 -> In al [1; 2; 4; 8] ->
  ceval rho m (site NEXT "set:pad#0") = Some (a mod al).
Proof.
  intros Hh Ha Hal Hh0 Ha0 Hb Hin.
  rewrite (site_rtnext_pad rho h a al) by (try assumption; cbn [In] in Hin; nums; lia).
  f_equal. cbn [In] in Hin. destruct Hin as [<- | [<- | [<- | [<- | []]]]].
  - apply (land_pow2_mod a 0). lia.
  - apply (land_pow2_mod a 1). lia.
  - apply (land_pow2_mod a 2). lia.
  - apply (land_pow2_mod a 3). lia.
Qed.

(* ... and ONLY then: with an alignment that is not a power of two (none in radiotap_ns; a registered vendor namespace could have
   one) the code's mask and the model's remainder differ *)
Lemma site_rtnext_pad_mask_is_not_mod_refuted :
  ceval (upd (upd (upd (fun _ => 0) "iterator->_rtheader" 4096) "iterator->_arg" (4096 + 3)) "align" 3) m (site NEXT "set:pad#0") = Some 2
  /\ 3 mod 3 = 0.
Proof. split; reflexivity. Qed.

(* if (pad) iterator->_arg += align - pad;     model: a := if pad =? 0 then a0 else a0 + (align - pad) *)
Lemma site_rtnext_if5_arg rho h a al pad :
  rho "iterator->_arg" = h + a -> rho "align" = al -> rho "pad" = pad ->
  0 <= h -> 0 <= a -> h + a < 2 ^ 62 -> 0 <= pad < al -> al < 2 ^ 31 ->
  ceval rho m (site NEXT "if#5") = Some pad /\
  ceval rho m (site NEXT "upd:iterator->_arg#0") = Some (h + (a + (al - pad))).
Proof.
  intros Ha Hal Hp Hh0 Ha0 Hb Hp0 Hal0; nums.
  split; site_unfold NEXT; rewrite ?Ha, ?Hal, ?Hp; wrap_ids; [reflexivity | f_equal; lia].
Qed.

(* ---- the vendor namespace argument (bit 30).  The header octets are buf at address h; arg = h + a; mx = iterator->_max_length.
   if ((unsigned long) iterator->_arg + size - (unsigned long) iterator->_rtheader > (unsigned long) iterator->_max_length) return -EINVAL;
   model: if r_max it <? a + size then End (- EINVAL) *)
Lemma site_rtnext_if7 rho h a sz mx :
  rho "iterator->_rtheader" = h -> rho "iterator->_arg" = h + a -> rho "size" = sz -> rho "iterator->_max_length" = mx ->
  0 <= h -> 0 <= a -> h + a < 2 ^ 62 -> 0 <= sz < 2 ^ 31 -> 0 <= mx < 2 ^ 31 ->
  ceval rho m (site NEXT "if#7") = Some (b2z (mx <? a + sz)) /\ ceval rho m (site NEXT "ret#2") = Some (- EINVAL).
Proof.
  intros Hh Ha Hs Hmx Hh0 Ha0 Hb Hs0 Hm0; nums. split; [ | reflexivity].
  site_unfold NEXT. rewrite Hh, Ha, Hs, Hmx. wrap_ids.
  replace (h + a + sz - h) with (a + sz) by lia. wrap_ids. rewrite Z.gtb_ltb. reflexivity.
Qed.

(* an _arg BELOW the header (the model's r_arg = None: _arg was set from a NULL _next_ns_data, or from any address before the
   header): the unsigned difference wraps to at least 2^63, both bounds tests fail - the model's  None => End (- EINVAL) *)
Lemma site_rtnext_bounds_below_header rho h arg sz mx :
  rho "iterator->_rtheader" = h -> rho "iterator->_arg" = arg -> rho "size" = sz -> rho "iterator->_max_length" = mx ->
  0 <= arg -> arg + sz < h -> h < 2 ^ 62 -> 0 <= sz < 2 ^ 31 -> 0 <= mx < 2 ^ 31 ->
  ceval rho m (site NEXT "if#7") = Some 1 /\ ceval rho m (site NEXT "if#9") = Some 1.
Proof.
  intros Hh Ha Hs Hmx Ha0 Hlt Hh0 Hs0 Hm0; nums.
  split; site_unfold NEXT; rewrite ?Hh, ?Ha, ?Hs, ?Hmx; wrap_ids.
  - unfold arith; cbn [c_signed]. unfold modulus; cbn [c_bits]. nums.
    replace ((arg + sz - h) mod 18446744073709551616) with (arg + sz - h + 18446744073709551616)
      by (apply Z.mod_unique with (q := -1); lia).
    rewrite gtb_true by lia. reflexivity.
  - unfold arith; cbn [c_signed]. unfold modulus; cbn [c_bits]. nums.
    replace ((arg - h) mod 18446744073709551616) with (arg - h + 18446744073709551616)
      by (apply Z.mod_unique with (q := -1); lia).
    rewrite gtb_true by lia. reflexivity.
Qed.

(* oui = (arg[0] << 16) | (arg[1] << 8) | arg[2];  subns = arg[3];   (arg = iterator->_arg)
   vnslen = get_unaligned_le16(iterator->_arg + 4);
   model: rd_bytes rd 4 a (the four octets are read, their value is unused: no vendor namespace is registered), rd_le rd 2 (a + 4) *)
Lemma site_rtnext_vendor_loads rho h buf a :
  holds m h buf -> wfbytes buf -> rho "iterator->_arg" = h + a ->
  0 <= h -> 0 <= a -> h + a < 2 ^ 62 -> a + 6 <= zlen buf ->
  ceval rho m (site NEXT "set:oui#0") = Some (Z.lor (Z.lor (znth buf a * 2 ^ 16) (znth buf (a + 1) * 2 ^ 8)) (znth buf (a + 2))) /\
  ceval rho m (site NEXT "set:subns#0") = Some (znth buf (a + 3)) /\
  ceval rho m (site NEXT "set:vnslen#0") = Some (le16 buf (a + 4)).
Proof.
  intros Hm Hwf Ha Hh0 Ha0 Hb Hl; nums.
  pose proof (wfbytes_znth buf a Hwf ltac:(lia)) as B0. pose proof (wfbytes_znth buf (a + 1) Hwf ltac:(lia)) as B1.
  pose proof (wfbytes_znth buf (a + 2) Hwf ltac:(lia)) as B2. pose proof (wfbytes_znth buf (a + 3) Hwf ltac:(lia)) as B3.
  pose proof (le16_range buf (a + 4) Hwf ltac:(lia) ltac:(lia)) as B4.
  repeat split; site_unfold NEXT; rewrite Ha; wrap_ids; cbv beta iota.
  - replace (h + a + 1) with (h + (a + 1)) by lia. replace (h + a + 2) with (h + (a + 2)) by lia.
    rewrite !(ld8 m h buf) by (assumption || lia). cbv beta iota. wrap_ids. cbn [c_bits].
    change ((16 <? 0) || (32 <=? 16)) with false. change ((8 <? 0) || (32 <=? 8)) with false.
    rewrite !(ltb_false _ 0) by lia. cbn [orb]. cbv beta iota.
    change (2 ^ 16) with 65536. change (2 ^ 8) with 256. wrap_ids. cbv beta iota.
    assert (R1 : 0 <= Z.lor (znth buf a * 65536) (znth buf (a + 1) * 256) < 16777216).
    { split; [apply Z.lor_nonneg; lia | ].
      destruct (Z.eq_dec (Z.lor (znth buf a * 65536) (znth buf (a + 1) * 256)) 0) as [E | E]; [lia | ].
      change 16777216 with (2 ^ 24). apply Z.log2_lt_pow2; [pose proof (Z.lor_nonneg (znth buf a * 65536) (znth buf (a + 1) * 256)); lia | ].
      rewrite Z.log2_lor by lia.
      assert (L1 : Z.log2 (znth buf a * 65536) < 24).
      { destruct (Z.eq_dec (znth buf a) 0) as [-> | N]; [cbn; lia | ]. apply Z.log2_lt_pow2; [lia | ]. change (2 ^ 24) with 16777216. lia. }
      assert (L2 : Z.log2 (znth buf (a + 1) * 256) < 24).
      { destruct (Z.eq_dec (znth buf (a + 1)) 0) as [-> | N]; [cbn; lia | ]. apply Z.log2_lt_pow2; [lia | ]. change (2 ^ 24) with 16777216. lia. }
      lia. }
    wrap_ids. cbv beta iota.
    assert (R2 : 0 <= Z.lor (Z.lor (znth buf a * 65536) (znth buf (a + 1) * 256)) (znth buf (a + 2)) < 16777216).
    { split; [apply Z.lor_nonneg; lia | ].
      set (x := Z.lor (znth buf a * 65536) (znth buf (a + 1) * 256)) in *.
      destruct (Z.eq_dec (Z.lor x (znth buf (a + 2))) 0) as [E | E]; [lia | ].
      change 16777216 with (2 ^ 24). apply Z.log2_lt_pow2; [pose proof (Z.lor_nonneg x (znth buf (a + 2))); lia | ].
      rewrite Z.log2_lor by lia.
      assert (L1 : Z.log2 x < 24).
      { destruct (Z.eq_dec x 0) as [-> | N]; [cbn; lia | ]. apply Z.log2_lt_pow2; [lia | ]. change (2 ^ 24) with 16777216. lia. }
      assert (L2 : Z.log2 (znth buf (a + 2)) < 24).
      { destruct (Z.eq_dec (znth buf (a + 2)) 0) as [-> | N]; [cbn; lia | ]. apply Z.log2_lt_pow2; [lia | ]. change (2 ^ 24) with 16777216. lia. }
      lia. }
    wrap_ids. reflexivity.
  - replace (h + a + 3) with (h + (a + 3)) by lia. rewrite (ld8 m h buf) by (assumption || lia). cbv beta iota. wrap_ids. reflexivity.
  - replace (h + a + 4) with (h + (a + 4)) by lia. rewrite (ld16 m h buf) by (assumption || lia). cbv beta iota. wrap_ids. reflexivity.
Qed.

(* iterator->_next_ns_data = iterator->_arg + size + vnslen;  if (!iterator->current_namespace) size += vnslen;
   model: r_nnd := Some (a + size + vnslen), size' := size + vnslen (the model has no vendor namespace: always NULL here) *)
Lemma site_rtnext_vendor_sizes rho h a sz vl ns :
  rho "iterator->_arg" = h + a -> rho "size" = sz -> rho "vnslen" = vl -> rho "iterator->current_namespace" = ns ->
  0 <= h -> 0 <= a -> h + a < 2 ^ 62 -> 0 <= sz < 2 ^ 30 -> 0 <= vl < 2 ^ 16 -> 0 <= ns < 2 ^ 64 ->
  ceval rho m (site NEXT "set:iterator->_next_ns_data#0") = Some (h + (a + sz + vl)) /\
  ceval rho m (site NEXT "if#8") = Some (b2z (ns =? 0)) /\
  ceval rho m (site NEXT "upd:size#0") = Some (sz + vl).
Proof.
  intros Ha Hs Hv Hn Hh0 Ha0 Hb Hs0 Hv0 Hn0; nums.
  repeat split; site_unfold NEXT; rewrite ?Ha, ?Hs, ?Hv, ?Hn; wrap_ids; [f_equal; lia | reflexivity | reflexivity].
Qed.

(* ---- the argument handed out, and the step over it
   iterator->this_arg_index = iterator->_arg_index; iterator->this_arg = iterator->_arg; iterator->this_arg_size = size;
   iterator->_arg += size;  if ((unsigned long) iterator->_arg - (unsigned long) iterator->_rtheader > (unsigned long) iterator->_max_length) return -EINVAL;
   model: Hit (r_idx it) a,  a' := a + size,  if r_max it <? a' then End (- EINVAL) *)
Lemma site_rtnext_this_arg rho h a sz idx :
  rho "iterator->_arg" = h + a -> rho "size" = sz -> rho "iterator->_arg_index" = idx ->
  0 <= h -> 0 <= a -> h + a < 2 ^ 62 -> 0 <= sz < 2 ^ 31 -> - 2 ^ 31 <= idx < 2 ^ 31 ->
  ceval rho m (site NEXT "set:iterator->this_arg_index#0") = Some idx /\
  ceval rho m (site NEXT "set:iterator->this_arg#0") = Some (h + a) /\
  ceval rho m (site NEXT "set:iterator->this_arg_size#0") = Some sz /\
  ceval rho m (site NEXT "upd:iterator->_arg#1") = Some (h + (a + sz)).
Proof.
  intros Ha Hs Hi Hh0 Ha0 Hb Hs0 Hi0; nums.
  repeat split; site_unfold NEXT; rewrite ?Ha, ?Hs, ?Hi; wrap_ids; try reflexivity. f_equal; lia.
Qed.

Lemma site_rtnext_if9 rho h a mx :
  rho "iterator->_rtheader" = h -> rho "iterator->_arg" = h + a -> rho "iterator->_max_length" = mx ->
  0 <= h -> 0 <= a -> h + a < 2 ^ 64 -> 0 <= mx < 2 ^ 31 ->
  ceval rho m (site NEXT "if#9") = Some (b2z (mx <? a)) /\ ceval rho m (site NEXT "ret#3") = Some (- EINVAL).
Proof.
  intros Hh Ha Hmx Hh0 Ha0 Hb Hm0; nums. split; [ | reflexivity].
  site_unfold NEXT. rewrite Hh, Ha, Hmx. wrap_ids.
  replace (h + a - h) with a by lia. wrap_ids. rewrite Z.gtb_ltb. reflexivity.
Qed.

(* ---- the second switch, read off the translated body:  case 30 ... goto next_entry;  case 29 ... goto next_entry;
   case 31 ... break;  default: hit = 1;  next_entry: shifter >>= 1; index++;   The gotos, the pointer increment
   iterator->_next_bitmap++ and the label are SOther nodes IN PLACE (the statements after the label are translated in place, in the
   default: a goto next_entry "continues" there). *)
Definition rtnext_switch1 : cstmt := nth 16 rtnext_loop_body SBreak.
Definition rtnext_case2_vendor : list cstmt :=
  [SSet "set:iterator->_reset_on_ext#0" "iterator->_reset_on_ext" (site NEXT "set:iterator->_reset_on_ext#0");
   SSet "set:iterator->is_radiotap_ns#0" "iterator->is_radiotap_ns" (site NEXT "set:iterator->is_radiotap_ns#0");
   SSet "set:iterator->this_arg_index#1" "iterator->this_arg_index" (site NEXT "set:iterator->this_arg_index#1");
   SIf "if#10" (site NEXT "if#10") [SSet "set:hit#0" "hit" (site NEXT "set:hit#0")] [];
   SOther "goto next_entry"].
Definition rtnext_case2_rtns : list cstmt :=
  [SSet "set:iterator->_reset_on_ext#1" "iterator->_reset_on_ext" (site NEXT "set:iterator->_reset_on_ext#1");
   SSet "set:iterator->current_namespace#1" "iterator->current_namespace" (site NEXT "set:iterator->current_namespace#1");
   SSet "set:iterator->is_radiotap_ns#1" "iterator->is_radiotap_ns" (site NEXT "set:iterator->is_radiotap_ns#1");
   SOther "goto next_entry"].
Definition rtnext_case2_ext : list cstmt :=
  [SCall "call:__uint32_identity#0" "__uint32_identity" [CLoad (mkty false 32) (CVar (mkty false 64) "iterator->_next_bitmap")];
   SSet "set:iterator->_bitmap_shifter#0" "iterator->_bitmap_shifter" (site NEXT "set:iterator->_bitmap_shifter#0");
   SSet "upd:iterator->_next_bitmap#0" "iterator->_next_bitmap" (site NEXT "upd:iterator->_next_bitmap#0");
   SIf "if#11" (site NEXT "if#11")
     [SSet "set:iterator->_arg_index#0" "iterator->_arg_index" (site NEXT "set:iterator->_arg_index#0")]
     [SSet "upd:iterator->_arg_index#0" "iterator->_arg_index" (site NEXT "upd:iterator->_arg_index#0")];
   SSet "set:iterator->_reset_on_ext#2" "iterator->_reset_on_ext" (site NEXT "set:iterator->_reset_on_ext#2");
   SBreak].
Definition rtnext_case2_default : list cstmt :=
  [SSet "set:hit#1" "hit" (site NEXT "set:hit#1");
   SOther "label next_entry";
   SSet "upd:iterator->_bitmap_shifter#0" "iterator->_bitmap_shifter" (site NEXT "upd:iterator->_bitmap_shifter#0");
   SSet "upd:iterator->_arg_index#1" "iterator->_arg_index" (site NEXT "upd:iterator->_arg_index#1")].

Lemma rtnext_switch1_shape :
  rtnext_switch1 = SSwitch "switch#1" (site NEXT "switch#1")
                     [([30], rtnext_case2_vendor); ([29], rtnext_case2_rtns); ([31], rtnext_case2_ext)] rtnext_case2_default.
Proof. reflexivity. Qed.

Lemma rtnext_switch1_pick v :
  pick_case v [([30], rtnext_case2_vendor); ([29], rtnext_case2_rtns); ([31], rtnext_case2_ext)] rtnext_case2_default =
  if v =? c_IEEE80211_RADIOTAP_VENDOR_NAMESPACE then rtnext_case2_vendor
  else if v =? c_IEEE80211_RADIOTAP_RADIOTAP_NAMESPACE then rtnext_case2_rtns
  else if v =? c_IEEE80211_RADIOTAP_EXT then rtnext_case2_ext else rtnext_case2_default.
Proof.
  change c_IEEE80211_RADIOTAP_RADIOTAP_NAMESPACE with 29. change c_IEEE80211_RADIOTAP_EXT with 31.
  change c_IEEE80211_RADIOTAP_VENDOR_NAMESPACE with 30.
  cbn [pick_case existsb]. rewrite !orb_false_r. reflexivity.
Qed.

(* the statement after the second switch, and the end of the loop body *)
Lemma rtnext_after_switch1 :
  skipn 17 rtnext_loop_body = [SIf "if#12" (site NEXT "if#12") [SRet "ret#4" (Some (site NEXT "ret#4"))] []].
Proof. reflexivity. Qed.

(* case IEEE80211_RADIOTAP_VENDOR_NAMESPACE: _reset_on_ext = 1; is_radiotap_ns = 0; this_arg_index = 30; if (!ns) hit = 1;
   model: r_reset := true, r_ns := false, Hit c_IEEE80211_RADIOTAP_VENDOR_NAMESPACE a (no vendor namespace: ns is NULL) *)
Lemma site_rtnext_vendor_case rho ns :
  rho "iterator->current_namespace" = ns -> 0 <= ns < 2 ^ 64 ->
  ceval rho m (site NEXT "set:iterator->_reset_on_ext#0") = Some 1 /\
  ceval rho m (site NEXT "set:iterator->is_radiotap_ns#0") = Some 0 /\
  ceval rho m (site NEXT "set:iterator->this_arg_index#1") = Some c_IEEE80211_RADIOTAP_VENDOR_NAMESPACE /\
  ceval rho m (site NEXT "if#10") = Some (b2z (ns =? 0)) /\
  ceval rho m (site NEXT "set:hit#0") = Some 1.
Proof. intros <- Hn; nums. repeat split; site_unfold NEXT; wrap_ids; reflexivity. Qed.

(* case IEEE80211_RADIOTAP_RADIOTAP_NAMESPACE: _reset_on_ext = 1; current_namespace = &radiotap_ns; is_radiotap_ns = 1;
   model: r_reset := true, r_ns := true (no hit: the loop goes on) *)
Lemma site_rtnext_rtns_case rho rns :
  rho "&radiotap_ns" = rns -> 0 <= rns < 2 ^ 64 ->
  ceval rho m (site NEXT "set:iterator->_reset_on_ext#1") = Some 1 /\
  ceval rho m (site NEXT "set:iterator->current_namespace#1") = Some rns /\
  ceval rho m (site NEXT "set:iterator->is_radiotap_ns#1") = Some 1.
Proof. intros <- Hn; nums. repeat split; site_unfold NEXT; wrap_ids; reflexivity. Qed.

(* case IEEE80211_RADIOTAP_EXT: _bitmap_shifter = get_unaligned_le32(_next_bitmap); _next_bitmap++;
   if (_reset_on_ext) _arg_index = 0; else _arg_index++;  _reset_on_ext = 0;     (_next_bitmap = h + nb, rs = _reset_on_ext)
   model: w := rd_le rd 4 (r_nextbm it); r_idx := if r_reset it then 0 else r_idx it + 1; r_shift := w; r_reset := false
   (r_nextbm := r_nextbm it + 4 is the SOther increment: not a site) *)
Lemma site_rtnext_ext_case rho h buf nb rs idx :
  holds m h buf -> wfbytes buf -> rho "iterator->_next_bitmap" = h + nb -> rho "iterator->_reset_on_ext" = rs ->
  rho "iterator->_arg_index" = idx ->
  0 <= h -> 0 <= nb -> h + nb < 2 ^ 62 -> nb + 4 <= zlen buf -> - 2 ^ 31 <= rs < 2 ^ 31 -> - 2 ^ 31 <= idx < 2 ^ 31 - 1 ->
  ceval rho m (site NEXT "set:iterator->_bitmap_shifter#0") = Some (le32 buf nb) /\
  ceval rho m (site NEXT "if#11") = Some rs /\
  ceval rho m (site NEXT "set:iterator->_arg_index#0") = Some 0 /\
  ceval rho m (site NEXT "upd:iterator->_arg_index#0") = Some (idx + 1) /\
  ceval rho m (site NEXT "set:iterator->_reset_on_ext#2") = Some 0.
Proof.
  intros Hm Hwf Hnb Hrs Hi Hh0 Hn0 Hb Hl Hr0 Hi0; nums.
  pose proof (le32_range buf nb Hwf ltac:(lia) ltac:(lia)) as R.
  repeat split; try reflexivity; site_unfold NEXT; rewrite ?Hnb, ?Hrs, ?Hi; wrap_ids; try reflexivity.
  cbv beta iota. rewrite (ld32 m h buf) by (assumption || lia). cbv beta iota. wrap_ids. reflexivity.
Qed.

(* find_ns(iterator, oui, subns), inlined: current_namespace = NULL; if (!iterator->_vns) return;  - libwifi registers no vendor
   namespaces (vns = NULL), so the search loop behind it is not reached; model: r_ns := false on the vendor path *)
Lemma site_rtnext_find_ns rho vns :
  rho "iterator->_vns" = vns -> 0 <= vns < 2 ^ 64 ->
  ceval rho m (site NEXT "find_ns#0:set:iterator->current_namespace#0") = Some 0 /\
  ceval rho m (site NEXT "find_ns#0:if#0") = Some (b2z (vns =? 0)).
Proof. intros <- Hv; nums. split; [reflexivity | ]. site_unfold NEXT. wrap_ids. reflexivity. Qed.

(* iterator->_next_bitmap++ (a uint32_t pointer): the address moves by 4 - the model's r_nextbm it + 4 *)
Lemma site_rtnext_next_bitmap_step rho nb :
  rho "iterator->_next_bitmap" = nb -> 0 <= nb < 2 ^ 62 ->
  ceval rho m (site NEXT "upd:iterator->_next_bitmap#0") = Some (nb + 4).
Proof. intros <- Hn; nums. site_unfold NEXT; wrap_ids; reflexivity. Qed.

(* default: hit = 1;   next_entry: iterator->_bitmap_shifter >>= 1; iterator->_arg_index++;
   model: Hit (r_idx it) a, and shift_next: r_idx := r_idx it + 1, r_shift := Z.shiftr (r_shift it) 1 *)
Lemma site_rtnext_next_entry rho sh idx :
  rho "iterator->_bitmap_shifter" = sh -> rho "iterator->_arg_index" = idx ->
  0 <= sh < 2 ^ 32 -> - 2 ^ 31 <= idx < 2 ^ 31 - 1 ->
  ceval rho m (site NEXT "set:hit#1") = Some 1 /\
  ceval rho m (site NEXT "upd:iterator->_bitmap_shifter#0") = Some (Z.shiftr sh 1) /\
  ceval rho m (site NEXT "upd:iterator->_arg_index#1") = Some (idx + 1).
Proof.
  intros <- <- Hs Hi; nums. pose proof (shiftr1_u32 _ Hs) as R.
  repeat split; try reflexivity; site_unfold NEXT; wrap_ids; cbn [c_bits].
  - change ((1 <? 0) || (32 <=? 1)) with false. cbv beta iota. wrap_ids. reflexivity.
  - reflexivity.
Qed.

(* the index is an int: index + 1 at 2^31 - 1 is undefined behaviour (signed overflow), the site has no value there.  Reaching it
   needs 2^26 extended bitmap words. *)
Lemma site_rtnext_index_overflow_refuted :
  ceval (upd (fun _ => 0) "iterator->_arg_index" 2147483647) m (site NEXT "upd:iterator->_arg_index#1") = None.
Proof. reflexivity. Qed.

(* if (hit) return 0; *)
Lemma site_rtnext_if12 rho hit :
  rho "hit" = hit -> - 2 ^ 31 <= hit < 2 ^ 31 ->
  ceval rho m (site NEXT "if#12") = Some hit /\ ceval rho m (site NEXT "ret#4") = Some 0.
Proof. intros <- Hh; nums. split; [ | reflexivity]. site_unfold NEXT. wrap_ids. reflexivity. Qed.

(* with the alignment of ANY case of the first switch that the model can reach - 1 (bits 29, 31), 2 (bit 30), a table entry -
   the mask is the model's remainder *)
Lemma site_rtnext_pad_table rho h a idx :
  rho "iterator->_rtheader" = h -> rho "iterator->_arg" = h + a -> rho "align" = fst (table_entry idx) ->
  0 <= h -> 0 <= a -> h + a < 2 ^ 64 -> 0 <= idx < rtap_n_bits ->
  ceval rho m (site NEXT "set:pad#0") = Some (a mod fst (table_entry idx)).
Proof.
  intros Hh Ha Hal Hh0 Ha0 Hb Hi. apply (site_rtnext_pad_mod rho h a); try assumption.
  apply (rtap_entry_nibbles idx Hi).
Qed.

(* the three OUI octets do not overlap: the value is the 24-bit big-endian number *)
Lemma lor_shifted x y n : 0 <= n -> 0 <= y < 2 ^ n -> Z.lor (x * 2 ^ n) y = x * 2 ^ n + y.
Proof.
  intros Hn Hy.
  assert (L : Z.land (x * 2 ^ n) y = 0).
  { apply Z.bits_inj'. intros i Hi. rewrite Z.land_spec, Z.bits_0.
    destruct (Z.lt_ge_cases i n) as [Hlt | Hge].
    - rewrite Z.mul_pow2_bits_low by lia. reflexivity.
    - destruct (Z.eq_dec y 0) as [-> | Ny]; [rewrite Z.bits_0; apply andb_false_r | ].
      rewrite (Z.bits_above_log2 y i); [apply andb_false_r | lia | ].
      assert (Z.log2 y < n) by (apply Z.log2_lt_pow2; lia). lia. }
  rewrite <- Z.lxor_lor by exact L. symmetry. apply Z.add_nocarry_lxor. exact L.
Qed.

Lemma site_rtnext_oui_value b0 b1 b2 : 0 <= b1 < 256 -> 0 <= b2 < 256 ->
  Z.lor (Z.lor (b0 * 2 ^ 16) (b1 * 2 ^ 8)) b2 = b0 * 65536 + b1 * 256 + b2.
Proof.
  intros H1 H2.
  replace (Z.lor (b0 * 2 ^ 16) (b1 * 2 ^ 8)) with ((b0 * 256 + b1) * 2 ^ 8).
  - rewrite lor_shifted by (change (2 ^ 8) with 256; lia). change (2 ^ 8) with 256. lia.
  - rewrite lor_shifted by (change (2 ^ 16) with 65536; change (2 ^ 8) with 256; lia).
    change (2 ^ 16) with 65536; change (2 ^ 8) with 256. lia.
Qed.

End Next.

(* ================================================================ 2. ieee80211_radiotap_iterator_init
   The header octets are buf at address h = radiotap_header.  AS TRANSLATED the member addresses are NAMES, not sums: the loads go
   through "&radiotap_header->it_len" and "&radiotap_header->it_present"; that these are h + 2 and h + 4 (Gen/Layout.v
   off_ieee80211_radiotap_header__it_len / __it_present) is a HYPOTHESIS of the lemmas below, and the version is the named lvalue
   "radiotap_header->it_version" (no load): its being octet 0 of the header is likewise outside the translated term. *)
Section Init.
Variable m : memory.

Definition rtinit_const_sites : list (string * Z) :=
  [("ret#0", -22); ("ret#1", -22); ("ret#2", -22); ("ret#3", -22); ("ret#4", -22); ("ret#5", 0);
   ("set:iterator->_arg_index#0", 0); ("set:iterator->_reset_on_ext#0", 0); ("set:iterator->is_radiotap_ns#0", 1)].

Lemma site_rtinit_constants rho :
  map (fun kv => ceval rho m (site INIT (fst kv))) rtinit_const_sites = map (fun kv => Some (snd kv)) rtinit_const_sites.
Proof. reflexivity. Qed.

(* if (max_length < sizeof(struct ieee80211_radiotap_header)) return -EINVAL;   model: max_length <? 8 *)
Lemma site_rtinit_if0 rho mx :
  rho "max_length" = mx -> - 2 ^ 31 <= mx < 2 ^ 31 ->
  ceval rho m (site INIT "if#0") = Some (b2z (mx <? sizeof_ieee80211_radiotap_header)) /\
  ceval rho m (site INIT "ret#0") = Some (- EINVAL).
Proof. intros <- Hm; nums. split; [ | reflexivity]. site_unfold INIT. wrap_ids. reflexivity. Qed.

(* if (radiotap_header->it_version) return -EINVAL;   model: negb (ver =? 0) *)
Lemma site_rtinit_if1 rho ver :
  rho "radiotap_header->it_version" = ver -> 0 <= ver < 256 ->
  ceval rho m (site INIT "if#1") = Some ver /\ ceval rho m (site INIT "ret#1") = Some (- EINVAL).
Proof. intros <- Hv. split; [ | reflexivity]. site_unfold INIT. wrap_ids. reflexivity. Qed.

(* if (max_length < get_unaligned_le16(&radiotap_header->it_len)) return -EINVAL;  iterator->_max_length = that same value;
   model: itlen := rd_le rd 2 2;  max_length <? itlen;  r_max := itlen *)
Lemma site_rtinit_it_len rho h buf mx :
  holds m h buf -> wfbytes buf -> rho "&radiotap_header->it_len" = h + off_ieee80211_radiotap_header__it_len ->
  rho "max_length" = mx -> 0 <= h < 2 ^ 62 -> 4 <= zlen buf -> - 2 ^ 31 <= mx < 2 ^ 31 ->
  ceval rho m (site INIT "if#2") = Some (b2z (mx <? le16 buf 2)) /\
  ceval rho m (site INIT "ret#2") = Some (- EINVAL) /\
  ceval rho m (site INIT "set:iterator->_max_length#0") = Some (le16 buf 2).
Proof.
  intros Hm Hwf Ha Hmx Hh Hl Hm0; nums. change off_ieee80211_radiotap_header__it_len with 2 in Ha.
  pose proof (le16_range buf 2 Hwf ltac:(lia) ltac:(lia)) as R.
  repeat split; try reflexivity; site_unfold INIT; rewrite Ha, ?Hmx; wrap_ids; cbv beta iota;
    rewrite (ld16 m h buf) by (assumption || lia); cbv beta iota; wrap_ids; reflexivity.
Qed.

(* iterator->_bitmap_shifter = get_unaligned_le32(&radiotap_header->it_present);  iterator->_next_bitmap = &radiotap_header->it_present;
   model: present := rd_le rd 4 4;  r_nextbm := 8 (= 4, then the pointer increment  iterator->_next_bitmap++  which is an SOther) *)
Lemma site_rtinit_present rho h buf :
  holds m h buf -> wfbytes buf -> rho "&radiotap_header->it_present" = h + off_ieee80211_radiotap_header__it_present ->
  0 <= h < 2 ^ 62 -> 8 <= zlen buf ->
  ceval rho m (site INIT "set:iterator->_bitmap_shifter#0") = Some (le32 buf 4) /\
  ceval rho m (site INIT "set:iterator->_next_bitmap#0") = Some (h + 4).
Proof.
  intros Hm Hwf Ha Hh Hl; nums. change off_ieee80211_radiotap_header__it_present with 4 in Ha.
  pose proof (le32_range buf 4 Hwf ltac:(lia) ltac:(lia)) as R.
  split; site_unfold INIT; rewrite Ha; wrap_ids; [ | reflexivity]. cbv beta iota.
  rewrite (ld32 m h buf) by (assumption || lia). cbv beta iota. wrap_ids. reflexivity.
Qed.

Lemma site_rtinit_next_bitmap_step rho nb :
  rho "iterator->_next_bitmap" = nb -> 0 <= nb < 2 ^ 62 ->
  ceval rho m (site INIT "upd:iterator->_next_bitmap#0") = Some (nb + 4).
Proof. intros <- Hn; nums. site_unfold INIT; wrap_ids; reflexivity. Qed.

(* iterator->_rtheader = radiotap_header;  iterator->_arg = (uint8_t * ) radiotap_header + sizeof( *radiotap_header);
   iterator->_vns = vns;  iterator->current_namespace = &radiotap_ns;  (and, at the end)  iterator->this_arg = iterator->_arg;
   model: r_arg := Some 8 (sizeof_ieee80211_radiotap_header), r_ns := true *)
Lemma site_rtinit_pointers rho h vns rns arg :
  rho "radiotap_header" = h -> rho "vns" = vns -> rho "&radiotap_ns" = rns -> rho "iterator->_arg" = arg ->
  0 <= h < 2 ^ 62 -> 0 <= vns < 2 ^ 64 -> 0 <= rns < 2 ^ 64 -> 0 <= arg < 2 ^ 64 ->
  ceval rho m (site INIT "set:iterator->_rtheader#0") = Some h /\
  ceval rho m (site INIT "set:iterator->_arg#0") = Some (h + sizeof_ieee80211_radiotap_header) /\
  ceval rho m (site INIT "set:iterator->_vns#0") = Some vns /\
  ceval rho m (site INIT "set:iterator->current_namespace#0") = Some rns /\
  ceval rho m (site INIT "set:iterator->this_arg#0") = Some arg.
Proof.
  intros <- <- <- <- Hh Hv Hr Ha; nums. repeat split; site_unfold INIT; wrap_ids; reflexivity.
Qed.

(* if (iterator->_bitmap_shifter & (1 << IEEE80211_RADIOTAP_EXT))   model: Z.land present bit31 =? 0  (the other branch) *)
Lemma land_pow2_bit x k : 0 <= k -> Z.land x (2 ^ k) = if Z.testbit x k then 2 ^ k else 0.
Proof.
  intros Hk. apply Z.bits_inj'. intros n Hn. rewrite Z.land_spec, Z.pow2_bits_eqb by exact Hk.
  destruct (Z.eqb_spec k n) as [<- | Hne].
  - destruct (Z.testbit x k); [rewrite Z.pow2_bits_true by exact Hk | rewrite Z.bits_0]; reflexivity.
  - rewrite andb_false_r. destruct (Z.testbit x k); [rewrite Z.pow2_bits_false by exact Hne | rewrite Z.bits_0]; reflexivity.
Qed.

Lemma land_bit31_range x : 0 <= x < 4294967296 -> 0 <= Z.land x 2147483648 < 4294967296.
Proof.
  intros Hx. change 2147483648 with (2 ^ 31). rewrite land_pow2_bit by lia.
  destruct (Z.testbit x 31); change (2 ^ 31) with 2147483648; lia.
Qed.

Lemma site_rtinit_if3 rho sh :
  rho "iterator->_bitmap_shifter" = sh -> 0 <= sh < 2 ^ 32 ->
  ceval rho m (site INIT "if#3") = Some (Z.land sh bit31).
Proof.
  intros <- Hs; nums. pose proof (land_bit31_range _ Hs) as R.
  site_unfold INIT. wrap_ids. cbn [c_bits].
  change ((31 <? 0) || (32 <=? 31) || (1 <? 0)) with false. cbv beta iota.
  change (1 * 2 ^ 31) with 2147483648. rewrite arith_u32 by lia. cbv beta iota. wrap_ids. reflexivity.
Qed.

(* if ((unsigned long) iterator->_arg - (unsigned long) iterator->_rtheader + sizeof(uint32_t) > (unsigned long) iterator->_max_length)
     return -EINVAL;    before the loop (if#4) and in it (if#5);   model: itlen <? arg0 + 4  and  max <? arg' + 4 *)
Lemma site_rtinit_bound rho h a mx :
  rho "iterator->_rtheader" = h -> rho "iterator->_arg" = h + a -> rho "iterator->_max_length" = mx ->
  0 <= h -> 0 <= a -> h + a < 2 ^ 62 -> 0 <= mx < 2 ^ 31 ->
  ceval rho m (site INIT "if#4") = Some (b2z (mx <? a + 4)) /\ ceval rho m (site INIT "ret#3") = Some (- EINVAL) /\
  ceval rho m (site INIT "if#5") = Some (b2z (mx <? a + 4)) /\ ceval rho m (site INIT "ret#4") = Some (- EINVAL).
Proof.
  intros Hh Ha Hmx Hh0 Ha0 Hb Hm0; nums.
  repeat split; try reflexivity; site_unfold INIT; rewrite Hh, Ha, Hmx; wrap_ids;
    replace (h + a - h) with a by lia; wrap_ids; rewrite Z.gtb_ltb; reflexivity.
Qed.

(* while (get_unaligned_le32(iterator->_arg) & (1 << IEEE80211_RADIOTAP_EXT)) { iterator->_arg += sizeof(uint32_t); ... }
   iterator->_arg += sizeof(uint32_t);
   model (ext_chain): w := rd_le rd 4 arg;  Z.land w bit31 =? 0;  arg' := arg + 4;  finally  mk (a + 4) *)
Lemma site_rtinit_loop rho h buf a :
  holds m h buf -> wfbytes buf -> rho "iterator->_arg" = h + a ->
  0 <= h -> 0 <= a -> h + a < 2 ^ 62 -> a + 4 <= zlen buf ->
  ceval rho m (site INIT "loop#0") = Some (Z.land (le32 buf a) bit31) /\
  ceval rho m (site INIT "upd:iterator->_arg#0") = Some (h + (a + 4)) /\
  ceval rho m (site INIT "upd:iterator->_arg#1") = Some (h + (a + 4)).
Proof.
  intros Hm Hwf Ha Hh0 Ha0 Hb Hl; nums.
  pose proof (le32_range buf a Hwf ltac:(lia) ltac:(lia)) as R. pose proof (land_bit31_range _ R) as R'.
  repeat split; site_unfold INIT; rewrite Ha; wrap_ids; try (f_equal; lia). cbv beta iota.
  rewrite (ld32 m h buf) by (assumption || lia). cbv beta iota. wrap_ids. cbn [c_bits].
  change ((31 <? 0) || (32 <=? 31) || (1 <? 0)) with false. cbv beta iota.
  change (1 * 2 ^ 31) with 2147483648. rewrite arith_u32 by lia. cbv beta iota. wrap_ids. reflexivity.
Qed.

(* the statements of the body, in order: the two that are NOT sites are the increment of _next_bitmap and the loop itself (its
   condition contains a call, so the translator flattened it: its condition is the site loop#0, its two statements follow) *)
Lemma rtinit_body_keys :
  map stmt_key body_ieee80211_radiotap_iterator_init =
  ["if#0"; "if#1"; "call:__uint16_identity#0"; "if#2"; "set:iterator->_rtheader#0"; "call:__uint16_identity#1";
   "set:iterator->_max_length#0"; "set:iterator->_arg_index#0"; "call:__uint32_identity#0"; "set:iterator->_bitmap_shifter#0";
   "set:iterator->_arg#0"; "set:iterator->_reset_on_ext#0"; "set:iterator->_next_bitmap#0";
   "upd:iterator->_next_bitmap#0"; "set:iterator->_vns#0"; "set:iterator->current_namespace#0";
   "set:iterator->is_radiotap_ns#0"; "if#3"; "set:iterator->this_arg#0"; "ret#5"].
Proof. reflexivity. Qed.

Lemma rtinit_if3_branch_keys :
  match nth 17 body_ieee80211_radiotap_iterator_init SBreak with SIf _ _ a b => (map stmt_key a, b) | _ => ([], []) end =
  (["if#4"; "call:__uint32_identity#1"; "loop#0"; "upd:iterator->_arg#1"], []).
Proof. reflexivity. Qed.

End Init.

(* ================================================================ 3. summary
   Every key of the two site lists, in order, with the lemma that evaluates it.  Both equalities are of the WHOLE key list: a site
   added to or removed from the translated routine breaks them. *)
Theorem rtnext_sites_covered :
  map fst NEXT =
  [ "loop#0"; "decl:hit#0"; "decl:pad#0"; "decl:align#0"; "decl:size#0"; "decl:subns#0"      (* site_rtnext_constants *)
  ; "if#0"; "ret#0"                                                                          (* site_rtnext_if0 *)
  ; "if#1"                                                                                   (* site_rtnext_if1 *)
  ; "switch#0"                                                                               (* site_rtnext_switch; rtnext_switch0_shape, _pick *)
  ; "set:align#0"; "set:size#0"; "set:align#1"; "set:size#1"                                 (* site_rtnext_constants; rtnext_case_special_runs, _vendor_runs *)
  ; "if#2"                                                                                   (* site_rtnext_if2_null, site_rtnext_if2 *)
  ; "if#3"; "ret#1"                                                                          (* site_rtnext_if3 *)
  ; "set:align#2"                                                                            (* site_rtnext_constants *)
  ; "set:align#3"; "set:size#2"                                                              (* site_rtnext_align_size_load, _table *)
  ; "if#4"; "set:iterator->_arg#0"; "set:iterator->current_namespace#0"                      (* site_rtnext_if4 *)
  ; "set:pad#0"                                                                              (* site_rtnext_pad, _pad_mod, _pad_table *)
  ; "if#5"; "upd:iterator->_arg#0"                                                           (* site_rtnext_if5_arg *)
  ; "if#6"                                                                                   (* site_rtnext_switch *)
  ; "if#7"; "ret#2"                                                                          (* site_rtnext_if7, site_rtnext_bounds_below_header *)
  ; "set:oui#0"; "set:subns#0"                                                               (* site_rtnext_vendor_loads, site_rtnext_oui_value *)
  ; "find_ns#0:set:iterator->current_namespace#0"; "find_ns#0:if#0"                          (* site_rtnext_find_ns (find_ns inlined: no vendor namespaces registered) *)
  ; "find_ns#0:set:find_ns#0$i#0"; "find_ns#0:loop#0"; "find_ns#0:upd:find_ns#0$i#0"; "find_ns#0:if#1"; "find_ns#0:if#2"
  ; "find_ns#0:set:iterator->current_namespace#1"                                            (* the search loop: not reached with _vns = NULL *)
  ; "set:vnslen#0"                                                                           (* site_rtnext_vendor_loads *)
  ; "set:iterator->_next_ns_data#0"; "if#8"; "upd:size#0"                                    (* site_rtnext_vendor_sizes *)
  ; "set:iterator->this_arg_index#0"; "set:iterator->this_arg#0"; "set:iterator->this_arg_size#0"; "upd:iterator->_arg#1"
                                                                                             (* site_rtnext_this_arg *)
  ; "if#9"; "ret#3"                                                                          (* site_rtnext_if9, site_rtnext_bounds_below_header *)
  ; "switch#1"                                                                               (* site_rtnext_switch; rtnext_switch1_shape, _pick *)
  ; "set:iterator->_reset_on_ext#0"; "set:iterator->is_radiotap_ns#0"; "set:iterator->this_arg_index#1"; "if#10"; "set:hit#0"
                                                                                             (* site_rtnext_vendor_case *)
  ; "set:iterator->_reset_on_ext#1"; "set:iterator->current_namespace#1"; "set:iterator->is_radiotap_ns#1"
                                                                                             (* site_rtnext_rtns_case *)
  ; "set:iterator->_bitmap_shifter#0"; "upd:iterator->_next_bitmap#0"; "if#11"; "set:iterator->_arg_index#0"; "upd:iterator->_arg_index#0"
  ; "set:iterator->_reset_on_ext#2"                                                          (* site_rtnext_ext_case, site_rtnext_next_bitmap_step *)
  ; "set:hit#1"; "upd:iterator->_bitmap_shifter#0"; "upd:iterator->_arg_index#1"             (* site_rtnext_next_entry *)
  ; "if#12"; "ret#4" ]                                                                       (* site_rtnext_if12; rtnext_after_switch1 *)
  /\ length NEXT = 69%nat.
Proof. split; reflexivity. Qed.

Theorem rtinit_sites_covered :
  map fst INIT =
  [ "if#0"; "ret#0"                                                                          (* site_rtinit_if0 *)
  ; "if#1"; "ret#1"                                                                          (* site_rtinit_if1 *)
  ; "if#2"; "ret#2"                                                                          (* site_rtinit_it_len *)
  ; "set:iterator->_rtheader#0"                                                              (* site_rtinit_pointers *)
  ; "set:iterator->_max_length#0"                                                            (* site_rtinit_it_len *)
  ; "set:iterator->_arg_index#0"                                                             (* site_rtinit_constants *)
  ; "set:iterator->_bitmap_shifter#0"                                                        (* site_rtinit_present *)
  ; "set:iterator->_arg#0"                                                                   (* site_rtinit_pointers *)
  ; "set:iterator->_reset_on_ext#0"                                                          (* site_rtinit_constants *)
  ; "set:iterator->_next_bitmap#0"; "upd:iterator->_next_bitmap#0"                           (* site_rtinit_present, site_rtinit_next_bitmap_step *)
  ; "set:iterator->_vns#0"; "set:iterator->current_namespace#0"                              (* site_rtinit_pointers *)
  ; "set:iterator->is_radiotap_ns#0"                                                         (* site_rtinit_constants *)
  ; "if#3"                                                                                   (* site_rtinit_if3 *)
  ; "if#4"; "ret#3"                                                                          (* site_rtinit_bound *)
  ; "loop#0"; "upd:iterator->_arg#0"                                                         (* site_rtinit_loop *)
  ; "if#5"; "ret#4"                                                                          (* site_rtinit_bound *)
  ; "upd:iterator->_arg#1"                                                                   (* site_rtinit_loop *)
  ; "set:iterator->this_arg#0"                                                               (* site_rtinit_pointers *)
  ; "ret#5" ]                                                                                (* site_rtinit_constants *)
  /\ length INIT = 27%nat.
Proof. split; reflexivity. Qed.

(* NOT covered: 0 of the 60 + 26 named sites.  What is not covered are the statements of the bodies that have NO site: the SOther
   nodes.  next: 6 (four goto next_entry: after if#1, after "if (!align)", at the end of case 30 and of case 29 of the second
   switch; iterator->_next_bitmap++ in case 31; the label next_entry itself, whose statements follow it in place) - so the TARGET of
   the gotos and the +4 of _next_bitmap (the model's r_nextbm + 4) are not checked by any lemma, everything else of next is;
   init: 2 (iterator->_next_bitmap++, and the while loop as a statement - its condition and its two inner statements are sites). *)
Fixpoint others (s : cstmt) : list string :=
  match s with
  | SOther w => [w]
  | SIf _ _ a b => flat_map others a ++ flat_map others b
  | SLoop _ _ _ b st => flat_map others b ++ flat_map others st
  | SSwitch _ _ cs d => flat_map (fun c => let '(_, b) := c in flat_map others b) cs ++ flat_map others d
  | SInline _ b => flat_map others b
  | _ => []
  end.

Theorem rtiter_not_sites :
  flat_map others body_ieee80211_radiotap_iterator_next = ["goto next_entry"; "goto next_entry"; "ContinueStmt"; "ContinueStmt"; "goto next_entry"; "goto next_entry"; "label next_entry"] /\
  flat_map others body_ieee80211_radiotap_iterator_init = [].
Proof. split; reflexivity. Qed.

Print Assumptions holds_mem_at.
Print Assumptions site_rtnext_constants.
Print Assumptions site_rtnext_if0.
Print Assumptions site_rtnext_if1.
Print Assumptions site_rtnext_switch.
Print Assumptions site_rtnext_switch0_negative_index.
Print Assumptions rtnext_switch0_shape.
Print Assumptions rtnext_switch0_pick.
Print Assumptions rtnext_case_special_runs.
Print Assumptions rtnext_case_vendor_runs.
Print Assumptions rtnext_loop_body_keys.
Print Assumptions rtnext_if1_branch.
Print Assumptions site_rtnext_if2_null.
Print Assumptions site_rtnext_if2.
Print Assumptions site_rtnext_if3.
Print Assumptions site_rtnext_align_size_load.
Print Assumptions rtap_entry_nibbles.
Print Assumptions site_rtnext_align_size_table.
Print Assumptions site_rtnext_if4.
Print Assumptions site_rtnext_pad.
Print Assumptions site_rtnext_pad_mod.
Print Assumptions site_rtnext_pad_table.
Print Assumptions site_rtnext_pad_mask_is_not_mod_refuted.
Print Assumptions site_rtnext_if5_arg.
Print Assumptions site_rtnext_if7.
Print Assumptions site_rtnext_bounds_below_header.
Print Assumptions site_rtnext_vendor_loads.
Print Assumptions site_rtnext_oui_value.
Print Assumptions site_rtnext_vendor_sizes.
Print Assumptions site_rtnext_this_arg.
Print Assumptions site_rtnext_if9.
Print Assumptions rtnext_switch1_shape.
Print Assumptions rtnext_switch1_pick.
Print Assumptions rtnext_after_switch1.
Print Assumptions site_rtnext_vendor_case.
Print Assumptions site_rtnext_rtns_case.
Print Assumptions site_rtnext_ext_case.
Print Assumptions site_rtnext_next_entry.
Print Assumptions site_rtnext_next_bitmap_step.
Print Assumptions site_rtnext_find_ns.
Print Assumptions site_rtinit_next_bitmap_step.
Print Assumptions site_rtnext_index_overflow_refuted.
Print Assumptions site_rtnext_if12.
Print Assumptions site_rtinit_constants.
Print Assumptions site_rtinit_if0.
Print Assumptions site_rtinit_if1.
Print Assumptions site_rtinit_it_len.
Print Assumptions site_rtinit_present.
Print Assumptions site_rtinit_pointers.
Print Assumptions site_rtinit_if3.
Print Assumptions site_rtinit_bound.
Print Assumptions site_rtinit_loop.
Print Assumptions rtinit_body_keys.
Print Assumptions rtinit_if3_branch_keys.
Print Assumptions rtnext_sites_covered.
Print Assumptions rtinit_sites_covered.
Print Assumptions rtiter_not_sites.
