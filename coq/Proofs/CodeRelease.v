(* The release routines AS TRANSLATED (Gen/Sites.v: the body_libwifi_free_... lists): "every object lifecycle releases exactly
   what it allocated", on the code itself.

   A. For each of the 18 routines a theorem [code_free_<x>] : [releases body owned]: for EVERY memory, environment, initial trace
      and fuel >= 3 the run falls off the end of the body (nothing returned, never stuck, environment unchanged) and has
      appended to the trace EXACTLY one ("free", [member]) event per owning pointer member of [owned], in the order of the
      body, and nothing else.  One Ltac ([one_free]) proves the 16 one-free routines.
      [code_release_all]: the table routine -> member(s), all at once.
   B. Allocation / release pairs: the member a release routine frees IS the member the corresponding parse / create routine
      stored the allocator's answer in, stated as a run of the two bodies one after the other (the release routine run on the
      final environment and trace of the first routine):
        lifecycle_tag              libwifi_create_tag ; libwifi_free_tag              (Proofs/SitesTags.v code_create_tag)
        lifecycle_parsed_deauth    libwifi_parse_deauth ; libwifi_free_parsed_deauth  (Proofs/CodeMgmt.v parse_deauth_ok)
        lifecycle_parsed_disassoc  libwifi_parse_disassoc ; libwifi_free_parsed_disassoc
        lifecycle_action / _auth / _deauth / _disassoc   the generators leave the owning member NULL: the release is free(NULL)
        code_add_tag_owner         libwifi_add_tag stores the allocator's answer in tags->parameters
      and, in Proofs/CodeReleasePairs.v (they replay two long proofs): lifecycle_wifi_frame (fi->radiotap_info, fi->body with
      Proofs/CodeFrame.v), lifecycle_wpa_data (data->key_info.key_data and the recorded length with Proofs/CodeEapol.v);
      in Proofs/CodeSmall.v: lifecycle_data (libwifi_parse_data ; libwifi_free_data).
      What could NOT be tied is listed at the end of the file. *)
From Coq Require Import ZArith String Ascii List Bool Lia.
From LW Require Import Base.Bytes Base.CExpr Gen.Sites Spec.CodeSpec Proofs.SitesLemmas.
Import ListNotations.
Local Open Scope string_scope.
Local Open Scope Z_scope.

(* ================================================================ A. the release routines *)
Definition free_ev (rho : env) (x : string) : event := ("free", [wrap u64 (rho x)]).

(* [owned rho]: the texts of the owning pointer members released, in order (it may depend on the object: the EAPOL data releases
   its key data only when a length is recorded) *)
Definition releases (body : list cstmt) (owned : env -> list string) : Prop :=
  forall (m : memory) (rho : env) (tr : list event) (f : nat), (3 <= f)%nat ->
    exec f m rho tr body = Fell rho (tr ++ map (free_ev rho) (owned rho)).

(* from an empty trace: the observable outcome is "nothing returned, exactly these calls" *)
Lemma releases_observe body owned : releases body owned ->
  forall m rho f, (3 <= f)%nat -> observe (exec f m rho [] body) = Some (None, map (free_ev rho) (owned rho)).
Proof. intros H m rho f Hf. rewrite (H m rho [] f Hf). reflexivity. Qed.

Ltac fuel3 f Hf := destruct f as [ | [ | [ | f]]]; [ exfalso; lia | exfalso; lia | exfalso; lia | clear Hf ].

(* the routines that are one call free(obj->member) *)
Ltac one_free body :=
  let m := fresh "m" in let rho := fresh "rho" in let tr := fresh "tr" in let f := fresh "f" in let Hf := fresh "Hf" in
  intros m rho tr f Hf; fuel3 f Hf; unfold body;
  erewrite exec_call by ceval_now; rewrite exec_nil; reflexivity.

Theorem code_free_beacon : releases body_libwifi_free_beacon (fun _ => ["beacon->tags.parameters"]).
Proof. one_free body_libwifi_free_beacon. Qed.
Theorem code_free_probe_req : releases body_libwifi_free_probe_req (fun _ => ["probe_req->tags.parameters"]).
Proof. one_free body_libwifi_free_probe_req. Qed.
Theorem code_free_probe_resp : releases body_libwifi_free_probe_resp (fun _ => ["probe_resp->tags.parameters"]).
Proof. one_free body_libwifi_free_probe_resp. Qed.
Theorem code_free_assoc_req : releases body_libwifi_free_assoc_req (fun _ => ["assoc_req->tags.parameters"]).
Proof. one_free body_libwifi_free_assoc_req. Qed.
Theorem code_free_assoc_resp : releases body_libwifi_free_assoc_resp (fun _ => ["assoc_resp->tags.parameters"]).
Proof. one_free body_libwifi_free_assoc_resp. Qed.
Theorem code_free_reassoc_req : releases body_libwifi_free_reassoc_req (fun _ => ["reassoc_req->tags.parameters"]).
Proof. one_free body_libwifi_free_reassoc_req. Qed.
Theorem code_free_reassoc_resp : releases body_libwifi_free_reassoc_resp (fun _ => ["reassoc_resp->tags.parameters"]).
Proof. one_free body_libwifi_free_reassoc_resp. Qed.
Theorem code_free_auth : releases body_libwifi_free_auth (fun _ => ["auth->tags.parameters"]).
Proof. one_free body_libwifi_free_auth. Qed.
Theorem code_free_deauth : releases body_libwifi_free_deauth (fun _ => ["deauth->tags.parameters"]).
Proof. one_free body_libwifi_free_deauth. Qed.
Theorem code_free_disassoc : releases body_libwifi_free_disassoc (fun _ => ["disassoc->tags.parameters"]).
Proof. one_free body_libwifi_free_disassoc. Qed.
Theorem code_free_timing_advert : releases body_libwifi_free_timing_advert (fun _ => ["adv->tags.parameters"]).
Proof. one_free body_libwifi_free_timing_advert. Qed.
(* the action frame owns the detail block of its fixed parameters (it has no tagged parameters) *)
Theorem code_free_action : releases body_libwifi_free_action (fun _ => ["action->fixed_parameters.details.detail"]).
Proof. one_free body_libwifi_free_action. Qed.
Theorem code_free_tag : releases body_libwifi_free_tag (fun _ => ["tagged_parameter->body"]).
Proof. one_free body_libwifi_free_tag. Qed.
Theorem code_free_data : releases body_libwifi_free_data (fun _ => ["data->body"]).
Proof. one_free body_libwifi_free_data. Qed.
Theorem code_free_parsed_deauth : releases body_libwifi_free_parsed_deauth (fun _ => ["deauth->tags.parameters"]).
Proof. one_free body_libwifi_free_parsed_deauth. Qed.
Theorem code_free_parsed_disassoc : releases body_libwifi_free_parsed_disassoc (fun _ => ["disassoc->tags.parameters"]).
Proof. one_free body_libwifi_free_parsed_disassoc. Qed.

(* the frame object: the radiotap block first, then the body *)
Theorem code_free_wifi_frame : releases body_libwifi_free_wifi_frame (fun _ => ["fi->radiotap_info"; "fi->body"]).
Proof.
  intros m rho tr f Hf. fuel3 f Hf. unfold body_libwifi_free_wifi_frame.
  erewrite exec_call by ceval_now. erewrite exec_call by ceval_now. rewrite exec_nil.
  rewrite <- app_assoc. reflexivity.
Qed.

Lemma wrap_u16_range x : 0 <= wrap (mkty false 16) x < 65536.
Proof. unfold wrap, modulus; cbn [c_signed c_bits]. apply Z.mod_pos_bound. reflexivity. Qed.

(* the EAPOL-Key data: the key data block is released exactly when a key data length is recorded (the member is a uint16_t: the
   value tested is the member's value as an unsigned 16-bit integer) *)
Definition wpa_owned (rho : env) : list string :=
  if 0 <? wrap u16 (rho "data->key_info.key_data_length") then ["data->key_info.key_data"] else [].

Theorem code_free_wpa_data : releases body_libwifi_free_wpa_data wpa_owned.
Proof.
  intros m rho tr f Hf. fuel3 f Hf. unfold body_libwifi_free_wpa_data, wpa_owned, u16.
  pose proof (wrap_u16_range (rho "data->key_info.key_data_length")) as Hr.
  erewrite exec_if_gen with (bb := wrap (mkty false 16) (rho "data->key_info.key_data_length") >? 0).
  2:{ ceval_unfold. rewrite (wrap_s32_id (wrap (mkty false 16) (rho "data->key_info.key_data_length"))) by lia.
      rewrite (wrap_s32_id 0) by lia. reflexivity. }
  destruct (Z.gtb_spec (wrap (mkty false 16) (rho "data->key_info.key_data_length")) 0) as [Hpos | Hzero].
  - rewrite (ltb_true 0 _ Hpos).
    erewrite exec_call by ceval_now. rewrite !exec_nil. reflexivity.
  - rewrite (ltb_false 0 _ Hzero). rewrite !exec_nil. cbn [map]. rewrite app_nil_r. reflexivity.
Qed.

(* ---------------------------------------------------------------- the summary: routine, member(s) released *)
Definition release_table : list (string * list cstmt * (env -> list string)) :=
  [ ("libwifi_free_beacon", body_libwifi_free_beacon, fun _ => ["beacon->tags.parameters"]);
    ("libwifi_free_probe_req", body_libwifi_free_probe_req, fun _ => ["probe_req->tags.parameters"]);
    ("libwifi_free_probe_resp", body_libwifi_free_probe_resp, fun _ => ["probe_resp->tags.parameters"]);
    ("libwifi_free_assoc_req", body_libwifi_free_assoc_req, fun _ => ["assoc_req->tags.parameters"]);
    ("libwifi_free_assoc_resp", body_libwifi_free_assoc_resp, fun _ => ["assoc_resp->tags.parameters"]);
    ("libwifi_free_reassoc_req", body_libwifi_free_reassoc_req, fun _ => ["reassoc_req->tags.parameters"]);
    ("libwifi_free_reassoc_resp", body_libwifi_free_reassoc_resp, fun _ => ["reassoc_resp->tags.parameters"]);
    ("libwifi_free_auth", body_libwifi_free_auth, fun _ => ["auth->tags.parameters"]);
    ("libwifi_free_deauth", body_libwifi_free_deauth, fun _ => ["deauth->tags.parameters"]);
    ("libwifi_free_disassoc", body_libwifi_free_disassoc, fun _ => ["disassoc->tags.parameters"]);
    ("libwifi_free_timing_advert", body_libwifi_free_timing_advert, fun _ => ["adv->tags.parameters"]);
    ("libwifi_free_action", body_libwifi_free_action, fun _ => ["action->fixed_parameters.details.detail"]);
    ("libwifi_free_tag", body_libwifi_free_tag, fun _ => ["tagged_parameter->body"]);
    ("libwifi_free_data", body_libwifi_free_data, fun _ => ["data->body"]);
    ("libwifi_free_wifi_frame", body_libwifi_free_wifi_frame, fun _ => ["fi->radiotap_info"; "fi->body"]);
    ("libwifi_free_wpa_data", body_libwifi_free_wpa_data, wpa_owned);
    ("libwifi_free_parsed_deauth", body_libwifi_free_parsed_deauth, fun _ => ["deauth->tags.parameters"]);
    ("libwifi_free_parsed_disassoc", body_libwifi_free_parsed_disassoc, fun _ => ["disassoc->tags.parameters"]) ].

Theorem code_release_all : Forall (fun e => releases (snd (fst e)) (snd e)) release_table.
Proof.
  unfold release_table.
  repeat (apply Forall_cons; [ cbn [fst snd] | ]); [ .. | apply Forall_nil ].
  - exact code_free_beacon.
  - exact code_free_probe_req.
  - exact code_free_probe_resp.
  - exact code_free_assoc_req.
  - exact code_free_assoc_resp.
  - exact code_free_reassoc_req.
  - exact code_free_reassoc_resp.
  - exact code_free_auth.
  - exact code_free_deauth.
  - exact code_free_disassoc.
  - exact code_free_timing_advert.
  - exact code_free_action.
  - exact code_free_tag.
  - exact code_free_data.
  - exact code_free_wifi_frame.
  - exact code_free_wpa_data.
  - exact code_free_parsed_deauth.
  - exact code_free_parsed_disassoc.
Qed.

(* every routine of the table: every event of its run is a free of one of the listed members, each member is released once (the
   lists have no repetition), and no member is released that is not listed - immediate from the equality of traces *)
Corollary release_table_only_frees :
  Forall (fun e => forall m rho f, (3 <= f)%nat ->
            exists tr, observe (exec f m rho [] (snd (fst e))) = Some (None, tr) /\
                       NoDup (snd e rho) /\ tr = map (free_ev rho) (snd e rho) /\
                       Forall (fun ev => fst ev = "free") tr) release_table.
Proof.
  pose proof code_release_all as H. rewrite Forall_forall in H |- *.
  intros e He m rho f Hf. specialize (H e He).
  exists (map (free_ev rho) (snd e rho)). split; [ apply releases_observe; assumption | ].
  split; [ | split; [ reflexivity | ] ].
  - unfold release_table in He. cbn [In] in He.
    repeat (destruct He as [<- | He]; [ cbn [snd]; unfold wpa_owned;
              try destruct (0 <? wrap u16 (rho "data->key_info.key_data_length"));
              repeat constructor; cbn [In]; intuition discriminate | ]).
    destruct He.
  - rewrite Forall_forall. intros ev Hin. apply in_map_iff in Hin. destruct Hin as (x & <- & _). reflexivity.
Qed.

(* ================================================================ B. allocation / release pairs *)
From LW Require Proofs.SitesTags Proofs.CodeMgmt Proofs.CodeGen.

(* the allocator calls and the release calls of a trace *)
Definition is_alloc (ev : event) : bool :=
  String.eqb (fst ev) "malloc" || String.eqb (fst ev) "calloc" || String.eqb (fst ev) "realloc".
Definition allocs (tr : list event) : list event := filter is_alloc tr.
Definition frees (tr : list event) : list event := filter (fun ev => String.eqb (fst ev) "free") tr.

Lemma allocs_app a b : allocs (a ++ b) = (allocs a ++ allocs b)%list.
Proof. apply filter_app. Qed.
Lemma frees_app a b : frees (a ++ b) = (frees a ++ frees b)%list.
Proof. apply filter_app. Qed.

Ltac nums :=
  change (2 ^ 64) with 18446744073709551616 in *; change (2 ^ 63) with 9223372036854775808 in *;
  change (2 ^ 62) with 4611686018427387904 in *;
  change (2 ^ 32) with 4294967296 in *; change (2 ^ 31) with 2147483648 in *.

(* ---------------------------------------------------------------- libwifi_create_tag ; libwifi_free_tag
   The element's body block: one malloc(tag_length) whose answer q is stored in tagged_parameter->body (code_create_tag), and
   libwifi_free_tag run on the object as create left it releases exactly q: one allocation, one release, of the same block. *)
Theorem lifecycle_tag m rho num tl q :
  - 2 ^ 31 <= num < 2 ^ 31 -> 0 <= tl < 2 ^ 63 -> rho "ret:malloc" = q -> 0 < q < 2 ^ 63 ->
  let rho0 := upd (upd rho "tag_number" num) "tag_length" tl in
  exists rho' tr,
    exec 40 m rho0 [] body_libwifi_create_tag = Returned (Some (2 + tl)) rho' tr /\
    rho' "tagged_parameter->body" = q /\
    allocs tr = [("malloc", [tl])] /\ frees tr = [] /\
    exec 3 m rho' tr body_libwifi_free_tag = Fell rho' (tr ++ [("free", [q])]).
Proof.
  intros Hnum Htl Hq Hq0 rho0.
  pose proof (SitesTags.code_create_tag m rho num tl q Hnum Htl Hq ltac:(lia)) as H. cbv zeta in H. fold rho0 in H.
  destruct (Z.eqb_spec q 0) as [E | N]; [ lia | ].
  destruct H as (rho' & Hrun & _ & _ & Hbody).
  eexists rho', _. split; [ exact Hrun | ]. split; [ exact Hbody | ].
  split; [ reflexivity | ]. split; [ reflexivity | ].
  rewrite (code_free_tag m rho' _ 3%nat ltac:(lia)). cbn [map]. unfold free_ev, u64. rewrite Hbody.
  nums. rewrite (wrap_u64_id q) by lia. reflexivity.
Qed.

(* when the allocator refuses, libwifi_create_tag has released nothing and reports -ENOMEM: code_create_tag's first case; the
   caller (libwifi_quick_add_tag, Proofs/SitesTags.v code_quick_add_tag) then returns without calling libwifi_free_tag *)

(* ---------------------------------------------------------------- libwifi_add_tag: where the allocator's answer goes
   Proofs/SitesTags.v code_add_tag states the trace and the new length; here, with the same hypotheses, the member: the answer of
   malloc (empty list) / realloc (otherwise) is stored in tags->parameters - the member every libwifi_free_<management frame>
   releases, seen through the frame object ("beacon->tags.parameters" for tags = &beacon->tags: see the end of the file). *)
Theorem code_add_tag_owner m rho len tl p q :
  0 <= len < 2 ^ 62 -> 0 <= tl < 256 -> 0 < p -> p + len + 257 < 2 ^ 63 ->
  (if (len =? 0)%Z then rho "ret:malloc" else rho "ret:realloc") = q ->
  0 < q -> q + len + 257 < 2 ^ 63 ->
  let rho0 := upd (upd (upd rho "tags->length" len) "tag->header.tag_len" tl) "tags->parameters" p in
  exists rho' tr,
    exec 40 m rho0 [] body_libwifi_add_tag = Returned (Some 0) rho' tr /\
    allocs tr = [if (len =? 0)%Z then ("malloc", [2 + tl]) else ("realloc", [p; len + 2 + tl])] /\ frees tr = [] /\
    rho' "tags->parameters" = q /\ rho' "tags->length" = len + 2 + tl.
Proof.
  intros Hlen Htl Hp Hpend Hq Hq0 Hqend rho0; nums.
  unfold rho0, body_libwifi_add_tag; clear rho0.
  destruct (Z.eqb_spec len 0) as [Elen | Nlen].
  - eexists _, _. split; [ exec_run; reflexivity | ].
    cbn [app]. split; [ unfold allocs; cbn [filter is_alloc fst String.eqb Ascii.eqb Bool.eqb orb]; list_eq | ].
    split; [ reflexivity | ].
    cbv beta iota delta [upd String.eqb Ascii.eqb Bool.eqb]. split; [ rewrite ?wrap_u64_id by lia; lia | lia ].
  - eexists _, _. split; [ exec_run; reflexivity | ].
    cbn [app]. split; [ unfold allocs; cbn [filter is_alloc fst String.eqb Ascii.eqb Bool.eqb orb]; list_eq | ].
    split; [ reflexivity | ].
    cbv beta iota delta [upd String.eqb Ascii.eqb Bool.eqb]. split; [ rewrite ?wrap_u64_id by lia; lia | lia ].
Qed.

(* ---------------------------------------------------------------- a release routine run on an object whose member holds v *)
Lemma release_of_member fbody x : releases fbody (fun _ => [x]) ->
  forall m rho' tr v, rho' x = v -> 0 <= v < 2 ^ 64 -> exec 3 m rho' tr fbody = Fell rho' (tr ++ [("free", [v])]).
Proof.
  intros Hrel m rho' tr v Hx Hv. nums. rewrite (Hrel m rho' tr 3%nat ltac:(lia)). cbn [map]. unfold free_ev, u64.
  rewrite Hx. rewrite (wrap_u64_id v) by lia. reflexivity.
Qed.

(* ---------------------------------------------------------------- libwifi_parse_deauth ; libwifi_free_parsed_deauth (and disassoc)
   Proofs/CodeMgmt.v reason_parser_ok: on an accepted frame (type 0, the subtype, len >= header_len + 2) the tagged parameters'
   length is n = (int)(len - H - 2), H = 24 / 28 by the order flag.  n <= 0: no allocation, tags.parameters stays NULL and the
   release is free(NULL).  n > 0 and malloc answered q <> 0: tags.parameters = q, and the release frees exactly q.
   (n > 0 and q = 0: the parser returns -ENOMEM; reason_post states that case through [observe] only, the object is not to be
   released by the caller, and its tags.parameters would read q = 0 anyway.) *)
Theorem lifecycle_reason body fbody obj subtype :
  CodeMgmt.reason_parser_ok body obj subtype ->
  releases fbody (fun _ => [obj ++ "->tags.parameters"]) ->
  0 <= subtype < 2 ^ 31 ->
  forall rho o len hl b q m,
    0 <= o < 2 ^ 31 -> 0 < b -> 0 <= hl <= len -> b + len < 2 ^ 62 -> 0 <= q < 2 ^ 62 -> rho "ret:malloc" = q ->
    hl + 2 <= len ->
    let n := wrap s32 (len - (if o =? 0 then 24 else 28) - 2) in
    n <= 0 \/ q <> 0 ->
    exists rho' tr,
      exec 100 m (CodeMgmtDefs.frame_env rho 0 subtype o len hl b) [] body = Returned (Some 0) rho' tr /\
      rho' (obj ++ "->tags.parameters") = (if n <=? 0 then 0 else q) /\
      allocs tr = (if n <=? 0 then [] else [("malloc", [n])]) /\ frees tr = [] /\
      exec 3 m rho' tr fbody = Fell rho' (tr ++ [("free", [if n <=? 0 then 0 else q])]).
Proof.
  intros Hok Hrel Hsub rho o len hl b q m Ho Hb Hhl Hend Hq Eq Hlen n Hcase.
  pose proof (Hok rho 0 subtype o len hl b q m ltac:(nums; lia) Hsub Ho Hb Hhl Hend Hq Eq) as H.
  unfold CodeMgmt.reason_post in H. cbv zeta in H. fold n in H.
  rewrite !Z.eqb_refl in H. cbn [negb orb] in H.
  rewrite (ltb_false len (hl + 2)) in H by lia.
  assert (Hhdr : forall e, allocs [CodeMgmt.reason_hdr obj rho o; e] = allocs [e] /\ frees [CodeMgmt.reason_hdr obj rho o; e] = frees [e]).
  { intros e. unfold CodeMgmt.reason_hdr. destruct (o =? 0); split; reflexivity. }
  destruct (Z.leb_spec n 0) as [Hn | Hn].
  - destruct H as (rho' & Hrun & _ & Hp).
    eexists rho', _. split; [ exact Hrun | ]. split; [ exact Hp | ].
    split; [ | split ].
    + rewrite allocs_app. rewrite (proj1 (Hhdr _)). reflexivity.
    + rewrite frees_app. rewrite (proj2 (Hhdr _)). reflexivity.
    + apply (release_of_member fbody _ Hrel); [ exact Hp | nums; lia ].
  - destruct Hcase as [Hc | Hc]; [ lia | ].
    destruct (Z.eqb_spec q 0) as [E | _]; [ contradiction | ].
    destruct H as (rho' & Hrun & _ & Hp).
    eexists rho', _. split; [ exact Hrun | ]. split; [ exact Hp | ].
    split; [ | split ].
    + rewrite !allocs_app. rewrite (proj1 (Hhdr _)). reflexivity.
    + rewrite !frees_app. rewrite (proj2 (Hhdr _)). reflexivity.
    + apply (release_of_member fbody _ Hrel); [ exact Hp | nums; lia ].
Qed.

Definition lifecycle_parsed_deauth :=
  lifecycle_reason body_libwifi_parse_deauth body_libwifi_free_parsed_deauth "deauth" 12
                   CodeMgmt.parse_deauth_ok code_free_parsed_deauth ltac:(nums; lia).
Definition lifecycle_parsed_disassoc :=
  lifecycle_reason body_libwifi_parse_disassoc body_libwifi_free_parsed_disassoc "disassoc" 10
                   CodeMgmt.parse_disassoc_ok code_free_parsed_disassoc ltac:(nums; lia).

(* ---------------------------------------------------------------- the generators that add no tag themselves
   Proofs/CodeGenA.v: libwifi_create_action / _auth / _deauth / _disassoc zero the object and allocate nothing; the owning member
   reads NULL afterwards, so the release routine run on the fresh object is free(NULL) - nothing was allocated, nothing but NULL
   is released.  (Tags are added later through libwifi_quick_add_tag(&obj->tags, ...), an opaque call in these bodies.) *)
Lemma allocs_mgmt_events rho obj size a1 a2 a3 :
  allocs (CodeGenDefs.mgmt_events rho obj size a1 a2 a3) = [] /\ frees (CodeGenDefs.mgmt_events rho obj size a1 a2 a3) = [].
Proof. split; reflexivity. Qed.

Theorem lifecycle_action m rho cat :
  0 <= cat < 256 ->
  exists rho' tr,
    exec 40 m (upd rho "category" cat) [] body_libwifi_create_action = Returned (Some 0) rho' tr /\
    allocs tr = [] /\ frees tr = [] /\
    exec 3 m rho' tr body_libwifi_free_action = Fell rho' (tr ++ [("free", [0])]).
Proof.
  intros Hcat. destruct (CodeGenA.code_create_action m rho cat Hcat) as (rho' & Hrun & _ & _ & _ & _ & Hp & _).
  eexists rho', _. split; [ exact Hrun | ]. split; [ reflexivity | ]. split; [ reflexivity | ].
  apply (release_of_member _ _ code_free_action); [ exact Hp | nums; lia ].
Qed.

Theorem lifecycle_auth m rho alg seq st :
  0 <= alg < 65536 -> 0 <= seq < 65536 -> 0 <= st < 65536 ->
  exists rho' tr,
    exec 40 m (upd (upd (upd rho "algorithm_number" alg) "transaction_sequence" seq) "status_code" st) [] body_libwifi_create_auth
      = Returned (Some 0) rho' tr /\
    allocs tr = [] /\ frees tr = [] /\
    exec 3 m rho' tr body_libwifi_free_auth = Fell rho' (tr ++ [("free", [0])]).
Proof.
  intros Ha Hs Hst. destruct (CodeGenA.code_create_auth m rho alg seq st Ha Hs Hst) as (rho' & Hrun & _ & _ & _ & _ & _ & _ & Hp & _).
  eexists rho', _. split; [ exact Hrun | ]. split; [ reflexivity | ]. split; [ reflexivity | ].
  apply (release_of_member _ _ code_free_auth); [ exact Hp | nums; lia ].
Qed.

Theorem lifecycle_deauth m rho reason :
  0 <= reason < 65536 ->
  exists rho' tr,
    exec 40 m (upd rho "reason_code" reason) [] body_libwifi_create_deauth = Returned (Some 0) rho' tr /\
    allocs tr = [] /\ frees tr = [] /\
    exec 3 m rho' tr body_libwifi_free_deauth = Fell rho' (tr ++ [("free", [0])]).
Proof.
  intros Hr. destruct (CodeGenA.code_create_deauth m rho reason Hr) as (rho' & Hrun & _ & _ & _ & _ & Hp & _).
  eexists rho', _. split; [ exact Hrun | ]. split; [ reflexivity | ]. split; [ reflexivity | ].
  apply (release_of_member _ _ code_free_deauth); [ exact Hp | nums; lia ].
Qed.

Theorem lifecycle_disassoc m rho reason :
  0 <= reason < 65536 ->
  exists rho' tr,
    exec 40 m (upd rho "reason_code" reason) [] body_libwifi_create_disassoc = Returned (Some 0) rho' tr /\
    allocs tr = [] /\ frees tr = [] /\
    exec 3 m rho' tr body_libwifi_free_disassoc = Fell rho' (tr ++ [("free", [0])]).
Proof.
  intros Hr. destruct (CodeGenA.code_create_disassoc m rho reason Hr) as (rho' & Hrun & _ & _ & _ & _ & Hp & _).
  eexists rho', _. split; [ exact Hrun | ]. split; [ reflexivity | ]. split; [ reflexivity | ].
  apply (release_of_member _ _ code_free_disassoc); [ exact Hp | nums; lia ].
Qed.

(* ================================================================ what is tied, what is not
   TIED (theorems above and in CodeReleasePairs.v / CodeSmall.v; "tied" = the release routine, run on the final environment of the
   allocating routine, frees exactly the value the allocator answered, and the allocating routine's trace has exactly that one
   allocation and no release):
     libwifi_free_tag            <- libwifi_create_tag        tagged_parameter->body
     libwifi_free_parsed_deauth  <- libwifi_parse_deauth      deauth->tags.parameters   (NULL when the frame carries no tagged parameter)
     libwifi_free_parsed_disassoc<- libwifi_parse_disassoc    disassoc->tags.parameters
     libwifi_free_wifi_frame     <- libwifi_get_wifi_frame    fi->body (and fi->radiotap_info = NULL: the theorem of CodeFrame.v is for
                                                              radiotap = 0; the radiotap branch of the classifier has no code-level theorem)
     libwifi_free_wpa_data       <- libwifi_get_wpa_data      data->key_info.key_data, guarded on both sides by key_data_length > 0
     libwifi_free_data           <- libwifi_parse_data        data->body
     libwifi_free_action / _auth / _deauth / _disassoc <- libwifi_create_action / _auth / _deauth / _disassoc: the member is NULL
       after the generator (nothing allocated), the release is free(NULL).
   NOT TIED:
     - the seven common-shape parsers of Proofs/CodeMgmt.v (parser_post) store the allocator's answer in bss->tags.parameters /
       sta->tags.parameters: Gen/Sites.v has NO release routine for libwifi_bss / libwifi_sta objects (no body_libwifi_free_bss /
       _free_sta), so there is nothing to pair them with; none of the 18 routines releases a member of a bss / sta object.
     - libwifi_free_beacon, _probe_req, _probe_resp, _assoc_req, _assoc_resp, _reassoc_req, _reassoc_resp, _timing_advert release
       <obj>->tags.parameters; the allocation happens in libwifi_add_tag, whose translated body names the list "tags->parameters"
       (its parameter), and the generators reach it through the opaque call libwifi_quick_add_tag(&<obj>->tags, ...): the
       environment names lvalues by their source text and has no aliasing, so "tags->parameters" of the callee and
       "<obj>->tags.parameters" of the release routine are two names.  code_add_tag_owner gives the callee's half (the answer of
       malloc / realloc lands in tags->parameters); the identification tags = &<obj>->tags is the argument of the call in the
       generators' traces (Proofs/CodeGen*.v: ev_add_tag rho "&<obj>->tags" ...) and is not expressible as a run.
     - libwifi_free_action's member (action->fixed_parameters.details.detail) is allocated by libwifi_add_action_detail under the
       name detail->detail (Proofs/SitesTags.v code_add_action_detail): same remark.
   Also: on -ENOMEM libwifi_parse_deauth / _disassoc are stated through [observe] only (no final environment), so the pair is
   stated for the runs that return 0. *)

Print Assumptions code_release_all.
Print Assumptions release_table_only_frees.
Print Assumptions code_free_beacon.
Print Assumptions code_free_probe_req.
Print Assumptions code_free_probe_resp.
Print Assumptions code_free_assoc_req.
Print Assumptions code_free_assoc_resp.
Print Assumptions code_free_reassoc_req.
Print Assumptions code_free_reassoc_resp.
Print Assumptions code_free_auth.
Print Assumptions code_free_deauth.
Print Assumptions code_free_disassoc.
Print Assumptions code_free_timing_advert.
Print Assumptions code_free_action.
Print Assumptions code_free_tag.
Print Assumptions code_free_data.
Print Assumptions code_free_wifi_frame.
Print Assumptions code_free_wpa_data.
Print Assumptions code_free_parsed_deauth.
Print Assumptions code_free_parsed_disassoc.
Print Assumptions lifecycle_tag.
Print Assumptions code_add_tag_owner.
Print Assumptions lifecycle_reason.
Print Assumptions lifecycle_parsed_deauth.
Print Assumptions lifecycle_parsed_disassoc.
Print Assumptions lifecycle_action.
Print Assumptions lifecycle_auth.
Print Assumptions lifecycle_deauth.
Print Assumptions lifecycle_disassoc.
