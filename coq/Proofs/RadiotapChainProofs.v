(* Proofs for C09, part 3: functional correctness of the decoder on chains of present words with
   namespace resets and vendor namespaces, for chains of every length (Spec/RadiotapChainSpec.v). *)
From Coq Require Import List ZArith Lia Bool ZifyBool.
From LW Require Import Base.Bytes Base.Sweep Gen.Consts Gen.Rtap Gen.Layout Model.Radiotap
  Spec.RadiotapSpec Spec.RadiotapChainSpec Proofs.RadiotapProofs.
Import ListNotations.
Local Open Scope Z_scope.

(* ---------------------------------------------------------------- facts about the specification *)
Lemma s_offsets_step i w cur : 0 <= i < 23 ->
  s_offsets (bits_from i) w cur =
  if Z.testbit w i then
    let o := align_up cur (fst (table_entry i)) in
    ((i, o) :: fst (s_offsets (bits_from (i + 1)) w (o + snd (table_entry i))),
     snd (s_offsets (bits_from (i + 1)) w (o + snd (table_entry i))))
  else s_offsets (bits_from (i + 1)) w cur.
Proof.
  intros Hi. rewrite (bits_from_step i Hi). cbn [s_offsets].
  destruct (table_entry i) as [al sz]. cbn [fst snd].
  destruct (Z.testbit w i); [|reflexivity]. cbv zeta.
  destruct (s_offsets (bits_from (i + 1)) w (align_up cur al + sz)). reflexivity.
Qed.
Lemma s_offsets_23 w cur : s_offsets (bits_from 23) w cur = ([], cur).
Proof. reflexivity. Qed.
Lemma offs_ge i w cur : cur <= snd (s_offsets (bits_from i) w cur).
Proof. apply s_offsets_ge. intros x Hx. eapply bits_from_pos; eassumption. Qed.

Lemma bits_clear_spec w lo n i : s_bits_clear w lo n = true -> lo <= i < lo + n -> Z.testbit w i = false.
Proof.
  unfold s_bits_clear. intros H Hi.
  pose proof (forallb_zrange _ lo n H i Hi) as B. cbv beta in B. destruct (Z.testbit w i); [discriminate|reflexivity].
Qed.

Definition ns_of (m : s_mode) : bool := match m with Vend => false | _ => true end.

(* ---------------------------------------------------------------- the walk *)
Section Chain.
  Variable buf : list byte.
  Variable rd : Z -> res byte.
  Hypothesis Hwf : wfbytes buf.
  Hypothesis Hag : agrees rd buf.
  Variable M : Z.
  Hypothesis HM : 8 <= M <= zlen buf.

  Let NF : nat := Z.to_nat (32 * (M + 8)).

  (* iterator state at bit i of the present word w (idx = field index, idx mod 32 = i) *)
  Definition mk (idx i cur w nb : Z) (rs ns : bool) (nnd : option Z) : rt_it :=
    {| r_max := M; r_idx := idx; r_shift := Z.shiftr w i; r_arg := Some cur; r_nextbm := nb;
       r_reset := rs; r_ns := ns; r_nnd := nnd |}.

  Lemma mk_shift idx i cur w nb rs ns nnd : 0 <= i ->
    {| r_max := M; r_idx := idx + 1; r_shift := Z.shiftr (Z.shiftr w i) 1; r_arg := Some cur; r_nextbm := nb;
       r_reset := rs; r_ns := ns; r_nnd := nnd |} = mk (idx + 1) (i + 1) cur w nb rs ns nnd.
  Proof. intros H. unfold mk. rewrite Z.shiftr_shiftr by lia. reflexivity. Qed.

  Ltac open_pass :=
    unfold rt_pass; cbn [mk r_max r_idx r_shift r_arg r_nextbm r_reset r_ns r_nnd];
    change c_IEEE80211_RADIOTAP_EXT with 31; change c_IEEE80211_RADIOTAP_RADIOTAP_NAMESPACE with 29;
    change c_IEEE80211_RADIOTAP_VENDOR_NAMESPACE with 30; change rtap_n_bits with 23.

  Lemma p_clear idx i cur w nb rs ns nnd : idx mod 32 = i -> 0 <= i < 31 -> Z.testbit w i = false ->
    rt_pass rd (mk idx i cur w nb rs ns nnd) = Done (inl (mk (idx + 1) (i + 1) cur w nb rs ns nnd)).
  Proof.
    intros Hm Hi Hb. open_pass. rewrite Hm, <- Z.testbit_odd, Hb.
    replace (i =? 31) with false by lia. cbn [andb negb].
    unfold shift_next. cbn [mk r_max r_idx r_shift r_arg r_nextbm r_reset r_ns r_nnd].
    rewrite mk_shift by lia. reflexivity.
  Qed.

  Lemma p_end idx cur w nb rs ns nnd : idx mod 32 = 31 -> Z.testbit w 31 = false ->
    rt_pass rd (mk idx 31 cur w nb rs ns nnd) = Done (inr (mk idx 31 cur w nb rs ns nnd, End (- ENOENT))).
  Proof. intros Hm Hb. open_pass. rewrite Hm, <- Z.testbit_odd, Hb. reflexivity. Qed.

  Lemma p_hit i cur w nb rs nnd : 0 <= i < 23 -> Z.testbit w i = true ->
    align_up cur (fst (table_entry i)) + snd (table_entry i) <= M ->
    rt_pass rd (mk i i cur w nb rs true nnd) =
    Done (inr (mk (i + 1) (i + 1) (align_up cur (fst (table_entry i)) + snd (table_entry i)) w nb rs true nnd,
               Hit i (align_up cur (fst (table_entry i))))).
  Proof.
    intros Hi Hb Hle. open_pass. rewrite Z.mod_small by lia. rewrite <- Z.testbit_odd, Hb.
    replace (i =? 31) with false by lia. replace (i =? 29) with false by lia.
    replace (i =? 30) with false by lia. replace (i <? 23) with true by lia.
    cbn [andb negb orb].
    destruct (table_entry_bounds i Hi) as (Hal & Hsz).
    unfold align_up in *.
    destruct (table_entry i) as [al sz]. cbn [fst snd] in *.
    replace (al =? 0) with false by lia.
    replace (M <? (if cur mod al =? 0 then cur else cur + (al - cur mod al)) + sz) with false by lia.
    rewrite mk_shift by lia. reflexivity.
  Qed.

  (* a selected vendor field: its data lies inside the skipped vendor data *)
  Lemma p_skip idx i cur w nb rs : idx mod 32 = i -> 0 <= i < 29 -> Z.testbit w i = true ->
    rt_pass rd (mk idx i cur w nb rs false (Some cur)) =
    Done (inl (mk (idx + 1) (i + 1) cur w nb rs false (Some cur))).
  Proof.
    intros Hm Hi Hb. open_pass. rewrite Hm, <- Z.testbit_odd, Hb.
    replace (i =? 31) with false by lia. replace (i =? 29) with false by lia.
    replace (i =? 30) with false by lia.
    cbn [andb negb orb]. change (0 =? 0) with true. cbv iota.
    unfold shift_next. cbn [mk r_max r_idx r_shift r_arg r_nextbm r_reset r_ns r_nnd].
    rewrite mk_shift by lia. reflexivity.
  Qed.

  Lemma p_29 idx cur w nb rs ns nnd : idx mod 32 = 29 -> Z.testbit w 29 = true -> cur <= M ->
    rt_pass rd (mk idx 29 cur w nb rs ns nnd) = Done (inl (mk (idx + 1) 30 cur w nb true true nnd)).
  Proof.
    intros Hm Hb Hle. open_pass. rewrite Hm, <- Z.testbit_odd, Hb.
    cbn [Z.eqb Pos.eqb andb negb orb]. change (1 =? 0) with false. cbv iota.
    rewrite Z.mod_1_r. change (0 =? 0) with true. cbv iota.
    replace (M <? cur + 0) with false by lia.
    rewrite mk_shift by lia. rewrite Z.add_0_r. reflexivity.
  Qed.

  Lemma p_30 idx cur w nb rs ns nnd : idx mod 32 = 30 -> Z.testbit w 30 = true -> 0 <= cur ->
    s_vendor_end buf w cur <= M ->
    rt_pass rd (mk idx 30 cur w nb rs ns nnd) =
    Done (inr (mk (idx + 1) 31 (s_vendor_end buf w cur) w nb true false (Some (s_vendor_end buf w cur)),
               Hit 30 (align_up cur 2))).
  Proof.
    intros Hm Hb Hc Hle. unfold s_vendor_end in *. rewrite Hb in *. cbv zeta in Hle.
    pose proof (align_up_ge cur 2 ltac:(lia)) as Hge.
    pose proof (le16_nonneg buf Hwf (align_up cur 2 + 4)) as Hv.
    open_pass. rewrite Hm, <- Z.testbit_odd, Hb.
    cbn [Z.eqb Pos.eqb andb negb orb]. change (2 =? 0) with false. cbv iota.
    fold (align_up cur 2).
    replace (M <? align_up cur 2 + 6) with false by lia.
    rewrite (rd_bytes_agrees rd buf Hag 4 (align_up cur 2)) by lia. cbn [bind].
    rewrite (rd_le16 buf rd Hag) by lia. cbn [bind].
    replace (M <? align_up cur 2 + (6 + le16 buf (align_up cur 2 + 4))) with false by lia.
    rewrite mk_shift by lia.
    replace (align_up cur 2 + (6 + le16 buf (align_up cur 2 + 4)))
      with (align_up cur 2 + 6 + le16 buf (align_up cur 2 + 4)) by lia.
    reflexivity.
  Qed.

  Lemma p_31 idx cur w nb rs ns nnd : idx mod 32 = 31 -> Z.testbit w 31 = true -> cur <= M ->
    0 <= nb -> nb + 4 <= zlen buf ->
    rt_pass rd (mk idx 31 cur w nb rs ns nnd) =
    Done (inl (mk (if rs then 0 else idx + 1) 0 cur (le32 buf nb) (nb + 4) false ns nnd)).
  Proof.
    intros Hm Hb Hle Hnb Hnb4. open_pass. rewrite Hm, <- Z.testbit_odd, Hb.
    cbn [Z.eqb Pos.eqb andb negb orb]. change (1 =? 0) with false. cbv iota.
    rewrite Z.mod_1_r. change (0 =? 0) with true. cbv iota.
    replace (M <? cur + 0) with false by lia.
    rewrite (rd_le32 buf rd Hag) by lia. cbn [bind].
    unfold mk. rewrite Z.shiftr_0_r, Z.add_0_r. reflexivity.
  Qed.

  (* ---------------- one decoded field *)
  Ltac norm_size Hle :=
    match type of Hle with context [snd (table_entry ?c)] =>
      let v := eval vm_compute in (snd (table_entry c)) in change (snd (table_entry c)) with v in Hle end.
  Ltac reads := rewrite ?(rd_le16 buf rd Hag), ?(rd_le64 buf rd Hag), ?(rd_ok buf rd Hag) by lia; cbn [bind].

  Lemma field_apply info sk i o : 0 <= i < 23 -> 0 <= o -> o + snd (table_entry i) <= zlen buf ->
    rt_field rd info sk i o = Done (s_apply buf (info, sk) (i, o)).
  Proof.
    intros Hi Ho Hle. unfold rt_field.
    change c_IEEE80211_RADIOTAP_CHANNEL with 3. change c_IEEE80211_RADIOTAP_RATE with 2.
    change c_IEEE80211_RADIOTAP_DBM_ANTSIGNAL with 5. change c_IEEE80211_RADIOTAP_ANTENNA with 11.
    change c_IEEE80211_RADIOTAP_FLAGS with 1. change c_IEEE80211_RADIOTAP_RX_FLAGS with 14.
    change c_IEEE80211_RADIOTAP_TX_FLAGS with 15. change c_IEEE80211_RADIOTAP_MCS with 19.
    change c_IEEE80211_RADIOTAP_DBM_TX_POWER with 10. change c_IEEE80211_RADIOTAP_TIMESTAMP with 22.
    change c_IEEE80211_RADIOTAP_RTS_RETRIES with 16. change c_IEEE80211_RADIOTAP_DATA_RETRIES with 17.
    change c_LIBWIFI_MAX_RADIOTAP_ANTENNAS with 16.
    destruct (i =? 3) eqn:E3.
    { apply Z.eqb_eq in E3; subst i. norm_size Hle. reads.
      rewrite band_center_ok by (apply le16_bound; exact Hwf).
      unfold s_apply. change (3 =? 3) with true. cbv iota zeta.
      destruct (s_band_center (le16 buf o)) as [center band]. reflexivity. }
    destruct (i =? 2) eqn:E2.
    { apply Z.eqb_eq in E2; subst i. norm_size Hle. reads. reflexivity. }
    destruct (i =? 5) eqn:E5.
    { apply Z.eqb_eq in E5; subst i. norm_size Hle. reads.
      unfold s_apply. change (5 =? 3) with false. change (5 =? 2) with false. change (5 =? 5) with true.
      cbv iota. change s_max_antennas with 16.
      destruct (negb sk); [reflexivity|].
      destruct (zlen (i_antennas info) <? 16); reflexivity. }
    destruct (i =? 11) eqn:E11.
    { apply Z.eqb_eq in E11; subst i. norm_size Hle. reads. reflexivity. }
    destruct (i =? 1) eqn:E1.
    { apply Z.eqb_eq in E1; subst i. norm_size Hle. reads. reflexivity. }
    destruct (i =? 14) eqn:E14.
    { apply Z.eqb_eq in E14; subst i. norm_size Hle. reads. reflexivity. }
    destruct (i =? 15) eqn:E15.
    { apply Z.eqb_eq in E15; subst i. norm_size Hle. reads. reflexivity. }
    destruct (i =? 19) eqn:E19.
    { apply Z.eqb_eq in E19; subst i. norm_size Hle. reads. reflexivity. }
    destruct (i =? 10) eqn:E10.
    { apply Z.eqb_eq in E10; subst i. norm_size Hle. reads. reflexivity. }
    destruct (i =? 22) eqn:E22.
    { apply Z.eqb_eq in E22; subst i. norm_size Hle. reads. reflexivity. }
    destruct (i =? 16) eqn:E16.
    { apply Z.eqb_eq in E16; subst i. norm_size Hle. reads. reflexivity. }
    destruct (i =? 17) eqn:E17.
    { apply Z.eqb_eq in E17; subst i. norm_size Hle. reads. reflexivity. }
    unfold s_apply. rewrite E3, E2, E5, E11, E1, E14, E15, E19, E10, E22, E16, E17. reflexivity.
  Qed.

  Lemma field_vendor info sk a : rt_field rd info sk 30 a = Done (info, sk).
  Proof. reflexivity. Qed.

  (* ---------------- the decoder loop, backwards: "from state it with acc decoded so far, the loop
     ends with res", given at least X units of both fuels (the inner fuel is NF after every hit) *)
  Definition good (X : nat) (it : rt_it) (acc : rt_info * bool) (res : rt_info) : Prop :=
    (X <= NF)%nat -> forall nf F, (X <= nf)%nat -> (X <= F)%nat ->
    loop1 rd nf F it (fst acc) (snd acc) = Done res.

  Lemma good_inl X it it' acc res : rt_pass rd it = Done (inl it') -> (1 <= X)%nat ->
    good (X - 1) it' acc res -> good X it acc res.
  Proof.
    intros Hp HX Hg HNF nf F Hnf HF. destruct nf as [|nf]; [lia|].
    unfold loop1. rewrite rt_next_S, Hp. apply (Hg ltac:(lia) nf F); lia.
  Qed.
  Lemma good_hit X it it' idx a acc acc' res : rt_pass rd it = Done (inr (it', Hit idx a)) ->
    rt_field rd (fst acc) (snd acc) idx a = Done acc' -> r_max it' = M -> (1 <= X)%nat ->
    good (X - 1) it' acc' res -> good X it acc res.
  Proof.
    intros Hp Hf Hmax HX Hg HNF nf F Hnf HF. destruct nf as [|nf]; [lia|]. destruct F as [|F]; [lia|].
    unfold loop1. rewrite rt_next_S, Hp. cbn [bind]. rewrite Hf. cbn [bind].
    destruct acc' as [info' sk']. rewrite rt_loop_S. rewrite Hmax. fold NF.
    apply (Hg ltac:(lia) NF F); lia.
  Qed.
  Lemma good_end X it it' c acc : rt_pass rd it = Done (inr (it', End c)) -> (1 <= X)%nat ->
    good X it acc (fst acc).
  Proof.
    intros Hp HX HNF nf F Hnf HF. destruct nf as [|nf]; [lia|].
    unfold loop1. rewrite rt_next_S, Hp. reflexivity.
  Qed.

  (* bits i .. i+k-1 clear *)
  Lemma scan_clear w cur nb rs ns nnd acc res : forall k X idx i,
    idx mod 32 = i -> 0 <= i -> i + Z.of_nat k <= 31 ->
    (forall b, i <= b < i + Z.of_nat k -> Z.testbit w b = false) -> (k <= X)%nat ->
    good (X - k) (mk (idx + Z.of_nat k) (i + Z.of_nat k) cur w nb rs ns nnd) acc res ->
    good X (mk idx i cur w nb rs ns nnd) acc res.
  Proof.
    induction k as [|k IH]; intros X idx i Hm Hi Hk Hb HX Hg.
    - rewrite Nat.sub_0_r in Hg. cbn [Z.of_nat] in Hg. rewrite !Z.add_0_r in Hg. exact Hg.
    - eapply good_inl; [apply p_clear; try assumption; try lia; apply Hb; lia|lia|].
      apply IH; try lia.
      + rewrite mod32_succ by lia. lia.
      + intros b Hb'. apply Hb. lia.
      + replace (X - 1 - k)%nat with (X - S k)%nat by lia.
        replace (idx + 1 + Z.of_nat k) with (idx + Z.of_nat (S k)) by lia.
        replace (i + 1 + Z.of_nat k) with (i + Z.of_nat (S k)) by lia. exact Hg.
  Qed.

  (* bits i .. i+k-1 of a vendor-namespace word: clear, or selecting skipped vendor data *)
  Lemma scan_skip w cur nb rs acc res : forall k X idx i,
    idx mod 32 = i -> 0 <= i -> i + Z.of_nat k <= 29 -> (k <= X)%nat ->
    good (X - k) (mk (idx + Z.of_nat k) (i + Z.of_nat k) cur w nb rs false (Some cur)) acc res ->
    good X (mk idx i cur w nb rs false (Some cur)) acc res.
  Proof.
    induction k as [|k IH]; intros X idx i Hm Hi Hk HX Hg.
    - rewrite Nat.sub_0_r in Hg. cbn [Z.of_nat] in Hg. rewrite !Z.add_0_r in Hg. exact Hg.
    - assert (Hnext : good (X - 1) (mk (idx + 1) (i + 1) cur w nb rs false (Some cur)) acc res).
      { apply IH; try lia.
        + rewrite mod32_succ by lia. lia.
        + replace (X - 1 - k)%nat with (X - S k)%nat by lia.
          replace (idx + 1 + Z.of_nat k) with (idx + Z.of_nat (S k)) by lia.
          replace (i + 1 + Z.of_nat k) with (i + Z.of_nat (S k)) by lia. exact Hg. }
      destruct (Z.testbit w i) eqn:Hb.
      + eapply good_inl; [apply p_skip; try assumption; lia|lia|exact Hnext].
      + eapply good_inl; [apply p_clear; try assumption; lia|lia|exact Hnext].
  Qed.

  (* the defined fields 0..22 of a first radiotap-namespace word *)
  Lemma fields_walk w nb rs nnd res : forall k X i cur acc,
    Z.of_nat k = 23 - i -> 0 <= i -> 0 <= cur ->
    snd (s_offsets (bits_from i) w cur) <= M -> (k <= X)%nat ->
    good (X - k) (mk 23 23 (snd (s_offsets (bits_from i) w cur)) w nb rs true nnd)
         (fold_left (s_apply buf) (fst (s_offsets (bits_from i) w cur)) acc) res ->
    good X (mk i i cur w nb rs true nnd) acc res.
  Proof.
    induction k as [|k IH]; intros X i cur acc Hk Hi Hcur Hend HX Hg.
    - assert (i = 23) by lia. subst i. rewrite s_offsets_23 in Hg. cbn [fst snd fold_left] in Hg.
      rewrite Nat.sub_0_r in Hg. exact Hg.
    - assert (Hi' : 0 <= i < 23) by lia.
      rewrite (s_offsets_step i w cur Hi') in Hg, Hend.
      destruct (Z.testbit w i) eqn:Hb.
      + cbv zeta in Hg, Hend. cbn [fst snd fold_left] in Hg, Hend.
        destruct (table_entry_bounds i Hi') as (Hal & Hsz).
        pose proof (align_up_ge cur (fst (table_entry i)) ltac:(lia)) as Hge1.
        pose proof (offs_ge (i + 1) w (align_up cur (fst (table_entry i)) + snd (table_entry i))) as Hge2.
        eapply good_hit.
        * apply p_hit; try assumption; lia.
        * destruct acc as [info sk]. cbn [fst snd]. apply field_apply; try assumption; lia.
        * reflexivity.
        * lia.
        * apply IH; try lia.
          replace (X - 1 - k)%nat with (X - S k)%nat by lia. exact Hg.
      + eapply good_inl; [apply p_clear; try assumption; try lia; apply Z.mod_small; lia|lia|].
        apply IH; try lia; try assumption.
        replace (X - 1 - k)%nat with (X - S k)%nat by lia. exact Hg.
  Qed.

  (* ---------------- the structural layout *)
  Definition word_fields (m : s_mode) (w cur : Z) : list (Z * Z) * Z :=
    match m with RtFirst => s_offsets (bits_from 0) w cur | _ => ([], cur) end.
  Lemma layout_cons m cur w r :
    s_chain_layout buf m cur (w :: r) =
    (fst (word_fields m w cur) ++
       fst (s_chain_layout buf (s_next_mode m w) (s_vendor_end buf w (snd (word_fields m w cur))) r),
     snd (s_chain_layout buf (s_next_mode m w) (s_vendor_end buf w (snd (word_fields m w cur))) r)).
  Proof.
    cbn [s_chain_layout]. unfold word_fields. rewrite bits_from_0.
    destruct m.
    - destruct (s_offsets (number_from 0 s_align_size) w cur) as [h1 c1]. cbn [fst snd].
      destruct (s_chain_layout buf (s_next_mode RtFirst w) (s_vendor_end buf w c1) r). reflexivity.
    - cbn [fst snd]. destruct (s_chain_layout buf (s_next_mode RtCont w) (s_vendor_end buf w cur) r). reflexivity.
    - cbn [fst snd]. destruct (s_chain_layout buf (s_next_mode Vend w) (s_vendor_end buf w cur) r). reflexivity.
  Qed.
  Lemma wf_first w cur : word_fields RtFirst w cur = s_offsets (bits_from 0) w cur.
  Proof. reflexivity. Qed.
  Lemma wf_cont w cur : word_fields RtCont w cur = ([], cur).
  Proof. reflexivity. Qed.
  Lemma wf_vend w cur : word_fields Vend w cur = ([], cur).
  Proof. reflexivity. Qed.
  Lemma word_fields_ge m w cur : cur <= snd (word_fields m w cur).
  Proof. destruct m; cbn [word_fields snd]; try lia. apply offs_ge. Qed.
  Lemma vend_ge w cur : 0 <= cur -> cur <= s_vendor_end buf w cur.
  Proof.
    intros H. unfold s_vendor_end. destruct (Z.testbit w 30); [|lia]. cbv zeta.
    pose proof (align_up_ge cur 2 ltac:(lia)). pose proof (le16_nonneg buf Hwf (align_up cur 2 + 4)). lia.
  Qed.
  Lemma layout_ge : forall ws m cur, 0 <= cur -> cur <= snd (s_chain_layout buf m cur ws).
  Proof.
    induction ws as [|w r IH]; intros m cur H; [cbn; lia|].
    rewrite layout_cons. cbn [snd].
    pose proof (word_fields_ge m w cur) as H1.
    pose proof (vend_ge w (snd (word_fields m w cur)) ltac:(lia)) as H2.
    pose proof (IH (s_next_mode m w) (s_vendor_end buf w (snd (word_fields m w cur))) ltac:(lia)). lia.
  Qed.

  (* the present words as they lie in the buffer: ws are the words at off, off+4, ..., inside M, each
     but the last with bit 31 set *)
  Fixpoint chainp (off : Z) (ws : list Z) : Prop :=
    match ws with
    | [] => True
    | w :: r => w = le32 buf off /\ off + 4 <= M /\
                Z.testbit w 31 = (match r with [] => false | _ => true end) /\ chainp (off + 4) r
    end.
  Lemma chainp_bound : forall ws off, chainp off ws -> ws = [] \/ off + 4 * zlen ws <= M.
  Proof.
    induction ws as [|w r IH]; intros off H; [left; reflexivity|right].
    cbn [chainp] in H. destruct H as (_ & H1 & _ & H2). rewrite zlen_cons.
    destruct (IH _ H2) as [->|H3]; [rewrite zlen_nil; lia|lia].
  Qed.

  Definition start_ok (m : s_mode) (idx cur : Z) (nnd : option Z) : Prop :=
    idx mod 32 = 0 /\ 0 <= idx /\
    match m with RtFirst => idx = 0 | RtCont => True | Vend => nnd = Some cur end.

  (* bits 29, 30, 31 of any word *)
  Lemma tail_walk w r off m idx c1 nnd acc res X :
    4 <= off -> chainp off (w :: r) -> idx mod 32 = 29 -> 0 <= idx -> 0 <= c1 ->
    Z.testbit w 29 && Z.testbit w 30 = false ->
    (m = Vend -> nnd = Some c1) ->
    s_vendor_end buf w c1 <= M -> (3 <= X)%nat ->
    (r = [] -> res = fst acc) ->
    (r <> [] -> forall idx' nnd', start_ok (s_next_mode m w) idx' (s_vendor_end buf w c1) nnd' ->
       good (X - 3) (mk idx' 0 (s_vendor_end buf w c1) (hd 0 r) (off + 8) false (ns_of (s_next_mode m w)) nnd')
            acc res) ->
    good X (mk idx 29 c1 w (off + 4) false (ns_of m) nnd) acc res.
  Proof.
    intros Hoff Hch Hm Hidx Hc1 Hnb Hnnd Hend HX Hlast Hnext.
    cbn [chainp] in Hch. destruct Hch as (Hw & HoffM & H31 & Hr).
    pose proof (vend_ge w c1 Hc1) as Hge.
    assert (Hm30 : (idx + 1) mod 32 = 30) by (rewrite mod32_succ by lia; lia).
    assert (Hm31 : (idx + 1 + 1) mod 32 = 31) by (rewrite mod32_succ by lia; lia).
    assert (Hm0 : (idx + 1 + 1 + 1) mod 32 = 0) by (apply mod32_succ31; exact Hm31).
    (* what happens at bit 31, from any state there *)
    assert (Hbit31 : forall (cur : Z) (rs ns : bool) (nnd1 : option Z),
              cur = s_vendor_end buf w c1 ->
              start_ok (s_next_mode m w) (if rs then 0 else idx + 1 + 1 + 1) cur nnd1 ->
              ns = ns_of (s_next_mode m w) ->
              good (X - 2) (mk (idx + 1 + 1) 31 cur w (off + 4) rs ns nnd1) acc res).
    { intros cur rs ns nnd1 -> Hst ->. destruct r as [|w' r'].
      - rewrite (Hlast eq_refl). eapply good_end; [apply p_end; assumption|lia].
      - cbn [chainp] in Hr. destruct Hr as (Hw' & Hoff' & _).
        eapply good_inl; [apply p_31; try assumption; lia|lia|].
        replace (X - 2 - 1)%nat with (X - 3)%nat by lia.
        replace (off + 4 + 4) with (off + 8) by lia. rewrite <- Hw'.
        apply (Hnext ltac:(discriminate)). exact Hst. }
    destruct (Z.testbit w 30) eqn:E30.
    - (* vendor namespace announced *)
      assert (E29 : Z.testbit w 29 = false) by (destruct (Z.testbit w 29); [discriminate|reflexivity]).
      assert (Hmode : s_next_mode m w = Vend) by (unfold s_next_mode; rewrite E30; reflexivity).
      eapply good_inl; [apply p_clear; try assumption; lia|lia|].
      change (29 + 1) with 30.
      destruct acc as [info sk].
      eapply good_hit; [apply p_30; try assumption; lia|apply field_vendor|reflexivity|lia|].
      replace (X - 1 - 1)%nat with (X - 2)%nat by lia.
      apply Hbit31; [reflexivity| |rewrite Hmode; reflexivity].
      rewrite Hmode. cbv iota. unfold start_ok. repeat split; try lia.
    - assert (Hc2 : s_vendor_end buf w c1 = c1) by (unfold s_vendor_end; rewrite E30; reflexivity).
      destruct (Z.testbit w 29) eqn:E29.
      + (* back to the radiotap namespace *)
        assert (Hmode : s_next_mode m w = RtFirst) by (unfold s_next_mode; rewrite E30, E29; reflexivity).
        eapply good_inl; [apply p_29; try assumption; lia|lia|].
        eapply good_inl; [apply p_clear; try assumption; lia|lia|].
        change (30 + 1) with 31. replace (X - 1 - 1)%nat with (X - 2)%nat by lia.
        apply Hbit31; [symmetry; exact Hc2| |rewrite Hmode; reflexivity].
        rewrite Hmode. cbv iota. unfold start_ok. repeat split; try lia.
      + (* the namespace continues *)
        assert (Hmode : s_next_mode m w = match m with Vend => Vend | _ => RtCont end)
          by (unfold s_next_mode; rewrite E30, E29; reflexivity).
        eapply good_inl; [apply p_clear; try assumption; lia|lia|].
        change (29 + 1) with 30.
        eapply good_inl; [apply p_clear; try assumption; lia|lia|].
        change (30 + 1) with 31. replace (X - 1 - 1)%nat with (X - 2)%nat by lia.
        apply Hbit31; [symmetry; exact Hc2| |rewrite Hmode; destruct m; reflexivity].
        rewrite Hmode. cbv iota. unfold start_ok. split; [exact Hm0|]. split; [lia|].
        destruct m; try exact I. apply Hnnd. reflexivity.
  Qed.

  Lemma words_ok_cons m w r : s_words_okb m (w :: r) = true ->
    Z.testbit w 29 && Z.testbit w 30 = false /\
    match m with
    | RtFirst => forall b, 23 <= b < 29 -> Z.testbit w b = false
    | RtCont => forall b, 0 <= b < 29 -> Z.testbit w b = false
    | Vend => True
    end /\ s_words_okb (s_next_mode m w) r = true.
  Proof.
    cbn [s_words_okb]. unfold s_word_okb. intros H.
    apply andb_prop in H as [H Hr]. apply andb_prop in H as [H1 H2].
    split; [destruct (Z.testbit w 29 && Z.testbit w 30); [discriminate|reflexivity]|].
    split; [|exact Hr].
    destruct m; [| |exact I]; intros b Hb; apply (bits_clear_spec w _ _ b H2); lia.
  Qed.

  (* ---------------- every chain *)
  Lemma chain_walk : forall ws off m idx cur nnd acc,
    ws <> [] -> 4 <= off -> chainp off ws -> start_ok m idx cur nnd -> 0 <= cur ->
    s_words_okb m ws = true -> snd (s_chain_layout buf m cur ws) <= M ->
    good (32 * length ws) (mk idx 0 cur (hd 0 ws) (off + 4) false (ns_of m) nnd) acc
         (fst (fold_left (s_apply buf) (fst (s_chain_layout buf m cur ws)) acc)).
  Proof.
    induction ws as [|w r IH]; intros off m idx cur nnd acc Hne Hoff Hch Hst Hcur Hok Hend; [congruence|].
    rewrite layout_cons in Hend |- *.
    pose proof (word_fields_ge m w cur) as Hge1.
    destruct (word_fields m w cur) as [h1 c1] eqn:Ewf.
    cbn [fst snd hd] in Hend, Hge1 |- *. rewrite fold_left_app.
    destruct (words_ok_cons m w r Hok) as (Hnb & Hbits & Hokr).
    pose proof (vend_ge w c1 ltac:(lia)) as Hge2.
    pose proof (layout_ge r (s_next_mode m w) (s_vendor_end buf w c1) ltac:(lia)) as Hge3.
    destruct Hst as (Hm0 & Hidx & Hmode).
    assert (Hlen : (32 * length (w :: r) = 32 + 32 * length r)%nat) by (cbn [length]; lia).
    assert (Hm29 : (idx + 29) mod 32 = 29) by (clear - Hm0; Z.div_mod_to_equations; lia).
    (* bits 29.. *)
    assert (Tail : forall acc1, good (32 * length (w :: r) - 29) (mk (idx + 29) 29 c1 w (off + 4) false (ns_of m) nnd) acc1
                     (fst (fold_left (s_apply buf)
                             (fst (s_chain_layout buf (s_next_mode m w) (s_vendor_end buf w c1) r)) acc1))).
    { intros acc1. apply (tail_walk w r off m); try assumption; try lia.
      - intros ->. rewrite wf_vend in Ewf. injection Ewf as _ <-. exact Hmode.
      - intros ->. reflexivity.
      - intros Hr idx' nnd' Hst'.
        replace (32 * length (w :: r) - 29 - 3)%nat with (32 * length r)%nat by lia.
        assert (Hch' : chainp (off + 4) r) by (cbn [chainp] in Hch; tauto).
        replace (off + 8) with (off + 4 + 4) by lia.
        apply IH; try assumption; try lia. }
    destruct m; cbn [ns_of] in *.
    - (* first radiotap word: fields 0..22, then bits 23..28 clear *)
      subst idx. rewrite wf_first in Ewf.
      apply (fields_walk w (off + 4) false nnd _ 23); try lia.
      { rewrite Ewf. cbn [snd]. lia. }
      rewrite Ewf. cbn [fst snd].
      apply (scan_clear w c1 (off + 4) false true nnd _ _ 6); try lia.
      + reflexivity.
      + intros b Hb. apply Hbits. lia.
      + replace (32 * length (w :: r) - 23 - 6)%nat with (32 * length (w :: r) - 29)%nat by lia.
        apply Tail.
    - (* radiotap continuation word: nothing selected *)
      rewrite wf_cont in Ewf. injection Ewf as <- <-. cbn [fold_left].
      apply (scan_clear w cur (off + 4) false true nnd _ _ 29); try lia.
      + intros b Hb. apply Hbits. lia.
      + apply Tail.
    - (* vendor word *)
      rewrite wf_vend in Ewf. injection Ewf as <- <-. cbn [fold_left]. subst nnd.
      apply (scan_skip w cur (off + 4) false _ _ 29); try lia.
      apply Tail.
  Qed.

  (* ---------------- the present words of the buffer, iterator initialisation *)
  Lemma words_chainp : forall n off, 4 <= off -> off + 4 * Z.of_nat n <= M -> n <> O ->
    Z.testbit (last (s_words_from buf n off) 0) 31 = false -> chainp off (s_words_from buf n off).
  Proof.
    induction n as [|k IH]; intros off Hoff Hle Hn Hlast; [congruence|].
    cbn [s_words_from] in *. cbv zeta in *.
    destruct (Z.testbit (le32 buf off) 31) eqn:E.
    - destruct k as [|k'].
      + cbn [s_words_from last] in Hlast. congruence.
      + specialize (IH (off + 4) ltac:(lia) ltac:(lia) ltac:(discriminate)).
        cbn [s_words_from] in *. cbv zeta in *. cbn [last] in Hlast.
        cbn [chainp]. split; [reflexivity|]. split; [lia|]. split; [exact E|].
        apply IH. exact Hlast.
    - cbn [chainp]. split; [reflexivity|]. split; [lia|]. split; [exact E|exact I].
  Qed.

  Lemma ext_chain_words : forall ws off fuel, ws <> [] -> 0 <= off -> chainp off ws ->
    (length ws <= fuel)%nat ->
    ext_chain rd fuel off M = Done (Ok (off + 4 * (zlen ws - 1))).
  Proof.
    induction ws as [|w r IH]; intros off fuel Hne Hoff Hch Hf; [congruence|].
    cbn [length] in Hf. destruct fuel as [|f]; [lia|].
    cbn [chainp] in Hch. destruct Hch as (Hw & HoffM & H31 & Hr).
    cbn [ext_chain]. rewrite (rd_le32 buf rd Hag) by lia. cbn [bind]. rewrite <- Hw.
    rewrite land_bit31, H31.
    destruct r as [|w' r'].
    - cbn [negb]. unfold zlen. cbn [length]. do 2 f_equal. lia.
    - cbn [negb].
      assert (off + 4 + 4 <= M) by (cbn [chainp] in Hr; tauto).
      replace (M <? off + 4 + 4) with false by lia.
      rewrite (IH (off + 4) f) by (try assumption; try discriminate; try lia; cbn [length] in *; lia).
      rewrite (zlen_cons w). do 2 f_equal. lia.
  Qed.

  Hypothesis Hver : znth buf 0 = 0.
  Hypothesis Hlen : s_it_len buf = M.

  Lemma init_chain ws : ws <> [] -> chainp 4 ws ->
    rt_init rd (zlen buf) = Done (Ok (mk 0 0 (4 + 4 * zlen ws) (hd 0 ws) 8 false true None)).
  Proof.
    intros Hne Hch. destruct ws as [|w r]; [congruence|].
    pose proof Hch as Hch0. cbn [chainp] in Hch. destruct Hch as (Hw & HoffM & H31 & Hr).
    unfold rt_init. change sizeof_ieee80211_radiotap_header with 8.
    replace (zlen buf <? 8) with false by lia.
    rewrite (rd_ok buf rd Hag 0) by lia. cbn [bind]. rewrite Hver. cbn [Z.eqb negb].
    rewrite (rd_le16 buf rd Hag 2) by lia. cbn [bind]. fold (s_it_len buf). rewrite Hlen.
    replace (zlen buf <? M) with false by lia.
    rewrite (rd_le32 buf rd Hag 4) by lia. cbn [bind]. rewrite <- Hw.
    rewrite land_bit31, H31. cbn [hd]. unfold mk. rewrite Z.shiftr_0_r.
    destruct r as [|w' r'].
    - cbn [negb]. reflexivity.
    - cbn [negb].
      assert (4 + 4 + 4 <= M) by (cbn [chainp] in Hr; tauto).
      replace (M <? 8 + 4) with false by lia.
      destruct (chainp_bound _ _ Hr) as [?|Hb]; [discriminate|].
      rewrite (ext_chain_words (w' :: r') 8) by (try assumption; try discriminate; try lia; unfold zlen in Hb; lia).
      cbn [bind]. rewrite (zlen_cons w).
      replace (8 + 4 * (zlen (w' :: r') - 1) + 4) with (4 + 4 * (1 + zlen (w' :: r'))) by lia. reflexivity.
  Qed.
End Chain.

(* ---------------------------------------------------------------- the class, as a boolean *)
Lemma s_wf_chainb_iff buf : s_wf_chainb buf = true <-> s_wf_chain buf.
Proof.
  unfold s_wf_chainb, s_wf_chain. rewrite !andb_true_iff, negb_true_iff, Z.eqb_eq, !Z.leb_le. tauto.
Qed.

(* ---------------------------------------------------------------- chains of every length decode to the specification *)
Lemma rt_chain : forall buf rd, wfbytes buf -> agrees rd buf -> s_wf_chain buf ->
  parse_radiotap_info rd (zlen buf) = Done (Ok (s_info_chain buf)).
Proof.
  intros buf rd Hwf Hag (Hver & (H8 & H255) & Hlen & Hlast & Hok & Hend).
  assert (HM : 8 <= s_it_len buf <= zlen buf) by (unfold byte in *; lia).
  set (n := Z.to_nat ((s_it_len buf - 4) / 4)).
  assert (Hn : 1 <= Z.of_nat n /\ 4 + 4 * Z.of_nat n <= s_it_len buf).
  { subst n. pose proof (Z.div_le_lower_bound (s_it_len buf - 4) 4 1 ltac:(lia) ltac:(lia)).
    pose proof (Z.mul_div_le (s_it_len buf - 4) 4 ltac:(lia)). lia. }
  assert (Hch : chainp buf (s_it_len buf) 4 (s_words buf)).
  { apply words_chainp; try lia. exact Hlast. }
  assert (Hne : s_words buf <> []).
  { unfold s_words. fold n. destruct n; [lia|]. cbn [s_words_from]. discriminate. }
  unfold parse_radiotap_info. change sizeof_ieee80211_radiotap_header with 8.
  replace (zlen buf <? 8) with false by lia.
  rewrite (rd_le16 buf rd Hag 2) by lia. cbn [bind]. fold (s_it_len buf).
  replace ((s_it_len buf <? 8) || (255 <? s_it_len buf)) with false by lia.
  rewrite (init_chain buf rd Hag (s_it_len buf) HM Hver eq_refl (s_words buf) Hne Hch). cbn [bind].
  destruct (chainp_bound buf (s_it_len buf) _ _ Hch) as [?|Hb]; [congruence|].
  pose proof (chain_walk buf rd Hwf Hag (s_it_len buf) HM (s_words buf) 4 RtFirst 0
                (4 + 4 * zlen (s_words buf)) None (s_info0 (s_it_len buf), false) Hne ltac:(lia) Hch) as W.
  specialize (W ltac:(unfold start_ok; repeat split; lia) ltac:(pose proof (zlen_nonneg (s_words buf)); lia) Hok Hend).
  unfold good in W. cbn [fst snd ns_of] in W.
  unfold zlen in Hb.
  replace (Z.to_nat (32 * (s_it_len buf + 8))) with (S (Z.to_nat (32 * (s_it_len buf + 8)) - 1)) by lia.
  rewrite rt_loop_S. cbn [r_max mk].
  change {| i_chan_flags := 0; i_chan_freq := 0; i_chan_center := 0; i_chan_band := 0; i_rate_raw := 0;
            i_antennas := []; i_signal := 0; i_flags := 0; i_ext_flags := 0; i_rx_flags := 0; i_tx_flags := 0;
            i_mcs_known := 0; i_mcs_flags := 0; i_mcs_mcs := 0; i_tx_power := 0;
            i_ts := 0; i_ts_accuracy := 0; i_ts_unit := 0; i_ts_flags := 0;
            i_rts_retries := 0; i_data_retries := 0; i_length := s_it_len buf |} with (s_info0 (s_it_len buf)).
  change (4 + 4) with 8 in W.
  fold (mk (s_it_len buf) 0 0 (4 + 4 * zlen (s_words buf)) (hd 0 (s_words buf)) 8 false true None).
  rewrite W by lia. cbn [bind]. reflexivity.
Qed.

(* ---------------------------------------------------------------- the chain specification extends the single-word one *)
Lemma wf1_wf_chain buf : wfbytes buf -> s_wf1 buf -> s_wf_chain buf /\ s_words buf = [s_present buf].
Proof.
  intros Hwf (H8 & Hver & Hp & Hend & Hlen & H255).
  pose proof (offs_ge 0 (s_present buf) 8) as Hge. rewrite s_field_offsets_eq in Hge.
  pose proof (le32_nonneg buf Hwf 4) as Hp0. fold (s_present buf) in Hp0.
  assert (Hhi : forall i, 23 <= i -> Z.testbit (s_present buf) i = false).
  { intros i Hi. destruct (Z.eq_dec (s_present buf) 0) as [->|Hne]; [apply Z.bits_0|].
    apply Z.bits_above_log2; [lia|].
    assert (Z.log2 (s_present buf) < 23) by (apply Z.log2_lt_pow2; lia). lia. }
  assert (Hws : s_words buf = [s_present buf]).
  { unfold s_words.
    assert (1 <= (s_it_len buf - 4) / 4) by (apply Z.div_le_lower_bound; lia).
    destruct (Z.to_nat ((s_it_len buf - 4) / 4)) as [|k] eqn:Ek; [lia|].
    cbn [s_words_from]. cbv zeta. fold (s_present buf). rewrite (Hhi 31) by lia. reflexivity. }
  split; [|exact Hws].
  unfold s_wf_chain, s_chain_end, s_chain_start. rewrite Hws. cbn [last].
  split; [exact Hver|]. split; [lia|]. split; [unfold byte in *; lia|]. split; [apply Hhi; lia|].
  split.
  - cbn [s_words_okb]. unfold s_word_okb, s_bits_clear. rewrite (Hhi 29), (Hhi 30) by lia.
    change (zrange 23 6) with [23; 24; 25; 26; 27; 28]. cbn [forallb andb negb].
    rewrite !Hhi by lia. reflexivity.
  - rewrite layout_cons. cbn [snd s_chain_layout]. rewrite wf_first.
    unfold s_vendor_end. rewrite (Hhi 30) by lia.
    change (4 + 4 * zlen [s_present buf]) with 8. rewrite s_field_offsets_eq. exact Hend.
Qed.

Lemma chain_single buf : wfbytes buf -> s_wf1 buf -> s_info_chain buf = s_info buf.
Proof.
  intros Hwf H1. destruct (wf1_wf_chain buf Hwf H1) as [Hc _].
  pose proof (rt_single_word buf (rd_strict buf) Hwf (agrees_strict buf) H1) as A.
  pose proof (rt_chain buf (rd_strict buf) Hwf (agrees_strict buf) Hc) as B.
  rewrite A in B. injection B as B. symmetry. exact B.
Qed.

(* ---------------------------------------------------------------- the class is inhabited: concrete headers *)
Definition ex_bits (l : list Z) : Z := fold_left (fun a b => a + 2 ^ b) l 0.
Definition ex_header (ws : list Z) (data trail : list byte) : list byte :=
  let body := concat (map (le_enc 4) ws) ++ data in
  [0; 0] ++ le_enc 2 (4 + zlen body) ++ body ++ trail.

(* (a) three present words: overall fields, then two per-antenna words after namespace resets *)
Definition ex_a : list byte :=
  ex_header [ex_bits [1; 2; 3; 5; 29; 31]; ex_bits [5; 11; 29; 31]; ex_bits [5; 11]]
            [16; 12; 108; 9; 160; 0; 200;  190; 7;  180; 9] [1; 2; 3].
Example ex_a_wf : s_wf_chainb ex_a = true.
Proof. vm_compute. reflexivity. Qed.
Example ex_a_layout :
  s_words ex_a = [2684354606; 2684356640; 2080] /\
  s_chain_hits ex_a = [(1, 16); (2, 17); (3, 18); (5, 22); (5, 23); (11, 24); (5, 25); (11, 26)] /\
  s_chain_end ex_a = 27.
Proof. vm_compute. repeat split; reflexivity. Qed.
Example ex_a_info :
  let i := s_info_chain ex_a in
  i_flags i = 16 /\ i_rate_raw i = 12 /\ i_chan_freq i = 2412 /\ i_chan_flags i = 160 /\
  i_chan_center i = 1 /\ i_chan_band i = 1 /\ i_signal i = 200 /\
  i_antennas i = [(7, 190); (9, 180)] /\ i_length i = 27.
Proof. vm_compute. repeat split; reflexivity. Qed.
Example ex_a_model : parse_radiotap_info (rd_strict ex_a) (zlen ex_a) = Done (Ok (s_info_chain ex_a)).
Proof. vm_compute. reflexivity. Qed.

(* (b) a vendor namespace: word 0 announces it (bit 30), the vendor word has arbitrary field bits and
   resets (bit 29), then a radiotap word; the vendor header starts at the 2-byte aligned offset 18 after
   an odd-sized field, skip_length = 3 *)
Definition ex_b : list byte :=
  ex_header [ex_bits [2; 30; 31]; ex_bits [0; 3; 7; 23; 28; 29; 31]; ex_bits [5]]
            [12; 0;  1; 2; 3; 9; 3; 0;  70; 71; 72;  201] [].
Example ex_b_wf : s_wf_chainb ex_b = true.
Proof. vm_compute. reflexivity. Qed.
Example ex_b_layout : s_chain_hits ex_b = [(2, 16); (5, 27)] /\ s_chain_end ex_b = 28.
Proof. vm_compute. split; reflexivity. Qed.
Example ex_b_info :
  let i := s_info_chain ex_b in i_rate_raw i = 12 /\ i_signal i = 201 /\ i_antennas i = [] /\ i_length i = 28.
Proof. vm_compute. repeat split; reflexivity. Qed.
Example ex_b_model : parse_radiotap_info (rd_strict ex_b) (zlen ex_b) = Done (Ok (s_info_chain ex_b)).
Proof. vm_compute. reflexivity. Qed.

(* (c) more per-antenna words than LIBWIFI_MAX_RADIOTAP_ANTENNAS: 1 overall + 19 per-antenna signals;
   16 entries are kept, and the ANTENNA fields of the dropped ones rename the last kept entry *)
Definition ex_c : list byte :=
  ex_header (repeat (ex_bits [5; 11; 29; 31]) 19 ++ [ex_bits [5; 11]])
            (concat (map (fun i => [100 + i; i + 50]) (zrange 0 20))) [].
Example ex_c_wf : s_wf_chainb ex_c = true.
Proof. vm_compute. reflexivity. Qed.
Example ex_c_info :
  i_signal (s_info_chain ex_c) = 100 /\
  i_antennas (s_info_chain ex_c) =
    [(51, 101); (52, 102); (53, 103); (54, 104); (55, 105); (56, 106); (57, 107); (58, 108); (59, 109);
     (60, 110); (61, 111); (62, 112); (63, 113); (64, 114); (65, 115); (69, 116)].
Proof. vm_compute. split; reflexivity. Qed.

(* (d) vendor namespace continued over two words without reset, vendor namespace followed by another
   vendor namespace, skip_length 0, a radiotap continuation word without fields *)
Definition ex_d : list byte :=
  ex_header [ex_bits [5; 30; 31]; ex_bits [1; 2; 31]; ex_bits [4; 30; 31]; ex_bits [29; 31];
             ex_bits [2; 31]; ex_bits [29; 31]; ex_bits [5; 11]]
            [200; 0;  1; 2; 3; 9; 2; 0; 7; 7;   1; 2; 3; 8; 0; 0;   22;  190; 3] [].
Example ex_d_wf : s_wf_chainb ex_d = true.
Proof. vm_compute. reflexivity. Qed.
Example ex_d_info :
  let i := s_info_chain ex_d in i_signal i = 200 /\ i_rate_raw i = 22 /\ i_antennas i = [(3, 190)].
Proof. vm_compute. repeat split; reflexivity. Qed.
Example ex_d_model : parse_radiotap_info (rd_strict ex_d) (zlen ex_d) = Done (Ok (s_info_chain ex_d)).
Proof. vm_compute. reflexivity. Qed.

(* outside the class: both bit 29 and bit 30 / field bits in a radiotap continuation word / data beyond it_len *)
Example ex_excluded :
  s_wf_chainb (ex_header [ex_bits [29; 30; 31]; ex_bits [2; 29; 31]; ex_bits [5]] [1; 2; 3; 9; 0; 0; 200] []) = false /\
  s_wf_chainb (ex_header [ex_bits [2; 31]; ex_bits [5]] [22; 200] []) = false /\
  s_wf_chainb ([0; 0; 9; 0] ++ le_enc 4 (ex_bits [2; 5]) ++ [22; 200]) = false.
Proof. vm_compute. repeat split; reflexivity. Qed.
Example ex_c_model : parse_radiotap_info (rd_strict ex_c) (zlen ex_c) = Done (Ok (s_info_chain ex_c)).
Proof. vm_compute. reflexivity. Qed.
