(* Part B of the code-level theorems: tag list and action detail editing (C05, C14, C15).
   Theorems about the translated C code itself (Gen/Sites.v, generated from the libwifi sources): every statement below
   is about the terms the translator produced, evaluated with the C integer semantics of Base/CExpr.v, for ALL values in
   the stated ranges.

   A. the dump routines copy exactly [buf, buf + length) when the length fits the caller's buffer and copy nothing otherwise;
   B. the arithmetic of the tag list / action detail editing routines;
   C. guards and lengths, site by site. *)
From Coq Require Import ZArith String List Bool Lia.
From LW Require Import Base.CExpr Gen.Sites Spec.CodeSpec Proofs.SitesLemmas.
Import ListNotations.
Local Open Scope string_scope.
Local Open Scope Z_scope.

(* every statement holds for EVERY memory: none of these routines' translated statements loads from it *)
Section WithMemory.
Variable m : memory.

Ltac nums :=
  change (2 ^ 64) with 18446744073709551616 in *; change (2 ^ 63) with 9223372036854775808 in *;
  change (2 ^ 62) with 4611686018427387904 in *; change (2 ^ 40) with 1099511627776 in *;
  change (2 ^ 32) with 4294967296 in *; change (2 ^ 31) with 2147483648 in *; change (10 ^ 9) with 1000000000 in *.

(* ================================================================ B. tag list and action detail editing *)

(* len = tags->length, tl = tag->header.tag_len, p = tags->parameters, q = what the allocator answers. *)
Theorem code_add_tag rho len tl p q :
  0 <= len < 2 ^ 62 -> 0 <= tl < 256 -> 0 < p -> p + len + 257 < 2 ^ 63 ->
  (if (len =? 0)%Z then rho "ret:malloc" else rho "ret:realloc") = q ->
  0 <= q -> q + len + 257 < 2 ^ 63 ->
  let rho0 := upd (upd (upd rho "tags->length" len) "tag->header.tag_len" tl) "tags->parameters" p in
  let alloc := if (len =? 0)%Z then ("malloc", [2 + tl]) else ("realloc", [p; len + 2 + tl]) in
  if (q =? 0)%Z then observe (exec 40 m rho0 [] body_libwifi_add_tag) = Some (Some (-12), [alloc])
  else exists rho',
    exec 40 m rho0 [] body_libwifi_add_tag =
      Returned (Some 0) rho'
        [alloc; ("memcpy", [q + len; wrap u64 (rho "&tag->header"); 2]);
                ("memcpy", [q + len + 2; wrap u64 (rho "tag->body"); tl])] /\
    rho' "tags->length" = len + 2 + tl.
Proof.
  intros Hlen Htl Hp Hpend Hq Hq0 Hqend rho0 alloc; nums.
  unfold alloc, rho0, body_libwifi_add_tag; clear alloc rho0.
  destruct (Z.eqb_spec len 0) as [Elen | Nlen]; destruct (Z.eqb_spec q 0) as [Eq | Nq].
  - exec_run. cbn [observe app]. list_eq.
  - eexists. split.
    + exec_run. cbn [app]. apply Returned_eq; [reflexivity | reflexivity | list_eq].
    + cbv beta iota delta [upd String.eqb Ascii.eqb Bool.eqb]. lia.
  - exec_run. cbn [observe app]. list_eq.
  - eexists. split.
    + exec_run. cbn [app]. apply Returned_eq; [reflexivity | reflexivity | list_eq].
    + cbv beta iota delta [upd String.eqb Ascii.eqb Bool.eqb]. lia.
Qed.

(* dl = detail->detail_length, n = data_len, q = what the allocator answers.  A range for q is needed: the copy's
   destination is computed as the pointer sum q + dl, which has to stay an address (below 2^63), whence [q + dl < 2^63]. *)
Theorem code_add_action_detail rho dl n q :
  0 <= dl < 256 -> 0 <= n < 2 ^ 63 ->
  (if (dl =? 0)%Z then rho "ret:malloc" else rho "ret:realloc") = q ->
  0 <= q -> q + dl < 2 ^ 63 ->
  let rho0 := upd (upd rho "detail->detail_length" dl) "data_len" n in
  let alloc := if (dl =? 0)%Z then ("malloc", [n]) else ("realloc", [wrap u64 (rho "detail->detail"); n + dl]) in
  if (n =? 0)%Z then observe (exec 40 m rho0 [] body_libwifi_add_action_detail) = Some (Some dl, [])
  else if n + dl >? 255 then observe (exec 40 m rho0 [] body_libwifi_add_action_detail) = Some (Some (2 ^ 64 - 22), [])
  else if (q =? 0)%Z then observe (exec 40 m rho0 [] body_libwifi_add_action_detail) = Some (Some (2 ^ 64 - 12), [alloc])
  else exists rho',
    exec 40 m rho0 [] body_libwifi_add_action_detail =
      Returned (Some (dl + n)) rho' [alloc; ("memcpy", [q + dl; wrap u64 (rho "data"); n])] /\
    rho' "detail->detail_length" = dl + n.
Proof.
  intros Hdl Hn Hq Hq0 Hqend rho0 alloc; nums.
  unfold alloc, rho0, body_libwifi_add_action_detail; clear alloc rho0.
  destruct (Z.eqb_spec n 0) as [En | Nn].
  { exec_run. cbn [observe app]. reflexivity. }
  destruct (Z.gtb_spec (n + dl) 255) as [Hbig | Hfit].
  { exec_run. cbn [observe app]. reflexivity. }
  destruct (Z.eqb_spec dl 0) as [Edl | Ndl]; destruct (Z.eqb_spec q 0) as [Eq | Nq].
  - exec_run. cbn [observe app]. list_eq.
  - eexists. split.
    + exec_run. cbn [app]. apply Returned_eq; [f_equal; lia | reflexivity | list_eq].
    + cbv beta iota delta [upd String.eqb Ascii.eqb Bool.eqb]. lia.
  - exec_run. cbn [observe app]. list_eq.
  - eexists. split.
    + exec_run. cbn [app]. apply Returned_eq; [f_equal; lia | reflexivity | list_eq].
    + cbv beta iota delta [upd String.eqb Ascii.eqb Bool.eqb]. lia.
Qed.

(* evaluation under environments built by upd / zeroed / clobber on concrete names: the prefix tests are computed *)
Ltac prefix_simpl :=
  repeat match goal with
         | |- context [String.prefix ?a ?b] => let r := eval vm_compute in (String.prefix a b) in change (String.prefix a b) with r
         end;
  cbv beta iota.
Ltac ceval_env :=
  cbv beta iota zeta delta [ceval evals binop b2z c_bits c_signed upd zeroed clobber String.eqb Ascii.eqb Bool.eqb negb String.append
                            u8 s8 u16 s16 u32 s32 u64 s64];
  prefix_simpl.
Ltac env_simpl := cbv beta iota delta [zeroed clobber upd String.eqb Ascii.eqb Bool.eqb]; prefix_simpl.

(* libwifi_create_tag: the object is zeroed, number and length are stored through the one-octet conversions the C code makes (a number
   or a length beyond 255 is silently reduced modulo 256 - stated here as what the code does, the properties quantify up to 255), one
   allocation of tag_length bytes, -ENOMEM (as a size_t) on NULL, else the body block is cleared and filled and 2 + tag_length returned *)
Theorem code_create_tag rho num tl q :
  - 2 ^ 31 <= num < 2 ^ 31 -> 0 <= tl < 2 ^ 63 -> rho "ret:malloc" = q -> 0 <= q < 2 ^ 63 ->
  let rho0 := upd (upd rho "tag_number" num) "tag_length" tl in
  let pre := [("memset", [wrap u64 (rho "tagged_parameter"); 0; 10]); ("malloc", [tl])] in
  if (q =? 0)%Z then observe (exec 40 m rho0 [] body_libwifi_create_tag) = Some (Some (2 ^ 64 - 12), pre)
  else exists rho',
    exec 40 m rho0 [] body_libwifi_create_tag =
      Returned (Some (2 + tl)) rho'
        (pre ++ [("memset", [q; 0; tl]); ("memcpy", [q; wrap u64 (rho "tag_data"); tl])]) /\
    rho' "tagged_parameter->header.tag_len" = tl mod 256 /\ rho' "tagged_parameter->header.tag_num" = num mod 256 /\
    rho' "tagged_parameter->body" = q.
Proof.
  intros Hnum Htl Hq Hq0 rho0 pre; nums.
  unfold pre, rho0, body_libwifi_create_tag; clear pre rho0.
  erewrite exec_call by (ceval_env; wrap_ids; reflexivity). rewrite exec_zero.
  destruct (Z.eqb_spec q 0) as [Eq | Nq].
  - repeat first [ erewrite exec_set by (ceval_env; wrap_ids; reflexivity)
                 | erewrite exec_call by (ceval_env; wrap_ids; reflexivity) ].
    erewrite exec_if_gen with (bb := true).
    2:{ ceval_env. rewrite Hq, Eq. wrap_ids. reflexivity. }
    cbv beta iota.
    erewrite exec_ret by (ceval_env; wrap_ids; reflexivity). cbn [observe app]. list_eq.
  - eexists. split.
    + repeat first [ erewrite exec_set by (ceval_env; wrap_ids; reflexivity)
                   | erewrite exec_call by (ceval_env; wrap_ids; reflexivity) ].
      erewrite exec_if_gen with (bb := false).
      2:{ ceval_env. rewrite Hq. wrap_ids. destruct (Z.eqb_spec q 0); [contradiction | reflexivity]. }
      cbv beta iota. rewrite exec_nil.
      repeat first [ erewrite exec_call by (ceval_env; rewrite ?Hq; wrap_ids; reflexivity)
                   | erewrite exec_ret by (ceval_env; wrap_ids; reflexivity) ].
      cbn [app]. apply Returned_eq; [reflexivity | reflexivity | ].
      env_simpl. list_eq.
    + env_simpl.
      unfold wrap, modulus; cbn [c_signed c_bits]. change (2 ^ 8) with 256. rewrite !Z.mod_mod by lia.
      repeat split; try reflexivity. rewrite Hq. wrap_ids. reflexivity.
Qed.

(* libwifi_quick_add_tag: c is what libwifi_create_tag answers (a size_t), r what libwifi_add_tag answers.  The answer of create_tag is
   narrowed to int; not positive: it is returned and nothing else is called; otherwise add_tag's answer is returned AFTER the temporary
   element has been released, whether add_tag succeeded or not *)
Theorem code_quick_add_tag rho c r :
  rho "ret:libwifi_create_tag" = c -> 0 <= c < 2 ^ 64 -> rho "ret:libwifi_add_tag" = r -> - 2 ^ 31 <= r < 2 ^ 31 ->
  let ci := wrap s32 c in
  exists a1 a2 a3,
  observe (exec 40 m rho [] body_libwifi_quick_add_tag) =
    (if ci <=? 0 then Some (Some ci, [("libwifi_create_tag", a1)])
     else Some (Some r, [("libwifi_create_tag", a1); ("libwifi_add_tag", a2); ("libwifi_free_tag", a3)])).
Proof.
  intros Hc Hc0 Hr Hr0 ci; nums. unfold ci, s32; clear ci.
  unfold body_libwifi_quick_add_tag.
  eexists. eexists. eexists.
  erewrite exec_call by ceval_now. rewrite exec_clobber.
  erewrite exec_set.
  2:{ ceval_env. rewrite Hc. wrap_ids. reflexivity. }
  assert (Hci : - 2147483648 <= wrap (mkty true 32) c < 2147483648).
  { unfold wrap, modulus, tmax; cbn [c_signed c_bits].
    change (2 ^ 32) with 4294967296. change (2 ^ (32 - 1) - 1) with 2147483647.
    pose proof (Z.mod_pos_bound c 4294967296 ltac:(lia)) as Hm.
    destruct (Z.leb_spec (c mod 4294967296) 2147483647); lia. }
  erewrite exec_if_gen with (bb := (wrap (mkty true 32) c <=? 0)).
  2:{ ceval_env. wrap_ids. reflexivity. }
  destruct (Z.leb_spec (wrap (mkty true 32) c) 0) as [Hneg | Hpos].
  - erewrite exec_ret.
    2:{ ceval_env. wrap_ids. reflexivity. }
    cbn [observe app]. reflexivity.
  - rewrite exec_nil.
    erewrite exec_call by ceval_now. rewrite exec_clobber.
    erewrite exec_set.
    2:{ ceval_env. rewrite Hr. wrap_ids. reflexivity. }
    erewrite exec_call by ceval_now. rewrite exec_clobber.
    erewrite exec_ret.
    2:{ ceval_env. wrap_ids. reflexivity. }
    cbn [observe app]. reflexivity.
  Unshelve. all: exact [].
Qed.

(* libwifi_free_action_detail releases the block exactly when a length is recorded, and then records none *)
Theorem code_free_action_detail rho dl :
  0 <= dl < 256 ->
  let rho0 := upd rho "detail->detail_length" dl in
  if (dl =? 0)%Z then observe (exec 20 m rho0 [] body_libwifi_free_action_detail) = Some (None, [])
  else exists rho', exec 20 m rho0 [] body_libwifi_free_action_detail = Fell rho' [("free", [wrap u64 (rho "detail->detail")])] /\
       rho' "detail->detail_length" = 0.
Proof.
  intros Hdl rho0; nums. unfold rho0, body_libwifi_free_action_detail; clear rho0.
  destruct (Z.eqb_spec dl 0) as [E | N].
  - erewrite exec_if_gen with (bb := false).
    2:{ ceval_unfold. wrap_ids. destruct (Z.eqb_spec dl 0); [reflexivity | contradiction]. }
    cbv beta iota. rewrite !exec_nil. reflexivity.
  - erewrite exec_if_gen with (bb := true).
    2:{ ceval_unfold. wrap_ids. destruct (Z.eqb_spec dl 0); [contradiction | reflexivity]. }
    cbv beta iota.
    erewrite exec_call by ceval_now. erewrite exec_set by ceval_now. rewrite !exec_nil.
    eexists. split; [reflexivity | ]. cbv beta iota delta [upd String.eqb Ascii.eqb Bool.eqb]. reflexivity.
Qed.


End WithMemory.

Print Assumptions code_add_tag.
Print Assumptions code_add_action_detail.
Print Assumptions code_create_tag.
Print Assumptions code_quick_add_tag.
Print Assumptions code_free_action_detail.
