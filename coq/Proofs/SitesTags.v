(* Part B of the code-level theorems: tag list and action detail editing (C05, C14, C15).
   Theorems about the translated C code itself (Gen/Sites.v, generated from the libwifi sources): every statement below
   is about the terms the translator produced, evaluated with the C integer semantics of Base/CExpr.v, for ALL values in
   the stated ranges.

   A. the dump routines copy exactly [buf, buf + length) when the length fits the caller's buffer and copy nothing otherwise;
   B. the arithmetic of the tag list / action detail editing routines;
   C. guards and lengths, site by site. *)
From Coq Require Import ZArith String List Bool Lia.
From LW Require Import Base.CExpr Gen.Sites Spec.CodeSpec Proofs.SitesLemmas.
Import ListNotations.
Local Open Scope string_scope.
Local Open Scope Z_scope.

(* every statement holds for EVERY memory: none of these routines' translated statements loads from it *)
Section WithMemory.
Variable m : memory.

Ltac nums :=
  change (2 ^ 64) with 18446744073709551616 in *; change (2 ^ 63) with 9223372036854775808 in *;
  change (2 ^ 62) with 4611686018427387904 in *; change (2 ^ 40) with 1099511627776 in *;
  change (2 ^ 32) with 4294967296 in *; change (2 ^ 31) with 2147483648 in *; change (10 ^ 9) with 1000000000 in *.

(* ================================================================ B. tag list and action detail editing *)

(* len = tags->length, tl = tag->header.tag_len, p = tags->parameters, q = what the allocator answers. *)
Theorem code_add_tag rho len tl p q :
  0 <= len < 2 ^ 62 -> 0 <= tl < 256 -> 0 < p -> p + len + 257 < 2 ^ 63 ->
  (if (len =? 0)%Z then rho "ret:malloc" else rho "ret:realloc") = q ->
  0 <= q -> q + len + 257 < 2 ^ 63 ->
  let rho0 := upd (upd (upd rho "tags->length" len) "tag->header.tag_len" tl) "tags->parameters" p in
  let alloc := if (len =? 0)%Z then ("malloc", [2 + tl]) else ("realloc", [p; len + 2 + tl]) in
  if (q =? 0)%Z then observe (exec 40 m rho0 [] body_libwifi_add_tag) = Some (Some (-12), [alloc])
  else exists rho',
    exec 40 m rho0 [] body_libwifi_add_tag =
      Returned (Some 0) rho'
        [alloc; ("memcpy", [q + len; wrap u64 (rho "&tag->header"); 2]);
                ("memcpy", [q + len + 2; wrap u64 (rho "tag->body"); tl])] /\
    rho' "tags->length" = len + 2 + tl.
Proof.
  intros Hlen Htl Hp Hpend Hq Hq0 Hqend rho0 alloc; nums.
  unfold alloc, rho0, body_libwifi_add_tag; clear alloc rho0.
  destruct (Z.eqb_spec len 0) as [Elen | Nlen]; destruct (Z.eqb_spec q 0) as [Eq | Nq].
  - exec_run. cbn [observe app]. list_eq.
  - eexists. split.
    + exec_run. cbn [app]. apply Returned_eq; [reflexivity | reflexivity | list_eq].
    + cbv beta iota delta [upd String.eqb Ascii.eqb Bool.eqb]. lia.
  - exec_run. cbn [observe app]. list_eq.
  - eexists. split.
    + exec_run. cbn [app]. apply Returned_eq; [reflexivity | reflexivity | list_eq].
    + cbv beta iota delta [upd String.eqb Ascii.eqb Bool.eqb]. lia.
Qed.

(* dl = detail->detail_length, n = data_len, q = what the allocator answers.  A range for q is needed: the copy's
   destination is computed as the pointer sum q + dl, which has to stay an address (below 2^63), whence [q + dl < 2^63]. *)
Theorem code_add_action_detail rho dl n q :
  0 <= dl < 256 -> 0 <= n < 2 ^ 63 ->
  (if (dl =? 0)%Z then rho "ret:malloc" else rho "ret:realloc") = q ->
  0 <= q -> q + dl < 2 ^ 63 ->
  let rho0 := upd (upd rho "detail->detail_length" dl) "data_len" n in
  let alloc := if (dl =? 0)%Z then ("malloc", [n]) else ("realloc", [wrap u64 (rho "detail->detail"); n + dl]) in
  if (n =? 0)%Z then observe (exec 40 m rho0 [] body_libwifi_add_action_detail) = Some (Some dl, [])
  else if n + dl >? 255 then observe (exec 40 m rho0 [] body_libwifi_add_action_detail) = Some (Some (2 ^ 64 - 22), [])
  else if (q =? 0)%Z then observe (exec 40 m rho0 [] body_libwifi_add_action_detail) = Some (Some (2 ^ 64 - 12), [alloc])
  else exists rho',
    exec 40 m rho0 [] body_libwifi_add_action_detail =
      Returned (Some (dl + n)) rho' [alloc; ("memcpy", [q + dl; wrap u64 (rho "data"); n])] /\
    rho' "detail->detail_length" = dl + n.
Proof.
  intros Hdl Hn Hq Hq0 Hqend rho0 alloc; nums.
  unfold alloc, rho0, body_libwifi_add_action_detail; clear alloc rho0.
  destruct (Z.eqb_spec n 0) as [En | Nn].
  { exec_run. cbn [observe app]. reflexivity. }
  destruct (Z.gtb_spec (n + dl) 255) as [Hbig | Hfit].
  { exec_run. cbn [observe app]. reflexivity. }
  destruct (Z.eqb_spec dl 0) as [Edl | Ndl]; destruct (Z.eqb_spec q 0) as [Eq | Nq].
  - exec_run. cbn [observe app]. list_eq.
  - eexists. split.
    + exec_run. cbn [app]. apply Returned_eq; [f_equal; lia | reflexivity | list_eq].
    + cbv beta iota delta [upd String.eqb Ascii.eqb Bool.eqb]. lia.
  - exec_run. cbn [observe app]. list_eq.
  - eexists. split.
    + exec_run. cbn [app]. apply Returned_eq; [f_equal; lia | reflexivity | list_eq].
    + cbv beta iota delta [upd String.eqb Ascii.eqb Bool.eqb]. lia.
Qed.


End WithMemory.

Print Assumptions code_add_tag.
Print Assumptions code_add_action_detail.
