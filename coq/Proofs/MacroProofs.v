(* C18 - proofs.  Organisation:
   1. hygiene (syntactic, computed): for every published name and every argument shape, the expanded and
      parsed invocation is the macro's own AST - obtained by invoking it on two placeholder identifiers
      that are not C identifiers - with the placeholders replaced by the AST of the argument expression
      and by the enumerator.  An unparenthesised parameter breaks exactly this (the argument's operators
      get re-associated with the body's), and parentheses vanish in the AST, so harmless re-parenthesising
      of the macro body leaves the check untouched.
   2. substitution lemma: evaluating a substituted AST = evaluating the AST in an updated environment.
   3. semantics of the macro's own AST on two variables (a few accepted forms of a bit test).
   4. semantics of each argument shape. *)
From Coq Require Import List ZArith String Bool Lia.
From LW Require Import Base.Tok Base.Sweep Gen.Consts Gen.Macros Spec.CapSpec Model.Macro.
Import ListNotations.
Local Open Scope Z_scope.

(* verbatim from Properties_C18.v *)
Definition env_of (a b c : Z) (s : string) : option Z :=
  if String.eqb s "a" then Some a else if String.eqb s "b" then Some b else if String.eqb s "c" then Some c
  else lookup_enum s.

(* ---------- bit facts ---------- *)

Lemma land_pow2_testbit x k : 0 <= k -> (Z.land x (Z.shiftl 1 k) <> 0 <-> Z.testbit x k = true).
Proof.
  intros Hk. rewrite Z.shiftl_1_l. split.
  - intros H. destruct (Z.testbit x k) eqn:E; [reflexivity|]. exfalso. apply H.
    apply Z.bits_inj'. intros n Hn. rewrite Z.land_spec, Z.bits_0, Z.pow2_bits_eqb by exact Hk.
    destruct (Z.eqb_spec k n) as [->|_]; [rewrite E; reflexivity|apply andb_false_r].
  - intros H E.
    assert (Z.testbit (Z.land x (2 ^ k)) k = true) as Hc.
    { rewrite Z.land_spec, H, Z.pow2_bits_true by exact Hk. reflexivity. }
    rewrite E, Z.bits_0 in Hc. discriminate.
Qed.

Lemma shiftr_land1_testbit x k : 0 <= k -> (Z.land (Z.shiftr x k) 1 <> 0 <-> Z.testbit x k = true).
Proof.
  intros Hk. change 1 with (Z.ones 1). rewrite Z.land_ones by lia.
  change (2 ^ 1) with 2. rewrite <- Z.bit0_mod, Z.shiftr_spec by lia. rewrite Z.add_0_l.
  destruct (Z.testbit x k); cbn; split; congruence.
Qed.

Lemma low16 x k : 0 <= k < 16 -> Z.testbit (x mod 65536) k = Z.testbit x k.
Proof. intros Hk. change 65536 with (2 ^ 16). apply Z.mod_pow2_bits_low. lia. Qed.

(* ---------- substitution on ASTs ---------- *)

Fixpoint subst_ast (h : string) (e : cexpr) (m : cexpr) : cexpr :=
  match m with
  | EVar s => if String.eqb s h then e else EVar s
  | ELit z => ELit z
  | EUn o x => EUn o (subst_ast h e x)
  | EBin o l r => EBin o (subst_ast h e l) (subst_ast h e r)
  | ECond c a b => ECond (subst_ast h e c) (subst_ast h e a) (subst_ast h e b)
  end.

Definition upd (env : string -> option Z) (h : string) (v : Z) (s : string) : option Z :=
  if String.eqb s h then Some v else env s.

Lemma eval_subst env h e v : eval env e = Some v ->
  forall m, eval env (subst_ast h e m) = eval (upd env h v) m.
Proof.
  intros He. induction m as [s|z|o x IHx|o l IHl r IHr|c IHc a IHa b IHb]; cbn [subst_ast].
  - unfold upd at 1. cbn [eval]. unfold upd. destruct (String.eqb s h); [exact He|reflexivity].
  - reflexivity.
  - cbn [eval]. rewrite IHx. reflexivity.
  - destruct o; cbn [eval]; rewrite IHl, IHr; reflexivity.
  - cbn [eval]. rewrite IHc, IHa, IHb. reflexivity.
Qed.

Definition cexpr_eq_dec (x y : cexpr) : {x = y} + {x <> y}.
Proof.
  decide equality; [apply string_dec|apply Z.eq_dec|decide equality|decide equality].
Defined.

(* ---------- 1. hygiene ---------- *)

(* placeholders: no C identifier contains '#', so they clash neither with macro names nor with parameters *)
Definition hx : string := "#x".
Definition hc : string := "#cap".

(* the macro's own AST, on the placeholders *)
Definition macro_ast : option cexpr := check_cap [TId hx] hc.

Definition hyg_ok (name : string) (sh : shape) : bool :=
  match check_cap (sh_toks sh) name, macro_ast, parse_expr (sh_toks sh) with
  | Some e, Some m, Some ea =>
    if cexpr_eq_dec e (subst_ast hx ea (subst_ast hc (EVar name) m)) then true else false
  | _, _, _ => false
  end.

(* what the statement needs of a published name: the header gives it the IEEE bit, the bit lies in the
   16-bit field, and the name is neither an operand variable nor a placeholder *)
Definition name_ok (nb : string * Z) : bool :=
  match lookup_enum (fst nb) with Some v => Z.eqb v (snd nb) | None => false end
  && Z.leb 0 (snd nb) && Z.ltb (snd nb) 16
  && negb (String.eqb (fst nb) "a") && negb (String.eqb (fst nb) "b") && negb (String.eqb (fst nb) "c")
  && negb (String.eqb (fst nb) hx) && negb (String.eqb (fst nb) hc).

Lemma names_ok : forallb name_ok ieee_cap_bits = true.
Proof. vm_compute. reflexivity. Qed.

Lemma hygiene : forallb (fun nb => forallb (hyg_ok (fst nb)) shapes) ieee_cap_bits = true.
Proof. vm_compute. reflexivity. Qed.

(* ---------- 3. the macro's own AST is a test of bit [cap] of [x] ---------- *)

Definition bit_test (env : string -> option Z) (m : cexpr) (v k : Z) : Prop :=
  exists r, eval env m = Some r /\ (r <> 0 <-> Z.testbit v k = true).

(* x & (1 << cap) *)
Lemma form_and_shl env x n v k : env x = Some v -> env n = Some k -> 0 <= k ->
  bit_test env (EBin BAnd (EVar x) (EBin BShl (ELit 1) (EVar n))) v k.
Proof.
  intros Hx Hn Hk. eexists. cbn [eval binop_sem]. rewrite Hx, Hn. split; [reflexivity|].
  apply land_pow2_testbit. exact Hk.
Qed.

(* (1 << cap) & x *)
Lemma form_shl_and env x n v k : env x = Some v -> env n = Some k -> 0 <= k ->
  bit_test env (EBin BAnd (EBin BShl (ELit 1) (EVar n)) (EVar x)) v k.
Proof.
  intros Hx Hn Hk. eexists. cbn [eval binop_sem]. rewrite Hx, Hn. split; [reflexivity|].
  rewrite Z.land_comm. apply land_pow2_testbit. exact Hk.
Qed.

(* (x & (1 << cap)) != 0 *)
Lemma form_and_shl_ne env x n v k : env x = Some v -> env n = Some k -> 0 <= k ->
  bit_test env (EBin BNe (EBin BAnd (EVar x) (EBin BShl (ELit 1) (EVar n))) (ELit 0)) v k.
Proof.
  intros Hx Hn Hk. eexists. cbn [eval binop_sem]. rewrite Hx, Hn. split; [reflexivity|].
  rewrite <- (land_pow2_testbit v k Hk).
  destruct (Z.eqb_spec (Z.land v (Z.shiftl 1 k)) 0) as [E|E]; cbn; split; congruence.
Qed.

(* !!(x & (1 << cap)) *)
Lemma form_and_shl_notnot env x n v k : env x = Some v -> env n = Some k -> 0 <= k ->
  bit_test env (EUn ULogNot (EUn ULogNot (EBin BAnd (EVar x) (EBin BShl (ELit 1) (EVar n))))) v k.
Proof.
  intros Hx Hn Hk. eexists. cbn [eval binop_sem unop_sem]. rewrite Hx, Hn. split; [reflexivity|].
  rewrite <- (land_pow2_testbit v k Hk).
  destruct (Z.eqb_spec (Z.land v (Z.shiftl 1 k)) 0) as [E|E]; cbn; split; congruence.
Qed.

(* (x >> cap) & 1 *)
Lemma form_shr_and1 env x n v k : env x = Some v -> env n = Some k -> 0 <= k ->
  bit_test env (EBin BAnd (EBin BShr (EVar x) (EVar n)) (ELit 1)) v k.
Proof.
  intros Hx Hn Hk. eexists. cbn [eval binop_sem]. rewrite Hx, Hn. split; [reflexivity|].
  apply shiftr_land1_testbit. exact Hk.
Qed.

Lemma macro_sem env v k : env hx = Some v -> env hc = Some k -> 0 <= k ->
  match macro_ast with Some m => bit_test env m v k | None => False end.
Proof.
  intros Hx Hn Hk.
  destruct macro_ast as [m|] eqn:Hm; vm_compute in Hm; [|discriminate Hm].
  injection Hm as <-.
  first [ apply form_and_shl | apply form_shl_and | apply form_and_shl_ne
        | apply form_and_shl_notnot | apply form_shr_and1 ]; assumption.
Qed.

(* ---------- 4. the argument shapes ---------- *)

Ltac eval_shape :=
  cbv beta iota delta [eval binop_sem unop_sem env_of String.eqb Ascii.eqb Bool.eqb sh_sem].

Lemma shape_sem sh a b c : In sh shapes ->
  0 <= a < 65536 -> 0 <= b < 65536 -> 0 <= c < 65536 ->
  exists ea, parse_expr (sh_toks sh) = Some ea /\ exists v, eval (env_of a b c) ea = Some v /\
    forall k, 0 <= k < 16 -> Z.testbit v k = Z.testbit (sh_sem sh a b c) k.
Proof.
  intros Hs Ha Hb Hc.
  repeat (destruct Hs as [<-|Hs]; [
    destruct (parse_expr (sh_toks _)) as [ea|] eqn:Hp; vm_compute in Hp; [|discriminate Hp];
    injection Hp as <-; eexists; split; [reflexivity|]; eval_shape |]);
  [ .. | destruct Hs ].
  (* var, paren, or *)
  1-3: eexists; split; [reflexivity|]; intros; reflexivity.
  (* cond *)
  - destruct (c =? 0); eexists; (split; [reflexivity|]); intros; reflexivity.
  (* and, xor *)
  - eexists; split; [reflexivity|]; intros; reflexivity.
  - eexists; split; [reflexivity|]; intros; reflexivity.
  (* plus *)
  - eexists; split; [reflexivity|]. intros k Hk. symmetry. apply low16. exact Hk.
  (* shift *)
  - eexists; split; [reflexivity|]. intros k Hk. rewrite Z.shiftl_mul_pow2 by lia. change (2 ^ 1) with 2.
    symmetry. apply low16. exact Hk.
Qed.

(* ---------- the theorems ---------- *)

Theorem shapes_ok : forall name bit sh a b c,
  In (name, bit) ieee_cap_bits -> In sh shapes ->
  0 <= a < 65536 -> 0 <= b < 65536 -> 0 <= c < 65536 ->
  exists v, check_cap_eval (sh_toks sh) name (env_of a b c) = Some v /\
            (v <> 0 <-> Z.testbit (sh_sem sh a b c) bit = true).
Proof.
  intros name bit sh a b c Hn Hs Ha Hb Hc.
  (* the name *)
  pose proof names_ok as Hnames. rewrite forallb_forall in Hnames. specialize (Hnames _ Hn).
  unfold name_ok in Hnames. cbn [fst snd] in Hnames.
  repeat (apply andb_prop in Hnames as [Hnames ?H]).
  destruct (lookup_enum name) as [bit'|] eqn:Hlook; [|discriminate Hnames].
  apply Z.eqb_eq in Hnames. subst bit'.
  repeat match goal with H : negb _ = true |- _ => apply negb_true_iff in H end.
  match goal with H : (0 <=? bit) = true |- _ => apply Z.leb_le in H end.
  match goal with H : (bit <? 16) = true |- _ => apply Z.ltb_lt in H end.
  assert (env_of a b c name = Some bit) as Henv.
  { unfold env_of.
    repeat match goal with H : String.eqb name _ = false |- _ => rewrite H; clear H end. exact Hlook. }
  (* the argument *)
  destruct (shape_sem sh a b c Hs Ha Hb Hc) as (ea & Hp & v & Hea & Hbits).
  (* hygiene *)
  pose proof hygiene as Hh. rewrite forallb_forall in Hh. specialize (Hh _ Hn). cbn [fst] in Hh.
  rewrite forallb_forall in Hh. specialize (Hh _ Hs). unfold hyg_ok in Hh. rewrite Hp in Hh.
  unfold check_cap_eval.
  destruct (check_cap (sh_toks sh) name) as [e|]; [|discriminate Hh].
  pose proof (macro_sem (upd (upd (env_of a b c) hx v) hc bit) v bit) as Hm.
  destruct macro_ast as [m|]; [|discriminate Hh].
  destruct (cexpr_eq_dec e _) as [->|]; [|discriminate Hh].
  (* evaluation *)
  rewrite (eval_subst _ hx ea v Hea).
  rewrite (eval_subst _ hc (EVar name) bit).
  2:{ cbn [eval]. unfold upd. match goal with H : String.eqb name hx = false |- _ => rewrite H end.
      exact Henv. }
  destruct Hm as (r & Hr & Hiff); [reflexivity|reflexivity|lia|].
  exists r. split; [exact Hr|]. rewrite Hiff. rewrite Hbits by lia. reflexivity.
Qed.

Theorem cap_values : forall name bit, In (name, bit) ieee_cap_bits -> lookup_enum name = Some bit.
Proof.
  intros name bit Hn.
  pose proof names_ok as Hnames. rewrite forallb_forall in Hnames. specialize (Hnames _ Hn).
  unfold name_ok in Hnames. cbn [fst snd] in Hnames.
  repeat (apply andb_prop in Hnames as [Hnames _]).
  destruct (lookup_enum name) as [bit'|]; [|discriminate Hnames].
  apply Z.eqb_eq in Hnames. congruence.
Qed.

Theorem cap_distinct : NoDup (map snd enum_libwifi_capabilities) /\
  List.length enum_libwifi_capabilities = List.length ieee_cap_bits.
Proof.
  split; [apply nodup_zb_NoDup; vm_compute; reflexivity|vm_compute; reflexivity].
Qed.
