(* Proofs for C09, part 1: table, band/channel sweep, refusal classes, reported length, and totality
   (termination + memory safety for every byte string) of the radiotap decoder model. *)
From Coq Require Import List ZArith Lia Bool ZifyBool.
From LW Require Import Base.Bytes Base.Sweep Gen.Consts Gen.Rtap Gen.Layout Model.Radiotap Spec.RadiotapSpec.
Import ListNotations.
Local Open Scope Z_scope.

(* ---------------------------------------------------------------- table *)
Lemma rt_table : Gen.Rtap.rtap_align_size = s_align_size /\ Gen.Rtap.rtap_n_bits = 23.
Proof. vm_compute; split; reflexivity. Qed.

(* ---------------------------------------------------------------- band / channel *)
Definition pair_eqb (a b : Z * Z) : bool := (fst a =? fst b) && (snd a =? snd b).
Lemma pair_eqb_eq a b : pair_eqb a b = true -> a = b.
Proof. destruct a, b; unfold pair_eqb; cbn [fst snd]; intros H. f_equal; lia. Qed.

Lemma band_center_sweep :
  forallb (fun f => pair_eqb (band_center f) (s_band_center f)) (zrange 0 65536) = true.
Proof. vm_compute. reflexivity. Qed.

Lemma band_center_ok : forall f, 0 <= f < 65536 -> band_center f = s_band_center f.
Proof.
  intros f Hf. apply pair_eqb_eq.
  apply (forallb_zrange (fun f => pair_eqb (band_center f) (s_band_center f)) 0 65536 band_center_sweep).
  lia.
Qed.

(* ---------------------------------------------------------------- reads inside the buffer *)
Section Reads.
  Variable buf : list byte.
  Variable rd : Z -> res byte.
  Hypothesis Hwf : wfbytes buf.
  Hypothesis Hag : agrees rd buf.

  Lemma rd_ok a : 0 <= a < zlen buf -> rd a = Done (znth buf a).
  Proof. intros H. apply Hag. exact H. Qed.

  Lemma rd_le_agrees n off : 0 <= off -> off + Z.of_nat n <= zlen buf ->
    rd_le rd n off = Done (le_dec (firstn n (skipn (Z.to_nat off) buf))).
  Proof.
    intros H1 H2. unfold rd_le. rewrite (rd_bytes_agrees rd buf Hag n off H1 H2). reflexivity.
  Qed.
  Lemma rd_le16 off : 0 <= off -> off + 2 <= zlen buf -> rd_le rd 2 off = Done (le16 buf off).
  Proof. intros H1 H2. rewrite rd_le_agrees by lia. reflexivity. Qed.
  Lemma rd_le32 off : 0 <= off -> off + 4 <= zlen buf -> rd_le rd 4 off = Done (le32 buf off).
  Proof. intros H1 H2. rewrite rd_le_agrees by lia. reflexivity. Qed.
  Lemma rd_le64 off : 0 <= off -> off + 8 <= zlen buf -> rd_le rd 8 off = Done (le64 buf off).
  Proof. intros H1 H2. rewrite rd_le_agrees by lia. reflexivity. Qed.

  Lemma slice_wf off n : wfbytes (slice off n buf).
  Proof. unfold slice, zfirstn, zskipn. apply wfbytes_firstn, wfbytes_skipn, Hwf. Qed.
  Lemma le16_nonneg off : 0 <= le16 buf off.
  Proof. unfold le16. pose proof (le_dec_bound _ (slice_wf off 2)). lia. Qed.
  Lemma le32_nonneg off : 0 <= le32 buf off.
  Proof. unfold le32. pose proof (le_dec_bound _ (slice_wf off 4)). lia. Qed.
  Lemma le16_bound off : 0 <= le16 buf off < 65536.
  Proof.
    unfold le16. pose proof (le_dec_bound _ (slice_wf off 2)) as H.
    assert (zlen (slice off 2 buf) <= 2).
    { unfold slice, zfirstn, zlen. pose proof (firstn_le_length (Z.to_nat 2) (zskipn off buf)). lia. }
    assert (256 ^ zlen (slice off 2 buf) <= 256 ^ 2) by (apply Z.pow_le_mono_r; lia).
    change (256 ^ 2) with 65536 in *. lia.
  Qed.
End Reads.

(* ---------------------------------------------------------------- refusal classes *)
Lemma rt_refused : forall buf rd, wfbytes buf -> agrees rd buf -> s_refused buf ->
  exists c, parse_radiotap_info rd (zlen buf) = Done (Err c) /\ c < 0.
Proof.
  intros buf rd Hwf Hag Hr. unfold parse_radiotap_info.
  change sizeof_ieee80211_radiotap_header with 8.
  destruct (zlen buf <? 8) eqn:E1.
  { eexists; split; [reflexivity|unfold EINVAL; lia]. }
  rewrite (rd_le16 buf rd Hag 2) by lia. cbn [bind]. fold (s_it_len buf).
  destruct ((s_it_len buf <? 8) || (255 <? s_it_len buf)) eqn:E2.
  { eexists; split; [reflexivity|unfold EINVAL; lia]. }
  unfold rt_init. change sizeof_ieee80211_radiotap_header with 8. rewrite E1.
  rewrite (rd_ok buf rd Hag 0) by lia. cbn [bind].
  destruct (negb (znth buf 0 =? 0)) eqn:E3.
  { eexists; split; [reflexivity|unfold EINVAL; lia]. }
  rewrite (rd_le16 buf rd Hag 2) by lia. cbn [bind]. fold (s_it_len buf).
  destruct (zlen buf <? s_it_len buf) eqn:E4.
  { eexists; split; [reflexivity|unfold EINVAL; lia]. }
  exfalso. unfold s_refused in Hr. unfold byte in *. lia.
Qed.

(* ---------------------------------------------------------------- one pass of the iterator loop *)
Section Pass.
  Variable rd : Z -> res byte.

  Definition rt_pass (it : rt_it) : res (rt_it + rt_it * rt_step) :=
      let bit := r_idx it mod 32 in
      let present := Z.odd (r_shift it) in
      if (bit =? c_IEEE80211_RADIOTAP_EXT) && negb present then Done (inr (it, End (- ENOENT))) else
      if negb present then Done (inl (shift_next it)) else
      let special := (bit =? c_IEEE80211_RADIOTAP_RADIOTAP_NAMESPACE) || (bit =? c_IEEE80211_RADIOTAP_EXT) in
      let vendor := bit =? c_IEEE80211_RADIOTAP_VENDOR_NAMESPACE in
      let in_table := r_ns it && (r_idx it <? rtap_n_bits) in
      if negb special && negb vendor && negb in_table && r_ns it then Done (inr (it, End (- ENOENT))) else
      let '(align, size) := if special then (1, 0) else if vendor then (2, 6)
                            else if in_table then table_entry (r_idx it) else (0, 0) in
      if align =? 0 then
        Done (inl (shift_next {| r_max := r_max it; r_idx := r_idx it; r_shift := r_shift it;
                                 r_arg := r_nnd it; r_nextbm := r_nextbm it; r_reset := r_reset it;
                                 r_ns := false; r_nnd := r_nnd it |}))
      else
      match r_arg it with
      | None => Done (inr (it, End (- EINVAL)))
      | Some a0 =>
        let pad := a0 mod align in
        let a := if pad =? 0 then a0 else a0 + (align - pad) in
        if vendor then
          if r_max it <? a + size then Done (inr (it, End (- EINVAL))) else
          let* _ := rd_bytes rd 4 a in
          let* vnslen := rd_le rd 2 (a + 4) in
          let size' := size + vnslen in
          let a' := a + size' in
          if r_max it <? a' then Done (inr (it, End (- EINVAL))) else
          let it' := {| r_max := r_max it; r_idx := r_idx it + 1; r_shift := Z.shiftr (r_shift it) 1;
                        r_arg := Some a'; r_nextbm := r_nextbm it; r_reset := true; r_ns := false;
                        r_nnd := Some (a + size + vnslen) |} in
          Done (inr (it', Hit c_IEEE80211_RADIOTAP_VENDOR_NAMESPACE a))
        else
          let a' := a + size in
          if r_max it <? a' then Done (inr (it, End (- EINVAL))) else
          if bit =? c_IEEE80211_RADIOTAP_RADIOTAP_NAMESPACE then
            Done (inl {| r_max := r_max it; r_idx := r_idx it + 1; r_shift := Z.shiftr (r_shift it) 1;
                         r_arg := Some a'; r_nextbm := r_nextbm it; r_reset := true; r_ns := true;
                         r_nnd := r_nnd it |})
          else if bit =? c_IEEE80211_RADIOTAP_EXT then
            let* w := rd_le rd 4 (r_nextbm it) in
            Done (inl {| r_max := r_max it; r_idx := (if r_reset it then 0 else r_idx it + 1); r_shift := w;
                         r_arg := Some a'; r_nextbm := r_nextbm it + 4; r_reset := false; r_ns := r_ns it;
                         r_nnd := r_nnd it |})
          else
            Done (inr ({| r_max := r_max it; r_idx := r_idx it + 1; r_shift := Z.shiftr (r_shift it) 1;
                     r_arg := Some a'; r_nextbm := r_nextbm it; r_reset := r_reset it; r_ns := r_ns it;
                     r_nnd := r_nnd it |}, Hit (r_idx it) a))
      end.

  Lemma rt_next_S f it :
    rt_next rd (S f) it =
    match rt_pass it with
    | Done (inl it') => rt_next rd f it'
    | Done (inr r) => Done r
    | Fault k z => Fault k z
    | OutOfFuel => OutOfFuel
    end.
  Proof.
    cbn [rt_next]. unfold rt_pass.
    destruct ((r_idx it mod 32 =? c_IEEE80211_RADIOTAP_EXT) && negb (Z.odd (r_shift it))); [reflexivity|].
    destruct (negb (Z.odd (r_shift it))); [reflexivity|].
    destruct (negb ((r_idx it mod 32 =? c_IEEE80211_RADIOTAP_RADIOTAP_NAMESPACE) || (r_idx it mod 32 =? c_IEEE80211_RADIOTAP_EXT)) &&
              negb (r_idx it mod 32 =? c_IEEE80211_RADIOTAP_VENDOR_NAMESPACE) &&
              negb (r_ns it && (r_idx it <? rtap_n_bits)) && r_ns it); [reflexivity|].
    destruct (if (r_idx it mod 32 =? c_IEEE80211_RADIOTAP_RADIOTAP_NAMESPACE) || (r_idx it mod 32 =? c_IEEE80211_RADIOTAP_EXT)
              then (1, 0) else if r_idx it mod 32 =? c_IEEE80211_RADIOTAP_VENDOR_NAMESPACE then (2, 6)
              else if r_ns it && (r_idx it <? rtap_n_bits) then table_entry (r_idx it) else (0, 0)) as [align size].
    destruct (align =? 0); [reflexivity|].
    destruct (r_arg it) as [a0|]; [|reflexivity].
    destruct (r_idx it mod 32 =? c_IEEE80211_RADIOTAP_VENDOR_NAMESPACE).
    - match goal with |- context [if ?b then _ else _] => destruct b end; [reflexivity|].
      match goal with |- context [rd_bytes rd 4 ?x] => destruct (rd_bytes rd 4 x) end; cbn [bind]; try reflexivity.
      match goal with |- context [rd_le rd 2 ?x] => destruct (rd_le rd 2 x) end; cbn [bind]; try reflexivity.
      match goal with |- context [if ?b then _ else _] => destruct b end; reflexivity.
    - match goal with |- context [if r_max it <? ?x then _ else _] => destruct (r_max it <? x) end; [reflexivity|].
      destruct (r_idx it mod 32 =? c_IEEE80211_RADIOTAP_RADIOTAP_NAMESPACE); [reflexivity|].
      destruct (r_idx it mod 32 =? c_IEEE80211_RADIOTAP_EXT); [|reflexivity].
      destruct (rd_le rd 4 (r_nextbm it)); reflexivity.
  Qed.
End Pass.

(* ---------------------------------------------------------------- arithmetic helpers *)
Lemma mod32_succ r : r mod 32 <> 31 -> (r + 1) mod 32 = r mod 32 + 1.
Proof. intros H. Z.div_mod_to_equations. lia. Qed.
Lemma mod32_succ31 r : r mod 32 = 31 -> (r + 1) mod 32 = 0.
Proof. intros H. Z.div_mod_to_equations. lia. Qed.

Lemma land_bit31 w : (Z.land w bit31 =? 0) = negb (Z.testbit w 31).
Proof.
  unfold bit31. change 2147483648 with (2 ^ 31). destruct (Z.testbit w 31) eqn:E; cbn [negb].
  - apply Z.eqb_neq. intros H.
    assert (H0 : Z.testbit (Z.land w (2 ^ 31)) 31 = true).
    { rewrite Z.land_spec, E, Z.pow2_bits_true by lia. reflexivity. }
    rewrite H, Z.bits_0 in H0. discriminate.
  - apply Z.eqb_eq. apply Z.bits_inj'. intros n Hn. rewrite Z.land_spec, Z.bits_0.
    destruct (Z.eq_dec n 31) as [->|Hne]; [rewrite E; reflexivity|].
    rewrite Z.pow2_bits_false by lia. apply andb_false_r.
Qed.

Lemma table_entry_sweep :
  forallb (fun i => (1 <=? fst (table_entry i)) && (fst (table_entry i) <=? 8) &&
                    (0 <=? snd (table_entry i)) && (snd (table_entry i) <=? 12)) (zrange 0 23) = true.
Proof. vm_compute. reflexivity. Qed.
Lemma table_entry_bounds i : 0 <= i < 23 ->
  1 <= fst (table_entry i) <= 8 /\ 0 <= snd (table_entry i) <= 12.
Proof.
  intros H. pose proof (forallb_zrange _ 0 23 table_entry_sweep i ltac:(lia)) as B.
  cbv beta in B. lia.
Qed.

Lemma align_ge al a0 : 0 < al -> 0 <= a0 ->
  a0 <= (if a0 mod al =? 0 then a0 else a0 + (al - a0 mod al)).
Proof.
  intros H1 H2. pose proof (Z.mod_pos_bound a0 al H1). destruct (a0 mod al =? 0); lia.
Qed.

(* ---------------------------------------------------------------- safety invariant *)
Definition optnn (o : option Z) : Prop := match o with Some a => 0 <= a | None => True end.

Section Safe.
  Variable buf : list byte.
  Variable rd : Z -> res byte.
  Hypothesis Hwf : wfbytes buf.
  Hypothesis Hag : agrees rd buf.
  Variable M : Z.
  Hypothesis HM : 8 <= M <= zlen buf.

  (* the chain of extended present words that can still be consumed: n further words, each inside M *)
  Fixpoint chain_ok (n : nat) (nb w : Z) : Prop :=
    match n with
    | O => Z.testbit w 31 = false
    | S k => Z.testbit w 31 = true /\ nb + 4 <= M /\ chain_ok k (nb + 4) (le32 buf nb)
    end.

  Lemma chain_bound n : forall nb w, chain_ok n nb w -> n = O \/ nb + 4 * Z.of_nat n <= M.
  Proof.
    induction n as [|n IH]; intros nb w H; [left; reflexivity|right].
    cbn [chain_ok] in H. destruct H as (_ & H1 & H2). specialize (IH _ _ H2). lia.
  Qed.

  Definition inv (it : rt_it) (n : nat) : Prop :=
    r_max it = M /\ 0 <= r_idx it /\ 8 <= r_nextbm it /\
    (exists w, r_shift it = Z.shiftr w (r_idx it mod 32) /\ chain_ok n (r_nextbm it) w) /\
    optnn (r_arg it) /\ optnn (r_nnd it).
  Definition meas (it : rt_it) (n : nat) : Z := 32 * Z.of_nat n + 32 - r_idx it mod 32.
  Definition hit_ok (idx a : Z) : Prop :=
    idx = 30 \/ (0 <= idx < 23 /\ 0 <= a /\ a + snd (table_entry idx) <= M).

  Lemma meas_pos it n : 1 <= meas it n.
  Proof. unfold meas. pose proof (Z.mod_pos_bound (r_idx it) 32). lia. Qed.
  Lemma meas_bound it n : inv it n -> meas it n <= 32 * (M + 8).
  Proof.
    intros (_ & _ & Hnb & (w & _ & Hch) & _). unfold meas.
    pose proof (Z.mod_pos_bound (r_idx it) 32). destruct (chain_bound _ _ _ Hch); lia.
  Qed.

  Lemma inv_shift it n arg ns reset nnd : inv it n -> r_idx it mod 32 <> 31 -> optnn arg -> optnn nnd ->
    let it' := {| r_max := r_max it; r_idx := r_idx it + 1; r_shift := Z.shiftr (r_shift it) 1; r_arg := arg;
                  r_nextbm := r_nextbm it; r_reset := reset; r_ns := ns; r_nnd := nnd |} in
    inv it' n /\ meas it' n < meas it n.
  Proof.
    intros (Hmax & Hidx & Hnb & (w & Hsh & Hch) & _ & _) Hb Ha Hn it'.
    pose proof (Z.mod_pos_bound (r_idx it) 32).
    split.
    - unfold inv, it'; cbn [r_max r_idx r_shift r_arg r_nextbm r_reset r_ns r_nnd].
      repeat split; try assumption; try lia.
      exists w. split; [|exact Hch].
      rewrite Hsh, Z.shiftr_shiftr by lia. rewrite mod32_succ by exact Hb. reflexivity.
    - unfold meas, it'; cbn [r_idx]. rewrite mod32_succ by exact Hb. lia.
  Qed.

  Lemma pass_ok it n : inv it n ->
    match rt_pass rd it with
    | Done (inl it') => exists n', inv it' n' /\ meas it' n' < meas it n
    | Done (inr (it', End _)) => True
    | Done (inr (it', Hit idx a)) => exists n', inv it' n' /\ meas it' n' < meas it n /\ hit_ok idx a
    | _ => False
    end.
  Proof.
    intros Hinv. pose proof Hinv as (Hmax & Hidx & Hnb & (w & Hsh & Hch) & Harg & Hnnd).
    unfold rt_pass.
    change c_IEEE80211_RADIOTAP_EXT with 31. change c_IEEE80211_RADIOTAP_RADIOTAP_NAMESPACE with 29.
    change c_IEEE80211_RADIOTAP_VENDOR_NAMESPACE with 30. change rtap_n_bits with 23.
    remember (r_idx it mod 32) as bit eqn:Hbiteq.
    assert (Hbit : 0 <= bit < 32) by (subst bit; apply Z.mod_pos_bound; lia).
    assert (Hodd : Z.odd (r_shift it) = Z.testbit w bit).
    { rewrite Hsh. symmetry. apply Z.testbit_odd. }
    rewrite Hodd.
    destruct (Z.testbit w bit) eqn:Hp; cbn [negb].
    2: { (* bit clear *)
      rewrite andb_true_r. destruct (bit =? 31) eqn:E31; [exact I|].
      exists n. unfold shift_next. apply inv_shift; try assumption. lia. }
    rewrite andb_false_r.
    destruct (bit =? 31) eqn:E31.
    { (* EXT *)
      assert (H : bit = 31) by lia.
      replace (bit =? 29) with false by lia. replace (bit =? 30) with false by lia.
      cbn [orb negb andb]. replace (1 =? 0) with false by reflexivity.
      destruct (r_arg it) as [a0|]; [|exact I].
      replace (a0 mod 1) with 0 by (symmetry; apply Z.mod_1_r). replace (0 =? 0) with true by reflexivity.
      destruct (r_max it <? a0 + 0) eqn:E1; [exact I|].
      destruct n as [|n]; cbn [chain_ok] in Hch.
      { rewrite H in Hp. congruence. }
      destruct Hch as (_ & Hle & Hch).
      rewrite (rd_le32 buf rd Hag) by lia. cbn [bind].
      exists n. split.
      - unfold inv; cbn [r_max r_idx r_shift r_arg r_nextbm r_reset r_ns r_nnd].
        repeat split; try assumption; try lia.
        + destruct (r_reset it); lia.
        + exists (le32 buf (r_nextbm it)). split; [|exact Hch].
          replace ((if r_reset it then 0 else r_idx it + 1) mod 32) with 0.
          * symmetry. apply Z.shiftr_0_r.
          * destruct (r_reset it); [reflexivity|]. symmetry. apply mod32_succ31. congruence.
        + cbn in Harg |- *. lia.
      - unfold meas; cbn [r_idx].
        replace ((if r_reset it then 0 else r_idx it + 1) mod 32) with 0.
        * lia.
        * destruct (r_reset it); [reflexivity|]. symmetry. apply mod32_succ31. congruence. }
    assert (Hne : r_idx it mod 32 <> 31) by lia.
    destruct (bit =? 29) eqn:E29.
    { (* RADIOTAP_NAMESPACE *)
      cbn [orb negb andb]. replace (1 =? 0) with false by reflexivity.
      destruct (r_arg it) as [a0|]; [|exact I].
      replace (a0 mod 1) with 0 by (symmetry; apply Z.mod_1_r). replace (0 =? 0) with true by reflexivity.
      replace (bit =? 30) with false by lia.
      destruct (r_max it <? a0 + 0) eqn:E1; [exact I|].
      exists n. apply inv_shift; try assumption. unfold optnn in *. lia. }
    cbn [orb negb andb].
    destruct (bit =? 30) eqn:E30.
    { (* VENDOR_NAMESPACE *)
      cbn [negb andb]. replace (2 =? 0) with false by reflexivity.
      destruct (r_arg it) as [a0|]; [|exact I]. cbn in Harg.
      pose proof (align_ge 2 a0 ltac:(lia) Harg) as Hal.
      remember (if a0 mod 2 =? 0 then a0 else a0 + (2 - a0 mod 2)) as a eqn:Ha.
      destruct (r_max it <? a + 6) eqn:E1; [exact I|].
      rewrite (rd_bytes_agrees rd buf Hag 4 a) by lia. cbn [bind].
      rewrite (rd_le16 buf rd Hag) by lia. cbn [bind].
      pose proof (le16_nonneg buf Hwf (a + 4)) as Hv.
      destruct (r_max it <? a + (6 + le16 buf (a + 4))) eqn:E2; [exact I|].
      exists n. split; [|split]; [apply inv_shift|apply inv_shift|left; reflexivity];
        try assumption; unfold optnn; lia. }
    cbn [negb andb].
    destruct (r_ns it) eqn:Ens; cbn [andb negb].
    2: { (* no current namespace: skip *)
      replace (0 =? 0) with true by reflexivity.
      exists n. unfold shift_next; cbn [r_max r_idx r_shift r_arg r_nextbm r_reset r_ns r_nnd].
      apply inv_shift; assumption. }
    destruct (r_idx it <? 23) eqn:Et; cbn [andb negb]; [|exact I].
    destruct (table_entry_bounds (r_idx it) ltac:(lia)) as (Hal & Hsz).
    destruct (table_entry (r_idx it)) as [al sz] eqn:Ete. cbn [fst snd] in Hal, Hsz.
    destruct (al =? 0) eqn:Eal; [lia|].
    destruct (r_arg it) as [a0|]; [|exact I]. cbn in Harg.
    pose proof (align_ge al a0 ltac:(lia) Harg) as Hge.
    remember (if a0 mod al =? 0 then a0 else a0 + (al - a0 mod al)) as a eqn:Ha.
    destruct (r_max it <? a + sz) eqn:E1; [exact I|].
    exists n. split; [|split]; [apply inv_shift|apply inv_shift|right]; try assumption; try (unfold optnn; lia).
    rewrite Ete. cbn [snd]. lia.
  Qed.

  Lemma rt_next_ok : forall fuel it n, inv it n -> meas it n <= Z.of_nat fuel ->
    exists it' st, rt_next rd fuel it = Done (it', st) /\
      match st with
      | End _ => True
      | Hit idx a => exists n', inv it' n' /\ meas it' n' < meas it n /\ hit_ok idx a
      end.
  Proof.
    induction fuel as [|f IH]; intros it n Hinv Hm.
    { pose proof (meas_pos it n). lia. }
    rewrite rt_next_S. pose proof (pass_ok it n Hinv) as P.
    destruct (rt_pass rd it) as [[it1|[it1 [idx a|c]]]| |]; try contradiction.
    - destruct P as (n1 & Hinv1 & Hlt).
      destruct (IH it1 n1 Hinv1 ltac:(lia)) as (it' & st & E & Hst).
      exists it', st. split; [exact E|].
      destruct st as [idx a|c]; [|exact I].
      destruct Hst as (n' & A & B & C). exists n'. split; [exact A|split; [lia|exact C]].
    - exists it1, (Hit idx a). split; [reflexivity|exact P].
    - exists it1, (End c). split; [reflexivity|exact I].
  Qed.

  (* ---------------- the decoder's switch reads only inside the checked field *)
  Ltac field_case E Hb :=
    apply Z.eqb_eq in E; subst;
    match type of Hb with context [snd (table_entry ?c)] =>
      let v := eval vm_compute in (snd (table_entry c)) in change (snd (table_entry c)) with v in Hb end;
    rewrite ?(rd_le16 buf rd Hag), ?(rd_le64 buf rd Hag), ?(rd_ok buf rd Hag) by lia; cbn [bind].

  Lemma rt_field_done info sk idx a : hit_ok idx a -> exists r, rt_field rd info sk idx a = Done r.
  Proof.
    intros [->|(Hi & Ha & Hb)].
    { eexists. vm_compute. reflexivity. }
    unfold rt_field.
    destruct (idx =? c_IEEE80211_RADIOTAP_CHANNEL) eqn:E.
    { field_case E Hb. destruct (band_center (le16 buf a)). eexists; reflexivity. }
    clear E; destruct (idx =? c_IEEE80211_RADIOTAP_RATE) eqn:E.
    { field_case E Hb. eexists; reflexivity. }
    clear E; destruct (idx =? c_IEEE80211_RADIOTAP_DBM_ANTSIGNAL) eqn:E.
    { field_case E Hb. destruct (negb sk); [eexists; reflexivity|].
      destruct (_ <? _); eexists; reflexivity. }
    clear E; destruct (idx =? c_IEEE80211_RADIOTAP_ANTENNA) eqn:E.
    { field_case E Hb. eexists; reflexivity. }
    clear E; destruct (idx =? c_IEEE80211_RADIOTAP_FLAGS) eqn:E.
    { field_case E Hb. eexists; reflexivity. }
    clear E; destruct (idx =? c_IEEE80211_RADIOTAP_RX_FLAGS) eqn:E.
    { field_case E Hb. eexists; reflexivity. }
    clear E; destruct (idx =? c_IEEE80211_RADIOTAP_TX_FLAGS) eqn:E.
    { field_case E Hb. eexists; reflexivity. }
    clear E; destruct (idx =? c_IEEE80211_RADIOTAP_MCS) eqn:E.
    { field_case E Hb. eexists; reflexivity. }
    clear E; destruct (idx =? c_IEEE80211_RADIOTAP_DBM_TX_POWER) eqn:E.
    { field_case E Hb. eexists; reflexivity. }
    clear E; destruct (idx =? c_IEEE80211_RADIOTAP_TIMESTAMP) eqn:E.
    { field_case E Hb. eexists; reflexivity. }
    clear E; destruct (idx =? c_IEEE80211_RADIOTAP_RTS_RETRIES) eqn:E.
    { field_case E Hb. eexists; reflexivity. }
    clear E; destruct (idx =? c_IEEE80211_RADIOTAP_DATA_RETRIES) eqn:E.
    { field_case E Hb. eexists; reflexivity. }
    eexists; reflexivity.
  Qed.

  Lemma rt_loop_ok : forall fuel it n info sk, inv it n -> meas it n <= Z.of_nat fuel ->
    exists r, rt_loop rd fuel it info sk = Done r.
  Proof.
    induction fuel as [|f IH]; intros it n info sk Hinv Hm.
    { pose proof (meas_pos it n). lia. }
    cbn [rt_loop].
    pose proof (meas_bound it n Hinv) as Hb.
    assert (Hmax : r_max it = M) by (destruct Hinv; assumption).
    destruct (rt_next_ok (Z.to_nat (32 * (r_max it + 8))) it n Hinv ltac:(lia)) as (it' & st & E & Hst).
    rewrite E. cbn [bind].
    destruct st as [idx a|c]; [|eexists; reflexivity].
    destruct Hst as (n' & Hinv' & Hlt & Hhit).
    destruct (rt_field_done info sk idx a Hhit) as ([info' sk'] & EF). rewrite EF. cbn [bind].
    apply (IH it' n'); [exact Hinv'|lia].
  Qed.

  (* ---------------- iterator initialisation *)
  Lemma ext_chain_ok : forall fuel arg, 8 <= arg -> arg + 4 <= M -> M - arg < Z.of_nat fuel ->
    exists o, ext_chain rd fuel arg M = Done o /\
      match o with
      | Ok a => arg <= a /\ exists n, chain_ok n (arg + 4) (le32 buf arg)
      | Err _ => True
      end.
  Proof.
    induction fuel as [|f IH]; intros arg H8 Hle Hf; [lia|].
    cbn [ext_chain]. rewrite (rd_le32 buf rd Hag) by lia. cbn [bind].
    rewrite land_bit31. destruct (Z.testbit (le32 buf arg) 31) eqn:Eb; cbn [negb].
    2: { eexists; split; [reflexivity|]. split; [lia|]. exists O. exact Eb. }
    destruct (M <? arg + 4 + 4) eqn:E1.
    { eexists; split; [reflexivity|exact I]. }
    destruct (IH (arg + 4) ltac:(lia) ltac:(lia) ltac:(lia)) as (o & Eo & Ho).
    exists o. split; [exact Eo|].
    destruct o as [a|c]; [|exact I].
    destruct Ho as (Hge & n & Hch). split; [lia|].
    exists (S n). cbn [chain_ok]. repeat split; try assumption. lia.
  Qed.

  Lemma rt_init_ok : s_it_len buf = M ->
    exists o, rt_init rd (zlen buf) = Done o /\
      match o with
      | Ok it => exists n, inv it n
      | Err _ => True
      end.
  Proof.
    intros Hlen. unfold rt_init. change sizeof_ieee80211_radiotap_header with 8.
    destruct (zlen buf <? 8) eqn:E0; [lia|].
    rewrite (rd_ok buf rd Hag) by lia. cbn [bind].
    destruct (negb (znth buf 0 =? 0)); [eexists; split; [reflexivity|exact I]|].
    rewrite (rd_le16 buf rd Hag) by lia. cbn [bind]. fold (s_it_len buf). rewrite Hlen.
    destruct (zlen buf <? M) eqn:E1; [lia|].
    rewrite (rd_le32 buf rd Hag) by lia. cbn [bind].
    rewrite land_bit31. destruct (Z.testbit (le32 buf 4) 31) eqn:Eb; cbn [negb].
    2: { eexists; split; [reflexivity|]. exists O.
         unfold inv; cbn [r_max r_idx r_shift r_arg r_nextbm r_reset r_ns r_nnd].
         repeat split; try lia; try exact I.
         - exists (le32 buf 4). split; [reflexivity|exact Eb].
         - unfold optnn; lia. }
    destruct (M <? 8 + 4) eqn:E2; [eexists; split; [reflexivity|exact I]|].
    destruct (ext_chain_ok (Z.to_nat M + 1) 8 ltac:(lia) ltac:(lia) ltac:(lia)) as (o & Eo & Ho).
    rewrite Eo. cbn [bind].
    destruct o as [a|c]; [|eexists; split; [reflexivity|exact I]].
    destruct Ho as (Hge & n & Hch).
    eexists; split; [reflexivity|]. exists (S n).
    unfold inv; cbn [r_max r_idx r_shift r_arg r_nextbm r_reset r_ns r_nnd].
    repeat split; try lia; try exact I.
    - exists (le32 buf 4). split; [reflexivity|]. cbn [chain_ok]. repeat split; try assumption. lia.
    - unfold optnn; lia.
  Qed.
End Safe.

(* ---------------------------------------------------------------- totality *)
Lemma rt_total : forall buf rd, wfbytes buf -> agrees rd buf ->
  exists o, parse_radiotap_info rd (zlen buf) = Done o.
Proof.
  intros buf rd Hwf Hag. unfold parse_radiotap_info.
  change sizeof_ieee80211_radiotap_header with 8.
  destruct (zlen buf <? 8) eqn:E1; [eexists; reflexivity|].
  rewrite (rd_le16 buf rd Hag 2) by lia. cbn [bind]. fold (s_it_len buf).
  destruct ((s_it_len buf <? 8) || (255 <? s_it_len buf)) eqn:E2; [eexists; reflexivity|].
  destruct (zlen buf <? s_it_len buf) eqn:E3.
  { unfold rt_init. change sizeof_ieee80211_radiotap_header with 8. rewrite E1.
    rewrite (rd_ok buf rd Hag 0) by lia. cbn [bind].
    destruct (negb (znth buf 0 =? 0)); [eexists; reflexivity|].
    rewrite (rd_le16 buf rd Hag 2) by lia. cbn [bind]. fold (s_it_len buf). rewrite E3.
    eexists; reflexivity. }
  assert (HM : 8 <= s_it_len buf <= zlen buf) by (unfold byte in *; lia).
  destruct (rt_init_ok buf rd Hag (s_it_len buf) HM eq_refl) as (o & Eo & Ho).
  rewrite Eo. cbn [bind].
  destruct o as [it|c]; [|eexists; reflexivity].
  destruct Ho as (n & Hinv).
  pose proof (meas_bound _ _ HM _ _ Hinv) as Hb.
  match goal with |- context [rt_loop rd ?f it ?i ?s] =>
    destruct (rt_loop_ok buf rd Hwf Hag (s_it_len buf) HM f it n i s Hinv ltac:(cbv zeta; lia)) as (r & Er) end.
  rewrite Er. cbn [bind]. eexists; reflexivity.
Qed.

(* ---------------------------------------------------------------- reported length *)
Lemma rt_field_length rd info sk idx a r sk' :
  rt_field rd info sk idx a = Done (r, sk') -> i_length r = i_length info.
Proof.
  unfold rt_field. cbv beta zeta. intros H.
  repeat match type of H with
  | (if ?b then _ else _) = _ => destruct b
  | bind ?m _ = _ => destruct m; cbn [bind] in H; try discriminate H
  | match ?x with pair _ _ => _ end = _ => destruct x
  | Done _ = Done _ => inversion H; subst; clear H
  end; reflexivity.
Qed.

Lemma rt_loop_length rd : forall fuel it info sk r,
  rt_loop rd fuel it info sk = Done r -> i_length r = i_length info.
Proof.
  induction fuel as [|f IH]; intros it info sk r H; [discriminate|].
  cbn [rt_loop] in H.
  destruct (rt_next rd _ it) as [[it' st]| |]; cbn [bind] in H; try discriminate.
  destruct st as [idx a|c].
  - destruct (rt_field rd info sk idx a) as [[info' sk']| |] eqn:EF; cbn [bind] in H; try discriminate.
    apply IH in H. rewrite H. eapply rt_field_length; eassumption.
  - inversion H; reflexivity.
Qed.

Lemma rt_init_len buf rd it : agrees rd buf -> 8 <= zlen buf ->
  rt_init rd (zlen buf) = Done (Ok it) -> s_it_len buf <= zlen buf.
Proof.
  intros Hag H8. unfold rt_init. change sizeof_ieee80211_radiotap_header with 8.
  destruct (zlen buf <? 8) eqn:E0; [lia|].
  rewrite (rd_ok buf rd Hag) by lia. cbn [bind].
  destruct (negb (znth buf 0 =? 0)); [discriminate|].
  rewrite (rd_le16 buf rd Hag) by lia. cbn [bind]. fold (s_it_len buf).
  destruct (zlen buf <? s_it_len buf) eqn:E1; [discriminate|]. intros _. lia.
Qed.

Lemma rt_length : forall buf rd info, wfbytes buf -> agrees rd buf ->
  parse_radiotap_info rd (zlen buf) = Done (Ok info) ->
  i_length info = s_it_len buf /\ 8 <= i_length info <= zlen buf /\ i_length info <= 255.
Proof.
  intros buf rd info Hwf Hag. unfold parse_radiotap_info.
  change sizeof_ieee80211_radiotap_header with 8.
  destruct (zlen buf <? 8) eqn:E1; [discriminate|].
  rewrite (rd_le16 buf rd Hag 2) by lia. cbn [bind]. fold (s_it_len buf).
  destruct ((s_it_len buf <? 8) || (255 <? s_it_len buf)) eqn:E2; [discriminate|].
  destruct (rt_init rd (zlen buf)) as [[it|c]| |] eqn:EI; cbn [bind]; try discriminate.
  apply rt_init_len in EI; [|exact Hag|lia].
  match goal with |- context [rt_loop rd ?f it ?i ?s] => destruct (rt_loop rd f it i s) as [r| |] eqn:EL end;
    cbn [bind]; try discriminate.
  intros H. inversion H; subst r; clear H.
  apply rt_loop_length in EL. cbn [i_length] in EL. rewrite EL. unfold byte in *. lia.
Qed.
