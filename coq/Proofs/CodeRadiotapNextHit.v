(* The pass of ieee80211_radiotap_iterator_next AS TRANSLATED that REPORTS A FIELD of the radiotap namespace, executed by execg, for
   ALL values in range: argument present (shifter odd), field number idx < n_bits = 23 in the radiotap namespace whose table the
   memory holds.  The alignment and size are LOADED from the table (low / high nibble of the octet at align_size + idx), the
   argument pointer is padded up to the alignment relative to the header, the bounds test against _max_length decides between
   -EINVAL and the hit; on a hit the default group of the second switch sets hit, FALLS INTO the label next_entry (shifter >> 1,
   index + 1) and `if (hit) return 0` returns: this_arg_index = idx, this_arg = header + the ALIGNED offset - the model's
   Hit (r_idx it) a  with  a = a0 rounded up to the table's alignment - and _arg behind the field. *)
From Coq Require Import ZArith String List Bool Lia.
From LW Require Import Base.Bytes Base.CExpr Base.CGoto Gen.Consts Gen.Rtap Gen.Sites Proofs.SitesLemmas Proofs.CodeRadiotapGen
  Proofs.SitesRadiotapIter Proofs.CodeRadiotapNextPass Model.Radiotap.
Import ListNotations.
Local Open Scope string_scope.
Local Open Scope Z_scope.

Lemma execg_break f m rho tr r : execg (S f) m rho tr (SBreak :: r) = GBroke rho tr.
Proof. reflexivity. Qed.

Lemma execg_switch_broke f m rho tr k e cases d r v rho2 tr2 :
  ceval rho m e = Some v -> execg f m rho tr (pick_case v cases d) = GBroke rho2 tr2 ->
  execg (S f) m rho tr (SSwitch k e cases d :: r) = execg f m rho2 tr2 r.
Proof. intros He H. cbn [execg]. rewrite He, H. reflexivity. Qed.

Lemma execg_if_false_fell f m rho tr k c a b r rho2 tr2 :
  ceval rho m c = Some 0 -> execg f m rho tr b = GFell rho2 tr2 ->
  execg (S f) m rho tr (SIf k c a b :: r) = execg f m rho2 tr2 r.
Proof. intros Hc H. cbn [execg]. rewrite Hc. change (negb (0 =? 0)) with false. cbv iota. rewrite H. reflexivity. Qed.

Lemma execg_if_true_fell f m rho tr k c a b r v rho2 tr2 :
  ceval rho m c = Some v -> v <> 0 -> execg f m rho tr a = GFell rho2 tr2 ->
  execg (S f) m rho tr (SIf k c a b :: r) = execg f m rho2 tr2 r.
Proof.
  intros Hc Hv H. cbn [execg]. rewrite Hc. destruct (Z.eqb_spec v 0); [contradiction | ]. cbn [negb]. rewrite H. reflexivity.
Qed.

(* the rest of the loop body behind if#1 *)
Definition vendor_block : list cstmt := match nth 3 (skipn 7 rtnext_loop_body) SBreak with SIf _ _ a _ => a | _ => [] end.
Lemma rtnext_tail7_shape :
  rtnext_tail7 =
  [ rtnext_switch0;
    SSet "set:pad#0" "pad" (site NEXT "set:pad#0");
    SIf "if#5" (site NEXT "if#5") [SSet "upd:iterator->_arg#0" "iterator->_arg" (site NEXT "upd:iterator->_arg#0")] [];
    SIf "if#6" (site NEXT "if#6") vendor_block [];
    SSet "set:iterator->this_arg_index#0" "iterator->this_arg_index" (site NEXT "set:iterator->this_arg_index#0");
    SSet "set:iterator->this_arg#0" "iterator->this_arg" (site NEXT "set:iterator->this_arg#0");
    SSet "set:iterator->this_arg_size#0" "iterator->this_arg_size" (site NEXT "set:iterator->this_arg_size#0");
    SSet "upd:iterator->_arg#1" "iterator->_arg" (site NEXT "upd:iterator->_arg#1");
    SIf "if#9" (site NEXT "if#9") [SRet "ret#3" (Some (site NEXT "ret#3"))] [];
    rtnext_switch1;
    SIf "if#12" (site NEXT "if#12") [SRet "ret#4" (Some (site NEXT "ret#4"))] [] ].
Proof. Transparent rtnext_tail7. reflexivity. Qed.
Global Opaque rtnext_tail7.

Lemma execg_label_next_entry f m rho tr r :
  execg (S f) m rho tr (SOther "label next_entry" :: r) = execg f m rho tr r.
Proof. reflexivity. Qed.

Section Hit.
Variable m : memory.

(* the offset the field is reported at: a rounded up to the alignment (the model's  a := if pad =? 0 then a0 else a0 + (align - pad)) *)
Definition aligned (a al : Z) : Z := if a mod al =? 0 then a else a + (al - a mod al).

Theorem rtnext_code_field_pass rho tr idx sh h a mx rns T F :
  rho "iterator->_arg_index" = idx -> rho "iterator->_bitmap_shifter" = sh -> rho "iterator->_arg" = h + a ->
  rho "iterator->_rtheader" = h -> rho "iterator->_max_length" = mx -> rho "iterator->current_namespace" = rns ->
  0 <= idx < rtap_n_bits -> 0 <= sh < 2 ^ 32 -> Z.odd sh = true ->
  0 <= h -> 0 <= a -> h + a + 32 < 2 ^ 62 -> 0 <= mx < 2 ^ 31 -> 0 < rns < 2 ^ 62 -> 0 <= rho "iterator->_next_ns_data" < 2 ^ 64 ->
  load_le m (rns + 8) 4 = Some rtap_n_bits -> load_le m rns 8 = Some T -> 0 <= T < 2 ^ 62 ->
  table_at m T (fun k => fst (table_entry k)) (fun k => snd (table_entry k)) ->
  let al := fst (table_entry idx) in let sz := snd (table_entry idx) in let a' := aligned a al in
  if mx <? a' + sz then
    exists rho', execg (60 + F) m rho tr body_ieee80211_radiotap_iterator_next = GReturned (Some (- EINVAL)) rho' tr
  else
    exists rho', execg (60 + F) m rho tr body_ieee80211_radiotap_iterator_next = GReturned (Some 0) rho' tr /\
      rho' "iterator->this_arg_index" = idx /\ rho' "iterator->this_arg" = h + a' /\ rho' "iterator->this_arg_size" = sz /\
      rho' "iterator->_arg" = h + (a' + sz) /\ rho' "iterator->_bitmap_shifter" = Z.shiftr sh 1 /\
      rho' "iterator->_arg_index" = idx + 1 /\ rho' "iterator->_max_length" = mx /\ rho' "iterator->_rtheader" = h /\
      rho' "iterator->current_namespace" = rns /\ rho' "iterator->_next_bitmap" = rho "iterator->_next_bitmap" /\
      rho' "iterator->_reset_on_ext" = rho "iterator->_reset_on_ext".
Proof.
  intros Hi Hs Ha Hh Hmx Hns Ri Rs Hodd Rh Ra Rb Rm Rn Rnnd Hnb HT RT Htab al sz a'.
  change rtap_n_bits with 23 in *.
  destruct (rtap_entry_nibbles idx Ri) as (Ral & Rsz & Hal4). fold al in Ral, Hal4. fold sz in Rsz.
  assert (Hal1 : 1 <= al <= 8) by (cbn [In] in Hal4; lia).
  pose proof (Z.mod_pos_bound a al ltac:(lia)) as Rpad.
  assert (Ra' : a <= a' <= a + 8) by (unfold a', aligned; destruct (a mod al =? 0); lia).
  assert (Hmod : idx mod 32 = idx) by (apply Z.mod_small; lia).
  (* the conditions in front of the first switch *)
  set (r0 := locals0 rho).
  destruct (site_rtnext_if0 m r0 idx sh Hi Hs ltac:(nums; lia) Rs) as (Hc0 & _).
  rewrite Hodd in Hc0. rewrite andb_false_r in Hc0. cbn [b2z] in Hc0.
  pose proof (site_rtnext_if1 m r0 sh Hs Rs) as Hc1. rewrite Hodd in Hc1. cbn [negb b2z] in Hc1.
  destruct (site_rtnext_switch m r0 idx Hi ltac:(nums; lia)) as (Hsw0 & _). rewrite Hmod in Hsw0.
  (* the default group of the first switch *)
  pose proof (site_rtnext_if2 m r0 rns idx 23 Hns Hi Rn ltac:(nums; lia) Hnb ltac:(nums; lia)) as Hc2.
  destruct (Z.ltb_spec idx 23) as [_ | ?]; [ | lia]. cbn [negb b2z] in Hc2.
  destruct (site_rtnext_align_size_table m r0 rns idx T Hns Hi ltac:(nums; lia) Ri HT RT Htab) as (Hal & _).
  set (r1 := upd r0 "align" al).
  destruct (site_rtnext_align_size_table m r1 rns idx T Hns Hi ltac:(nums; lia) Ri HT RT Htab) as (_ & Hsz).
  set (r2 := upd r1 "size" sz).
  destruct (site_rtnext_if4 m r2 al (rho "iterator->_next_ns_data") eq_refl eq_refl ltac:(nums; lia) Rnnd) as (Hc4 & _).
  destruct (Z.eqb_spec al 0) as [? | _]; [lia | ]. cbn [b2z] in Hc4.
  (* padding *)
  pose proof (site_rtnext_pad_mod m r2 h a al Hh Ha eq_refl Rh Ra ltac:(nums; lia) Hal4) as Hpad.
  set (r3 := upd r2 "pad" (a mod al)).
  destruct (site_rtnext_if5_arg m r3 h a al (a mod al) Ha eq_refl eq_refl Rh Ra ltac:(nums; lia) Rpad ltac:(nums; lia)) as (Hc5 & Hu5).
  set (r4 := if a mod al =? 0 then r3 else upd r3 "iterator->_arg" (h + (a + (al - a mod al)))).
  assert (Ha4 : r4 "iterator->_arg" = h + a').
  { unfold r4, a', aligned. destruct (a mod al =? 0); [exact Ha | reflexivity]. }
  assert (Hkeep : forall y, y <> "iterator->_arg" -> r4 y = r3 y).
  { intros y Hy. unfold r4. destruct (a mod al =? 0); [reflexivity | ]. unfold upd at 1.
    destruct (String.eqb_spec y "iterator->_arg"); [contradiction | reflexivity]. }
  assert (Hi4 : r4 "iterator->_arg_index" = idx) by (rewrite Hkeep by discriminate; exact Hi).
  assert (Hs4 : r4 "size" = sz) by (rewrite Hkeep by discriminate; reflexivity).
  assert (Hh4 : r4 "iterator->_rtheader" = h) by (rewrite Hkeep by discriminate; exact Hh).
  assert (Hm4 : r4 "iterator->_max_length" = mx) by (rewrite Hkeep by discriminate; exact Hmx).
  destruct (site_rtnext_switch m r4 idx Hi4 ltac:(nums; lia)) as (_ & Hsw1 & Hc6). rewrite Hmod in Hsw1, Hc6.
  destruct (Z.eqb_spec idx c_IEEE80211_RADIOTAP_VENDOR_NAMESPACE) as [E | _]; [change c_IEEE80211_RADIOTAP_VENDOR_NAMESPACE with 30 in E; lia | ].
  cbn [b2z] in Hc6.
  destruct (site_rtnext_this_arg m r4 h a' sz idx Ha4 Hs4 Hi4 Rh ltac:(lia) ltac:(nums; lia) ltac:(nums; lia) ltac:(nums; lia))
    as (Ht1 & _).
  set (r5 := upd r4 "iterator->this_arg_index" idx).
  destruct (site_rtnext_this_arg m r5 h a' sz idx Ha4 Hs4 Hi4 Rh ltac:(lia) ltac:(nums; lia) ltac:(nums; lia) ltac:(nums; lia))
    as (_ & Ht2 & _).
  set (r6 := upd r5 "iterator->this_arg" (h + a')).
  destruct (site_rtnext_this_arg m r6 h a' sz idx Ha4 Hs4 Hi4 Rh ltac:(lia) ltac:(nums; lia) ltac:(nums; lia) ltac:(nums; lia))
    as (_ & _ & Ht3 & _).
  set (r7 := upd r6 "iterator->this_arg_size" sz).
  destruct (site_rtnext_this_arg m r7 h a' sz idx Ha4 Hs4 Hi4 Rh ltac:(lia) ltac:(nums; lia) ltac:(nums; lia) ltac:(nums; lia))
    as (_ & _ & _ & Ht4).
  set (r8 := upd r7 "iterator->_arg" (h + (a' + sz))).
  destruct (site_rtnext_if9 m r8 h (a' + sz) mx Hh4 eq_refl Hm4 Rh ltac:(lia) ltac:(nums; lia) Rm) as (Hc9 & Hr9).
  (* run *)
  assert (Hprefix : forall G, execg (S (S (S (S (S (S (S (S G)))))))) m rho tr rtnext_loop_body =
                              execg (S G) m r0 tr rtnext_tail7).
  { intros G. rewrite rtnext_loop_body_head.
    do 5 (rewrite execg_set with (v := 0) by reflexivity). fold (locals0 rho). fold r0.
    rewrite execg_if_skip by exact Hc0. rewrite execg_if_skip by exact Hc1. reflexivity. }
  assert (Hpick0 : pick_case idx [([29; 31], rtnext_case_special); ([30], rtnext_case_vendor)] rtnext_case_default = rtnext_case_default).
  { rewrite rtnext_switch0_pick. change c_IEEE80211_RADIOTAP_RADIOTAP_NAMESPACE with 29. change c_IEEE80211_RADIOTAP_EXT with 31.
    change c_IEEE80211_RADIOTAP_VENDOR_NAMESPACE with 30.
    destruct (Z.eqb_spec idx 29); [lia | ]. destruct (Z.eqb_spec idx 31); [lia | ]. destruct (Z.eqb_spec idx 30); [lia | ]. reflexivity. }
  assert (Hpick1 : pick_case idx [([30], rtnext_case2_vendor); ([29], rtnext_case2_rtns); ([31], rtnext_case2_ext)] rtnext_case2_default
                   = rtnext_case2_default).
  { rewrite rtnext_switch1_pick. change c_IEEE80211_RADIOTAP_RADIOTAP_NAMESPACE with 29. change c_IEEE80211_RADIOTAP_EXT with 31.
    change c_IEEE80211_RADIOTAP_VENDOR_NAMESPACE with 30.
    destruct (Z.eqb_spec idx 29); [lia | ]. destruct (Z.eqb_spec idx 31); [lia | ]. destruct (Z.eqb_spec idx 30); [lia | ]. reflexivity. }
  (* up to the bounds test, common to both outcomes *)
  assert (Hmid : forall G, execg (S (S (S (S (S (S (S (S (S (S (S G))))))))))) m r0 tr rtnext_tail7 =
                           execg (S (S (S G))) m r8 tr
                             [SIf "if#9" (site NEXT "if#9") [SRet "ret#3" (Some (site NEXT "ret#3"))] []; rtnext_switch1;
                              SIf "if#12" (site NEXT "if#12") [SRet "ret#4" (Some (site NEXT "ret#4"))] []]).
  { intros G. rewrite rtnext_tail7_shape, rtnext_switch0_shape.
    rewrite (execg_switch_broke _ m r0 tr _ _ _ _ _ idx r2 tr Hsw0).
    2:{ rewrite Hpick0. unfold rtnext_case_default.
        rewrite (execg_if_false_fell _ m r0 tr _ _ _ _ _ r2 tr Hc2).
        2:{ rewrite execg_set with (v := al) by exact Hal. fold r1.
            rewrite execg_set with (v := sz) by exact Hsz. fold r2. apply execg_nil. }
        rewrite execg_if_skip by exact Hc4. apply execg_break. }
    rewrite execg_set with (v := a mod al) by exact Hpad. fold r3.
    assert (Hstep5 : forall G' r, execg (S (S (S G'))) m r3 tr
               (SIf "if#5" (site NEXT "if#5") [SSet "upd:iterator->_arg#0" "iterator->_arg" (site NEXT "upd:iterator->_arg#0")] [] :: r)
               = execg (S (S G')) m r4 tr r).
    { intros G' r. unfold r4. destruct (Z.eqb_spec (a mod al) 0) as [E | E].
      - rewrite execg_if_skip by (rewrite Hc5, E; reflexivity). reflexivity.
      - rewrite (execg_if_true_fell _ m r3 tr _ _ _ _ _ (a mod al) (upd r3 "iterator->_arg" (h + (a + (al - a mod al)))) tr Hc5 E).
        + reflexivity.
        + rewrite execg_set with (v := h + (a + (al - a mod al))) by exact Hu5. apply execg_nil. }
    rewrite Hstep5.
    rewrite execg_if_skip by exact Hc6.
    rewrite execg_set with (v := idx) by exact Ht1. fold r5.
    rewrite execg_set with (v := h + a') by exact Ht2. fold r6.
    rewrite execg_set with (v := sz) by exact Ht3. fold r7.
    rewrite execg_set with (v := h + (a' + sz)) by exact Ht4. fold r8. reflexivity. }
  replace (a' + sz) with (a' + sz) in Hc9 by reflexivity.
  destruct (Z.ltb_spec mx (a' + sz)) as [Hover | Hin]; cbn [b2z] in Hc9.
  - exists r8. cbn [Nat.add]. apply rtnext_pass_returns.
    rewrite Hprefix, Hmid.
    apply execg_if_ret with (v := 1) (w := - EINVAL); [exact Hc9 | discriminate | exact Hr9].
  - (* the hit: default group of the second switch, through the label, then if (hit) return 0 *)
    assert (Hi8 : r8 "iterator->_arg_index" = idx) by exact Hi4.
    assert (Hs8 : r8 "iterator->_bitmap_shifter" = sh) by (unfold r8, r7, r6, r5; cbv beta iota delta [upd String.eqb Ascii.eqb Bool.eqb]; rewrite Hkeep by discriminate; exact Hs).
    destruct (site_rtnext_switch m r8 idx Hi8 ltac:(nums; lia)) as (_ & Hsw1' & _). rewrite Hmod in Hsw1'.
    destruct (site_rtnext_next_entry m r8 sh idx Hs8 Hi8 Rs ltac:(nums; lia)) as (Hhit & _).
    set (r9 := upd r8 "hit" 1).
    destruct (site_rtnext_next_entry m r9 sh idx Hs8 Hi8 Rs ltac:(nums; lia)) as (_ & Hsh & _).
    set (r10 := upd r9 "iterator->_bitmap_shifter" (Z.shiftr sh 1)).
    assert (Rs1 : 0 <= Z.shiftr sh 1 < 2 ^ 32).
    { rewrite Z.shiftr_div_pow2 by lia. change (2 ^ 1) with 2. nums. split; [apply Z.div_pos; lia | apply Z.div_lt_upper_bound; lia]. }
    destruct (site_rtnext_next_entry m r10 (Z.shiftr sh 1) idx eq_refl Hi8 Rs1 ltac:(nums; lia)) as (_ & _ & Hix).
    set (r11 := upd r10 "iterator->_arg_index" (idx + 1)).
    destruct (site_rtnext_if12 m r11 1 eq_refl ltac:(nums; lia)) as (Hc12 & Hr12).
    exists r11. split.
    + cbn [Nat.add]. apply rtnext_pass_returns.
      rewrite Hprefix, Hmid.
      rewrite execg_if_skip by exact Hc9.
      rewrite rtnext_switch1_shape.
      rewrite (execg_switch_fell _ m r8 tr _ _ _ _ _ idx r11 tr Hsw1').
      * apply execg_if_ret with (v := 1) (w := 0); [exact Hc12 | discriminate | exact Hr12].
      * rewrite Hpick1. unfold rtnext_case2_default.
        rewrite execg_set with (v := 1) by exact Hhit. fold r9.
        rewrite execg_label_next_entry.
        rewrite execg_set with (v := Z.shiftr sh 1) by exact Hsh. fold r10.
        rewrite execg_set with (v := idx + 1) by exact Hix. apply execg_nil.
    + assert (K : forall y, y <> "iterator->_arg" -> y <> "iterator->_arg_index" -> y <> "iterator->_bitmap_shifter" -> y <> "hit" ->
                  y <> "iterator->this_arg_size" -> y <> "iterator->this_arg" -> y <> "iterator->this_arg_index" -> r11 y = r3 y).
      { intros y H1 H2 H3 H4 H5 H6 H7. unfold r11, r10, r9, r8, r7, r6, r5, upd.
        repeat match goal with |- context [String.eqb y ?s] => destruct (String.eqb_spec y s); [contradiction | ] end.
        apply Hkeep. assumption. }
      repeat split; try reflexivity; try (rewrite K by discriminate; first [exact Hmx | exact Hh | exact Hns | reflexivity]).
Qed.
End Hit.

Print Assumptions rtnext_code_field_pass.
