(* Proofs for C09, part 2: functional correctness of the decoder on well-formed single-word headers.
   Part 1 (table, band/channel, refusal, length, totality) is Proofs/RadiotapSafe.v, re-exported. *)
From Coq Require Import List ZArith Lia Bool ZifyBool.
From LW Require Import Base.Bytes Base.Sweep Gen.Consts Gen.Rtap Gen.Layout Model.Radiotap Spec.RadiotapSpec.
From LW Require Export Proofs.RadiotapSafe.
Import ListNotations.
Local Open Scope Z_scope.

(* ---------------------------------------------------------------- facts about the specification *)
Definition bits_from (i : Z) : list (Z * (Z * Z)) := number_from i (skipn (Z.to_nat i) s_align_size).

Lemma bits_from_step i : 0 <= i < 23 -> bits_from i = (i, table_entry i) :: bits_from (i + 1).
Proof.
  intros H. unfold bits_from.
  rewrite (skipn_cons_nth (0, 0) (Z.to_nat i) s_align_size)
    by (change (length s_align_size) with 23%nat; lia).
  cbn [number_from]. replace (Z.to_nat (i + 1)) with (S (Z.to_nat i)) by lia. reflexivity.
Qed.

Lemma bits_from_0 : bits_from 0 = number_from 0 s_align_size.
Proof. reflexivity. Qed.
Lemma s_field_offsets_eq pr : s_offsets (bits_from 0) pr 8 = s_field_offsets pr.
Proof. unfold s_field_offsets. rewrite bits_from_0. reflexivity. Qed.

Lemma number_from_ge l : forall n x, In x (number_from n l) -> n <= fst x.
Proof.
  induction l as [|y l IH]; intros n x H; cbn [number_from] in H; [contradiction|].
  destruct H as [<-|H]; [cbn; lia|]. apply IH in H. lia.
Qed.
Lemma number_from_in l : forall n x, In x (number_from n l) -> In (snd x) l.
Proof.
  induction l as [|y l IH]; intros n x H; cbn [number_from] in H; [contradiction|].
  destruct H as [<-|H]; [left; reflexivity|right; eapply IH; eassumption].
Qed.
Lemma s_align_size_pos : Forall (fun e => 0 < fst e /\ 0 <= snd e) s_align_size.
Proof. unfold s_align_size. repeat constructor; cbn; lia. Qed.
Lemma bits_from_pos i x : In x (bits_from i) -> 0 < fst (snd x) /\ 0 <= snd (snd x).
Proof.
  intros H. apply number_from_in, In_skipn in H.
  pose proof s_align_size_pos as F. rewrite Forall_forall in F. apply F. exact H.
Qed.

Lemma align_up_ge cur al : 0 < al -> cur <= align_up cur al.
Proof.
  intros H. unfold align_up. pose proof (Z.mod_pos_bound cur al H). destruct (cur mod al =? 0); lia.
Qed.

Lemma s_offsets_ge pr bits : (forall x, In x bits -> 0 < fst (snd x) /\ 0 <= snd (snd x)) ->
  forall cur, cur <= snd (s_offsets bits pr cur).
Proof.
  induction bits as [|[bit [al sz]] r IH]; intros Hpos cur; cbn [s_offsets]; [cbn; lia|].
  assert (Hr : forall x, In x r -> 0 < fst (snd x) /\ 0 <= snd (snd x)) by (intros x Hx; apply Hpos; right; exact Hx).
  destruct (Hpos (bit, (al, sz)) (or_introl eq_refl)) as [Ha Hs]. cbn [fst snd] in Ha, Hs.
  destruct (Z.testbit pr bit).
  - pose proof (IH Hr (align_up cur al + sz)) as H. pose proof (align_up_ge cur al Ha).
    destruct (s_offsets r pr (align_up cur al + sz)) as [l e]. cbn [snd] in *. lia.
  - apply IH. exact Hr.
Qed.

Lemma s_offsets_keys pr bits : forall cur q, In q (fst (s_offsets bits pr cur)) ->
  exists x, In x bits /\ fst x = fst q.
Proof.
  induction bits as [|[bit [al sz]] r IH]; intros cur q H; cbn [s_offsets] in H; [contradiction|].
  destruct (Z.testbit pr bit).
  - specialize (IH (align_up cur al + sz)).
    destruct (s_offsets r pr (align_up cur al + sz)) as [l e]. cbn [fst] in *.
    destruct H as [<-|H].
    + exists (bit, (al, sz)). split; [left; reflexivity|reflexivity].
    + destruct (IH q H) as (x & Hx & E). exists x. split; [right; exact Hx|exact E].
  - destruct (IH cur q H) as (x & Hx & E). exists x. split; [right; exact Hx|exact E].
Qed.

Lemma find_key_none (b : Z) (L : list (Z * Z)) : (forall q, In q L -> fst q <> b) ->
  find (fun p => fst p =? b) L = None.
Proof.
  induction L as [|x L IH]; intros H; [reflexivity|]. cbn [find].
  destruct (fst x =? b) eqn:E.
  - exfalso. apply (H x (or_introl eq_refl)). lia.
  - apply IH. intros q Hq. apply H. right. exact Hq.
Qed.
Lemma find_key_app (b : Z) (L1 L2 : list (Z * Z)) : (forall q, In q L1 -> fst q <> b) ->
  find (fun p => fst p =? b) (L1 ++ L2) = find (fun p => fst p =? b) L2.
Proof.
  induction L1 as [|x L IH]; intros H; [reflexivity|]. cbn [app find].
  destruct (fst x =? b) eqn:E.
  - exfalso. apply (H x (or_introl eq_refl)). lia.
  - apply IH. intros q Hq. apply H. right. exact Hq.
Qed.

Lemma s_band_zero f : snd (s_band_center f) = 0 -> fst (s_band_center f) = 0.
Proof.
  unfold s_band_center.
  destruct (f =? 2484); [cbn; lia|].
  destruct ((2412 <=? f) && (f <=? 2484)); [cbn; lia|].
  destruct ((5160 <=? f) && (f <=? 5885)); [cbn; lia|].
  destruct ((5955 <=? f) && (f <=? 7115)); [cbn; lia|]. reflexivity.
Qed.

Lemma info_eq : forall (a1 a2 a3 a4 a5 : Z) (a6 : list (Z * Z)) (a7 a8 a9 a10 a11 a12 a13 a14 a15 a16 a17 a18 a19 a20 a21 a22 : Z)
  (b1 b2 b3 b4 b5 : Z) (b6 : list (Z * Z)) (b7 b8 b9 b10 b11 b12 b13 b14 b15 b16 b17 b18 b19 b20 b21 b22 : Z),
  a1 = b1 -> a2 = b2 -> a3 = b3 -> a4 = b4 -> a5 = b5 -> a6 = b6 -> a7 = b7 -> a8 = b8 -> a9 = b9 -> a10 = b10 -> a11 = b11 -> a12 = b12 -> a13 = b13 -> a14 = b14 -> a15 = b15 -> a16 = b16 -> a17 = b17 -> a18 = b18 -> a19 = b19 -> a20 = b20 -> a21 = b21 -> a22 = b22 ->
  Build_rt_info a1 a2 a3 a4 a5 a6 a7 a8 a9 a10 a11 a12 a13 a14 a15 a16 a17 a18 a19 a20 a21 a22 = Build_rt_info b1 b2 b3 b4 b5 b6 b7 b8 b9 b10 b11 b12 b13 b14 b15 b16 b17 b18 b19 b20 b21 b22.
Proof. intros. subst. reflexivity. Qed.

(* ---------------------------------------------------------------- the single-word walk *)
Section Single.
  Variable buf : list byte.
  Variable rd : Z -> res byte.
  Hypothesis Hwf : wfbytes buf.
  Hypothesis Hag : agrees rd buf.
  Hypothesis Hwf1 : s_wf1 buf.

  Let p := s_present buf.
  Let M := s_it_len buf.

  Lemma p_nonneg : 0 <= p.
  Proof. apply le32_nonneg. exact Hwf. Qed.
  Lemma p_hi i : 23 <= i -> Z.testbit p i = false.
  Proof.
    intros Hi. destruct Hwf1 as (_ & _ & Hp & _). fold p in Hp. pose proof p_nonneg as H0.
    destruct (Z.eq_dec p 0) as [->|Hne]; [apply Z.bits_0|].
    apply Z.bits_above_log2; [lia|].
    assert (Z.log2 p < 23) by (apply Z.log2_lt_pow2; lia). lia.
  Qed.

  Definition st (i cur : Z) : rt_it :=
    {| r_max := M; r_idx := i; r_shift := Z.shiftr p i; r_arg := Some cur; r_nextbm := 8;
       r_reset := false; r_ns := true; r_nnd := None |}.

  Lemma st_shift i cur : 0 <= i ->
    {| r_max := M; r_idx := i + 1; r_shift := Z.shiftr (Z.shiftr p i) 1; r_arg := Some cur; r_nextbm := 8;
       r_reset := false; r_ns := true; r_nnd := None |} = st (i + 1) cur.
  Proof. intros H. unfold st. rewrite Z.shiftr_shiftr by lia. reflexivity. Qed.

  Lemma pass_clear i cur : 0 <= i < 31 -> Z.testbit p i = false ->
    rt_pass rd (st i cur) = Done (inl (st (i + 1) cur)).
  Proof.
    intros Hi Hb. unfold rt_pass. cbn [st r_max r_idx r_shift r_arg r_nextbm r_reset r_ns r_nnd].
    rewrite Z.mod_small by lia. rewrite <- Z.testbit_odd, Hb.
    change c_IEEE80211_RADIOTAP_EXT with 31.
    replace (i =? 31) with false by lia. cbn [andb negb].
    unfold shift_next. cbn [st r_max r_idx r_shift r_arg r_nextbm r_reset r_ns r_nnd].
    rewrite st_shift by lia. reflexivity.
  Qed.

  Lemma pass_end cur : rt_pass rd (st 31 cur) = Done (inr (st 31 cur, End (- ENOENT))).
  Proof.
    unfold rt_pass. cbn [st r_max r_idx r_shift r_arg r_nextbm r_reset r_ns r_nnd].
    rewrite Z.mod_small by lia. rewrite <- Z.testbit_odd, p_hi by lia. reflexivity.
  Qed.

  Lemma pass_hit i cur : 0 <= i < 23 -> Z.testbit p i = true ->
    align_up cur (fst (table_entry i)) + snd (table_entry i) <= M ->
    rt_pass rd (st i cur) =
    Done (inr (st (i + 1) (align_up cur (fst (table_entry i)) + snd (table_entry i)),
               Hit i (align_up cur (fst (table_entry i))))).
  Proof.
    intros Hi Hb Hle. unfold rt_pass. cbn [st r_max r_idx r_shift r_arg r_nextbm r_reset r_ns r_nnd].
    rewrite Z.mod_small by lia. rewrite <- Z.testbit_odd, Hb.
    change c_IEEE80211_RADIOTAP_EXT with 31. change c_IEEE80211_RADIOTAP_RADIOTAP_NAMESPACE with 29.
    change c_IEEE80211_RADIOTAP_VENDOR_NAMESPACE with 30. change rtap_n_bits with 23.
    replace (i =? 31) with false by lia. replace (i =? 29) with false by lia.
    replace (i =? 30) with false by lia. replace (i <? 23) with true by lia.
    cbn [andb negb orb].
    destruct (table_entry_bounds i Hi) as (Hal & Hsz).
    unfold align_up in *.
    destruct (table_entry i) as [al sz]. cbn [fst snd] in *.
    replace (al =? 0) with false by lia.
    replace (M <? (if cur mod al =? 0 then cur else cur + (al - cur mod al)) + sz) with false by lia.
    rewrite st_shift by lia. reflexivity.
  Qed.

  Lemma next_clear f i cur : 0 <= i < 31 -> Z.testbit p i = false ->
    rt_next rd (S f) (st i cur) = rt_next rd f (st (i + 1) cur).
  Proof. intros Hi Hb. rewrite rt_next_S, pass_clear by assumption. reflexivity. Qed.
  Lemma next_hit f i cur : 0 <= i < 23 -> Z.testbit p i = true ->
    align_up cur (fst (table_entry i)) + snd (table_entry i) <= M ->
    rt_next rd (S f) (st i cur) =
    Done (st (i + 1) (align_up cur (fst (table_entry i)) + snd (table_entry i)),
          Hit i (align_up cur (fst (table_entry i)))).
  Proof. intros Hi Hb Hle. rewrite rt_next_S, pass_hit by assumption. reflexivity. Qed.
  Lemma scan_end : forall k i cur f, 23 <= i <= 31 -> Z.of_nat k = 31 - i ->
    rt_next rd (S k + f) (st i cur) = Done (st 31 cur, End (- ENOENT)).
  Proof.
    induction k as [|k IH]; intros i cur f Hi Hk.
    - assert (i = 31) by lia. subst i. cbn [plus]. rewrite rt_next_S, pass_end. reflexivity.
    - change (S (S k) + f)%nat with (S (S k + f)). rewrite next_clear by (try apply p_hi; lia).
      apply IH; lia.
  Qed.

  (* ---------------- position in the specification's offset list *)
  Definition pre (i cur : Z) : Prop :=
    exists L1, (forall q, In q L1 -> fst q < i) /\
      fst (s_field_offsets p) = L1 ++ fst (s_offsets (bits_from i) p cur) /\
      snd (s_field_offsets p) = snd (s_offsets (bits_from i) p cur).

  Lemma pre_0 : pre 0 8.
  Proof.
    exists []. split; [intros q []|]. unfold s_field_offsets.
    change (bits_from 0) with (number_from 0 s_align_size). cbn [app]. split; reflexivity.
  Qed.

  Lemma pre_clear i cur : 0 <= i < 23 -> Z.testbit p i = false -> pre i cur ->
    pre (i + 1) cur /\ s_off p i = None /\
    snd (s_offsets (bits_from (i + 1)) p cur) = snd (s_offsets (bits_from i) p cur).
  Proof.
    intros Hi Hb (L1 & HL1 & Hf & Hs).
    assert (E : s_offsets (bits_from i) p cur = s_offsets (bits_from (i + 1)) p cur).
    { rewrite (bits_from_step i Hi). cbn [s_offsets]. destruct (table_entry i) as [al sz]. rewrite Hb. reflexivity. }
    rewrite E in Hf, Hs. split; [|split].
    - exists L1. split; [intros q Hq; specialize (HL1 q Hq); lia|]. split; assumption.
    - unfold s_off. rewrite Hf. rewrite find_key_none; [reflexivity|].
      intros q Hq. apply in_app_or in Hq. destruct Hq as [Hq|Hq].
      + specialize (HL1 q Hq). lia.
      + apply s_offsets_keys in Hq. destruct Hq as (x & Hx & Ex).
        apply number_from_ge in Hx. lia.
    - rewrite E. reflexivity.
  Qed.

  Lemma pre_set i cur : 0 <= i < 23 -> Z.testbit p i = true -> pre i cur ->
    let o := align_up cur (fst (table_entry i)) in
    let sz := snd (table_entry i) in
    pre (i + 1) (o + sz) /\ s_off p i = Some o /\
    snd (s_offsets (bits_from (i + 1)) p (o + sz)) = snd (s_offsets (bits_from i) p cur).
  Proof.
    intros Hi Hb (L1 & HL1 & Hf & Hs) o sz.
    assert (E : s_offsets (bits_from i) p cur =
                ((i, o) :: fst (s_offsets (bits_from (i + 1)) p (o + sz)),
                 snd (s_offsets (bits_from (i + 1)) p (o + sz)))).
    { rewrite (bits_from_step i Hi). cbn [s_offsets]. subst o sz.
      destruct (table_entry i) as [al sz]. cbn [fst snd]. rewrite Hb.
      destruct (s_offsets (bits_from (i + 1)) p (align_up cur al + sz)). reflexivity. }
    rewrite E in Hf, Hs. cbn [fst snd] in Hf, Hs. split; [|split].
    - exists (L1 ++ [(i, o)]). split; [|split].
      + intros q Hq. apply in_app_or in Hq. destruct Hq as [Hq|[<-|[]]]; [specialize (HL1 q Hq); lia|cbn; lia].
      + rewrite <- app_assoc. exact Hf.
      + exact Hs.
    - unfold s_off. rewrite Hf. rewrite find_key_app.
      + cbn [find fst snd]. rewrite Z.eqb_refl. reflexivity.
      + intros q Hq. specialize (HL1 q Hq). lia.
    - rewrite E. reflexivity.
  Qed.

  Lemma end_ge i cur : cur <= snd (s_offsets (bits_from i) p cur).
  Proof. apply s_offsets_ge. intros x Hx. eapply bits_from_pos; eassumption. Qed.

  (* ---------------- the decoded record after the bits below i *)
  Definition upto (i b v : Z) : Z := if b <? i then v else 0.
  Definition spec_upto (i : Z) : rt_info :=
    let freq := fld buf p 3 (fun o => le16 buf o) in
    {| i_chan_flags := upto i 3 (fld buf p 3 (fun o => le16 buf (o + 2)));
       i_chan_freq := upto i 3 freq;
       i_chan_center := upto i 3 (if Z.testbit p 3 then fst (s_band_center freq) else 0);
       i_chan_band := upto i 3 (if Z.testbit p 3 then snd (s_band_center freq) else 0);
       i_rate_raw := upto i 2 (fld buf p 2 (fun o => znth buf o));
       i_antennas := [];
       i_signal := upto i 5 (fld buf p 5 (fun o => znth buf o));
       i_flags := upto i 1 (fld buf p 1 (fun o => znth buf o));
       i_ext_flags := 0;
       i_rx_flags := upto i 14 (fld buf p 14 (fun o => le16 buf o));
       i_tx_flags := upto i 15 (fld buf p 15 (fun o => le16 buf o));
       i_mcs_known := upto i 19 (fld buf p 19 (fun o => znth buf o));
       i_mcs_flags := upto i 19 (fld buf p 19 (fun o => znth buf (o + 1)));
       i_mcs_mcs := upto i 19 (fld buf p 19 (fun o => znth buf (o + 2)));
       i_tx_power := upto i 10 (fld buf p 10 (fun o => znth buf o));
       i_ts := upto i 22 (fld buf p 22 (fun o => le64 buf o));
       i_ts_accuracy := upto i 22 (fld buf p 22 (fun o => le16 buf (o + 8)));
       i_ts_unit := upto i 22 (fld buf p 22 (fun o => znth buf (o + 10)));
       i_ts_flags := upto i 22 (fld buf p 22 (fun o => znth buf (o + 11)));
       i_rts_retries := upto i 16 (fld buf p 16 (fun o => znth buf o));
       i_data_retries := upto i 17 (fld buf p 17 (fun o => znth buf o));
       i_length := M |}.
  Definition sk_at (i : Z) : bool := (5 <? i) && Z.testbit p 5.

  Lemma upto_lt i b v : b < i -> upto i b v = v.
  Proof. intros H. unfold upto. replace (b <? i) with true by lia. reflexivity. Qed.
  Lemma upto_ge i b v : i <= b -> upto i b v = 0.
  Proof. intros H. unfold upto. replace (b <? i) with false by lia. reflexivity. Qed.

  Lemma spec_upto_23 : spec_upto 23 = s_info buf.
  Proof. unfold spec_upto, s_info. cbv zeta. fold p. fold M. rewrite !upto_lt by lia. reflexivity. Qed.

  Lemma enum23 i : 0 <= i < 23 ->
    i = 0 \/ i = 1 \/ i = 2 \/ i = 3 \/ i = 4 \/ i = 5 \/ i = 6 \/ i = 7 \/ i = 8 \/ i = 9 \/ i = 10 \/ i = 11 \/
    i = 12 \/ i = 13 \/ i = 14 \/ i = 15 \/ i = 16 \/ i = 17 \/ i = 18 \/ i = 19 \/ i = 20 \/ i = 21 \/ i = 22.
  Proof. lia. Qed.

  Ltac srefl := match goal with |- ?a = ?b => constr_eq a b; reflexivity end.
  (* one field of the record, between spec_upto c and spec_upto (c + 1) *)
  Ltac same_field :=
    first [ srefl
          | rewrite !upto_lt by lia; srefl
          | rewrite !upto_ge by lia; srefl ].
  Ltac unfold_spec :=
    unfold spec_upto; cbv zeta;
    cbn [i_chan_flags i_chan_freq i_chan_center i_chan_band i_rate_raw i_antennas i_signal i_flags i_ext_flags
         i_rx_flags i_tx_flags i_mcs_known i_mcs_flags i_mcs_mcs i_tx_power i_ts i_ts_accuracy i_ts_unit
         i_ts_flags i_rts_retries i_data_retries i_length set_last_antenna].

  Lemma clear_step i : 0 <= i < 23 -> Z.testbit p i = false -> s_off p i = None ->
    spec_upto i = spec_upto (i + 1) /\ sk_at i = sk_at (i + 1).
  Proof.
    intros Hi Hb Hoff.
    assert (T : forall b v, b <> i \/ v = 0 -> upto i b v = upto (i + 1) b v).
    { intros b v [H| ->]; unfold upto; [|destruct (b <? i), (b <? i + 1); reflexivity].
      replace (b <? i + 1) with (b <? i) by lia. reflexivity. }
    split.
    - unfold_spec. apply info_eq; try srefl; apply T;
        match goal with |- ?b <> i \/ _ =>
          destruct (Z.eq_dec b i) as [Heq|Hne];
          [right; subst i; unfold fld; rewrite ?Hoff, ?Hb; srefl | left; exact Hne] end.
    - unfold sk_at. destruct (Z.eq_dec i 5) as [->|Hne].
      + rewrite Hb. rewrite !andb_false_r. reflexivity.
      + replace (5 <? i + 1) with (5 <? i) by lia. reflexivity.
  Qed.

  Lemma skip_step i : 0 <= i < 23 ->
    i <> 3 -> i <> 2 -> i <> 5 -> i <> 11 -> i <> 1 -> i <> 14 -> i <> 15 -> i <> 19 -> i <> 10 -> i <> 22 ->
    i <> 16 -> i <> 17 ->
    spec_upto i = spec_upto (i + 1) /\ sk_at i = sk_at (i + 1).
  Proof.
    intros Hi. intros.
    assert (T : forall b v, b <> i -> upto i b v = upto (i + 1) b v).
    { intros b v Hne. unfold upto. replace (b <? i + 1) with (b <? i) by lia. reflexivity. }
    split.
    - unfold_spec. apply info_eq; try srefl; apply T; lia.
    - unfold sk_at. replace (5 <? i + 1) with (5 <? i) by lia. reflexivity.
  Qed.

  Lemma T_same i b v : b <> i -> upto i b v = upto (i + 1) b v.
  Proof. intros Hne. unfold upto. replace (b <? i + 1) with (b <? i) by lia. reflexivity. Qed.
  Lemma T_set c o (f : Z -> Z) : s_off p c = Some o -> upto (c + 1) c (fld buf p c f) = f o.
  Proof. intros Hoff. rewrite upto_lt by lia. unfold fld. rewrite Hoff. reflexivity. Qed.
  Lemma sk_same i : i <> 5 -> sk_at i = sk_at (i + 1).
  Proof. intros H. unfold sk_at. replace (5 <? i + 1) with (5 <? i) by lia. reflexivity. Qed.
  Lemma done_pair_eq {A B} (a a' : A) (b b' : B) : a = a' -> b = b' -> @Done (A * B) (a, b) = Done (a', b').
  Proof. intros -> ->. reflexivity. Qed.

  Ltac norm_size Hle :=
    match type of Hle with context [snd (table_entry ?c)] =>
      let v := eval vm_compute in (snd (table_entry c)) in change (snd (table_entry c)) with v in Hle end.
  Ltac reads := rewrite ?(rd_le16 buf rd Hag), ?(rd_le64 buf rd Hag), ?(rd_ok buf rd Hag) by lia; cbn [bind].
  Ltac one_field Hoff :=
    first [ srefl | apply T_same; lia | rewrite (T_set _ _ _ Hoff); cbv beta; srefl ].

  Lemma field_step i o : 0 <= i < 23 -> Z.testbit p i = true -> s_off p i = Some o ->
    0 <= o -> o + snd (table_entry i) <= zlen buf ->
    rt_field rd (spec_upto i) (sk_at i) i o = Done (spec_upto (i + 1), sk_at (i + 1)).
  Proof.
    intros Hi Hb Hoff Ho Hle. unfold rt_field.
    change c_IEEE80211_RADIOTAP_CHANNEL with 3. change c_IEEE80211_RADIOTAP_RATE with 2.
    change c_IEEE80211_RADIOTAP_DBM_ANTSIGNAL with 5. change c_IEEE80211_RADIOTAP_ANTENNA with 11.
    change c_IEEE80211_RADIOTAP_FLAGS with 1. change c_IEEE80211_RADIOTAP_RX_FLAGS with 14.
    change c_IEEE80211_RADIOTAP_TX_FLAGS with 15. change c_IEEE80211_RADIOTAP_MCS with 19.
    change c_IEEE80211_RADIOTAP_DBM_TX_POWER with 10. change c_IEEE80211_RADIOTAP_TIMESTAMP with 22.
    change c_IEEE80211_RADIOTAP_RTS_RETRIES with 16. change c_IEEE80211_RADIOTAP_DATA_RETRIES with 17.
    destruct (i =? 3) eqn:E3.
    { apply Z.eqb_eq in E3; subst i. norm_size Hle. reads.
      rewrite band_center_ok by (apply le16_bound; exact Hwf).
      destruct (s_band_center (le16 buf o)) as [center band] eqn:EB.
      apply done_pair_eq; [|apply sk_same; lia].
      unfold_spec. apply info_eq; try (one_field Hoff).
      - rewrite (upto_lt (3 + 1) 3) by lia. rewrite (upto_ge 3 3) by lia. rewrite Hb. unfold fld. rewrite Hoff.
        cbv beta. rewrite EB. cbn [fst].
        destruct (band =? 0) eqn:Eb0; [|reflexivity].
        pose proof (s_band_zero (le16 buf o)) as Z0. rewrite EB in Z0. cbn [fst snd] in Z0. lia.
      - rewrite (upto_lt (3 + 1) 3) by lia. rewrite (upto_ge 3 3) by lia. rewrite Hb. unfold fld. rewrite Hoff.
        cbv beta. rewrite EB. cbn [snd]. apply Z.lor_0_l. }
    destruct (i =? 2) eqn:E2.
    { apply Z.eqb_eq in E2; subst i. norm_size Hle. reads.
      apply done_pair_eq; [|apply sk_same; lia]. unfold_spec. apply info_eq; one_field Hoff. }
    destruct (i =? 5) eqn:E5.
    { apply Z.eqb_eq in E5; subst i. norm_size Hle. reads.
      replace (sk_at 5) with false by (unfold sk_at; reflexivity). cbn [negb].
      apply done_pair_eq; [|unfold sk_at; rewrite Hb; reflexivity].
      unfold_spec. apply info_eq; one_field Hoff. }
    destruct (i =? 11) eqn:E11.
    { apply Z.eqb_eq in E11; subst i. norm_size Hle. reads.
      apply done_pair_eq; [|apply sk_same; lia]. unfold_spec. apply info_eq; one_field Hoff. }
    destruct (i =? 1) eqn:E1.
    { apply Z.eqb_eq in E1; subst i. norm_size Hle. reads.
      apply done_pair_eq; [|apply sk_same; lia]. unfold_spec. apply info_eq; one_field Hoff. }
    destruct (i =? 14) eqn:E14.
    { apply Z.eqb_eq in E14; subst i. norm_size Hle. reads.
      apply done_pair_eq; [|apply sk_same; lia]. unfold_spec. apply info_eq; one_field Hoff. }
    destruct (i =? 15) eqn:E15.
    { apply Z.eqb_eq in E15; subst i. norm_size Hle. reads.
      apply done_pair_eq; [|apply sk_same; lia]. unfold_spec. apply info_eq; one_field Hoff. }
    destruct (i =? 19) eqn:E19.
    { apply Z.eqb_eq in E19; subst i. norm_size Hle. reads.
      apply done_pair_eq; [|apply sk_same; lia]. unfold_spec. apply info_eq; one_field Hoff. }
    destruct (i =? 10) eqn:E10.
    { apply Z.eqb_eq in E10; subst i. norm_size Hle. reads.
      apply done_pair_eq; [|apply sk_same; lia]. unfold_spec. apply info_eq; one_field Hoff. }
    destruct (i =? 22) eqn:E22.
    { apply Z.eqb_eq in E22; subst i. norm_size Hle. reads.
      apply done_pair_eq; [|apply sk_same; lia]. unfold_spec. apply info_eq; one_field Hoff. }
    destruct (i =? 16) eqn:E16.
    { apply Z.eqb_eq in E16; subst i. norm_size Hle. reads.
      apply done_pair_eq; [|apply sk_same; lia]. unfold_spec. apply info_eq; one_field Hoff. }
    destruct (i =? 17) eqn:E17.
    { apply Z.eqb_eq in E17; subst i. norm_size Hle. reads.
      apply done_pair_eq; [|apply sk_same; lia]. unfold_spec. apply info_eq; one_field Hoff. }
    destruct (skip_step i Hi) as [A B]; try lia. rewrite <- A, <- B. reflexivity.
  Qed.

  (* ---------------- the decoder loop *)
  Definition loop1 (nf F : nat) (it : rt_it) (info : rt_info) (sk : bool) : res rt_info :=
    let* '(it', s) := rt_next rd nf it in
    match s with
    | End _ => Done info
    | Hit idx a => let* '(info', sk') := rt_field rd info sk idx a in rt_loop rd F it' info' sk'
    end.
  Lemma rt_loop_S F it info sk :
    rt_loop rd (S F) it info sk = loop1 (Z.to_nat (32 * (r_max it + 8))) F it info sk.
  Proof. reflexivity. Qed.

  Lemma M_le : M <= zlen buf.
  Proof. destruct Hwf1 as (_ & _ & _ & _ & H & _). exact H. Qed.

  Lemma loop_single : forall k i cur nf F, Z.of_nat k = 23 - i -> 0 <= i -> 8 <= cur -> pre i cur ->
    snd (s_offsets (bits_from i) p cur) <= M -> 33 - i <= Z.of_nat nf -> (k <= F)%nat ->
    loop1 nf F (st i cur) (spec_upto i) (sk_at i) = Done (spec_upto 23).
  Proof.
    induction k as [|k IH]; intros i cur nf F Hk Hi Hcur Hpre Hend Hnf HF.
    - assert (i = 23) by lia. subst i. unfold loop1.
      replace nf with (S 8 + (nf - 9))%nat by lia. rewrite scan_end by lia. cbn [bind]. reflexivity.
    - assert (Hi' : 0 <= i < 23) by lia.
      pose proof (end_ge i cur) as Hge0.
      destruct (Z.testbit p i) eqn:Hb.
      + destruct (pre_set i cur Hi' Hb Hpre) as (Hpre' & Hoff & Hend').
        destruct (table_entry_bounds i Hi') as (Hal & Hsz).
        pose proof (align_up_ge cur (fst (table_entry i)) ltac:(lia)) as Hge1.
        pose proof (end_ge (i + 1) (align_up cur (fst (table_entry i)) + snd (table_entry i))) as Hge2.
        pose proof M_le as HM.
        destruct nf as [|nf']; [lia|]. unfold loop1. rewrite next_hit by (try assumption; lia). cbn [bind].
        rewrite field_step by (try assumption; lia). cbn [bind].
        destruct F as [|F']; [lia|]. rewrite rt_loop_S. cbn [r_max st].
        apply IH; try assumption; lia.
      + destruct (pre_clear i cur Hi' Hb Hpre) as (Hpre' & Hoff & Hend').
        destruct (clear_step i Hi' Hb Hoff) as [A B]. rewrite A, B.
        destruct nf as [|nf']; [lia|]. unfold loop1. rewrite next_clear by (try assumption; lia).
        apply IH; try assumption; lia.
  Qed.
End Single.

(* ---------------------------------------------------------------- single-word headers decode to the specification *)
Lemma rt_single_word : forall buf rd, wfbytes buf -> agrees rd buf -> s_wf1 buf ->
  parse_radiotap_info rd (zlen buf) = Done (Ok (s_info buf)).
Proof.
  intros buf rd Hwf Hag Hwf1. pose proof Hwf1 as (H8 & Hver & Hp & Hend & Hlen & H255).
  pose proof (end_ge buf 0 8) as Hge. rewrite s_field_offsets_eq in Hge.
  unfold parse_radiotap_info. change sizeof_ieee80211_radiotap_header with 8.
  replace (zlen buf <? 8) with false by lia.
  rewrite (rd_le16 buf rd Hag 2) by lia. cbn [bind]. fold (s_it_len buf).
  replace ((s_it_len buf <? 8) || (255 <? s_it_len buf)) with false by lia.
  unfold rt_init. change sizeof_ieee80211_radiotap_header with 8.
  replace (zlen buf <? 8) with false by lia.
  rewrite (rd_ok buf rd Hag 0) by lia. cbn [bind]. rewrite Hver. cbn [Z.eqb negb].
  rewrite (rd_le16 buf rd Hag 2) by lia. cbn [bind]. fold (s_it_len buf).
  replace (zlen buf <? s_it_len buf) with false by (unfold byte in *; lia).
  rewrite (rd_le32 buf rd Hag 4) by lia. cbn [bind]. fold (s_present buf).
  rewrite land_bit31. rewrite (p_hi buf Hwf Hwf1 31) by lia. cbn [negb bind].
  change {| r_max := s_it_len buf; r_idx := 0; r_shift := s_present buf; r_arg := Some 8; r_nextbm := 8;
            r_reset := false; r_ns := true; r_nnd := None |} with (st buf 0 8).
  assert (E : rt_loop rd (Z.to_nat (32 * (s_it_len buf + 8))) (st buf 0 8) (spec_upto buf 0) (sk_at buf 0)
              = Done (spec_upto buf 23)).
  { replace (Z.to_nat (32 * (s_it_len buf + 8))) with (S (Z.to_nat (32 * (s_it_len buf + 8)) - 1)) by lia.
    rewrite rt_loop_S. cbn [r_max st].
    apply (loop_single buf rd Hwf Hag Hwf1 23); try lia.
    - apply pre_0.
    - rewrite s_field_offsets_eq. exact Hend. }
  change (spec_upto buf 0) with
    {| i_chan_flags := 0; i_chan_freq := 0; i_chan_center := 0; i_chan_band := 0; i_rate_raw := 0;
       i_antennas := []; i_signal := 0; i_flags := 0; i_ext_flags := 0; i_rx_flags := 0; i_tx_flags := 0;
       i_mcs_known := 0; i_mcs_flags := 0; i_mcs_mcs := 0; i_tx_power := 0;
       i_ts := 0; i_ts_accuracy := 0; i_ts_unit := 0; i_ts_flags := 0;
       i_rts_retries := 0; i_data_retries := 0; i_length := s_it_len buf |} in E.
  change (sk_at buf 0) with false in E.
  rewrite E. cbn [bind]. rewrite spec_upto_23. reflexivity.
Qed.
