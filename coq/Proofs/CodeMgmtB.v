(* part of Proofs/CodeMgmt.v, split so that the parsers' proofs build in parallel *)
From Coq Require Import ZArith String Ascii List Bool Lia.
From LW Require Import Base.Bytes Base.CExpr Gen.Sites Proofs.SitesLemmas Proofs.CodeIter Proofs.CodeSecurity.
Import ListNotations.
Local Open Scope string_scope.
Local Open Scope Z_scope.
From LW Require Import Proofs.CodeMgmtDefs.

Theorem parse_beacon_ok :
  parser_ok body_libwifi_parse_beacon 8 12 "bss->tags.length" "bss->tags.parameters" (rule_bss 12) (bss_names 10).
Proof. unfold parser_ok, rule_bss, bss_names. parser_tac body_libwifi_parse_beacon 8. Qed.

Theorem parse_probe_resp_ok :
  parser_ok body_libwifi_parse_probe_resp 5 12 "bss->tags.length" "bss->tags.parameters" (rule_bss 12) (bss_names 10).
Proof. unfold parser_ok, rule_bss, bss_names. parser_tac body_libwifi_parse_probe_resp 5. Qed.

