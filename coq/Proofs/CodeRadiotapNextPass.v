(* Whole passes of the while (1) loop of ieee80211_radiotap_iterator_next AS TRANSLATED, executed by Base/CGoto.v's execg, for ALL
   values in range (complementing the per-site lemmas of Proofs/SitesRadiotapIter.v, which say what every expression evaluates to but
   not where the gotos land):
     - rtnext_code_enoent: word exhausted (index mod 32 = 31, shifter even): -ENOENT, nothing changed but the five locals;
     - rtnext_code_absent_pass: argument not present (shifter even, index mod 32 <> 31):  goto next_entry  LANDS behind the label
       in the default group of the second switch - shifter >> 1, index + 1 - then `if (hit)` is not taken and the loop makes its next
       pass: the run equals the run from the model's shift_next state, with one unit of fuel less.
       By induction: k absent arguments in a row are skipped (rtnext_code_absent_run).
   The passes that report a field (alignment from the table, padding, bounds, the second switch) are covered per site and by the
   in-kernel runs of Proofs/CodeRadiotapNextRun.v on every run's sampled headers; a universally quantified whole-pass theorem for
   them is future work. *)
From Coq Require Import ZArith String List Bool Lia.
From LW Require Import Base.Bytes Base.CExpr Base.CGoto Gen.Consts Gen.Sites Proofs.SitesLemmas Proofs.SitesRadiotapIter Model.Radiotap.
Import ListNotations.
Local Open Scope string_scope.
Local Open Scope Z_scope.

Lemma execg_set f m rho tr k x e r v :
  ceval rho m e = Some v -> execg (S f) m rho tr (SSet k x e :: r) = execg f m (upd rho x v) tr r.
Proof. intros H. cbn [execg]. rewrite H. reflexivity. Qed.

Lemma execg_if_skip f m rho tr k c a r :
  ceval rho m c = Some 0 -> execg (S (S f)) m rho tr (SIf k c a [] :: r) = execg (S f) m rho tr r.
Proof. intros H. cbn [execg]. rewrite H. reflexivity. Qed.

Lemma execg_ret f m rho tr k e r v :
  ceval rho m e = Some v -> execg (S f) m rho tr (SRet k (Some e) :: r) = GReturned (Some v) rho tr.
Proof. intros H. cbn [execg]. rewrite H. reflexivity. Qed.

(* the body of the routine is the loop alone *)
Lemma rtnext_body_is_loop :
  body_ieee80211_radiotap_iterator_next = [SLoop "loop#0" true (site NEXT "loop#0") rtnext_loop_body []].
Proof. reflexivity. Qed.

(* one pass that falls through the loop body costs exactly one unit of fuel *)
Lemma rtnext_pass f m rho tr rho2 tr2 :
  execg (S f) m rho tr rtnext_loop_body = GFell rho2 tr2 ->
  execg (S (S f)) m rho tr body_ieee80211_radiotap_iterator_next = execg (S f) m rho2 tr2 body_ieee80211_radiotap_iterator_next.
Proof.
  intros H. rewrite rtnext_body_is_loop.
  change (execg (S (S f)) m rho tr [SLoop "loop#0" true (site NEXT "loop#0") rtnext_loop_body []])
    with (match execg (S f) m rho tr rtnext_loop_body with
          | GFell rho2 tr2 => match execg (S f) m rho2 tr2 [] with
                              | GFell rho3 tr3 => execg (S f) m rho3 tr3 [SLoop "loop#0" true (site NEXT "loop#0") rtnext_loop_body []]
                              | o => o end
          | GBroke rho2 tr2 => execg (S f) m rho2 tr2 []
          | o => o end).
  rewrite H. reflexivity.
Qed.

Lemma rtnext_pass_returns f m rho tr v rho2 tr2 :
  execg (S f) m rho tr rtnext_loop_body = GReturned v rho2 tr2 ->
  execg (S (S f)) m rho tr body_ieee80211_radiotap_iterator_next = GReturned v rho2 tr2.
Proof.
  intros H. rewrite rtnext_body_is_loop.
  change (execg (S (S f)) m rho tr [SLoop "loop#0" true (site NEXT "loop#0") rtnext_loop_body []])
    with (match execg (S f) m rho tr rtnext_loop_body with
          | GFell rho2 tr2 => match execg (S f) m rho2 tr2 [] with
                              | GFell rho3 tr3 => execg (S f) m rho3 tr3 [SLoop "loop#0" true (site NEXT "loop#0") rtnext_loop_body []]
                              | o => o end
          | GBroke rho2 tr2 => execg (S f) m rho2 tr2 []
          | o => o end).
  rewrite H. reflexivity.
Qed.

Lemma execg_if_ret f m rho tr k c k' e b r v w :
  ceval rho m c = Some v -> v <> 0 -> ceval rho m e = Some w ->
  execg (S (S f)) m rho tr (SIf k c [SRet k' (Some e)] b :: r) = GReturned (Some w) rho tr.
Proof.
  intros Hc Hv He. cbn [execg]. rewrite Hc. destruct (Z.eqb_spec v 0); [contradiction | ]. cbn [negb]. rewrite He. reflexivity.
Qed.

(* the first seven statements of the loop body, the rest kept folded *)
Definition rtnext_tail7 : list cstmt := skipn 7 rtnext_loop_body.
Lemma rtnext_loop_body_head :
  rtnext_loop_body =
  SSet "decl:hit#0" "hit" (site NEXT "decl:hit#0") :: SSet "decl:pad#0" "pad" (site NEXT "decl:pad#0") ::
  SSet "decl:align#0" "align" (site NEXT "decl:align#0") :: SSet "decl:size#0" "size" (site NEXT "decl:size#0") ::
  SSet "decl:subns#0" "subns" (site NEXT "decl:subns#0") ::
  SIf "if#0" (site NEXT "if#0") [SRet "ret#0" (Some (site NEXT "ret#0"))] [] ::
  SIf "if#1" (site NEXT "if#1") [SOther "goto next_entry"] [] :: rtnext_tail7.
Proof. reflexivity. Qed.

(* WHERE goto next_entry LANDS, computed from the translated body: behind the label in the default group of the second switch - the
   two statements  iterator->_bitmap_shifter >>= 1; iterator->_arg_index++;  run as that switch's body, then  if (hit) return 0; *)
Definition next_entry_tail : list cstmt :=
  [SSet "upd:iterator->_bitmap_shifter#0" "iterator->_bitmap_shifter" (site NEXT "upd:iterator->_bitmap_shifter#0");
   SSet "upd:iterator->_arg_index#1" "iterator->_arg_index" (site NEXT "upd:iterator->_arg_index#1")].
Definition after_switch1 : list cstmt := [SIf "if#12" (site NEXT "if#12") [SRet "ret#4" (Some (site NEXT "ret#4"))] []].
Lemma landing_next_entry :
  landing "next_entry" rtnext_tail7 = Some (SSwitch "switch#1" (CLit (mkty true 32) 0) [] next_entry_tail :: after_switch1).
Proof. vm_compute. reflexivity. Qed.
Global Opaque rtnext_tail7.

Lemma execg_if_goto_next_entry f m rho tr k c r r2 v :
  ceval rho m c = Some v -> v <> 0 -> landing "next_entry" r = Some r2 ->
  execg (S (S f)) m rho tr (SIf k c [SOther "goto next_entry"] [] :: r) = execg (S f) m rho tr r2.
Proof.
  intros Hc Hv Hl. cbn [execg]. rewrite Hc. destruct (Z.eqb_spec v 0); [contradiction | ]. cbn [negb].
  change (goto_of "goto next_entry") with (Some "next_entry"). cbv beta iota. rewrite Hl. reflexivity.
Qed.

Lemma execg_switch_fell f m rho tr k e cases d r v rho2 tr2 :
  ceval rho m e = Some v -> execg f m rho tr (pick_case v cases d) = GFell rho2 tr2 ->
  execg (S f) m rho tr (SSwitch k e cases d :: r) = execg f m rho2 tr2 r.
Proof. intros He H. cbn [execg]. rewrite He, H. reflexivity. Qed.

Lemma execg_nil f m rho tr : execg (S f) m rho tr [] = GFell rho tr.
Proof. reflexivity. Qed.

(* the five locals declared at the top of every pass *)
Definition locals0 (rho : env) : env :=
  upd (upd (upd (upd (upd rho "hit" 0) "pad" 0) "align" 0) "size" 0) "subns" 0.

Section Passes.
Variable m : memory.

(* -ENOENT: no more words *)
Theorem rtnext_code_enoent rho tr idx sh F :
  rho "iterator->_arg_index" = idx -> rho "iterator->_bitmap_shifter" = sh -> 0 <= idx < 2 ^ 31 -> 0 <= sh < 2 ^ 32 ->
  idx mod 32 = c_IEEE80211_RADIOTAP_EXT -> Z.odd sh = false ->
  execg (10 + F) m rho tr body_ieee80211_radiotap_iterator_next = GReturned (Some (- ENOENT)) (locals0 rho) tr.
Proof.
  intros Hi Hs Ri Rs Hbit Hodd.
  cbn [Nat.add]. apply rtnext_pass_returns.
  destruct (site_rtnext_if0 m (locals0 rho) idx sh Hi Hs Ri Rs) as (Hc & Hr).
  rewrite Hbit, Z.eqb_refl, Hodd in Hc. cbn [negb andb b2z] in Hc.
  rewrite rtnext_loop_body_head.
  do 5 (rewrite execg_set with (v := 0) by reflexivity). fold (locals0 rho).
  apply execg_if_ret with (v := 1) (w := - ENOENT); [exact Hc | discriminate | exact Hr].
Qed.

(* the argument is not present: goto next_entry lands behind the label, the shifter and the index move on, the loop goes on *)
Definition absent_next (rho : env) (idx sh : Z) : env :=
  upd (upd (locals0 rho) "iterator->_bitmap_shifter" (Z.shiftr sh 1)) "iterator->_arg_index" (idx + 1).

Theorem rtnext_code_absent_pass rho tr idx sh F :
  rho "iterator->_arg_index" = idx -> rho "iterator->_bitmap_shifter" = sh -> 0 <= idx < 2 ^ 31 - 1 -> 0 <= sh < 2 ^ 32 ->
  idx mod 32 <> c_IEEE80211_RADIOTAP_EXT -> Z.odd sh = false ->
  execg (14 + F) m rho tr body_ieee80211_radiotap_iterator_next =
  execg (13 + F) m (absent_next rho idx sh) tr body_ieee80211_radiotap_iterator_next.
Proof.
  intros Hi Hs Ri Rs Hbit Hodd.
  cbn [Nat.add]. apply rtnext_pass.
  assert (Hi' : locals0 rho "iterator->_arg_index" = idx) by exact Hi.
  assert (Hs' : locals0 rho "iterator->_bitmap_shifter" = sh) by exact Hs.
  destruct (site_rtnext_if0 m (locals0 rho) idx sh Hi' Hs' ltac:(lia) Rs) as (Hc0 & _).
  destruct (Z.eqb_spec (idx mod 32) c_IEEE80211_RADIOTAP_EXT) as [E | _]; [contradiction | ]. cbn [andb b2z] in Hc0.
  pose proof (site_rtnext_if1 m (locals0 rho) sh Hs' Rs) as Hc1. rewrite Hodd in Hc1. cbn [negb b2z] in Hc1.
  destruct (site_rtnext_next_entry m (locals0 rho) sh idx Hs' Hi' Rs ltac:(lia)) as (_ & Hsh & _).
  rewrite rtnext_loop_body_head.
  do 5 (rewrite execg_set with (v := 0) by reflexivity). fold (locals0 rho).
  rewrite execg_if_skip by exact Hc0.
  rewrite (execg_if_goto_next_entry _ m (locals0 rho) tr _ _ _ _ 1 Hc1 ltac:(discriminate) landing_next_entry).
  set (rho1 := upd (locals0 rho) "iterator->_bitmap_shifter" (Z.shiftr sh 1)).
  assert (Hi1 : rho1 "iterator->_arg_index" = idx) by exact Hi.
  assert (Hs1 : rho1 "iterator->_bitmap_shifter" = Z.shiftr sh 1) by reflexivity.
  assert (Rs1 : 0 <= Z.shiftr sh 1 < 2 ^ 32).
  { rewrite Z.shiftr_div_pow2 by lia. change (2 ^ 1) with 2. nums. split; [apply Z.div_pos; lia | ].
    apply Z.div_lt_upper_bound; lia. }
  destruct (site_rtnext_next_entry m rho1 (Z.shiftr sh 1) idx Hs1 Hi1 Rs1 ltac:(lia)) as (_ & _ & Hix).
  rewrite (execg_switch_fell _ m (locals0 rho) tr "switch#1" (CLit (mkty true 32) 0) [] next_entry_tail after_switch1 0 (absent_next rho idx sh) tr eq_refl).
  - unfold after_switch1.
    assert (Hh : absent_next rho idx sh "hit" = 0) by reflexivity.
    destruct (site_rtnext_if12 m (absent_next rho idx sh) 0 Hh ltac:(nums; lia)) as (Hc12 & _).
    rewrite execg_if_skip by exact Hc12. apply execg_nil.
  - change (pick_case 0 [] next_entry_tail) with next_entry_tail. unfold next_entry_tail.
    rewrite execg_set with (v := Z.shiftr sh 1) by exact Hsh. fold rho1.
    rewrite execg_set with (v := idx + 1) by exact Hix. apply execg_nil.
Qed.

End Passes.

Print Assumptions rtnext_code_enoent.
Print Assumptions rtnext_code_absent_pass.
Print Assumptions landing_next_entry.

(* ---------------------------------------------------------------- k absent arguments in a row are skipped: the first composition of
   whole passes by induction (on the number of passes) *)
Fixpoint absent_iter (k : nat) (rho : env) (idx sh : Z) : env :=
  match k with
  | O => rho
  | S k' => absent_iter k' (absent_next rho idx sh) (idx + 1) (Z.shiftr sh 1)
  end.

Theorem rtnext_code_absent_run m tr F : forall (k : nat) rho idx sh,
  rho "iterator->_arg_index" = idx -> rho "iterator->_bitmap_shifter" = sh ->
  0 <= idx -> idx + Z.of_nat k < 2 ^ 31 - 1 -> 0 <= sh < 2 ^ 32 ->
  (forall j, 0 <= j < Z.of_nat k -> Z.testbit sh j = false /\ (idx + j) mod 32 <> c_IEEE80211_RADIOTAP_EXT) ->
  execg (13 + F + k) m rho tr body_ieee80211_radiotap_iterator_next =
  execg (13 + F) m (absent_iter k rho idx sh) tr body_ieee80211_radiotap_iterator_next.
Proof.
  induction k as [ | k IH]; intros rho idx sh Hi Hs Ri Rk Rs Hbits.
  - rewrite Nat.add_0_r. reflexivity.
  - replace (13 + F + S k)%nat with (14 + (F + k))%nat by lia.
    destruct (Hbits 0 ltac:(lia)) as (Hb0 & Hm0). rewrite Z.add_0_r in Hm0. rewrite Z.bit0_odd in Hb0.
    rewrite (rtnext_code_absent_pass m rho tr idx sh (F + k) Hi Hs ltac:(lia) Rs Hm0 Hb0).
    replace (13 + (F + k))%nat with (13 + F + k)%nat by lia.
    cbn [absent_iter]. apply IH.
    + reflexivity.
    + reflexivity.
    + lia.
    + lia.
    + rewrite Z.shiftr_div_pow2 by lia. change (2 ^ 1) with 2. nums. split; [apply Z.div_pos; lia | apply Z.div_lt_upper_bound; lia].
    + intros j Hj. destruct (Hbits (j + 1) ltac:(lia)) as (Hb & Hm'). split.
      * rewrite Z.shiftr_spec by lia. exact Hb.
      * replace (idx + 1 + j) with (idx + (j + 1)) by lia. exact Hm'.
Qed.

Print Assumptions rtnext_code_absent_run.
