(* Proofs for the round-trip part of C04: the frames written out in Spec.GenSpec, classified by
   Spec.FrameSpec and parsed by the spec-level parsers of Spec.MgmtSpec, give back what went in. *)
From Coq Require Import List ZArith Lia Bool ZifyBool.
From LW Require Import Base.Bytes Model.TagIter Spec.TagSpec Model.Radiotap Model.Frame Spec.FrameSpec
  Model.Security Model.Mgmt Spec.EapolSpec Spec.SecuritySpec Spec.MgmtSpec Spec.GenSpec
  Proofs.TagIterProofs Proofs.TagsProofs.
Import ListNotations.
Local Open Scope Z_scope.

(* restated verbatim from Properties_C04.v (that file cannot be imported here) *)
Definition neutral (extras : list tag) : Prop :=
  Forall (fun t => ~ In (fst t) [0; 3; 61; 48; 221]) extras.
Definition hidden_of (ssid : list byte) : Z := if forallb (fun b => b =? 0) ssid then 1 else 0.
Definition ssid_field (ssid : list byte) : list byte := put0 ssid zero33.
Definition randomized_of (a2 : list byte) : Z := if Z.testbit (znth a2 0) 1 then 1 else 0.

(* ---------- classification of a generated management frame ---------- *)
Definition mgmt_frame (st : Z) (hdr body : list byte) : frame :=
  {| f_rtap := None; f_flags := 0; f_fc := [st * 16; 0]; f_len := zlen (hdr ++ body);
     f_header := hdr; f_header_len := 24; f_body := body |}.

Lemma classify_gen fc0 fc1 rest : s_type fc0 = 0 -> s_ordered fc1 = false ->
  24 <= zlen (fc0 :: fc1 :: rest) ->
  spec_classify (fc0 :: fc1 :: rest) None =
  Ok {| f_rtap := None; f_flags := 0; f_fc := [fc0; fc1]; f_len := zlen (fc0 :: fc1 :: rest);
        f_header := zfirstn 24 (fc0 :: fc1 :: rest); f_header_len := 24;
        f_body := zskipn 24 (fc0 :: fc1 :: rest) |}.
Proof.
  intros Ht Ho Hl. unfold spec_classify. rewrite Ht, Ho.
  change (s_hdr_len 0 (s_subtype fc0) false) with (Some 24).
  cbv beta iota zeta.
  match goal with |- (if ?c then _ else _) = _ => destruct c eqn:E end; [unfold byte in *; lia|].
  reflexivity.
Qed.

Definition mgmt_subtypes : list Z := [8; 5; 4; 0; 2; 1; 3; 12; 10].

Lemma mac_explicit a : mac_ok a -> exists x1 x2 x3 x4 x5 x6, a = [x1; x2; x3; x4; x5; x6].
Proof.
  intros [Hl _]. unfold zlen in Hl.
  destruct a as [|x1 [|x2 [|x3 [|x4 [|x5 [|x6 [|x7 a]]]]]]]; cbn [length] in Hl; try lia.
  now exists x1, x2, x3, x4, x5, x6.
Qed.

Lemma zlen_mgmt_header st a1 a2 a3 : mac_ok a1 -> mac_ok a2 -> mac_ok a3 ->
  zlen (s_mgmt_header st a1 a2 a3) = 24.
Proof.
  intros [H1 _] [H2 _] [H3 _]. unfold s_mgmt_header, MGMT. rewrite !zlen_app, H1, H2, H3. reflexivity.
Qed.

Lemma classify_mgmt st a1 a2 a3 body : In st mgmt_subtypes -> mac_ok a1 -> mac_ok a2 -> mac_ok a3 ->
  spec_classify (s_mgmt_header st a1 a2 a3 ++ body) None =
  Ok (mgmt_frame st (s_mgmt_header st a1 a2 a3) body).
Proof.
  intros Hst M1 M2 M3. pose proof (zlen_mgmt_header st a1 a2 a3 M1 M2 M3) as Hlen.
  pose proof (zlen_nonneg body) as Hb.
  assert (Hty : s_type (st * 16) = 0).
  { unfold mgmt_subtypes in Hst. cbn [In] in Hst.
    repeat (destruct Hst as [Hst|Hst]; [subst st; reflexivity|]). contradiction. }
  remember (s_mgmt_header st a1 a2 a3) as hdr eqn:Eh.
  assert (Ehd : exists rest, hdr = (st * 16) :: 0 :: rest).
  { subst hdr. unfold s_mgmt_header, MGMT. cbn [app]. eexists. reflexivity. }
  destruct Ehd as (rest & Ehd).
  assert (E : hdr ++ body = (st * 16) :: 0 :: (rest ++ body)) by (rewrite Ehd; reflexivity).
  rewrite E. rewrite classify_gen; [| exact Hty | reflexivity | rewrite <- E, zlen_app; unfold byte in *; lia].
  rewrite <- E. unfold mgmt_frame. f_equal. f_equal.
  - unfold zfirstn. rewrite <- Hlen. apply firstn_zlen_app.
  - unfold zskipn. rewrite <- Hlen. apply skipn_zlen_app.
Qed.

Lemma s_is_mgmt st hdr body : In st mgmt_subtypes -> s_is (mgmt_frame st hdr body) st = true.
Proof.
  unfold mgmt_subtypes. cbn [In]. intros Hst.
  repeat (destruct Hst as [Hst|Hst]; [subst st; reflexivity|]). contradiction.
Qed.

Lemma s_addr_mgmt st a1 a2 a3 body : mac_ok a1 -> mac_ok a2 -> mac_ok a3 ->
  let f := mgmt_frame st (s_mgmt_header st a1 a2 a3) body in
  s_addr f 1 = a1 /\ s_addr f 2 = a2 /\ s_addr f 3 = a3.
Proof.
  intros M1 M2 M3.
  destruct (mac_explicit a1 M1) as (x1 & x2 & x3 & x4 & x5 & x6 & ->).
  destruct (mac_explicit a2 M2) as (y1 & y2 & y3 & y4 & y5 & y6 & ->).
  destruct (mac_explicit a3 M3) as (z1 & z2 & z3 & z4 & z5 & z6 & ->).
  repeat split.
Qed.

(* ---------- slices of concatenations ---------- *)
Lemma zskipn_app_len {A} (a b : list A) n : n = zlen a -> zskipn n (a ++ b) = b.
Proof. intros ->. apply skipn_zlen_app. Qed.
Lemma zfirstn_app_len {A} (a b : list A) n : n = zlen a -> zfirstn n (a ++ b) = a.
Proof. intros ->. apply firstn_zlen_app. Qed.

Lemma body_of_at pre n b post off : off = zlen pre ->
  body_of (pre ++ n :: zlen b :: b ++ post) {| e_off := off; e_num := n; e_len := zlen b |} = b.
Proof.
  intros ->. unfold body_of, slice. cbn [e_off e_len].
  replace (pre ++ n :: zlen b :: b ++ post) with ((pre ++ [n; zlen b]) ++ b ++ post)
    by (rewrite <- app_assoc; reflexivity).
  rewrite zskipn_app_len by (rewrite zlen_app; reflexivity).
  apply zfirstn_app_len. reflexivity.
Qed.

(* ---------- what iteration reports on an encoded list ---------- *)
Lemma iterate_enc t1 r :
  spec_iterate (enc (t1 :: r)) =
  Ok ({| e_off := 0; e_num := fst t1; e_len := zlen (snd t1) |}
      :: elems_of r (0 + 2 + zlen (snd t1))).
Proof. unfold spec_iterate, reported. rewrite elements_enc. reflexivity. Qed.

Definition nel (e : elem) : Prop := ~ In (e_num e) [0; 3; 61; 48; 221].

Lemma nel_spec e : nel e ->
  e_num e <> 0 /\ e_num e <> 3 /\ e_num e <> 61 /\ e_num e <> 48 /\ e_num e <> 221.
Proof. unfold nel. cbn [In]. intros H. repeat split; intros E; apply H; rewrite E; tauto. Qed.

Lemma elems_of_neutral : forall l off, neutral l -> Forall nel (elems_of l off).
Proof.
  induction l as [|t r IH]; intros off H; [constructor|].
  inversion H as [|? ? Ht Hr]; subst. cbn [elems_of]. constructor; [exact Ht|]. apply IH. exact Hr.
Qed.
(* every element of the encoding is reported (finding F44), so what iteration sees behind the leading elements is
   exactly elems_of of the remaining list *)
Lemma neutral_reported l off : neutral l -> Forall nel (elems_of l off).
Proof. apply elems_of_neutral. Qed.

(* ---------- the folds ignore elements carrying other numbers ---------- *)
Lemma sp_ssid_skip tags pre rest : Forall (fun e => e_num e <> 0) rest ->
  sp_ssid tags (pre ++ rest) = sp_ssid tags pre.
Proof.
  intros H. unfold sp_ssid, E_SSID. rewrite fold_left_app.
  match goal with |- fold_left ?f rest ?a = _ => generalize a as acc end.
  induction H as [|e r He Hr IH]; intros acc; [reflexivity|].
  cbn [fold_left]. rewrite (proj2 (Z.eqb_neq _ _) He). apply IH.
Qed.
Lemma sp_hidden_skip tags pre rest : Forall (fun e => e_num e <> 0) rest ->
  sp_hidden tags (pre ++ rest) = sp_hidden tags pre.
Proof.
  intros H. unfold sp_hidden, E_SSID. rewrite fold_left_app.
  match goal with |- fold_left ?f rest ?a = _ => generalize a as acc end.
  induction H as [|e r He Hr IH]; intros acc; [reflexivity|].
  cbn [fold_left]. rewrite (proj2 (Z.eqb_neq _ _) He). apply IH.
Qed.
Lemma s_chan_skip ht tags pre rest : Forall (fun e => e_num e <> 3 /\ e_num e <> 61) rest ->
  s_chan ht tags (pre ++ rest) = s_chan ht tags pre.
Proof.
  intros H. unfold s_chan, E_DS, E_HT_OP. rewrite fold_left_app.
  match goal with |- fold_left ?f rest ?a = _ => generalize a as acc end.
  induction H as [|e r [He1 He2] Hr IH]; intros acc; [reflexivity|].
  cbn [fold_left].
  rewrite (proj2 (Z.eqb_neq _ _) He1), (proj2 (Z.eqb_neq _ _) He2).
  rewrite andb_false_r. cbn [orb andb]. apply IH.
Qed.
Lemma s_security_skip tags els : Forall (fun e => e_num e <> 48 /\ e_num e <> 221) els ->
  forall acc, s_security tags els acc = Some acc.
Proof.
  induction 1 as [|e r [He1 He2] Hr IH]; intros acc; [reflexivity|].
  cbn [s_security]. unfold is_rsn_elem, is_wpa_elem, is_wps_elem, E_RSN, E_VENDOR.
  rewrite (proj2 (Z.eqb_neq _ _) He1), (proj2 (Z.eqb_neq _ _) He2). cbn [andb]. apply IH.
Qed.

Lemma nel_no0 rest : Forall nel rest -> Forall (fun e => e_num e <> 0) rest.
Proof. apply Forall_impl. intros e H. apply nel_spec in H. tauto. Qed.
Lemma nel_nochan rest : Forall nel rest -> Forall (fun e => e_num e <> 3 /\ e_num e <> 61) rest.
Proof. apply Forall_impl. intros e H. apply nel_spec in H. tauto. Qed.
Lemma nel_nosec rest : Forall nel rest -> Forall (fun e => e_num e <> 48 /\ e_num e <> 221) rest.
Proof. apply Forall_impl. intros e H. apply nel_spec in H. tauto. Qed.

(* ---------- the folds on the element lists the generators write ---------- *)
Lemma zlen_enc_ge2 t r : 2 <= zlen (enc (t :: r)).
Proof.
  rewrite enc_cons, !zlen_cons, zlen_app.
  pose proof (zlen_nonneg (snd t)). pose proof (zlen_nonneg (enc r)). unfold byte in *. lia.
Qed.

Lemma folds_std tags ssid ch o1 o2 rest : zlen ssid <= 32 ->
  body_of tags {| e_off := o1; e_num := 0; e_len := zlen ssid |} = ssid ->
  body_of tags {| e_off := o2; e_num := 3; e_len := 1 |} = [ch] -> Forall nel rest ->
  let els := {| e_off := o1; e_num := 0; e_len := zlen ssid |}
             :: {| e_off := o2; e_num := 3; e_len := 1 |} :: rest in
  sp_ssid tags els = ssid_field ssid /\ sp_hidden tags els = hidden_of ssid /\
  (forall ht, s_chan ht tags els = ch) /\ (forall acc, s_security tags els acc = Some acc).
Proof.
  intros Hs Hb1 Hb2 Hr els. unfold els.
  change (?a :: ?b :: rest) with ([a; b] ++ rest).
  rewrite sp_ssid_skip, sp_hidden_skip by (apply nel_no0, Hr).
  assert (Hf : zfirstn (Z.min (zlen ssid) 32) ssid = ssid).
  { rewrite Z.min_l by lia. unfold zfirstn. apply firstn_zlen. }
  split; [|split; [|split]].
  - unfold sp_ssid, s_ssid_bytes. cbn [fold_left e_num e_len].
    change (0 =? E_SSID) with true. change (3 =? E_SSID) with false. cbv iota.
    rewrite Hb1, Hf. reflexivity.
  - unfold sp_hidden, s_ssid_bytes. cbn [fold_left e_num e_len].
    change (0 =? E_SSID) with true. change (3 =? E_SSID) with false. cbv iota.
    rewrite Hb1, Hf. unfold hidden_of.
    destruct ssid as [|b s]; [reflexivity|].
    replace (zlen (b :: s) =? 0) with false; [reflexivity|].
    rewrite zlen_cons. pose proof (zlen_nonneg s). unfold byte in *. lia.
  - intros ht. rewrite s_chan_skip by (apply nel_nochan, Hr).
    unfold s_chan. cbn [fold_left e_num e_len].
    change (0 =? E_DS) with false. change (0 =? E_HT_OP) with false.
    change (3 =? E_DS) with true. change (1 <=? 1) with true.
    rewrite andb_false_r. cbn [orb andb]. rewrite Hb2. reflexivity.
  - apply s_security_skip. constructor; [cbn [e_num]; lia|]. constructor; [cbn [e_num]; lia|].
    apply nel_nosec, Hr.
Qed.

Lemma folds_ds tags ch o1 rest :
  body_of tags {| e_off := o1; e_num := 3; e_len := 1 |} = [ch] -> Forall nel rest ->
  let els := {| e_off := o1; e_num := 3; e_len := 1 |} :: rest in
  sp_ssid tags els = zero33 /\ sp_hidden tags els = 0 /\
  (forall ht, s_chan ht tags els = ch) /\ (forall acc, s_security tags els acc = Some acc).
Proof.
  intros Hb Hr els. unfold els.
  split; [|split; [|split]].
  - change (?a :: rest) with ([] ++ a :: rest). rewrite sp_ssid_skip; [reflexivity|].
    constructor; [cbn [e_num]; lia | apply nel_no0, Hr].
  - change (?a :: rest) with ([] ++ a :: rest). rewrite sp_hidden_skip; [reflexivity|].
    constructor; [cbn [e_num]; lia | apply nel_no0, Hr].
  - intros ht. change (?a :: rest) with ([a] ++ rest). rewrite s_chan_skip by (apply nel_nochan, Hr).
    unfold s_chan. cbn [fold_left e_num e_len].
    change (3 =? E_DS) with true. change (1 <=? 1) with true. cbn [orb andb]. rewrite Hb. reflexivity.
  - apply s_security_skip. constructor; [cbn [e_num]; lia | apply nel_nosec, Hr].
Qed.

(* SSID and DS elements first (beacon, probe response, probe / association / reassociation request) *)
Lemma std_tags ssid ch extras : zlen ssid <= 32 -> neutral extras ->
  let tags := enc ([(0, ssid); (3, [ch])] ++ extras) in
  exists els, spec_iterate tags = Ok els /\ 2 <= zlen tags /\
    sp_ssid tags els = ssid_field ssid /\ sp_hidden tags els = hidden_of ssid /\
    (forall ht, s_chan ht tags els = ch) /\ (forall acc, s_security tags els acc = Some acc).
Proof.
  intros Hs Hn tags.
  assert (Hit : spec_iterate tags =
    Ok ({| e_off := 0; e_num := 0; e_len := zlen ssid |}
        :: {| e_off := 0 + 2 + zlen ssid; e_num := 3; e_len := 1 |}
        :: elems_of extras (0 + 2 + zlen ssid + 2 + 1))).
  { unfold tags. cbn [app]. rewrite iterate_enc. reflexivity. }
  assert (Hb1 : body_of tags {| e_off := 0; e_num := 0; e_len := zlen ssid |} = ssid).
  { exact (body_of_at [] 0 ssid (enc ((3, [ch]) :: extras)) 0 eq_refl). }
  assert (Hb2 : body_of tags {| e_off := 0 + 2 + zlen ssid; e_num := 3; e_len := 1 |} = [ch]).
  { refine (body_of_at (0 :: zlen ssid :: ssid) 3 [ch] (enc extras) (0 + 2 + zlen ssid) _).
    rewrite !zlen_cons. unfold byte in *. lia. }
  assert (Hl : 2 <= zlen tags) by apply zlen_enc_ge2.
  clearbody tags.
  eexists. split; [exact Hit|]. split; [exact Hl|].
  apply folds_std; auto. apply neutral_reported, Hn.
Qed.

(* DS element first (association and reassociation response) *)
Lemma ds_tags ch mid extras : neutral mid -> neutral extras ->
  let tags := enc ([(3, [ch])] ++ mid ++ extras) in
  exists els, spec_iterate tags = Ok els /\ 2 <= zlen tags /\
    sp_ssid tags els = zero33 /\ sp_hidden tags els = 0 /\
    (forall ht, s_chan ht tags els = ch) /\ (forall acc, s_security tags els acc = Some acc).
Proof.
  intros Hm Hn tags.
  assert (Hit : spec_iterate tags =
    Ok ({| e_off := 0; e_num := 3; e_len := 1 |} :: elems_of (mid ++ extras) (0 + 2 + 1))).
  { unfold tags. cbn [app]. rewrite iterate_enc. reflexivity. }
  assert (Hb : body_of tags {| e_off := 0; e_num := 3; e_len := 1 |} = [ch]).
  { exact (body_of_at [] 3 [ch] (enc (mid ++ extras)) 0 eq_refl). }
  assert (Hl : 2 <= zlen tags) by apply zlen_enc_ge2.
  clearbody tags.
  eexists. split; [exact Hit|]. split; [exact Hl|].
  apply folds_ds; auto. apply neutral_reported.
  apply Forall_app. split; [exact Hm | exact Hn].
Qed.

(* ---------- the parsers on a generated frame ---------- *)
Lemma parse_bss_eq st a1 a2 a3 fixedb fixed cap_off all tags els ssidv hid chv :
  In st mgmt_subtypes -> mac_ok a1 -> mac_ok a2 -> mac_ok a3 ->
  zlen fixedb = fixed -> 2 <= zlen tags ->
  Z.testbit (le16 (fixedb ++ tags) cap_off) 4 = false ->
  spec_iterate tags = Ok els -> sp_ssid tags els = ssidv -> sp_hidden tags els = hid ->
  s_chan true tags els = chv -> (forall acc, s_security tags els acc = Some acc) ->
  s_parse_bss (mgmt_frame st (s_mgmt_header st a1 a2 a3) (fixedb ++ tags)) st fixed cap_off all =
  Ok {| b_transmitter := (if all then a2 else zero6); b_receiver := (if all then a1 else zero6);
        b_bssid := a3; b_ssid := ssidv; b_hidden := hid; b_channel := chv; b_wps := 0; b_enc := 0;
        b_wpa := wpa0; b_rsn := rsn0; b_tags := tags |}.
Proof.
  intros Hst M1 M2 M3 Hf Hl Hp Hit H1 H2 H3 H4.
  destruct (s_addr_mgmt st a1 a2 a3 (fixedb ++ tags) M1 M2 M3) as (A1 & A2 & A3).
  unfold s_parse_bss. rewrite (s_is_mgmt _ _ _ Hst), A1, A2, A3. cbn [negb].
  change (f_body (mgmt_frame st (s_mgmt_header st a1 a2 a3) (fixedb ++ tags))) with (fixedb ++ tags).
  cbv zeta.
  rewrite (zskipn_app_len fixedb tags fixed) by (symmetry; exact Hf).
  match goal with |- (if ?c then _ else _) = _ => destruct c eqn:E end.
  { rewrite zlen_app in E. unfold byte in *. lia. }
  rewrite Hit, Hp, H4, H1, H2, H3. reflexivity.
Qed.

Lemma parse_sta_eq st a1 a2 a3 fixedb fixed tags els ssidv chv :
  In st mgmt_subtypes -> mac_ok a1 -> mac_ok a2 -> mac_ok a3 ->
  zlen fixedb = fixed -> 2 <= zlen tags ->
  spec_iterate tags = Ok els -> sp_ssid tags els = ssidv -> s_chan false tags els = chv ->
  s_parse_sta (mgmt_frame st (s_mgmt_header st a1 a2 a3) (fixedb ++ tags)) st fixed =
  Ok {| s_channel := chv; s_randomized := randomized_of a2; s_transmitter := a2; s_receiver := a1;
        s_bssid := a3; s_ssid := ssidv; s_broadcast_ssid := 0; s_tags := tags |}.
Proof.
  intros Hst M1 M2 M3 Hf Hl Hit H1 H3.
  destruct (s_addr_mgmt st a1 a2 a3 (fixedb ++ tags) M1 M2 M3) as (A1 & A2 & A3).
  unfold s_parse_sta. rewrite (s_is_mgmt _ _ _ Hst), A1, A2, A3. cbn [negb].
  change (f_body (mgmt_frame st (s_mgmt_header st a1 a2 a3) (fixedb ++ tags))) with (fixedb ++ tags).
  cbv zeta.
  rewrite (zskipn_app_len fixedb tags fixed) by (symmetry; exact Hf).
  match goal with |- (if ?c then _ else _) = _ => destruct c eqn:E end.
  { rewrite zlen_app in E. unfold byte in *. lia. }
  rewrite Hit, H1, H3. reflexivity.
Qed.

Lemma parse_reason_eq st a1 a2 a3 reason extras :
  In st mgmt_subtypes -> mac_ok a1 -> mac_ok a2 -> mac_ok a3 -> u16 reason ->
  s_parse_reason (mgmt_frame st (s_mgmt_header st a1 a2 a3) (le_enc 2 reason ++ enc extras)) st =
  Ok {| p_ordered := 0; p_header := s_mgmt_header st a1 a2 a3; p_reason := reason; p_tags := enc extras |}.
Proof.
  intros Hst M1 M2 M3 Hr.
  unfold s_parse_reason. rewrite (s_is_mgmt _ _ _ Hst). cbn [negb].
  change (f_body (mgmt_frame st ?h ?b)) with b.
  assert (Hl2 : zlen (le_enc 2 reason) = 2) by (unfold zlen; rewrite le_enc_length; reflexivity).
  match goal with |- (if ?c then _ else _) = _ => destruct c eqn:E end.
  { rewrite zlen_app in E. pose proof (zlen_nonneg (enc extras)). unfold byte in *. lia. }
  rewrite (zskipn_app_len (le_enc 2 reason) (enc extras) 2) by (symmetry; exact Hl2).
  unfold le16, slice. change (zskipn 0 ?l) with l.
  rewrite (zfirstn_app_len (le_enc 2 reason) (enc extras) 2) by (symmetry; exact Hl2).
  rewrite le_dec_enc by (unfold u16 in Hr; change (256 ^ Z.of_nat 2) with 65536; lia).
  reflexivity.
Qed.

(* ---------- capability field of the generated fixed parameters: privacy bit clear ---------- *)
Lemma cap_bss12 now tags :
  Z.testbit (le16 ((le_enc 8 now ++ le_enc 2 DEFAULT_INTERVAL ++ le_enc 2 DEFAULT_CAPAB) ++ tags) 10) 4 = false.
Proof. reflexivity. Qed.
Lemma cap_resp6 tags :
  Z.testbit (le16 ((le_enc 2 DEFAULT_CAPAB ++ [0; 0] ++ [0; 0]) ++ tags) 0) 4 = false.
Proof. reflexivity. Qed.

Ltac st_in := unfold mgmt_subtypes; cbn [In]; tauto.

(* ---------- the six round trips ---------- *)
Lemma roundtrip_beacon : forall a1 a2 a3 ssid ch now extras,
  mac_ok a1 -> mac_ok a2 -> mac_ok a3 -> ssid_ok ssid -> zlen ssid <= 32 -> u8 ch -> 0 <= now < 2 ^ 64 ->
  wf_tags extras -> neutral extras ->
  exists f, spec_classify (s_beacon a1 a2 a3 ssid ch now extras) None = Ok f /\
    s_parse_beacon f = Ok {| b_transmitter := a2; b_receiver := a1; b_bssid := a3; b_ssid := ssid_field ssid;
                             b_hidden := hidden_of ssid; b_channel := ch; b_wps := 0; b_enc := 0; b_wpa := wpa0;
                             b_rsn := rsn0; b_tags := enc ([(0, ssid); (3, [ch])] ++ extras) |}.
Proof.
  intros a1 a2 a3 ssid ch now extras M1 M2 M3 Hs Hs32 Hch Hnow Hwf Hn.
  destruct (std_tags ssid ch extras Hs32 Hn) as (els & Hit & Hl & H1 & H2 & H3 & H4).
  eexists. split.
  - replace (s_beacon a1 a2 a3 ssid ch now extras)
      with (s_mgmt_header 8 a1 a2 a3 ++
            (le_enc 8 now ++ le_enc 2 DEFAULT_INTERVAL ++ le_enc 2 DEFAULT_CAPAB) ++
            enc ([(0, ssid); (3, [ch])] ++ extras))
      by (unfold s_beacon; rewrite <- !app_assoc; reflexivity).
    apply classify_mgmt; auto; st_in.
  - unfold s_parse_beacon.
    apply (parse_bss_eq 8 a1 a2 a3 _ 12 10 true _ els); auto; first [st_in | apply cap_bss12].
Qed.

Lemma roundtrip_probe_resp : forall a1 a2 a3 ssid ch now extras,
  mac_ok a1 -> mac_ok a2 -> mac_ok a3 -> ssid_ok ssid -> zlen ssid <= 32 -> u8 ch -> 0 <= now < 2 ^ 64 ->
  wf_tags extras -> neutral extras ->
  exists f, spec_classify (s_probe_resp a1 a2 a3 ssid ch now extras) None = Ok f /\
    s_parse_probe_resp f = Ok {| b_transmitter := a2; b_receiver := a1; b_bssid := a3; b_ssid := ssid_field ssid;
                                 b_hidden := hidden_of ssid; b_channel := ch; b_wps := 0; b_enc := 0; b_wpa := wpa0;
                                 b_rsn := rsn0; b_tags := enc ([(0, ssid); (3, [ch])] ++ extras) |}.
Proof.
  intros a1 a2 a3 ssid ch now extras M1 M2 M3 Hs Hs32 Hch Hnow Hwf Hn.
  destruct (std_tags ssid ch extras Hs32 Hn) as (els & Hit & Hl & H1 & H2 & H3 & H4).
  eexists. split.
  - replace (s_probe_resp a1 a2 a3 ssid ch now extras)
      with (s_mgmt_header 5 a1 a2 a3 ++
            (le_enc 8 now ++ le_enc 2 DEFAULT_INTERVAL ++ le_enc 2 DEFAULT_CAPAB) ++
            enc ([(0, ssid); (3, [ch])] ++ extras))
      by (unfold s_probe_resp; rewrite <- !app_assoc; reflexivity).
    apply classify_mgmt; auto; st_in.
  - unfold s_parse_probe_resp.
    apply (parse_bss_eq 5 a1 a2 a3 _ 12 10 true _ els); auto; first [st_in | apply cap_bss12].
Qed.

Lemma roundtrip_assoc_resp : forall a1 a2 a3 ch extras,
  mac_ok a1 -> mac_ok a2 -> mac_ok a3 -> u8 ch -> wf_tags extras -> neutral extras ->
  exists f, spec_classify (s_assoc_resp a1 a2 a3 ch extras) None = Ok f /\
    s_parse_assoc_resp f = Ok {| b_transmitter := a2; b_receiver := a1; b_bssid := a3; b_ssid := zero33;
                                 b_hidden := 0; b_channel := ch; b_wps := 0; b_enc := 0; b_wpa := wpa0;
                                 b_rsn := rsn0; b_tags := enc ([(3, [ch]); (1, DEFAULT_RATES)] ++ extras) |}.
Proof.
  intros a1 a2 a3 ch extras M1 M2 M3 Hch Hwf Hn.
  assert (Hm : neutral [(1, DEFAULT_RATES)]).
  { constructor; [|constructor]. cbn [fst In]. lia. }
  destruct (ds_tags ch [(1, DEFAULT_RATES)] extras Hm Hn) as (els & Hit & Hl & H1 & H2 & H3 & H4).
  eexists. split.
  - replace (s_assoc_resp a1 a2 a3 ch extras)
      with (s_mgmt_header 1 a1 a2 a3 ++ (le_enc 2 DEFAULT_CAPAB ++ [0; 0] ++ [0; 0]) ++
            enc ([(3, [ch])] ++ [(1, DEFAULT_RATES)] ++ extras))
      by (unfold s_assoc_resp; rewrite <- !app_assoc; reflexivity).
    apply classify_mgmt; auto; st_in.
  - unfold s_parse_assoc_resp.
    apply (parse_bss_eq 1 a1 a2 a3 _ 6 0 true _ els); auto; first [st_in | apply cap_resp6].
Qed.

Lemma roundtrip_reassoc_resp : forall a1 a2 a3 ch extras,
  mac_ok a1 -> mac_ok a2 -> mac_ok a3 -> u8 ch -> wf_tags extras -> neutral extras ->
  exists f, spec_classify (s_reassoc_resp a1 a2 a3 ch extras) None = Ok f /\
    s_parse_reassoc_resp f = Ok {| b_transmitter := a2; b_receiver := a1; b_bssid := a3; b_ssid := zero33;
                                   b_hidden := 0; b_channel := ch; b_wps := 0; b_enc := 0; b_wpa := wpa0;
                                   b_rsn := rsn0; b_tags := enc ([(3, [ch])] ++ extras) |}.
Proof.
  intros a1 a2 a3 ch extras M1 M2 M3 Hch Hwf Hn.
  destruct (ds_tags ch [] extras (Forall_nil _) Hn) as (els & Hit & Hl & H1 & H2 & H3 & H4).
  eexists. split.
  - replace (s_reassoc_resp a1 a2 a3 ch extras)
      with (s_mgmt_header 3 a1 a2 a3 ++ (le_enc 2 DEFAULT_CAPAB ++ [0; 0] ++ [0; 0]) ++
            enc ([(3, [ch])] ++ [] ++ extras))
      by (unfold s_reassoc_resp; rewrite <- !app_assoc; reflexivity).
    apply classify_mgmt; auto; st_in.
  - unfold s_parse_reassoc_resp.
    apply (parse_bss_eq 3 a1 a2 a3 _ 6 0 true _ els); auto; first [st_in | apply cap_resp6].
Qed.

Lemma roundtrip_sta : forall a1 a2 a3 ap ssid ch extras,
  mac_ok a1 -> mac_ok a2 -> mac_ok a3 -> mac_ok ap -> ssid_ok ssid -> zlen ssid <= 32 -> u8 ch ->
  wf_tags extras -> neutral extras ->
  let expect := {| s_channel := ch; s_randomized := randomized_of a2; s_transmitter := a2; s_receiver := a1;
                   s_bssid := a3; s_ssid := ssid_field ssid; s_broadcast_ssid := 0;
                   s_tags := enc ([(0, ssid); (3, [ch])] ++ extras) |} in
  (exists f, spec_classify (s_probe_req a1 a2 a3 ssid ch extras) None = Ok f /\ s_parse_probe_req f = Ok expect) /\
  (exists f, spec_classify (s_assoc_req a1 a2 a3 ssid ch extras) None = Ok f /\ s_parse_assoc_req f = Ok expect) /\
  (exists f, spec_classify (s_reassoc_req a1 a2 a3 ap ssid ch extras) None = Ok f /\ s_parse_reassoc_req f = Ok expect).
Proof.
  intros a1 a2 a3 ap ssid ch extras M1 M2 M3 Map Hs Hs32 Hch Hwf Hn expect. unfold expect.
  destruct (std_tags ssid ch extras Hs32 Hn) as (els & Hit & Hl & H1 & H2 & H3 & H4).
  split; [|split].
  - eexists. split.
    + replace (s_probe_req a1 a2 a3 ssid ch extras)
        with (s_mgmt_header 4 a1 a2 a3 ++ [] ++ enc ([(0, ssid); (3, [ch])] ++ extras)) by reflexivity.
      apply classify_mgmt; auto; st_in.
    + unfold s_parse_probe_req.
      apply (parse_sta_eq 4 a1 a2 a3 [] 0 _ els); auto; st_in.
  - eexists. split.
    + replace (s_assoc_req a1 a2 a3 ssid ch extras)
        with (s_mgmt_header 0 a1 a2 a3 ++ (le_enc 2 DEFAULT_CAPAB ++ le_enc 2 DEFAULT_LISTEN) ++
              enc ([(0, ssid); (3, [ch])] ++ extras))
        by (unfold s_assoc_req; rewrite <- !app_assoc; reflexivity).
      apply classify_mgmt; auto; st_in.
    + unfold s_parse_assoc_req.
      apply (parse_sta_eq 0 a1 a2 a3 _ 4 _ els); auto; st_in.
  - eexists. split.
    + replace (s_reassoc_req a1 a2 a3 ap ssid ch extras)
        with (s_mgmt_header 2 a1 a2 a3 ++ (le_enc 2 DEFAULT_CAPAB ++ le_enc 2 DEFAULT_LISTEN ++ ap) ++
              enc ([(0, ssid); (3, [ch])] ++ extras))
        by (unfold s_reassoc_req; rewrite <- !app_assoc; reflexivity).
      apply classify_mgmt; auto; st_in.
    + unfold s_parse_reassoc_req.
      apply (parse_sta_eq 2 a1 a2 a3 _ 10 _ els); auto; try st_in.
      destruct Map as [Hap _]. rewrite !zlen_app, Hap. reflexivity.
Qed.

Lemma roundtrip_reason : forall a1 a2 a3 reason extras,
  mac_ok a1 -> mac_ok a2 -> mac_ok a3 -> u16 reason -> wf_tags extras ->
  (exists f, spec_classify (s_deauth a1 a2 a3 reason extras) None = Ok f /\
     s_parse_reason f 12 = Ok {| p_ordered := 0; p_header := s_mgmt_header 12 a1 a2 a3; p_reason := reason; p_tags := enc extras |}) /\
  (exists f, spec_classify (s_disassoc a1 a2 a3 reason extras) None = Ok f /\
     s_parse_reason f 10 = Ok {| p_ordered := 0; p_header := s_mgmt_header 10 a1 a2 a3; p_reason := reason; p_tags := enc extras |}).
Proof.
  intros a1 a2 a3 reason extras M1 M2 M3 Hr Hwf.
  split.
  - eexists. split.
    + unfold s_deauth. apply classify_mgmt; auto; st_in.
    + apply parse_reason_eq; auto; st_in.
  - eexists. split.
    + unfold s_disassoc. apply classify_mgmt; auto; st_in.
    + apply parse_reason_eq; auto; st_in.
Qed.
