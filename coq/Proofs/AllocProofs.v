(* Proofs for C14/C15: the allocation skeletons of Model/Alloc.v and the scenarios of Model/AllocScen.v
   never fault, release exactly what they allocated, and report allocation failure. *)
From Coq Require Import List ZArith Lia Bool ZifyBool.
From LW Require Import Base.Bytes Gen.Consts Gen.Layout Model.TagIter Spec.TagSpec Model.Tags
  Model.Radiotap Model.Frame Model.Eapol Model.Alloc Model.AllocScen Spec.FrameSpec Spec.EapolSpec
  Proofs.TagsProofs Proofs.FrameProofs Proofs.EapolProofs.
Import ListNotations.
Local Open Scope Z_scope.

(* restated verbatim from Properties_C14.v / Properties_C15.v (those files cannot be imported here) *)
Definition wf_op (o : tag_op) : Prop :=
  match o with
  | OpAdd n b => wf_tag (n, b)
  | OpSetSsid b => wf_tag (c_TAG_SSID, b)
  | OpSetChannel c => 0 <= c < 256
  | OpRemove _ | OpCheck _ => True
  end.
Definition owns (o : tobj) (h : heap) : Prop :=
  live_blocks h = match o_ptr o with Some b => [b] | None => [] end.
Definition tags_inv (t : tags) : Prop := exists l, wf_tags l /\ t_bytes t = enc l /\ t_len t = zlen (t_bytes t).
Definition ptr_inv (o : tobj) (h : heap) : Prop :=
  (t_len (o_tags o) = 0 \/ exists b, o_ptr o = Some b /\ is_live b h = true) /\
  (forall b, o_ptr o = Some b -> is_live b h = true).

(* ================================================================ the abstract heap *)
Definition rm (b : blk) (L : list blk) : list blk := filter (fun x => negb (x =? b)) L.
Definition optl (p : option blk) : list blk := match p with Some b => [b] | None => [] end.
Definition fresh (h : heap) : Prop := forall b, In b (live_blocks h) -> b < h_next h.

Lemma live_drop b l : map fst (drop_blk b l) = rm b (map fst l).
Proof.
  unfold drop_blk, rm. induction l as [|[a n] l IH]; [reflexivity|].
  cbn [filter map fst]. destruct (a =? b); cbn [negb map fst]; rewrite IH; reflexivity.
Qed.

Lemma is_live_In b h : is_live b h = true <-> In b (live_blocks h).
Proof.
  unfold is_live, live_blocks. rewrite existsb_exists, in_map_iff. split.
  - intros ([a n] & Hin & E). cbn [fst] in E. apply Z.eqb_eq in E. subst. exists (b, n). auto.
  - intros ([a n] & E & Hin). cbn [fst] in E. subst. exists (b, n). split; [exact Hin|]. apply Z.eqb_refl.
Qed.

Lemma rm_fresh b L : (forall x, In x L -> x < b) -> rm b L = L.
Proof.
  unfold rm. induction L as [|a L IH]; intros H; [reflexivity|]. cbn [filter].
  assert (a < b) by (apply H; left; reflexivity).
  replace (a =? b) with false by lia. cbn [negb]. f_equal. apply IH. intros x Hx. apply H. right. exact Hx.
Qed.
Lemma rm_head b L : rm b (b :: L) = rm b L.
Proof. unfold rm. cbn [filter]. rewrite Z.eqb_refl. reflexivity. Qed.
Lemma rm_other a b L : a <> b -> rm b (a :: L) = a :: rm b L.
Proof. intros H. unfold rm. cbn [filter]. replace (a =? b) with false by lia. reflexivity. Qed.
Lemma rm_In x b L : In x (rm b L) -> In x L.
Proof. unfold rm. rewrite filter_In. tauto. Qed.

Lemma malloc_cases sc n h :
  (sc (h_count h) = true /\ exists h1, h_malloc sc n h = (None, h1) /\
     live_blocks h1 = live_blocks h /\ h_next h1 = h_next h /\ h_count h1 = S (h_count h)) \/
  (sc (h_count h) = false /\ exists h1, h_malloc sc n h = (Some (h_next h), h1) /\
     live_blocks h1 = h_next h :: live_blocks h /\ h_next h1 = h_next h + 1 /\ h_count h1 = S (h_count h)).
Proof.
  unfold h_malloc. destruct (sc (h_count h)); [left|right]; (split; [reflexivity|]);
    eexists; (split; [reflexivity|]); cbn; auto.
Qed.

Lemma realloc_cases sc b n h : In b (live_blocks h) ->
  (sc (h_count h) = true /\ exists h1, h_realloc sc (Some b) n h = Done (None, h1) /\
     live_blocks h1 = live_blocks h /\ h_next h1 = h_next h /\ h_count h1 = S (h_count h)) \/
  (sc (h_count h) = false /\ exists h1, h_realloc sc (Some b) n h = Done (Some (h_next h), h1) /\
     live_blocks h1 = h_next h :: rm b (live_blocks h) /\ h_next h1 = h_next h + 1 /\ h_count h1 = S (h_count h)).
Proof.
  intros Hin. apply is_live_In in Hin. unfold h_realloc. rewrite Hin. cbn [negb].
  destruct (sc (h_count h)); [left|right]; (split; [reflexivity|]);
    eexists; (split; [reflexivity|]); unfold live_blocks; cbn [h_live h_next h_count map fst]; auto.
  rewrite live_drop. auto.
Qed.

Lemma free_some b h : In b (live_blocks h) ->
  exists h1, h_free (Some b) h = Done h1 /\ live_blocks h1 = rm b (live_blocks h) /\
             h_next h1 = h_next h /\ h_count h1 = h_count h.
Proof.
  intros Hin. apply is_live_In in Hin. unfold h_free. rewrite Hin. cbn [negb].
  eexists. split; [reflexivity|]. unfold live_blocks; cbn [h_live h_next h_count]. rewrite live_drop. auto.
Qed.
Lemma free_none h :
  exists h1, h_free None h = Done h1 /\ live_blocks h1 = live_blocks h /\
             h_next h1 = h_next h /\ h_count h1 = h_count h.
Proof. unfold h_free. eexists. split; [reflexivity|]. cbn. auto. Qed.
Lemma deref_some b h : In b (live_blocks h) -> h_deref (Some b) h = Done tt.
Proof. intros Hin. apply is_live_In in Hin. unfold h_deref. rewrite Hin. reflexivity. Qed.

Lemma fresh_mono h h' : fresh h -> (forall x, In x (live_blocks h') -> In x (live_blocks h)) ->
  h_next h <= h_next h' -> fresh h'.
Proof. intros F Hs Hn x Hx. specialize (F x (Hs x Hx)). lia. Qed.
Lemma fresh_new h h' L : fresh h -> live_blocks h' = h_next h :: L -> (forall x, In x L -> In x (live_blocks h)) ->
  h_next h' = h_next h + 1 -> fresh h'.
Proof.
  intros F HL Hs Hn x Hx. rewrite HL in Hx. destruct Hx as [<-|Hx]; [lia|].
  specialize (F x (Hs x Hx)). lia.
Qed.
Lemma fresh_heap0 : fresh heap0.
Proof. intros x []. Qed.

(* ================================================================ tagged parameter lists *)
Definition Tinv (o : tobj) (h : heap) : Prop :=
  Inv (o_tags o) /\ (t_len (o_tags o) = 0 <-> o_ptr o = None) /\ live_blocks h = optl (o_ptr o) /\ fresh h.

Lemma Tinv0 : Tinv tobj0 heap0.
Proof. split; [exact inv_empty|]. split; [cbn; tauto|]. split; [reflexivity | exact fresh_heap0]. Qed.

Lemma Inv_len s : Inv s -> 0 <= t_len s.
Proof. intros (l & _ & _ & H). rewrite H. apply zlen_nonneg. Qed.

Lemma add_tag_Inv s n d : Inv s -> wf_tag (n, d) ->
  Inv (add_tag s (n mod 256) (zlen d mod 256) d) /\ 0 < t_len (add_tag s (n mod 256) (zlen d mod 256) d).
Proof.
  intros HI Hw. pose proof (Inv_len s HI) as H0. destruct HI as (l & W & B & L). rewrite B in L.
  destruct (quick_add_enc s l n d Hw B L) as (s' & Q & Qb & Ql).
  unfold quick_add_tag in Q. inversion Q as [Q1]. clear Q. subst s'. split.
  - exists (l ++ [(n, d)]). split; [apply wf_tags_snoc; assumption|]. split; [exact Qb|]. rewrite Ql, Qb. reflexivity.
  - cbn [add_tag t_len]. change sizeof_libwifi_tag_header with 2.
    pose proof (Z.mod_pos_bound (zlen d) 256). lia.
Qed.

Section T.
  Variable sc : sched.

  Lemma quick_add_T o n d h : Tinv o h -> wf_tag (n, d) ->
    exists o' r h', sk_quick_add sc o n d h = Done (o', r, h') /\ Tinv o' h'.
  Proof.
    intros (HI & Hz & HL & HF) Hw. unfold sk_quick_add.
    destruct (malloc_cases sc (zlen d) h) as [(S0 & h1 & M & L1 & N1 & C1)|(S0 & h1 & M & L1 & N1 & C1)];
      rewrite M.
    { exists o, (- Alloc.ENOMEM), h1. split; [reflexivity|]. split; [exact HI|]. split; [exact Hz|].
      split; [congruence|]. apply (fresh_mono h); [exact HF | rewrite L1; auto | lia]. }
    destruct (add_tag_Inv _ n d HI Hw) as [AI AP].
    assert (Hb0 : forall x, In x (optl (o_ptr o)) -> x < h_next h) by (rewrite <- HL; exact HF).
    unfold sk_add_tag. destruct (t_len (o_tags o) =? 0) eqn:E0.
    - apply Z.eqb_eq in E0. pose proof (proj1 Hz E0) as HP. rewrite HP in HL, Hb0. cbn [optl] in HL, Hb0.
      destruct (malloc_cases sc (sizeof_libwifi_tag_header + zlen d mod 256) h1)
        as [(S1 & h2 & M2 & L2 & N2 & C2)|(S1 & h2 & M2 & L2 & N2 & C2)]; rewrite M2; cbn [bind].
      + destruct (free_some (h_next h) h2) as (h3 & F & L3 & N3 & C3); [rewrite L2, L1; left; reflexivity|].
        rewrite F. cbn [bind]. exists o, (- Alloc.ENOMEM), h3. split; [reflexivity|].
        split; [exact HI|]. split; [exact Hz|]. rewrite HP.
        assert (L3' : live_blocks h3 = []) by (rewrite L3, L2, L1, HL, rm_head; reflexivity).
        split; [exact L3'|]. intros x Hx. rewrite L3' in Hx. destruct Hx.
      + rewrite deref_some by (rewrite L2; left; reflexivity). cbn [bind].
        destruct (free_some (h_next h) h2) as (h3 & F & L3 & N3 & C3);
          [rewrite L2, L1; right; left; reflexivity|].
        rewrite F. cbn [bind]. eexists _, 0, h3. split; [reflexivity|].
        assert (L3' : live_blocks h3 = [h_next h1]).
        { rewrite L3, L2, L1, HL, rm_other, rm_head by lia. reflexivity. }
        split; [exact AI|]. split; [cbn [o_tags o_ptr]; split; [lia | discriminate]|].
        split; [exact L3'|]. intros x Hx. rewrite L3' in Hx. destruct Hx as [<-|[]]. lia.
    - apply Z.eqb_neq in E0. destruct (o_ptr o) as [b|] eqn:HP; [|exfalso; apply E0, Hz; reflexivity].
      cbn [optl] in HL, Hb0. assert (Hb : b < h_next h) by (apply Hb0; left; reflexivity).
      destruct (realloc_cases sc b (t_len (o_tags o) + (sizeof_libwifi_tag_header + zlen d mod 256)) h1)
        as [(S1 & h2 & M2 & L2 & N2 & C2)|(S1 & h2 & M2 & L2 & N2 & C2)];
        [rewrite L1, HL; right; left; reflexivity| |]; rewrite M2; cbn [bind].
      + destruct (free_some (h_next h) h2) as (h3 & F & L3 & N3 & C3); [rewrite L2, L1; left; reflexivity|].
        rewrite F. cbn [bind]. exists o, (- Alloc.ENOMEM), h3. split; [reflexivity|].
        split; [exact HI|]. split; [rewrite HP; exact Hz|]. rewrite HP.
        assert (L3' : live_blocks h3 = [b]).
        { rewrite L3, L2, L1, HL, rm_head, rm_other by lia. reflexivity. }
        split; [exact L3'|]. intros x Hx. rewrite L3' in Hx. destruct Hx as [<-|[]]. lia.
      + rewrite deref_some by (rewrite L2; left; reflexivity). cbn [bind].
        destruct (free_some (h_next h) h2) as (h3 & F & L3 & N3 & C3);
          [rewrite L2, L1; right; rewrite rm_other by lia; left; reflexivity|].
        rewrite F. cbn [bind]. eexists _, 0, h3. split; [reflexivity|].
        assert (L3' : live_blocks h3 = [h_next h1]).
        { rewrite L3, L2, L1, HL. rewrite (rm_other (h_next h) b) by lia. rewrite rm_head.
          change (rm b []) with (@nil blk). rewrite rm_other, rm_head by lia. reflexivity. }
        split; [exact AI|]. split; [cbn [o_tags o_ptr]; split; [lia | discriminate]|].
        split; [exact L3'|]. intros x Hx. rewrite L3' in Hx. destruct Hx as [<-|[]]. lia.
  Qed.

  Lemma remove_T o n h : Tinv o h ->
    exists o' r h', sk_remove_tag sc o n h = Done (o', r, h') /\ Tinv o' h'.
  Proof.
    intros (HI & Hz & HL & HF). destruct HI as (l & W & B & Ln). pose proof Ln as Ln'. rewrite B in Ln'.
    destruct (remove_tag_enc (o_tags o) l n W B Ln') as (s1 & R & B1 & L1).
    pose proof (wf_remove_first n l W) as W1.
    assert (I1 : Inv s1)
      by (exists (remove_first n l); split; [exact W1|]; split; [exact B1|]; rewrite L1, B1; reflexivity).
    unfold sk_remove_tag. rewrite R. cbn [bind].
    destruct ((0 =? 0) && negb (t_len s1 =? t_len (o_tags o))) eqn:E.
    - apply andb_true_iff in E. destruct E as [E1 E2].
      destruct (o_ptr o) as [b|] eqn:HP.
      2:{ exfalso. assert (Z0 : t_len (o_tags o) = 0) by (apply Hz; reflexivity).
          pose proof Z0 as Z1. rewrite Ln' in Z1. apply zlen_enc_0 in Z1. subst l.
          cbn [remove_first] in L1. rewrite Z0 in E2. change (zlen (enc [])) with 0 in L1. rewrite L1 in E2.
          discriminate E2. }
      cbn [optl] in HL. rewrite deref_some by (rewrite HL; left; reflexivity). cbn [bind].
      destruct (t_len s1 =? 0) eqn:E0.
      + destruct (free_some b h) as (h1 & F & L3 & N3 & C3); [rewrite HL; left; reflexivity|].
        rewrite F. cbn [bind]. eexists _, 0, h1. split; [reflexivity|].
        assert (L3' : live_blocks h1 = []) by (rewrite L3, HL, rm_head; reflexivity).
        split; [exact I1|]. split; [cbn [o_tags o_ptr]; split; [reflexivity | lia]|].
        split; [exact L3'|]. intros x Hx. rewrite L3' in Hx. destruct Hx.
      + assert (Hb : b < h_next h) by (apply HF; rewrite HL; left; reflexivity).
        destruct (realloc_cases sc b (t_len s1) h) as [(S1 & h2 & M2 & L2 & N2 & C2)|(S1 & h2 & M2 & L2 & N2 & C2)];
          [rewrite HL; left; reflexivity| |]; rewrite M2; cbn [bind].
        * eexists _, 0, h2. split; [reflexivity|]. split; [exact I1|].
          split; [cbn [o_tags o_ptr]; split; [lia | discriminate]|]. cbn [o_ptr optl].
          split; [congruence|]. apply (fresh_mono h); [exact HF | rewrite L2; auto | lia].
        * eexists _, 0, h2. split; [reflexivity|]. split; [exact I1|].
          split; [cbn [o_tags o_ptr]; split; [lia | discriminate]|]. cbn [o_ptr optl].
          assert (L2' : live_blocks h2 = [h_next h]) by (rewrite L2, HL, rm_head; reflexivity).
          split; [exact L2'|]. intros x Hx. rewrite L2' in Hx. destruct Hx as [<-|[]]. lia.
    - eexists _, _, h. split; [reflexivity|]. split; [exact I1|]. cbn [o_tags o_ptr].
      assert (EL : t_len s1 = t_len (o_tags o)).
      { apply andb_false_iff in E. destruct E as [E|E]; [discriminate E | lia]. }
      rewrite EL. split; [exact Hz|]. split; [exact HL | exact HF].
  Qed.

  Lemma read_T o h : Tinv o h -> sk_read o h = Done tt.
  Proof.
    intros (HI & Hz & HL & HF). unfold sk_read. destruct (t_len (o_tags o) =? 0) eqn:E0; [reflexivity|].
    destruct (o_ptr o) as [b|] eqn:HP; [|exfalso; assert (t_len (o_tags o) = 0) by (apply Hz; reflexivity); lia].
    apply deref_some. rewrite HL. left. reflexivity.
  Qed.

  (* check (nothing allocated), add, then remove the old element: every stage keeps the invariant *)
  Lemma set_T o n d h : Tinv o h -> wf_tag (n, d) ->
    exists o' r h', sk_set_tag sc o n d h = Done (o', r, h') /\ Tinv o' h'.
  Proof.
    intros HT Hw. unfold sk_set_tag.
    assert (P : exists c, (if t_len (o_tags o) =? 0 then Done 0
                           else let* _ := sk_read o h in check_tag (o_tags o) n) = Done c).
    { destruct (t_len (o_tags o) =? 0); [eexists; reflexivity|].
      rewrite (read_T o h HT). cbn [bind].
      destruct HT as (HI & _). destruct HI as (l & W & B & Ln). rewrite B in Ln.
      exists (count_num n l). apply check_tag_enc; assumption. }
    destruct P as (c & P). rewrite P. cbn [bind].
    destruct (c <? 0).
    - exists o, c, h. split; [reflexivity | exact HT].
    - destruct (quick_add_T o n d h HT Hw) as (o1 & r1 & h1 & Q & T1). rewrite Q. cbn [bind].
      destruct (negb (r1 =? 0)).
      + exists o1, r1, h1. split; [reflexivity | exact T1].
      + destruct (0 <? c).
        * apply remove_T. exact T1.
        * exists o1, 0, h1. split; [reflexivity | exact T1].
  Qed.

  Lemma step_T o op h : Tinv o h -> wf_op op ->
    exists o' r h', sk_step sc o op h = Done (o', r, h') /\ Tinv o' h'.
  Proof.
    intros HT Ho. destruct op as [n b | n | b | c | n]; cbn [sk_step wf_op] in *.
    - apply quick_add_T; assumption.
    - apply remove_T; assumption.
    - apply set_T; assumption.
    - apply set_T; [assumption | apply wf_channel; assumption].
    - rewrite (read_T o h HT). cbn [bind].
      destruct HT as (HI & HR). destruct HI as (l & W & B & Ln). pose proof Ln as Ln'. rewrite B in Ln'.
      rewrite (check_tag_enc (o_tags o) l n W B Ln'). cbn [bind].
      exists o, (count_num n l), h. split; [reflexivity|]. split; [exists l; auto | exact HR].
  Qed.

  Lemma run_T : forall ops o h, Tinv o h -> Forall wf_op ops ->
    exists o' h', sk_run sc o ops h = Done (o', h') /\ Tinv o' h'.
  Proof.
    induction ops as [|op ops IH]; intros o h HT Hops.
    - exists o, h. split; [reflexivity | exact HT].
    - inversion Hops as [|? ? Ho Hr]; subst.
      destruct (step_T o op h HT Ho) as (o1 & r1 & h1 & S1 & T1).
      cbn [sk_run]. rewrite S1. cbn [bind]. apply IH; assumption.
  Qed.

  Lemma free_T o h : Tinv o h -> exists o' h', sk_free o h = Done (o', h') /\ live_blocks h' = [].
  Proof.
    intros (HI & Hz & HL & HF). unfold sk_free. destruct (o_ptr o) as [b|] eqn:HP; cbn [optl] in HL.
    - destruct (free_some b h) as (h1 & F & L3 & N3 & C3); [rewrite HL; left; reflexivity|].
      rewrite F. cbn [bind]. eexists _, h1. split; [reflexivity|]. rewrite L3, HL, rm_head. reflexivity.
    - destruct (free_none h) as (h1 & F & L3 & N3 & C3). rewrite F. cbn [bind].
      eexists _, h1. split; [reflexivity|]. congruence.
  Qed.
End T.

Lemma tags_history_clean : forall sc ops, Forall wf_op ops ->
  exists o h, sk_run sc tobj0 ops heap0 = Done (o, h) /\ owns o h /\
              exists o' h', sk_free o h = Done (o', h') /\ live_blocks h' = [].
Proof.
  intros sc ops Hops. destruct (run_T sc ops tobj0 heap0 Tinv0 Hops) as (o & h & R & HT).
  exists o, h. split; [exact R|]. split; [exact (proj1 (proj2 (proj2 HT)))|].
  apply (free_T o h HT).
Qed.

(* ================================================================ generators *)
Lemma wf_supp_rates : wf_tag (c_TAG_SUPP_RATES, c_LIBWIFI_DEFAULT_SUPP_RATES).
Proof.
  unfold wf_tag. cbn [fst snd]. split; [vm_compute; split; [discriminate | reflexivity]|].
  split; [vm_compute; discriminate|]. apply wfbytesb_spec. vm_compute. reflexivity.
Qed.

Lemma create_T sc k ssid ch el :
  wf_tag (c_TAG_SSID, ssid) -> 0 <= ch < 256 -> wf_tag (c_TAG_TIME_ADVERTISEMENT, el) ->
  exists o r h, sk_create sc k ssid ch el heap0 = Done (o, r, h) /\ Tinv o h.
Proof.
  intros Hs Hc He. pose proof (wf_channel ch Hc) as Hch. pose proof wf_supp_rates as Hsr.
  pose proof Tinv0 as T0.
  unfold sk_create.
  destruct k.
  1,2: destruct (set_T sc tobj0 c_TAG_SSID ssid heap0 T0 Hs) as (o1 & r1 & h1 & S1 & T1);
       rewrite S1; cbn [bind]; destruct (negb (r1 =? 0));
       [exists o1, r1, h1; split; [reflexivity | exact T1] | apply set_T; assumption].
  1,2,3: destruct (quick_add_T sc tobj0 c_TAG_SSID ssid heap0 T0 Hs) as (o1 & r1 & h1 & S1 & T1);
       rewrite S1; cbn [bind]; destruct (negb (r1 =? 0));
       [exists o1, r1, h1; split; [reflexivity | exact T1] | apply quick_add_T; assumption].
  - destruct (set_T sc tobj0 c_TAG_DS_PARAMETER [ch] heap0 T0 Hch) as (o1 & r1 & h1 & S1 & T1).
    rewrite S1. cbn [bind]. destruct (negb (r1 =? 0)).
    + exists o1, r1, h1. split; [reflexivity | exact T1].
    + apply quick_add_T; assumption.
  - apply set_T; assumption.
  - apply quick_add_T; assumption.
Qed.

Definition go_loop (sc : sched) :=
  fix go (o : tobj) (ops : list tag_op) (h : heap) (acc : list Z) : res (list Z * tobj * heap) :=
    match ops with
    | [] => Done (acc, o, h)
    | op :: rest => let* '(o1, r1, h1) := sk_step sc o op h in go o1 rest h1 (acc ++ [r1])
    end.

Lemma go_T sc : forall ops o h acc, Tinv o h -> Forall wf_op ops ->
  exists rs o' h', go_loop sc o ops h acc = Done (rs, o', h') /\ Tinv o' h'.
Proof.
  induction ops as [|op ops IH]; intros o h acc HT Hops.
  - exists acc, o, h. split; [reflexivity | exact HT].
  - inversion Hops as [|? ? Ho Hr]; subst.
    destruct (step_T sc o op h HT Ho) as (o1 & r1 & h1 & S1 & T1).
    cbn [go_loop]. rewrite S1. cbn [bind]. apply IH; assumption.
Qed.

Lemma gen_scenario_eq sc k ssid ch el extras :
  sk_gen_scenario sc k ssid ch el extras =
  (let* '(o, r, h) := sk_create sc k ssid ch el heap0 in
   let* '(rs, o', h') := go_loop sc o (if r =? 0 then extras else []) h [r] in
   let* '(_, h'') := sk_free o' h' in
   Done (rs, zfirstn (t_len (o_tags o')) (t_bytes (o_tags o')), h'')).
Proof. reflexivity. Qed.

Lemma generators_clean : forall sc k ssid ch el extras,
  wf_tag (c_TAG_SSID, ssid) -> 0 <= ch < 256 -> wf_tag (c_TAG_TIME_ADVERTISEMENT, el) -> Forall wf_op extras ->
  exists rs tg h, sk_gen_scenario sc k ssid ch el extras = Done (rs, tg, h) /\ live_blocks h = [].
Proof.
  intros sc k ssid ch el extras Hs Hc He Hx. rewrite gen_scenario_eq.
  destruct (create_T sc k ssid ch el Hs Hc He) as (o & r & h & C & T1). rewrite C. cbn [bind].
  assert (Hx' : Forall wf_op (if r =? 0 then extras else [])) by (destruct (r =? 0); [exact Hx | constructor]).
  destruct (go_T sc _ o h [r] T1 Hx') as (rs & o' & h' & G & T2). rewrite G. cbn [bind].
  destruct (free_T o' h' T2) as (o'' & h'' & F & L). rewrite F. cbn [bind].
  eexists _, _, h''. split; [reflexivity | exact L].
Qed.

(* ================================================================ action details *)
Definition detail_step (sc : sched) :=
  fun (st : res (dobj * heap)) (d : list byte) =>
    match st with
    | Done (o, h) => match sk_add_detail sc o d h with
                     | Done (o', _, h') => Done (o', h') | Fault k z => Fault k z | OutOfFuel => OutOfFuel end
    | other => other
    end.

(* libwifi_add_action_detail refuses (-EINVAL, nothing changed) an append that would take the stored
   length past its one-octet counter, so the length never wraps to 0 while a block is owned: a
   successful append has zlen data > 0 and makes the length positive. *)
Definition Dinv (d : dobj) (h : heap) : Prop :=
  0 <= d_len d <= 255 /\ (d_len d = 0 <-> d_ptr d = None) /\ live_blocks h = optl (d_ptr d) /\ fresh h.

Lemma add_detail_D sc d data h : Dinv d h ->
  exists d' r h', sk_add_detail sc d data h = Done (d', r, h') /\ Dinv d' h'.
Proof.
  intros (H0 & Hz & HL & HF). pose proof (zlen_nonneg data) as Hd. unfold sk_add_detail. unfold byte in *.
  destruct (zlen data =? 0) eqn:Ed.
  { exists d, (d_len d), h. split; [reflexivity|]. repeat split; tauto || assumption. }
  destruct (255 <? d_len d + zlen data) eqn:Eb.
  { exists d, (- EINVAL), h. split; [reflexivity|]. repeat split; tauto || assumption. }
  apply Z.eqb_neq in Ed. apply Z.ltb_ge in Eb.
  destruct (d_len d =? 0) eqn:E0.
  - apply Z.eqb_eq in E0. pose proof (proj1 Hz E0) as HP. rewrite HP in HL. cbn [optl] in HL. cbn [bind].
    destruct (malloc_cases sc (zlen data) h) as [(S1 & h1 & M & L1 & N1 & C1)|(S1 & h1 & M & L1 & N1 & C1)];
      rewrite M; cbv iota beta.
    + exists d, (- Alloc.ENOMEM), h1. split; [reflexivity|].
      split; [exact H0|]. split; [exact Hz|]. rewrite HP. cbn [optl].
      split; [congruence|]. apply (fresh_mono h); [exact HF | rewrite L1; auto | lia].
    + eexists _, _, h1. split; [reflexivity|]. unfold Dinv. cbn [d_len d_ptr].
      split; [lia|]. split; [split; [lia | discriminate]|]. cbn [optl].
      assert (L1' : live_blocks h1 = [h_next h]) by (rewrite L1, HL; reflexivity).
      split; [exact L1'|]. intros x Hx. rewrite L1' in Hx. destruct Hx as [<-|[]]. lia.
  - apply Z.eqb_neq in E0. destruct (d_ptr d) as [b|] eqn:HP; [|exfalso; apply E0, Hz; reflexivity].
    cbn [optl] in HL. assert (Hbb : b < h_next h) by (apply HF; rewrite HL; left; reflexivity).
    destruct (realloc_cases sc b (zlen data + d_len d) h) as [(S1 & h1 & M & L1 & N1 & C1)|(S1 & h1 & M & L1 & N1 & C1)];
      [rewrite HL; left; reflexivity| |]; rewrite M; cbn [bind].
    + exists d, (- Alloc.ENOMEM), h1. split; [reflexivity|].
      split; [exact H0|]. split; [rewrite HP; exact Hz|]. rewrite HP. cbn [optl].
      split; [congruence|]. apply (fresh_mono h); [exact HF | rewrite L1; auto | lia].
    + eexists _, _, h1. split; [reflexivity|]. unfold Dinv. cbn [d_len d_ptr].
      split; [lia|]. split; [split; [lia | discriminate]|]. cbn [optl].
      assert (L1' : live_blocks h1 = [h_next h]) by (rewrite L1, HL, rm_head; reflexivity).
      split; [exact L1'|]. intros x Hx. rewrite L1' in Hx. destruct Hx as [<-|[]]. lia.
Qed.

Lemma details_D sc : forall details d h, Dinv d h ->
  exists o h', fold_left (detail_step sc) details (Done (d, h)) = Done (o, h') /\ Dinv o h'.
Proof.
  induction details as [|a r IH]; intros d h HD.
  - exists d, h. split; [reflexivity | exact HD].
  - destruct (add_detail_D sc d a h HD) as (d' & r' & h' & A & HD').
    cbn [fold_left]. unfold detail_step at 2. rewrite A. apply IH. exact HD'.
Qed.

(* any sequence of details, any failure schedule *)
Lemma action_clean : forall sc (details : list (list byte)),
  let run := fold_left (fun (st : res (dobj * heap)) d =>
                          match st with Done (o, h) => match sk_add_detail sc o d h with Done (o', _, h') => Done (o', h') | Fault k z => Fault k z | OutOfFuel => OutOfFuel end
                                      | other => other end) details (Done (dobj0, heap0)) in
  exists o h, run = Done (o, h) /\ exists h', sk_free_action o h = Done h' /\ live_blocks h' = [].
Proof.
  intros sc details run. subst run.
  assert (D0 : Dinv dobj0 heap0).
  { split; [cbn; lia|]. split; [cbn; tauto|]. split; [reflexivity | exact fresh_heap0]. }
  destruct (details_D sc details dobj0 heap0 D0) as (o & h & R & (H0 & Hz & HL & HF)).
  exists o, h. split; [exact R|]. unfold sk_free_action.
  destruct (d_ptr o) as [b|]; cbn [optl] in HL.
  - destruct (free_some b h) as (h1 & F & L3 & _); [rewrite HL; left; reflexivity|].
    exists h1. split; [exact F|]. rewrite L3, HL, rm_head. reflexivity.
  - destruct (free_none h) as (h1 & F & L3 & _). exists h1. split; [exact F | congruence].
Qed.

(* the bounded instance (every append fits, none is refused) follows *)
Lemma action_clean_bounded : forall sc (details : list (list byte)), zlen (concat details) <= 255 ->
  let run := fold_left (fun (st : res (dobj * heap)) d =>
                          match st with Done (o, h) => match sk_add_detail sc o d h with Done (o', _, h') => Done (o', h') | Fault k z => Fault k z | OutOfFuel => OutOfFuel end
                                      | other => other end) details (Done (dobj0, heap0)) in
  exists o h, run = Done (o, h) /\ exists h', sk_free_action o h = Done h' /\ live_blocks h' = [].
Proof. intros sc details _. exact (action_clean sc details). Qed.

(* the input that leaked a block before the refusal was added (256 bytes, then 1): the first append is
   now refused with -EINVAL and nothing stays allocated *)
Definition action_cex : list (list byte) := [repeat 0 256; [0]].
Lemma action_cex_clean :
  exists o h h', fold_left (detail_step (fun _ => false)) action_cex (Done (dobj0, heap0)) = Done (o, h) /\
                 sk_free_action o h = Done h' /\ live_blocks h' = [].
Proof. eexists _, _, _. split; [vm_compute; reflexivity|]. split; vm_compute; reflexivity. Qed.

(* ================================================================ C15: failure is reported *)
Lemma malloc_inv sc n h p h1 : h_malloc sc n h = (p, h1) ->
  h_count h1 = S (h_count h) /\ (p = None -> sc (h_count h) = true).
Proof.
  unfold h_malloc. destruct (sc (h_count h)); intros H; inversion H; subst; cbn [h_count];
    (split; [reflexivity|]); [reflexivity | discriminate].
Qed.
Lemma realloc_inv sc p n h q h1 : h_realloc sc p n h = Done (q, h1) ->
  h_count h1 = S (h_count h) /\ (q = None -> sc (h_count h) = true).
Proof.
  unfold h_realloc. destruct p as [b|].
  - destruct (negb (is_live b h)); [discriminate|].
    destruct (sc (h_count h)); intros H; inversion H; subst; cbn [h_count];
      (split; [reflexivity|]); [reflexivity | discriminate].
  - destruct (sc (h_count h)); intros H; inversion H; subst; cbn [h_count];
      (split; [reflexivity|]); [reflexivity | discriminate].
Qed.
Lemma free_inv p h h1 : h_free p h = Done h1 -> h_count h1 = h_count h.
Proof.
  unfold h_free. destruct p as [b|].
  - destruct (negb (is_live b h)); [discriminate|]. intros H; inversion H; reflexivity.
  - intros H; inversion H; reflexivity.
Qed.

Lemma add_tag_cases sc o num len body h o' r h' : sk_add_tag sc o num len body h = Done (o', r, h') ->
  h_count h' = S (h_count h) /\
  ((r = 0 /\ o_tags o' = add_tag (o_tags o) num len body) \/
   (r = - Alloc.ENOMEM /\ o' = o /\ sc (h_count h) = true)).
Proof.
  unfold sk_add_tag. intros H.
  assert (A : exists p h1, (if t_len (o_tags o) =? 0 then Done (h_malloc sc (sizeof_libwifi_tag_header + len) h)
                            else h_realloc sc (o_ptr o) (t_len (o_tags o) + (sizeof_libwifi_tag_header + len)) h)
                           = Done (p, h1) /\ h_count h1 = S (h_count h) /\ (p = None -> sc (h_count h) = true)).
  { destruct (t_len (o_tags o) =? 0).
    - destruct (h_malloc sc (sizeof_libwifi_tag_header + len) h) as [p h1] eqn:M.
      exists p, h1. split; [reflexivity|]. eapply malloc_inv; eassumption.
    - destruct (h_realloc sc (o_ptr o) (t_len (o_tags o) + (sizeof_libwifi_tag_header + len)) h)
        as [[p h1]| |] eqn:M; cbn [bind] in H; try discriminate H.
      exists p, h1. split; [reflexivity|]. eapply realloc_inv; eassumption. }
  destruct A as (p & h1 & A & C & N). rewrite A in H. cbn [bind] in H. destruct p as [b|].
  - destruct (h_deref (Some b) h1); cbn [bind] in H; try discriminate H. inversion H; subst.
    split; [exact C|]. left. split; reflexivity.
  - inversion H; subst. split; [exact C|]. right. split; [reflexivity|]. split; [reflexivity|]. apply N. reflexivity.
Qed.

Lemma quick_add_cases sc o num data h o' r h' : sk_quick_add sc o num data h = Done (o', r, h') ->
  (r = 0 /\ o_tags o' = fst (quick_add_tag (o_tags o) num data)) \/
  (r = - Alloc.ENOMEM /\ o' = o /\ exists k, (h_count h <= k < h_count h')%nat /\ sc k = true).
Proof.
  unfold sk_quick_add. destruct (h_malloc sc (zlen data) h) as [pb h1] eqn:M.
  destruct (malloc_inv _ _ _ _ _ M) as [C1 N1]. destruct pb as [b|].
  - destruct (sk_add_tag sc o (num mod 256) (zlen data mod 256) data h1) as [[[o1 r1] h2]| |] eqn:A;
      cbn [bind]; try discriminate.
    destruct (h_free (Some b) h2) as [h3| |] eqn:F; cbn [bind]; try discriminate.
    intros H; inversion H; subst. apply free_inv in F.
    destruct (add_tag_cases _ _ _ _ _ _ _ _ _ A) as [C2 [[R T]|[R [T S]]]].
    + left. split; [exact R|]. rewrite T. reflexivity.
    + right. split; [exact R|]. split; [exact T|]. exists (h_count h1). split; [lia | exact S].
  - intros H; inversion H; subst. right. split; [reflexivity|]. split; [reflexivity|].
    exists (h_count h). split; [lia | apply N1; reflexivity].
Qed.

Lemma add_reported : forall sc o h num data o' r h',
  tags_inv (o_tags o) -> ptr_inv o h -> wf_tag (num, data) ->
  sk_quick_add sc o num data h = Done (o', r, h') ->
  (r = 0 /\ o_tags o' = fst (quick_add_tag (o_tags o) num data)) \/
  (r = - Alloc.ENOMEM /\ o_tags o' = o_tags o /\ exists k, (h_count h <= k < h_count h')%nat /\ sc k = true).
Proof.
  intros sc o h num data o' r h' _ _ _ H.
  destruct (quick_add_cases _ _ _ _ _ _ _ _ H) as [A|(R & T & K)]; [left; exact A|].
  right. subst o'. auto.
Qed.

Lemma remove_cases sc o num h o' r h' : sk_remove_tag sc o num h = Done (o', r, h') ->
  exists t', remove_tag (o_tags o) num = Done (t', r) /\ o_tags o' = t'.
Proof.
  unfold sk_remove_tag. destruct (remove_tag (o_tags o) num) as [[t' r0]| |] eqn:R; cbn [bind]; try discriminate.
  destruct ((r0 =? 0) && negb (t_len t' =? t_len (o_tags o))) eqn:E.
  - apply andb_true_iff in E. destruct E as [E _]. apply Z.eqb_eq in E. subst r0.
    destruct (h_deref (o_ptr o) h); cbn [bind]; try discriminate.
    destruct (t_len t' =? 0).
    + destruct (h_free (o_ptr o) h); cbn [bind]; try discriminate.
      intros H; inversion H; subst. exists t'. split; reflexivity.
    + destruct (h_realloc sc (o_ptr o) (t_len t') h) as [[p h1]| |]; cbn [bind]; try discriminate.
      intros H; inversion H; subst. exists t'. split; reflexivity.
  - intros H; inversion H; subst. exists t'. split; reflexivity.
Qed.

Lemma remove_safe : forall sc o h num o' r h',
  tags_inv (o_tags o) -> ptr_inv o h ->
  sk_remove_tag sc o num h = Done (o', r, h') ->
  exists t', remove_tag (o_tags o) num = Done (t', r) /\ o_tags o' = t'.
Proof. intros sc o h num o' r h' _ _ H. exact (remove_cases _ _ _ _ _ _ _ H). Qed.

Lemma remove_tag_codes s n t' r : remove_tag s n = Done (t', r) -> r = 0 \/ (r = - TagIter.EINVAL /\ t' = s).
Proof.
  unfold remove_tag. destruct (t_len s =? 0); [intros H; inversion H; subst; left; reflexivity|].
  destruct (iter_of s) as [[el|c]| |]; cbn [bind]; try discriminate.
  - destruct (find_num n el); intros H; inversion H; subst; left; reflexivity.
  - intros H; inversion H; subst. right. split; reflexivity.
Qed.

(* the setters are failure-atomic: the old element is removed only after the new one has been stored, and
   that removal cannot fail (its shrinking realloc may, which is still success) *)
Lemma set_atomic : forall sc o h num data o' r h',
  tags_inv (o_tags o) -> ptr_inv o h -> wf_tag (num, data) ->
  sk_set_tag sc o num data h = Done (o', r, h') ->
  (r = 0 /\ set_tag (o_tags o) num data = Done (o_tags o', 0)) \/
  (r < 0 /\ o_tags o' = o_tags o).
Proof.
  intros sc o h num data o' r h' (l & W & B & Ln) _ Hw. rewrite B in Ln.
  destruct (quick_add_enc (o_tags o) l num data Hw B Ln) as (s1 & Q1 & Qb & Ql).
  unfold sk_set_tag, set_tag. rewrite Q1.
  assert (PC : forall c,
    (if t_len (o_tags o) =? 0 then Done 0 else let* _ := sk_read o h in check_tag (o_tags o) num) = Done c ->
    (if t_len (o_tags o) =? 0 then Done 0 else check_tag (o_tags o) num) = Done c).
  { intros c. destruct (t_len (o_tags o) =? 0); [auto|].
    destruct (sk_read o h) as [[]| |]; cbn [bind]; auto; discriminate. }
  destruct (if t_len (o_tags o) =? 0 then Done 0 else let* _ := sk_read o h in check_tag (o_tags o) num)
    as [c| |] eqn:P; cbn [bind]; try discriminate.
  rewrite (PC c eq_refl). cbn [bind].
  destruct (c <? 0) eqn:Cn.
  { intros H; inversion H; subst. right. split; [lia | reflexivity]. }
  destruct (sk_quick_add sc o num data h) as [[[o1 r1] h1]| |] eqn:Q; cbn [bind]; try discriminate.
  change (negb (0 =? 0)) with false. cbv iota.
  destruct (quick_add_cases _ _ _ _ _ _ _ _ Q) as [(R1 & T1)|(R1 & T1 & _)].
  - subst r1. rewrite Q1 in T1. cbn [fst] in T1. change (negb (0 =? 0)) with false. cbv iota.
    destruct (0 <? c).
    + intros H. destruct (remove_cases _ _ _ _ _ _ _ H) as (t' & R & T). rewrite T1 in R.
      destruct (remove_tag_enc s1 (l ++ [(num, data)]) num (wf_tags_snoc _ _ W Hw) Qb Ql)
        as (s' & R' & _).
      rewrite R' in R. inversion R; subst. left. split; [reflexivity | exact R'].
    + intros H. injection H as E1 E2 E3. subst o' r h'. left. split; [reflexivity|]. rewrite T1. reflexivity.
  - subst r1 o1. change (negb (- Alloc.ENOMEM =? 0)) with true. cbv iota.
    intros H; inversion H; subst. right. split; [unfold Alloc.ENOMEM; lia | reflexivity].
Qed.

(* the recorded length is a length (0 <= d_len d; with a negative d_len and empty data the routine would
   hand that negative value back as its result) *)
Lemma detail_reported : forall sc d data h d' r h', 0 <= d_len d ->
  sk_add_detail sc d data h = Done (d', r, h') ->
  (r = - Alloc.ENOMEM /\ d' = d) \/ (r = - TagIter.EINVAL /\ d' = d) \/ (0 <= r /\ d_bytes d' = d_bytes d ++ data).
Proof.
  intros sc d data h d' r h' H0. unfold sk_add_detail.
  destruct (zlen data =? 0) eqn:Ed.
  { intros H; inversion H; subst. right. right. split; [exact H0|].
    destruct data; [rewrite app_nil_r; reflexivity|]. rewrite zlen_cons in Ed. pose proof (zlen_nonneg data). lia. }
  destruct (255 <? d_len d + zlen data) eqn:Eb.
  { intros H; inversion H; subst. right. left. split; reflexivity. }
  assert (A : forall (m : res (option blk * heap)),
    bind m (fun '(p, h1) => match p with
       | None => Done (d, - Alloc.ENOMEM, h1)
       | Some b => let l := d_len d + zlen data in
                   Done ({| d_len := l; d_bytes := d_bytes d ++ data; d_ptr := Some b |}, l, h1) end)
    = Done (d', r, h') ->
    (r = - Alloc.ENOMEM /\ d' = d) \/ (r = - TagIter.EINVAL /\ d' = d) \/ (0 <= r /\ d_bytes d' = d_bytes d ++ data)).
  { intros m. destruct m as [[p h1]| |]; cbn [bind]; try discriminate. destruct p as [b|].
    - cbv zeta. intros H; inversion H; subst. right. right. split; [|reflexivity].
      pose proof (zlen_nonneg data). unfold byte in *. lia.
    - intros H; inversion H; subst. left. split; reflexivity. }
  apply A.
Qed.

(* the earlier counterexample object (negative recorded length) is outside the hypothesis, and is still
   the reason for it *)
Definition detail_cex : dobj := {| d_len := -1; d_bytes := []; d_ptr := None |}.
Lemma detail_cex_result :
  sk_add_detail (fun _ => false) detail_cex [] heap0 = Done (detail_cex, -1, heap0).
Proof. vm_compute. reflexivity. Qed.

Lemma copy_parser_reported : forall sc reached n code h p r h',
  sk_copy_parser sc reached n code h = (p, r, h') ->
  (reached = true /\ sc (h_count h) = true /\ r = - Alloc.ENOMEM /\ p = None) \/
  (reached = true /\ sc (h_count h) = false /\ r = code /\ exists b, p = Some b /\ is_live b h' = true) \/
  (reached = false /\ r = code /\ p = None /\ h' = h).
Proof.
  intros sc reached n code h p r h'. unfold sk_copy_parser. destruct reached; cbn [negb].
  - destruct (malloc_cases sc n h) as [(S1 & h1 & M & L1 & N1 & C1)|(S1 & h1 & M & L1 & N1 & C1)]; rewrite M;
      intros H; inversion H; subst.
    + left. auto.
    + right. left. split; [reflexivity|]. split; [exact S1|]. split; [reflexivity|].
      exists (h_next h). split; [reflexivity|]. apply is_live_In. rewrite L1. left. reflexivity.
  - intros H; inversion H; subst. right. right. auto.
Qed.

(* ================================================================ classify / parse / release *)
Definition clean (x : res (list Z * heap)) : Prop := exists rs h, x = Done (rs, h) /\ live_blocks h = [].

Lemma parse_release_clean sc reached n code h : fresh h ->
  exists r h', sk_parse_release sc reached n code h = Done (r, h') /\ live_blocks h' = live_blocks h /\ fresh h'.
Proof.
  intros HF. unfold sk_parse_release, sk_copy_parser. destruct reached; cbn [negb]; cbv beta iota.
  - destruct (malloc_cases sc n h) as [(S1 & h1 & M & L1 & N1 & C1)|(S1 & h1 & M & L1 & N1 & C1)]; rewrite M;
      cbv beta iota.
    + destruct (free_none h1) as (h2 & F & L2 & N2 & C2). rewrite F. cbn [bind].
      eexists _, h2. split; [reflexivity|]. split; [congruence|].
      apply (fresh_mono h); [exact HF | rewrite L2, L1; auto | lia].
    + destruct (free_some (h_next h) h1) as (h2 & F & L2 & N2 & C2); [rewrite L1; left; reflexivity|].
      rewrite F. cbn [bind]. eexists _, h2. split; [reflexivity|].
      assert (L2' : live_blocks h2 = live_blocks h) by (rewrite L2, L1, rm_head; apply rm_fresh; exact HF).
      split; [exact L2'|]. apply (fresh_mono h); [exact HF | rewrite L2'; auto | lia].
  - destruct (free_none h) as (h2 & F & L2 & N2 & C2). rewrite F. cbn [bind].
    eexists _, h2. split; [reflexivity|]. split; [exact L2|].
    apply (fresh_mono h); [exact HF | rewrite L2; auto | lia].
Qed.

Lemma parse_release_guarded_clean sc reached n code h : fresh h ->
  exists r h', sk_parse_release_guarded sc reached n code h = Done (r, h') /\ live_blocks h' = live_blocks h /\ fresh h'.
Proof.
  intros HF. destruct reached.
  - exact (parse_release_clean sc true n code h HF).
  - unfold sk_parse_release_guarded, sk_copy_parser. cbn [negb]. cbv beta iota.
    eexists _, h. split; [reflexivity|]. split; [reflexivity | exact HF].
Qed.

Lemma pr_clean sc reached n code h L (k : Z * heap -> res (list Z * heap)) :
  fresh h -> live_blocks h = L ->
  (forall r h', fresh h' -> live_blocks h' = L -> clean (k (r, h'))) ->
  clean (bind (sk_parse_release sc reached n code h) k).
Proof.
  intros HF HL Hk. destruct (parse_release_clean sc reached n code h HF) as (r & h' & E & L' & F').
  rewrite E. cbn [bind]. apply Hk; [exact F' | congruence].
Qed.
Lemma prg_clean sc reached n code h L (k : Z * heap -> res (list Z * heap)) :
  fresh h -> live_blocks h = L ->
  (forall r h', fresh h' -> live_blocks h' = L -> clean (k (r, h'))) ->
  clean (bind (sk_parse_release_guarded sc reached n code h) k).
Proof.
  intros HF HL Hk. destruct (parse_release_guarded_clean sc reached n code h HF) as (r & h' & E & L' & F').
  rewrite E. cbn [bind]. apply Hk; [exact F' | congruence].
Qed.

(* the frame object owns exactly the live blocks, which are distinct *)
Definition fown (fo : fobj) (L : list blk) : Prop := NoDup L /\ L = optl (fo_body fo) ++ optl (fo_rtap fo).

Lemma get_frame_own sc radiotap rt_ok result h : fresh h -> live_blocks h = [] ->
  exists fo r0 h0, sk_get_wifi_frame sc radiotap rt_ok result h = (fo, r0, h0) /\ fresh h0 /\
                   fown fo (live_blocks h0).
Proof.
  intros HF HL. unfold sk_get_wifi_frame.
  assert (ND0 : NoDup (@nil blk)) by constructor.
  assert (ND1 : forall b : blk, NoDup [b]) by (intros b; constructor; [intros [] | constructor]).
  destruct (radiotap && rt_ok).
  - destruct (malloc_cases sc sizeof_libwifi_radiotap_info h) as [(S1 & h1 & M & L1 & N1 & C1)|(S1 & h1 & M & L1 & N1 & C1)];
      rewrite M; cbn [andb]; cbv beta iota.
    + eexists _, _, h1. split; [reflexivity|].
      split; [apply (fresh_mono h); [exact HF | rewrite L1; auto | lia]|].
      rewrite L1, HL. split; [exact ND0 | reflexivity].
    + rewrite HL in L1.
      assert (F1 : fresh h1) by (intros x Hx; rewrite L1 in Hx; destruct Hx as [<-|[]]; lia).
      destruct result as [f|c].
      * destruct (0 <? f_len f - f_header_len f).
        -- destruct (malloc_cases sc (f_len f - f_header_len f) h1) as [(S2 & h2 & M2 & L2 & N2 & C2)|(S2 & h2 & M2 & L2 & N2 & C2)];
             rewrite M2; cbv beta iota.
           ++ eexists _, _, h2. split; [reflexivity|].
              split; [apply (fresh_mono h1); [exact F1 | rewrite L2; auto | lia]|].
              rewrite L2, L1. split; [apply ND1 | reflexivity].
           ++ eexists _, _, h2. split; [reflexivity|]. rewrite L1 in L2.
              split; [intros x Hx; rewrite L2 in Hx; destruct Hx as [<-|[<-|[]]]; lia|].
              rewrite L2. split; [|reflexivity].
              constructor; [intros [E|[]]; lia | apply ND1].
        -- eexists _, _, h1. split; [reflexivity|]. split; [exact F1|]. rewrite L1. split; [apply ND1 | reflexivity].
      * eexists _, _, h1. split; [reflexivity|]. split; [exact F1|]. rewrite L1. split; [apply ND1 | reflexivity].
  - cbn [andb]. cbv beta iota. destruct result as [f|c].
    + destruct (0 <? f_len f - f_header_len f).
      * destruct (malloc_cases sc (f_len f - f_header_len f) h) as [(S2 & h2 & M2 & L2 & N2 & C2)|(S2 & h2 & M2 & L2 & N2 & C2)];
          rewrite M2; cbv beta iota.
        -- eexists _, _, h2. split; [reflexivity|].
           split; [apply (fresh_mono h); [exact HF | rewrite L2; auto | lia]|].
           rewrite L2, HL. split; [exact ND0 | reflexivity].
        -- eexists _, _, h2. split; [reflexivity|]. rewrite HL in L2.
           split; [intros x Hx; rewrite L2 in Hx; destruct Hx as [<-|[]]; lia|].
           rewrite L2. split; [apply ND1 | reflexivity].
      * eexists _, _, h. split; [reflexivity|]. split; [exact HF|]. rewrite HL. split; [exact ND0 | reflexivity].
    + eexists _, _, h. split; [reflexivity|]. split; [exact HF|]. rewrite HL. split; [exact ND0 | reflexivity].
Qed.

Lemma free_frame_clean fo h : fown fo (live_blocks h) ->
  exists h', sk_free_wifi_frame fo h = Done h' /\ live_blocks h' = [].
Proof.
  intros [ND HL]. unfold sk_free_wifi_frame. destruct fo as [[a|] [b|]]; cbn [fo_rtap fo_body optl app] in *.
  - assert (Hab : b <> a).
    { rewrite HL in ND. inversion ND as [|? ? Hn _]; subst. intros E. apply Hn. left. symmetry. exact E. }
    destruct (free_some a h) as (h1 & F & L1 & _); [rewrite HL; right; left; reflexivity|].
    rewrite F. cbn [bind].
    assert (L1' : live_blocks h1 = [b]) by (rewrite L1, HL, rm_other, rm_head by exact Hab; reflexivity).
    destruct (free_some b h1) as (h2 & F2 & L2 & _); [rewrite L1'; left; reflexivity|].
    exists h2. split; [exact F2|]. rewrite L2, L1', rm_head. reflexivity.
  - destruct (free_some a h) as (h1 & F & L1 & _); [rewrite HL; left; reflexivity|].
    rewrite F. cbn [bind]. destruct (free_none h1) as (h2 & F2 & L2 & _).
    exists h2. split; [exact F2|]. rewrite L2, L1, HL, rm_head. reflexivity.
  - destruct (free_none h) as (h1 & F & L1 & _). rewrite F. cbn [bind].
    destruct (free_some b h1) as (h2 & F2 & L2 & _); [rewrite L1, HL; left; reflexivity|].
    exists h2. split; [exact F2|]. rewrite L2, L1, HL, rm_head. reflexivity.
  - destruct (free_none h) as (h1 & F & L1 & _). rewrite F. cbn [bind].
    destruct (free_none h1) as (h2 & F2 & L2 & _).
    exists h2. split; [exact F2|]. congruence.
Qed.

Lemma free_frame_bind fo h rs : fown fo (live_blocks h) ->
  clean (bind (sk_free_wifi_frame fo h) (fun h1 => Done (rs, h1))).
Proof.
  intros HO. destruct (free_frame_clean fo h HO) as (h' & F & L). rewrite F. cbn [bind].
  exists rs, h'. split; [reflexivity | exact L].
Qed.

Lemma parse_pipeline_clean_rel : forall sc buf rd rt, wfbytes buf -> agrees rd buf ->
  (rt = true -> exists o, parse_radiotap_info rd (zlen buf) = Done o /\
                          (forall info, o = Ok info -> 0 <= i_length info <= zlen buf)) ->
  exists rs h, sk_parse_scenario sc rd (zlen buf) rt = Done (rs, h) /\ live_blocks h = [].
Proof.
  intros sc buf rd rt Hwf Hag Hrt.
  change (clean (sk_parse_scenario sc rd (zlen buf) rt)).
  assert (G : exists rtres, get_wifi_frame rd (zlen buf) rt = Done (spec_classify buf rtres) /\
                            (forall f, spec_classify buf rtres = Ok f -> frame_ok f)).
  { destruct rt.
    - destruct (Hrt eq_refl) as (o & P & Hb). exists (Some o). split.
      + apply classify_radiotap_rel; assumption.
      + intros f Hc. apply (classified_ok buf (Some o) f Hwf Hc).
        intros info E. inversion E; subst. apply Hb. reflexivity.
    - exists None. split.
      + apply classify_plain; assumption.
      + intros f Hc. apply (classified_ok buf None f Hwf Hc). intros info E. discriminate E. }
  destruct G as (rtres & G & Hok). unfold sk_parse_scenario. rewrite G. cbn [bind]. clear G.
  generalize dependent (spec_classify buf rtres). intros result Hok.
  match goal with |- context [bind (if rt then ?A else Done false) _] =>
    assert (E : exists v, (if rt then A else Done false) = Done v) end.
  { destruct rt; [|eexists; reflexivity].
    destruct (Hrt eq_refl) as (o & P & Hb). rewrite P. cbn [bind]. destruct o; eexists; reflexivity. }
  destruct E as (rt_ok & E). rewrite E. cbn [bind]. clear E.
  destruct (get_frame_own sc rt rt_ok result heap0 fresh_heap0 eq_refl) as (fo & r0 & h0 & GF & F0 & O0).
  rewrite GF. cbv beta iota.
  destruct (negb (r0 =? 0)); [apply free_frame_bind; exact O0|].
  destruct result as [f|c]; [|apply free_frame_bind; exact O0].
  pose proof (Hok f eq_refl) as Hf. cbv beta zeta.
  do 10 (apply (pr_clean _ _ _ _ _ (live_blocks h0)); [assumption | assumption || reflexivity |];
         intros ? ? ? ?; cbv beta iota).
  rewrite (extract_exact f Hf). cbn [bind]. cbv beta zeta.
  apply (prg_clean _ _ _ _ _ (live_blocks h0)); [assumption | assumption|]. intros ? ? ? HL11. cbv beta iota.
  apply free_frame_bind. rewrite HL11. exact O0.
Qed.
