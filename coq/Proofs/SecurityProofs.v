(* Proofs for C08 (first half): the generated selector tables, the enumerate routines and the RSN / WPA
   element decoders of Model/Security.v are exactly Spec/SecuritySpec.v. *)
From LW Require Import Base.Bytes Base.Sweep Gen.Consts Gen.Layout Gen.Tables Model.Security Spec.SecuritySpec.
From Coq Require Import Lia ZifyBool.
Local Open Scope Z_scope.

Ltac zl := unfold byte in *; lia.

(* ---------- tables ---------- *)
Definition tbl (t : list (Z * Z)) (sel : Z) : Z := match lookup_z sel t with Some f => f | None => 0 end.

Definition tcheck (sel : Z) : bool :=
  (tbl rsn_group_table sel =? s_rsn_group sel) && (tbl rsn_pairwise_table sel =? s_rsn_pairwise sel) &&
  (tbl rsn_akm_table sel =? s_rsn_akm sel) && (tbl wpa_group_table sel =? s_wpa_group sel) &&
  (tbl wpa_pairwise_table sel =? s_wpa_pairwise sel) && (tbl wpa_akm_table sel =? s_wpa_akm sel).

Lemma tcheck_sweep : forallb tcheck (zrange 0 256) = true.
Proof. vm_compute. reflexivity. Qed.

Lemma tbl_outside t sel : keys_in 0 255 t = true -> sel < 0 \/ 255 < sel -> tbl t sel = 0.
Proof. intros K H. unfold tbl. rewrite (lookup_z_outside 0 255 t sel K H). reflexivity. Qed.

Lemma tables_exact : forall sel : Z,
  tbl rsn_group_table sel = s_rsn_group sel /\ tbl rsn_pairwise_table sel = s_rsn_pairwise sel /\
  tbl rsn_akm_table sel = s_rsn_akm sel /\ tbl wpa_group_table sel = s_wpa_group sel /\
  tbl wpa_pairwise_table sel = s_wpa_pairwise sel /\ tbl wpa_akm_table sel = s_wpa_akm sel.
Proof.
  intros sel.
  destruct (Z_lt_dec sel 0) as [Hlo|Hlo]; [|destruct (Z_lt_dec 255 sel) as [Hhi|Hhi]].
  - rewrite !tbl_outside by (try (vm_compute; reflexivity); lia).
    unfold s_rsn_group, s_rsn_pairwise, s_rsn_akm, s_akm_bit, s_wpa_group, s_wpa_pairwise, s_wpa_akm.
    repeat split;
      repeat match goal with |- context [if ?c then _ else _] => destruct c eqn:?; try lia end; reflexivity.
  - rewrite !tbl_outside by (try (vm_compute; reflexivity); lia).
    unfold s_rsn_group, s_rsn_pairwise, s_rsn_akm, s_akm_bit, s_wpa_group, s_wpa_pairwise, s_wpa_akm.
    repeat split;
      repeat match goal with |- context [if ?c then _ else _] => destruct c eqn:?; try lia end; reflexivity.
  - pose proof (forallb_zrange _ 0 256 tcheck_sweep sel ltac:(lia)) as H.
    unfold tcheck in H.
    repeat match type of H with (_ && _ = true) => let H' := fresh in apply andb_prop in H as [H H'];
      apply Z.eqb_eq in H' end.
    apply Z.eqb_eq in H. auto 10.
Qed.

Lemma sec_constants :
  rsn_oui = IEEE_OUI /\ wpa_oui = MSFT_OUI /\ c_WEP = F_WEP /\ c_WPA = F_WPA /\ c_WPA2 = F_WPA2 /\ c_WPA3 = F_WPA3 /\
  c_MICROSOFT_OUI = MSFT_OUI /\ c_LIBWIFI_MAX_CIPHER_SUITES = 6.
Proof. repeat split; reflexivity. Qed.

(* ---------- flags ---------- *)
Lemma fold_lor_map {A} (f g : A -> Z) : (forall s, f s = g s) ->
  forall l acc, fold_left (fun a s => Z.lor a (f s)) l acc = fold_left Z.lor (map g l) acc.
Proof.
  intros E. induction l as [|x l IH]; intros acc; [reflexivity|].
  cbn [fold_left map]. rewrite E. apply IH.
Qed.

Lemma suite_flags_exact oui t sf s : (forall sel, tbl t sel = sf sel) ->
  suite_flags oui t s = s_suite_flag oui sf s.
Proof.
  intros E. unfold suite_flags, s_suite_flag. destruct (oui_eqb (fst s) oui); [|reflexivity].
  apply E.
Qed.

Lemma suites_flags_exact oui t sf l : (forall sel, tbl t sel = sf sel) ->
  suites_flags oui t l = s_or (map (s_suite_flag oui sf) l).
Proof.
  intros E. unfold suites_flags, s_or. apply fold_lor_map. intros s. apply suite_flags_exact. exact E.
Qed.

Lemma enumerate_rsn_exact ri : enumerate_rsn ri = s_rsn_flags ri.
Proof.
  unfold enumerate_rsn, s_rsn_flags. change rsn_oui with IEEE_OUI.
  rewrite (suite_flags_exact IEEE_OUI rsn_group_table s_rsn_group) by (intros; apply tables_exact).
  rewrite (suites_flags_exact IEEE_OUI rsn_pairwise_table s_rsn_pairwise) by (intros; apply tables_exact).
  rewrite (suites_flags_exact IEEE_OUI rsn_akm_table s_rsn_akm) by (intros; apply tables_exact).
  reflexivity.
Qed.
Lemma enumerate_wpa_exact wi : enumerate_wpa wi = s_wpa_flags wi.
Proof.
  unfold enumerate_wpa, s_wpa_flags. change wpa_oui with MSFT_OUI.
  rewrite (suite_flags_exact MSFT_OUI wpa_group_table s_wpa_group) by (intros; apply tables_exact).
  rewrite (suites_flags_exact MSFT_OUI wpa_pairwise_table s_wpa_pairwise) by (intros; apply tables_exact).
  rewrite (suites_flags_exact MSFT_OUI wpa_akm_table s_wpa_akm) by (intros; apply tables_exact).
  reflexivity.
Qed.

Lemma flags_exact : forall ri wi, enumerate_rsn ri = s_rsn_flags ri /\ enumerate_wpa wi = s_wpa_flags wi.
Proof. intros. split; [apply enumerate_rsn_exact | apply enumerate_wpa_exact]. Qed.

(* ---------- slices of slices ---------- *)
Lemma slice_slice {A} (l : list A) base len o n :
  0 <= base -> 0 <= o -> 0 <= n -> o + n <= len ->
  slice o n (slice base len l) = slice (base + o) n l.
Proof.
  intros Hb Ho Hn Hl. unfold slice, zfirstn, zskipn.
  rewrite skipn_firstn_comm, firstn_firstn, skipn_skipn'.
  replace (Nat.min (Z.to_nat n) (Z.to_nat len - Z.to_nat o)) with (Z.to_nat n) by lia.
  replace (Z.to_nat o + Z.to_nat base)%nat with (Z.to_nat (base + o)) by lia.
  reflexivity.
Qed.

Lemma nth_firstn_lt {A} (d : A) : forall n i l, (i < n)%nat -> nth i (firstn n l) d = nth i l d.
Proof.
  induction n as [|n IH]; intros i l H; [lia|].
  destruct l as [|x l]; [reflexivity|]. destruct i as [|i]; [reflexivity|].
  cbn [firstn nth]. apply IH. lia.
Qed.

Lemma znth_slice (l : list byte) base len o : 0 <= base -> 0 <= o < len ->
  znth (slice base len l) o = znth l (base + o).
Proof.
  intros Hb Ho. unfold slice, zfirstn, zskipn, znth.
  rewrite nth_firstn_lt by lia. rewrite nth_skipn'. f_equal. lia.
Qed.

Lemma zlen_slice {A} (l : list A) base len : 0 <= base -> 0 <= len -> base + len <= zlen l ->
  zlen (slice base len l) = len.
Proof.
  intros Hb Hl H. unfold slice, zfirstn, zskipn. rewrite zlen_firstn; [reflexivity|].
  rewrite zlen_skipn by lia. lia.
Qed.

Lemma le16_slice (l : list byte) base len o : 0 <= base -> 0 <= o -> o + 2 <= len ->
  le16 (slice base len l) o = le16 l (base + o).
Proof. intros. unfold le16. rewrite slice_slice by lia. reflexivity. Qed.

Lemma wfbytes_slice (l : list byte) off n : wfbytes l -> wfbytes (slice off n l).
Proof. intros H. unfold slice, zfirstn, zskipn. apply wfbytes_firstn, wfbytes_skipn, H. Qed.

Lemma le16_nonneg (l : list byte) off : wfbytes l -> 0 <= le16 l off.
Proof. intros H. unfold le16. apply le_dec_bound. apply wfbytes_slice. exact H. Qed.

Lemma s_suite_list_off b o l o' : wfbytes b -> 0 <= o -> s_suite_list b o = Some (l, o') -> 0 <= o'.
Proof.
  intros Hwf Ho E. unfold s_suite_list in E. pose proof (le16_nonneg b o Hwf).
  destruct (zlen b <? o + 2); [discriminate|].
  destruct (zlen b <? o + 2 + 4 * le16 b o); [discriminate|].
  assert (o' = o + 2 + 4 * le16 b o) by congruence. lia.
Qed.

(* ---------- reads through an agreeing oracle ---------- *)
Section Dec.
  Variable buf : list byte.
  Variable rd : Z -> res byte.
  Hypothesis Hwf : wfbytes buf.
  Hypothesis Hag : agrees rd buf.

  Lemma rd_slice n p : 0 <= p -> 0 <= n -> p + n <= zlen buf ->
    rd_bytes rd (Z.to_nat n) p = Done (slice p n buf).
  Proof. intros. rewrite (rd_bytes_agrees rd buf Hag) by lia. reflexivity. Qed.

  Lemma rd_le16 p : 0 <= p -> p + 2 <= zlen buf -> rd_le rd 2 p = Done (le16 buf p).
  Proof.
    intros. unfold rd_le. change 2%nat with (Z.to_nat 2). rewrite rd_slice by lia. reflexivity.
  Qed.

  Lemma rd_suite_abs p : 0 <= p -> p + 4 <= zlen buf ->
    rd_suite rd p = Done (slice p 3 buf, znth buf (p + 3)).
  Proof.
    intros. unfold rd_suite. change 3%nat with (Z.to_nat 3). rewrite rd_slice by lia. cbn [bind].
    rewrite Hag by lia. reflexivity.
  Qed.

  Variables base len : Z.
  Hypothesis Hbase : 0 <= base.
  Hypothesis Hlen : 0 <= len.
  Hypothesis Hfit : base + len <= zlen buf.
  Let b := slice base len buf.

  Lemma b_len : zlen b = len.
  Proof. apply zlen_slice; assumption. Qed.

  Lemma rd_suite_exact o : 0 <= o -> o + 4 <= len -> rd_suite rd (base + o) = Done (s_suite_at b o).
  Proof.
    intros. rewrite rd_suite_abs by lia. unfold s_suite_at, b.
    rewrite slice_slice by lia. rewrite znth_slice by lia.
    replace (base + (o + 3)) with (base + o + 3) by lia. reflexivity.
  Qed.

  Lemma rd_suites_exact : forall n o, 0 <= o -> o + 4 * Z.of_nat n <= len ->
    rd_suites rd n (base + o) = Done (s_suites n b o).
  Proof.
    induction n as [|n IH]; intros o Ho Hl; [reflexivity|].
    cbn [rd_suites s_suites]. rewrite rd_suite_exact by lia. cbn [bind].
    change suite_len with 4. replace (base + o + 4) with (base + (o + 4)) by lia.
    rewrite IH by lia. reflexivity.
  Qed.

  Lemma rd_le16_exact o : 0 <= o -> o + 2 <= len -> rd_le rd 2 (base + o) = Done (le16 b o).
  Proof. intros. rewrite rd_le16 by lia. unfold b. rewrite le16_slice by lia. reflexivity. Qed.

  Lemma rd_suite_list_exact o : 0 <= o ->
    rd_suite_list rd (base + o) (base + len) =
      Done (match s_suite_list b o with None => Err (- EINVAL) | Some (l, o') => Ok (l, base + o') end).
  Proof.
    intros Ho. unfold rd_suite_list, s_suite_list. rewrite b_len.
    destruct (base + len <? base + o + 2) eqn:C0.
    - destruct (len <? o + 2) eqn:C0'; [reflexivity|lia].
    - destruct (len <? o + 2) eqn:C0'; [lia|].
      rewrite rd_le16_exact by lia. cbn [bind].
      pose proof (le16_nonneg b o (wfbytes_slice _ _ _ Hwf)) as Hc.
      change max_suites with 6. change suite_len with 4.
      set (d := le16 b o) in *.
      destruct (base + len - (base + o + 2) <? d * 4) eqn:C1.
      + destruct (len <? o + 2 + 4 * d) eqn:C1'; [reflexivity|lia].
      + destruct (len <? o + 2 + 4 * d) eqn:C1'; [lia|].
        assert (Hm : (if 6 <? d then 6 else d) = Z.min d 6)
          by (destruct (6 <? d) eqn:?; lia).
        rewrite Hm.
        replace (base + o + 2) with (base + (o + 2)) by lia.
        rewrite rd_suites_exact by lia. cbn [bind].
        do 3 f_equal. lia.
  Qed.
End Dec.

Lemma rsn_decode_exact : forall buf rd base len, wfbytes buf -> agrees rd buf ->
  0 <= base -> 0 <= len -> base + len <= zlen buf ->
  get_rsn_info rd base (base + len) =
    Done (match s_rsn_decode (slice base len buf) with Some i => Ok i | None => Err (- EINVAL) end).
Proof.
  intros buf rd base len Hwf Hag Hb Hl0 Hfit.
  unfold get_rsn_info, s_rsn_decode.
  rewrite (b_len buf base len Hb Hl0 Hfit).
  change suite_len with 4.
  destruct (base + len - base <? 2 + 4) eqn:C6'; destruct (len <? 6) eqn:C6; try lia; [reflexivity|].
  assert (Hv : rd_le rd 2 base = Done (le16 (slice base len buf) 0)).
  { pose proof (rd_le16_exact buf rd Hag base len Hb Hfit 0 ltac:(lia) ltac:(lia)) as Hv.
    rewrite Z.add_0_r in Hv. exact Hv. }
  rewrite Hv. cbn [bind].
  rewrite (rd_suite_exact buf rd Hag base len Hb Hfit) by lia. cbn [bind].
  destruct (base + len =? base + 2 + 4) eqn:Ce; destruct (len =? 6) eqn:Ce'; try lia; [reflexivity|].
  destruct (base + len <? base + 2 + 4) eqn:C; [lia|].
  replace (base + 2 + 4) with (base + 6) by lia.
  rewrite (rd_suite_list_exact buf rd Hwf Hag base len Hb Hl0 Hfit) by lia. cbn [bind].
  destruct (s_suite_list (slice base len buf) 6) as [[pw o2]|] eqn:E1; [|reflexivity].
  assert (Ho2 : 0 <= o2).
  { eapply s_suite_list_off; [apply wfbytes_slice; exact Hwf | | exact E1]; lia. }
  destruct (base + len =? base + o2) eqn:Cf; destruct (len =? o2) eqn:Cf'; try lia; [reflexivity|].
  rewrite (rd_suite_list_exact buf rd Hwf Hag base len Hb Hl0 Hfit) by lia. cbn [bind].
  destruct (s_suite_list (slice base len buf) o2) as [[ak o3]|] eqn:E2; [|reflexivity].
  assert (Ho3 : 0 <= o3).
  { eapply s_suite_list_off; [apply wfbytes_slice; exact Hwf | | exact E2]; lia. }
  destruct (base + len <? base + o3 + 2) eqn:C3.
  - destruct (len <? o3 + 2) eqn:C3'; [|lia]. reflexivity.
  - destruct (len <? o3 + 2) eqn:C3'; [lia|].
    rewrite (rd_le16_exact buf rd Hag base len Hb Hfit) by lia. reflexivity.
Qed.

(* the WPA decoder is called behind the h-octet header of the element body: h = 4 (OUI, type) when called by the
   Microsoft element handler, h = 0 when called directly on a byte range.  A body shorter than h + 6 octets (even
   shorter than the header) is refused before any read *)
Definition s_wpa_decode_h (h : Z) (b : list byte) : option wpa_info :=
  if zlen b <? h + 6 then None else
  if zlen b =? h + 6 then Some {| wi_version := le16 b h; wi_multicast := s_suite_at b (h + 2); wi_unicast := []; wi_akms := [] |} else
  match s_suite_list b (h + 6) with
  | None => None
  | Some (uc, o2) =>
    if zlen b =? o2 then Some {| wi_version := le16 b h; wi_multicast := s_suite_at b (h + 2); wi_unicast := uc; wi_akms := [] |} else
    match s_suite_list b o2 with
    | None => None
    | Some (ak, _) => Some {| wi_version := le16 b h; wi_multicast := s_suite_at b (h + 2); wi_unicast := uc; wi_akms := ak |}
    end
  end.
Lemma s_wpa_decode_h4 b : s_wpa_decode_h 4 b = s_wpa_decode b.
Proof. reflexivity. Qed.

Lemma wpa_decode_exact_h : forall h buf rd base len, wfbytes buf -> agrees rd buf ->
  0 <= h -> 0 <= base -> 0 <= len -> base + len <= zlen buf ->
  get_wpa_info rd (base + h) (base + len) =
    Done (match s_wpa_decode_h h (slice base len buf) with Some i => Ok i | None => Err (- EINVAL) end).
Proof.
  intros h buf rd base len Hwf Hag Hh Hb Hl0 Hfit.
  unfold get_wpa_info, s_wpa_decode_h.
  rewrite (b_len buf base len Hb Hl0 Hfit).
  change suite_len with 4.
  destruct (base + len - (base + h) <? 2 + 4) eqn:C6'; destruct (len <? h + 6) eqn:C6; try lia; [reflexivity|].
  rewrite (rd_le16_exact buf rd Hag base len Hb Hfit) by lia. cbn [bind].
  replace (base + h + 2) with (base + (h + 2)) by lia.
  rewrite (rd_suite_exact buf rd Hag base len Hb Hfit) by lia. cbn [bind].
  destruct (base + len =? base + (h + 2) + 4) eqn:Ce; destruct (len =? h + 6) eqn:Ce'; try lia; [reflexivity|].
  destruct (base + len <? base + (h + 2) + 4) eqn:C; [lia|].
  replace (base + (h + 2) + 4) with (base + (h + 6)) by lia.
  rewrite (rd_suite_list_exact buf rd Hwf Hag base len Hb Hl0 Hfit) by lia. cbn [bind].
  destruct (s_suite_list (slice base len buf) (h + 6)) as [[pw o2]|] eqn:E1; [|reflexivity].
  assert (Ho2 : 0 <= o2).
  { eapply s_suite_list_off; [apply wfbytes_slice; exact Hwf | | exact E1]; lia. }
  destruct (base + len =? base + o2) eqn:Cf; destruct (len =? o2) eqn:Cf'; try lia; [reflexivity|].
  rewrite (rd_suite_list_exact buf rd Hwf Hag base len Hb Hl0 Hfit) by lia. cbn [bind].
  destruct (s_suite_list (slice base len buf) o2) as [[ak o3]|] eqn:E2; reflexivity.
Qed.

Lemma wpa_decode_exact : forall buf rd base len, wfbytes buf -> agrees rd buf ->
  0 <= base -> 0 <= len -> base + len <= zlen buf ->
  get_wpa_info rd (base + 4) (base + len) =
    Done (match s_wpa_decode (slice base len buf) with Some i => Ok i | None => Err (- EINVAL) end).
Proof. intros. rewrite <- s_wpa_decode_h4. apply wpa_decode_exact_h; assumption || lia. Qed.
