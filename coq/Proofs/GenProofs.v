(* C03/C07 proofs: Proofs.GenProofs1 (list/put algebra, C07), Proofs.GenProofs2 (C03). *)
From LW Require Import Model.TagIter.
From LW Require Export Proofs.GenProofs1 Proofs.GenProofs2.
(* Properties_C03.v writes EINVAL without importing the module that defines it (Model.TagIter is only
   loaded through Model.Gen): make the very constant g_dump uses available under its short name *)
Notation EINVAL := LW.Model.TagIter.EINVAL (only parsing).
