(* Two more whole passes of ieee80211_radiotap_iterator_next AS TRANSLATED under execg, for ALL values in range:
   - rtnext_code_undefined_field: a present bit whose field number is not in the radiotap namespace's table (n_bits <= index, bit not
     29 / 30 / 31) while the radiotap namespace is current: -ENOENT from the default group of the FIRST switch, nothing else done;
   - rtnext_code_unknown_ns_skip: a present bit while NO namespace is current (after an unregistered vendor namespace): align = 0,
     _arg := _next_ns_data, and  goto next_entry  - out of an `if` inside the default group of the first switch, past the rest of
     the loop body, INTO the default group of the second switch: shifter >> 1, index + 1, the loop goes on. *)
From Coq Require Import ZArith String List Bool Lia.
From LW Require Import Base.Bytes Base.CExpr Base.CGoto Gen.Consts Gen.Rtap Gen.Sites Proofs.SitesLemmas
  Proofs.SitesRadiotapIter Proofs.CodeRadiotapNextPass Proofs.CodeRadiotapNextHit Proofs.CodeRadiotapNextReset Model.Radiotap.
Import ListNotations.
Local Open Scope string_scope.
Local Open Scope Z_scope.

(* a jump out of a group of a switch whose own default group does not hold the label continues in the rest of the list *)
Lemma execg_switch_jump_out f m rho tr k e cases d r v lab rho1 tr1 r2 :
  ceval rho m e = Some v -> execg f m rho tr (pick_case v cases d) = GJumped lab rho1 tr1 ->
  after_label lab d = None -> landing lab r = Some r2 ->
  execg (S f) m rho tr (SSwitch k e cases d :: r) = execg f m rho1 tr1 r2.
Proof. intros He H Hl Hr. cbn [execg]. rewrite He, H, Hl, Hr. reflexivity. Qed.

Lemma execg_if_true_jumped f m rho tr k c a b r v lab rho1 tr1 :
  ceval rho m c = Some v -> v <> 0 -> execg f m rho tr a = GJumped lab rho1 tr1 -> landing lab r = None ->
  execg (S f) m rho tr (SIf k c a b :: r) = GJumped lab rho1 tr1.
Proof.
  intros Hc Hv H Hl. cbn [execg]. rewrite Hc. destruct (Z.eqb_spec v 0); [contradiction | ]. cbn [negb]. rewrite H, Hl. reflexivity.
Qed.

Lemma execg_if_true_returned f m rho tr k c a b r v w rho1 tr1 :
  ceval rho m c = Some v -> v <> 0 -> execg f m rho tr a = GReturned w rho1 tr1 ->
  execg (S f) m rho tr (SIf k c a b :: r) = GReturned w rho1 tr1.
Proof. intros Hc Hv H. cbn [execg]. rewrite Hc. destruct (Z.eqb_spec v 0); [contradiction | ]. cbn [negb]. rewrite H. reflexivity. Qed.

Lemma execg_switch_returned f m rho tr k e cases d r v w rho1 tr1 :
  ceval rho m e = Some v -> execg f m rho tr (pick_case v cases d) = GReturned w rho1 tr1 ->
  execg (S f) m rho tr (SSwitch k e cases d :: r) = GReturned w rho1 tr1.
Proof. intros He H. cbn [execg]. rewrite He, H. reflexivity. Qed.

Definition tail_after_switch0 : list cstmt := skipn 1 (skipn 7 rtnext_loop_body).
Lemma landing_after_switch0 :
  landing "next_entry" tail_after_switch0 = Some (SSwitch "switch#1" (CLit (mkty true 32) 0) [] next_entry_tail :: after_switch1).
Proof. vm_compute. reflexivity. Qed.
Lemma tail7_split : rtnext_tail7 = rtnext_switch0 :: tail_after_switch0.
Proof. Transparent rtnext_tail7. reflexivity. Qed.
Global Opaque rtnext_tail7 tail_after_switch0.

Section Skip.
Variable m : memory.

Lemma pick0_default idx :
  idx mod 32 <> 29 -> idx mod 32 <> 30 -> idx mod 32 <> 31 ->
  pick_case (idx mod 32) [([29; 31], rtnext_case_special); ([30], rtnext_case_vendor)] rtnext_case_default = rtnext_case_default.
Proof.
  intros H1 H2 H3. rewrite rtnext_switch0_pick. change c_IEEE80211_RADIOTAP_RADIOTAP_NAMESPACE with 29.
  change c_IEEE80211_RADIOTAP_EXT with 31. change c_IEEE80211_RADIOTAP_VENDOR_NAMESPACE with 30.
  destruct (Z.eqb_spec (idx mod 32) 29); [contradiction | ]. destruct (Z.eqb_spec (idx mod 32) 31); [contradiction | ].
  destruct (Z.eqb_spec (idx mod 32) 30); [contradiction | ]. reflexivity.
Qed.

Theorem rtnext_code_undefined_field rho tr idx sh rns F :
  rho "iterator->_arg_index" = idx -> rho "iterator->_bitmap_shifter" = sh -> rho "iterator->current_namespace" = rns ->
  rho "&radiotap_ns" = rns ->
  rtap_n_bits <= idx < 2 ^ 31 -> idx mod 32 <> 29 -> idx mod 32 <> 30 -> idx mod 32 <> 31 -> 0 <= sh < 2 ^ 32 -> Z.odd sh = true ->
  0 < rns < 2 ^ 62 -> load_le m (rns + 8) 4 = Some rtap_n_bits ->
  exists rho', execg (40 + F) m rho tr body_ieee80211_radiotap_iterator_next = GReturned (Some (- ENOENT)) rho' tr.
Proof.
  intros Hi Hs Hns Hrns Ri H29 H30 H31 Rs Hodd Rn Hnb. change rtap_n_bits with 23 in *.
  set (r0 := locals0 rho).
  destruct (site_rtnext_if0 m r0 idx sh Hi Hs ltac:(nums; lia) Rs) as (Hc0 & _).
  rewrite Hodd in Hc0. rewrite andb_false_r in Hc0. cbn [b2z] in Hc0.
  pose proof (site_rtnext_if1 m r0 sh Hs Rs) as Hc1. rewrite Hodd in Hc1. cbn [negb b2z] in Hc1.
  destruct (site_rtnext_switch m r0 idx Hi ltac:(nums; lia)) as (Hsw0 & _).
  pose proof (site_rtnext_if2 m r0 rns idx 23 Hns Hi Rn ltac:(nums; lia) Hnb ltac:(nums; lia)) as Hc2.
  destruct (Z.ltb_spec idx 23) as [? | _]; [lia | ]. cbn [negb b2z] in Hc2.
  destruct (site_rtnext_if3 m r0 rns rns Hns Hrns ltac:(nums; lia) ltac:(nums; lia)) as (Hc3 & Hr1).
  rewrite Z.eqb_refl in Hc3. cbn [b2z] in Hc3.
  exists r0. cbn [Nat.add]. apply rtnext_pass_returns.
  rewrite rtnext_loop_body_head.
  do 5 (rewrite execg_set with (v := 0) by reflexivity). fold (locals0 rho). fold r0.
  rewrite execg_if_skip by exact Hc0. rewrite execg_if_skip by exact Hc1.
  rewrite tail7_split, rtnext_switch0_shape.
  apply (execg_switch_returned _ m r0 tr _ _ _ _ _ (idx mod 32) (Some (- ENOENT)) r0 tr Hsw0).
  rewrite pick0_default by assumption. unfold rtnext_case_default.
  apply (execg_if_true_returned _ m r0 tr _ _ _ _ _ 1 (Some (- ENOENT)) r0 tr Hc2 ltac:(discriminate)).
  apply execg_if_ret with (v := 1) (w := - ENOENT); [exact Hc3 | discriminate | exact Hr1].
Qed.

Theorem rtnext_code_unknown_ns_skip rho tr idx sh nnd rns F :
  rho "iterator->_arg_index" = idx -> rho "iterator->_bitmap_shifter" = sh -> rho "iterator->current_namespace" = 0 ->
  rho "&radiotap_ns" = rns -> rho "iterator->_next_ns_data" = nnd ->
  0 <= idx < 2 ^ 31 - 1 -> idx mod 32 <> 29 -> idx mod 32 <> 30 -> idx mod 32 <> 31 -> 0 <= sh < 2 ^ 32 -> Z.odd sh = true ->
  0 < rns < 2 ^ 64 -> 0 <= nnd < 2 ^ 64 ->
  exists rho', execg (40 + F) m rho tr body_ieee80211_radiotap_iterator_next =
               execg (39 + F) m rho' tr body_ieee80211_radiotap_iterator_next /\
    rho' "iterator->_arg" = nnd /\ rho' "iterator->current_namespace" = 0 /\
    rho' "iterator->_bitmap_shifter" = Z.shiftr sh 1 /\ rho' "iterator->_arg_index" = idx + 1 /\
    rho' "iterator->_max_length" = rho "iterator->_max_length" /\ rho' "iterator->_rtheader" = rho "iterator->_rtheader" /\
    rho' "iterator->_next_bitmap" = rho "iterator->_next_bitmap" /\ rho' "iterator->_reset_on_ext" = rho "iterator->_reset_on_ext".
Proof.
  intros Hi Hs Hns Hrns Hnnd Ri H29 H30 H31 Rs Hodd Rr Rnnd.
  set (r0 := locals0 rho).
  destruct (site_rtnext_if0 m r0 idx sh Hi Hs ltac:(nums; lia) Rs) as (Hc0 & _).
  rewrite Hodd in Hc0. rewrite andb_false_r in Hc0. cbn [b2z] in Hc0.
  pose proof (site_rtnext_if1 m r0 sh Hs Rs) as Hc1. rewrite Hodd in Hc1. cbn [negb b2z] in Hc1.
  destruct (site_rtnext_switch m r0 idx Hi ltac:(nums; lia)) as (Hsw0 & _).
  pose proof (site_rtnext_if2_null m r0 Hns) as Hc2.
  destruct (site_rtnext_if3 m r0 0 rns Hns Hrns ltac:(nums; lia) ltac:(nums; lia)) as (Hc3 & _).
  destruct (Z.eqb_spec 0 rns) as [? | _]; [lia | ]. cbn [b2z] in Hc3.
  set (r1 := upd r0 "align" 0).
  destruct (site_rtnext_if4 m r1 0 nnd eq_refl Hnnd ltac:(nums; lia) Rnnd) as (Hc4 & Hs1 & _).
  cbn [Z.eqb b2z] in Hc4.
  set (r2 := upd r1 "iterator->_arg" nnd).
  destruct (site_rtnext_if4 m r2 0 nnd eq_refl Hnnd ltac:(nums; lia) Rnnd) as (_ & _ & Hs2).
  set (r3 := upd r2 "iterator->current_namespace" 0).
  destruct (site_rtnext_next_entry m r3 sh idx Hs Hi Rs ltac:(nums; lia)) as (_ & Hsh & _).
  set (r4 := upd r3 "iterator->_bitmap_shifter" (Z.shiftr sh 1)).
  assert (Rs1 : 0 <= Z.shiftr sh 1 < 2 ^ 32).
  { rewrite Z.shiftr_div_pow2 by lia. change (2 ^ 1) with 2. nums. split; [apply Z.div_pos; lia | apply Z.div_lt_upper_bound; lia]. }
  destruct (site_rtnext_next_entry m r4 (Z.shiftr sh 1) idx eq_refl Hi Rs1 ltac:(nums; lia)) as (_ & _ & Hix).
  set (r5 := upd r4 "iterator->_arg_index" (idx + 1)).
  destruct (site_rtnext_if12 m r5 0 eq_refl ltac:(nums; lia)) as (Hc12 & _).
  exists r5. split; [ | repeat split; try reflexivity; assumption].
  cbn [Nat.add]. apply rtnext_pass.
  rewrite rtnext_loop_body_head.
  do 5 (rewrite execg_set with (v := 0) by reflexivity). fold (locals0 rho). fold r0.
  rewrite execg_if_skip by exact Hc0. rewrite execg_if_skip by exact Hc1.
  rewrite tail7_split, rtnext_switch0_shape.
  rewrite (execg_switch_jump_out _ m r0 tr _ _ _ _ _ (idx mod 32) "next_entry" r3 tr
             (SSwitch "switch#1" (CLit (mkty true 32) 0) [] next_entry_tail :: after_switch1) Hsw0).
  - (* landed: the label's statements as the second switch's body, then if (hit) *)
    rewrite (execg_switch_fell _ m r3 tr "switch#1" (CLit (mkty true 32) 0) [] next_entry_tail after_switch1 0 r5 tr eq_refl).
    + unfold after_switch1. rewrite execg_if_skip by exact Hc12. apply execg_nil.
    + change (pick_case 0 [] next_entry_tail) with next_entry_tail. unfold next_entry_tail.
      rewrite execg_set with (v := Z.shiftr sh 1) by exact Hsh. fold r4.
      rewrite execg_set with (v := idx + 1) by exact Hix. apply execg_nil.
  - rewrite pick0_default by assumption. unfold rtnext_case_default.
    rewrite (execg_if_true_fell _ m r0 tr _ _ _ _ _ 1 r1 tr Hc2 ltac:(discriminate)).
    + apply (execg_if_true_jumped _ m r1 tr _ _ _ _ _ 1 "next_entry" r3 tr Hc4 ltac:(discriminate)); [ | reflexivity].
      rewrite execg_set with (v := nnd) by exact Hs1. fold r2.
      rewrite execg_set with (v := 0) by exact Hs2. fold r3. apply execg_goto_next_entry.
    + rewrite execg_if_skip by exact Hc3.
      rewrite execg_set with (v := 0) by reflexivity. apply execg_nil.
  - reflexivity.
  - exact landing_after_switch0.
Qed.
End Skip.

Print Assumptions rtnext_code_undefined_field.
Print Assumptions rtnext_code_unknown_ns_skip.
