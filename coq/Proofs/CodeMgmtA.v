(* part of Proofs/CodeMgmt.v, split so that the parsers' proofs build in parallel *)
From Coq Require Import ZArith String Ascii List Bool Lia.
From LW Require Import Base.Bytes Base.CExpr Gen.Sites Proofs.SitesLemmas Proofs.CodeIter Proofs.CodeSecurity.
Import ListNotations.
Local Open Scope string_scope.
Local Open Scope Z_scope.
From LW Require Import Proofs.CodeMgmtDefs.

Theorem parse_assoc_req_ok :
  parser_ok body_libwifi_parse_assoc_req 0 4 "sta->tags.length" "sta->tags.parameters" (rule_le 4) sta_names.
Proof. unfold parser_ok, rule_le, sta_names. parser_tac body_libwifi_parse_assoc_req 0. Qed.

Theorem parse_reassoc_req_ok :
  parser_ok body_libwifi_parse_reassoc_req 2 10 "sta->tags.length" "sta->tags.parameters" (rule_le 10) sta_names.
Proof. unfold parser_ok, rule_le, sta_names. parser_tac body_libwifi_parse_reassoc_req 2. Qed.

Theorem parse_probe_req_ok :
  parser_ok body_libwifi_parse_probe_req 4 0 "sta->tags.length" "sta->tags.parameters" rule_none sta_names.
Proof. unfold parser_ok, rule_none, sta_names. parser_tac body_libwifi_parse_probe_req 4. Qed.

