(* Theorems about the translated C code itself (Gen/Sites.v, generated from the libwifi sources): every statement below
   is about the terms the translator produced, evaluated with the C integer semantics of Base/CExpr.v, for ALL values in
   the stated ranges.

   A. the dump routines copy exactly [buf, buf + length) when the length fits the caller's buffer and copy nothing otherwise;
   B. the arithmetic of the tag list / action detail editing routines;
   C. guards and lengths, site by site. *)
From Coq Require Import ZArith String List Bool Lia.
From LW Require Import Base.CExpr Gen.Sites Spec.CodeSpec Proofs.SitesLemmas.
Import ListNotations.
Local Open Scope string_scope.
Local Open Scope Z_scope.

(* every statement holds for EVERY memory: none of these routines' translated statements loads from it *)
Section WithMemory.
Variable m : memory.

Ltac nums :=
  change (2 ^ 64) with 18446744073709551616 in *; change (2 ^ 63) with 9223372036854775808 in *;
  change (2 ^ 62) with 4611686018427387904 in *; change (2 ^ 40) with 1099511627776 in *;
  change (2 ^ 32) with 4294967296 in *; change (2 ^ 31) with 2147483648 in *; change (10 ^ 9) with 1000000000 in *.

(* ================================================================ A. dump routines *)

Local Notation dump_ok := (CodeSpec.dump_ok m).

Ltac writes_ok := cbn [writes_from]; repeat split; lia.

Ltac dump_proof len_body dump_body :=
  let Hbuf := fresh "Hbuf" in let Hbl := fresh "Hbl" in let Hend := fresh "Hend" in let Htl := fresh "Htl" in
  let Hgt := fresh "Hgt" in let Hle := fresh "Hle" in
  cbv beta delta [CodeSpec.dump_ok]; intros ? ? ? ? Hbuf Hbl Hend Htl; cbv zeta; nums;
  eexists; split;
  [ unfold len_body; exec_run; cbn [observe]; reflexivity | ];
  unfold dump_body;
  match goal with |- context [if ?L >? ?b then _ else _] => destruct (Z.gtb_spec L b) as [Hgt | Hle] end;
  [ exists []; split; [ exec_run; cbn [observe app]; reflexivity | intros; lia ]
  | eexists; split; [ exec_run; cbn [observe app]; reflexivity | intros _; writes_ok ] ].

Theorem code_dump_beacon :
  dump_ok body_libwifi_get_beacon_length body_libwifi_dump_beacon
          "libwifi_get_beacon_length" "beacon" "beacon->tags.length" (2 ^ 63) (2 ^ 64 - 22).
Proof. dump_proof body_libwifi_get_beacon_length body_libwifi_dump_beacon. Qed.

Theorem code_dump_probe_req :
  dump_ok body_libwifi_get_probe_req_length body_libwifi_dump_probe_req
          "libwifi_get_probe_req_length" "probe_req" "probe_req->tags.length" (2 ^ 63) (2 ^ 64 - 22).
Proof. dump_proof body_libwifi_get_probe_req_length body_libwifi_dump_probe_req. Qed.

Theorem code_dump_probe_resp :
  dump_ok body_libwifi_get_probe_resp_length body_libwifi_dump_probe_resp
          "libwifi_get_probe_resp_length" "probe_resp" "probe_resp->tags.length" (2 ^ 63) (2 ^ 64 - 22).
Proof. dump_proof body_libwifi_get_probe_resp_length body_libwifi_dump_probe_resp. Qed.

Theorem code_dump_assoc_req :
  dump_ok body_libwifi_get_assoc_req_length body_libwifi_dump_assoc_req
          "libwifi_get_assoc_req_length" "assoc_req" "assoc_req->tags.length" (2 ^ 63) (2 ^ 64 - 22).
Proof. dump_proof body_libwifi_get_assoc_req_length body_libwifi_dump_assoc_req. Qed.

Theorem code_dump_assoc_resp :
  dump_ok body_libwifi_get_assoc_resp_length body_libwifi_dump_assoc_resp
          "libwifi_get_assoc_resp_length" "assoc_resp" "assoc_resp->tags.length" (2 ^ 63) (2 ^ 64 - 22).
Proof. dump_proof body_libwifi_get_assoc_resp_length body_libwifi_dump_assoc_resp. Qed.

Theorem code_dump_reassoc_req :
  dump_ok body_libwifi_get_reassoc_req_length body_libwifi_dump_reassoc_req
          "libwifi_get_reassoc_req_length" "reassoc_req" "reassoc_req->tags.length" (2 ^ 63) (2 ^ 64 - 22).
Proof. dump_proof body_libwifi_get_reassoc_req_length body_libwifi_dump_reassoc_req. Qed.

Theorem code_dump_reassoc_resp :
  dump_ok body_libwifi_get_reassoc_resp_length body_libwifi_dump_reassoc_resp
          "libwifi_get_reassoc_resp_length" "reassoc_resp" "reassoc_resp->tags.length" (2 ^ 63) (2 ^ 64 - 22).
Proof. dump_proof body_libwifi_get_reassoc_resp_length body_libwifi_dump_reassoc_resp. Qed.

Theorem code_dump_auth :
  dump_ok body_libwifi_get_auth_length body_libwifi_dump_auth
          "libwifi_get_auth_length" "auth" "auth->tags.length" (2 ^ 63) (2 ^ 64 - 22).
Proof. dump_proof body_libwifi_get_auth_length body_libwifi_dump_auth. Qed.

Theorem code_dump_deauth :
  dump_ok body_libwifi_get_deauth_length body_libwifi_dump_deauth
          "libwifi_get_deauth_length" "deauth" "deauth->tags.length" (2 ^ 63) (2 ^ 64 - 22).
Proof. dump_proof body_libwifi_get_deauth_length body_libwifi_dump_deauth. Qed.

Theorem code_dump_disassoc :
  dump_ok body_libwifi_get_disassoc_length body_libwifi_dump_disassoc
          "libwifi_get_disassoc_length" "disassoc" "disassoc->tags.length" (2 ^ 63) (2 ^ 64 - 22).
Proof. dump_proof body_libwifi_get_disassoc_length body_libwifi_dump_disassoc. Qed.

(* the timing advertisement routine reports the short buffer as -1, not -EINVAL *)
Theorem code_dump_timing_advert :
  dump_ok body_libwifi_get_timing_advert_length body_libwifi_dump_timing_advert
          "libwifi_get_timing_advert_length" "adv" "adv->tags.length" (2 ^ 63) (2 ^ 64 - 1).
Proof. dump_proof body_libwifi_get_timing_advert_length body_libwifi_dump_timing_advert. Qed.

(* the payload of an action frame is the detail, whose length is one octet *)
Theorem code_dump_action :
  dump_ok body_libwifi_get_action_length body_libwifi_dump_action
          "libwifi_get_action_length" "action" "action->fixed_parameters.details.detail_length" 256 (2 ^ 64 - 22).
Proof. dump_proof body_libwifi_get_action_length body_libwifi_dump_action. Qed.

Theorem code_dump_tag rho buf bl tl :
  0 <= buf -> 0 <= bl -> buf + bl < 2 ^ 63 -> 0 <= tl < 256 ->
  let rho0 := upd (upd (upd rho "buf" buf) "buf_len" bl) "tag->header.tag_len" tl in
  exists tr,
    observe (exec 60 m rho0 [] body_libwifi_dump_tag) =
      (if 2 + tl >? bl then Some (Some (2 ^ 64 - 22), []) else Some (Some (2 + tl), tr)) /\
    (2 + tl <= bl -> writes_from buf tr (buf + 2 + tl)).
Proof.
  intros Hbuf Hbl Hend Htl rho0; nums. unfold body_libwifi_dump_tag, rho0.
  destruct (Z.gtb_spec (2 + tl) bl) as [Hgt | Hle].
  - exists []. split; [ exec_run; cbn [observe app]; reflexivity | intros; lia ].
  - eexists. split; [ exec_run; cbn [observe app]; reflexivity | intros _; writes_ok ].
Qed.

(* Remark: the bound on the payload length matters.  2^63 is generous; what the routines need is that header + fixed
   parameters + payload does not wrap around 2^64.  With beacon->tags.length = 2^64 - 36 the length routine answers 0,
   the guard passes for an empty buffer, and the copies start anyway (24 octets at buf, 12 at buf + 24, ...). *)
Example code_dump_length_wraps :
  let rho0 := upd (upd (upd (fun _ => 0) "buf" 4096) "buf_len" 0) "beacon->tags.length" (2 ^ 64 - 36) in
  observe (exec 10 m rho0 [] body_libwifi_get_beacon_length) = Some (Some 0, []) /\
  observe (exec 60 m (upd rho0 "ret:libwifi_get_beacon_length" 0) [] body_libwifi_dump_beacon) =
    Some (Some 0, [("libwifi_get_beacon_length", [0]); ("memcpy", [4096; 0; 24]); ("memcpy", [4120; 0; 12]);
                   ("memcpy", [4132; 0; 2 ^ 64 - 36])]).
Proof. split; vm_compute; reflexivity. Qed.

(* ================================================================ B. tag list and action detail editing *)

(* len = tags->length, tl = tag->header.tag_len, p = tags->parameters, q = what the allocator answers. *)
Theorem code_add_tag rho len tl p q :
  0 <= len < 2 ^ 62 -> 0 <= tl < 256 -> 0 < p -> p + len + 257 < 2 ^ 63 ->
  (if (len =? 0)%Z then rho "ret:malloc" else rho "ret:realloc") = q ->
  0 <= q -> q + len + 257 < 2 ^ 63 ->
  let rho0 := upd (upd (upd rho "tags->length" len) "tag->header.tag_len" tl) "tags->parameters" p in
  let alloc := if (len =? 0)%Z then ("malloc", [2 + tl]) else ("realloc", [p; len + 2 + tl]) in
  if (q =? 0)%Z then observe (exec 40 m rho0 [] body_libwifi_add_tag) = Some (Some (-12), [alloc])
  else exists rho',
    exec 40 m rho0 [] body_libwifi_add_tag =
      Returned (Some 0) rho'
        [alloc; ("memcpy", [q + len; wrap u64 (rho "&tag->header"); 2]);
                ("memcpy", [q + len + 2; wrap u64 (rho "tag->body"); tl])] /\
    rho' "tags->length" = len + 2 + tl.
Proof.
  intros Hlen Htl Hp Hpend Hq Hq0 Hqend rho0 alloc; nums.
  unfold alloc, rho0, body_libwifi_add_tag; clear alloc rho0.
  destruct (Z.eqb_spec len 0) as [Elen | Nlen]; destruct (Z.eqb_spec q 0) as [Eq | Nq].
  - exec_run. cbn [observe app]. list_eq.
  - eexists. split.
    + exec_run. cbn [app]. apply Returned_eq; [reflexivity | reflexivity | list_eq].
    + cbv beta iota delta [upd String.eqb Ascii.eqb Bool.eqb]. lia.
  - exec_run. cbn [observe app]. list_eq.
  - eexists. split.
    + exec_run. cbn [app]. apply Returned_eq; [reflexivity | reflexivity | list_eq].
    + cbv beta iota delta [upd String.eqb Ascii.eqb Bool.eqb]. lia.
Qed.

(* dl = detail->detail_length, n = data_len, q = what the allocator answers.  A range for q is needed: the copy's
   destination is computed as the pointer sum q + dl, which has to stay an address (below 2^63), whence [q + dl < 2^63]. *)
Theorem code_add_action_detail rho dl n q :
  0 <= dl < 256 -> 0 <= n < 2 ^ 63 ->
  (if (dl =? 0)%Z then rho "ret:malloc" else rho "ret:realloc") = q ->
  0 <= q -> q + dl < 2 ^ 63 ->
  let rho0 := upd (upd rho "detail->detail_length" dl) "data_len" n in
  let alloc := if (dl =? 0)%Z then ("malloc", [n]) else ("realloc", [wrap u64 (rho "detail->detail"); n + dl]) in
  if (n =? 0)%Z then observe (exec 40 m rho0 [] body_libwifi_add_action_detail) = Some (Some dl, [])
  else if n + dl >? 255 then observe (exec 40 m rho0 [] body_libwifi_add_action_detail) = Some (Some (2 ^ 64 - 22), [])
  else if (q =? 0)%Z then observe (exec 40 m rho0 [] body_libwifi_add_action_detail) = Some (Some (2 ^ 64 - 12), [alloc])
  else exists rho',
    exec 40 m rho0 [] body_libwifi_add_action_detail =
      Returned (Some (dl + n)) rho' [alloc; ("memcpy", [q + dl; wrap u64 (rho "data"); n])] /\
    rho' "detail->detail_length" = dl + n.
Proof.
  intros Hdl Hn Hq Hq0 Hqend rho0 alloc; nums.
  unfold alloc, rho0, body_libwifi_add_action_detail; clear alloc rho0.
  destruct (Z.eqb_spec n 0) as [En | Nn].
  { exec_run. cbn [observe app]. reflexivity. }
  destruct (Z.gtb_spec (n + dl) 255) as [Hbig | Hfit].
  { exec_run. cbn [observe app]. reflexivity. }
  destruct (Z.eqb_spec dl 0) as [Edl | Ndl]; destruct (Z.eqb_spec q 0) as [Eq | Nq].
  - exec_run. cbn [observe app]. list_eq.
  - eexists. split.
    + exec_run. cbn [app]. apply Returned_eq; [f_equal; lia | reflexivity | list_eq].
    + cbv beta iota delta [upd String.eqb Ascii.eqb Bool.eqb]. lia.
  - exec_run. cbn [observe app]. list_eq.
  - eexists. split.
    + exec_run. cbn [app]. apply Returned_eq; [f_equal; lia | reflexivity | list_eq].
    + cbv beta iota delta [upd String.eqb Ascii.eqb Bool.eqb]. lia.
Qed.

(* ================================================================ C. guards and lengths, site by site *)

(* len = frame_len, frame = the address of the frame *)
Theorem code_frame_verify rho len frame :
  rho "frame_len" = len -> rho "frame" = frame ->
  (0 <= len < 2 ^ 64 -> ceval rho m (site sites_libwifi_frame_verify "if#0") = Some (b2z (len <? 4))) /\
  (4 <= len < 2 ^ 63 -> 0 <= frame -> frame + len < 2 ^ 63 ->
   ceval rho m (site sites_libwifi_frame_verify "call:libwifi_calculate_fcs#0:1") = Some (len - 4) /\
   ceval rho m (site sites_libwifi_frame_verify "call:memcpy#0:1") = Some (frame + len - 4) /\
   ceval rho m (site sites_libwifi_frame_verify "call:memcpy#0:2") = Some 4).
Proof.
  intros <- <-; nums. split; [intros Hlen | intros Hlen Hf Hend; split; [ | split]].
  - site_now sites_libwifi_frame_verify.
  - site_now sites_libwifi_frame_verify.
  - site_unfold sites_libwifi_frame_verify. wrap_ids. f_equal. lia.
  - site_now sites_libwifi_frame_verify.
Qed.

(* sec = spec.tv_sec, nsec = spec.tv_nsec *)
Theorem code_epoch rho sec nsec :
  rho "spec.tv_sec" = sec -> rho "spec.tv_nsec" = nsec ->
  0 <= sec < 2 ^ 40 -> 0 <= nsec < 10 ^ 9 ->
  ceval rho m (site sites_libwifi_get_epoch "ret#0") = Some (sec * 1000000 + nsec / 1000).
Proof.
  intros <- <- Hsec Hnsec; nums.
  pose proof (Z.div_pos (rho "spec.tv_nsec") 1000 ltac:(lia) ltac:(lia)) as Hd0.
  pose proof (Z.div_lt_upper_bound (rho "spec.tv_nsec") 1000 1000000 ltac:(lia) ltac:(lia)) as Hd1.
  site_unfold sites_libwifi_get_epoch. wrap_ids.
  change (1000 =? 0)%Z with false. cbv iota.
  rewrite Z.quot_div_nonneg by lia. wrap_ids. reflexivity.
Qed.

(* the CRC routine: one turn of the inner loop (mask, then the shifted and conditionally reduced register), the final
   complement, the header and the step of the outer loop (i = the index, n = message_len) *)
Theorem code_crc_step rho crc i n :
  0 <= crc < 2 ^ 32 -> 0 <= i < n -> n < 2 ^ 31 ->
  (exists mk,
     ceval (upd rho "crc" crc) m (site sites_libwifi_crc32 "set:mask#0") = Some mk /\
     ceval (upd (upd rho "crc" crc) "mask" mk) m (site sites_libwifi_crc32 "set:crc#2") =
       Some (Z.lxor (Z.shiftr crc 1) (if Z.odd crc then 3988292384 else 0))) /\
  ceval (upd rho "crc" crc) m (site sites_libwifi_crc32 "ret#0") = Some (Z.lxor crc 4294967295) /\
  ceval (upd (upd rho "i" i) "message_len" n) m (site sites_libwifi_crc32 "loop#0") = Some (b2z (i <? n)) /\
  ceval (upd (upd rho "i" i) "message_len" n) m (site sites_libwifi_crc32 "set:i#1") = Some (i + 1).
Proof.
  intros Hcrc Hi Hn; nums.
  pose proof (shiftr1_u32 crc Hcrc) as Hsh.
  split; [ | split; [ | split]].
  - exists (if Z.odd crc then 4294967295 else 0). split.
    + site_unfold sites_libwifi_crc32. wrap_ids. rewrite land_1_odd.
      destruct (Z.odd crc); reflexivity.
    + site_unfold sites_libwifi_crc32. wrap_ids. cbn [c_bits].
      change ((1 <? 0) || (32 <=? 1))%bool with false. cbv iota.
      destruct (Z.odd crc).
      * wrap_ids. change (Z.land 3988292384 4294967295) with 3988292384.
        pose proof (lxor_u32 (Z.shiftr crc 1) 3988292384 Hsh ltac:(lia)) as Hx. wrap_ids. reflexivity.
      * wrap_ids. change (Z.land 3988292384 0) with 0.
        pose proof (lxor_u32 (Z.shiftr crc 1) 0 Hsh ltac:(lia)) as Hx. wrap_ids. reflexivity.
  - site_unfold sites_libwifi_crc32. wrap_ids. rewrite lnot_u32 by lia. reflexivity.
  - site_now sites_libwifi_crc32.
  - site_now sites_libwifi_crc32.
Qed.

Local Notation length_site_ok := (CodeSpec.length_site_ok m).

Ltac length_proof S :=
  let H := fresh "H" in
  cbv beta delta [CodeSpec.length_site_ok]; intros ? H; nums; site_unfold S; wrap_ids; f_equal; lia.

Theorem code_length_routines :
  length_site_ok sites_libwifi_get_beacon_length "beacon->tags.length" (2 ^ 63) (24 + 12) /\
  length_site_ok sites_libwifi_get_probe_req_length "probe_req->tags.length" (2 ^ 63) 24 /\
  length_site_ok sites_libwifi_get_probe_resp_length "probe_resp->tags.length" (2 ^ 63) (24 + 12) /\
  length_site_ok sites_libwifi_get_assoc_req_length "assoc_req->tags.length" (2 ^ 63) (24 + 4) /\
  length_site_ok sites_libwifi_get_assoc_resp_length "assoc_resp->tags.length" (2 ^ 63) (24 + 6) /\
  length_site_ok sites_libwifi_get_reassoc_req_length "reassoc_req->tags.length" (2 ^ 63) (24 + 10) /\
  length_site_ok sites_libwifi_get_reassoc_resp_length "reassoc_resp->tags.length" (2 ^ 63) (24 + 6) /\
  length_site_ok sites_libwifi_get_auth_length "auth->tags.length" (2 ^ 63) (24 + 6) /\
  length_site_ok sites_libwifi_get_deauth_length "deauth->tags.length" (2 ^ 63) (24 + 2) /\
  length_site_ok sites_libwifi_get_disassoc_length "disassoc->tags.length" (2 ^ 63) (24 + 2) /\
  length_site_ok sites_libwifi_get_timing_advert_length "adv->tags.length" (2 ^ 63) (24 + 21) /\
  length_site_ok sites_libwifi_get_action_length "action->fixed_parameters.details.detail_length" 256 (24 + 1).
Proof.
  repeat apply conj.
  - length_proof sites_libwifi_get_beacon_length.
  - length_proof sites_libwifi_get_probe_req_length.
  - length_proof sites_libwifi_get_probe_resp_length.
  - length_proof sites_libwifi_get_assoc_req_length.
  - length_proof sites_libwifi_get_assoc_resp_length.
  - length_proof sites_libwifi_get_reassoc_req_length.
  - length_proof sites_libwifi_get_reassoc_resp_length.
  - length_proof sites_libwifi_get_auth_length.
  - length_proof sites_libwifi_get_deauth_length.
  - length_proof sites_libwifi_get_disassoc_length.
  - length_proof sites_libwifi_get_timing_advert_length.
  - length_proof sites_libwifi_get_action_length.
Qed.

(* ================================================================ what the theorems rest on *)
End WithMemory.

Print Assumptions code_dump_beacon.
Print Assumptions code_dump_probe_req.
Print Assumptions code_dump_probe_resp.
Print Assumptions code_dump_assoc_req.
Print Assumptions code_dump_assoc_resp.
Print Assumptions code_dump_reassoc_req.
Print Assumptions code_dump_reassoc_resp.
Print Assumptions code_dump_auth.
Print Assumptions code_dump_deauth.
Print Assumptions code_dump_disassoc.
Print Assumptions code_dump_timing_advert.
Print Assumptions code_dump_action.
Print Assumptions code_dump_tag.
Print Assumptions code_dump_length_wraps.
Print Assumptions code_add_tag.
Print Assumptions code_add_action_detail.
Print Assumptions code_frame_verify.
Print Assumptions code_epoch.
Print Assumptions code_crc_step.
Print Assumptions code_length_routines.
